(* C19 — lemmas about the model of the configuration layer (Model.v). *)
From Coq Require Import String Ascii.
From Coq Require Import List NArith ZArith Bool Decimal DecimalN Lia.
From Verif.C19 Require Import Gen_Units Model.
Import ListNotations.
Open Scope Z_scope.
Arguments is_digit : simpl never.
Arguments N.eqb : simpl never.
Arguments N.leb : simpl never.
Arguments N.ltb : simpl never.

(* ================================================================== strings *)
Lemma str_eqb_refl : forall a, str_eqb a a = true.
Proof. induction a; simpl; auto. rewrite N.eqb_refl. auto. Qed.

Lemma str_eqb_eq : forall a b, str_eqb a b = true <-> a = b.
Proof.
  induction a; destruct b; simpl; split; intros H; try discriminate; auto.
  - apply andb_true_iff in H. destruct H as [H1 H2]. apply N.eqb_eq in H1. apply IHa in H2. subst. auto.
  - inversion H; subst. rewrite N.eqb_refl. simpl. apply str_eqb_refl.
Qed.

Lemma str_eqb_neq : forall a b, str_eqb a b = false <-> a <> b.
Proof.
  intros. split; intros H.
  - intro E. apply str_eqb_eq in E. congruence.
  - destruct (str_eqb a b) eqn:E; auto. apply str_eqb_eq in E. contradiction.
Qed.

Lemma str_eqb_sym : forall a b, str_eqb a b = str_eqb b a.
Proof.
  intros. destruct (str_eqb a b) eqn:E.
  - apply str_eqb_eq in E. subst. symmetry. apply str_eqb_refl.
  - symmetry. apply str_eqb_neq. apply str_eqb_neq in E. congruence.
Qed.

(* ================================================================== decimal text *)
Lemma uint_codes_digits : forall d, forallb is_digit (uint_codes d) = true.
Proof. induction d; simpl; auto. Qed.

Lemma codes_uint_codes : forall d, codes_uint (uint_codes d) = d.
Proof. induction d; simpl; try rewrite IHd; auto. Qed.

Lemma parse_print_N : forall n, parse_N (print_N n) = n.
Proof. intros. unfold parse_N, print_N. rewrite codes_uint_codes. apply DecimalN.Unsigned.of_to. Qed.

Lemma print_N_digits : forall n, forallb is_digit (print_N n) = true.
Proof. intros. apply uint_codes_digits. Qed.

Lemma to_uint_nonnil : forall n, N.to_uint n <> Nil.
Proof.
  intros n H. assert (E := DecimalN.Unsigned.of_to n). rewrite H in E. simpl in E. subst n.
  simpl in H. discriminate.
Qed.

Lemma print_N_nonempty : forall n, print_N n <> [].
Proof.
  intros n H. unfold print_N in H. destruct (N.to_uint n) eqn:E; simpl in H; try discriminate.
  apply (to_uint_nonnil n E).
Qed.

Lemma span_digits_app : forall ds rest,
  forallb is_digit ds = true ->
  match rest with c :: _ => is_digit c = false | [] => True end ->
  span_digits (ds ++ rest) = (ds, rest).
Proof.
  induction ds; simpl; intros rest Hd Hr.
  - destruct rest; auto. simpl. rewrite Hr. auto.
  - apply andb_true_iff in Hd. destruct Hd as [Ha Hd]. rewrite Ha. rewrite (IHds rest Hd Hr). auto.
Qed.

Lemma is_digit_ascii : forall c, is_digit c = true -> N.ltb c 128 = true.
Proof.
  intros c H. unfold is_digit in H. apply andb_true_iff in H. destruct H as [_ H].
  apply N.leb_le in H. apply N.ltb_lt. lia.
Qed.

Lemma digits_ascii : forall l, forallb is_digit l = true -> is_ascii l = true.
Proof.
  induction l; simpl; auto. intros H. apply andb_true_iff in H. destruct H as [H1 H2].
  unfold is_ascii in *. simpl. rewrite (is_digit_ascii a H1). simpl. auto.
Qed.

Lemma is_ascii_app : forall a b, is_ascii (a ++ b) = is_ascii a && is_ascii b.
Proof. intros. unfold is_ascii. apply forallb_app. Qed.

Lemma print_Z_nonneg : forall z, 0 <= z -> print_Z z = print_N (Z.to_N z).
Proof. intros z H. destruct z; simpl; auto. lia. Qed.

Lemma head_digit_not_sign : forall n, exists c r, print_N n = c :: r /\ is_digit c = true.
Proof.
  intros n. destruct (print_N n) as [|c r] eqn:E.
  - exfalso. apply (print_N_nonempty n E).
  - exists c, r. split; auto. assert (H := print_N_digits n). rewrite E in H. simpl in H.
    apply andb_true_iff in H. tauto.
Qed.

Lemma digit_not_plus : forall c, is_digit c = true -> N.eqb c c_plus = false /\ N.eqb c c_minus = false.
Proof.
  intros c H. unfold is_digit in H. apply andb_true_iff in H. destruct H as [H1 H2].
  apply N.leb_le in H1. apply N.leb_le in H2. unfold c_plus, c_minus.
  split; apply N.eqb_neq; lia.
Qed.

(* signed_digits on  [-]? <digits of n> c rest   where c is not a digit *)
Lemma signed_digits_pos : forall n c rest, is_digit c = false ->
  signed_digits (print_N n ++ c :: rest) = Some (false, false, print_N n, c :: rest).
Proof.
  intros n c rest Hc. unfold signed_digits.
  destruct (head_digit_not_sign n) as [d [r [E Hd]]]. rewrite E. simpl.
  destruct (digit_not_plus d Hd) as [P M]. rewrite P, M.
  rewrite <- E. change (d :: r ++ c :: rest) with ((d :: r) ++ c :: rest). rewrite <- E.
  rewrite span_digits_app; auto using print_N_digits.
  rewrite E. auto.
Qed.

Lemma signed_digits_neg : forall n c rest, is_digit c = false ->
  signed_digits (c_minus :: print_N n ++ c :: rest) = Some (true, true, print_N n, c :: rest).
Proof.
  intros n c rest Hc. unfold signed_digits. simpl.
  rewrite span_digits_app; auto using print_N_digits.
  destruct (head_digit_not_sign n) as [d [r [E Hd]]]. rewrite E. auto.
Qed.

(* ================================================================== ISO-8601 *)
Lemma low_digits_digits : forall n u, 0 <= u -> forallb is_digit (low_digits n u) = true.
Proof.
  induction n; intros u Hu; cbn [low_digits]; auto. rewrite forallb_app. rewrite IHn.
  - cbn [forallb andb]. assert (Hd : 0 <= u mod 10 < 10) by (apply Z.mod_pos_bound; lia).
    set (d := u mod 10) in *.
    unfold is_digit. rewrite andb_true_r. apply andb_true_iff. split; apply N.leb_le; lia.
  - apply Z.div_pos; lia.
Qed.

Lemma rstrip0_digits : forall l, forallb is_digit l = true -> forallb is_digit (rstrip0 l) = true.
Proof.
  induction l; simpl; auto. intros H. apply andb_true_iff in H. destruct H as [Ha Hl].
  specialize (IHl Hl). destruct (rstrip0 l) eqn:E.
  - destruct (N.eqb a c_0); simpl; auto. rewrite Ha. auto.
  - simpl in *. rewrite Ha. simpl. auto.
Qed.

Lemma frac_value_nil : forall k, frac_value k [] = 0.
Proof. destruct k; reflexivity. Qed.

(* frac_value ignores stripped trailing zeros *)
Lemma frac_value_rstrip0 : forall l k, forallb is_digit l = true ->
  frac_value k (rstrip0 l) = frac_value k l.
Proof.
  induction l as [|a l IH]; intros k H; [reflexivity|].
  cbn [forallb] in H. apply andb_true_iff in H. destruct H as [Ha Hl].
  cbn [rstrip0].
  destruct k as [|k].
  - destruct (rstrip0 l); [destruct (N.eqb a c_0)|]; reflexivity.
  - pose proof (IH k Hl) as IHk. destruct (rstrip0 l) as [|r rs].
    + rewrite frac_value_nil in IHk. destruct (N.eqb a c_0) eqn:Ea.
      * apply N.eqb_eq in Ea. subst a. cbn [frac_value]. rewrite <- IHk.
        change (Z.of_N (c_0 - 48)%N) with 0. lia.
      * cbn [frac_value]. rewrite <- IHk. rewrite frac_value_nil. reflexivity.
    + cbn [frac_value]. rewrite IHk. reflexivity.
Qed.

Lemma frac_value_app : forall k a b, length a = k ->
  forall m, frac_value (k + m) (a ++ b) = frac_value k a * 10 ^ Z.of_nat m + frac_value m b.
Proof.
  induction k; intros a b Hl m; destruct a; simpl in Hl; try discriminate.
  - simpl. lia.
  - injection Hl as Hl. change ((n :: a) ++ b) with (n :: (a ++ b)). change (S k + m)%nat with (S (k + m)).
    cbn [frac_value]. rewrite (IHk a b Hl m).
    rewrite Nat2Z.inj_add. rewrite Z.pow_add_r by lia. ring.
Qed.

Lemma low_digits_length : forall n u, length (low_digits n u) = n.
Proof. induction n; simpl; intros; auto. rewrite app_length. rewrite IHn. simpl. lia. Qed.

Lemma frac_value_low_digits : forall n u, 0 <= u < 10 ^ Z.of_nat n ->
  frac_value n (low_digits n u) = u.
Proof.
  induction n; intros u Hu.
  - simpl in *. lia.
  - cbn [low_digits]. replace (S n) with (n + 1)%nat at 1 by lia.
    rewrite frac_value_app by apply low_digits_length.
    rewrite IHn.
    + cbn [frac_value]. assert (Hd : 0 <= u mod 10 < 10) by (apply Z.mod_pos_bound; lia).
      pose proof (Z.div_mod u 10 ltac:(lia)) as Hdm.
      set (d := u mod 10) in *. set (q := u / 10) in *.
      replace (Z.of_N (48 + Z.to_N d - 48)) with d by lia.
      change (Z.of_nat 1) with 1. change (Z.of_nat 0) with 0.
      rewrite Z.pow_1_r, Z.pow_0_r. lia.
    + rewrite Nat2Z.inj_succ in Hu. rewrite Z.pow_succ_r in Hu by lia.
      split. apply Z.div_pos; lia. apply Z.div_lt_upper_bound; lia.
Qed.

Lemma rstrip0_nonempty : forall n u, 0 < u < 10 ^ Z.of_nat n -> rstrip0 (low_digits n u) <> [].
Proof.
  intros n u Hu E.
  assert (F := frac_value_rstrip0 (low_digits n u) n (low_digits_digits n u ltac:(lia))).
  rewrite E in F. rewrite frac_value_low_digits in F by lia.
  destruct n; simpl in F; lia.
Qed.

Lemma at_end_two : forall a b l, at_end (a :: b :: l) = false.
Proof. reflexivity. Qed.

Lemma not_digit_H : is_digit c_H = false. Proof. reflexivity. Qed.
Lemma not_digit_M : is_digit c_M = false. Proof. reflexivity. Qed.
Lemma not_digit_S : is_digit c_S = false. Proof. reflexivity. Qed.
Lemma not_digit_dot : is_digit c_dot = false. Proof. reflexivity. Qed.

Definition negs (b : bool) : str := if b then [c_minus] else [].

Lemma signed_digits_negs : forall b n c rest, is_digit c = false ->
  signed_digits (negs b ++ print_N n ++ c :: rest) = Some (b, b, print_N n, c :: rest).
Proof.
  intros [|] n c rest H; simpl.
  - apply signed_digits_neg; auto.
  - apply signed_digits_pos; auto.
Qed.

Lemma at_end_comp : forall b n c rest, at_end (negs b ++ print_N n ++ c :: rest) = false.
Proof.
  intros b n c rest. destruct (head_digit_not_sign n) as [d [r [E _]]]. rewrite E.
  destruct b; simpl; auto. destruct r; auto.
Qed.

Lemma comp_H : forall f b n acc rest,
  iso_comps (S f) 0 acc (negs b ++ print_N n ++ c_H :: rest)
  = iso_comps f 1 (acc + sgn b (Z.of_N n) * g_iso_h) rest.
Proof.
  intros. cbn [iso_comps]. rewrite at_end_comp. rewrite signed_digits_negs by apply not_digit_H.
  rewrite parse_print_N. reflexivity.
Qed.

Lemma comp_M : forall f st b n acc rest, (st <= 1)%nat ->
  iso_comps (S f) st acc (negs b ++ print_N n ++ c_M :: rest)
  = iso_comps f 2 (acc + sgn b (Z.of_N n) * g_iso_m) rest.
Proof.
  intros. cbn [iso_comps]. rewrite at_end_comp. rewrite signed_digits_negs by apply not_digit_M.
  rewrite parse_print_N. change (N.eqb c_M c_H) with false. change (N.eqb c_M c_M) with true. cbv iota.
  apply Nat.leb_le in H. rewrite H. reflexivity.
Qed.

Lemma comp_S : forall f st b n acc rest, (st <= 2)%nat ->
  iso_comps (S f) st acc (negs b ++ print_N n ++ c_S :: rest)
  = iso_comps f 3 (acc + sgn b (Z.of_N n * g_iso_s)) rest.
Proof.
  intros. cbn [iso_comps]. rewrite at_end_comp. rewrite signed_digits_negs by apply not_digit_S.
  rewrite parse_print_N. change (N.eqb c_S c_H) with false. change (N.eqb c_S c_M) with false.
  change (N.eqb c_S c_S) with true. cbv iota.
  apply Nat.leb_le in H. rewrite H. reflexivity.
Qed.

Lemma comp_SF : forall f st b n u acc rest, (st <= 2)%nat -> 0 < u < 10 ^ Z.of_nat g_to_iso_pad ->
  iso_comps (S f) st acc
    (negs b ++ print_N n ++ c_dot :: rstrip0 (low_digits g_to_iso_pad u) ++ c_S :: rest)
  = iso_comps f 3 (acc + sgn b (Z.of_N n * g_iso_s) + sgn b u) rest.
Proof.
  intros f st b n u acc rest Hst Hu. cbn [iso_comps]. rewrite at_end_comp.
  rewrite signed_digits_negs by apply not_digit_dot.
  rewrite parse_print_N. change (N.eqb c_dot c_H) with false. change (N.eqb c_dot c_M) with false.
  change (N.eqb c_dot c_S) with false. change (N.eqb c_dot c_dot) with true. cbv iota.
  apply Nat.leb_le in Hst. rewrite Hst.
  assert (Hd : forallb is_digit (low_digits g_to_iso_pad u) = true) by (apply low_digits_digits; lia).
  rewrite span_digits_app; [| apply rstrip0_digits; auto | apply not_digit_S].
  destruct (rstrip0 (low_digits g_to_iso_pad u)) eqn:E.
  - exfalso. apply (rstrip0_nonempty g_to_iso_pad u Hu E).
  - rewrite <- E. change (N.eqb c_S c_S) with true. cbv iota.
    rewrite frac_value_rstrip0 by auto.
    change g_iso_frac with g_to_iso_pad.
    rewrite frac_value_low_digits by lia. reflexivity.
Qed.

Lemma comps_done : forall f st acc, iso_comps f st acc [] = Some acc.
Proof. intros. destruct f; reflexivity. Qed.

(* the arithmetic content of to_iso8601 *)
Lemma iso_decompose : forall a, 0 <= a ->
  let seconds0 := a / g_to_iso_us in let usecs := a mod g_to_iso_us in
  let minutes0 := seconds0 / g_to_iso_sm in let seconds := seconds0 mod g_to_iso_sm in
  let hours := minutes0 / g_to_iso_mh in let minutes := minutes0 mod g_to_iso_mh in
  hours * g_iso_h + minutes * g_iso_m + seconds * g_iso_s + usecs = a
  /\ 0 <= hours /\ 0 <= minutes /\ 0 <= seconds /\ 0 <= usecs < 10 ^ Z.of_nat g_to_iso_pad.
Proof.
  intros a Ha. cbv zeta. unfold g_to_iso_us, g_to_iso_sm, g_to_iso_mh, g_iso_h, g_iso_m, g_iso_s, g_to_iso_pad.
  pose proof (Z.div_mod a 1000000 ltac:(lia)) as E1.
  pose proof (Z.mod_pos_bound a 1000000 ltac:(lia)) as B1.
  set (s0 := a / 1000000) in *. set (us := a mod 1000000) in *.
  assert (0 <= s0) by (apply Z.div_pos; lia).
  pose proof (Z.div_mod s0 60 ltac:(lia)) as E2.
  pose proof (Z.mod_pos_bound s0 60 ltac:(lia)) as B2.
  set (m0 := s0 / 60) in *. set (sec := s0 mod 60) in *.
  assert (0 <= m0) by (apply Z.div_pos; lia).
  pose proof (Z.div_mod m0 60 ltac:(lia)) as E3.
  pose proof (Z.mod_pos_bound m0 60 ltac:(lia)) as B3.
  set (h := m0 / 60) in *. set (mi := m0 mod 60) in *.
  assert (0 <= h) by (apply Z.div_pos; lia).
  change (10 ^ Z.of_nat 6) with 1000000.
  repeat split; try lia.
Qed.

Lemma sgn_mul : forall b x k, sgn b x * k = sgn b (x * k).
Proof. intros [|] x k; simpl; ring. Qed.

Lemma to_iso_shape : forall v,
  let b := v <? 0 in let a := Z.abs v in
  let seconds0 := a / g_to_iso_us in let usecs := a mod g_to_iso_us in
  let minutes0 := seconds0 / g_to_iso_sm in let seconds := seconds0 mod g_to_iso_sm in
  let hours := minutes0 / g_to_iso_mh in let minutes := minutes0 mod g_to_iso_mh in
  to_iso v =
  [c_P; c_T] ++
  (let body :=
    (if hours =? 0 then [] else negs b ++ print_N (Z.to_N hours) ++ [c_H]) ++
    (if minutes =? 0 then [] else negs b ++ print_N (Z.to_N minutes) ++ [c_M]) ++
    (if (seconds =? 0) && (usecs =? 0) then []
     else (if usecs =? 0 then negs b ++ print_N (Z.to_N seconds)
           else negs b ++ print_N (Z.to_N seconds) ++ [c_dot] ++ rstrip0 (low_digits g_to_iso_pad usecs))
          ++ [c_S]) in
   match body with [] => [c_0; c_S] | _ => body end).
Proof.
  intros v. cbv zeta. unfold to_iso.
  destruct (iso_decompose (Z.abs v) (Z.abs_nonneg v)) as [_ [Hh [Hm [Hs Hu]]]]. cbv zeta in *.
  rewrite !print_Z_nonneg by assumption.
  unfold negs. destruct (v <? 0); reflexivity.
Qed.

Lemma body_sel : forall (l x : str), l <> [] -> match l with [] => x | _ :: _ => l end = l.
Proof. intros [|a l] x H; [contradiction|reflexivity]. Qed.

Lemma comp_nonnil : forall b n c rest, negs b ++ print_N n ++ c :: rest <> [].
Proof.
  intros b n c rest H. apply app_eq_nil in H. destruct H as [_ H].
  apply app_eq_nil in H. destruct H as [_ H]. discriminate.
Qed.

Theorem parse_to_iso : forall v, parse_iso (to_iso v) = Some v.
Proof.
  intros v. rewrite to_iso_shape. cbv zeta.
  destruct (iso_decompose (Z.abs v) (Z.abs_nonneg v)) as [Hsum [Hh [Hm [Hs Hu]]]]. cbv zeta in *.
  set (b := v <? 0) in *.
  set (usecs := Z.abs v mod g_to_iso_us) in *.
  set (seconds0 := Z.abs v / g_to_iso_us) in *.
  set (seconds := seconds0 mod g_to_iso_sm) in *.
  set (minutes0 := seconds0 / g_to_iso_sm) in *.
  set (minutes := minutes0 mod g_to_iso_mh) in *.
  set (hours := minutes0 / g_to_iso_mh) in *.
  assert (Hv : v = sgn b (Z.abs v)).
  { unfold b, sgn. destruct (v <? 0) eqn:E; [apply Z.ltb_lt in E | apply Z.ltb_ge in E]; lia. }
  assert (HN : forall z, 0 <= z -> Z.of_N (Z.to_N z) = z) by (intros; lia).
  unfold parse_iso. cbn [Datatypes.app]. change (N.eqb c_P c_P && N.eqb c_T c_T) with true. cbv iota.
  destruct (Z.eqb_spec hours 0) as [Eh|Eh]; destruct (Z.eqb_spec minutes 0) as [Em|Em];
    destruct (Z.eqb_spec seconds 0) as [Es|Es]; destruct (Z.eqb_spec usecs 0) as [Eu|Eu];
    cbn [andb Datatypes.app];
    repeat rewrite <- app_assoc; cbn [Datatypes.app];
    try (rewrite body_sel by apply comp_nonnil).
  (* everything zero -> "PT0S" *)
  1: { change [c_0; c_S] with (negs false ++ print_N 0 ++ c_S :: []).
       rewrite comp_S by lia. rewrite comps_done. f_equal. simpl. lia. }
  all: repeat first [ rewrite comp_H | rewrite comp_M by lia | rewrite comp_S by lia
                    | rewrite comp_SF by lia ];
       rewrite comps_done; f_equal; rewrite ?HN by assumption;
       rewrite Hv; unfold g_iso_h, g_iso_m, g_iso_s in *; destruct b; unfold sgn; lia.
Qed.

(* ================================================================== ConfigMemory text *)
Lemma str_eqb_len2 : forall a b (l : str) c, str_eqb (a :: b :: l) [c] = false.
Proof. intros. simpl. destruct (N.eqb a c); reflexivity. Qed.

Lemma mem_of_str_unit : forall q sfx u c r,
  0 <= q -> sfx = c :: r -> is_digit c = false -> is_ascii sfx = true ->
  strip_final_nl sfx = sfx -> assoc g_mem_parse sfx = Some u ->
  mem_of_str (print_Z q ++ sfx) = Ok (VMem (q * u) false).
Proof.
  intros q sfx u c r Hq Hs Hc Ha Hn Hu. unfold mem_of_str.
  rewrite print_Z_nonneg by assumption.
  rewrite is_ascii_app, Ha, (digits_ascii _ (print_N_digits _)). cbn [andb negb].
  destruct (head_digit_not_sign (Z.to_N q)) as [d [rd [E Hd]]].
  assert (Hne : str_eqb (print_N (Z.to_N q) ++ sfx) [c_0] = false).
  { rewrite E, Hs. destruct rd; simpl; destruct (N.eqb d c_0); reflexivity. }
  rewrite Hne.
  rewrite span_digits_app; [| apply print_N_digits | rewrite Hs; exact Hc].
  rewrite E at 1. rewrite Hn, Hu. rewrite parse_print_N.
  rewrite Z2N.id by assumption. reflexivity.
Qed.

Theorem mem_roundtrip : forall m, 0 <= m -> mem_of_str (mem_to_str m false) = Ok (VMem m false).
Proof.
  intros m Hm. unfold mem_to_str. cbv iota. unfold g_mem_ladder. cbn [mem_ladder].
  repeat match goal with
  | |- context [if (?u <=? m) && (m mod ?u =? 0) then _ else _] =>
      let E := fresh "E" in
      destruct ((u <=? m) && (m mod u =? 0)) eqn:E;
      [ apply andb_true_iff in E; destruct E as [E1 E2]; apply Z.leb_le in E1; apply Z.eqb_eq in E2;
        erewrite mem_of_str_unit; [ | apply Z.div_pos; lia | reflexivity | reflexivity | reflexivity
                                    | reflexivity | reflexivity ];
        f_equal; f_equal;
        match goal with |- m / ?k * _ = m => pose proof (Z.div_mod m k ltac:(lia)); lia end
      | clear E ]
  end.
  unfold g_mem_final.
  erewrite mem_of_str_unit; [ | exact Hm | reflexivity | reflexivity | reflexivity | reflexivity | reflexivity ].
  f_equal. f_equal. lia.
Qed.

(* ================================================================== storage *)
Lemma assoc_st_set_same : forall m n x, assoc (st_set m n x) n = Some x.
Proof.
  induction m as [|[k y] m IH]; intros n x; simpl.
  - rewrite str_eqb_refl. reflexivity.
  - destruct (str_eqb k n) eqn:E; simpl; rewrite E; auto.
Qed.

Lemma assoc_st_set_other : forall m n x q, n <> q -> assoc (st_set m n x) q = assoc m q.
Proof.
  induction m as [|[k y] m IH]; intros n x q H; simpl.
  - apply str_eqb_neq in H. rewrite H. reflexivity.
  - destruct (str_eqb k n) eqn:E; simpl.
    + apply str_eqb_eq in E. subst k. apply str_eqb_neq in H. rewrite H. reflexivity.
    + destruct (str_eqb k q); auto.
Qed.

Lemma assoc_st_del_same : forall m n, assoc (st_del m n) n = None.
Proof.
  induction m as [|[k y] m IH]; intros n; simpl; auto.
  destruct (str_eqb k n) eqn:E; simpl; auto. rewrite E. auto.
Qed.

Lemma assoc_st_del_other : forall m n q, n <> q -> assoc (st_del m n) q = assoc m q.
Proof.
  induction m as [|[k y] m IH]; intros n q H; simpl; auto.
  destruct (str_eqb k n) eqn:E; simpl.
  - apply str_eqb_eq in E. subst k. rewrite (proj2 (str_eqb_neq n q) H). auto.
  - destruct (str_eqb k q); auto.
Qed.

(* what apply does to the binding of its own name, and to the others *)
Lemma apply_own : forall sp o m m', apply sp o m = Ok m' ->
  apply_cell sp o (assoc m (o_name o)) = Ok (assoc m' (o_name o)).
Proof.
  intros sp o m m' H. unfold apply in H.
  destruct (apply_cell sp o (assoc m (o_name o))) as [c|e]; simpl in H; [|discriminate].
  injection H as H. subst m'. destruct c.
  - rewrite assoc_st_set_same. reflexivity.
  - rewrite assoc_st_del_same. reflexivity.
Qed.

Lemma apply_frame : forall sp o m m', apply sp o m = Ok m' ->
  forall q, o_name o <> q -> assoc m' q = assoc m q.
Proof.
  intros sp o m m' H q Hq. unfold apply in H.
  destruct (apply_cell sp o (assoc m (o_name o))) as [c|e]; simpl in H; [|discriminate].
  injection H as H. subst m'. destruct c.
  - apply assoc_st_set_other; auto.
  - apply assoc_st_del_other; auto.
Qed.

Lemma apply_err : forall sp o m e, apply sp o m = Err e <-> apply_cell sp o (assoc m (o_name o)) = Err e.
Proof.
  intros. unfold apply. destruct (apply_cell sp o (assoc m (o_name o))); cbn [bind]; split; intros H;
    try discriminate; injection H as H; subst; reflexivity.
Qed.

(* ================================================================== composition across scopes *)
Definition scope_eqb (a b : scope) : bool :=
  match a, b with Session, Session | Database, Database | Instance, Instance => true | _, _ => false end.

Lemma scope_eqb_eq : forall a b, scope_eqb a b = true <-> a = b.
Proof. intros [] []; simpl; split; intros; try discriminate; auto. Qed.

Definition run_all (sp : spec) (y : sys) (os : list op) : sys :=
  fold_left (fun y o => fst (step sp y o)) os y.

(* the history of one (scope, setting) cell: only the operations addressed to it matter, a failing
   operation leaves it as it was *)
Definition cell_step (sp : spec) (sc : scope) (n : str) (c : option sval) (o : op) : option sval :=
  if scope_eqb (o_scope o) sc && str_eqb (o_name o) n then
    match apply_cell sp o c with Ok c' => c' | Err _ => c end
  else c.

Definition cell (sp : spec) (sc : scope) (n : str) (os : list op) : option sval :=
  fold_left (cell_step sp sc n) os None.

Lemma get_put_same : forall y sc m, get_map (put_map y sc m) sc = m.
Proof. intros y [] m; reflexivity. Qed.

Lemma get_put_other : forall y sc sc' m, sc <> sc' -> get_map (put_map y sc m) sc' = get_map y sc'.
Proof. intros y [] [] m H; try reflexivity; contradiction. Qed.

Lemma step_cell : forall sp y o sc n,
  assoc (get_map (fst (step sp y o)) sc) n = cell_step sp sc n (assoc (get_map y sc) n) o.
Proof.
  intros sp y o sc n. unfold step, cell_step.
  destruct (scope_eqb (o_scope o) sc) eqn:Es.
  - apply scope_eqb_eq in Es. subst sc.
    destruct (str_eqb (o_name o) n) eqn:En; cbn [andb].
    + apply str_eqb_eq in En. subst n.
      destruct (apply sp o (get_map y (o_scope o))) as [m'|e] eqn:Ea; cbn [fst].
      * rewrite get_put_same. rewrite (apply_own _ _ _ _ Ea). reflexivity.
      * apply apply_err in Ea. rewrite Ea. reflexivity.
    + apply str_eqb_neq in En.
      destruct (apply sp o (get_map y (o_scope o))) as [m'|e] eqn:Ea; cbn [fst]; auto.
      rewrite get_put_same. apply (apply_frame _ _ _ _ Ea). auto.
  - cbn [andb].
    assert (o_scope o <> sc) by (intro E; apply scope_eqb_eq in E; congruence).
    destruct (apply sp o (get_map y (o_scope o))); cbn [fst]; auto.
    rewrite get_put_other; auto.
Qed.

Lemma run_all_cell_gen : forall sp os y sc n,
  assoc (get_map (run_all sp y os) sc) n = fold_left (cell_step sp sc n) os (assoc (get_map y sc) n).
Proof.
  induction os as [|o os IH]; intros y sc n; simpl; auto.
  unfold run_all in *. simpl. rewrite IH. rewrite step_cell. reflexivity.
Qed.

Lemma run_all_cell : forall sp os sc n,
  assoc (get_map (run_all sp sys0 os) sc) n = cell sp sc n os.
Proof. intros. rewrite run_all_cell_gen. destruct sc; reflexivity. Qed.

(* C19_lookup: the effective value is the value of the most specific scope whose cell is defined,
   otherwise the default; cells evolve independently of each other *)
Theorem p_lookup : forall sp os n,
  effective sp (run_all sp sys0 os) n =
  match find_setting (sp_settings sp) n with
  | None => Err EConfig
  | Some st =>
      Ok (match cell sp Session n os with
          | Some x => v_value x
          | None => match cell sp Database n os with
                    | Some x => v_value x
                    | None => match cell sp Instance n os with
                              | Some x => v_value x
                              | None => s_default st
                              end
                    end
          end)
  end.
Proof.
  intros sp os n. unfold effective, lookup.
  destruct (find_setting (sp_settings sp) n); auto.
  cbn [lookup_maps].
  change (m_session (run_all sp sys0 os)) with (get_map (run_all sp sys0 os) Session).
  change (m_database (run_all sp sys0 os)) with (get_map (run_all sp sys0 os) Database).
  change (m_instance (run_all sp sys0 os)) with (get_map (run_all sp sys0 os) Instance).
  rewrite !run_all_cell.
  destruct (cell sp Session n os); auto.
  destruct (cell sp Database n os); auto.
  destruct (cell sp Instance n os); auto.
Qed.

Theorem p_frame : forall sp o m m', apply sp o m = Ok m' ->
  forall q, q <> o_name o -> assoc m' q = assoc m q.
Proof. intros. eapply apply_frame; eauto. Qed.

(* a rejected operation changes nothing, in any scope *)
Theorem p_reject_atomic : forall sp y o e, snd (step sp y o) = Some e -> fst (step sp y o) = y.
Proof.
  intros sp y o e. unfold step. destruct (apply sp o (get_map y (o_scope o))); simpl; intros H; auto.
  discriminate.
Qed.

(* the other two scopes are never touched *)
Theorem p_other_scopes : forall sp y o sc, sc <> o_scope o -> get_map (fst (step sp y o)) sc = get_map y sc.
Proof.
  intros sp y o sc H. unfold step. destruct (apply sp o (get_map y (o_scope o))); simpl; auto.
  apply get_put_other. auto.
Qed.

(* ================================================================== typing of scalar settings *)
Lemma coerce_single_typed : forall p v v', coerce_single p v = Ok v' -> inst_of p v' = true.
Proof.
  intros p v v' H. unfold coerce_single in H.
  destruct (inst_of p v) eqn:Ei.
  - injection H as H. subst. auto.
  - destruct p; destruct v; try discriminate; simpl in H.
    + (* enum from text *) unfold enum_ctor in H. destruct (existsb (str_eqb x) members); [|discriminate].
      injection H as H. subst. simpl. apply N.eqb_refl.
    + (* duration from text *) unfold dur_ctor in H.
      destruct (negb (is_ascii x)); [discriminate|].
      destruct (signed_digits x) as [[[[g nv] ds] [|c r]]|]; try (injection H as H; subst; reflexivity);
        destruct (parse_iso x); try discriminate; injection H as H; subst; reflexivity.
    + injection H as H. subst. reflexivity.
    + injection H as H. subst. reflexivity.
    + unfold mem_of_str in H. destruct (negb (is_ascii x)); [discriminate|].
      destruct (str_eqb x [c_0]); [injection H as H; subst; reflexivity|].
      destruct (span_digits x) as [ds rest]. destruct ds; [discriminate|].
      destruct (assoc g_mem_parse (strip_final_nl rest)); [|discriminate].
      injection H as H. subst. reflexivity.
Qed.

(* payloads that none of the conversion branches of coerce_single_value applies to *)
Definition convertible (p : ptype) (v : val) : bool :=
  match p, v with
  | TDur, VStr _ | TMem, VStr _ | TMem, VInt _ | TMem, VBool _ | TEnum _ _, VStr _ => true
  | _, _ => false
  end.

Lemma coerce_single_reject : forall p v, inst_of p v = false -> convertible p v = false ->
  coerce_single p v = Err EConfig.
Proof.
  intros p v Hi Hc. unfold coerce_single. rewrite Hi.
  destruct p; destruct v; try reflexivity; simpl in Hc; discriminate.
Qed.

Lemma coerce_single_accept : forall p v, inst_of p v = true -> coerce_single p v = Ok v.
Proof. intros p v H. unfold coerce_single. rewrite H. reflexivity. Qed.

Definition scalar_setting (sp : spec) (n : str) (p : ptype) (st : setting) : Prop :=
  find_setting (sp_settings sp) n = Some st /\ s_type st = SPrim p /\ s_set_of st = false.

Theorem p_reject_untyped : forall sp o m p st,
  scalar_setting sp (o_name o) p st -> o_code o = OSet ->
  inst_of p (o_value o) = false -> convertible p (o_value o) = false ->
  apply sp o m = Err EConfig.
Proof.
  intros sp o m p st [Hf [Ht Hs]] Hc Hi Hcv. apply apply_err. unfold apply_cell.
  rewrite Hf, Hc. unfold coerce_value. rewrite Ht, Hs.
  rewrite (coerce_single_reject _ _ Hi Hcv). destruct (o_value o); reflexivity.
Qed.

Theorem p_accept_typed : forall sp o m p st,
  scalar_setting sp (o_name o) p st -> o_code o = OSet -> inst_of p (o_value o) = true ->
  exists m', apply sp o m = Ok m' /\
    exists x, assoc m' (o_name o) = Some x /\ v_value x = o_value o /\ v_scope x = o_scope o
              /\ v_source x = source_of (o_scope o).
Proof.
  intros sp o m p st [Hf [Ht Hs]] Hc Hi. unfold apply, apply_cell.
  rewrite Hf, Hc. unfold coerce_value. rewrite Ht, Hs.
  rewrite (coerce_single_accept _ _ Hi). cbn [bind].
  eexists. split; [reflexivity|]. rewrite assoc_st_set_same. eexists. split; [reflexivity|].
  cbn. auto.
Qed.

Lemma coerce_all_typed : forall p l acc r, coerce_all p l acc = Ok r ->
  Forall (fun v => inst_of p v = true) acc -> Forall (fun v => inst_of p v = true) r.
Proof.
  induction l as [|v l IH]; intros acc r H Ha; simpl in H.
  - injection H as H. subst. auto.
  - destruct (coerce_single p v) as [c|e] eqn:Ec; simpl in H; [|discriminate].
    apply (IH _ _ H). unfold fs_add. destruct (mem_val c acc); auto.
    apply Forall_app. split; auto. constructor; auto. eapply coerce_single_typed; eauto.
Qed.

(* whatever SET stores in a scalar / set-valued scalar setting has the setting's (Python) type *)
Theorem p_stored_typed : forall sp o m m' p st,
  find_setting (sp_settings sp) (o_name o) = Some st -> s_type st = SPrim p -> o_code o = OSet ->
  apply sp o m = Ok m' ->
  exists x, assoc m' (o_name o) = Some x /\
    if s_set_of st
    then exists l, v_value x = VList l /\ Forall (fun v => inst_of p v = true) l
                   /\ (length l <= g_max_set)%nat
    else inst_of p (v_value x) = true.
Proof.
  intros sp o m m' p st Hf Ht Hc Ha. apply apply_own in Ha. unfold apply_cell in Ha.
  rewrite Hf, Hc in Ha. unfold coerce_value in Ha. rewrite Ht in Ha.
  destruct (s_set_of st) eqn:Hs.
  - destruct (o_value o) eqn:Ev; try discriminate;
      cbn [container_elems] in Ha;
      match type of Ha with
      | context [coerce_all p ?es []] =>
          destruct (coerce_all p es []) as [lst|e] eqn:Eall; cbn [bind] in Ha; [|discriminate];
          destruct (too_large lst) eqn:Etl; cbn [bind] in Ha; [discriminate|];
          injection Ha as Ha; eexists; split; [symmetry; exact Ha|]; cbn;
          exists lst; split; [reflexivity|]; split;
          [ eapply coerce_all_typed; eauto
          | unfold too_large in Etl; apply Nat.ltb_ge in Etl; exact Etl ]
      end.
  - destruct (coerce_single p (o_value o)) as [c|e] eqn:Ec.
    + cbn [bind] in Ha. injection Ha as Ha. eexists. split; [symmetry; exact Ha|]. cbn.
      eapply coerce_single_typed; eauto.
    + destruct e; cbn [bind] in Ha; try discriminate. destruct (o_value o); discriminate.
Qed.

(* RESET deletes the binding of its scope: the effective value falls back to the next scope / default *)
Theorem p_reset : forall sp o m m', o_code o = OReset -> apply sp o m = Ok m' ->
  assoc m' (o_name o) = None.
Proof.
  intros sp o m m' Hc Ha. apply apply_own in Ha. unfold apply_cell in Ha. rewrite Hc in Ha.
  destruct (find_setting (sp_settings sp) (o_name o)) as [st|]; [|discriminate].
  destruct (coerce_value sp st OReset (o_value o) true); cbn [bind] in Ha; [|discriminate].
  injection Ha as Ha. auto.
Qed.

(* ================================================================== JSON round trip (scalar settings) *)
Lemma is_ascii_negs : forall b, is_ascii (negs b) = true.
Proof. intros []; reflexivity. Qed.

Lemma is_ascii_print_N : forall n, is_ascii (print_N n) = true.
Proof. intros. apply digits_ascii. apply print_N_digits. Qed.

Lemma is_ascii_cons : forall c l, is_ascii (c :: l) = N.ltb c 128 && is_ascii l.
Proof. reflexivity. Qed.

Lemma is_ascii_to_iso : forall v, is_ascii (to_iso v) = true.
Proof.
  intros v. rewrite to_iso_shape. cbv zeta.
  destruct (iso_decompose (Z.abs v) (Z.abs_nonneg v)) as [_ [_ [_ [_ Hu]]]]. cbv zeta in Hu.
  set (b := v <? 0).
  assert (Hfr : is_ascii (rstrip0 (low_digits g_to_iso_pad (Z.abs v mod g_to_iso_us))) = true).
  { apply digits_ascii. apply rstrip0_digits. apply low_digits_digits. lia. }
  match goal with |- context [if ?a =? 0 then [] else negs b ++ print_N ?h ++ [c_H]] => destruct (a =? 0) end;
  match goal with |- context [if ?a =? 0 then [] else negs b ++ print_N ?h ++ [c_M]] => destruct (a =? 0) end;
  match goal with |- context [if (?a =? 0) && (?u =? 0) then _ else _] => destruct (a =? 0); destruct (u =? 0) end;
    cbn [andb Datatypes.app]; repeat rewrite <- app_assoc; cbn [Datatypes.app];
    try (rewrite body_sel by apply comp_nonnil);
    repeat first [ rewrite is_ascii_cons | rewrite is_ascii_app | rewrite is_ascii_negs
                 | rewrite is_ascii_print_N | rewrite Hfr ];
    reflexivity.
Qed.

Definition wf_prim (p : ptype) (v : val) : Prop :=
  match p, v with
  | TBool, VBool _ | TInt, VInt _ | TInt, VBool _ | TStr, VStr _ | TFloat, VFloat _ | TDur, VDur _ => True
  | TEnum ty ms, VEnum ty' x => ty = ty' /\ existsb (str_eqb x) ms = true
  | TMem, VMem z false => 0 <= z
  | _, _ => False
  end.

Theorem p_json_prim : forall sp st p v, s_type st = SPrim p -> s_set_of st = false -> wf_prim p v ->
  exists j, value_to_json sp st v = Ok j /\ value_from_json sp st j = Ok v.
Proof.
  intros sp st p v Ht Hs Hwf. unfold value_to_json, value_from_json. rewrite Ht, Hs.
  destruct p; destruct v; simpl in Hwf; try contradiction; try (eexists; split; reflexivity).
  - destruct Hwf as [E Hm]. subst ty0. eexists. split; [reflexivity|]. unfold enum_ctor. rewrite Hm. reflexivity.
  - eexists. split; [reflexivity|]. unfold dur_from_iso. rewrite is_ascii_to_iso, parse_to_iso. reflexivity.
  - destruct isbool; [contradiction|]. eexists. split; [reflexivity|]. cbn [mem_ctor].
    apply mem_roundtrip. assumption.
Qed.

(* frozensets: first-occurrence dedup; a list built that way is a fixed point of frozenset() *)
Inductive pyd : list val -> Prop :=
| pyd_nil : pyd []
| pyd_snoc : forall l v, pyd l -> mem_val v l = false -> pyd (l ++ [v]).

Lemma fs_add_pyd : forall acc v, pyd acc -> pyd (fs_add acc v).
Proof. intros acc v H. unfold fs_add. destruct (mem_val v acc) eqn:E; auto. constructor; auto. Qed.

Lemma fold_fs_add_pyd : forall l acc, pyd acc -> pyd (fold_left fs_add l acc).
Proof. induction l; simpl; intros; auto. apply IHl. apply fs_add_pyd. auto. Qed.

Lemma fs_of_pyd : forall l, pyd (fs_of l).
Proof. intros. apply fold_fs_add_pyd. constructor. Qed.

Lemma pyd_fixed : forall l, pyd l -> fs_of l = l.
Proof.
  intros l H. induction H; auto. unfold fs_of in *. rewrite fold_left_app. rewrite IHpyd.
  simpl. unfold fs_add. rewrite H0. reflexivity.
Qed.

Lemma coerce_all_pyd : forall p l acc r, coerce_all p l acc = Ok r -> pyd acc -> pyd r.
Proof.
  induction l as [|v l IH]; intros acc r H Ha; simpl in H.
  - injection H as H. subst. auto.
  - destruct (coerce_single p v); simpl in H; [|discriminate]. apply (IH _ _ H). apply fs_add_pyd. auto.
Qed.

Definition reseal (sp : spec) (n : str) (x : sval) : sval :=
  {| v_value := v_value x; v_source := v_source x; v_scope := v_scope x;
     v_secret := match find_setting (sp_settings sp) n with Some st => s_secret st | None => false end |}.

(* bindings whose JSON form is covered by the theorem: scalar settings with a well-formed value and
   set-valued settings of bool/int/str/float (elements are written and read back unchanged) *)
Definition wf_binding (sp : spec) (n : str) (x : sval) : Prop :=
  exists st p, find_setting (sp_settings sp) n = Some st /\ s_type st = SPrim p /\
    if s_set_of st then is_scalar_type p = false /\ exists l, v_value x = VList l /\ pyd l
    else wf_prim p (v_value x).

Lemma scope_str_rt : forall sc, scope_of_str (scope_str sc) = Some sc.
Proof. intros []; reflexivity. Qed.

Lemma entry_fields : forall a b c d : val,
  assoc [(k_name, a); (k_source, b); (k_scope, c); (k_value, d)] k_value = Some d /\
  assoc [(k_name, a); (k_source, b); (k_scope, c); (k_value, d)] k_source = Some b /\
  assoc [(k_name, a); (k_source, b); (k_scope, c); (k_value, d)] k_scope = Some c.
Proof. intros. repeat split; reflexivity. Qed.

Lemma binding_rt : forall sp n x, wf_binding sp n x ->
  exists st j, find_setting (sp_settings sp) n = Some st /\
    value_to_json sp st (v_value x) = Ok j /\ value_from_json sp st j = Ok (v_value x).
Proof.
  intros sp n x [st [p [Hf [Ht H]]]]. exists st.
  destruct (s_set_of st) eqn:Hs.
  - destruct H as [Hsc [l [Hv Hp]]]. exists (VList l). split; auto.
    unfold value_to_json, value_from_json. rewrite Ht, Hs, Hv, Hsc.
    rewrite (pyd_fixed _ Hp). destruct p; try discriminate Hsc; split; reflexivity.
  - destruct (p_json_prim sp st p (v_value x) Ht Hs H) as [j [H1 H2]]. exists j. auto.
Qed.

Definition rt_step (sp : spec) (a : storage) (kv : str * sval) : storage :=
  st_set a (fst kv) (reseal sp (fst kv) (snd kv)).

Lemma json_rt_gen : forall sp m acc, (forall n x, In (n, x) m -> wf_binding sp n x) ->
  exists js, to_json sp m = Ok js /\ from_json sp js acc = Ok (fold_left (rt_step sp) m acc).
Proof.
  induction m as [|[n x] m IH]; intros acc Hwf.
  - exists []. split; reflexivity.
  - destruct (binding_rt sp n x (Hwf n x (or_introl eq_refl))) as [st [j [Hf [Hto Hfrom]]]].
    destruct (IH (rt_step sp acc (n, x)) (fun n' x' H => Hwf n' x' (or_intror H))) as [js [Hj1 Hj2]].
    eexists. split.
    + cbn [to_json]. rewrite Hf, Hto. cbn [bind]. rewrite Hj1. cbn [bind]. reflexivity.
    + cbn [from_json]. rewrite Hf.
      destruct (entry_fields (VStr n) (VStr (v_source x)) (VStr (scope_str (v_scope x))) j) as [E1 [E2 E3]].
      rewrite E1, E2, E3. rewrite scope_str_rt. rewrite Hfrom. cbn [bind].
      cbn [fold_left].
      assert (Er : rt_step sp acc (n, x) =
                   st_set acc n {| v_value := v_value x; v_source := v_source x; v_scope := v_scope x;
                                   v_secret := s_secret st |}).
      { unfold rt_step, reseal. cbn [fst snd]. rewrite Hf. reflexivity. }
      rewrite <- Er. exact Hj2.
Qed.

Lemma assoc_not_in : forall (m : storage) q, ~ In q (map fst m) -> assoc m q = None.
Proof.
  induction m as [|[k y] m IH]; intros q H; simpl; auto.
  destruct (str_eqb k q) eqn:E.
  - apply str_eqb_eq in E. subst. exfalso. apply H. left. reflexivity.
  - apply IH. intro. apply H. right. auto.
Qed.

Lemma fold_rt_assoc : forall sp m acc q, NoDup (map fst m) ->
  assoc (fold_left (rt_step sp) m acc) q =
  match assoc m q with Some x => Some (reseal sp q x) | None => assoc acc q end.
Proof.
  induction m as [|[n x] m IH]; intros acc q Hnd; simpl; auto.
  inversion Hnd as [|? ? Hni Hnd']; subst.
  rewrite IH by assumption.
  replace (rt_step sp acc (n, x)) with (st_set acc n (reseal sp n x)) by reflexivity.
  destruct (str_eqb n q) eqn:E.
  - apply str_eqb_eq in E. subst q. rewrite (assoc_not_in _ _ Hni). apply assoc_st_set_same.
  - apply str_eqb_neq in E. destruct (assoc m q); auto. apply assoc_st_set_other. auto.
Qed.

(* from_json (to_json m) gives back every value, source and scope (the secret flag is re-derived
   from the spec) *)
Theorem p_json_roundtrip : forall sp m, NoDup (map fst m) ->
  (forall n x, In (n, x) m -> wf_binding sp n x) ->
  exists m', json_roundtrip sp m = Ok m' /\
    forall q, assoc m' q = option_map (reseal sp q) (assoc m q).
Proof.
  intros sp m Hnd Hwf. destruct (json_rt_gen sp m [] Hwf) as [js [H1 H2]].
  exists (fold_left (rt_step sp) m []). split.
  - unfold json_roundtrip. rewrite H1. cbn [bind]. exact H2.
  - intros q. rewrite fold_rt_assoc by assumption. destruct (assoc m q); reflexivity.
Qed.

(* ================================================================== object sets: INSERT / filtered RESET *)
Lemma uniq_all_app : forall sp a b st,
  uniq_all sp (a ++ b) st = (do s1 <- uniq_all sp a st; uniq_all sp b s1).
Proof.
  induction a as [|o a IH]; intros b st; cbn [uniq_all Datatypes.app bind]; auto.
  destruct (uniq_step sp st o); cbn [bind]; auto.
Qed.

Lemma uniq_step_fst : forall sp news e o st', uniq_step sp (news, e) o = Ok st' ->
  fst st' = news ++ [o] /\ mem_val o news = false.
Proof.
  intros sp news e o st' H. unfold uniq_step in H.
  destruct o; try discriminate.
  destruct (find_type (sp_types sp) tname); [|discriminate].
  destruct (uniq_fields (sp_types sp) t flds e); cbn [bind] in H; [|discriminate].
  destruct (mem_val (VObj tname flds) news) eqn:E; [discriminate|].
  injection H as H. subst. auto.
Qed.

Lemma uniq_all_fst : forall sp objs news e st', uniq_all sp objs (news, e) = Ok st' ->
  pyd news -> fst st' = news ++ objs /\ pyd (fst st').
Proof.
  induction objs as [|o objs IH]; intros news e st' H Hp; cbn [uniq_all] in H.
  - injection H as H. subst. simpl. rewrite app_nil_r. auto.
  - destruct (uniq_step sp (news, e) o) as [[n1 e1]|] eqn:E; cbn [bind] in H; [|discriminate].
    destruct (uniq_step_fst _ _ _ _ _ E) as [F1 F2]. simpl in F1. subst n1.
    destruct (IH _ _ _ H (pyd_snoc _ _ Hp F2)) as [G1 G2]. split; auto.
    rewrite G1. rewrite <- app_assoc. reflexivity.
Qed.

Definition obj_set_setting (sp : spec) (n : str) (st : setting) : Prop :=
  find_setting (sp_settings sp) n = Some st /\ is_obj_setting st = true.

Definition existing (st : setting) (cur : option sval) : val :=
  match cur with Some c => v_value c | None => s_default st end.

(* INSERT: the stored set is exactly the old elements plus the new object, which is not equal to any
   of them; at most MAX_CONFIG_SET_SIZE elements *)
Theorem p_set_insert : forall sp o cur st l c',
  obj_set_setting sp (o_name o) st -> o_code o = OAdd -> existing st cur = VList l ->
  apply_cell sp o cur = Ok c' ->
  exists v x, coerce_value sp st OAdd (o_value o) false = Ok v /\ c' = Some x /\
    v_value x = VList (l ++ [v]) /\ mem_val v l = false /\ pyd (l ++ [v]) /\
    (length (l ++ [v]) <= g_max_set)%nat /\ v_scope x = o_scope o.
Proof.
  intros sp o cur st l c' [Hf Ho] Hc He Ha. unfold apply_cell in Ha. rewrite Hf, Hc in Ha.
  destruct (coerce_value sp st OAdd (o_value o) false) as [v|] eqn:Ecv; cbn [bind] in Ha; [|discriminate].
  rewrite Ho in Ha. cbn [negb] in Ha. unfold existing in He. rewrite He in Ha.
  unfold check_uniq in Ha.
  destruct (uniq_all sp (l ++ [v]) ([], [])) as [[news e]|] eqn:Eu; cbn [bind] in Ha; [|discriminate].
  cbn [fst] in Ha. destruct (too_large news) eqn:Etl; cbn [bind] in Ha; [discriminate|].
  injection Ha as Ha. subst c'.
  pose proof Eu as Eu2. rewrite uniq_all_app in Eu2.
  destruct (uniq_all sp l ([], [])) as [[n1 e1]|] eqn:E1; cbn [bind] in Eu2; [|discriminate].
  destruct (uniq_all_fst _ _ _ _ _ E1 pyd_nil) as [F1 F2]. simpl in F1. subst n1.
  cbn [uniq_all] in Eu2. destruct (uniq_step sp (l, e1) v) as [s2|] eqn:E2; cbn [bind] in Eu2; [|discriminate].
  injection Eu2 as Eu2. subst s2.
  destruct (uniq_step_fst _ _ _ _ _ E2) as [G1 G2]. simpl in G1. subst news.
  exists v. eexists. repeat split; try reflexivity; auto.
  - constructor; auto.
  - unfold too_large in Etl. apply Nat.ltb_ge in Etl. exact Etl.
Qed.

(* filtered RESET: exactly the elements equal (Python ==) to the given object are removed *)
Theorem p_set_remove : forall sp o cur st l c',
  obj_set_setting sp (o_name o) st -> o_code o = ORem -> existing st cur = VList l ->
  apply_cell sp o cur = Ok c' ->
  exists v x l', coerce_value sp st ORem (o_value o) true = Ok v /\ c' = Some x /\ v_value x = VList l' /\
    (forall y, In y l' <-> In y l /\ py_eq y v = false).
Proof.
  intros sp o cur st l c' [Hf Ho] Hc He Ha. unfold apply_cell in Ha. rewrite Hf, Hc in Ha.
  destruct (coerce_value sp st ORem (o_value o) true) as [v|] eqn:Ecv; cbn [bind] in Ha; [|discriminate].
  rewrite Ho in Ha. cbn [negb] in Ha. unfold existing in He. rewrite He in Ha.
  injection Ha as Ha. subst c'. exists v. eexists. eexists. repeat split; try reflexivity.
  - cbn in H. apply filter_In in H. tauto.
  - cbn in H. apply filter_In in H. destruct H as [_ H]. apply negb_true_iff in H. exact H.
  - intros [H1 H2]. cbn. apply filter_In. split; auto. rewrite H2. reflexivity.
Qed.

(* sets stored by SET are canonical frozensets (so the hypothesis of the JSON theorem is met by
   every reachable binding of a set-valued bool/int/str/float setting) *)
Theorem p_stored_set_canonical : forall sp o m m' p st,
  find_setting (sp_settings sp) (o_name o) = Some st -> s_type st = SPrim p -> s_set_of st = true ->
  o_code o = OSet -> apply sp o m = Ok m' ->
  exists x l, assoc m' (o_name o) = Some x /\ v_value x = VList l /\ pyd l.
Proof.
  intros sp o m m' p st Hf Ht Hs Hc Ha. apply apply_own in Ha. unfold apply_cell in Ha.
  rewrite Hf, Hc in Ha. unfold coerce_value in Ha. rewrite Ht, Hs in Ha.
  destruct (o_value o) eqn:Ev; try discriminate;
    cbn [container_elems] in Ha;
    match type of Ha with
    | context [coerce_all p ?es []] =>
        destruct (coerce_all p es []) as [lst|e] eqn:Eall; cbn [bind] in Ha; [|discriminate];
        destruct (too_large lst); cbn [bind] in Ha; [discriminate|];
        injection Ha as Ha; eexists; exists lst; split; [symmetry; exact Ha|]; cbn; split; auto;
        eapply coerce_all_pyd; eauto; constructor
    end.
Qed.

(* the size limit on the INSERT path: once the stored set has MAX_CONFIG_SET_SIZE elements every
   further INSERT is rejected (whatever the payload) *)
Theorem p_insert_limit : forall sp o cur st l,
  obj_set_setting sp (o_name o) st -> o_code o = OAdd -> existing st cur = VList l ->
  (g_max_set <= length l)%nat -> exists e, apply_cell sp o cur = Err e.
Proof.
  intros sp o cur st l Hs Hc He Hl.
  destruct (apply_cell sp o cur) as [c'|e] eqn:Ea; [|eauto].
  destruct (p_set_insert _ _ _ _ _ _ Hs Hc He Ea) as [v [x [_ [_ [_ [_ [_ [Hlen _]]]]]]]].
  rewrite app_length in Hlen. simpl in Hlen. lia.
Qed.

(* the size limit on the SET path of object settings *)
Theorem p_object_set_limit : forall sp o cur st tn c',
  find_setting (sp_settings sp) (o_name o) = Some st -> s_type st = SObj tn -> o_code o = OSet ->
  apply_cell sp o cur = Ok c' ->
  exists x l, c' = Some x /\ v_value x = VList l /\ (length l <= g_max_set)%nat.
Proof.
  intros sp o cur st tn c' Hf Ht Hc Ha. unfold apply_cell in Ha. rewrite Hf, Hc in Ha.
  unfold coerce_value in Ha. rewrite Ht in Ha.
  destruct (find_type (sp_types sp) tn) as [ts|]; [|discriminate].
  destruct (sized_elems (o_value o)) as [es|]; [|discriminate].
  destruct (negb (s_set_of st) && Nat.ltb 1 (length es)); [discriminate|].
  destruct (coerce_objs sp ts es ([], [])) as [r|e]; cbn [bind catch_vt] in Ha;
    [|destruct e; discriminate].
  destruct (too_large (fst r)) eqn:Etl; cbn [bind catch_vt] in Ha; [discriminate|].
  injection Ha as Ha. subst c'. eexists. exists (fst r). repeat split.
  unfold too_large in Etl. apply Nat.ltb_ge in Etl. exact Etl.
Qed.
