(* The tick chain of edb/server/connpool/pool.py never stops while an acquire() is pending:
   in every reachable state of the pool model, 0 < nacq implies tick_armed = true.

   Structure: [tk s] is the pair of the only two fields the property reads.  Every helper of
   the model either leaves [tk] unchanged (one equation per helper, collected in the rewrite
   base [tkdb]), or only decrements nacq ([leT]), or re-establishes the invariant outright
   (maybe_sched_tick, hence acquire_start, release and tick). *)
From Coq Require Import List ZArith NArith Bool Lia.
From Verif.Pool Require Import Model Proofs.
Import ListNotations.
Open Scope Z_scope.

Definition tk (s : pool) : Z * bool := (s.(nacq), s.(tick_armed)).
Definition TickInv (s : pool) : Prop := 0 < s.(nacq) -> s.(tick_armed) = true.
(* nacq may only have gone down, the timer flag is the same *)
Definition leT (s s' : pool) : Prop := s'.(nacq) <= s.(nacq) /\ s'.(tick_armed) = s.(tick_armed).

Lemma nacq_tk s : nacq s = fst (tk s). Proof. reflexivity. Qed.
Lemma armed_tk s : tick_armed s = snd (tk s). Proof. reflexivity. Qed.

Lemma TickInv_same s s' : tk s' = tk s -> TickInv s -> TickInv s'.
Proof. unfold tk, TickInv. intros E I. inversion E as [[E1 E2]]. rewrite E1, E2. exact I. Qed.
Lemma leT_same s s' : tk s' = tk s -> leT s s'.
Proof. unfold tk, leT. intros E. inversion E as [[E1 E2]]. split; [lia|reflexivity]. Qed.
Lemma leT_tk s s' : fst (tk s') <= fst (tk s) -> snd (tk s') = snd (tk s) -> leT s s'.
Proof. unfold tk, leT. cbn [fst snd]. auto. Qed.
Lemma leT_trans s s1 s2 : leT s s1 -> leT s1 s2 -> leT s s2.
Proof. unfold leT. intros [a b] [c d]. split; [lia|congruence]. Qed.
Lemma leT_TickInv s s' : leT s s' -> TickInv s -> TickInv s'.
Proof. unfold leT, TickInv. intros [a b] I H. rewrite b. apply I. lia. Qed.

(* ------------------------------------------------------------------ setters *)
Lemma tk_set_maxc v s : tk (set_maxc v s) = tk s. Proof. reflexivity. Qed.
Lemma tk_set_cur v s : tk (set_cur v s) = tk s. Proof. reflexivity. Qed.
Lemma tk_set_blocks v s : tk (set_blocks v s) = tk s. Proof. reflexivity. Qed.
Lemma tk_set_starving v s : tk (set_starving v s) = tk s. Proof. reflexivity. Qed.
Lemma tk_set_waitlist v s : tk (set_waitlist v s) = tk s. Proof. reflexivity. Qed.
Lemma tk_set_overq v s : tk (set_overq v s) = tk s. Proof. reflexivity. Qed.
Lemma tk_set_gc_reqs v s : tk (set_gc_reqs v s) = tk s. Proof. reflexivity. Qed.
Lemma tk_set_gc_timers v s : tk (set_gc_timers v s) = tk s. Proof. reflexivity. Qed.
Lemma tk_set_ready v s : tk (set_ready v s) = tk s. Proof. reflexivity. Qed.
Lemma tk_set_infl_conn v s : tk (set_infl_conn v s) = tk s. Proof. reflexivity. Qed.
Lemma tk_set_infl_disc v s : tk (set_infl_disc v s) = tk s. Proof. reflexivity. Qed.
Lemma tk_set_gtasks v s : tk (set_gtasks v s) = tk s. Proof. reflexivity. Qed.
Lemma tk_set_next_bid v s : tk (set_next_bid v s) = tk s. Proof. reflexivity. Qed.
Lemma tk_set_next_conn v s : tk (set_next_conn v s) = tk s. Proof. reflexivity. Qed.
Lemma tk_set_next_cid v s : tk (set_next_cid v s) = tk s. Proof. reflexivity. Qed.
Lemma tk_set_next_did v s : tk (set_next_did v s) = tk s. Proof. reflexivity. Qed.
Lemma tk_set_next_tid v s : tk (set_next_tid v s) = tk s. Proof. reflexivity. Qed.
Lemma tk_set_err v s : tk (set_err v s) = tk s. Proof. reflexivity. Qed.
Lemma tk_set_outs v s : tk (set_outs v s) = tk s. Proof. reflexivity. Qed.
Lemma tk_set_g_open v s : tk (set_g_open v s) = tk s. Proof. reflexivity. Qed.
Lemma tk_set_g_held v s : tk (set_g_held v s) = tk s. Proof. reflexivity. Qed.
Lemma tk_set_g_conndb v s : tk (set_g_conndb v s) = tk s. Proof. reflexivity. Qed.
(* the two setters that do touch the pair *)
Lemma tk_set_nacq v s : tk (set_nacq v s) = (v, snd (tk s)). Proof. reflexivity. Qed.
Lemma tk_set_tick_armed v s : tk (set_tick_armed v s) = (fst (tk s), v). Proof. reflexivity. Qed.

Lemma tk_upd b s : tk (upd b s) = tk s. Proof. reflexivity. Qed.
Lemma tk_push k s : tk (push k s) = tk s. Proof. reflexivity. Qed.
Lemma tk_emit o s : tk (emit o s) = tk s. Proof. reflexivity. Qed.
Lemma tk_fail s : tk (fail s) = tk s. Proof. reflexivity. Qed.

Global Hint Rewrite tk_set_maxc tk_set_cur tk_set_blocks tk_set_starving tk_set_waitlist tk_set_overq
  tk_set_gc_reqs tk_set_gc_timers tk_set_ready tk_set_infl_conn tk_set_infl_disc tk_set_gtasks
  tk_set_next_bid tk_set_next_conn tk_set_next_cid tk_set_next_did tk_set_next_tid tk_set_err
  tk_set_outs tk_set_g_open tk_set_g_held tk_set_g_conndb tk_set_nacq tk_set_tick_armed
  tk_upd tk_push tk_emit tk_fail : tkdb.

(* ------------------------------------------------------------------ automation *)
(* turn  f ... s = (s', r)  into  tk s' = tk s ; extended with ::= as pair lemmas get proved *)
Ltac tkfwd1 H := fail.
Ltac tkfwd := repeat match goal with H : _ = (_, _) |- _ => tkfwd1 H; autorewrite with tkdb in H end.
Ltac dm x :=
  tryif is_var x then destruct x else
  match type of x with
  | (_ * _ * _ * _)%type => destruct x as [[[? ?] ?] ?] eqn:?
  | (_ * _)%type => destruct x as [? ?] eqn:?
  | _ => destruct x eqn:?
  end.
Ltac tkdm := repeat (match goal with |- context [match ?x with _ => _ end] => dm x end; cbv beta iota zeta).
Ltac tkfin := tkfwd; autorewrite with tkdb; try reflexivity; try congruence.
Ltac tkauto := cbv beta iota zeta; tkdm; tkfin.
(* goals  ... = (s', r) -> tk s' = tk s *)
Ltac tkpair := cbv beta iota zeta; tkdm; let E := fresh "E" in intros E; inversion E; subst; clear E; tkfin.
(* rewrite projections of composite states down to  tk s  *)
Ltac tkn := repeat (progress (rewrite ?nacq_tk, ?armed_tk; autorewrite with tkdb; cbn [fst snd])).

(* ------------------------------------------------------------------ helpers that leave tk alone *)
Lemma tk_wakeup_next i s : tk (wakeup_next i s) = tk s.
Proof. unfold wakeup_next. tkauto. Qed.
Lemma tk_abort_waiters i s : tk (abort_waiters i s) = tk s.
Proof. unfold abort_waiters. tkauto. Qed.
Global Hint Rewrite tk_wakeup_next tk_abort_waiters : tkdb.
Lemma tk_block_release i c s : tk (block_release i c s) = tk s.
Proof. unfold block_release. tkauto. Qed.
Lemma tk_try_steal i s r s' : try_steal i s = (r, s') -> tk s' = tk s.
Proof. unfold try_steal. tkpair. Qed.
Ltac tkfwd1 H ::= first [apply tk_try_steal in H].
Lemma tk_sched_new_conn i s : tk (sched_new_conn i s) = tk s.
Proof. unfold sched_new_conn. tkauto. Qed.
Lemma tk_sched_transfer f c t s : tk (sched_transfer f c t s) = tk s.
Proof. unfold sched_transfer. tkauto. Qed.
Lemma tk_sched_discard i c p br s : tk (sched_discard i c p br s) = tk s.
Proof. unfold sched_discard. tkauto. Qed.
Global Hint Rewrite tk_block_release tk_sched_new_conn tk_sched_transfer tk_sched_discard : tkdb.

Lemma tk_find_most_starving s s' r : find_most_starving s = (s', r) -> tk s' = tk s.
Proof. unfold find_most_starving. tkpair. Qed.
Ltac tkfwd1 H ::= first [apply tk_try_steal in H | apply tk_find_most_starving in H].
Lemma tk_maybe_free f c s s' r : maybe_free f c s = (s', r) -> tk s' = tk s.
Proof. unfold maybe_free. tkpair. Qed.
Ltac tkfwd1 H ::= first [apply tk_try_steal in H | apply tk_find_most_starving in H | apply tk_maybe_free in H].
Lemma tk_release_unused i c s : tk (release_unused i c s) = tk s.
Proof. unfold release_unused. tkauto. Qed.
Global Hint Rewrite tk_release_unused : tkdb.

Lemma tk_try_steal_conn o f l : forall s s' r, try_steal_conn o f l s = (s', r) -> tk s' = tk s.
Proof.
  induction l as [|i l IH]; intros s s' r; cbn [try_steal_conn]; tkdm; intros E;
    first [apply IH in E; tkfin | inversion E; subst; clear E; tkfin].
Qed.
Ltac tkfwd1 H ::= first [apply tk_try_steal in H | apply tk_find_most_starving in H | apply tk_maybe_free in H
                        | apply tk_try_steal_conn in H].
Lemma tk_try_shrink o i fuel : forall s, tk (try_shrink o i fuel s) = tk s.
Proof.
  induction fuel as [|f IH]; intros s; cbn [try_shrink]; [reflexivity|].
  tkdm; rewrite ?IH; tkfin.
Qed.
Lemma tk_grow i fuel : forall s, tk (grow i fuel s) = tk s.
Proof.
  induction fuel as [|f IH]; intros s; cbn [grow]; [reflexivity|].
  tkdm; rewrite ?IH; tkfin.
Qed.
Global Hint Rewrite tk_try_shrink tk_grow : tkdb.
Lemma tk_rebalance_one o i s : tk (rebalance_one o i s) = tk s.
Proof. unfold rebalance_one. tkauto. Qed.
Global Hint Rewrite tk_rebalance_one : tkdb.
Lemma tk_rebalance_loop o l : forall s, tk (rebalance_loop o l s) = tk s.
Proof. induction l as [|i l IH]; intros s; cbn [rebalance_loop]; [reflexivity|]. rewrite IH. tkfin. Qed.
Global Hint Rewrite tk_rebalance_loop : tkdb.
Lemma tk_rebalance o s : tk (rebalance o s) = tk s.
Proof. unfold rebalance. tkauto. Qed.
Global Hint Rewrite tk_rebalance : tkdb.

Lemma tk_get_block d s i s' : get_block d s = (i, s') -> tk s' = tk s.
Proof. unfold get_block. tkpair. Qed.
Ltac tkfwd1 H ::= first [apply tk_try_steal in H | apply tk_find_most_starving in H | apply tk_maybe_free in H
                        | apply tk_try_steal_conn in H | apply tk_get_block in H].

Lemma tk_cancel t s s' : cancel t s = Some s' -> tk s' = tk s.
Proof. unfold cancel. tkdm; intros E; inversion E; subst; clear E; tkfin. Qed.

Lemma tk_call_connect i s : tk (call_connect i s) = tk s.
Proof. unfold call_connect. tkauto. Qed.
Lemma tk_call_disconnect c a s : tk (call_disconnect c a s) = tk s.
Proof. unfold call_disconnect. tkauto. Qed.
Global Hint Rewrite tk_call_connect tk_call_disconnect : tkdb.
Lemma tk_connect_wake i res nodb s : tk (connect_wake i res nodb s) = tk s.
Proof. unfold connect_wake. tkauto. Qed.
Lemma tk_discard_start i c p br s : tk (discard_start i c p br s) = tk s.
Proof. unfold discard_start. tkauto. Qed.
Lemma tk_disconnect_wake c a ok s : tk (disconnect_wake c a ok s) = tk s.
Proof. unfold disconnect_wake. tkauto. Qed.
Lemma tk_prune_cont t i acc s : tk (prune_cont t i acc s) = tk s.
Proof. unfold prune_cont. tkauto. Qed.
Global Hint Rewrite tk_connect_wake tk_discard_start tk_disconnect_wake tk_prune_cont : tkdb.
Lemma tk_prune_start t d s : tk (prune_start t d s) = tk s.
Proof. unfold prune_start. tkauto. Qed.
Lemma tk_prune_wake t i acc ok s : tk (prune_wake t i acc ok s) = tk s.
Proof. unfold prune_wake. tkauto. Qed.
Lemma tk_gather_cb t s : tk (gather_cb t s) = tk s.
Proof. unfold gather_cb. tkauto. Qed.
Global Hint Rewrite tk_prune_start tk_prune_wake tk_gather_cb : tkdb.

(* ---- _tick's loops *)
Lemma tk_tick_scan o ids : forall s tot need drop s' t n d,
  tick_scan o ids s tot need drop = (s', t, n, d) -> tk s' = tk s.
Proof.
  induction ids as [|i r IH]; intros s tot need drop s' t n d; cbn [tick_scan]; tkdm; intros E;
    first [apply IH in E; autorewrite with tkdb in E; exact E | inversion E; subst; reflexivity].
Qed.
Lemma tk_drop_all ids : forall s s' r, drop_all ids s = (s', r) -> tk s' = tk s.
Proof.
  induction ids as [|i l IH]; intros s s' r; cbn [drop_all]; tkdm; intros E;
    first [apply IH in E; autorewrite with tkdb in E; exact E | inversion E; subst; reflexivity].
Qed.
Lemma tk_modeD_quota o ids : forall s, tk (modeD_quota o ids s) = tk s.
Proof.
  induction ids as [|i l IH]; intros s; cbn [modeD_quota]; [reflexivity|].
  cbv beta iota zeta. rewrite IH. tkdm; tkfin.
Qed.
Lemma tk_free_loop o i fuel : forall s s' r, free_loop o i fuel s = (s', r) -> tk s' = tk s.
Proof.
  induction fuel as [|f IH]; intros s s' r; cbn [free_loop]; tkdm; intros E;
    first [apply IH in E; tkfin | inversion E; subst; clear E; tkfin].
Qed.
Ltac tkfwd1 H ::= first [apply tk_try_steal in H | apply tk_find_most_starving in H | apply tk_maybe_free in H
                        | apply tk_try_steal_conn in H | apply tk_get_block in H
                        | apply tk_tick_scan in H | apply tk_drop_all in H | apply tk_free_loop in H].
Lemma tk_modeD_free o ids : forall s, tk (modeD_free o ids s) = tk s.
Proof.
  induction ids as [|i l IH]; intros s; cbn [modeD_free]; [reflexivity|].
  tkdm; rewrite ?IH; tkfin.
Qed.
Lemma tk_set_quotas cq : forall s, tk (set_quotas cq s) = tk s.
Proof.
  induction cq as [|[d q] r IH]; intros s; cbn [set_quotas]; [reflexivity|].
  rewrite IH. tkdm; tkfin.
Qed.
Global Hint Rewrite tk_modeD_quota tk_modeD_free tk_set_quotas : tkdb.

(* ---- _run_gc *)
Lemma tk_gc_block i n : forall s, tk (gc_block i n s) = tk s.
Proof.
  induction n as [|m IH]; intros s; cbn [gc_block]; [reflexivity|].
  tkdm; rewrite ?IH; tkfin.
Qed.
Global Hint Rewrite tk_gc_block : tkdb.
Lemma tk_gc_all o ids : forall s, tk (gc_all o ids s) = tk s.
Proof. induction ids as [|i l IH]; intros s; cbn [gc_all]; [reflexivity|]. rewrite IH. tkfin. Qed.
Global Hint Rewrite tk_gc_all : tkdb.
Lemma tk_run_gc o s : tk (run_gc o s) = tk s.
Proof. unfold run_gc. tkauto. Qed.

(* ------------------------------------------------------------------ maybe_sched_tick *)
Lemma nacq_maybe_sched_tick s : nacq (maybe_sched_tick s) = nacq s.
Proof. unfold maybe_sched_tick. destruct (_ && _); reflexivity. Qed.
(* whatever the state before, after _maybe_schedule_tick the invariant holds *)
Lemma TickInv_maybe_sched_tick s : TickInv (maybe_sched_tick s).
Proof.
  unfold TickInv, maybe_sched_tick.
  destruct (nacq s =? 0) eqn:E0; destruct (tick_armed s) eqn:Ea; cbn [negb andb]; intros H;
    try exact Ea; try reflexivity.
  apply Z.eqb_eq in E0. lia.
Qed.

(* ------------------------------------------------------------------ the decrements *)
Lemma tk_finish_acquire t d c s : tk (finish_acquire t d c s) = (fst (tk s) - 1, snd (tk s)).
Proof. unfold finish_acquire. cbv beta iota zeta. tkdm; autorewrite with tkdb; reflexivity. Qed.
Lemma leT_finish_acquire t d c s : leT s (finish_acquire t d c s).
Proof. apply leT_tk; rewrite tk_finish_acquire; cbn [fst snd]; [lia|reflexivity]. Qed.
Lemma leT_block_acquire t i f s : leT s (block_acquire t i f s).
Proof.
  unfold block_acquire. cbv beta iota zeta. destruct (split_last _) as [[r c]|].
  - eapply leT_trans; [|apply leT_finish_acquire]. apply leT_same. tkfin.
  - apply leT_same. tkfin.
Qed.
Lemma leT_acquire_wake t i ok s : leT s (acquire_wake t i ok s).
Proof.
  unfold acquire_wake. cbv beta iota zeta. destruct ok.
  - destruct (split_last _) as [[r c]|].
    + eapply leT_trans; [|apply leT_finish_acquire]. apply leT_same. tkfin.
    + eapply leT_trans; [|apply leT_block_acquire]. apply leT_same. tkfin.
  - destruct (b_stack (get_blk i s)); apply leT_tk; tkn; try lia; reflexivity.
Qed.
Lemma leT_acquire_cancelled t i late s : leT s (acquire_cancelled t i late s).
Proof.
  unfold acquire_cancelled. cbv beta iota zeta.
  destruct late; [destruct (b_stack (get_blk i s))|]; apply leT_tk; tkn; try lia; reflexivity.
Qed.

(* ------------------------------------------------------------------ the three re-arming entry points *)
Lemma TickInv_acquire_start o t d s : TickInv (acquire_start o t d s).
Proof.
  unfold acquire_start. cbv beta iota zeta.
  match goal with |- context [maybe_sched_tick ?x] =>
    pose proof (TickInv_maybe_sched_tick x) as H0; revert H0; generalize (maybe_sched_tick x); intros s0 H0 end.
  apply leT_TickInv with s0; [|exact H0]. clear H0.
  tkdm; (eapply leT_trans; [|apply leT_block_acquire]); apply leT_same; tkfin.
Qed.

Lemma TickInv_release o d c discard s : TickInv s -> TickInv (release o d c discard s).
Proof.
  intros I. unfold release.
  destruct (find_db d (blocks s)) as [b|]; [|apply TickInv_same with s; [tkfin|exact I]].
  destruct (alookup c (b_conns b)) as [[|]|]; try solve [apply TickInv_same with s; [tkfin|exact I]].
  cbv beta iota zeta.
  match goal with |- context [maybe_sched_tick ?x] =>
    pose proof (TickInv_maybe_sched_tick x) as H0; revert H0; generalize (maybe_sched_tick x); intros s1 H0 end.
  apply TickInv_same with s1; [|exact H0].
  destruct (should_free o (b_id b) s1); tkauto.
Qed.

(* _tick touches the pair only in its first two statements *)
Lemma tk_tick o s : tk (tick o s) = tk (maybe_sched_tick (set_tick_armed false s)).
Proof.
  unfold tick. cbv beta iota zeta. generalize (maybe_sched_tick (set_tick_armed false s)). intros s0.
  tkauto.
Qed.
Lemma TickInv_tick o s : TickInv (tick o s).
Proof. eapply TickInv_same; [apply tk_tick|apply TickInv_maybe_sched_tick]. Qed.

(* ------------------------------------------------------------------ one callback, one event *)
Lemma TickInv_run_kont o k s : TickInv s -> TickInv (run_kont o k s).
Proof.
  intros I. destruct k; cbn [run_kont];
    first [ apply TickInv_acquire_start
          | apply leT_TickInv with s; [|exact I];
              first [apply leT_acquire_wake | apply leT_acquire_cancelled]
          | apply TickInv_same with s; [tkfin|exact I] ].
Qed.

Lemma TickInv_step s e o s' : TickInv s -> step s e o = Some s' -> TickInv s'.
Proof.
  intros I. unfold step. cbv beta iota zeta.
  assert (I0 : TickInv (set_outs [] s)) by (apply TickInv_same with s; [tkfin|exact I]).
  revert I0. generalize (set_outs [] s). clear I s. intros s I.
  destruct e.
  - destruct (_ =? _)%N; intros E; inversion E; subst. apply TickInv_same with s; [tkfin|exact I].
  - destruct (_ =? _)%N; intros E; inversion E; subst. apply TickInv_same with s; [tkfin|exact I].
  - intros E; inversion E; subst. apply TickInv_release, I.
  - destruct (alookup cid (infl_conn s)); intros E; inversion E; subst.
    apply TickInv_same with s; [tkfin|exact I].
  - destruct (alookup cid (infl_conn s)); intros E; inversion E; subst.
    apply TickInv_same with s; [tkfin|exact I].
  - destruct (alookup did (infl_disc s)) as [[c a]|]; intros E; inversion E; subst.
    apply TickInv_same with s; [tkfin|exact I].
  - destruct (alookup did (infl_disc s)) as [[c a]|]; intros E; inversion E; subst.
    apply TickInv_same with s; [tkfin|exact I].
  - destruct (tick_armed s); intros E; inversion E; subst. apply TickInv_tick.
  - destruct (0 <? gc_timers s); intros E; inversion E; subst.
    apply TickInv_same with s; [apply tk_run_gc|exact I].
  - intros E. apply tk_cancel in E. apply TickInv_same with s; [exact E|exact I].
  - destruct (ready s) as [|k r]; intros E; inversion E; subst.
    apply TickInv_run_kont. apply TickInv_same with s; [tkfin|exact I].
Qed.

Lemma TickInv_init mx : TickInv (init mx).
Proof. unfold TickInv, init. cbn. lia. Qed.

Lemma reach_TickInv mx s : reach mx s -> TickInv s.
Proof.
  induction 1 as [|s e o s' R IH St]; [apply TickInv_init|]. eapply TickInv_step; eauto.
Qed.

(* ================================================================== the property *)
(* While at least one acquire() is pending, the periodic tick timer is armed. *)
Theorem p_tick_chain : forall mx s, reach mx s -> 0 < s.(nacq) -> s.(tick_armed) = true.
Proof. intros mx s R. exact (reach_TickInv mx s R). Qed.

(* the form with the bound on max_capacity the other pool properties carry *)
Corollary p_tick_chain' : forall mx s, 0 <= mx -> reach mx s -> 0 < s.(nacq) -> s.(tick_armed) = true.
Proof. intros mx s _. apply p_tick_chain. Qed.

(* Companion: a tick that fires while acquires are pending completes none of them and re-arms
   the timer (the hypothesis only needs nacq <> 0). *)
Theorem p_tick_rearms : forall s o s', step s ETick o = Some s' -> 0 < s.(nacq) ->
  s'.(nacq) = s.(nacq) /\ s'.(tick_armed) = true.
Proof.
  intros s o s' St Hn. unfold step in St. cbv beta iota zeta in St.
  destruct (tick_armed (set_outs [] s)); [|discriminate]. inversion St; subst. clear St.
  pose proof (tk_tick o (set_outs [] s)) as E. unfold maybe_sched_tick in E.
  cbn [nacq tick_armed set_tick_armed set_outs] in E.
  destruct (nacq s =? 0) eqn:E0; [apply Z.eqb_eq in E0; lia|].
  cbn [negb andb] in E. unfold tk at 2 in E. cbn [nacq tick_armed set_tick_armed set_outs] in E.
  unfold tk in E. inversion E as [[E1 E2]]. split; reflexivity.
Qed.

(* ================================================================== non-vacuity *)
Definition o0 : oracle := mkOracle [] [] [] false [].
Definition tick_trace : list (event * oracle) := [(EAcquire 1 1, o0); (ERun, o0)].
Definition tick_state : pool :=
  Eval vm_compute in match run (init 2) tick_trace with Some s => s | None => init 0 end.
(* a reachable state with a pending acquire: the premise of p_tick_chain is satisfiable *)
Example ex_tick_chain : reach 2 tick_state /\ 0 < tick_state.(nacq) /\ tick_state.(tick_armed) = true.
Proof.
  split; [apply (run_reach 2 tick_trace (init 2)); [apply reach_init|vm_compute; reflexivity]|].
  split; vm_compute; reflexivity.
Qed.
(* the timer really fires in that state and stays armed *)
Example ex_tick_rearms : exists s', step tick_state ETick o0 = Some s' /\ s'.(nacq) = 1 /\ s'.(tick_armed) = true.
Proof. eexists. split; [vm_compute; reflexivity|]. split; vm_compute; reflexivity. Qed.

Print Assumptions p_tick_chain.
Print Assumptions p_tick_rearms.
Print Assumptions ex_tick_chain.
