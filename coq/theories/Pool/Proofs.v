(* Proofs about the pool model: invariants preserved by every event for every oracle value. *)
From Coq Require Import List ZArith NArith Bool Lia Permutation.
From Verif.Pool Require Import Model.
Import ListNotations.
Open Scope Z_scope.


(* ------------------------------------------------------------------ generic *)
Arguments zlen : simpl never.
Lemma zlen_app {A} (l1 l2 : list A) : zlen (l1 ++ l2) = zlen l1 + zlen l2.
Proof. unfold zlen. rewrite app_length. lia. Qed.
Lemma zlen_cons {A} (x : A) l : zlen (x :: l) = 1 + zlen l.
Proof. unfold zlen. cbn [length]. lia. Qed.
Lemma zlen_nil {A} : zlen (@nil A) = 0. Proof. reflexivity. Qed.
Lemma zlen_nonneg {A} (l : list A) : 0 <= zlen l. Proof. unfold zlen. lia. Qed.

Definition b2z (b : bool) : Z := if b then 1 else 0.
Definition cnt (f : kont -> bool) (l : list kont) : Z := zlen (filter f l).
Arguments cnt : simpl never.
Lemma cnt_nil f : cnt f [] = 0. Proof. reflexivity. Qed.
Lemma cnt_cons f k l : cnt f (k :: l) = b2z (f k) + cnt f l.
Proof. unfold cnt. cbn [filter]. destruct (f k); cbn [b2z]; rewrite ?zlen_cons; lia. Qed.
Lemma cnt_app f l1 l2 : cnt f (l1 ++ l2) = cnt f l1 + cnt f l2.
Proof. unfold cnt. rewrite filter_app, zlen_app. lia. Qed.
Lemma cnt_nonneg f l : 0 <= cnt f l. Proof. apply zlen_nonneg. Qed.
Lemma cnt_le f g l : (forall k, f k = true -> g k = true) -> cnt f l <= cnt g l.
Proof.
  intros H. induction l as [|k l IH]; [rewrite !cnt_nil; lia|].
  rewrite !cnt_cons. specialize (H k). destruct (f k) eqn:Ef.
  - rewrite (H eq_refl). lia.
  - destruct (g k); cbn [b2z]; lia.
Qed.
Lemma cnt_map_zero {A} f (g : A -> kont) l : (forall x, f (g x) = false) -> cnt f (map g l) = 0.
Proof. intros H. induction l; cbn [map]; [reflexivity|]. rewrite cnt_cons, H, IHl. reflexivity. Qed.

Lemma bid_eqb_eq a b : bid_eqb a b = true <-> a = b.
Proof.
  destruct a as [a1 a2], b as [b1 b2]. unfold bid_eqb. cbn [fst snd].
  rewrite andb_true_iff, !N.eqb_eq. split; [intros [-> ->]; reflexivity|intros H; inversion H; auto].
Qed.
Lemma bid_eqb_refl a : bid_eqb a a = true. Proof. apply bid_eqb_eq. reflexivity. Qed.
Lemma bid_eqb_neq a b : bid_eqb a b = false <-> a <> b.
Proof. rewrite <- bid_eqb_eq. destruct (bid_eqb a b); split; congruence. Qed.

(* ------------------------------------------------------------------ kinds of ready-queue entries *)
Definition is_cstart k := match k with KConnStart _ => true | _ => false end.
Definition is_cfail k := match k with KConnWake _ _ None _ => true | _ => false end.
Definition is_dwake k := match k with KDiscWake _ _ _ _ => true | _ => false end.
Definition is_bstart k := match k with KDiscStart _ _ _ true => true | _ => false end.
Definition is_bwake k := match k with KDiscWake _ _ (ADDiscard _ true) _ => true | _ => false end.
Definition is_binfl (e : N * (conn * after_disc)) :=
  match snd (snd e) with ADDiscard _ true => true | _ => false end.

(* connections being opened: _connect tasks scheduled or waiting for the connect callback *)
Definition opening (s : pool) : Z := cnt is_cstart s.(ready) + zlen s.(infl_conn).
(* completions the backend has delivered but the pool's task has not processed yet *)
Definition lag (s : pool) : Z := cnt is_cfail s.(ready) + cnt is_dwake s.(ready).
(* connections handed back with discard=True whose disconnect has not completed: still open *)
Definition nbroken (s : pool) : Z := cnt is_bstart s.(ready) + zlen (filter is_binfl s.(infl_disc)).

Definition InvA (s : pool) : Prop := s.(cur) = zlen s.(g_open) + opening s + lag s.
Definition InvB (s : pool) : Prop := s.(cur) <= s.(maxc) + nbroken s + cnt is_bwake s.(ready).

(* ------------------------------------------------------------------ aspect 1: counting *)
(* keepA s s': s' is s after some bookkeeping that may append harmless entries to the ready
   queue and schedule new connections only under the capacity guard *)
Record keepA (s s' : pool) : Prop := mkKeepA {
  kA_maxc : s'.(maxc) = s.(maxc);
  kA_open : s'.(g_open) = s.(g_open);
  kA_ic : s'.(infl_conn) = s.(infl_conn);
  kA_id : s'.(infl_disc) = s.(infl_disc);
  kA_ready : exists add, s'.(ready) = s.(ready) ++ add /\ s'.(cur) = s.(cur) + cnt is_cstart add
      /\ cnt is_cfail add = 0 /\ cnt is_dwake add = 0 /\ cnt is_bstart add = 0;
  kA_cap : s'.(cur) <= Z.max s.(cur) s.(maxc);
  kA_err : s.(err) = true -> s'.(err) = true }.

Lemma keepA_refl s : keepA s s.
Proof. split; try reflexivity; [exists []; rewrite app_nil_r, !cnt_nil; repeat split; lia | lia | auto]. Qed.

Lemma keepA_trans s1 s2 s3 : keepA s1 s2 -> keepA s2 s3 -> keepA s1 s3.
Proof.
  intros [a1 a2 a3 a4 (d1 & r1 & c1 & f1 & w1 & b1) p1 q1] [e1 e2 e3 e4 (d2 & r2 & c2 & f2 & w2 & b2) p2 q2].
  split; try congruence.
  - exists (d1 ++ d2). rewrite r2, r1, app_assoc, !cnt_app. repeat split; lia.
  - rewrite a1 in *. lia.
  - auto.
Qed.

(* a state that differs from s only in fields the counting invariants do not read *)
Definition sameA (s s' : pool) : Prop :=
  s'.(maxc) = s.(maxc) /\ s'.(g_open) = s.(g_open) /\ s'.(infl_conn) = s.(infl_conn) /\
  s'.(infl_disc) = s.(infl_disc) /\ s'.(ready) = s.(ready) /\ s'.(cur) = s.(cur) /\
  (s.(err) = true -> s'.(err) = true).
Lemma sameA_keepA s0 s s' : sameA s s' -> keepA s0 s -> keepA s0 s'.
Proof.
  intros (h1 & h2 & h3 & h4 & h5 & h6 & h7) K. apply keepA_trans with s; [exact K|].
  split; try assumption; [exists []; rewrite app_nil_r, !cnt_nil; repeat split; try lia; congruence | lia].
Qed.
Ltac sameA_tac := unfold sameA; cbn; repeat split; solve [reflexivity | auto].

Lemma kA_upd s0 b s : keepA s0 s -> keepA s0 (upd b s).
Proof. apply sameA_keepA. sameA_tac. Qed.
Lemma kA_set_blocks s0 v s : keepA s0 s -> keepA s0 (set_blocks v s).
Proof. apply sameA_keepA. sameA_tac. Qed.
Lemma kA_set_starving s0 v s : keepA s0 s -> keepA s0 (set_starving v s).
Proof. apply sameA_keepA. sameA_tac. Qed.
Lemma kA_set_waitlist s0 v s : keepA s0 s -> keepA s0 (set_waitlist v s).
Proof. apply sameA_keepA. sameA_tac. Qed.
Lemma kA_set_overq s0 v s : keepA s0 s -> keepA s0 (set_overq v s).
Proof. apply sameA_keepA. sameA_tac. Qed.
Lemma kA_set_nacq s0 v s : keepA s0 s -> keepA s0 (set_nacq v s).
Proof. apply sameA_keepA. sameA_tac. Qed.
Lemma kA_set_tick_armed s0 v s : keepA s0 s -> keepA s0 (set_tick_armed v s).
Proof. apply sameA_keepA. sameA_tac. Qed.
Lemma kA_set_gc_reqs s0 v s : keepA s0 s -> keepA s0 (set_gc_reqs v s).
Proof. apply sameA_keepA. sameA_tac. Qed.
Lemma kA_set_gc_timers s0 v s : keepA s0 s -> keepA s0 (set_gc_timers v s).
Proof. apply sameA_keepA. sameA_tac. Qed.
Lemma kA_set_gtasks s0 v s : keepA s0 s -> keepA s0 (set_gtasks v s).
Proof. apply sameA_keepA. sameA_tac. Qed.
Lemma kA_set_next_bid s0 v s : keepA s0 s -> keepA s0 (set_next_bid v s).
Proof. apply sameA_keepA. sameA_tac. Qed.
Lemma kA_set_g_held s0 v s : keepA s0 s -> keepA s0 (set_g_held v s).
Proof. apply sameA_keepA. sameA_tac. Qed.
Lemma kA_emit s0 v s : keepA s0 s -> keepA s0 (emit v s).
Proof. apply sameA_keepA. sameA_tac. Qed.
Lemma kA_fail s0 s : keepA s0 s -> keepA s0 (fail s).
Proof. apply sameA_keepA. sameA_tac. Qed.

Definition harmless (k : kont) : bool :=
  negb (is_cstart k) && negb (is_cfail k) && negb (is_dwake k) && negb (is_bstart k).

Lemma kA_append s0 l s : forallb harmless l = true -> keepA s0 s -> keepA s0 (set_ready (s.(ready) ++ l) s).
Proof.
  intros Hh K. apply keepA_trans with s; [exact K|].
  assert (Z0 : forall f, (forall k, harmless k = true -> f k = false) -> cnt f l = 0).
  { intros f Hf. induction l as [|k l IH]; [reflexivity|]. cbn [forallb] in Hh.
    apply andb_true_iff in Hh as [Hk Hl]. rewrite cnt_cons, (Hf k Hk), (IH Hl). reflexivity. }
  split; cbn; try reflexivity.
  - exists l. repeat split.
    + rewrite Z0; [lia|]. intros k; unfold harmless; destruct (is_cstart k); cbn; congruence.
    + apply Z0. intros k; unfold harmless; destruct (is_cstart k), (is_cfail k); cbn; congruence.
    + apply Z0. intros k; unfold harmless; destruct (is_cstart k), (is_cfail k), (is_dwake k); cbn; congruence.
    + apply Z0. intros k; unfold harmless; destruct (is_cstart k), (is_cfail k), (is_dwake k), (is_bstart k); cbn; congruence.
  - lia.
  - auto.
Qed.
Lemma kA_push s0 k s : harmless k = true -> keepA s0 s -> keepA s0 (push k s).
Proof. intros H. unfold push. apply kA_append. cbn. rewrite H. reflexivity. Qed.

Lemma harmless_wake i w ok : harmless (wake_kont i w ok) = true.
Proof. unfold wake_kont. destruct (snd w); reflexivity. Qed.

Lemma kA_wakeup_next s0 i s : keepA s0 s -> keepA s0 (wakeup_next i s).
Proof.
  intros K. unfold wakeup_next. destruct (drop_done (b_waiters (get_blk i s))); [apply kA_upd, K|].
  apply kA_push; [apply harmless_wake|]. apply kA_upd, K.
Qed.
Lemma kA_abort_waiters s0 i s : keepA s0 s -> keepA s0 (abort_waiters i s).
Proof.
  intros K. unfold abort_waiters.
  change (ready s) with (ready (upd (set_b_waiters [] (get_blk i s)) s)).
  apply kA_append; [|apply kA_upd, K].
  induction (filter _ (b_waiters (get_blk i s))); cbn; [reflexivity|]. rewrite harmless_wake. assumption.
Qed.
Lemma kA_block_release s0 i c s : keepA s0 s -> keepA s0 (block_release i c s).
Proof. intros K. unfold block_release. apply kA_wakeup_next, kA_upd, K. Qed.
Lemma kA_try_steal s0 i s r s' : try_steal i s = (r, s') -> keepA s0 s -> keepA s0 s'.
Proof.
  unfold try_steal. destruct (b_stack (get_blk i s)); intros E K; inversion E; subst; [exact K|].
  apply kA_upd, K.
Qed.
Lemma kA_sched_new_conn s0 i s : s.(cur) < s.(maxc) -> keepA s0 s -> keepA s0 (sched_new_conn i s).
Proof.
  intros G K. apply keepA_trans with s; [exact K|]. unfold sched_new_conn.
  match goal with |- keepA _ (push _ ?x) => assert (E : sameA (set_cur (cur s + 1) s) x) end.
  { destruct (starving (set_cur (cur s + 1) (upd (set_b_pending (b_pending (get_blk i s) + 1) (get_blk i s)) s)));
      sameA_tac. }
  destruct E as (h1 & h2 & h3 & h4 & h5 & h6 & h7). cbn in *.
  split; cbn; try congruence.
  - exists [KConnStart i]. rewrite h5, h6. rewrite !cnt_cons, !cnt_nil. cbn. repeat split; lia.
  - rewrite h6. lia.
  - exact h7.
Qed.
Lemma kA_sched_transfer s0 f c t s : keepA s0 s -> keepA s0 (sched_transfer f c t s).
Proof.
  intros K. unfold sched_transfer. destruct (alookup c (b_conns (get_blk f s))) as [[|]|]; try (apply kA_fail, K).
  apply kA_push; [reflexivity|].
  match goal with |- keepA _ (if ?x then _ else _) => destruct x end;
    repeat first [apply kA_set_blocks | apply kA_upd]; exact K.
Qed.
Lemma kA_sched_discard s0 i c p s : keepA s0 s -> keepA s0 (sched_discard i c p false s).
Proof. intros K. apply kA_push; [reflexivity|exact K]. Qed.
Lemma kA_maybe_sched_tick s0 s : keepA s0 s -> keepA s0 (maybe_sched_tick s).
Proof. intros K. unfold maybe_sched_tick. destruct (_ && _); [apply kA_set_tick_armed|]; exact K. Qed.
Lemma kA_find_most_starving s0 s s' r : find_most_starving s = (s', r) -> keepA s0 s -> keepA s0 s'.
Proof.
  unfold find_most_starving. destruct (wl_pop _ _) as [wl o]. intros E K.
  destruct o; [|destruct (starve_revive _ _ _)]; inversion E; subst; apply kA_set_waitlist, K.
Qed.
Lemma kA_maybe_free s0 f c s s' r : maybe_free f c s = (s', r) -> keepA s0 s -> keepA s0 s'.
Proof.
  unfold maybe_free. destruct (find_most_starving s) as [s1 to] eqn:E. intros E2 K.
  assert (K1 : keepA s0 s1) by (eapply kA_find_most_starving; eauto).
  destruct to as [j|]; [destruct (bid_eqb j f)|]; inversion E2; subst; try exact K1.
  apply kA_sched_transfer, K1.
Qed.
Lemma kA_release_unused s0 i c s : keepA s0 s -> keepA s0 (release_unused i c s).
Proof.
  intros K. unfold release_unused. match goal with |- keepA _ (if ?x then _ else _) => destruct x end;
    repeat first [apply kA_set_gc_timers | apply kA_set_gc_reqs | apply kA_block_release]; exact K.
Qed.
Lemma kA_try_steal_conn o f l : forall s0 s s' r, try_steal_conn o f l s = (s', r) -> keepA s0 s -> keepA s0 s'.
Proof.
  induction l as [|i l IH]; intros s0 s s' r E K; cbn [try_steal_conn] in E.
  - inversion E; subst; exact K.
  - destruct (bid_eqb i f || negb (should_free o i s)); [eapply IH; eauto|].
    destruct (try_steal i s) as [[c|] s1] eqn:Es; [|eapply IH; eauto].
    inversion E; subst. apply kA_sched_transfer. eapply kA_try_steal; eauto.
Qed.
Lemma kA_try_shrink o i fuel : forall s0 s, keepA s0 s -> keepA s0 (try_shrink o i fuel s).
Proof.
  induction fuel as [|f IH]; intros s0 s K; cbn [try_shrink]; [exact K|].
  destruct (_ && _); [|exact K].
  destruct (try_steal i s) as [[c|] s1] eqn:Es; [|exact K].
  destruct (find_most_starving s1) as [s2 to] eqn:Ef.
  apply IH. assert (K2 : keepA s0 s2) by (eapply kA_find_most_starving; [eauto|]; eapply kA_try_steal; eauto).
  destruct to; [apply kA_sched_transfer|apply kA_sched_discard]; exact K2.
Qed.
Lemma kA_grow i fuel : forall s0 s, keepA s0 s -> keepA s0 (grow i fuel s).
Proof.
  induction fuel as [|f IH]; intros s0 s K; cbn [grow]; [exact K|].
  destruct (_ && _) eqn:G; [|exact K]. apply andb_true_iff in G as [_ G]. apply Z.ltb_lt in G.
  apply IH, kA_sched_new_conn; assumption.
Qed.
Lemma kA_rebalance_one o i s0 s : keepA s0 s -> keepA s0 (rebalance_one o i s).
Proof.
  intros K. unfold rebalance_one.
  destruct (_ <? _); [|destruct (_ <? _); [apply kA_grow|]; exact K].
  match goal with |- keepA _ (if ?x then _ else _) => destruct x end;
    [apply kA_set_overq|]; apply kA_try_shrink, K.
Qed.
Lemma kA_rebalance_loop o l : forall s0 s, keepA s0 s -> keepA s0 (rebalance_loop o l s).
Proof. induction l; intros; cbn [rebalance_loop]; [assumption|]. apply IHl, kA_rebalance_one; assumption. Qed.
Lemma kA_rebalance o s0 s : keepA s0 s -> keepA s0 (rebalance o s).
Proof.
  intros K. unfold rebalance. destruct (starving s); [exact K|].
  apply kA_set_overq, kA_rebalance_loop, kA_set_overq, K.
Qed.

Lemma kA_finish_acquire s0 t d c s : keepA s0 s -> keepA s0 (finish_acquire t d c s).
Proof.
  intros K. unfold finish_acquire.
  destruct (find_db d _) as [b|]; [|apply kA_fail, kA_set_nacq, K].
  destruct (alookup c (b_conns b)) as [[|]|]; try (apply kA_fail, kA_set_nacq, K).
  apply kA_emit, kA_set_g_held, kA_upd, kA_set_nacq, K.
Qed.
Lemma kA_block_acquire s0 t i f s : keepA s0 s -> keepA s0 (block_acquire t i f s).
Proof.
  intros K. unfold block_acquire. destruct (split_last _) as [[r c]|].
  - apply kA_finish_acquire, kA_upd, K.
  - apply kA_upd, K.
Qed.
Lemma kA_get_block s0 d s i s' : get_block d s = (i, s') -> keepA s0 s -> keepA s0 s'.
Proof.
  unfold get_block. destruct (find_db d (blocks s)); intros E K; inversion E; subst; [exact K|].
  apply kA_set_next_bid, kA_set_blocks, K.
Qed.
Ltac kif := match goal with |- keepA _ (if ?x then _ else _) => destruct x eqn:? end.
Lemma kA_acquire_start o t d s0 s : keepA s0 s -> keepA s0 (acquire_start o t d s).
Proof.
  intros K. unfold acquire_start.
  destruct (get_block d _) as [i s1] eqn:Eg.
  assert (K1 : keepA s0 s1) by (eapply kA_get_block; [eauto|]; apply kA_maybe_sched_tick, kA_set_nacq, K).
  set (s2 := upd _ s1). assert (K2 : keepA s0 s2) by (apply kA_upd, K1).
  kif.
  - match goal with H : (_ <? _) = true |- _ => apply Z.ltb_lt in H end.
    apply kA_block_acquire.
    kif; [kif|kif]; try exact K2; apply kA_sched_new_conn; assumption.
  - kif; [|kif].
    + destruct (try_steal_conn o i (overq s2) s2) as [s3 ok] eqn:Et.
      assert (K3 : keepA s0 s3) by (eapply kA_try_steal_conn; eauto).
      apply kA_block_acquire. destruct ok; [|apply kA_set_waitlist]; exact K3.
    + destruct (try_steal_conn o i (overq s2) s2) as [s3 ok] eqn:Et.
      apply kA_block_acquire. eapply kA_try_steal_conn; eauto.
    + apply kA_block_acquire, K2.
Qed.
Lemma kA_acquire_wake t i ok s0 s : keepA s0 s -> keepA s0 (acquire_wake t i ok s).
Proof.
  intros K. unfold acquire_wake. destruct ok.
  - destruct (split_last _) as [[r c]|].
    + apply kA_finish_acquire, kA_upd, K.
    + apply kA_block_acquire, kA_upd, K.
  - apply kA_emit, kA_set_nacq, kA_upd.
    destruct (b_stack _); [exact K|apply kA_wakeup_next, K].
Qed.
Lemma kA_acquire_cancelled t i late s0 s : keepA s0 s -> keepA s0 (acquire_cancelled t i late s).
Proof.
  intros K. unfold acquire_cancelled. apply kA_emit, kA_set_nacq, kA_upd.
  destruct late; [destruct (b_stack _); [exact K|apply kA_wakeup_next, K]|apply kA_upd, K].
Qed.
Lemma kA_prune_cont t i acc s0 s : keepA s0 s -> keepA s0 (prune_cont t i acc s).
Proof.
  intros K. unfold prune_cont. destruct (_ && _); [apply kA_upd, K|].
  destruct acc as [|a acc']; [apply kA_emit, K|].
  apply kA_set_gtasks.
  apply kA_append; [|exact K]. induction (a :: acc'); cbn; auto.
Qed.
Lemma kA_prune_start t d s0 s : keepA s0 s -> keepA s0 (prune_start t d s).
Proof.
  intros K. unfold prune_start. destruct (find_db _ _); [|apply kA_emit, K].
  apply kA_prune_cont, kA_upd, K.
Qed.
Lemma kA_prune_wake t i acc ok s0 s : keepA s0 s -> keepA s0 (prune_wake t i acc ok s).
Proof.
  intros K. unfold prune_wake. destruct ok.
  - destruct (split_last _) as [[r c]|]; apply kA_prune_cont, kA_upd, K.
  - apply kA_emit, kA_upd. destruct (b_stack _); [exact K|apply kA_wakeup_next, K].
Qed.
Lemma kA_gather_cb t s0 s : keepA s0 s -> keepA s0 (gather_cb t s).
Proof.
  intros K. unfold gather_cb. destruct (alookup _ _); [|exact K].
  destruct (_ <=? _); [apply kA_push; [reflexivity|]|]; apply kA_set_gtasks, K.
Qed.

Lemma kA_tick_scan o ids : forall s0 s tot need drop s' a b c,
  tick_scan o ids s tot need drop = (s', a, b, c) -> keepA s0 s -> keepA s0 s'.
Proof.
  induction ids as [|i r IH]; intros s0 s tot need drop s' a b c E K; cbn [tick_scan] in E.
  - inversion E; subst; exact K.
  - destruct (_ && _); [|destruct (_ =? _)]; eapply IH; eauto; apply kA_upd, K.
Qed.
Lemma kA_drop_all ids : forall s0 s s' r, drop_all ids s = (s', r) -> keepA s0 s -> keepA s0 s'.
Proof.
  induction ids as [|i r IH]; intros s0 s s' r0 E K; cbn [drop_all] in E.
  - inversion E; subst; exact K.
  - destruct (_ || _); [inversion E; subst; exact K|]. eapply IH; eauto. apply kA_set_blocks, K.
Qed.
Lemma kA_modeD_quota o ids : forall s0 s, keepA s0 s -> keepA s0 (modeD_quota o ids s).
Proof.
  induction ids as [|i r IH]; intros s0 s K; cbn [modeD_quota]; [exact K|]. apply IH.
  destruct (_ =? 1); [destruct (mem_n _ _)|destruct (_ <? _)];
    first [apply kA_upd | apply kA_set_blocks]; exact K.
Qed.
Lemma kA_free_loop o i fuel : forall s0 s s' r, free_loop o i fuel s = (s', r) -> keepA s0 s -> keepA s0 s'.
Proof.
  induction fuel as [|f IH]; intros s0 s s' r E K; cbn [free_loop] in E.
  - inversion E; subst; exact K.
  - destruct (should_free o i s); [|inversion E; subst; exact K].
    destruct (try_steal i s) as [[c|] s1] eqn:Es; [|inversion E; subst; exact K].
    destruct (maybe_free i c s1) as [s2 ok] eqn:Em.
    assert (K2 : keepA s0 s2) by (eapply kA_maybe_free; [eauto|]; eapply kA_try_steal; eauto).
    destruct ok; [eapply IH; eauto|]. inversion E; subst. apply kA_release_unused, K2.
Qed.
Lemma kA_modeD_free o ids : forall s0 s, keepA s0 s -> keepA s0 (modeD_free o ids s).
Proof.
  induction ids as [|i r IH]; intros s0 s K; cbn [modeD_free]; [exact K|].
  destruct (free_loop _ _ _ _) as [s1 stop] eqn:Ef.
  assert (K1 : keepA s0 s1) by (eapply kA_free_loop; eauto).
  destruct stop; [exact K1|apply IH, K1].
Qed.
Lemma kA_set_quotas cq : forall s0 s, keepA s0 s -> keepA s0 (set_quotas cq s).
Proof.
  induction cq as [|[d q] r IH]; intros s0 s K; cbn [set_quotas]; [exact K|]. apply IH.
  destruct (find_db _ _); [apply kA_upd|]; exact K.
Qed.
Lemma kA_tick o s0 s : keepA s0 s -> keepA s0 (tick o s).
Proof.
  intros K. unfold tick.
  assert (K0 : keepA s0 (maybe_sched_tick (set_tick_armed false s)))
    by (apply kA_maybe_sched_tick, kA_set_tick_armed, K).
  destruct (blocks _) as [|b [|b2 bs]] eqn:Eb.
  - apply kA_set_starving, K0.
  - apply kA_upd, kA_set_starving, K0.
  - destruct (tick_scan _ _ _ _ _ _) as [[[s1 tot] need] drop] eqn:Et.
    assert (K1 : keepA s0 s1) by (eapply kA_tick_scan; eauto).
    destruct (drop_all _ _) as [s3 crashed] eqn:Ed.
    assert (K3 : keepA s0 s3) by (eapply kA_drop_all; [eauto|]; apply kA_set_starving, K1).
    destruct crashed; [apply kA_emit, K3|].
    kif; [exact K3|]. kif.
    { kif; [apply kA_rebalance|]; exact K3. }
    kif.
    + kif; [apply kA_modeD_free|]; apply kA_modeD_quota, K3.
    + kif; [apply kA_emit|apply kA_rebalance]; apply kA_set_quotas, K3.
Qed.
Lemma kA_gc_block i n : forall s0 s, keepA s0 s -> keepA s0 (gc_block i n s).
Proof.
  induction n as [|m IH]; intros s0 s K; cbn [gc_block]; [exact K|].
  destruct (try_steal i s) as [[c|] s1] eqn:Es; [|exact K].
  apply IH, kA_sched_discard. eapply kA_try_steal; eauto.
Qed.
Lemma kA_gc_all o ids : forall s0 s, keepA s0 s -> keepA s0 (gc_all o ids s).
Proof. induction ids; intros; cbn [gc_all]; [assumption|]. apply IHids, kA_gc_block; assumption. Qed.
Lemma kA_run_gc o s0 s : keepA s0 s -> keepA s0 (run_gc o s).
Proof.
  intros K. unfold run_gc.
  destruct (starving _); [apply kA_set_gc_timers, kA_set_gc_timers, K|].
  apply kA_gc_all. destruct (_ <? _); repeat first [apply kA_set_gc_timers | apply kA_set_gc_reqs]; exact K.
Qed.

(* ---- the counting invariants are preserved by keepA *)
Lemma keepA_InvA s s' : keepA s s' -> InvA s -> InvA s'.
Proof.
  intros [a1 a2 a3 a4 (d & r & c & f & w & b) p q] I. unfold InvA, opening, lag in *.
  rewrite a2, a3, r, !cnt_app. lia.
Qed.
Lemma keepA_InvB s s' : keepA s s' -> InvB s -> InvB s'.
Proof.
  intros [a1 a2 a3 a4 (d & r & c & f & w & b) p q] I. unfold InvB, nbroken in *.
  rewrite a1, a4, r, !cnt_app.
  assert (cnt is_bwake d = 0).
  { pose proof (cnt_nonneg is_bwake d).
    assert (cnt is_bwake d <= cnt is_dwake d) by (apply cnt_le; intros [] ; cbn; congruence). lia. }
  pose proof (cnt_nonneg is_bstart (ready s)). pose proof (cnt_nonneg is_bwake (ready s)).
  pose proof (zlen_nonneg (filter is_binfl (infl_disc s))). lia.
Qed.

Lemma aremove_len {A} k (l : list (N * A)) v : alookup k l = Some v -> zlen (aremove k l) = zlen l - 1.
Proof.
  induction l as [|[k' v'] l IH]; cbn [alookup aremove]; [discriminate|].
  destruct (k =? k')%N; intros E; rewrite ?zlen_cons; [lia|]. rewrite (IH E). lia.
Qed.
Lemma aremove_filter {A} (f : N * A -> bool) k l v :
  alookup k l = Some v -> zlen (filter f (aremove k l)) = zlen (filter f l) - b2z (f (k, v)).
Proof.
  induction l as [|[k' v'] l IH]; cbn [alookup aremove]; [discriminate|].
  destruct (k =? k')%N eqn:E; intros H.
  - inversion H; subst. apply N.eqb_eq in E; subst. cbn [filter]. destruct (f (k', v)); cbn [b2z]; rewrite ?zlen_cons; lia.
  - cbn [filter]. destruct (f (k', v')); rewrite ?zlen_cons, (IH H); lia.
Qed.
Lemma remove1_len c l : In c l -> zlen (remove1 c l) = zlen l - 1.
Proof.
  induction l as [|y l IH]; cbn [remove1 In]; [tauto|].
  destruct (c =? y)%N eqn:E; intros H; rewrite ?zlen_cons; [lia|].
  destruct H as [->|H]; [rewrite N.eqb_refl in E; discriminate|]. rewrite (IH H). lia.
Qed.

(* every disconnect call in flight is for a connection that is open (proved in aspect 2) *)
Definition discs_open (s : pool) : Prop :=
  forall did c a, alookup did s.(infl_disc) = Some (c, a) -> In c s.(g_open).

Definition Inv1 (s : pool) : Prop := InvA s /\ (s.(err) = false -> InvB s).

Lemma keepA_Inv1 s s' : keepA s s' -> Inv1 s -> Inv1 s'.
Proof.
  intros K [A B]. split; [eapply keepA_InvA; eauto|]. intros E. eapply keepA_InvB; eauto.
  apply B. destruct (err s) eqn:Es; [|reflexivity]. rewrite (kA_err _ _ K Es) in E. discriminate.
Qed.

Lemma sched_new_conn_fields i s :
  let s' := sched_new_conn i s in
  s'.(maxc) = s.(maxc) /\ s'.(g_open) = s.(g_open) /\ s'.(infl_conn) = s.(infl_conn) /\
  s'.(infl_disc) = s.(infl_disc) /\ s'.(ready) = s.(ready) ++ [KConnStart i] /\
  s'.(cur) = s.(cur) + 1 /\ s'.(err) = s.(err).
Proof.
  unfold sched_new_conn.
  destruct (starving (set_cur (cur s + 1) (upd (set_b_pending (b_pending (get_blk i s) + 1) (get_blk i s)) s)));
    cbn; repeat split; reflexivity.
Qed.

Lemma harmless_not_bwake k : harmless k = true -> is_bwake k = false.
Proof. destruct k; cbn; try reflexivity. discriminate. Qed.

Lemma Inv1_pop s k r :
  Inv1 s -> s.(ready) = k :: r -> harmless k = true -> Inv1 (set_ready r (set_outs [] s)).
Proof.
  intros [A B] E H. pose proof (harmless_not_bwake _ H) as Hb.
  unfold harmless in H. rewrite !andb_true_iff, !negb_true_iff in H. destruct H as [[[h1 h2] h3] h4].
  split; [|intros Er; specialize (B Er)]; unfold InvA, InvB, opening, lag, nbroken in *; cbn;
    rewrite E, !cnt_cons in *; rewrite ?h1, ?h2, ?h3, ?h4, ?Hb in *; cbn [b2z] in *; lia.
Qed.

Lemma cnt_map_same f (g : kont -> kont) l : (forall k, f (g k) = f k) -> cnt f (map g l) = cnt f l.
Proof. intros H. induction l as [|k l IH]; cbn [map]; [reflexivity|]. rewrite !cnt_cons, H, IH. reflexivity. Qed.
Lemma cancel_kont_kinds t k :
  is_cstart (cancel_kont t k) = is_cstart k /\ is_cfail (cancel_kont t k) = is_cfail k /\
  is_dwake (cancel_kont t k) = is_dwake k /\ is_bstart (cancel_kont t k) = is_bstart k /\
  is_bwake (cancel_kont t k) = is_bwake k.
Proof. destruct k; cbn; repeat split; try reflexivity; destruct (_ =? _)%N; reflexivity. Qed.

Lemma step_Inv1 s e o s' :
  discs_open s -> Inv1 s -> step s e o = Some s' -> Inv1 s'.
Proof.
  intros DO I St. destruct e; cbn [step] in St.
  - (* EAcquire *)
    destruct (_ =? _)%N; inversion St; subst. eapply keepA_Inv1; [|exact I].
    apply kA_push; [reflexivity|]. eapply sameA_keepA; [|apply keepA_refl]. sameA_tac.
  - destruct (_ =? _)%N; inversion St; subst. eapply keepA_Inv1; [|exact I].
    apply kA_push; [reflexivity|]. eapply sameA_keepA; [|apply keepA_refl]. sameA_tac.
  - (* ERelease *)
    inversion St; subst; clear St.
    assert (K0 : keepA s (set_outs [] s)) by (eapply sameA_keepA; [|apply keepA_refl]; sameA_tac).
    unfold release. destruct (find_db d _) as [b|]; [|eapply keepA_Inv1; [apply kA_emit, K0|exact I]].
    destruct (alookup c (b_conns b)) as [[|]|]; try (eapply keepA_Inv1; [apply kA_emit, K0|exact I]).
    set (s1 := maybe_sched_tick _).
    assert (K1 : keepA s s1) by (apply kA_maybe_sched_tick, kA_set_g_held, kA_upd, K0).
    destruct (if should_free o (b_id b) s1 then maybe_free (b_id b) c s1 else (s1, false)) as [s2 moved] eqn:Em.
    assert (K2 : keepA s s2).
    { destruct (should_free o (b_id b) s1); [eapply kA_maybe_free; eauto|inversion Em; subst; exact K1]. }
    destruct moved; [eapply keepA_Inv1; eauto|].
    destruct discard; [|eapply keepA_Inv1; [apply kA_release_unused, K2|exact I]].
    pose proof (keepA_Inv1 _ _ K2 I) as [A2 B2].
    pose proof (sched_new_conn_fields (b_id b) (sched_discard (b_id b) c None true s2)) as (f1 & f2 & f3 & f4 & f5 & f6 & f7).
    cbn zeta in *. split; [|intros Er; rewrite f7 in Er; cbn in Er; specialize (B2 Er)];
      unfold InvA, InvB, opening, lag, nbroken in *; rewrite ?f1, ?f2, ?f3, ?f4, ?f5, ?f6; cbn;
      rewrite !cnt_app, !cnt_cons, !cnt_nil; cbn [b2z is_cstart is_cfail is_dwake is_bstart is_bwake]; lia.
  - (* EConnOk *)
    destruct (alookup cid _) as [i|] eqn:El; inversion St; subst; clear St.
    destruct I as [A B]. pose proof (aremove_len _ _ _ El) as L. cbn in L.
    split; [|intros Er; specialize (B Er)]; unfold InvA, InvB, opening, lag, nbroken in *; cbn;
      rewrite !cnt_app, !cnt_cons, !cnt_nil, ?zlen_cons; cbn [b2z is_cstart is_cfail is_dwake is_bstart is_bwake]; lia.
  - (* EConnFail *)
    destruct (alookup cid _) as [i|] eqn:El; inversion St; subst; clear St.
    destruct I as [A B]. pose proof (aremove_len _ _ _ El) as L. cbn in L.
    split; [|intros Er; specialize (B Er)]; unfold InvA, InvB, opening, lag, nbroken in *; cbn;
      rewrite !cnt_app, !cnt_cons, !cnt_nil; cbn [b2z is_cstart is_cfail is_dwake is_bstart is_bwake]; lia.
  - (* EDiscOk *)
    destruct (alookup did _) as [[c a]|] eqn:El; inversion St; subst; clear St.
    destruct I as [A B]. pose proof (remove1_len _ _ (DO _ _ _ El)) as L.
    pose proof (aremove_filter is_binfl _ _ _ El) as F. cbn in L, F.
    split; [|intros Er; specialize (B Er)]; unfold InvA, InvB, opening, lag, nbroken in *; cbn;
      rewrite !cnt_app, !cnt_cons, !cnt_nil; cbn [b2z is_cstart is_cfail is_dwake is_bstart]; try lia.
    rewrite F. destruct a as [to|p [|]]; cbn [is_binfl snd is_bwake b2z]; lia.
  - (* EDiscFail *)
    destruct (alookup did _) as [[c a]|] eqn:El; inversion St; subst; clear St.
    destruct I as [A B]. pose proof (remove1_len _ _ (DO _ _ _ El)) as L.
    pose proof (aremove_filter is_binfl _ _ _ El) as F. cbn in L, F.
    split; [|intros Er; specialize (B Er)]; unfold InvA, InvB, opening, lag, nbroken in *; cbn;
      rewrite !cnt_app, !cnt_cons, !cnt_nil; cbn [b2z is_cstart is_cfail is_dwake is_bstart]; try lia.
    rewrite F. destruct a as [to|p [|]]; cbn [is_binfl snd is_bwake b2z]; lia.
  - (* ETick *)
    destruct (tick_armed _); inversion St; subst. eapply keepA_Inv1; [|exact I].
    apply kA_tick. eapply sameA_keepA; [|apply keepA_refl]. sameA_tac.
  - (* EGc *)
    destruct (_ <? _); inversion St; subst. eapply keepA_Inv1; [|exact I].
    apply kA_run_gc. eapply sameA_keepA; [|apply keepA_refl]. sameA_tac.
  - (* ECancel *)
    unfold cancel in St. cbn [ready blocks set_outs] in St.
    destruct (existsb (is_task t) (ready s)).
    + inversion St; subst; clear St. destruct I as [A B].
      split; [|intros Ee; specialize (B Ee)]; unfold InvA, InvB, opening, lag, nbroken in *; cbn;
        rewrite !cnt_map_same; try lia; intros k; apply cancel_kont_kinds.
    + destruct (find_waiting t (blocks s)) as [b|]; [|discriminate]. inversion St; subst; clear St.
      eapply keepA_Inv1; [|exact I]. apply kA_push; [reflexivity|]. apply kA_upd.
      eapply sameA_keepA; [|apply keepA_refl]. sameA_tac.
  - (* ERun *)
    cbn in St. destruct (ready s) as [|k r] eqn:Er; inversion St; subst; clear St.
    set (s0 := set_ready r (set_outs [] s)).
    assert (Hh : harmless k = true -> Inv1 s0) by (intros; eapply Inv1_pop; eauto).
    destruct k as [t d|t i ok|i|cid i res nodb|f c to|i c p br|did c a ok|t d|t i acc ok|t|t|t|t i late]; cbn [run_kont].
    + eapply keepA_Inv1; [apply kA_acquire_start, keepA_refl|apply Hh; reflexivity].
    + eapply keepA_Inv1; [apply kA_acquire_wake, keepA_refl|apply Hh; reflexivity].
    + (* KConnStart *)
      destruct I as [A B]. split; [|intros Ee; specialize (B Ee)];
        unfold InvA, InvB, opening, lag, nbroken in *; cbn; rewrite Er, !cnt_cons in *;
        rewrite ?zlen_app, ?zlen_cons, ?zlen_nil; cbn [b2z is_cstart is_cfail is_dwake is_bstart is_bwake] in *; lia.
    + (* KConnWake *)
      destruct res as [c|].
      * eapply keepA_Inv1; [|apply Hh; reflexivity].
        unfold connect_wake. apply kA_block_release, kA_upd, keepA_refl.
      * unfold connect_wake.
        set (s1 := set_cur (cur s0 - 1) s0).
        assert (I1 : Inv1 s1).
        { destruct I as [A B]. split; [|intros Ee; specialize (B Ee)];
            unfold InvA, InvB, opening, lag, nbroken in *; cbn; rewrite Er, !cnt_cons in *;
            cbn [b2z is_cstart is_cfail is_dwake is_bstart is_bwake] in *; lia. }
        set (s2 := upd _ s1).
        assert (K2 : keepA s1 s2) by (apply kA_upd, keepA_refl).
        match goal with |- Inv1 (upd _ (if ?x then _ else _)) => destruct x end.
        -- eapply keepA_Inv1; [|exact I1]. apply kA_upd, kA_abort_waiters, K2.
        -- pose proof (keepA_Inv1 _ _ K2 I1) as [A2 B2].
           pose proof (sched_new_conn_fields i s2) as (f1 & f2 & f3 & f4 & f5 & f6 & f7). cbn zeta in *.
           assert (C2 : cur s2 = cur s - 1) by reflexivity.
           assert (R2 : ready s2 = r) by reflexivity.
           assert (D2 : infl_disc s2 = infl_disc s) by reflexivity.
           assert (M2 : maxc s2 = maxc s) by reflexivity.
           assert (E2 : err s2 = err s) by reflexivity.
           destruct I as [A B].
           unfold InvA, InvB, opening, lag, nbroken in A, B. rewrite Er, !cnt_cons in A, B.
           cbn [b2z is_cstart is_cfail is_dwake is_bstart is_bwake] in A, B.
           split; [|intros Ee; assert (Ee2 : err (sched_new_conn i s2) = false) by exact Ee;
                    rewrite f7, E2 in Ee2; specialize (B Ee2)];
             unfold InvA, InvB, opening, lag, nbroken in *;
             cbn [upd set_blocks cur maxc g_open infl_conn infl_disc ready];
             rewrite ?f1, ?f2, ?f3, ?f4, ?f5, ?f6, ?R2, ?D2, ?M2, ?C2 in *;
             rewrite !cnt_app, !cnt_cons, !cnt_nil; cbn [b2z is_cstart is_cfail is_dwake is_bstart is_bwake]; lia.
    + (* KTransStart *)
      pose proof (Hh eq_refl) as [A B]. split; [|intros Ee; specialize (B Ee)];
        unfold InvA, InvB, opening, lag, nbroken in *; cbn in *; rewrite ?filter_app, ?zlen_app; cbn; rewrite ?zlen_nil; lia.
    + (* KDiscStart *)
      unfold discard_start. destruct (alookup c _) as [[|]|]; try (split; [|cbn; discriminate]).
      1,3: (destruct I as [A _]; unfold InvA, opening, lag in *; cbn; rewrite Er, !cnt_cons in A; cbn [b2z is_cstart is_cfail is_dwake] in A; lia).
      destruct I as [A B]. split; [|intros Ee; specialize (B Ee)];
        unfold InvA, InvB, opening, lag, nbroken in *; cbn in *; rewrite Er, !cnt_cons in *;
        rewrite ?filter_app, ?zlen_app; cbn [filter is_binfl snd];
        destruct br; cbn [b2z is_cstart is_cfail is_dwake is_bstart is_bwake app] in *; rewrite ?zlen_cons, ?zlen_nil; lia.
    + (* KDiscWake *)
      destruct I as [A B]. unfold disconnect_wake.
      destruct a as [to|[t|] br]; (split; [|intros Ee; specialize (B Ee)]);
        unfold InvA, InvB, opening, lag, nbroken in *; cbn in *; rewrite Er, !cnt_cons in *;
        rewrite ?cnt_app, ?cnt_cons, ?cnt_nil, ?zlen_app, ?zlen_cons, ?zlen_nil;
        try destruct br; cbn [b2z is_cstart is_cfail is_dwake is_bstart is_bwake] in *; lia.
    + eapply keepA_Inv1; [apply kA_prune_start, keepA_refl|apply Hh; reflexivity].
    + eapply keepA_Inv1; [apply kA_prune_wake, keepA_refl|apply Hh; reflexivity].
    + eapply keepA_Inv1; [apply kA_gather_cb, keepA_refl|apply Hh; reflexivity].
    + eapply keepA_Inv1; [apply kA_emit, keepA_refl|apply Hh; reflexivity].
    + eapply keepA_Inv1; [apply kA_emit, keepA_refl|apply Hh; reflexivity].
    + eapply keepA_Inv1; [apply kA_acquire_cancelled, keepA_refl|apply Hh; reflexivity].
Qed.

(* ================================================================== aspect 2: ownership *)
(* ------------------------------------------------------------------ multiset counting *)
Section Occ.
  Context {X : Type} (dec : forall a b : X, {a = b} + {a <> b}).
  Definition occ (x : X) (l : list X) : nat := count_occ dec l x.
  Lemma occ_nil x : occ x [] = 0%nat. Proof. reflexivity. Qed.
  Lemma occ_cons x y l : occ x (y :: l) = ((if dec y x then 1 else 0) + occ x l)%nat.
  Proof. unfold occ. cbn [count_occ]. destruct (dec y x); lia. Qed.
  Lemma occ_app x l1 l2 : occ x (l1 ++ l2) = (occ x l1 + occ x l2)%nat.
  Proof. apply count_occ_app. Qed.
  Lemma occ_In x l : In x l <-> (1 <= occ x l)%nat.
  Proof. unfold occ. rewrite (count_occ_In dec). lia. Qed.
  Lemma occ_notin x l : ~ In x l -> occ x l = 0%nat.
  Proof. intros H. apply count_occ_not_In. exact H. Qed.
  Lemma occ_NoDup l : NoDup l <-> forall x, (occ x l <= 1)%nat.
  Proof. apply NoDup_count_occ. Qed.
  Lemma occ_rev x l : occ x (rev l) = occ x l.
  Proof. induction l; cbn [rev]; [reflexivity|]. rewrite occ_app, IHl, !occ_cons, occ_nil. lia. Qed.
  Lemma occ_flat_map {Y} (f : Y -> list X) x l :
    occ x (flat_map f l) = fold_right (fun y n => (occ x (f y) + n)%nat) 0%nat l.
  Proof. induction l; cbn [flat_map fold_right]; [reflexivity|]. rewrite occ_app, IHl. reflexivity. Qed.
End Occ.
Arguments occ : simpl never.

Definition Ndec := N.eq_dec.
Definition pdec : forall a b : bid * conn, {a = b} + {a <> b}.
Proof. decide equality; try apply N.eq_dec. decide equality; apply N.eq_dec. Defined.
Notation occN := (occ Ndec).
Notation occP := (occ pdec).

Lemma occP_map_pair i j c l :
  occP (i, c) (map (pair j) l) = if bid_eqb i j then occN c l else 0%nat.
Proof.
  induction l as [|y l IH]; cbn [map]; [rewrite !occ_nil; destruct (bid_eqb i j); reflexivity|].
  rewrite !occ_cons, IH. destruct (bid_eqb i j) eqn:E.
  - apply bid_eqb_eq in E; subst. destruct (pdec (j, y) (j, c)) as [e|n], (Ndec y c) as [e'|n']; try lia.
    + inversion e; contradiction. + subst; contradiction.
  - apply bid_eqb_neq in E. destruct (pdec (j, y) (i, c)) as [e|n]; [inversion e; subst; contradiction|lia].
Qed.

Lemma split_last_spec {A} (l : list A) :
  match split_last l with None => l = [] | Some (r, x) => l = r ++ [x] end.
Proof.
  induction l as [|x l IH]; cbn [split_last]; [reflexivity|].
  destruct (split_last l) as [[r y]|]; subst; reflexivity.
Qed.

(* ------------------------------------------------------------------ association lists of connections *)
Definition keys (b : blk) : list conn := map fst b.(b_conns).
Definition inuse_l (cs : list (conn * bool)) : list conn := map fst (filter snd cs).
Definition inuse_keys (b : blk) : list conn := inuse_l b.(b_conns).

Lemma alookup_keys c (cs : list (conn * bool)) :
  (1 <= occN c (map fst cs))%nat -> occN c (inuse_l cs) = 0%nat -> alookup c cs = Some false.
Proof.
  induction cs as [|[k v] cs IH]; cbn [map fst alookup]; [rewrite occ_nil; lia|].
  unfold inuse_l. cbn [filter snd]. rewrite occ_cons. destruct (c =? k)%N eqn:E.
  - apply N.eqb_eq in E; subst. destruct v; [|reflexivity].
    cbn [map fst]. rewrite occ_cons. destruct (Ndec k k); [lia|contradiction].
  - apply N.eqb_neq in E. destruct (Ndec k c); [subst; contradiction|].
    intros H1 H2. apply IH; [lia|]. destruct v; [|exact H2].
    cbn [map fst] in H2. rewrite occ_cons in H2. unfold inuse_l. lia.
Qed.
Lemma alookup_In_keys c (cs : list (conn * bool)) v : alookup c cs = Some v -> (1 <= occN c (map fst cs))%nat.
Proof.
  induction cs as [|[k w] cs IH]; cbn [alookup map fst]; [discriminate|]. rewrite occ_cons.
  destruct (c =? k)%N eqn:E; [apply N.eqb_eq in E; subst; destruct (Ndec k k); [lia|contradiction]|].
  intros H. specialize (IH H). lia.
Qed.
Lemma keys_aset c v (cs : list (conn * bool)) : map fst (aset c v cs) = map fst cs.
Proof.
  induction cs as [|[k w] cs IH]; cbn [aset map fst]; [reflexivity|].
  destruct (c =? k)%N; cbn [map fst]; [reflexivity|]. rewrite IH. reflexivity.
Qed.
Lemma inuse_aset_true c cs x : alookup c cs = Some false ->
  occN x (inuse_l (aset c true cs)) = ((if Ndec c x then 1 else 0) + occN x (inuse_l cs))%nat.
Proof.
  induction cs as [|[k w] cs IH]; cbn [alookup aset]; [discriminate|].
  destruct (c =? k)%N eqn:E.
  - apply N.eqb_eq in E; subst. intros H; inversion H; subst. unfold inuse_l. cbn [filter snd map fst].
    rewrite occ_cons. reflexivity.
  - intros H. unfold inuse_l in *. cbn [filter snd]. destruct w; cbn [map fst]; rewrite ?occ_cons, (IH H); lia.
Qed.
Lemma inuse_aset_false c cs x : alookup c cs = Some true ->
  (occN x (inuse_l (aset c false cs)) + (if Ndec c x then 1 else 0))%nat = occN x (inuse_l cs).
Proof.
  induction cs as [|[k w] cs IH]; cbn [alookup aset]; [discriminate|].
  destruct (c =? k)%N eqn:E.
  - apply N.eqb_eq in E; subst. intros H; inversion H; subst. unfold inuse_l. cbn [filter snd map fst].
    rewrite occ_cons. lia.
  - intros H. unfold inuse_l in *. cbn [filter snd]. destruct w; cbn [map fst]; rewrite ?occ_cons; specialize (IH H); lia.
Qed.
Lemma keys_aremove c (cs : list (conn * bool)) v x : alookup c cs = Some v ->
  (occN x (map fst (aremove c cs)) + (if Ndec c x then 1 else 0))%nat = occN x (map fst cs).
Proof.
  induction cs as [|[k w] cs IH]; cbn [alookup aremove]; [discriminate|].
  destruct (c =? k)%N eqn:E.
  - apply N.eqb_eq in E; subst. intros _. cbn [map fst]. rewrite occ_cons. lia.
  - intros H. cbn [map fst]. rewrite !occ_cons. specialize (IH H). lia.
Qed.
Lemma inuse_aremove_false c cs : alookup c cs = Some false -> inuse_l (aremove c cs) = inuse_l cs.
Proof.
  induction cs as [|[k w] cs IH]; cbn [alookup aremove]; [discriminate|].
  destruct (c =? k)%N eqn:E.
  - intros H; inversion H; subst. reflexivity.
  - intros H. unfold inuse_l in *. cbn [filter snd]. destruct w; cbn [map fst]; rewrite (IH H); reflexivity.
Qed.
Lemma inuse_app_false cs c : inuse_l (cs ++ [(c, false)]) = inuse_l cs.
Proof. unfold inuse_l. rewrite filter_app. cbn. rewrite app_nil_r. reflexivity. Qed.
Lemma occ_remove1 c l x : In c l -> (occN x (remove1 c l) + (if Ndec c x then 1 else 0))%nat = occN x l.
Proof.
  induction l as [|y l IH]; cbn [remove1 In]; [tauto|].
  destruct (c =? y)%N eqn:E.
  - apply N.eqb_eq in E; subst. intros _. rewrite occ_cons. lia.
  - apply N.eqb_neq in E. intros [->|H]; [contradiction|]. rewrite !occ_cons. specialize (IH H). lia.
Qed.
Lemma occ_aremove_fst {A} c (l : list (N * A)) x :
  (occN x (map fst (aremove c l)) <= occN x (map fst l))%nat /\
  (forall v, alookup c l = Some v -> (occN x (map fst (aremove c l)) + (if Ndec c x then 1 else 0))%nat = occN x (map fst l)).
Proof.
  induction l as [|[k w] l [IH1 IH2]]; cbn [alookup aremove map fst]; [split; [lia|discriminate]|].
  destruct (c =? k)%N eqn:E.
  - apply N.eqb_eq in E; subst. rewrite occ_cons. split; [lia|intros; lia].
  - cbn [map fst]. rewrite !occ_cons. split; [lia|]. intros v H. specialize (IH2 v H). lia.
Qed.

(* ------------------------------------------------------------------ the list of blocks *)
Fixpoint sumZ (w : blk -> Z) (bs : list blk) : Z :=
  match bs with [] => 0 | b :: r => w b + sumZ w r end.

Lemma find_bid_id i bs b : find_bid i bs = Some b -> b.(b_id) = i.
Proof.
  induction bs as [|b' r IH]; cbn [find_bid]; [discriminate|].
  destruct (bid_eqb i (b_id b')) eqn:E; [|exact IH].
  intros H; inversion H; subst. apply bid_eqb_eq in E. auto.
Qed.
Lemma find_bid_In i bs b : find_bid i bs = Some b -> In b bs.
Proof.
  induction bs as [|b' r IH]; cbn [find_bid]; [discriminate|].
  destruct (bid_eqb i (b_id b')); [intros H; inversion H; left; reflexivity|intros H; right; auto].
Qed.
Lemma find_bid_none i bs : find_bid i bs = None -> forall b, In b bs -> b.(b_id) <> i.
Proof.
  induction bs as [|b' r IH]; cbn [find_bid]; [intros _ b []|].
  destruct (bid_eqb i (b_id b')) eqn:E; [discriminate|]. apply bid_eqb_neq in E.
  intros H b [->|Hb]; [congruence|apply IH; assumption].
Qed.
Lemma upd_blk_none b' bs : find_bid b'.(b_id) bs = None -> upd_blk b' bs = bs.
Proof.
  induction bs as [|b r IH]; cbn [find_bid upd_blk]; [reflexivity|].
  destruct (bid_eqb (b_id b') (b_id b)); [discriminate|]. intros H. rewrite (IH H). reflexivity.
Qed.
Lemma sumZ_upd w b' bs b : find_bid b'.(b_id) bs = Some b -> sumZ w (upd_blk b' bs) = sumZ w bs - w b + w b'.
Proof.
  induction bs as [|b0 r IH]; cbn [find_bid upd_blk]; [discriminate|].
  destruct (bid_eqb (b_id b') (b_id b0)); intros H; cbn [sumZ].
  - inversion H; subst. lia.
  - rewrite (IH H). lia.
Qed.
Lemma remove_bid_none i bs : find_bid i bs = None -> remove_bid i bs = bs.
Proof.
  induction bs as [|b r IH]; cbn [find_bid remove_bid]; [reflexivity|].
  destruct (bid_eqb i (b_id b)); [discriminate|]. intros H. rewrite (IH H). reflexivity.
Qed.
Lemma sumZ_remove w i bs b : find_bid i bs = Some b -> sumZ w (remove_bid i bs) = sumZ w bs - w b.
Proof.
  induction bs as [|b0 r IH]; cbn [find_bid remove_bid]; [discriminate|].
  destruct (bid_eqb i (b_id b0)); intros H; cbn [sumZ].
  - inversion H; subst. lia.
  - rewrite (IH H). lia.
Qed.
Lemma sumZ_app w l1 l2 : sumZ w (l1 ++ l2) = sumZ w l1 + sumZ w l2.
Proof. induction l1; cbn [app sumZ]; lia. Qed.
Lemma sumZ_move_end w i bs : sumZ w (move_end i bs) = sumZ w bs.
Proof.
  unfold move_end. destruct (find_bid i bs) as [b|] eqn:E; [|reflexivity].
  rewrite sumZ_app, (sumZ_remove _ _ _ _ E). cbn [sumZ]. lia.
Qed.
Lemma sumZ_move_front w i bs : sumZ w (move_front i bs) = sumZ w bs.
Proof.
  unfold move_front. destruct (find_bid i bs) as [b|] eqn:E; [|reflexivity].
  cbn [sumZ]. rewrite (sumZ_remove _ _ _ _ E). lia.
Qed.
Lemma sumZ_ext w1 w2 bs : (forall b, In b bs -> w1 b = w2 b) -> sumZ w1 bs = sumZ w2 bs.
Proof.
  induction bs as [|b r IH]; intros H; cbn [sumZ]; [reflexivity|].
  rewrite (H b (or_introl eq_refl)), IH; [reflexivity|]. intros; apply H; right; assumption.
Qed.
Lemma sumZ_nonneg w bs : (forall b, In b bs -> 0 <= w b) -> 0 <= sumZ w bs.
Proof.
  induction bs as [|b r IH]; intros H; cbn [sumZ]; [lia|].
  pose proof (H b (or_introl eq_refl)). assert (0 <= sumZ w r) by (apply IH; intros; apply H; right; assumption). lia.
Qed.
Lemma sumZ_In_le w bs b : (forall b, In b bs -> 0 <= w b) -> In b bs -> w b <= sumZ w bs.
Proof.
  induction bs as [|b0 r IH]; intros H Hin; [destruct Hin|]. destruct Hin as [->|Hb]; cbn [sumZ].
  - assert (0 <= sumZ w r) by (apply sumZ_nonneg; intros; apply H; right; assumption). lia.
  - pose proof (H b0 (or_introl eq_refl)). assert (w b <= sumZ w r) by (apply IH; [intros; apply H; right|]; assumption). lia.
Qed.

(* sum restricted to the block(s) whose id is j *)
Definition at_id (j : bid) (w : blk -> Z) (b : blk) : Z := if bid_eqb j b.(b_id) then w b else 0.
Lemma sumZ_at_unique j w bs b :
  NoDup (map b_id bs) -> In b bs -> b.(b_id) = j -> sumZ (at_id j w) bs = w b.
Proof.
  induction bs as [|b0 r IH]; intros ND Hin E; [destruct Hin|]. destruct Hin as [->|Hb]; cbn [sumZ map] in *; inversion ND; subst.
  - unfold at_id at 1. rewrite bid_eqb_refl.
    assert (sumZ (at_id (b_id b) w) r = 0).
    { clear IH ND. induction r as [|b1 r IH]; cbn [sumZ]; [reflexivity|].
      unfold at_id at 1. destruct (bid_eqb (b_id b) (b_id b1)) eqn:E1.
      - apply bid_eqb_eq in E1. exfalso. apply H1. rewrite E1. left; reflexivity.
      - rewrite IH; [lia| |].
        + intros Hin. apply H1. right; exact Hin.
        + inversion H2; assumption. }
    lia.
  - unfold at_id at 1. destruct (bid_eqb (b_id b) (b_id b0)) eqn:E1.
    + apply bid_eqb_eq in E1. exfalso. apply H1. rewrite <- E1. apply in_map. exact Hb.
    + rewrite (IH H2 Hb eq_refl). lia.
Qed.
Lemma sumZ_at_none j w bs : (forall b, In b bs -> b.(b_id) <> j) -> sumZ (at_id j w) bs = 0.
Proof.
  induction bs as [|b r IH]; intros H; cbn [sumZ]; [reflexivity|].
  unfold at_id at 1. destruct (bid_eqb j (b_id b)) eqn:E.
  - apply bid_eqb_eq in E. exfalso. apply (H b (or_introl eq_refl)). auto.
  - rewrite IH; [lia|]. intros; apply H; right; assumption.
Qed.
Lemma find_bid_unique bs b : NoDup (map b_id bs) -> In b bs -> find_bid b.(b_id) bs = Some b.
Proof.
  induction bs as [|b0 r IH]; intros ND Hin; [destruct Hin|]. destruct Hin as [->|Hb]; cbn [find_bid map] in *.
  - rewrite bid_eqb_refl. reflexivity.
  - inversion ND; subst. destruct (bid_eqb (b_id b) (b_id b0)) eqn:E; [|apply IH; assumption].
    apply bid_eqb_eq in E. exfalso. apply H1. rewrite <- E. apply in_map. exact Hb.
Qed.
Lemma find_db_unique bs b : NoDup (map b_db bs) -> In b bs -> find_db (b_db b) bs = Some b.
Proof.
  induction bs as [|b0 r IH]; intros ND Hin; [destruct Hin|]. destruct Hin as [->|Hb]; cbn [find_db map] in *.
  - rewrite N.eqb_refl. reflexivity.
  - inversion ND; subst. destruct (b_db b =? b_db b0)%N eqn:E; [|apply IH; assumption].
    apply N.eqb_eq in E. exfalso. apply H1. rewrite <- E. apply in_map. exact Hb.
Qed.
Lemma find_db_In d bs b : find_db d bs = Some b -> In b bs /\ b_db b = d.
Proof.
  induction bs as [|b' r IH]; cbn [find_db]; [discriminate|].
  destruct (d =? b_db b')%N eqn:E.
  - intros H; inversion H; subst. apply N.eqb_eq in E. split; [left; reflexivity|auto].
  - intros H. destruct (IH H). split; [right|]; assumption.
Qed.
Lemma map_id_upd b' bs : map b_id (upd_blk b' bs) = map b_id bs.
Proof.
  induction bs as [|b r IH]; cbn [upd_blk map]; [reflexivity|].
  destruct (bid_eqb (b_id b') (b_id b)) eqn:E; cbn [map]; [apply bid_eqb_eq in E; rewrite E; reflexivity|].
  rewrite IH. reflexivity.
Qed.
Lemma In_upd_blk b' bs x : In x (upd_blk b' bs) -> x = b' \/ In x bs.
Proof.
  induction bs as [|b r IH]; cbn [upd_blk]; [tauto|].
  destruct (bid_eqb (b_id b') (b_id b)); cbn [In]; intros [H|H]; auto.
  destruct (IH H); auto.
Qed.
Lemma In_remove_bid i bs x : In x (remove_bid i bs) -> In x bs.
Proof.
  induction bs as [|b r IH]; cbn [remove_bid]; [tauto|].
  destruct (bid_eqb i (b_id b)); cbn [In]; intros H; [right; exact H|]. destruct H; auto.
Qed.
Lemma remove_bid_perm i bs b : find_bid i bs = Some b -> Permutation bs (b :: remove_bid i bs).
Proof.
  induction bs as [|b0 r IH]; cbn [find_bid remove_bid]; [discriminate|].
  destruct (bid_eqb i (b_id b0)); intros H.
  - inversion H; subst. reflexivity.
  - rewrite (IH H) at 1. apply perm_swap.
Qed.
Lemma move_end_perm i bs : Permutation (move_end i bs) bs.
Proof.
  unfold move_end. destruct (find_bid i bs) as [b|] eqn:E; [|reflexivity].
  rewrite (remove_bid_perm _ _ _ E) at 2. symmetry. apply Permutation_cons_append.
Qed.
Lemma move_front_perm i bs : Permutation (move_front i bs) bs.
Proof.
  unfold move_front. destruct (find_bid i bs) as [b|] eqn:E; [|reflexivity].
  symmetry. apply remove_bid_perm. exact E.
Qed.

(* ------------------------------------------------------------------ ownership invariant *)
Definition zocc (c : N) (l : list N) : Z := Z.of_nat (occN c l).
Definition zoccP (p : N * N * N) (l : list (N * N * N)) : Z := Z.of_nat (occP p l).
Lemma zocc_nil c : zocc c [] = 0. Proof. reflexivity. Qed.
Lemma zocc_cons c y l : zocc c (y :: l) = (if Ndec y c then 1 else 0) + zocc c l.
Proof. unfold zocc. rewrite occ_cons. destruct (Ndec y c); lia. Qed.
Lemma zocc_app c l1 l2 : zocc c (l1 ++ l2) = zocc c l1 + zocc c l2.
Proof. unfold zocc. rewrite occ_app. lia. Qed.
Lemma zocc_nonneg c l : 0 <= zocc c l. Proof. unfold zocc. lia. Qed.
Lemma zocc_rev c l : zocc c (rev l) = zocc c l. Proof. unfold zocc. rewrite occ_rev. reflexivity. Qed.
Lemma zoccP_nil p : zoccP p [] = 0. Proof. reflexivity. Qed.
Lemma zoccP_cons p y l : zoccP p (y :: l) = (if pdec y p then 1 else 0) + zoccP p l.
Proof. unfold zoccP. rewrite occ_cons. destruct (pdec y p); lia. Qed.
Lemma zoccP_app p l1 l2 : zoccP p (l1 ++ l2) = zoccP p l1 + zoccP p l2.
Proof. unfold zoccP. rewrite occ_app. lia. Qed.
Lemma zoccP_nonneg p l : 0 <= zoccP p l. Proof. unfold zoccP. lia. Qed.
Lemma zoccP_map_pair i j c l : zoccP (i, c) (map (pair j) l) = if bid_eqb i j then zocc c l else 0.
Proof. unfold zoccP, zocc. rewrite occP_map_pair. destruct (bid_eqb i j); reflexivity. Qed.
Arguments zocc : simpl never.
Arguments zoccP : simpl never.

Definition wk_res (w : tid * wk) : list conn := match snd w with WPrune acc => acc | _ => [] end.
Definition wres (b : blk) : list conn := flat_map wk_res b.(b_waiters).
(* connections of a block that are in its dict but neither idle on the stack, nor lent, nor
   reserved by a suspended prune task: >= what is reserved for it in the ready queue *)
Definition slack (c : conn) (b : blk) : Z :=
  zocc c (keys b) - zocc c b.(b_stack) - zocc c (inuse_keys b) - zocc c (wres b).
Definition kont_res (k : kont) : list (bid * conn) :=
  match k with
  | KDiscStart i c _ _ => [(i, c)]
  | KPruneWake _ i acc _ => map (pair i) acc
  | _ => []
  end.
Definition kres (l : list kont) : list (bid * conn) := flat_map kont_res l.
Definition kont_limbo (k : kont) : list conn :=
  match k with KTransStart _ c _ => [c] | KConnWake _ _ (Some c) _ => [c] | _ => [] end.
(* open connections that are in no block's dict *)
Definition limbo (s : pool) : list conn :=
  flat_map kont_limbo s.(ready) ++ map (fun e : N * (conn * after_disc) => fst (snd e)) s.(infl_disc).
(* connects promised to block j: scheduled, in flight, completed-but-unprocessed, or behind a transfer *)
Definition kont_pipe (j : bid) (k : kont) : Z :=
  match k with
  | KConnStart i => b2z (bid_eqb j i)
  | KConnWake _ i _ _ => b2z (bid_eqb j i)
  | KTransStart _ _ to => b2z (bid_eqb j to)
  | KDiscWake _ _ (ADTransfer to) _ => b2z (bid_eqb j to)
  | _ => 0
  end.
Fixpoint sumK (f : kont -> Z) (l : list kont) : Z := match l with [] => 0 | k :: r => f k + sumK f r end.
Lemma sumK_app f l1 l2 : sumK f (l1 ++ l2) = sumK f l1 + sumK f l2.
Proof. induction l1; cbn [app sumK]; lia. Qed.
Fixpoint sumL {A} (f : A -> Z) (l : list A) : Z := match l with [] => 0 | k :: r => f k + sumL f r end.
Lemma sumL_app {A} (f : A -> Z) l1 l2 : sumL f (l1 ++ l2) = sumL f l1 + sumL f l2.
Proof. induction l1; cbn [app sumL]; lia. Qed.
Definition npipe (j : bid) (s : pool) : Z :=
  sumK (kont_pipe j) s.(ready) + sumL (fun e : N * bid => b2z (bid_eqb j (snd e))) s.(infl_conn)
  + sumL (fun e : N * (conn * after_disc) =>
            match snd (snd e) with ADTransfer to => b2z (bid_eqb j to) | _ => 0 end) s.(infl_disc).

Definition bdec : forall a b : N * N, {a = b} + {a <> b}.
Proof. decide equality; apply N.eq_dec. Defined.
Definition zoccB (j : N * N) (l : list (N * N)) : Z := Z.of_nat (occ bdec j l).
Lemma zoccB_nil j : zoccB j [] = 0. Proof. reflexivity. Qed.
Lemma zoccB_cons j y l : zoccB j (y :: l) = b2z (bid_eqb j y) + zoccB j l.
Proof.
  unfold zoccB. rewrite occ_cons. destruct (bdec y j) as [e|n].
  - subst. rewrite bid_eqb_refl. cbn [b2z]. lia.
  - assert (E : bid_eqb j y = false) by (apply bid_eqb_neq; congruence). rewrite E. cbn [b2z]. lia.
Qed.
Lemma zoccB_nonneg j l : 0 <= zoccB j l. Proof. unfold zoccB. lia. Qed.
Arguments zoccB : simpl never.

(* The hands: connections (h), open connections outside every dict (hl) and connects promised
   to a block (hp) that the code holds in local variables in the middle of an atomic section. *)
Record Own (h : list (bid * conn)) (hl : list conn) (hp : list bid) (s : pool) : Prop := mkOwn {
  own_blk : forall j c, zoccP (j, c) (kres s.(ready)) + zoccP (j, c) h <= sumZ (at_id j (slack c)) s.(blocks);
  own_open : forall c, sumZ (fun b => zocc c (keys b)) s.(blocks) + zocc c (limbo s) + zocc c hl <= zocc c s.(g_open);
  own_nodup : NoDup s.(g_open);
  own_fresh : forall c, In c s.(g_open) -> (c < s.(next_conn))%N;
  own_held : forall c, zocc c (map fst s.(g_held)) = sumZ (fun b => zocc c (inuse_keys b)) s.(blocks);
  own_ids : NoDup (map b_id s.(blocks));
  own_dbs : NoDup (map b_db s.(blocks));
  own_bidfresh : forall b, In b s.(blocks) -> (snd b.(b_id) < s.(next_bid))%N;
  own_pend : forall j, npipe j s + zoccB j hp <= sumZ (at_id j b_pending) s.(blocks);
  own_err : s.(err) = false }.   (* no assertion of the real code has fired *)

(* dropping things from the hands is always allowed (connections become orphans) *)
Lemma Own_weaken h hl hp h' hl' hp' s :
  (forall p, zoccP p h' <= zoccP p h) -> (forall c, zocc c hl' <= zocc c hl) ->
  (forall j, zoccB j hp' <= zoccB j hp) -> Own h hl hp s -> Own h' hl' hp' s.
Proof.
  intros H1 H2 H3 [o1 o2 o3 o4 o5 o6 o7 o8 o10 o11]. split; auto.
  - intros j c. specialize (o1 j c). specialize (H1 (j, c)). lia.
  - intros c. specialize (o2 c). specialize (H2 c). lia.
  - intros j. specialize (o10 j). specialize (H3 j). lia.
Qed.

(* a state that differs from s only in fields the ownership invariant does not read *)
Definition sameO (s s' : pool) : Prop :=
  s'.(blocks) = s.(blocks) /\ s'.(ready) = s.(ready) /\ s'.(infl_conn) = s.(infl_conn) /\
  s'.(infl_disc) = s.(infl_disc) /\ s'.(g_open) = s.(g_open) /\ s'.(g_held) = s.(g_held) /\
  s'.(next_conn) = s.(next_conn) /\ s'.(next_bid) = s.(next_bid) /\ s'.(err) = s.(err).
Lemma Own_same h hl hp s s' : sameO s s' -> Own h hl hp s -> Own h hl hp s'.
Proof.
  intros (e1 & e2 & e3 & e4 & e5 & e6 & e7 & e8 & e9) [o1 o2 o3 o4 o5 o6 o7 o8 o10 o11].
  split; unfold limbo, npipe in *; rewrite ?e1, ?e2, ?e3, ?e4, ?e5, ?e6, ?e7, ?e8, ?e9; auto.
Qed.
Ltac sameO_tac := unfold sameO; cbn; repeat split; reflexivity.

(* two versions of a block that the ownership invariant cannot tell apart *)
Definition blk_same (b b' : blk) : Prop :=
  b'.(b_id) = b.(b_id) /\ b'.(b_conns) = b.(b_conns) /\ b'.(b_stack) = b.(b_stack) /\
  wres b' = wres b /\ b'.(b_acq) = b.(b_acq) /\ b'.(b_pending) = b.(b_pending).

Lemma b_db_map bs : map b_db bs = map fst (map b_id bs).
Proof. rewrite map_map. reflexivity. Qed.
Lemma get_blk_id i s : (get_blk i s).(b_id) = i.
Proof. unfold get_blk. destruct (find_bid i (blocks s)) eqn:E; [eapply find_bid_id; eauto|reflexivity]. Qed.
Lemma get_blk_live i s b : find_bid i s.(blocks) = Some b -> get_blk i s = b.
Proof. unfold get_blk. intros ->. reflexivity. Qed.
Lemma get_blk_stale i s : find_bid i s.(blocks) = None -> get_blk i s = stale_blk i.
Proof. unfold get_blk. intros ->. reflexivity. Qed.

(* generic: replace block i by b' *)
Lemma Own_upd_gen h hl hp h' hl' hp' s i b' :
  Own h hl hp s -> b'.(b_id) = i ->
  (forall b, find_bid i s.(blocks) = Some b ->
     (forall c, zoccP (i, c) h' - zoccP (i, c) h <= slack c b' - slack c b) /\
     (forall c, zocc c (keys b') + zocc c hl' <= zocc c (keys b) + zocc c hl) /\
     (forall c, zocc c (inuse_keys b') = zocc c (inuse_keys b)) /\
     zoccB i hp' - zoccB i hp <= b'.(b_pending) - b.(b_pending)) ->
  (forall j, j <> i -> (forall c, zoccP (j, c) h' <= zoccP (j, c) h) /\ zoccB j hp' <= zoccB j hp) ->
  (find_bid i s.(blocks) = None ->
     (forall p, zoccP p h' <= zoccP p h) /\ (forall c, zocc c hl' <= zocc c hl) /\
     (forall j, zoccB j hp' <= zoccB j hp)) ->
  Own h' hl' hp' (upd b' s).
Proof.
  intros O Eid Hl Hoth Hnone.
  destruct (find_bid i (blocks s)) as [b|] eqn:Ef.
  - destruct (Hl b eq_refl) as (L1 & L2 & L3 & L5). clear Hl Hnone.
    destruct O as [o1 o2 o3 o4 o5 o6 o7 o8 o10 o11].
    assert (Eb : b_id b = i) by (eapply find_bid_id; eauto).
    assert (Ef' : find_bid (b_id b') (blocks s) = Some b) by (rewrite Eid; exact Ef).
    split; unfold limbo, npipe, upd in *; cbn [blocks ready infl_conn infl_disc g_open g_held next_conn next_bid set_blocks].
    + intros j c. rewrite (sumZ_upd _ _ _ _ Ef'). specialize (o1 j c). unfold at_id at 2 3. rewrite Eid, Eb.
      destruct (bid_eqb j i) eqn:E.
      * apply bid_eqb_eq in E; subst j. specialize (L1 c). lia.
      * apply bid_eqb_neq in E. destruct (Hoth j E) as [Hj _]. specialize (Hj c). lia.
    + intros c. rewrite (sumZ_upd _ _ _ _ Ef'). specialize (o2 c). specialize (L2 c). lia.
    + exact o3.
    + exact o4.
    + intros c. rewrite (sumZ_upd _ _ _ _ Ef'). specialize (o5 c). specialize (L3 c). lia.
    + rewrite map_id_upd. exact o6.
    + rewrite b_db_map, map_id_upd, <- b_db_map. exact o7.
    + intros x Hx. apply In_upd_blk in Hx as [->|Hx]; [|auto].
      rewrite Eid, <- Eb. apply o8. eapply find_bid_In; eauto.
    + intros j. rewrite (sumZ_upd _ _ _ _ Ef'). specialize (o10 j). unfold at_id at 2 3. rewrite Eid, Eb.
      destruct (bid_eqb j i) eqn:E.
      * apply bid_eqb_eq in E; subst j. lia.
      * apply bid_eqb_neq in E. destruct (Hoth j E) as [_ Hj]. lia.
    + exact o11.
  - destruct (Hnone eq_refl) as (W1 & W2 & W3).
    eapply Own_weaken; [exact W1|exact W2|exact W3|].
    eapply Own_same; [|exact O]. unfold sameO, upd. cbn. rewrite upd_blk_none; [repeat split; reflexivity|].
    rewrite Eid. exact Ef.
Qed.

Lemma Own_upd_same h hl hp s i b' : Own h hl hp s -> blk_same (get_blk i s) b' -> Own h hl hp (upd b' s).
Proof.
  intros O (e1 & e2 & e3 & e4 & e5 & e6). rewrite get_blk_id in e1.
  eapply Own_upd_gen; eauto.
  - intros b Ef. rewrite (get_blk_live _ _ _ Ef) in *.
    unfold slack, keys, inuse_keys. rewrite e2, e3, e4, e6. repeat split; lia.
  - intros; split; intros; lia.
  - intros _. repeat split; intros; lia.
Qed.

(* generic: append entries to the ready queue *)
Lemma Own_append h hl hp h' hl' hp' s ks :
  Own h hl hp s ->
  (forall p, zoccP p (kres ks) + zoccP p h' <= zoccP p h) ->
  (forall c, zocc c (flat_map kont_limbo ks) + zocc c hl' <= zocc c hl) ->
  (forall j, sumK (kont_pipe j) ks + zoccB j hp' <= zoccB j hp) ->
  Own h' hl' hp' (set_ready (s.(ready) ++ ks) s).
Proof.
  intros [o1 o2 o3 o4 o5 o6 o7 o8 o10 o11] H1 H2 H3.
  split; unfold limbo, npipe in *; cbn [blocks ready infl_conn infl_disc g_open g_held next_conn next_bid set_ready]; auto.
  - intros j c. unfold kres in *. rewrite flat_map_app, zoccP_app. specialize (o1 j c). specialize (H1 (j, c)). lia.
  - intros c. rewrite flat_map_app, !zocc_app. specialize (o2 c). specialize (H2 c). rewrite zocc_app in o2. lia.
  - intros j. rewrite sumK_app. specialize (o10 j). specialize (H3 j). lia.
Qed.

(* permuting the OrderedDict does not matter *)
Lemma sumZ_perm w l1 l2 : Permutation l1 l2 -> sumZ w l1 = sumZ w l2.
Proof. induction 1; cbn [sumZ]; lia. Qed.
Lemma Own_perm h hl hp s bs : Permutation bs s.(blocks) -> Own h hl hp s -> Own h hl hp (set_blocks bs s).
Proof.
  intros P [o1 o2 o3 o4 o5 o6 o7 o8 o10 o11].
  split; unfold limbo, npipe in *; cbn [blocks ready infl_conn infl_disc g_open g_held next_conn next_bid set_blocks]; auto.
  - intros j c. rewrite (sumZ_perm _ _ _ P). auto.
  - intros c. rewrite (sumZ_perm _ _ _ P). auto.
  - intros c. rewrite (sumZ_perm _ _ _ P). auto.
  - eapply Permutation_NoDup; [|exact o6]. apply Permutation_map. symmetry. exact P.
  - eapply Permutation_NoDup; [|exact o7]. apply Permutation_map. symmetry. exact P.
  - intros b Hb. apply o8. eapply Permutation_in; eauto.
  - intros j. rewrite (sumZ_perm _ _ _ P). auto.
Qed.

Ltac own_same := eapply Own_same; [sameO_tac|].
Ltac bsimp := cbn [b_conns b_stack b_waiters b_pending b_id b_acq b_nwait b_quota b_supp b_fails
  set_b_conns set_b_stack set_b_waiters set_b_pending set_b_nwait set_b_quota set_b_supp set_b_fails set_b_acq].
Ltac side := intros; unfold keys, inuse_keys; bsimp; try lia.

Lemma flat_map_map {A B C} (f : B -> C) (g : A -> list B) l :
  map f (flat_map g l) = flat_map (fun x => map f (g x)) l.
Proof. induction l; cbn [flat_map map]; [reflexivity|]. rewrite map_app, IHl. reflexivity. Qed.
Lemma kres_wake i w ok : kont_res (wake_kont i w ok) = map (pair i) (wk_res w).
Proof. unfold wake_kont, wk_res. destruct (snd w); reflexivity. Qed.
Lemma limbo_wake i w ok : kont_limbo (wake_kont i w ok) = [].
Proof. unfold wake_kont. destruct (snd w); reflexivity. Qed.
Lemma pipe_wake j i w ok : kont_pipe j (wake_kont i w ok) = 0.
Proof. unfold wake_kont. destruct (snd w); reflexivity. Qed.

Lemma slack_unfold c b : slack c b = zocc c (keys b) - zocc c b.(b_stack) - zocc c (inuse_keys b) - zocc c (wres b).
Proof. reflexivity. Qed.

Lemma wres_drop_done ws : flat_map wk_res (drop_done ws) = flat_map wk_res ws.
Proof.
  induction ws as [|w r IH]; cbn [drop_done]; [reflexivity|].
  destruct (is_done w) eqn:E; [|reflexivity]. rewrite IH. cbn [flat_map].
  destruct w as [t [|acc|]]; cbn in E; try discriminate. reflexivity.
Qed.
(* Block._wakeup_next_waiter *)
Lemma Own_wakeup_next h hl hp i s : Own h hl hp s -> Own h hl hp (wakeup_next i s).
Proof.
  intros O. unfold wakeup_next. destruct (drop_done (b_waiters (get_blk i s))) as [|w ws] eqn:Ew.
  - eapply Own_upd_gen; [exact O|cbn; apply get_blk_id| | |].
    + intros b Ef. rewrite (get_blk_live _ _ _ Ef) in *. split; [|repeat split; side].
      intros c. rewrite !slack_unfold. unfold keys, inuse_keys, wres. bsimp.
      rewrite <- (wres_drop_done (b_waiters b)), Ew. cbn [flat_map]. lia.
    + intros j Hj. split; [intros; lia|lia].
    + intros _. repeat split; intros; lia.
  - unfold push.
    eapply Own_append with (h := map (pair i) (wk_res w) ++ h) (hl := hl) (hp := hp).
    + eapply Own_upd_gen; [exact O|cbn; apply get_blk_id| | |].
      * intros b Ef. rewrite (get_blk_live _ _ _ Ef) in *. split; [|repeat split; side].
        intros c. rewrite zoccP_app, zoccP_map_pair, bid_eqb_refl, !slack_unfold.
        unfold keys, inuse_keys, wres. bsimp. rewrite <- (wres_drop_done (b_waiters b)), Ew.
        cbn [flat_map]. rewrite zocc_app. lia.
      * intros j Hj. split; [|lia]. intros c. rewrite zoccP_app, zoccP_map_pair.
        assert (E : bid_eqb j i = false) by (apply bid_eqb_neq; exact Hj). rewrite E. lia.
      * intros Ef. rewrite (get_blk_stale _ _ Ef) in Ew. discriminate.
    + intros p. cbn [kres flat_map]. rewrite app_nil_r, kres_wake, zoccP_app. lia.
    + intros c. cbn [flat_map]. rewrite limbo_wake. cbn [app]. rewrite zocc_nil. lia.
    + intros j. cbn [sumK]. rewrite pipe_wake. lia.
Qed.

Lemma wres_filter ws : flat_map wk_res (filter (fun w => negb (is_done w)) ws) = flat_map wk_res ws.
Proof.
  induction ws as [|w r IH]; cbn [filter flat_map]; [reflexivity|].
  destruct w as [t [|acc|]]; cbn [is_done snd negb flat_map]; rewrite IH; reflexivity.
Qed.
(* Block.abort_waiters *)
Lemma Own_abort_waiters h hl hp i s : Own h hl hp s -> Own h hl hp (abort_waiters i s).
Proof.
  intros O. unfold abort_waiters.
  set (b := get_blk i s). set (s1 := upd (set_b_waiters [] b) s).
  change (ready s) with (ready s1).
  eapply Own_append with (h := map (pair i) (wres b) ++ h) (hl := hl) (hp := hp).
  - eapply Own_upd_gen; [exact O|cbn; apply get_blk_id| | |].
    + intros b0 Ef. subst b. rewrite (get_blk_live _ _ _ Ef) in *. split; [|repeat split; side].
      intros c. rewrite zoccP_app, zoccP_map_pair, bid_eqb_refl, !slack_unfold.
      unfold keys, inuse_keys, wres. bsimp. cbn [flat_map]. rewrite zocc_nil. lia.
    + intros j Hj. split; [|lia]. intros c. rewrite zoccP_app, zoccP_map_pair.
      assert (E : bid_eqb j i = false) by (apply bid_eqb_neq; exact Hj). rewrite E. lia.
    + intros Ef. subst b. rewrite (get_blk_stale _ _ Ef). cbn. repeat split; intros; lia.
  - intros p. unfold kres. rewrite flat_map_concat_map, map_map, <- flat_map_concat_map.
    erewrite flat_map_ext; [|intros w; apply kres_wake].
    unfold wres. rewrite <- (flat_map_map (pair i) wk_res), wres_filter, zoccP_app. lia.
  - intros c. rewrite flat_map_concat_map, map_map, <- flat_map_concat_map.
    erewrite flat_map_ext; [|intros w; apply limbo_wake].
    assert (E : forall (l : list (tid * wk)), flat_map (fun _ => @nil N) l = []) by (induction l; auto).
    rewrite E, zocc_nil. lia.
  - intros j. assert (E : forall l, sumK (kont_pipe j) (map (fun w => wake_kont i w false) l) = 0).
    { induction l; cbn [map sumK]; [reflexivity|]. rewrite pipe_wake, IHl. reflexivity. }
    rewrite E. lia.
Qed.

(* a connection in the hand goes (back) onto the stack: first half of Block.release *)
Lemma Own_push_stack h hl hp i c s :
  Own ((i, c) :: h) hl hp s ->
  Own h hl hp (upd (set_b_stack ((get_blk i s).(b_stack) ++ [c]) (get_blk i s)) s).
Proof.
  intros O. eapply Own_upd_gen; [exact O|cbn; apply get_blk_id| | |].
  - intros b Ef. rewrite (get_blk_live _ _ _ Ef) in *. split; [|repeat split; side].
    intros c0. rewrite zoccP_cons, !slack_unfold. unfold keys, inuse_keys, wres.
    cbn [b_conns b_stack b_waiters set_b_stack]. rewrite zocc_app, zocc_cons, zocc_nil.
    destruct (pdec (i, c) (i, c0)) as [e|n], (Ndec c c0) as [e'|n']; try lia; exfalso; congruence.
  - intros j Hj. split; [|lia]. intros c0. rewrite zoccP_cons.
    destruct (pdec (i, c) (j, c0)) as [e|n]; [inversion e; subst; contradiction|lia].
  - intros _. repeat split; intros; try lia. rewrite zoccP_cons. destruct (pdec (i, c) p); lia.
Qed.
Lemma Own_block_release h hl hp i c s : Own ((i, c) :: h) hl hp s -> Own h hl hp (block_release i c s).
Proof. intros O. unfold block_release. apply Own_wakeup_next, Own_push_stack, O. Qed.

(* Block.try_steal: the connection at the bottom of the stack moves into the hand *)
Lemma Own_try_steal h hl hp i s c s' :
  try_steal i s = (Some c, s') -> Own h hl hp s -> Own ((i, c) :: h) hl hp s'.
Proof.
  unfold try_steal. destruct (b_stack (get_blk i s)) as [|c0 r] eqn:Es; intros E O; inversion E; subst; clear E.
  eapply Own_upd_gen; [exact O|cbn; apply get_blk_id| | |].
  - intros b Ef. rewrite (get_blk_live _ _ _ Ef) in *. split; [|repeat split; side].
    intros c0. rewrite zoccP_cons, !slack_unfold. unfold keys, inuse_keys, wres.
    cbn [b_conns b_stack b_waiters set_b_stack]. rewrite Es, zocc_cons.
    destruct (pdec (i, c) (i, c0)) as [e|n], (Ndec c c0) as [e'|n']; try lia; exfalso; congruence.
  - intros j Hj. split; [|lia]. intros c0. rewrite zoccP_cons.
    destruct (pdec (i, c) (j, c0)) as [e|n]; [inversion e; subst; contradiction|lia].
  - intros Ef. rewrite (get_blk_stale _ _ Ef) in Es. discriminate.
Qed.
Lemma try_steal_none i s s' : try_steal i s = (None, s') -> s' = s.
Proof. unfold try_steal. destruct (b_stack (get_blk i s)); intros E; inversion E; reflexivity. Qed.

Lemma zoccP_hand_other i c j c0 h : j <> i -> zoccP (j, c0) ((i, c) :: h) = zoccP (j, c0) h.
Proof. intros H. rewrite zoccP_cons. destruct (pdec (i, c) (j, c0)) as [e|n]; [inversion e; subst; contradiction|lia]. Qed.
Lemma zoccP_hand_same i c c0 h : zoccP (i, c0) ((i, c) :: h) = (if Ndec c c0 then 1 else 0) + zoccP (i, c0) h.
Proof.
  rewrite zoccP_cons. destruct (pdec (i, c) (i, c0)) as [e|n], (Ndec c c0) as [e'|n']; try lia; exfalso; congruence.
Qed.
Lemma zoccP_hand_le p q h : zoccP p h <= zoccP p (q :: h).
Proof. rewrite zoccP_cons. destruct (pdec q p); lia. Qed.
Lemma zocc_hand_le c q l : zocc c l <= zocc c (q :: l).
Proof. rewrite zocc_cons. destruct (Ndec q c); lia. Qed.
Lemma zoccB_hand_le j q l : zoccB j l <= zoccB j (q :: l).
Proof. rewrite zoccB_cons. destruct (bid_eqb j q); cbn [b2z]; lia. Qed.

Lemma Own_set_cur h hl hp v s : Own h hl hp s -> Own h hl hp (set_cur v s).
Proof. apply Own_same. sameO_tac. Qed.
Lemma Own_set_starving h hl hp v s : Own h hl hp s -> Own h hl hp (set_starving v s).
Proof. apply Own_same. sameO_tac. Qed.
Lemma Own_set_waitlist h hl hp v s : Own h hl hp s -> Own h hl hp (set_waitlist v s).
Proof. apply Own_same. sameO_tac. Qed.
Lemma Own_set_overq h hl hp v s : Own h hl hp s -> Own h hl hp (set_overq v s).
Proof. apply Own_same. sameO_tac. Qed.
Lemma Own_set_nacq h hl hp v s : Own h hl hp s -> Own h hl hp (set_nacq v s).
Proof. apply Own_same. sameO_tac. Qed.
Lemma Own_set_tick_armed h hl hp v s : Own h hl hp s -> Own h hl hp (set_tick_armed v s).
Proof. apply Own_same. sameO_tac. Qed.
Lemma Own_set_gc_reqs h hl hp v s : Own h hl hp s -> Own h hl hp (set_gc_reqs v s).
Proof. apply Own_same. sameO_tac. Qed.
Lemma Own_set_gc_timers h hl hp v s : Own h hl hp s -> Own h hl hp (set_gc_timers v s).
Proof. apply Own_same. sameO_tac. Qed.
Lemma Own_set_gtasks h hl hp v s : Own h hl hp s -> Own h hl hp (set_gtasks v s).
Proof. apply Own_same. sameO_tac. Qed.
Lemma Own_set_outs h hl hp v s : Own h hl hp s -> Own h hl hp (set_outs v s).
Proof. apply Own_same. sameO_tac. Qed.
Lemma Own_emit h hl hp v s : Own h hl hp s -> Own h hl hp (emit v s).
Proof. apply Own_same. sameO_tac. Qed.

(* ------------------------------------------------------------------ liveness of a block id *)
Definition live (i : bid) (s : pool) : Prop := find_bid i s.(blocks) <> None.
Lemma find_bid_upd j b' bs : find_bid j (upd_blk b' bs) = None <-> find_bid j bs = None.
Proof.
  induction bs as [|b r IH]; cbn [upd_blk find_bid]; [tauto|].
  destruct (bid_eqb (b_id b') (b_id b)) eqn:E; cbn [find_bid].
  - apply bid_eqb_eq in E. rewrite E. destruct (bid_eqb j (b_id b)); [split; discriminate|tauto].
  - destruct (bid_eqb j (b_id b)); [split; discriminate|exact IH].
Qed.
Lemma live_upd j b' s : live j s -> live j (upd b' s).
Proof. unfold live, upd. cbn. rewrite find_bid_upd. auto. Qed.
Lemma find_bid_In_live bs b : In b bs -> find_bid b.(b_id) bs <> None.
Proof.
  induction bs as [|b0 r IH]; intros Hin; [destruct Hin|]. cbn [find_bid].
  destruct (bid_eqb (b_id b) (b_id b0)) eqn:E; [discriminate|].
  destruct Hin as [->|Hb]; [rewrite bid_eqb_refl in E; discriminate|auto].
Qed.
Lemma live_perm j s bs : Permutation bs s.(blocks) -> live j s -> live j (set_blocks bs s).
Proof.
  unfold live. cbn. intros P H. destruct (find_bid j (blocks s)) as [b|] eqn:E; [|contradiction].
  assert (Hb : In b bs) by (eapply Permutation_in; [symmetry; exact P|eapply find_bid_In; eauto]).
  rewrite <- (find_bid_id _ _ _ E). apply find_bid_In_live. exact Hb.
Qed.
Lemma live_same j s s' : s'.(blocks) = s.(blocks) -> live j s -> live j s'.
Proof. unfold live. intros ->. auto. Qed.
Lemma live_get j s : live j s -> exists b, find_bid j s.(blocks) = Some b.
Proof. unfold live. destruct (find_bid j (blocks s)) as [b|]; [eauto|contradiction]. Qed.

(* the promise of a connect for block i moves from the hand into the block's pending counter *)
Lemma Own_pending_inc h hl hp i s :
  live i s -> Own h hl hp s ->
  Own h hl (i :: hp) (upd (set_b_pending ((get_blk i s).(b_pending) + 1) (get_blk i s)) s).
Proof.
  intros L O. eapply Own_upd_gen; [exact O|cbn; apply get_blk_id| | |].
  - intros b Ef. rewrite (get_blk_live _ _ _ Ef) in *. split; [|repeat split; side].
    + intros c. rewrite !slack_unfold. unfold keys, inuse_keys, wres. bsimp. lia.
    + rewrite zoccB_cons, bid_eqb_refl. cbn [b2z]. lia.
  - intros j Hj. split; [intros; lia|]. rewrite zoccB_cons.
    assert (E : bid_eqb j i = false) by (apply bid_eqb_neq; exact Hj). rewrite E. cbn [b2z]. lia.
  - intros Ef. contradiction.
Qed.

(* BasePool._schedule_new_conn *)
Lemma Own_sched_new_conn h hl hp i s : live i s -> Own h hl hp s -> Own h hl hp (sched_new_conn i s).
Proof.
  intros L O. unfold sched_new_conn, push.
  set (s1 := set_cur _ _).
  assert (O1 : Own h hl (i :: hp) s1) by (subst s1; apply Own_set_cur, Own_pending_inc; assumption).
  set (s2 := if starving s1 then _ else s1).
  assert (O2 : Own h hl (i :: hp) s2).
  { subst s2. destruct (starving s1); [|exact O1]. apply Own_perm; [apply move_end_perm|exact O1]. }
  eapply Own_append; [exact O2| | |].
  - intros p. cbn. rewrite zoccP_nil. lia.
  - intros c. cbn. rewrite zocc_nil. lia.
  - intros j. cbn [sumK kont_pipe]. rewrite zoccB_cons. lia.
Qed.
Lemma live_sched_new_conn j i s : live j s -> live j (sched_new_conn i s).
Proof.
  intros L. unfold sched_new_conn, push. apply live_same with (s := if starving (set_cur (cur s + 1) (upd (set_b_pending (b_pending (get_blk i s) + 1) (get_blk i s)) s)) then set_blocks (move_end i (blocks (set_cur (cur s + 1) (upd (set_b_pending (b_pending (get_blk i s) + 1) (get_blk i s)) s)))) (set_cur (cur s + 1) (upd (set_b_pending (b_pending (get_blk i s) + 1) (get_blk i s)) s)) else (set_cur (cur s + 1) (upd (set_b_pending (b_pending (get_blk i s) + 1) (get_blk i s)) s))); [reflexivity|].
  destruct (starving _).
  - apply live_perm; [apply move_end_perm|]. apply live_same with (s := upd (set_b_pending (b_pending (get_blk i s) + 1) (get_blk i s)) s); [reflexivity|]. apply live_upd, L.
  - apply live_same with (s := upd (set_b_pending (b_pending (get_blk i s) + 1) (get_blk i s)) s); [reflexivity|]. apply live_upd, L.
Qed.

(* BasePool._schedule_discard: the connection in the hand is reserved by the new task *)
Lemma Own_sched_discard h hl hp i c p br s :
  Own ((i, c) :: h) hl hp s -> Own h hl hp (sched_discard i c p br s).
Proof.
  intros O. unfold sched_discard, push. eapply Own_append; [exact O| | |].
  - intros q. cbn [kres flat_map kont_res app]. rewrite !zoccP_cons, zoccP_nil. lia.
  - intros c0. cbn. rewrite zocc_nil. lia.
  - intros j. cbn. lia.
Qed.

(* Z versions of the association-list facts *)
Lemma zkeys_aremove c (cs : list (N * bool)) v x : alookup c cs = Some v ->
  zocc x (map fst (aremove c cs)) = zocc x (map fst cs) - (if Ndec c x then 1 else 0).
Proof. intros H. pose proof (keys_aremove _ _ _ x H). unfold zocc. destruct (Ndec c x); lia. Qed.
Lemma zinuse_aset_true c cs x : alookup c cs = Some false ->
  zocc x (inuse_l (aset c true cs)) = (if Ndec c x then 1 else 0) + zocc x (inuse_l cs).
Proof. intros H. pose proof (inuse_aset_true _ _ x H). unfold zocc. destruct (Ndec c x); lia. Qed.
Lemma zinuse_aset_false c cs x : alookup c cs = Some true ->
  zocc x (inuse_l (aset c false cs)) = zocc x (inuse_l cs) - (if Ndec c x then 1 else 0).
Proof. intros H. pose proof (inuse_aset_false _ _ x H). unfold zocc. destruct (Ndec c x); lia. Qed.

(* facts about a connection that is in the hand *)
Lemma hand_block h hl hp i c s :
  Own ((i, c) :: h) hl hp s ->
  exists b, find_bid i s.(blocks) = Some b /\ In b s.(blocks) /\ b.(b_id) = i /\
            alookup c b.(b_conns) = Some false /\ zocc c b.(b_stack) = 0 /\ zocc c (keys b) = 1.
Proof.
  intros O. pose proof (own_blk _ _ _ _ O i c) as B. rewrite zoccP_hand_same in B.
  destruct (Ndec c c) as [_|n]; [|contradiction].
  pose proof (zoccP_nonneg (i, c) (kres (ready s))). pose proof (zoccP_nonneg (i, c) h).
  destruct (find_bid i (blocks s)) as [b|] eqn:Ef.
  - assert (Hb : In b (blocks s)) by (eapply find_bid_In; eauto).
    assert (Eb : b_id b = i) by (eapply find_bid_id; eauto).
    rewrite (sumZ_at_unique i (slack c) _ b (own_ids _ _ _ _ O) Hb Eb) in B.
    exists b. repeat split; auto.
    all: pose proof (own_open _ _ _ _ O c) as Op;
      assert (K1 : zocc c (keys b) <= sumZ (fun b => zocc c (keys b)) (blocks s))
        by (apply (sumZ_In_le (fun b => zocc c (keys b))); [intros; apply zocc_nonneg|exact Hb]);
      assert (G1 : zocc c (g_open s) <= 1)
        by (unfold zocc; pose proof (proj1 (occ_NoDup Ndec _) (own_nodup _ _ _ _ O) c); lia);
      pose proof (zocc_nonneg c (limbo s)); pose proof (zocc_nonneg c hl);
      pose proof (zocc_nonneg c (b_stack b)); pose proof (zocc_nonneg c (inuse_keys b));
      pose proof (zocc_nonneg c (wres b)); rewrite slack_unfold in B.
    + apply alookup_keys; unfold keys, inuse_keys, zocc in *; lia.
    + lia.
    + lia.
  - exfalso. rewrite sumZ_at_none in B; [lia|]. apply find_bid_none. exact Ef.
Qed.

(* BasePool._schedule_transfer *)
Lemma Own_sched_transfer h hl hp f c t s :
  live t s -> Own ((f, c) :: h) hl hp s -> Own h hl hp (sched_transfer f c t s).
Proof.
  intros L O. unfold sched_transfer.
  destruct (hand_block _ _ _ _ _ _ O) as (b0 & Ef0 & _ & _ & El & _).
  rewrite <- (get_blk_live _ _ _ Ef0) in El. rewrite El.
  set (s1 := upd (set_b_conns (aremove c (b_conns (get_blk f s))) (get_blk f s)) s).
  assert (O1 : Own h (c :: hl) hp s1).
  { subst s1. eapply Own_upd_gen; [exact O|cbn; apply get_blk_id| | |].
    - intros b Ef. rewrite (get_blk_live _ _ _ Ef) in *. split; [|repeat split; side].
      + intros c0. rewrite zoccP_hand_same, !slack_unfold. unfold keys, inuse_keys, wres. bsimp.
        rewrite (zkeys_aremove _ _ _ c0 El), (inuse_aremove_false _ _ El). lia.
      + rewrite (zkeys_aremove _ _ _ c0 El), zocc_cons. destruct (Ndec c c0); lia.
      + rewrite (inuse_aremove_false _ _ El). lia.
    - intros j Hj. split; [|lia]. intros c0. rewrite zoccP_hand_other; [lia|exact Hj].
    - intros Ef. rewrite (get_blk_stale _ _ Ef) in El. discriminate. }
  assert (L1 : live t s1) by (apply live_upd, L).
  set (s2 := upd _ s1).
  assert (O2 : Own h (c :: hl) (t :: hp) s2) by (apply Own_pending_inc; assumption).
  set (s3 := if starving s2 then _ else s2).
  assert (O3 : Own h (c :: hl) (t :: hp) s3).
  { subst s3. destruct (starving s2); [|exact O2]. apply Own_perm; [|exact O2].
    etransitivity; apply move_end_perm. }
  unfold push. eapply Own_append; [exact O3| | |].
  - intros p. cbn. rewrite zoccP_nil. lia.
  - intros c0. cbn [flat_map kont_limbo app]. rewrite !zocc_cons, zocc_nil. lia.
  - intros j. cbn [sumK kont_pipe]. rewrite zoccB_cons. lia.
Qed.

(* ------------------------------------------------------------------ functions that keep the set of blocks *)
Definition same_ids (s s' : pool) : Prop := Permutation (map b_id s'.(blocks)) (map b_id s.(blocks)).
Lemma live_iff_In j s : live j s <-> In j (map b_id s.(blocks)).
Proof.
  unfold live. split.
  - intros H. destruct (find_bid j (blocks s)) as [b|] eqn:E; [|contradiction].
    rewrite <- (find_bid_id _ _ _ E). apply in_map. eapply find_bid_In; eauto.
  - intros H. apply in_map_iff in H as (b & <- & Hb). apply find_bid_In_live. exact Hb.
Qed.
Lemma same_ids_live s s' j : same_ids s s' -> live j s -> live j s'.
Proof. unfold same_ids. rewrite !live_iff_In. intros P H. eapply Permutation_in; [symmetry; exact P|exact H]. Qed.
Lemma same_ids_refl s : same_ids s s. Proof. unfold same_ids. reflexivity. Qed.
Lemma same_ids_trans s1 s2 s3 : same_ids s1 s2 -> same_ids s2 s3 -> same_ids s1 s3.
Proof. unfold same_ids. intros H1 H2. etransitivity; eauto. Qed.
Lemma si_blocks_eq s0 s s' : s'.(blocks) = s.(blocks) -> same_ids s0 s -> same_ids s0 s'.
Proof. unfold same_ids. intros ->. auto. Qed.
Lemma si_upd s0 b s : same_ids s0 s -> same_ids s0 (upd b s).
Proof. unfold same_ids, upd. cbn. rewrite map_id_upd. auto. Qed.
Lemma si_perm s0 bs s : Permutation bs s.(blocks) -> same_ids s0 s -> same_ids s0 (set_blocks bs s).
Proof. unfold same_ids. cbn. intros P H. etransitivity; [apply Permutation_map; exact P|exact H]. Qed.
Lemma si_set_cur s0 v s : same_ids s0 s -> same_ids s0 (set_cur v s).
Proof. unfold same_ids. cbn. auto. Qed.
Lemma si_set_starving s0 v s : same_ids s0 s -> same_ids s0 (set_starving v s).
Proof. unfold same_ids. cbn. auto. Qed.
Lemma si_set_waitlist s0 v s : same_ids s0 s -> same_ids s0 (set_waitlist v s).
Proof. unfold same_ids. cbn. auto. Qed.
Lemma si_set_overq s0 v s : same_ids s0 s -> same_ids s0 (set_overq v s).
Proof. unfold same_ids. cbn. auto. Qed.
Lemma si_set_nacq s0 v s : same_ids s0 s -> same_ids s0 (set_nacq v s).
Proof. unfold same_ids. cbn. auto. Qed.
Lemma si_set_tick_armed s0 v s : same_ids s0 s -> same_ids s0 (set_tick_armed v s).
Proof. unfold same_ids. cbn. auto. Qed.
Lemma si_set_gc_reqs s0 v s : same_ids s0 s -> same_ids s0 (set_gc_reqs v s).
Proof. unfold same_ids. cbn. auto. Qed.
Lemma si_set_gc_timers s0 v s : same_ids s0 s -> same_ids s0 (set_gc_timers v s).
Proof. unfold same_ids. cbn. auto. Qed.
Lemma si_set_gtasks s0 v s : same_ids s0 s -> same_ids s0 (set_gtasks v s).
Proof. unfold same_ids. cbn. auto. Qed.
Lemma si_set_outs s0 v s : same_ids s0 s -> same_ids s0 (set_outs v s).
Proof. unfold same_ids. cbn. auto. Qed.
Lemma si_set_g_held s0 v s : same_ids s0 s -> same_ids s0 (set_g_held v s).
Proof. unfold same_ids. cbn. auto. Qed.
Lemma si_set_ready s0 v s : same_ids s0 s -> same_ids s0 (set_ready v s).
Proof. unfold same_ids. cbn. auto. Qed.
Lemma si_emit s0 v s : same_ids s0 s -> same_ids s0 (emit v s).
Proof. unfold same_ids. cbn. auto. Qed.
Lemma si_push s0 v s : same_ids s0 s -> same_ids s0 (push v s).
Proof. unfold same_ids. cbn. auto. Qed.
Lemma si_fail s0 s : same_ids s0 s -> same_ids s0 (fail s).
Proof. unfold same_ids. cbn. auto. Qed.

Lemma si_wakeup_next s0 i s : same_ids s0 s -> same_ids s0 (wakeup_next i s).
Proof. intros H. unfold wakeup_next. destruct (drop_done _); [apply si_upd, H|]. apply si_push, si_upd, H. Qed.
Lemma si_block_release s0 i c s : same_ids s0 s -> same_ids s0 (block_release i c s).
Proof. intros H. unfold block_release. apply si_wakeup_next, si_upd, H. Qed.
Lemma si_try_steal s0 i s r s' : try_steal i s = (r, s') -> same_ids s0 s -> same_ids s0 s'.
Proof. unfold try_steal. destruct (b_stack _); intros E H; inversion E; subst; [exact H|apply si_upd, H]. Qed.
Lemma si_sched_new_conn s0 i s : same_ids s0 s -> same_ids s0 (sched_new_conn i s).
Proof.
  intros H. unfold sched_new_conn. apply si_push.
  match goal with |- same_ids _ (if ?x then _ else _) => destruct x end.
  - apply si_perm; [apply move_end_perm|]. apply si_set_cur, si_upd, H.
  - apply si_set_cur, si_upd, H.
Qed.
Lemma si_sched_transfer s0 f c t s : same_ids s0 s -> same_ids s0 (sched_transfer f c t s).
Proof.
  intros H. unfold sched_transfer. destruct (alookup _ _) as [[|]|]; try (apply si_fail; exact H).
  apply si_push.
  match goal with |- same_ids _ (if ?x then _ else _) => destruct x end.
  - apply si_perm; [etransitivity; apply move_end_perm|]. apply si_upd, si_upd, H.
  - apply si_upd, si_upd, H.
Qed.
Lemma si_sched_discard s0 i c p br s : same_ids s0 s -> same_ids s0 (sched_discard i c p br s).
Proof. intros H. unfold sched_discard. apply si_push, H. Qed.
Lemma si_find_most_starving s0 s s' r : find_most_starving s = (s', r) -> same_ids s0 s -> same_ids s0 s'.
Proof.
  unfold find_most_starving. destruct (wl_pop _ _) as [wl o]. intros E H.
  destruct o; [|destruct (starve_revive _ _ _)]; inversion E; subst; apply si_set_waitlist; exact H.
Qed.
Lemma si_maybe_free s0 f c s s' r : maybe_free f c s = (s', r) -> same_ids s0 s -> same_ids s0 s'.
Proof.
  unfold maybe_free. destruct (find_most_starving s) as [s1 to] eqn:E. intros E2 H.
  assert (H1 : same_ids s0 s1) by (eapply si_find_most_starving; eauto).
  destruct to as [j|]; [destruct (bid_eqb j f)|]; inversion E2; subst; try exact H1.
  apply si_sched_transfer, H1.
Qed.
Lemma si_release_unused s0 i c s : same_ids s0 s -> same_ids s0 (release_unused i c s).
Proof.
  intros H. unfold release_unused.
  match goal with |- same_ids _ (if ?x then _ else _) => destruct x end;
    repeat first [apply si_set_gc_timers | apply si_set_gc_reqs]; apply si_block_release, H.
Qed.

(* what _find_most_starving_block returns is a block of the pool *)
Lemma wl_pop_live bs wl wl' i : wl_pop bs wl = (wl', Some i) -> find_bid i bs <> None.
Proof.
  induction wl as [|j r IH]; cbn [wl_pop]; [discriminate|].
  destruct (find_bid j bs) as [b|] eqn:E; [|exact IH].
  destruct (_ && _); [|exact IH]. intros H; inversion H; subst. rewrite E. discriminate.
Qed.
Lemma starve_revive_In bs : forall mx best i,
  starve_revive bs mx best = Some i -> best = Some i \/ In i (map b_id bs).
Proof.
  induction bs as [|b r IH]; intros mx best i; cbn [starve_revive map In]; [auto|].
  destruct (_ && _); intros H; apply IH in H as [H|H]; auto. inversion H; auto.
Qed.
Lemma starve_redist_In bs : forall mx best i,
  starve_redist bs mx best = Some i -> best = Some i \/ In i (map b_id bs).
Proof.
  induction bs as [|b r IH]; intros mx best i; cbn [starve_redist map In]; [auto|].
  destruct (_ && _); intros H; apply IH in H as [H|H]; auto. inversion H; auto.
Qed.
Lemma find_most_starving_live s s' i : find_most_starving s = (s', Some i) -> live i s'.
Proof.
  unfold find_most_starving. destruct (wl_pop _ _) as [wl o] eqn:Ew.
  destruct o as [j|].
  - intros E; inversion E; subst. unfold live. cbn. eapply wl_pop_live; eauto.
  - cbn [blocks set_waitlist]. destruct (starve_revive _ _ _) as [j|] eqn:Er; intros E; inversion E; subst; clear E.
    + apply live_iff_In. cbn. apply starve_revive_In in Er as [Er|Er]; [discriminate|exact Er].
    + apply live_iff_In. cbn. match goal with H : starve_redist _ _ _ = _ |- _ => apply starve_redist_In in H as [H|H]; [discriminate|exact H] end.
Qed.

Lemma Own_maybe_sched_tick h hl hp s : Own h hl hp s -> Own h hl hp (maybe_sched_tick s).
Proof. intros O. unfold maybe_sched_tick. destruct (_ && _); [apply Own_set_tick_armed|]; exact O. Qed.
Lemma Own_find_most_starving h hl hp s s' r : find_most_starving s = (s', r) -> Own h hl hp s -> Own h hl hp s'.
Proof.
  unfold find_most_starving. destruct (wl_pop _ _) as [wl o]. intros E O.
  destruct o; [|destruct (starve_revive _ _ _)]; inversion E; subst; apply Own_set_waitlist, O.
Qed.
(* Pool._maybe_free_into_starving_blocks: true = the connection in the hand was transferred *)
Lemma Own_maybe_free h hl hp f c s s' r :
  maybe_free f c s = (s', r) -> Own ((f, c) :: h) hl hp s ->
  if r then Own h hl hp s' else Own ((f, c) :: h) hl hp s'.
Proof.
  unfold maybe_free. destruct (find_most_starving s) as [s1 to] eqn:E. intros E2 O.
  assert (O1 : Own ((f, c) :: h) hl hp s1) by (eapply Own_find_most_starving; eauto).
  destruct to as [j|]; [destruct (bid_eqb j f)|]; inversion E2; subst; try exact O1.
  apply Own_sched_transfer; [|exact O1]. eapply find_most_starving_live; eauto.
Qed.
Lemma Own_release_unused h hl hp i c s : Own ((i, c) :: h) hl hp s -> Own h hl hp (release_unused i c s).
Proof.
  intros O. unfold release_unused.
  match goal with |- Own _ _ _ (if ?x then _ else _) => destruct x end;
    repeat first [apply Own_set_gc_timers | apply Own_set_gc_reqs]; apply Own_block_release, O.
Qed.
Lemma Own_try_steal_conn o f l : forall h hl hp s s' r,
  live f s -> try_steal_conn o f l s = (s', r) -> Own h hl hp s -> Own h hl hp s'.
Proof.
  induction l as [|i l IH]; intros h hl hp s s' r L E O; cbn [try_steal_conn] in E.
  - inversion E; subst; exact O.
  - destruct (bid_eqb i f || negb (should_free o i s)); [eapply IH; eauto|].
    destruct (try_steal i s) as [[c|] s1] eqn:Es; [|eapply IH; eauto].
    inversion E; subst. apply Own_sched_transfer; [|eapply Own_try_steal; eauto].
    eapply same_ids_live; [eapply si_try_steal; [eauto|apply same_ids_refl]|exact L].
Qed.
Lemma si_try_steal_conn o f l : forall s0 s s' r, try_steal_conn o f l s = (s', r) -> same_ids s0 s -> same_ids s0 s'.
Proof.
  induction l as [|i l IH]; intros s0 s s' r E H; cbn [try_steal_conn] in E.
  - inversion E; subst; exact H.
  - destruct (bid_eqb i f || negb (should_free o i s)); [eapply IH; eauto|].
    destruct (try_steal i s) as [[c|] s1] eqn:Es; [|eapply IH; eauto].
    inversion E; subst. apply si_sched_transfer. eapply si_try_steal; eauto.
Qed.
Lemma Own_try_shrink o i fuel : forall h hl hp s, Own h hl hp s -> Own h hl hp (try_shrink o i fuel s).
Proof.
  induction fuel as [|f IH]; intros h hl hp s O; cbn [try_shrink]; [exact O|].
  destruct (_ && _); [|exact O].
  destruct (try_steal i s) as [[c|] s1] eqn:Es; [|exact O].
  destruct (find_most_starving s1) as [s2 to] eqn:Ef.
  apply IH.
  assert (O2 : Own ((i, c) :: h) hl hp s2) by (eapply Own_find_most_starving; [eauto|]; eapply Own_try_steal; eauto).
  destruct to as [j|]; [apply Own_sched_transfer; [eapply find_most_starving_live; eauto|exact O2]|apply Own_sched_discard, O2].
Qed.
Lemma si_try_shrink o i fuel : forall s0 s, same_ids s0 s -> same_ids s0 (try_shrink o i fuel s).
Proof.
  induction fuel as [|f IH]; intros s0 s H; cbn [try_shrink]; [exact H|].
  destruct (_ && _); [|exact H].
  destruct (try_steal i s) as [[c|] s1] eqn:Es; [|exact H].
  destruct (find_most_starving s1) as [s2 to] eqn:Ef.
  apply IH. assert (H2 : same_ids s0 s2) by (eapply si_find_most_starving; [eauto|]; eapply si_try_steal; eauto).
  destruct to; [apply si_sched_transfer|apply si_sched_discard]; exact H2.
Qed.
Lemma Own_grow i fuel : forall h hl hp s, live i s -> Own h hl hp s -> Own h hl hp (grow i fuel s).
Proof.
  induction fuel as [|f IH]; intros h hl hp s L O; cbn [grow]; [exact O|].
  destruct (_ && _); [|exact O].
  apply IH; [eapply same_ids_live; [apply si_sched_new_conn, same_ids_refl|exact L]|apply Own_sched_new_conn; assumption].
Qed.
Lemma si_grow i fuel : forall s0 s, same_ids s0 s -> same_ids s0 (grow i fuel s).
Proof.
  induction fuel as [|f IH]; intros s0 s H; cbn [grow]; [exact H|].
  destruct (_ && _); [|exact H]. apply IH, si_sched_new_conn, H.
Qed.
Lemma Own_rebalance_one o i h hl hp s : live i s -> Own h hl hp s -> Own h hl hp (rebalance_one o i s).
Proof.
  intros L O. unfold rebalance_one.
  destruct (_ <? _); [|destruct (_ <? _); [apply Own_grow; assumption|exact O]].
  match goal with |- Own _ _ _ (if ?x then _ else _) => destruct x end;
    [apply Own_set_overq|]; apply Own_try_shrink, O.
Qed.
Lemma si_rebalance_one o i s0 s : same_ids s0 s -> same_ids s0 (rebalance_one o i s).
Proof.
  intros H. unfold rebalance_one.
  destruct (_ <? _); [|destruct (_ <? _); [apply si_grow|]; exact H].
  match goal with |- same_ids _ (if ?x then _ else _) => destruct x end;
    [apply si_set_overq|]; apply si_try_shrink, H.
Qed.
Lemma Own_rebalance_loop o l : forall h hl hp s, (forall i, In i l -> live i s) -> Own h hl hp s -> Own h hl hp (rebalance_loop o l s).
Proof.
  induction l as [|i l IH]; intros h hl hp s L O; cbn [rebalance_loop]; [exact O|].
  apply IH.
  - intros j Hj. eapply same_ids_live; [apply si_rebalance_one, same_ids_refl|]. apply L. right; exact Hj.
  - apply Own_rebalance_one; [apply L; left; reflexivity|exact O].
Qed.
Lemma si_rebalance_loop o l : forall s0 s, same_ids s0 s -> same_ids s0 (rebalance_loop o l s).
Proof. induction l; intros; cbn [rebalance_loop]; [assumption|]. apply IHl, si_rebalance_one; assumption. Qed.
Lemma Own_rebalance o h hl hp s : Own h hl hp s -> Own h hl hp (rebalance o s).
Proof.
  intros O. unfold rebalance. destruct (starving s); [exact O|].
  apply Own_set_overq, Own_rebalance_loop; [|apply Own_set_overq, O].
  intros i Hi. apply live_iff_In. exact Hi.
Qed.
Lemma si_rebalance o s0 s : same_ids s0 s -> same_ids s0 (rebalance o s).
Proof.
  intros H. unfold rebalance. destruct (starving s); [exact H|].
  apply si_set_overq, si_rebalance_loop, si_set_overq, H.
Qed.

(* replace block i by b' and the ghost list of lent connections at the same time *)
Lemma Own_upd_held h hl hp h' hl' hp' s i b' held' :
  Own h hl hp s -> b'.(b_id) = i ->
  (forall b, find_bid i s.(blocks) = Some b ->
     (forall c, zoccP (i, c) h' - zoccP (i, c) h <= slack c b' - slack c b) /\
     (forall c, zocc c (keys b') + zocc c hl' <= zocc c (keys b) + zocc c hl) /\
     (forall c, zocc c (map fst held') - zocc c (map fst s.(g_held)) = zocc c (inuse_keys b') - zocc c (inuse_keys b)) /\
     zoccB i hp' - zoccB i hp <= b'.(b_pending) - b.(b_pending)) ->
  (forall j, j <> i -> (forall c, zoccP (j, c) h' <= zoccP (j, c) h) /\ zoccB j hp' <= zoccB j hp) ->
  find_bid i s.(blocks) <> None ->
  Own h' hl' hp' (set_g_held held' (upd b' s)).
Proof.
  intros O Eid Hl Hoth Hlive.
  destruct (find_bid i (blocks s)) as [b|] eqn:Ef; [|contradiction].
  destruct (Hl b eq_refl) as (L1 & L2 & L3 & L5). clear Hl.
  destruct O as [o1 o2 o3 o4 o5 o6 o7 o8 o10 o11].
  assert (Eb : b_id b = i) by (eapply find_bid_id; eauto).
  assert (Ef' : find_bid (b_id b') (blocks s) = Some b) by (rewrite Eid; exact Ef).
  split; unfold limbo, npipe, upd in *; cbn [blocks ready infl_conn infl_disc g_open g_held next_conn next_bid set_blocks set_g_held].
  + intros j c. rewrite (sumZ_upd _ _ _ _ Ef'). specialize (o1 j c). unfold at_id at 2 3. rewrite Eid, Eb.
    destruct (bid_eqb j i) eqn:E.
    * apply bid_eqb_eq in E; subst j. specialize (L1 c). lia.
    * apply bid_eqb_neq in E. destruct (Hoth j E) as [Hj _]. specialize (Hj c). lia.
  + intros c. rewrite (sumZ_upd _ _ _ _ Ef'). specialize (o2 c). specialize (L2 c). lia.
  + exact o3.
  + exact o4.
  + intros c. rewrite (sumZ_upd _ _ _ _ Ef'). specialize (o5 c). specialize (L3 c). lia.
  + rewrite map_id_upd. exact o6.
  + rewrite b_db_map, map_id_upd, <- b_db_map. exact o7.
  + intros x Hx. apply In_upd_blk in Hx as [->|Hx]; [|auto].
    rewrite Eid, <- Eb. apply o8. eapply find_bid_In; eauto.
  + intros j. rewrite (sumZ_upd _ _ _ _ Ef'). specialize (o10 j). unfold at_id at 2 3. rewrite Eid, Eb.
    destruct (bid_eqb j i) eqn:E.
    * apply bid_eqb_eq in E; subst j. lia.
    * apply bid_eqb_neq in E. destruct (Hoth j E) as [_ Hj]. lia.
  + exact o11.
Qed.

Lemma NoDup_map_inj {A B} (f : A -> B) l x y : NoDup (map f l) -> In x l -> In y l -> f x = f y -> x = y.
Proof.
  induction l as [|a l IH]; cbn [map]; intros ND Hx Hy E; [destruct Hx|].
  inversion ND; subst. destruct Hx as [->|Hx], Hy as [->|Hy]; auto.
  - exfalso. apply H1. rewrite E. apply in_map. exact Hy.
  - exfalso. apply H1. rewrite <- E. apply in_map. exact Hx.
Qed.

Lemma zlen_inuse_aset_true c cs : alookup c cs = Some false -> zlen (inuse_l (aset c true cs)) = zlen (inuse_l cs) + 1.
Proof.
  induction cs as [|[k w] cs IH]; cbn [alookup aset]; [discriminate|].
  destruct (c =? k)%N; intros H.
  - inversion H; subst. unfold inuse_l. cbn [filter snd map]. rewrite zlen_cons. lia.
  - unfold inuse_l in *. cbn [filter snd]. destruct w; cbn [map]; rewrite ?zlen_cons, (IH H); lia.
Qed.

(* tail of Pool.acquire: the connection in the hand is marked in_use and lent to task t *)
Lemma Own_finish_acquire h hl hp i c t s :
  Own ((i, c) :: h) hl hp s -> Own h hl hp (finish_acquire t (fst i) c s).
Proof.
  intros O. unfold finish_acquire.
  assert (O1 : Own ((i, c) :: h) hl hp (set_nacq (nacq s - 1) s)) by (apply Own_set_nacq, O).
  destruct (hand_block _ _ _ _ _ _ O1) as (bi & Ef & Hbi & Ebi & Al & St & Ky).
  cbn [blocks set_nacq] in *.
  assert (Edi : find_db (fst i) (blocks s) = Some bi).
  { pose proof (find_db_unique _ _ (own_dbs _ _ _ _ O) Hbi) as F. unfold b_db in F at 1. rewrite Ebi in F. exact F. }
  rewrite Edi, Al.
  apply Own_emit. eapply Own_upd_held; [exact O1|bsimp; exact Ebi| | |cbn [blocks set_nacq]; congruence].
  - cbn [blocks set_nacq g_held]. intros b Ef2. assert (b = bi) by congruence. subst b.
    split; [|repeat split; side].
    + intros c0. rewrite zoccP_hand_same, !slack_unfold. unfold keys, inuse_keys, wres. bsimp.
      rewrite keys_aset, (zinuse_aset_true _ _ c0 Al). lia.
    + rewrite keys_aset. lia.
    + cbn [map fst]. rewrite zocc_cons, (zinuse_aset_true _ _ _ Al). lia.
  - intros j Hj. split; [|lia]. intros c0. rewrite zoccP_hand_other; [lia|exact Hj].
Qed.

(* deque.pop(): the top of the stack moves into the hand *)
Lemma Own_pop_top h hl hp i s r c b' :
  split_last (get_blk i s).(b_stack) = Some (r, c) ->
  b'.(b_id) = i -> b'.(b_conns) = (get_blk i s).(b_conns) -> b'.(b_stack) = r ->
  wres b' = wres (get_blk i s) -> b'.(b_pending) = (get_blk i s).(b_pending) ->
  Own h hl hp s -> Own ((i, c) :: h) hl hp (upd b' s).
Proof.
  intros Sl e1 e2 e3 e4 e5 O.
  pose proof (split_last_spec (b_stack (get_blk i s))) as Sp. rewrite Sl in Sp.
  eapply Own_upd_gen; [exact O|exact e1| | |].
  - intros b Ef. rewrite (get_blk_live _ _ _ Ef) in *.
    split; [|repeat split; intros; unfold keys, inuse_keys; rewrite ?e2, ?e5; lia].
    intros c0. rewrite zoccP_hand_same, !slack_unfold. unfold keys, inuse_keys.
    rewrite e2, e3, e4, Sp, zocc_app, zocc_cons, zocc_nil. lia.
  - intros j Hj. split; [|lia]. intros c0. rewrite zoccP_hand_other; [lia|exact Hj].
  - intros Ef. rewrite (get_blk_stale _ _ Ef) in Sl. discriminate.
Qed.

Lemma wres_app_acq ws t : flat_map wk_res (ws ++ [(t, WAcq)]) = flat_map wk_res ws.
Proof. rewrite flat_map_app. cbn. rewrite app_nil_r. reflexivity. Qed.

Lemma Own_block_acquire h hl hp t i first s : Own h hl hp s -> Own h hl hp (block_acquire t i first s).
Proof.
  intros O. unfold block_acquire. destruct (split_last _) as [[r c]|] eqn:Sl.
  - apply Own_finish_acquire. eapply Own_pop_top; eauto; try reflexivity. bsimp. apply get_blk_id.
  - apply Own_upd_same with (i := i); [exact O|].
    unfold blk_same, wres. bsimp. repeat split; try reflexivity.
    destruct first; [apply wres_app_acq|reflexivity].
Qed.

(* BasePool._get_block / _new_block *)
Lemma Own_get_block h hl hp d s i s' :
  get_block d s = (i, s') -> Own h hl hp s -> Own h hl hp s' /\ live i s' /\ fst i = d.
Proof.
  unfold get_block. destruct (find_db d (blocks s)) as [b|] eqn:Ed; intros E O; inversion E; subst; clear E.
  - destruct (find_db_In _ _ _ Ed) as [Hb Edb]. split; [exact O|split; [|exact Edb]].
    apply live_iff_In. apply in_map. exact Hb.
  - set (nb := new_blk (d, next_bid s)).
    assert (Hnone : forall b, In b (blocks s) -> b_db b <> d).
    { intros b Hb Edb. pose proof (find_db_unique _ _ (own_dbs _ _ _ _ O) Hb) as F. rewrite Edb, Ed in F. discriminate. }
    assert (Hid : ~ In (d, next_bid s) (map b_id (blocks s))).
    { intros Hin. apply in_map_iff in Hin as (b & Eb & Hb). apply (Hnone b Hb). unfold b_db. rewrite Eb. reflexivity. }
    assert (P : Permutation (if starving s then nb :: blocks s else blocks s ++ [nb]) (nb :: blocks s)).
    { destruct (starving s); [reflexivity|]. symmetry. apply Permutation_cons_append. }
    split; [|split; [|reflexivity]].
    + destruct O as [o1 o2 o3 o4 o5 o6 o7 o8 o10 o11].
      split; unfold limbo, npipe in *; cbn [blocks ready infl_conn infl_disc g_open g_held next_conn next_bid set_blocks set_next_bid]; auto.
      * intros j c. rewrite (sumZ_perm _ _ _ P). cbn [sumZ]. unfold at_id at 1.
        destruct (bid_eqb j (b_id nb)); [|apply o1].
        specialize (o1 j c). rewrite slack_unfold. cbn. rewrite !zocc_nil. lia.
      * intros c. rewrite (sumZ_perm _ _ _ P). cbn [sumZ]. specialize (o2 c). cbn. rewrite zocc_nil. lia.
      * intros c. rewrite (sumZ_perm _ _ _ P). cbn [sumZ]. specialize (o5 c). cbn. rewrite zocc_nil. lia.
      * eapply Permutation_NoDup; [symmetry; apply Permutation_map; exact P|]. cbn [map]. constructor; assumption.
      * eapply Permutation_NoDup; [symmetry; apply Permutation_map; exact P|]. cbn [map]. constructor; [|assumption].
        intros Hin. apply in_map_iff in Hin as (b & Eb & Hb). apply (Hnone b Hb). exact Eb.
      * intros b Hb. apply (Permutation_in _ P) in Hb. destruct Hb as [<-|Hb]; [cbn; lia|].
        specialize (o8 b Hb). lia.
      * intros j. rewrite (sumZ_perm _ _ _ P). cbn [sumZ]. unfold at_id at 1.
        destruct (bid_eqb j (b_id nb)); [|apply o10]. specialize (o10 j). cbn. lia.
    + apply live_iff_In. cbn [blocks set_blocks set_next_bid].
      eapply Permutation_in; [symmetry; apply Permutation_map; exact P|]. left. reflexivity.
Qed.

Lemma Own_acquire_start o t d h hl hp s : Own h hl hp s -> Own h hl hp (acquire_start o t d s).
Proof.
  intros O. unfold acquire_start.
  destruct (get_block d _) as [i s1] eqn:Eg.
  destruct (Own_get_block h hl hp _ _ _ _ Eg (Own_maybe_sched_tick _ _ _ _ (Own_set_nacq _ _ _ _ _ O))) as (O1 & L1 & Ed).
  set (s2 := upd _ s1).
  assert (O2 : Own h hl hp s2) by (apply Own_upd_same with (i := i); [exact O1|unfold blk_same; bsimp; repeat split; reflexivity]).
  assert (L2 : live i s2) by (apply live_upd, L1).
  match goal with |- Own _ _ _ (if ?x then _ else _) => destruct x end.
  - apply Own_block_acquire.
    match goal with |- Own _ _ _ (if ?x then _ else _) => destruct x end;
      match goal with |- Own _ _ _ (if ?x then _ else _) => destruct x end;
      try exact O2; apply Own_sched_new_conn; assumption.
  - match goal with |- Own _ _ _ (if ?x then _ else _) => destruct x end;
      [|match goal with |- Own _ _ _ (if ?x then _ else _) => destruct x end].
    + destruct (try_steal_conn o i (overq s2) s2) as [s3 ok] eqn:Et.
      assert (O3 : Own h hl hp s3) by (eapply Own_try_steal_conn; eauto).
      apply Own_block_acquire. destruct ok; [|apply Own_set_waitlist]; exact O3.
    + destruct (try_steal_conn o i (overq s2) s2) as [s3 ok] eqn:Et.
      apply Own_block_acquire. eapply Own_try_steal_conn; eauto.
    + apply Own_block_acquire, O2.
Qed.

Lemma Own_acquire_wake t i ok h hl hp s : Own h hl hp s -> Own h hl hp (acquire_wake t i ok s).
Proof.
  intros O. unfold acquire_wake. destruct ok.
  - destruct (split_last _) as [[r c]|] eqn:Sl.
    + apply Own_finish_acquire. eapply Own_pop_top; eauto; try reflexivity. bsimp. apply get_blk_id.
    + apply Own_block_acquire. apply Own_upd_same with (i := i); [exact O|unfold blk_same; bsimp; repeat split; reflexivity].
  - apply Own_emit, Own_set_nacq.
    set (s2 := match b_stack (get_blk i s) with [] => s | _ :: _ => wakeup_next i s end).
    assert (O2 : Own h hl hp s2) by (subst s2; destruct (b_stack _); [exact O|apply Own_wakeup_next, O]).
    apply Own_upd_same with (i := i); [exact O2|unfold blk_same; bsimp; repeat split; reflexivity].
Qed.

(* BasePool._connect up to the connect callback: the promise moves into infl_conn *)
Lemma Own_call_connect h hl hp i s : Own h hl (i :: hp) s -> Own h hl hp (call_connect i s).
Proof.
  intros [o1 o2 o3 o4 o5 o6 o7 o8 o10 o11]. unfold call_connect.
  split; unfold limbo, npipe in *; cbn; auto.
  intros j. specialize (o10 j). rewrite sumL_app. cbn [sumL snd]. rewrite zoccB_cons in o10. lia.
Qed.

(* BasePool._disconnect up to the disconnect callback *)
Lemma Own_call_disconnect h hl hp c a s :
  Own h (c :: hl) (match a with ADTransfer to => to :: hp | _ => hp end) s ->
  Own h hl hp (call_disconnect c a s).
Proof.
  intros [o1 o2 o3 o4 o5 o6 o7 o8 o10 o11]. unfold call_disconnect.
  split; unfold limbo, npipe in *; cbn; auto.
  - intros c0. specialize (o2 c0). rewrite map_app, app_assoc, !zocc_app in *. cbn [map fst snd].
    rewrite !zocc_cons, zocc_nil in *. lia.
  - intros j. specialize (o10 j). rewrite sumL_app. cbn [sumL snd].
    destruct a; [rewrite zoccB_cons in o10|]; lia.
Qed.

Lemma sumK_nonneg f l : (forall k, 0 <= f k) -> 0 <= sumK f l.
Proof. intros H. induction l; cbn [sumK]; [lia|]. specialize (H a). lia. Qed.
Lemma sumL_nonneg {A} (f : A -> Z) l : (forall k, 0 <= f k) -> 0 <= sumL f l.
Proof. intros H. induction l; cbn [sumL]; [lia|]. specialize (H a). lia. Qed.
Lemma b2z_nonneg b : 0 <= b2z b. Proof. destruct b; cbn; lia. Qed.
Lemma npipe_nonneg j s : 0 <= npipe j s.
Proof.
  unfold npipe.
  assert (0 <= sumK (kont_pipe j) (ready s)).
  { apply sumK_nonneg. intros k. destruct k; cbn; try lia; try apply b2z_nonneg. destruct a; [apply b2z_nonneg|lia]. }
  assert (0 <= sumL (fun e : N * (N * N) => b2z (bid_eqb j (snd e))) (infl_conn s)) by (apply sumL_nonneg; intros; apply b2z_nonneg).
  assert (0 <= sumL (fun e : N * (N * after_disc) => match snd (snd e) with ADTransfer to => b2z (bid_eqb j to) | _ => 0 end) (infl_disc s)).
  { apply sumL_nonneg. intros k. destruct (snd (snd k)); [apply b2z_nonneg|lia]. }
  lia.
Qed.
(* a block that has been promised a connection exists *)
Lemma promised_live h hl hp i s : Own h hl (i :: hp) s -> live i s.
Proof.
  intros O. pose proof (own_pend _ _ _ _ O i) as P. rewrite zoccB_cons, bid_eqb_refl in P. cbn [b2z] in P.
  pose proof (npipe_nonneg i s). pose proof (zoccB_nonneg i hp).
  unfold live. intros Ef. rewrite sumZ_at_none in P; [lia|]. apply find_bid_none. exact Ef.
Qed.

(* BasePool._connect after the callback completed (the KConnWake entry has just been popped:
   its connection and its promise are in the hands) *)
Lemma Own_connect_wake_ok h hl hp i c nodb s :
  Own h (c :: hl) (i :: hp) s -> Own h hl hp (connect_wake i (Some c) nodb s).
Proof.
  intros O. pose proof (promised_live _ _ _ _ _ O) as L. unfold connect_wake.
  apply Own_block_release.
  eapply Own_upd_gen; [exact O|bsimp; apply get_blk_id| | |].
  - intros b Ef. rewrite (get_blk_live _ _ _ Ef) in *. split; [|repeat split; side].
    + intros c0. rewrite zoccP_hand_same, !slack_unfold. unfold keys, inuse_keys, wres. bsimp.
      rewrite map_app, zocc_app, inuse_app_false. cbn [map fst]. rewrite zocc_cons, zocc_nil. lia.
    + rewrite map_app, zocc_app. cbn [map fst]. rewrite !zocc_cons, zocc_nil. lia.
    + rewrite inuse_app_false. lia.
    + rewrite zoccB_cons, bid_eqb_refl. cbn [b2z]. lia.
  - intros j Hj. split.
    + intros c0. rewrite zoccP_hand_other; [lia|exact Hj].
    + rewrite zoccB_cons. assert (E : bid_eqb j i = false) by (apply bid_eqb_neq; exact Hj). rewrite E. cbn [b2z]. lia.
  - intros Ef. contradiction.
Qed.

Lemma Own_pending_dec h hl hp i s :
  Own h hl (i :: hp) s ->
  Own h hl hp (upd (set_b_pending ((get_blk i s).(b_pending) - 1) (get_blk i s)) s).
Proof.
  intros O. pose proof (promised_live _ _ _ _ _ O) as L.
  eapply Own_upd_gen; [exact O|bsimp; apply get_blk_id| | |].
  - intros b Ef. rewrite (get_blk_live _ _ _ Ef) in *. split; [|repeat split; side].
    + intros c. rewrite !slack_unfold. unfold keys, inuse_keys, wres. bsimp. lia.
    + rewrite zoccB_cons, bid_eqb_refl. cbn [b2z]. lia.
  - intros j Hj. split; [intros; lia|]. rewrite zoccB_cons.
    assert (E : bid_eqb j i = false) by (apply bid_eqb_neq; exact Hj). rewrite E. cbn [b2z]. lia.
  - intros Ef. contradiction.
Qed.

Lemma Own_connect_wake_fail h hl hp i nodb s :
  Own h hl (i :: hp) s -> Own h hl hp (connect_wake i None nodb s).
Proof.
  intros O. pose proof (promised_live _ _ _ _ _ O) as L. unfold connect_wake.
  set (s1 := set_cur (cur s - 1) s).
  assert (O1 : Own h hl (i :: hp) s1) by (apply Own_set_cur, O).
  set (s2 := upd _ s1).
  assert (O2 : Own h hl (i :: hp) s2) by (apply Own_upd_same with (i := i); [exact O1|unfold blk_same; bsimp; repeat split; reflexivity]).
  assert (L2 : live i s2) by (apply live_upd, L).
  match goal with |- context [if ?x then ?a else ?b] => set (s3 := if x then a else b) end.
  assert (O3 : Own h hl (i :: hp) s3).
  { subst s3. match goal with |- Own _ _ _ (if ?x then _ else _) => destruct x end;
      [apply Own_abort_waiters, O2|apply Own_sched_new_conn; assumption]. }
  apply Own_pending_dec, O3.
Qed.

(* first step of _discard_conn: the KDiscStart entry has just been popped, its connection is in the hand *)
Lemma Own_discard_start h hl hp i c p br s :
  Own ((i, c) :: h) hl hp s -> Own h hl hp (discard_start i c p br s).
Proof.
  intros O. unfold discard_start.
  destruct (hand_block _ _ _ _ _ _ O) as (b0 & Ef0 & _ & _ & El & _).
  rewrite <- (get_blk_live _ _ _ Ef0) in El. rewrite El.
  apply (Own_call_disconnect h hl hp c (ADDiscard p br)).
  eapply Own_upd_gen; [exact O|cbn; apply get_blk_id| | |].
  - intros b Ef. rewrite (get_blk_live _ _ _ Ef) in *. split; [|repeat split; side].
    + intros c0. rewrite zoccP_hand_same, !slack_unfold. unfold keys, inuse_keys, wres. bsimp.
      rewrite (zkeys_aremove _ _ _ c0 El), (inuse_aremove_false _ _ El). lia.
    + rewrite (zkeys_aremove _ _ _ c0 El), zocc_cons. destruct (Ndec c c0); lia.
    + rewrite (inuse_aremove_false _ _ El). lia.
  - intros j Hj. split; [|lia]. intros c0. rewrite zoccP_hand_other; [lia|exact Hj].
  - intros Ef. rewrite (get_blk_stale _ _ Ef) in El. discriminate.
Qed.

(* after the disconnect callback completed (the KDiscWake entry has just been popped) *)
Lemma Own_disconnect_wake h hl hp c a ok s :
  Own h hl (match a with ADTransfer to => to :: hp | _ => hp end) s -> Own h hl hp (disconnect_wake c a ok s).
Proof.
  intros O. unfold disconnect_wake. destruct a as [to|[t|] br].
  - apply Own_call_connect, Own_set_cur, Own_set_cur, O.
  - unfold push. eapply Own_append; [apply Own_set_cur, O| | |]; intros; cbn; rewrite ?zoccP_nil, ?zocc_nil; lia.
  - apply Own_set_cur, O.
Qed.

(* ------------------------------------------------------------------ prune_inactive_connections *)
Lemma kres_discs i t acc : kres (map (fun c => KDiscStart i c (Some t) false) acc) = map (pair i) acc.
Proof. induction acc; cbn; [reflexivity|]. f_equal. exact IHacc. Qed.
Lemma limbo_discs i t acc : flat_map kont_limbo (map (fun c => KDiscStart i c (Some t) false) acc) = [].
Proof. induction acc; cbn; auto. Qed.
Lemma pipe_discs j i t acc : sumK (kont_pipe j) (map (fun c => KDiscStart i c (Some t) false) acc) = 0.
Proof. induction acc; cbn; auto. Qed.

Lemma Own_prune_cont t i acc h hl hp s :
  Own (map (pair i) acc ++ h) hl hp s -> Own h hl hp (prune_cont t i acc s).
Proof.
  intros O. unfold prune_cont. destruct (_ && _).
  - eapply Own_upd_gen; [exact O|bsimp; apply get_blk_id| | |].
    + intros b Ef. rewrite (get_blk_live _ _ _ Ef) in *. split; [|repeat split; side].
      intros c. rewrite zoccP_app, zoccP_map_pair, bid_eqb_refl, !slack_unfold. unfold keys, inuse_keys, wres. bsimp.
      rewrite flat_map_app, zocc_app. cbn [flat_map wk_res snd]. rewrite app_nil_r, zocc_app, zocc_rev, zocc_nil. lia.
    + intros j Hj. split; [|lia]. intros c. rewrite zoccP_app, zoccP_map_pair.
      assert (E : bid_eqb j i = false) by (apply bid_eqb_neq; exact Hj). rewrite E. lia.
    + intros _. repeat split; intros; try lia. rewrite zoccP_app. pose proof (zoccP_nonneg p (map (pair i) acc)). lia.
  - destruct acc as [|a acc'].
    + apply Own_emit. exact O.
    + apply Own_set_gtasks. eapply Own_append; [exact O| | |].
      * intros p. rewrite kres_discs, zoccP_app. lia.
      * intros c. rewrite limbo_discs, zocc_nil. lia.
      * intros j. rewrite pipe_discs. lia.
Qed.

Lemma Own_prune_start t d h hl hp s : Own h hl hp s -> Own h hl hp (prune_start t d s).
Proof.
  intros O. unfold prune_start. destruct (find_db d (blocks s)) as [b|] eqn:Ed; [|apply Own_emit, O].
  destruct (find_db_In _ _ _ Ed) as [Hb _].
  pose proof (find_bid_unique _ _ (own_ids _ _ _ _ O) Hb) as Ef.
  apply Own_prune_cont.
  eapply Own_upd_gen; [exact O|bsimp; reflexivity| | |].
  - intros b0 Ef0. assert (b0 = b) by congruence. subst b0. split; [|repeat split; side].
    intros c. rewrite zoccP_app, zoccP_map_pair, bid_eqb_refl, !slack_unfold. unfold keys, inuse_keys, wres. bsimp.
    rewrite zocc_nil. lia.
  - intros j Hj. split; [|lia]. intros c. rewrite zoccP_app, zoccP_map_pair.
    assert (E : bid_eqb j (b_id b) = false) by (apply bid_eqb_neq; exact Hj). rewrite E. lia.
  - intros Ef0. congruence.
Qed.

Lemma Own_perm_hand h h' hl hp s : (forall p, zoccP p h' = zoccP p h) -> Own h hl hp s -> Own h' hl hp s.
Proof. intros H. apply Own_weaken; intros; try lia. rewrite H. lia. Qed.

(* the KPruneWake entry has just been popped: acc is in the hand *)
Lemma Own_prune_wake t i acc ok h hl hp s :
  Own (map (pair i) acc ++ h) hl hp s -> Own h hl hp (prune_wake t i acc ok s).
Proof.
  intros O. unfold prune_wake. destruct ok.
  - destruct (split_last _) as [[r c]|] eqn:Sl.
    + apply Own_prune_cont.
      eapply Own_perm_hand; [|eapply Own_pop_top; eauto; try reflexivity; bsimp; apply get_blk_id].
      intros p. rewrite map_app, !zoccP_app. cbn [map]. rewrite !zoccP_cons, zoccP_nil, zoccP_app. lia.
    + apply Own_prune_cont. apply Own_upd_same with (i := i); [exact O|unfold blk_same; bsimp; repeat split; reflexivity].
  - apply Own_emit.
    assert (O0 : Own h hl hp s).
    { eapply Own_weaken; [| | |exact O]; intros; try lia. rewrite zoccP_app. pose proof (zoccP_nonneg p (map (pair i) acc)). lia. }
    set (s2 := match b_stack (get_blk i s) with [] => s | _ :: _ => wakeup_next i s end).
    assert (O2 : Own h hl hp s2) by (subst s2; destruct (b_stack _); [exact O0|apply Own_wakeup_next, O0]).
    apply Own_upd_same with (i := i); [exact O2|unfold blk_same; bsimp; repeat split; reflexivity].
Qed.

Lemma Own_gather_cb t h hl hp s : Own h hl hp s -> Own h hl hp (gather_cb t s).
Proof.
  intros O. unfold gather_cb. destruct (alookup _ _); [|exact O].
  destruct (_ <=? _); [|apply Own_set_gtasks, O].
  unfold push. eapply Own_append; [apply Own_set_gtasks, O| | |]; intros; cbn; rewrite ?zoccP_nil, ?zocc_nil; lia.
Qed.

(* ------------------------------------------------------------------ Pool.release *)
Lemma zocc_In c l : (1 <= zocc c l) <-> In c l.
Proof. unfold zocc. rewrite (occ_In Ndec). lia. Qed.
Lemma alookup_of_In {A} c (l : list (N * A)) : In c (map fst l) -> exists v, alookup c l = Some v.
Proof.
  induction l as [|[k v] l IH]; cbn [map fst alookup In]; [tauto|].
  destruct (c =? k)%N eqn:E; [eauto|]. intros [->|H]; [rewrite N.eqb_refl in E; discriminate|auto].
Qed.
Lemma inuse_In c cs : alookup c cs = Some true -> 1 <= zocc c (inuse_l cs).
Proof.
  induction cs as [|[k v] cs IH]; cbn [alookup]; [discriminate|].
  destruct (c =? k)%N eqn:E; intros H.
  - inversion H; subst. apply N.eqb_eq in E; subst. unfold inuse_l. cbn [filter snd map fst].
    rewrite zocc_cons. destruct (Ndec k k); [|contradiction]. pose proof (zocc_nonneg k (map fst (filter snd cs))). lia.
  - specialize (IH H). unfold inuse_l in *. cbn [filter snd]. destruct v; cbn [map fst]; rewrite ?zocc_cons; [destruct (Ndec k c)|]; lia.
Qed.

Lemma Own_release o d c discard h hl hp s : Own h hl hp s -> Own h hl hp (release o d c discard s).
Proof.
  intros O. unfold release.
  destruct (find_db d (blocks s)) as [b|] eqn:Ed; [|apply Own_emit, O].
  destruct (alookup c (b_conns b)) as [[|]|] eqn:El; try (apply Own_emit, O).
  destruct (find_db_In _ _ _ Ed) as [Hb _].
  pose proof (find_bid_unique _ _ (own_ids _ _ _ _ O) Hb) as Ef.
  remember (b_id b) as i eqn:Ei.
  set (s1 := maybe_sched_tick _).
  assert (O1 : Own ((i, c) :: h) hl hp s1).
  { subst s1. apply Own_maybe_sched_tick.
    eapply Own_upd_held; [exact O|bsimp; symmetry; exact Ei| | |rewrite Ef; discriminate].
    - intros b0 Ef0. assert (b0 = b) by congruence. subst b0. split; [|repeat split; side].
      + intros c0. rewrite zoccP_hand_same, !slack_unfold. unfold keys, inuse_keys, wres. bsimp.
        rewrite keys_aset, (zinuse_aset_false _ _ c0 El). lia.
      + rewrite keys_aset. lia.
      + rewrite (zinuse_aset_false _ _ _ El).
        assert (Hin : In c (map fst (g_held s))).
        { apply zocc_In. rewrite (own_held _ _ _ _ O c).
          pose proof (inuse_In _ _ El).
          pose proof (sumZ_In_le (fun b => zocc c (inuse_keys b)) (blocks s) b (fun b _ => zocc_nonneg c _) Hb).
          unfold inuse_keys in *. cbn beta in *. lia. }
        destruct (alookup_of_In _ _ Hin) as [v Hv].
        pose proof (proj2 (occ_aremove_fst c (g_held s) c0) v Hv) as R.
        unfold zocc. destruct (Ndec c c0); lia.
    - intros j Hj. split; [|lia]. intros c0. rewrite zoccP_hand_other; [lia|exact Hj]. }
  assert (L1 : live i s1).
  { subst s1. unfold maybe_sched_tick. destruct (_ && _); unfold live; cbn; rewrite find_bid_upd, Ef; discriminate. }
  destruct (if should_free o i s1 then maybe_free i c s1 else (s1, false)) as [s2 moved] eqn:Em.
  assert (O2 : if moved then Own h hl hp s2 else Own ((i, c) :: h) hl hp s2).
  { destruct (should_free o i s1); [eapply Own_maybe_free; eauto|inversion Em; subst; exact O1]. }
  assert (L2 : live i s2).
  { destruct (should_free o i s1); [|inversion Em; subst; exact L1].
    eapply same_ids_live; [eapply si_maybe_free; [eauto|apply same_ids_refl]|exact L1]. }
  destruct moved; [exact O2|].
  destruct discard.
  - apply Own_sched_new_conn; [|apply Own_sched_discard, O2].
    eapply same_ids_live; [apply si_sched_discard, same_ids_refl|exact L2].
  - apply Own_release_unused, O2.
Qed.

(* ------------------------------------------------------------------ _tick *)
Lemma Own_upd_same_In h hl hp s b b' : Own h hl hp s -> In b s.(blocks) -> blk_same b b' -> Own h hl hp (upd b' s).
Proof.
  intros O Hb Sm. pose proof (find_bid_unique _ _ (own_ids _ _ _ _ O) Hb) as Ef.
  apply Own_upd_same with (i := b_id b); [exact O|]. rewrite (get_blk_live _ _ _ Ef). exact Sm.
Qed.

Lemma Own_tick_scan o ids : forall h hl hp s tot need drop s' a b c,
  tick_scan o ids s tot need drop = (s', a, b, c) -> Own h hl hp s -> Own h hl hp s'.
Proof.
  induction ids as [|i r IH]; intros h hl hp s tot need drop s' a b c E O; cbn [tick_scan] in E.
  - inversion E; subst; exact O.
  - assert (O1 : Own h hl hp (upd (set_b_quota (b_nwait (get_blk i s) + b_acq (get_blk i s)) (get_blk i s)) s))
      by (apply Own_upd_same with (i := i); [exact O|unfold blk_same; bsimp; repeat split; reflexivity]).
    destruct (_ && _); [|destruct (_ =? _)]; eapply IH; eauto.
Qed.
Lemma si_tick_scan o ids : forall s0 s tot need drop s' a b c,
  tick_scan o ids s tot need drop = (s', a, b, c) -> same_ids s0 s -> same_ids s0 s'.
Proof.
  induction ids as [|i r IH]; intros s0 s tot need drop s' a b c E H; cbn [tick_scan] in E.
  - inversion E; subst; exact H.
  - destruct (_ && _); [|destruct (_ =? _)]; eapply IH; eauto; apply si_upd, H.
Qed.

(* BasePool._drop_block *)
Lemma Own_remove h hl hp i s :
  count_conns (get_blk i s) = 0 -> Own h hl hp s -> Own h hl hp (set_blocks (remove_bid i s.(blocks)) s).
Proof.
  intros Cc O. destruct (find_bid i (blocks s)) as [b|] eqn:Ef.
  2: { rewrite (remove_bid_none _ _ Ef). eapply Own_same; [|exact O]. sameO_tac. }
  rewrite (get_blk_live _ _ _ Ef) in Cc.
  assert (Hb : In b (blocks s)) by (eapply find_bid_In; eauto).
  assert (Eb : b_id b = i) by (eapply find_bid_id; eauto).
  pose proof (own_pend _ _ _ _ O i) as P.
  rewrite (sumZ_at_unique i b_pending _ b (own_ids _ _ _ _ O) Hb Eb) in P.
  pose proof (npipe_nonneg i s). pose proof (zoccB_nonneg i hp).
  unfold count_conns in Cc. pose proof (zlen_nonneg (b_conns b)).
  assert (Ec : b_conns b = []) by (destruct (b_conns b) as [|x l]; [reflexivity|rewrite zlen_cons in *; pose proof (zlen_nonneg l); lia]).
  assert (Ep : b_pending b = 0) by lia.
  assert (Ek : keys b = []) by (unfold keys; rewrite Ec; reflexivity).
  assert (Ei : inuse_keys b = []) by (unfold inuse_keys; rewrite Ec; reflexivity).
  pose proof (remove_bid_perm _ _ _ Ef) as Pm.
  assert (Sm : forall w, sumZ w (remove_bid i (blocks s)) = sumZ w (blocks s) - w b)
    by (intros w; apply sumZ_remove; exact Ef).
  destruct O as [o1 o2 o3 o4 o5 o6 o7 o8 o10 o11].
  split; unfold limbo, npipe in *; cbn [blocks ready infl_conn infl_disc g_open g_held next_conn next_bid set_blocks]; auto.
  - intros j c. rewrite Sm. specialize (o1 j c). unfold at_id at 2. rewrite Eb.
    destruct (bid_eqb j i) eqn:E; [|lia]. apply bid_eqb_eq in E; subst j.
    rewrite (sumZ_at_unique i (slack c) _ b o6 Hb Eb) in o1.
    rewrite (sumZ_at_unique i (slack c) _ b o6 Hb Eb).
    rewrite slack_unfold in *. unfold keys, inuse_keys in *. rewrite Ec in *. cbn [map inuse_l filter] in *.
    rewrite zocc_nil in *. pose proof (zocc_nonneg c (b_stack b)). pose proof (zocc_nonneg c (wres b)).
    pose proof (zoccP_nonneg (i, c) (kres (ready s))). pose proof (zoccP_nonneg (i, c) h). lia.
  - intros c. rewrite Sm. specialize (o2 c). cbn beta. rewrite Ek, zocc_nil. lia.
  - intros c. rewrite Sm. specialize (o5 c). cbn beta. rewrite Ei, zocc_nil. lia.
  - apply (Permutation_NoDup (Permutation_map b_id Pm)) in o6. inversion o6; assumption.
  - apply (Permutation_NoDup (Permutation_map b_db Pm)) in o7. inversion o7; assumption.
  - intros x Hx. apply o8. eapply In_remove_bid; eauto.
  - intros j. rewrite Sm. specialize (o10 j). unfold at_id at 2. rewrite Eb.
    destruct (bid_eqb j i) eqn:E; [|lia]. apply bid_eqb_eq in E; subst j. lia.
Qed.

Lemma Own_drop_all ids : forall h hl hp s s' r, drop_all ids s = (s', r) -> Own h hl hp s -> Own h hl hp s'.
Proof.
  induction ids as [|i r IH]; intros h hl hp s s' r0 E O; cbn [drop_all] in E.
  - inversion E; subst; exact O.
  - destruct (negb (b_nwait (get_blk i s) =? 0) || negb (count_conns (get_blk i s) =? 0) || negb (b_quota (get_blk i s) =? 0)) eqn:G;
      [inversion E; subst; exact O|].
    apply orb_false_iff in G as [G _]. apply orb_false_iff in G as [_ G].
    apply negb_false_iff, Z.eqb_eq in G.
    eapply IH; [exact E|]. apply Own_remove; assumption.
Qed.

Lemma Own_modeD_quota o ids : forall h hl hp s, Own h hl hp s -> Own h hl hp (modeD_quota o ids s).
Proof.
  induction ids as [|i r IH]; intros h hl hp s O; cbn [modeD_quota]; [exact O|]. apply IH.
  assert (Q : forall q, Own h hl hp (upd (set_b_quota q (get_blk i s)) s))
    by (intros q; apply Own_upd_same with (i := i); [exact O|unfold blk_same; bsimp; repeat split; reflexivity]).
  assert (M : forall q, Own h hl hp (set_blocks (move_end i (upd_blk (set_b_quota q (get_blk i s)) (blocks s))) s)).
  { intros q. exact (Own_perm h hl hp (upd (set_b_quota q (get_blk i s)) s) _ (move_end_perm i _) (Q q)). }
  destruct (_ =? 1); [destruct (mem_n _ _)|destruct (_ <? _)]; auto.
Qed.
Lemma si_modeD_quota o ids : forall s0 s, same_ids s0 s -> same_ids s0 (modeD_quota o ids s).
Proof.
  induction ids as [|i r IH]; intros s0 s H; cbn [modeD_quota]; [exact H|]. apply IH.
  assert (M : forall q, same_ids s0 (set_blocks (move_end i (upd_blk (set_b_quota q (get_blk i s)) (blocks s))) s)).
  { intros q. exact (si_perm s0 _ (upd (set_b_quota q (get_blk i s)) s) (move_end_perm i _) (si_upd _ _ _ H)). }
  destruct (_ =? 1); [destruct (mem_n _ _)|destruct (_ <? _)]; auto. apply si_upd, H.
Qed.

Lemma Own_free_loop o i fuel : forall h hl hp s s' r, free_loop o i fuel s = (s', r) -> Own h hl hp s -> Own h hl hp s'.
Proof.
  induction fuel as [|f IH]; intros h hl hp s s' r E O; cbn [free_loop] in E.
  - inversion E; subst; exact O.
  - destruct (should_free o i s); [|inversion E; subst; exact O].
    destruct (try_steal i s) as [[c|] s1] eqn:Es; [|inversion E; subst; exact O].
    destruct (maybe_free i c s1) as [s2 ok] eqn:Em.
    pose proof (Own_maybe_free h hl hp _ _ _ _ _ Em (Own_try_steal _ _ _ _ _ _ _ Es O)) as O2.
    destruct ok; [eapply IH; eauto|]. inversion E; subst. apply Own_release_unused, O2.
Qed.
Lemma Own_modeD_free o ids : forall h hl hp s, Own h hl hp s -> Own h hl hp (modeD_free o ids s).
Proof.
  induction ids as [|i r IH]; intros h hl hp s O; cbn [modeD_free]; [exact O|].
  destruct (free_loop _ _ _ _) as [s1 stop] eqn:Ef.
  assert (O1 : Own h hl hp s1) by (eapply Own_free_loop; eauto).
  destruct stop; [exact O1|apply IH, O1].
Qed.
Lemma Own_set_quotas cq : forall h hl hp s, Own h hl hp s -> Own h hl hp (set_quotas cq s).
Proof.
  induction cq as [|[d q] r IH]; intros h hl hp s O; cbn [set_quotas]; [exact O|]. apply IH.
  destruct (find_db d (blocks s)) as [b|] eqn:Ed; [|exact O].
  destruct (find_db_In _ _ _ Ed) as [Hb _].
  eapply Own_upd_same_In; [exact O|exact Hb|unfold blk_same; bsimp; repeat split; reflexivity].
Qed.

Lemma Own_tick o h hl hp s : Own h hl hp s -> Own h hl hp (tick o s).
Proof.
  intros O. unfold tick.
  assert (O0 : Own h hl hp (maybe_sched_tick (set_tick_armed false s)))
    by (apply Own_maybe_sched_tick, Own_set_tick_armed, O).
  destruct (blocks _) as [|b [|b2 bs]] eqn:Eb.
  - apply Own_set_starving, O0.
  - eapply Own_upd_same_In; [apply Own_set_starving, O0|cbn [blocks set_starving]; rewrite Eb; left; reflexivity|].
    unfold blk_same; bsimp; repeat split; reflexivity.
  - destruct (tick_scan _ _ _ _ _ _) as [[[s1 tot] need] drop] eqn:Et.
    assert (O1 : Own h hl hp s1) by (eapply Own_tick_scan; eauto).
    destruct (drop_all _ _) as [s3 crashed] eqn:Ed.
    assert (O3 : Own h hl hp s3) by (eapply Own_drop_all; [eauto|]; apply Own_set_starving, O1).
    destruct crashed; [apply Own_emit, O3|].
    match goal with |- Own _ _ _ (if ?x then _ else _) => destruct x end; [exact O3|].
    match goal with |- Own _ _ _ (if ?x then _ else _) => destruct x end.
    { match goal with |- Own _ _ _ (if ?x then _ else _) => destruct x end; [apply Own_rebalance|]; exact O3. }
    match goal with |- Own _ _ _ (if ?x then _ else _) => destruct x end.
    + match goal with |- Own _ _ _ (if ?x then _ else _) => destruct x end;
        [apply Own_modeD_free|]; apply Own_modeD_quota, O3.
    + match goal with |- Own _ _ _ (if ?x then _ else _) => destruct x end;
        [apply Own_emit|apply Own_rebalance]; apply Own_set_quotas, O3.
Qed.

(* ------------------------------------------------------------------ _run_gc *)
Lemma Own_gc_block i n : forall h hl hp s, Own h hl hp s -> Own h hl hp (gc_block i n s).
Proof.
  induction n as [|m IH]; intros h hl hp s O; cbn [gc_block]; [exact O|].
  destruct (try_steal i s) as [[c|] s1] eqn:Es; [|exact O].
  apply IH, Own_sched_discard. eapply Own_try_steal; eauto.
Qed.
Lemma Own_gc_all o ids : forall h hl hp s, Own h hl hp s -> Own h hl hp (gc_all o ids s).
Proof. induction ids; intros; cbn [gc_all]; [assumption|]. apply IHids, Own_gc_block; assumption. Qed.
Lemma Own_run_gc o h hl hp s : Own h hl hp s -> Own h hl hp (run_gc o s).
Proof.
  intros O. unfold run_gc.
  destruct (starving _); [apply Own_set_gc_timers, Own_set_gc_timers, O|].
  apply Own_gc_all. destruct (_ <? _); repeat first [apply Own_set_gc_timers | apply Own_set_gc_reqs]; exact O.
Qed.

(* ------------------------------------------------------------------ one step preserves ownership *)
Definition OwnI (s : pool) : Prop := Own [] [] [] s.

Definition kont_promise (k : kont) : list bid :=
  match k with
  | KConnStart i => [i]
  | KConnWake _ i _ _ => [i]
  | KTransStart _ _ to => [to]
  | KDiscWake _ _ (ADTransfer to) _ => [to]
  | _ => []
  end.
Lemma kont_pipe_promise j k : kont_pipe j k = zoccB j (kont_promise k).
Proof.
  destruct k; cbn [kont_pipe kont_promise]; rewrite ?zoccB_cons, ?zoccB_nil; try lia.
  destruct a; rewrite ?zoccB_cons, ?zoccB_nil; lia.
Qed.

(* the loop pops the first callback: what it carried moves into the hands *)
Lemma Own_pop s k r :
  OwnI s -> s.(ready) = k :: r ->
  Own (kont_res k) (kont_limbo k) (kont_promise k) (set_ready r (set_outs [] s)).
Proof.
  intros [o1 o2 o3 o4 o5 o6 o7 o8 o10 o11] E.
  split; unfold limbo, npipe in *; cbn [blocks ready infl_conn infl_disc g_open g_held next_conn next_bid set_ready set_outs]; auto;
    rewrite E in *.
  - intros j c. specialize (o1 j c). cbn [kres flat_map] in o1. rewrite zoccP_app, zoccP_nil in o1. unfold kres. lia.
  - intros c. specialize (o2 c). cbn [flat_map] in o2. rewrite !zocc_app, zocc_nil in o2. rewrite zocc_app. lia.
  - intros j. specialize (o10 j). cbn [sumK] in o10. rewrite kont_pipe_promise, zoccB_nil in o10. lia.
Qed.

Lemma sumL_aremove {A} (f : N * A -> Z) k l v : alookup k l = Some v -> sumL f (aremove k l) = sumL f l - f (k, v).
Proof.
  induction l as [|[k' v'] l IH]; cbn [alookup aremove]; [discriminate|].
  destruct (k =? k')%N eqn:E; intros H; cbn [sumL].
  - inversion H; subst. apply N.eqb_eq in E; subst. lia.
  - rewrite (IH H). lia.
Qed.
Lemma zocc_aremove_snd k (l : list (N * (N * after_disc))) c a x : alookup k l = Some (c, a) ->
  zocc x (map (fun e : N * (N * after_disc) => fst (snd e)) (aremove k l)) =
  zocc x (map (fun e : N * (N * after_disc) => fst (snd e)) l) - (if Ndec c x then 1 else 0).
Proof.
  induction l as [|[k' [c' a']] l IH]; cbn [alookup aremove]; [discriminate|].
  destruct (k =? k')%N eqn:E; intros H; cbn [map fst snd].
  - inversion H; subst. rewrite zocc_cons. lia.
  - rewrite !zocc_cons, (IH H). lia.
Qed.
Lemma NoDup_remove1 c l : NoDup l -> NoDup (remove1 c l).
Proof.
  intros ND. apply (occ_NoDup Ndec). intros x. pose proof (proj1 (occ_NoDup Ndec l) ND x).
  destruct (in_dec Ndec c l) as [Hin|Hn].
  - pose proof (occ_remove1 c l x Hin). lia.
  - assert (E : remove1 c l = l).
    { clear -Hn. induction l as [|y l IH]; cbn [remove1]; [reflexivity|].
      destruct (c =? y)%N eqn:E; [apply N.eqb_eq in E; subst; exfalso; apply Hn; left; reflexivity|].
      rewrite IH; [reflexivity|]. intros H; apply Hn; right; exact H. }
    rewrite E. lia.
Qed.
Lemma In_remove1 c l x : In x (remove1 c l) -> In x l.
Proof.
  induction l as [|y l IH]; cbn [remove1]; [tauto|].
  destruct (c =? y)%N; cbn [In]; intros H; [right; exact H|]. destruct H; auto.
Qed.
Lemma zocc_remove1 c l x : In c l -> zocc x (remove1 c l) = zocc x l - (if Ndec c x then 1 else 0).
Proof. intros H. pose proof (occ_remove1 c l x H). unfold zocc. destruct (Ndec c x); lia. Qed.

Lemma Own_discs_open s : OwnI s -> discs_open s.
Proof.
  intros O did c a El. apply zocc_In.
  pose proof (own_open _ _ _ _ O c) as Op. unfold limbo in Op. rewrite zocc_app, zocc_nil in Op.
  assert (1 <= zocc c (map (fun e : N * (N * after_disc) => fst (snd e)) (infl_disc s))).
  { clear -El. induction (infl_disc s) as [|[k [c' a']] l IH]; cbn [alookup] in El; [discriminate|].
    cbn [map fst snd]. rewrite zocc_cons. destruct (did =? k)%N.
    - inversion El; subst. destruct (Ndec c c); [|contradiction]. pose proof (zocc_nonneg c (map (fun e : N * (N * after_disc) => fst (snd e)) l)). lia.
    - specialize (IH El). destruct (Ndec c' c); lia. }
  pose proof (zocc_nonneg c (flat_map kont_limbo (ready s))).
  assert (0 <= sumZ (fun b => zocc c (keys b)) (blocks s)) by (apply sumZ_nonneg; intros; apply zocc_nonneg).
  lia.
Qed.

Lemma flat_map_map_same {A B} (f : A -> list B) (g : A -> A) l : (forall k, f (g k) = f k) -> flat_map f (map g l) = flat_map f l.
Proof. intros H. induction l as [|k l IH]; cbn [map flat_map]; [reflexivity|]. rewrite H, IH. reflexivity. Qed.
Lemma sumK_map_same f (g : kont -> kont) l : (forall k, f (g k) = f k) -> sumK f (map g l) = sumK f l.
Proof. intros H. induction l as [|k l IH]; cbn [map sumK]; [reflexivity|]. rewrite H, IH. reflexivity. Qed.
Lemma cancel_kont_proj t k :
  kont_res (cancel_kont t k) = kont_res k /\ kont_limbo (cancel_kont t k) = kont_limbo k /\
  forall j, kont_pipe j (cancel_kont t k) = kont_pipe j k.
Proof. destruct k; cbn; repeat split; try reflexivity; destruct (_ =? _)%N; reflexivity. Qed.
Lemma find_waiting_In t bs b : find_waiting t bs = Some b -> In b bs.
Proof.
  induction bs as [|x r IH]; cbn [find_waiting]; [discriminate|].
  destruct (has_wacq t (b_waiters x)); [intros H; inversion H; left; reflexivity|intros H; right; auto].
Qed.
Lemma wres_mark_done t ws : flat_map wk_res (mark_done t ws) = flat_map wk_res ws.
Proof.
  induction ws as [|[t' [|acc|]] r IH]; cbn [mark_done flat_map]; try reflexivity.
  - destruct (t' =? t)%N; cbn [flat_map]; [reflexivity|]. rewrite IH. reflexivity.
  - rewrite IH. reflexivity.
  - rewrite IH. reflexivity.
Qed.

Lemma wres_remove_done t ws : flat_map wk_res (remove_done t ws) = flat_map wk_res ws.
Proof.
  induction ws as [|[t' [|acc|]] r IH]; cbn [remove_done flat_map]; try reflexivity.
  - rewrite IH. reflexivity.
  - rewrite IH. reflexivity.
  - destruct (t' =? t)%N; cbn [flat_map]; [reflexivity|]. rewrite IH. reflexivity.
Qed.
Lemma Own_acquire_cancelled t i late h hl hp s : Own h hl hp s -> Own h hl hp (acquire_cancelled t i late s).
Proof.
  intros O. unfold acquire_cancelled. apply Own_emit, Own_set_nacq.
  set (s2 := if late then _ else _).
  assert (O2 : Own h hl hp s2).
  { subst s2. destruct late; [destruct (b_stack _); [exact O|apply Own_wakeup_next, O]|].
    apply Own_upd_same with (i := i); [exact O|]. unfold blk_same, wres. bsimp. repeat split; try reflexivity.
    apply wres_remove_done. }
  apply Own_upd_same with (i := i); [exact O2|unfold blk_same; bsimp; repeat split; reflexivity].
Qed.

Lemma step_Own s e o s' : OwnI s -> step s e o = Some s' -> OwnI s'.
Proof.
  unfold OwnI. intros O St.
  assert (O0 : Own [] [] [] (set_outs [] s)) by (apply Own_set_outs, O).
  destruct e; cbn [step] in St.
  - (* EAcquire *)
    destruct (_ =? _)%N; inversion St; subst. unfold push.
    eapply Own_append; [eapply Own_same; [|exact O0]; sameO_tac| | |]; intros; cbn; rewrite ?zoccP_nil, ?zocc_nil, ?zoccB_nil; lia.
  - destruct (_ =? _)%N; inversion St; subst. unfold push.
    eapply Own_append; [eapply Own_same; [|exact O0]; sameO_tac| | |]; intros; cbn; rewrite ?zoccP_nil, ?zocc_nil, ?zoccB_nil; lia.
  - inversion St; subst. apply Own_release, O0.
  - (* EConnOk *)
    destruct (alookup cid _) as [i|] eqn:El; inversion St; subst; clear St. cbn in El.
    destruct O as [o1 o2 o3 o4 o5 o6 o7 o8 o10 o11].
    split; unfold limbo, npipe, push in *;
      cbn [blocks ready infl_conn infl_disc g_open g_held next_conn next_bid set_ready set_outs set_g_conndb set_g_open set_next_conn set_infl_conn]; auto.
    + intros j c. specialize (o1 j c). unfold kres in *. rewrite flat_map_app, zoccP_app. cbn. rewrite ?zoccP_nil in *. lia.
    + intros c. specialize (o2 c). rewrite flat_map_app, !zocc_app in *. cbn [flat_map kont_limbo app]. rewrite !zocc_cons, !zocc_nil in *. lia.
    + constructor; [|exact o3]. intros Hin. specialize (o4 _ Hin). lia.
    + intros c [<-|Hin]; [lia|]. specialize (o4 _ Hin). lia.
    + intros j. specialize (o10 j). rewrite sumK_app, (sumL_aremove _ _ _ _ El). cbn [sumK kont_pipe snd]. lia.
  - (* EConnFail *)
    destruct (alookup cid _) as [i|] eqn:El; inversion St; subst; clear St. cbn in El.
    destruct O as [o1 o2 o3 o4 o5 o6 o7 o8 o10 o11].
    split; unfold limbo, npipe, push in *;
      cbn [blocks ready infl_conn infl_disc g_open g_held next_conn next_bid set_ready set_outs set_infl_conn]; auto.
    + intros j c. specialize (o1 j c). unfold kres in *. rewrite flat_map_app, zoccP_app. cbn. rewrite ?zoccP_nil in *. lia.
    + intros c. specialize (o2 c). rewrite flat_map_app, !zocc_app in *. cbn [flat_map kont_limbo app]. rewrite !zocc_nil in *. lia.
    + intros j. specialize (o10 j). rewrite sumK_app, (sumL_aremove _ _ _ _ El). cbn [sumK kont_pipe snd]. lia.
  - (* EDiscOk *)
    destruct (alookup did _) as [[c a]|] eqn:El; inversion St; subst; clear St. cbn in El.
    pose proof (Own_discs_open _ O _ _ _ El) as Hin.
    destruct O as [o1 o2 o3 o4 o5 o6 o7 o8 o10 o11].
    split; unfold limbo, npipe, push in *;
      cbn [blocks ready infl_conn infl_disc g_open g_held next_conn next_bid set_ready set_outs set_g_open set_infl_disc]; auto.
    + intros j c0. specialize (o1 j c0). unfold kres in *. rewrite flat_map_app, zoccP_app. cbn. rewrite ?zoccP_nil in *. lia.
    + intros c0. specialize (o2 c0). rewrite flat_map_app, !zocc_app in *. cbn [flat_map kont_limbo app].
      rewrite (zocc_aremove_snd _ _ _ _ c0 El), (zocc_remove1 _ _ c0 Hin), !zocc_nil in *. lia.
    + apply NoDup_remove1, o3.
    + intros c0 H0. apply o4. eapply In_remove1; eauto.
    + intros j. specialize (o10 j). rewrite sumK_app, (sumL_aremove _ _ _ _ El). cbn [sumK kont_pipe snd]. destruct a; lia.
  - (* EDiscFail *)
    destruct (alookup did _) as [[c a]|] eqn:El; inversion St; subst; clear St. cbn in El.
    pose proof (Own_discs_open _ O _ _ _ El) as Hin.
    destruct O as [o1 o2 o3 o4 o5 o6 o7 o8 o10 o11].
    split; unfold limbo, npipe, push in *;
      cbn [blocks ready infl_conn infl_disc g_open g_held next_conn next_bid set_ready set_outs set_g_open set_infl_disc]; auto.
    + intros j c0. specialize (o1 j c0). unfold kres in *. rewrite flat_map_app, zoccP_app. cbn. rewrite ?zoccP_nil in *. lia.
    + intros c0. specialize (o2 c0). rewrite flat_map_app, !zocc_app in *. cbn [flat_map kont_limbo app].
      rewrite (zocc_aremove_snd _ _ _ _ c0 El), (zocc_remove1 _ _ c0 Hin), !zocc_nil in *. lia.
    + apply NoDup_remove1, o3.
    + intros c0 H0. apply o4. eapply In_remove1; eauto.
    + intros j. specialize (o10 j). rewrite sumK_app, (sumL_aremove _ _ _ _ El). cbn [sumK kont_pipe snd]. destruct a; lia.
  - destruct (tick_armed _); inversion St; subst. apply Own_tick, O0.
  - destruct (_ <? _); inversion St; subst. apply Own_run_gc, O0.
  - (* ECancel *)
    unfold cancel in St. cbn [ready blocks set_outs] in St.
    destruct (existsb (is_task t) (ready s)).
    + inversion St; subst; clear St.
      destruct O as [o1 o2 o3 o4 o5 o6 o7 o8 o10 o11].
      split; unfold limbo, npipe, kres in *; cbn; auto.
      * intros j c. rewrite (flat_map_map_same kont_res); [apply o1|]. intros k; apply cancel_kont_proj.
      * intros c. rewrite (flat_map_map_same kont_limbo); [apply o2|]. intros k; apply cancel_kont_proj.
      * intros j. rewrite sumK_map_same; [apply o10|]. intros k; apply cancel_kont_proj.
    + destruct (find_waiting t (blocks s)) as [b|] eqn:Ef; [|discriminate]. inversion St; subst; clear St.
      unfold push. eapply Own_append with (h := []) (hl := []) (hp := []).
      * eapply Own_upd_same_In; [exact O0|exact (find_waiting_In _ _ _ Ef)|].
        unfold blk_same, wres. bsimp. repeat split; try reflexivity. apply wres_mark_done.
      * intros p. cbn. rewrite zoccP_nil. lia.
      * intros c. cbn. rewrite zocc_nil. lia.
      * intros j. cbn. rewrite zoccB_nil. lia.
  - (* ERun *)
    cbn in St. destruct (ready s) as [|k r] eqn:Er; inversion St; subst; clear St.
    pose proof (Own_pop _ _ _ O Er) as Op.
    destruct k as [t d|t i ok|i|cid i res nodb|f c to|i c p br|did c a ok|t d|t i acc ok|t|t|t|t i late];
      cbn [run_kont kont_res kont_limbo kont_promise] in *.
    + apply Own_acquire_start, Op.
    + apply Own_acquire_wake, Op.
    + apply Own_call_connect, Op.
    + destruct res as [c|]; [apply Own_connect_wake_ok|apply Own_connect_wake_fail]; exact Op.
    + apply (Own_call_disconnect [] [] [] c (ADTransfer to)), Op.
    + apply Own_discard_start, Op.
    + apply Own_disconnect_wake. destruct a; exact Op.
    + apply Own_prune_start, Op.
    + apply Own_prune_wake. rewrite app_nil_r. exact Op.
    + apply Own_gather_cb, Op.
    + apply Own_emit, Op.
    + apply Own_emit, Op.
    + apply Own_acquire_cancelled, Op.
Qed.

Lemma Own_init mx : OwnI (init mx).
Proof.
  split; unfold limbo, npipe; cbn; intros; rewrite ?zoccP_nil, ?zocc_nil, ?zoccB_nil; try lia; try constructor; try tauto.
Qed.

(* ------------------------------------------------------------------ the configured maximum never changes *)
Lemma step_maxc s e o s' : step s e o = Some s' -> s'.(maxc) = s.(maxc).
Proof.
  intros St.
  assert (K0 : keepA s (set_outs [] s)) by (eapply sameA_keepA; [|apply keepA_refl]; sameA_tac).
  destruct e; cbn [step] in St.
  - destruct (_ =? _)%N; inversion St; subst. reflexivity.
  - destruct (_ =? _)%N; inversion St; subst. reflexivity.
  - inversion St; subst; clear St. unfold release.
    destruct (find_db d _) as [b|]; [|reflexivity].
    destruct (alookup c (b_conns b)) as [[|]|]; try reflexivity.
    set (s1 := maybe_sched_tick _).
    assert (K1 : keepA s s1) by (apply kA_maybe_sched_tick, kA_set_g_held, kA_upd, K0).
    destruct (if should_free o (b_id b) s1 then maybe_free (b_id b) c s1 else (s1, false)) as [s2 moved] eqn:Em.
    assert (K2 : keepA s s2).
    { destruct (should_free o (b_id b) s1); [eapply kA_maybe_free; eauto|inversion Em; subst; exact K1]. }
    destruct moved; [apply (kA_maxc _ _ K2)|].
    destruct discard; [|apply (kA_maxc _ _ (kA_release_unused _ _ _ _ K2))].
    pose proof (sched_new_conn_fields (b_id b) (sched_discard (b_id b) c None true s2)) as (f1 & _).
    cbn zeta in f1. rewrite f1. cbn. apply (kA_maxc _ _ K2).
  - destruct (alookup cid _); inversion St; subst. reflexivity.
  - destruct (alookup cid _); inversion St; subst. reflexivity.
  - destruct (alookup did _) as [[c a]|]; inversion St; subst. reflexivity.
  - destruct (alookup did _) as [[c a]|]; inversion St; subst. reflexivity.
  - destruct (tick_armed _); inversion St; subst. apply (kA_maxc _ _ (kA_tick o _ _ K0)).
  - destruct (_ <? _); inversion St; subst. apply (kA_maxc _ _ (kA_run_gc o _ _ K0)).
  - unfold cancel in St. destruct (existsb _ _); [inversion St; subst; reflexivity|].
    destruct (find_waiting _ _); inversion St; subst; reflexivity.
  - cbn in St. destruct (ready s) as [|k r] eqn:Er; inversion St; subst; clear St.
    set (s0 := set_ready r (set_outs [] s)).
    assert (R : forall x, keepA s0 x -> maxc x = maxc s) by (intros x K; rewrite (kA_maxc _ _ K); reflexivity).
    destruct k as [t d|t i ok|i|cid i res nodb|f c to|i c p br|did c a ok|t d|t i acc ok|t|t|t|t i late]; cbn [run_kont].
    + apply R, kA_acquire_start, keepA_refl.
    + apply R, kA_acquire_wake, keepA_refl.
    + reflexivity.
    + destruct res as [c|]; unfold connect_wake.
      * apply R, kA_block_release, kA_upd, keepA_refl.
      * cbn [maxc upd set_blocks].
        match goal with |- maxc (if ?x then _ else _) = _ => destruct x end.
        -- rewrite (kA_maxc _ _ (kA_abort_waiters _ i _ (keepA_refl _))). reflexivity.
        -- match goal with |- maxc (sched_new_conn ?i ?x) = _ => pose proof (sched_new_conn_fields i x) as (f1 & _) end.
           cbn zeta in f1. rewrite f1. reflexivity.
    + reflexivity.
    + unfold discard_start. destruct (alookup c _) as [[|]|]; reflexivity.
    + unfold disconnect_wake. destruct a as [to|[t|] br]; reflexivity.
    + apply R, kA_prune_start, keepA_refl.
    + apply R, kA_prune_wake, keepA_refl.
    + apply R, kA_gather_cb, keepA_refl.
    + reflexivity.
    + reflexivity.
    + apply R, kA_acquire_cancelled, keepA_refl.
Qed.

(* ================================================================== reachable states *)
Inductive reach (mx : Z) : pool -> Prop :=
 | reach_init : reach mx (init mx)
 | reach_step s e o s' : reach mx s -> step s e o = Some s' -> reach mx s'.

Lemma run_reach mx : forall evs s s', reach mx s -> run s evs = Some s' -> reach mx s'.
Proof.
  induction evs as [|[e o] r IH]; intros s s' R E; cbn [run] in E.
  - inversion E; subst; exact R.
  - destruct (step s e o) as [s1|] eqn:St; [|discriminate]. eapply IH; [|exact E]. eapply reach_step; eauto.
Qed.

Definition Inv (mx : Z) (s : pool) : Prop := Inv1 s /\ OwnI s /\ s.(maxc) = mx.

Lemma reach_Inv mx s : 0 <= mx -> reach mx s -> Inv mx s.
Proof.
  intros Hm R. induction R as [|s e o s' R IH St].
  - split; [|split; [apply Own_init|reflexivity]].
    split; [|intros _]; unfold InvA, InvB, opening, lag, nbroken; cbn; rewrite ?cnt_nil; unfold zlen; cbn; lia.
  - destruct IH as (I1 & O & M). split; [|split].
    + eapply step_Inv1; [apply Own_discs_open, O|exact I1|exact St].
    + eapply step_Own; eauto.
    + rewrite (step_maxc _ _ _ _ St). exact M.
Qed.

(* ---- C15: capacity *)
Lemma p_capacity mx s : 0 <= mx -> reach mx s ->
  zlen s.(g_open) - nbroken s + opening s <= mx.
Proof.
  intros Hm R. destruct (reach_Inv _ _ Hm R) as ((A & B) & O & M).
  specialize (B (own_err _ _ _ _ O)). unfold InvA, InvB, lag in *. rewrite M in B.
  assert (cnt is_bwake (ready s) <= cnt is_dwake (ready s)).
  { apply cnt_le. intros k. destruct k; cbn; congruence. }
  pose proof (cnt_nonneg is_cfail (ready s)). lia.
Qed.

(* ---- C15: the reported usage *)
Lemma p_usage mx s : 0 <= mx -> reach mx s -> s.(cur) = zlen s.(g_open) + opening s + lag s.
Proof. intros Hm R. destruct (reach_Inv _ _ Hm R) as ((A & _) & _). exact A. Qed.
Lemma p_usage_quiescent mx s : 0 <= mx -> reach mx s -> s.(ready) = [] ->
  s.(cur) = zlen s.(g_open) + zlen s.(infl_conn).
Proof.
  intros Hm R E. rewrite (p_usage _ _ Hm R). unfold opening, lag. rewrite E, !cnt_nil. lia.
Qed.

(* ---- C15: no assertion of the pool about the state of a connection ever fires *)
Lemma p_no_assert mx s : 0 <= mx -> reach mx s -> s.(err) = false.
Proof. intros Hm R. destruct (reach_Inv _ _ Hm R) as (_ & O & _). exact (own_err _ _ _ _ O). Qed.

(* ---- per-block consequences of the ownership invariant *)
Lemma own_block_facts s b c : OwnI s -> In b s.(blocks) ->
  zocc c b.(b_stack) + zocc c (inuse_keys b) + zocc c (wres b) <= zocc c (keys b) /\
  zocc c (keys b) + zocc c (limbo s) <= zocc c s.(g_open) /\ zocc c s.(g_open) <= 1.
Proof.
  intros O Hb.
  pose proof (own_blk _ _ _ _ O (b_id b) c) as B.
  rewrite (sumZ_at_unique (b_id b) (slack c) _ b (own_ids _ _ _ _ O) Hb eq_refl), zoccP_nil, slack_unfold in B.
  pose proof (zoccP_nonneg (b_id b, c) (kres (ready s))).
  pose proof (own_open _ _ _ _ O c) as Op. rewrite zocc_nil in Op.
  pose proof (sumZ_In_le (fun b => zocc c (keys b)) (blocks s) b (fun b _ => zocc_nonneg c _) Hb) as K. cbn beta in K.
  assert (G1 : zocc c (g_open s) <= 1)
    by (unfold zocc; pose proof (proj1 (occ_NoDup Ndec _) (own_nodup _ _ _ _ O) c); lia).
  pose proof (zocc_nonneg c (limbo s)). repeat split; lia.
Qed.

Lemma zocc_NoDup l : (forall c, zocc c l <= 1) -> NoDup l.
Proof. intros H. apply (occ_NoDup Ndec). intros x. specialize (H x). unfold zocc in H. lia. Qed.
Lemma zocc_notin c l : zocc c l = 0 -> ~ In c l.
Proof. intros H Hin. apply zocc_In in Hin. lia. Qed.

(* ---- C15: the idle stack *)
Lemma p_stack_sound mx s b : 0 <= mx -> reach mx s -> In b s.(blocks) ->
  NoDup b.(b_stack) /\
  forall c, In c b.(b_stack) -> alookup c b.(b_conns) = Some false /\ In c s.(g_open) /\ ~ In c (limbo s).
Proof.
  intros Hm R Hb. destruct (reach_Inv _ _ Hm R) as (_ & O & _). split.
  - apply zocc_NoDup. intros c. destruct (own_block_facts s b c O Hb) as (F1 & F2 & F3).
    pose proof (zocc_nonneg c (inuse_keys b)). pose proof (zocc_nonneg c (wres b)). pose proof (zocc_nonneg c (limbo s)). lia.
  - intros c Hc. apply zocc_In in Hc. destruct (own_block_facts s b c O Hb) as (F1 & F2 & F3).
    pose proof (zocc_nonneg c (inuse_keys b)). pose proof (zocc_nonneg c (wres b)). pose proof (zocc_nonneg c (limbo s)).
    repeat split.
    + apply alookup_keys; unfold keys, inuse_keys, zocc in *; lia.
    + apply zocc_In. lia.
    + apply zocc_notin. lia.
Qed.

(* ---- C15: a connection is lent to at most one holder, is open and in_use in exactly one block,
        not on any stack, not being closed *)
Lemma inuse_le_keys c cs : zocc c (inuse_l cs) <= zocc c (map fst cs).
Proof.
  unfold inuse_l. induction cs as [|[k v] cs IH]; cbn [filter snd map fst]; [lia|].
  destruct v; cbn [map fst]; rewrite ?zocc_cons; destruct (Ndec k c); lia.
Qed.
Lemma inuse_lookup c cs : 1 <= zocc c (inuse_l cs) -> zocc c (map fst cs) <= 1 -> alookup c cs = Some true.
Proof.
  induction cs as [|[k v] cs IH]; [unfold inuse_l; cbn; rewrite zocc_nil; lia|].
  cbn [alookup map fst]. rewrite zocc_cons. intros H1 H2.
  pose proof (inuse_le_keys c cs) as L.
  destruct (c =? k)%N eqn:E.
  - apply N.eqb_eq in E; subst. destruct (Ndec k k); [|contradiction].
    destruct v; [reflexivity|]. unfold inuse_l in *. cbn [filter snd] in H1. lia.
  - apply N.eqb_neq in E. destruct (Ndec k c); [subst; contradiction|].
    apply IH; [|lia]. unfold inuse_l in *. cbn [filter snd] in H1. destruct v; [|exact H1].
    cbn [map fst] in H1. rewrite zocc_cons in H1. destruct (Ndec k c); [contradiction|lia].
Qed.

Lemma sumZ_le w1 w2 bs : (forall b, w1 b <= w2 b) -> sumZ w1 bs <= sumZ w2 bs.
Proof. intros H. induction bs as [|b r IH]; cbn [sumZ]; [lia|]. specialize (H b). lia. Qed.
Lemma sumZ_unique_pos w bs b b' :
  (forall x, 0 <= w x) -> In b bs -> In b' bs -> 1 <= w b -> 1 <= w b' -> sumZ w bs <= 1 -> b' = b.
Proof.
  intros Hn. induction bs as [|b0 r IH]; intros Hb Hb' W W' S; [destruct Hb|].
  cbn [sumZ] in S. assert (0 <= sumZ w r) by (apply sumZ_nonneg; intros; apply Hn).
  pose proof (Hn b0).
  destruct Hb as [->|Hb], Hb' as [->|Hb']; auto.
  - pose proof (sumZ_In_le w r b' (fun x _ => Hn x) Hb'). lia.
  - pose proof (sumZ_In_le w r b (fun x _ => Hn x) Hb). lia.
  - apply IH; auto. lia.
Qed.
Lemma sumZ_pos_In w bs : (forall b, In b bs -> 0 <= w b) -> 1 <= sumZ w bs -> exists b, In b bs /\ 1 <= w b.
Proof.
  induction bs as [|b r IH]; cbn [sumZ]; intros Hn H; [lia|].
  destruct (Z_le_gt_dec 1 (w b)) as [L|G]; [exists b; split; [left; reflexivity|exact L]|].
  pose proof (Hn b (or_introl eq_refl)).
  destruct IH as (b' & Hb' & Hw); [intros; apply Hn; right; assumption|lia|].
  exists b'. split; [right|]; assumption.
Qed.

Lemma p_single_lender mx s : 0 <= mx -> reach mx s ->
  NoDup (map fst s.(g_held)) /\
  forall c t d, In (c, (t, d)) s.(g_held) ->
    In c s.(g_open) /\ ~ In c (limbo s) /\
    exists b, In b s.(blocks) /\ alookup c b.(b_conns) = Some true /\ ~ In c b.(b_stack) /\
              forall b', In b' s.(blocks) -> In c (keys b') -> b' = b.
Proof.
  intros Hm R. destruct (reach_Inv _ _ Hm R) as (_ & O & _).
  assert (KS : forall c, sumZ (fun b => zocc c (keys b)) (blocks s) + zocc c (limbo s) <= zocc c (g_open s) /\ zocc c (g_open s) <= 1).
  { intros c. pose proof (own_open _ _ _ _ O c) as Op. rewrite zocc_nil in Op. split; [lia|].
    unfold zocc; pose proof (proj1 (occ_NoDup Ndec _) (own_nodup _ _ _ _ O) c); lia. }
  assert (IK : forall c, sumZ (fun b => zocc c (inuse_keys b)) (blocks s) <= sumZ (fun b => zocc c (keys b)) (blocks s)).
  { intros c. apply sumZ_le. intros b. exact (inuse_le_keys c (b_conns b)). }
  split.
  - apply zocc_NoDup. intros c. rewrite (own_held _ _ _ _ O c). destruct (KS c). specialize (IK c).
    pose proof (zocc_nonneg c (limbo s)). lia.
  - intros c t d Hin.
    assert (H1 : 1 <= zocc c (map fst (g_held s))) by (apply zocc_In; apply (in_map fst) in Hin; exact Hin).
    rewrite (own_held _ _ _ _ O c) in H1.
    destruct (sumZ_pos_In _ _ (fun b _ => zocc_nonneg c (inuse_keys b)) H1) as (b & Hb & Hw).
    destruct (own_block_facts s b c O Hb) as (F1 & F2 & F3).
    destruct (KS c) as [K1 K2]. specialize (IK c).
    pose proof (zocc_nonneg c (limbo s)). pose proof (zocc_nonneg c (b_stack b)). pose proof (zocc_nonneg c (wres b)).
    repeat split.
    + apply zocc_In. lia.
    + apply zocc_notin. lia.
    + exists b. repeat split; [exact Hb| | |].
      * apply inuse_lookup; [exact Hw|unfold keys in *; lia].
      * apply zocc_notin. lia.
      * intros b' Hb' Hk. apply zocc_In in Hk.
        apply (sumZ_unique_pos (fun b => zocc c (keys b)) (blocks s)); auto.
        -- intros; apply zocc_nonneg.
        -- cbn beta. pose proof (zocc_nonneg c (b_stack b)). lia.
        -- lia.
Qed.

(* ---- C15: the connections handed back as broken that the capacity bound discounts are
        distinct open connections *)
Definition kont_broken (k : kont) : list (bid * conn) :=
  match k with KDiscStart i c _ true => [(i, c)] | _ => [] end.
Definition infl_broken (e : N * (conn * after_disc)) : list conn :=
  match snd (snd e) with ADDiscard _ true => [fst (snd e)] | _ => [] end.
Definition broken_conns (s : pool) : list conn :=
  map snd (flat_map kont_broken s.(ready)) ++ flat_map infl_broken s.(infl_disc).

Lemma zlen_map {A B} (f : A -> B) l : zlen (map f l) = zlen l.
Proof. unfold zlen. rewrite map_length. reflexivity. Qed.
Lemma broken_conns_len s : zlen (broken_conns s) = nbroken s.
Proof.
  unfold broken_conns, nbroken. rewrite zlen_app, zlen_map. f_equal.
  - induction (ready s) as [|k r IH]; [reflexivity|]. cbn [flat_map]. rewrite zlen_app, cnt_cons, IH.
    destruct k as [t d|t i ok|i|cid i res nodb|f c0 to|i c0 p br|did c0 a ok|t d|t i acc ok|t|t|t|t i late]; cbn [kont_broken is_bstart b2z]; try destruct br; cbn [b2z]; rewrite ?zlen_cons, ?zlen_nil; lia.
  - induction (infl_disc s) as [|e r IH]; [reflexivity|]. cbn [flat_map filter]. rewrite zlen_app, IH.
    unfold infl_broken, is_binfl. destruct (snd (snd e)) as [to|p [|]]; rewrite ?zlen_cons, ?zlen_nil; lia.
Qed.

Lemma sumZ_id_one j bs : NoDup (map b_id bs) -> In j (map b_id bs) ->
  sumZ (fun b => b2z (bid_eqb j (b_id b))) bs = 1.
Proof.
  induction bs as [|b r IH]; cbn [map In sumZ]; [tauto|]. intros ND Hin. inversion ND; subst.
  destruct (bid_eqb j (b_id b)) eqn:E; cbn [b2z].
  - apply bid_eqb_eq in E; subst j.
    assert (sumZ (fun b0 => b2z (bid_eqb (b_id b) (b_id b0))) r = 0); [|lia].
    clear -H1. induction r as [|b1 r IH]; cbn [sumZ]; [reflexivity|].
    destruct (bid_eqb (b_id b) (b_id b1)) eqn:E1.
    + apply bid_eqb_eq in E1. exfalso. apply H1. rewrite E1. left; reflexivity.
    + cbn [b2z]. rewrite IH; [lia|]. intros Hin; apply H1; right; exact Hin.
  - apply bid_eqb_neq in E. destruct Hin as [Hin|Hin]; [congruence|]. rewrite (IH H2 Hin). lia.
Qed.

Lemma pairs_by_block c (l : list (bid * conn)) bs :
  NoDup (map b_id bs) -> (forall p, In p l -> In (fst p) (map b_id bs)) ->
  zocc c (map snd l) = sumZ (fun b => zoccP (b_id b, c) l) bs.
Proof.
  intros ND. induction l as [|[j c'] l IH]; intros Hall.
  - cbn [map]. rewrite zocc_nil. induction bs; cbn [sumZ]; [reflexivity|]. rewrite zoccP_nil.
    inversion ND; subst. rewrite <- IHbs; [lia|assumption|intros p []].
  - cbn [map snd]. rewrite zocc_cons, IH; [|intros p Hp; apply Hall; right; exact Hp].
    assert (Hj : In j (map b_id bs)) by (apply (Hall (j, c')); left; reflexivity).
    pose proof (sumZ_id_one j bs ND Hj) as One.
    assert (E : sumZ (fun b => zoccP (b_id b, c) ((j, c') :: l)) bs =
                (if Ndec c' c then 1 else 0) * sumZ (fun b => b2z (bid_eqb j (b_id b))) bs
                + sumZ (fun b => zoccP (b_id b, c) l) bs).
    { clear. induction bs as [|b r IHr]; cbn [sumZ]; [lia|]. rewrite IHr, zoccP_cons.
      destruct (pdec (j, c') (b_id b, c)) as [e|n], (Ndec c' c) as [e'|n'], (bid_eqb j (b_id b)) eqn:Eb; cbn [b2z]; try lia.
      - inversion e. subst. rewrite bid_eqb_refl in Eb. discriminate.
      - inversion e. contradiction.
      - inversion e. contradiction.
      - apply bid_eqb_eq in Eb. subst. contradiction. }
    rewrite E, One. lia.
Qed.

Lemma infl_broken_le c l :
  zocc c (flat_map infl_broken l) <= zocc c (map (fun e : N * (N * after_disc) => fst (snd e)) l).
Proof.
  induction l as [|e r IH]; cbn [flat_map map]; [lia|]. rewrite zocc_app, zocc_cons.
  unfold infl_broken at 1. destruct (snd (snd e)) as [to|p [|]]; rewrite ?zocc_cons, ?zocc_nil; destruct (Ndec (fst (snd e)) c); lia.
Qed.
Lemma kont_broken_le p l : zoccP p (flat_map kont_broken l) <= zoccP p (kres l).
Proof.
  unfold kres. induction l as [|k r IH]; cbn [flat_map]; [lia|].
  rewrite !zoccP_app. assert (zoccP p (kont_broken k) <= zoccP p (kont_res k)); [|lia].
  destruct k as [t d|t i ok|i|cid i res nodb|f c0 to|i c0 p0 br|did c0 a ok|t d|t i acc ok|t|t|t|t i late]; cbn [kont_broken kont_res]; rewrite ?zoccP_nil; try apply zoccP_nonneg; try lia.
  destruct br; rewrite ?zoccP_nil; [lia|apply zoccP_nonneg].
Qed.
Lemma p_broken_are_open mx s : 0 <= mx -> reach mx s ->
  zlen (broken_conns s) = nbroken s /\ NoDup (broken_conns s) /\ incl (broken_conns s) s.(g_open).
Proof.
  intros Hm R. destruct (reach_Inv _ _ Hm R) as (_ & O & _).
  split; [apply broken_conns_len|].
  assert (Sub : forall c, zocc c (broken_conns s) <= zocc c (g_open s)).
  { intros c. unfold broken_conns. rewrite zocc_app.
    pose proof (own_open _ _ _ _ O c) as Op. unfold limbo in Op. rewrite zocc_app, zocc_nil in Op.
    pose proof (zocc_nonneg c (flat_map kont_limbo (ready s))).
    pose proof (infl_broken_le c (infl_disc s)) as I.
    assert (K : zocc c (map snd (flat_map kont_broken (ready s))) <= sumZ (fun b => zocc c (keys b)) (blocks s)).
    { set (l := flat_map kont_broken (ready s)).
      assert (Le : forall p, zoccP p l <= zoccP p (kres (ready s))) by (intros p; apply kont_broken_le).
      assert (Bd : forall j c0, zoccP (j, c0) l <= sumZ (at_id j (fun b => zocc c0 (keys b))) (blocks s)).
      { intros j c0. specialize (Le (j, c0)). pose proof (own_blk _ _ _ _ O j c0) as B. rewrite zoccP_nil in B.
        assert (sumZ (at_id j (slack c0)) (blocks s) <= sumZ (at_id j (fun b => zocc c0 (keys b))) (blocks s)); [|lia].
        apply sumZ_le. intros b. unfold at_id. destruct (bid_eqb j (b_id b)); [|lia]. rewrite slack_unfold.
        pose proof (zocc_nonneg c0 (b_stack b)). pose proof (zocc_nonneg c0 (inuse_keys b)). pose proof (zocc_nonneg c0 (wres b)). lia. }
      rewrite (pairs_by_block c l (blocks s) (own_ids _ _ _ _ O)).
      - assert (forall bs', (forall b, In b bs' -> In b (blocks s)) ->
                  sumZ (fun b => zoccP (b_id b, c) l) bs' <= sumZ (fun b => zocc c (keys b)) bs').
        { induction bs' as [|b r IH]; intros Hs; cbn [sumZ]; [lia|].
          assert (Hb : In b (blocks s)) by (apply Hs; left; reflexivity).
          specialize (Bd (b_id b) c). rewrite (sumZ_at_unique (b_id b) _ _ b (own_ids _ _ _ _ O) Hb eq_refl) in Bd.
          cbn beta in Bd. specialize (IH (fun x Hx => Hs x (or_intror Hx))). lia. }
        apply H0. auto.
      - intros [j c0] Hp. cbn [fst].
        assert (1 <= zoccP (j, c0) l) by (unfold zoccP; apply (occ_In pdec) in Hp; lia).
        specialize (Bd j c0). apply live_iff_In. unfold live. intros Ef.
        rewrite sumZ_at_none in Bd; [lia|]. apply find_bid_none. exact Ef. }
    lia. }
  split.
  - apply zocc_NoDup. intros c. specialize (Sub c).
    pose proof (proj1 (occ_NoDup Ndec _) (own_nodup _ _ _ _ O) c). unfold zocc in *. lia.
  - intros c Hc. apply zocc_In in Hc. apply zocc_In. specialize (Sub c). lia.
Qed.

(* ================================================================== which database a connection belongs to *)
Definition is_wsome (k : kont) : bool := match k with KConnWake _ _ (Some _) _ => true | _ => false end.
Record dk (s s' : pool) : Prop := mkDk {
  dk_db : s'.(g_conndb) = s.(g_conndb);
  dk_keys : forall b', In b' s'.(blocks) -> forall c, In c (keys b') ->
            exists b, In b s.(blocks) /\ b.(b_id) = b'.(b_id) /\ In c (keys b);
  dk_held : forall c t d, In (c, (t, d)) s'.(g_held) ->
            In (c, (t, d)) s.(g_held) \/ exists b, In b s.(blocks) /\ b_db b = d /\ In c (keys b);
  dk_wake : forall k, In k s'.(ready) -> is_wsome k = true -> In k s.(ready) }.

Lemma dk_refl s : dk s s.
Proof. split; auto. intros b' Hb c Hc. exists b'. auto. Qed.
Lemma dk_trans s1 s2 s3 : dk s1 s2 -> dk s2 s3 -> dk s1 s3.
Proof.
  intros [a1 a2 a3 a4] [b1 b2 b3 b4]. split.
  - congruence.
  - intros b' Hb c Hc. destruct (b2 b' Hb c Hc) as (b & Hb2 & E & Hc2).
    destruct (a2 b Hb2 c Hc2) as (b0 & Hb0 & E0 & Hc0). exists b0. repeat split; auto. congruence.
  - intros c t d H. destruct (b3 c t d H) as [H2|(b & Hb & Ed & Hc)]; [auto|].
    right. destruct (a2 b Hb c Hc) as (b0 & Hb0 & E0 & Hc0). exists b0. repeat split; auto.
    unfold b_db in *. congruence.
  - auto.
Qed.

(* the step forms *)
Lemma dk_eq s0 s s' :
  s'.(g_conndb) = s.(g_conndb) -> s'.(blocks) = s.(blocks) -> s'.(g_held) = s.(g_held) -> s'.(ready) = s.(ready) ->
  dk s0 s -> dk s0 s'.
Proof. intros e1 e2 e3 e4 [a1 a2 a3 a4]. split; rewrite ?e1, ?e2, ?e3, ?e4; auto. Qed.
Ltac dk_eq_tac := apply dk_eq; reflexivity.

Lemma dk_blocks s0 bs s : (forall b, In b bs -> In b s.(blocks) \/ keys b = []) -> dk s0 s -> dk s0 (set_blocks bs s).
Proof.
  intros H [a1 a2 a3 a4]. split; cbn; auto.
  intros b' Hb c Hc. destruct (H b' Hb) as [Hin|E]; [apply (a2 b' Hin c Hc)|rewrite E in Hc; destruct Hc].
Qed.
Lemma dk_upd_gen s0 b' s :
  (forall c, In c (keys b') -> exists b, In b s.(blocks) /\ b.(b_id) = b'.(b_id) /\ In c (keys b)) ->
  dk s0 s -> dk s0 (upd b' s).
Proof.
  intros H [a1 a2 a3 a4]. split; unfold upd; cbn; auto.
  intros b'' Hb c Hc. apply In_upd_blk in Hb as [->|Hb]; [|apply (a2 b'' Hb c Hc)].
  destruct (H c Hc) as (b & Hb & E & Hcb).
  destruct (a2 b Hb c Hcb) as (b0 & Hb0 & E0 & Hc0). exists b0. repeat split; auto. congruence.
Qed.
Lemma dk_upd s0 b' s :
  (forall c, In c (keys b') -> In c (keys (get_blk b'.(b_id) s))) -> dk s0 s -> dk s0 (upd b' s).
Proof.
  intros H. apply dk_upd_gen. intros c Hc. specialize (H c Hc). unfold get_blk in H.
  destruct (find_bid (b_id b') (blocks s)) as [b|] eqn:Ef; [|destruct H].
  exists b. repeat split; [eapply find_bid_In|eapply find_bid_id|]; eauto.
Qed.
Lemma dk_append s0 ks s : forallb (fun k => negb (is_wsome k)) ks = true -> dk s0 s -> dk s0 (set_ready (s.(ready) ++ ks) s).
Proof.
  intros H [a1 a2 a3 a4]. split; cbn; auto.
  intros k Hk W. apply in_app_iff in Hk as [Hk|Hk]; [auto|].
  rewrite forallb_forall in H. specialize (H k Hk). rewrite W in H. discriminate.
Qed.
Lemma dk_push s0 k s : is_wsome k = false -> dk s0 s -> dk s0 (push k s).
Proof. intros H. unfold push. apply dk_append. cbn. rewrite H. reflexivity. Qed.
Lemma dk_held_sub s0 h' s : incl h' s.(g_held) -> dk s0 s -> dk s0 (set_g_held h' s).
Proof. intros H [a1 a2 a3 a4]. split; cbn; auto. Qed.

Ltac same_keys := let Hc := fresh "Hc" in intros ? Hc; unfold keys in *; cbn [b_conns set_b_conns set_b_stack set_b_waiters set_b_pending set_b_nwait set_b_quota set_b_supp set_b_fails set_b_acq] in Hc; exact Hc.
Lemma wsome_wake i w ok : is_wsome (wake_kont i w ok) = false.
Proof. unfold wake_kont. destruct (snd w); reflexivity. Qed.

Lemma dk_wakeup_next s0 i s : dk s0 s -> dk s0 (wakeup_next i s).
Proof.
  intros K. unfold wakeup_next. destruct (drop_done (b_waiters (get_blk i s))).
  - apply dk_upd; [bsimp; rewrite get_blk_id; same_keys|exact K].
  - apply dk_push; [apply wsome_wake|]. apply dk_upd; [bsimp; rewrite get_blk_id; same_keys|exact K].
Qed.
Lemma dk_abort_waiters s0 i s : dk s0 s -> dk s0 (abort_waiters i s).
Proof.
  intros K. unfold abort_waiters.
  change (ready s) with (ready (upd (set_b_waiters [] (get_blk i s)) s)).
  apply dk_append; [|apply dk_upd; [bsimp; rewrite get_blk_id; same_keys|exact K]].
  induction (filter _ (b_waiters (get_blk i s))); cbn; [reflexivity|]. rewrite wsome_wake. assumption.
Qed.
Lemma dk_block_release s0 i c s : dk s0 s -> dk s0 (block_release i c s).
Proof. intros K. unfold block_release. apply dk_wakeup_next, dk_upd; [bsimp; rewrite get_blk_id; same_keys|exact K]. Qed.
Lemma dk_try_steal s0 i s r s' : try_steal i s = (r, s') -> dk s0 s -> dk s0 s'.
Proof.
  unfold try_steal. destruct (b_stack (get_blk i s)); intros E K; inversion E; subst; [exact K|].
  apply dk_upd; [bsimp; rewrite get_blk_id; same_keys|exact K].
Qed.
Lemma dk_perm_blocks s0 bs s : Permutation bs s.(blocks) -> dk s0 s -> dk s0 (set_blocks bs s).
Proof. intros P. apply dk_blocks. intros b Hb. left. eapply Permutation_in; eauto. Qed.
Lemma dk_sched_new_conn s0 i s : dk s0 s -> dk s0 (sched_new_conn i s).
Proof.
  intros K. unfold sched_new_conn. apply dk_push; [reflexivity|].
  assert (K1 : dk s0 (set_cur (cur s + 1) (upd (set_b_pending (b_pending (get_blk i s) + 1) (get_blk i s)) s))).
  { apply dk_eq with (s := upd (set_b_pending (b_pending (get_blk i s) + 1) (get_blk i s)) s); try reflexivity.
    apply dk_upd; [bsimp; rewrite get_blk_id; same_keys|exact K]. }
  match goal with |- dk _ (if ?x then _ else _) => destruct x end; [|exact K1].
  apply dk_perm_blocks; [apply move_end_perm|exact K1].
Qed.
Lemma In_keys_aremove c (cs : list (N * bool)) x : In x (map fst (aremove c cs)) -> In x (map fst cs).
Proof.
  induction cs as [|[k v] cs IH]; cbn [aremove map fst]; [tauto|].
  destruct (c =? k)%N; cbn [map fst In]; intros H; [right; exact H|]. destruct H; auto.
Qed.
Lemma dk_sched_transfer s0 f c t s : dk s0 s -> dk s0 (sched_transfer f c t s).
Proof.
  intros K. unfold sched_transfer. destruct (alookup _ _) as [[|]|].
  1,3: (apply dk_eq with (s := s); try reflexivity; exact K).
  apply dk_push; [reflexivity|].
  set (s1 := upd (set_b_conns _ _) s).
  assert (K1 : dk s0 s1).
  { subst s1. apply dk_upd; [|exact K]. bsimp. rewrite get_blk_id. intros x Hx. unfold keys in *.
    cbn [b_conns set_b_conns] in Hx. eapply In_keys_aremove; exact Hx. }
  set (s2 := upd _ s1).
  assert (K2 : dk s0 s2) by (subst s2; apply dk_upd; [bsimp; rewrite get_blk_id; same_keys|exact K1]).
  match goal with |- dk _ (if ?x then _ else _) => destruct x end; [|exact K2].
  apply dk_perm_blocks; [etransitivity; apply move_end_perm|exact K2].
Qed.
Lemma dk_sched_discard s0 i c p br s : dk s0 s -> dk s0 (sched_discard i c p br s).
Proof. intros K. unfold sched_discard. apply dk_push; [reflexivity|exact K]. Qed.
Lemma dk_maybe_sched_tick s0 s : dk s0 s -> dk s0 (maybe_sched_tick s).
Proof. intros K. unfold maybe_sched_tick. destruct (_ && _); [apply dk_eq with (s := s); try reflexivity|]; exact K. Qed.
Lemma dk_find_most_starving s0 s s' r : find_most_starving s = (s', r) -> dk s0 s -> dk s0 s'.
Proof.
  unfold find_most_starving. destruct (wl_pop _ _) as [wl o]. intros E K.
  destruct o; [|destruct (starve_revive _ _ _)]; inversion E; subst; (apply dk_eq with (s := s); try reflexivity; exact K).
Qed.
Lemma dk_maybe_free s0 f c s s' r : maybe_free f c s = (s', r) -> dk s0 s -> dk s0 s'.
Proof.
  unfold maybe_free. destruct (find_most_starving s) as [s1 to] eqn:E. intros E2 K.
  assert (K1 : dk s0 s1) by (eapply dk_find_most_starving; eauto).
  destruct to as [j|]; [destruct (bid_eqb j f)|]; inversion E2; subst; try exact K1.
  apply dk_sched_transfer, K1.
Qed.
Lemma dk_release_unused s0 i c s : dk s0 s -> dk s0 (release_unused i c s).
Proof.
  intros K. unfold release_unused.
  assert (K1 : dk s0 (block_release i c s)) by (apply dk_block_release, K).
  match goal with |- dk _ (if ?x then _ else _) => destruct x end;
    (eapply dk_eq; [| | | |exact K1]; reflexivity).
Qed.
Lemma dk_try_steal_conn o f l : forall s0 s s' r, try_steal_conn o f l s = (s', r) -> dk s0 s -> dk s0 s'.
Proof.
  induction l as [|i l IH]; intros s0 s s' r E K; cbn [try_steal_conn] in E.
  - inversion E; subst; exact K.
  - destruct (bid_eqb i f || negb (should_free o i s)); [eapply IH; eauto|].
    destruct (try_steal i s) as [[c|] s1] eqn:Es; [|eapply IH; eauto].
    inversion E; subst. apply dk_sched_transfer. eapply dk_try_steal; eauto.
Qed.
Lemma dk_try_shrink o i fuel : forall s0 s, dk s0 s -> dk s0 (try_shrink o i fuel s).
Proof.
  induction fuel as [|f IH]; intros s0 s K; cbn [try_shrink]; [exact K|].
  destruct (_ && _); [|exact K].
  destruct (try_steal i s) as [[c|] s1] eqn:Es; [|exact K].
  destruct (find_most_starving s1) as [s2 to] eqn:Ef.
  apply IH. assert (K2 : dk s0 s2) by (eapply dk_find_most_starving; [eauto|]; eapply dk_try_steal; eauto).
  destruct to; [apply dk_sched_transfer|apply dk_sched_discard]; exact K2.
Qed.
Lemma dk_grow i fuel : forall s0 s, dk s0 s -> dk s0 (grow i fuel s).
Proof.
  induction fuel as [|f IH]; intros s0 s K; cbn [grow]; [exact K|].
  destruct (_ && _); [|exact K]. apply IH, dk_sched_new_conn, K.
Qed.
Lemma dk_set_overq s0 v s : dk s0 s -> dk s0 (set_overq v s).
Proof. apply dk_eq; reflexivity. Qed.
Lemma dk_rebalance_one o i s0 s : dk s0 s -> dk s0 (rebalance_one o i s).
Proof.
  intros K. unfold rebalance_one.
  destruct (_ <? _); [|destruct (_ <? _); [apply dk_grow|]; exact K].
  match goal with |- dk _ (if ?x then _ else _) => destruct x end;
    [apply dk_set_overq|]; apply dk_try_shrink, K.
Qed.
Lemma dk_rebalance_loop o l : forall s0 s, dk s0 s -> dk s0 (rebalance_loop o l s).
Proof. induction l; intros; cbn [rebalance_loop]; [assumption|]. apply IHl, dk_rebalance_one; assumption. Qed.
Lemma dk_rebalance o s0 s : dk s0 s -> dk s0 (rebalance o s).
Proof.
  intros K. unfold rebalance. destruct (starving s); [exact K|].
  apply dk_set_overq, dk_rebalance_loop, dk_set_overq, K.
Qed.

Lemma alookup_In_keys_z c (cs : list (N * bool)) v : alookup c cs = Some v -> In c (map fst cs).
Proof. intros H. apply (occ_In Ndec). eapply alookup_In_keys; eauto. Qed.

Lemma dk_finish_acquire s0 t d c s : dk s0 s -> dk s0 (finish_acquire t d c s).
Proof.
  intros K. unfold finish_acquire.
  assert (K1 : dk s0 (set_nacq (nacq s - 1) s)) by (apply dk_eq with (s := s); try reflexivity; exact K).
  destruct (find_db d _) as [b|] eqn:Ed; [|apply dk_eq with (s := set_nacq (nacq s - 1) s); try reflexivity; exact K1].
  destruct (alookup c (b_conns b)) as [[|]|] eqn:El;
    try (apply dk_eq with (s := set_nacq (nacq s - 1) s); try reflexivity; exact K1).
  cbn [blocks set_nacq] in Ed. destruct (find_db_In _ _ _ Ed) as [Hb Edb].
  set (b' := set_b_acq _ _).
  assert (K2 : dk s0 (upd b' (set_nacq (nacq s - 1) s))).
  { apply dk_upd_gen; [|exact K1]. subst b'. bsimp. intros x Hx. unfold keys in *.
    cbn [b_conns set_b_conns set_b_acq] in Hx. rewrite keys_aset in Hx.
    exists b. repeat split; auto. }
  unfold emit.
  destruct K2 as [a1 a2 a3 a4]. split; cbn; auto.
  intros c0 t0 d0 [E|H]; [|apply (a3 c0 t0 d0 H)].
  inversion E; subst. right.
  destruct (dk_keys _ _ K b Hb c0 (alookup_In_keys_z _ _ _ El)) as (b0 & Hb0 & E0 & Hc0).
  exists b0. repeat split; auto. unfold b_db in *. congruence.
Qed.
Lemma dk_block_acquire s0 t i f s : dk s0 s -> dk s0 (block_acquire t i f s).
Proof.
  intros K. unfold block_acquire. destruct (split_last _) as [[r c]|].
  - apply dk_finish_acquire, dk_upd; [bsimp; rewrite get_blk_id; same_keys|exact K].
  - apply dk_upd; [bsimp; rewrite get_blk_id; same_keys|exact K].
Qed.
Lemma dk_get_block s0 d s i s' : get_block d s = (i, s') -> dk s0 s -> dk s0 s'.
Proof.
  unfold get_block. destruct (find_db d (blocks s)); intros E K; inversion E; subst; [exact K|].
  apply dk_eq with (s := set_blocks (if starving s then new_blk (d, next_bid s) :: blocks s else blocks s ++ [new_blk (d, next_bid s)]) s); try reflexivity.
  apply dk_blocks; [|exact K]. intros b Hb.
  destruct (starving s); [destruct Hb as [<-|Hb]|apply in_app_iff in Hb as [Hb|[<-|[]]]]; auto.
Qed.
Ltac dif := match goal with |- dk _ (if ?x then _ else _) => destruct x end.
Lemma dk_acquire_start o t d s0 s : dk s0 s -> dk s0 (acquire_start o t d s).
Proof.
  intros K. unfold acquire_start.
  destruct (get_block d _) as [i s1] eqn:Eg.
  assert (K1 : dk s0 s1).
  { eapply dk_get_block; [eauto|]. apply dk_maybe_sched_tick. apply dk_eq with (s := s); try reflexivity; exact K. }
  set (s2 := upd _ s1). assert (K2 : dk s0 s2) by (apply dk_upd; [bsimp; rewrite get_blk_id; same_keys|exact K1]).
  dif.
  - apply dk_block_acquire. dif; [dif|dif]; try exact K2; apply dk_sched_new_conn; assumption.
  - dif; [|dif].
    + destruct (try_steal_conn o i (overq s2) s2) as [s3 ok] eqn:Et.
      assert (K3 : dk s0 s3) by (eapply dk_try_steal_conn; eauto).
      apply dk_block_acquire. destruct ok; [|apply dk_eq with (s := s3); try reflexivity]; exact K3.
    + destruct (try_steal_conn o i (overq s2) s2) as [s3 ok] eqn:Et.
      apply dk_block_acquire. eapply dk_try_steal_conn; eauto.
    + apply dk_block_acquire, K2.
Qed.
Lemma dk_acquire_wake t i ok s0 s : dk s0 s -> dk s0 (acquire_wake t i ok s).
Proof.
  intros K. unfold acquire_wake. destruct ok.
  - destruct (split_last _) as [[r c]|].
    + apply dk_finish_acquire, dk_upd; [bsimp; rewrite get_blk_id; same_keys|exact K].
    + apply dk_block_acquire, dk_upd; [bsimp; rewrite get_blk_id; same_keys|exact K].
  - set (s2 := match b_stack (get_blk i s) with [] => s | _ :: _ => wakeup_next i s end).
    assert (K2 : dk s0 s2) by (subst s2; destruct (b_stack _); [exact K|apply dk_wakeup_next, K]).
    apply dk_eq with (s := upd (set_b_nwait (b_nwait (get_blk i s2) - 1) (get_blk i s2)) s2); try reflexivity.
    apply dk_upd; [bsimp; rewrite get_blk_id; same_keys|exact K2].
Qed.
Lemma dk_acquire_cancelled t i late s0 s : dk s0 s -> dk s0 (acquire_cancelled t i late s).
Proof.
  intros K. unfold acquire_cancelled, emit.
  set (s2 := if late then _ else _).
  assert (K2 : dk s0 s2).
  { subst s2. destruct late; [destruct (b_stack _); [exact K|apply dk_wakeup_next, K]|].
    apply dk_upd; [bsimp; rewrite get_blk_id; same_keys|exact K]. }
  apply dk_eq with (s := upd (set_b_nwait (b_nwait (get_blk i s2) - 1) (get_blk i s2)) s2); try reflexivity.
  apply dk_upd; [bsimp; rewrite get_blk_id; same_keys|exact K2].
Qed.
Lemma dk_prune_cont t i acc s0 s : dk s0 s -> dk s0 (prune_cont t i acc s).
Proof.
  intros K. unfold prune_cont. destruct (_ && _); [apply dk_upd; [bsimp; rewrite get_blk_id; same_keys|exact K]|].
  destruct acc as [|a acc']; [apply dk_eq with (s := s); try reflexivity; exact K|].
  apply dk_eq with (s := set_ready (ready s ++ map (fun c => KDiscStart i c (Some t) false) (a :: acc')) s); try reflexivity.
  apply dk_append; [|exact K]. induction (a :: acc'); cbn; auto.
Qed.
Lemma dk_prune_start t d s0 s : dk s0 s -> dk s0 (prune_start t d s).
Proof.
  intros K. unfold prune_start. destruct (find_db _ _) as [b|] eqn:Ed; [|apply dk_eq with (s := s); try reflexivity; exact K].
  destruct (find_db_In _ _ _ Ed) as [Hb _].
  apply dk_prune_cont, dk_upd_gen; [|exact K]. bsimp. intros x Hx. exists b. repeat split; auto.
Qed.
Lemma dk_prune_wake t i acc ok s0 s : dk s0 s -> dk s0 (prune_wake t i acc ok s).
Proof.
  intros K. unfold prune_wake. destruct ok.
  - destruct (split_last _) as [[r c]|]; apply dk_prune_cont, dk_upd; try exact K; bsimp; rewrite get_blk_id; same_keys.
  - set (s2 := match b_stack (get_blk i s) with [] => s | _ :: _ => wakeup_next i s end).
    assert (K2 : dk s0 s2) by (subst s2; destruct (b_stack _); [exact K|apply dk_wakeup_next, K]).
    apply dk_eq with (s := upd (set_b_nwait (b_nwait (get_blk i s2) - 1) (get_blk i s2)) s2); try reflexivity.
    apply dk_upd; [bsimp; rewrite get_blk_id; same_keys|exact K2].
Qed.
Lemma dk_gather_cb t s0 s : dk s0 s -> dk s0 (gather_cb t s).
Proof.
  intros K. unfold gather_cb. destruct (alookup _ _); [|exact K].
  destruct (_ <=? _); [apply dk_push; [reflexivity|]|]; (apply dk_eq with (s := s); try reflexivity; exact K).
Qed.
Lemma dk_tick_scan o ids : forall s0 s tot need drop s' a b c,
  tick_scan o ids s tot need drop = (s', a, b, c) -> dk s0 s -> dk s0 s'.
Proof.
  induction ids as [|i r IH]; intros s0 s tot need drop s' a b c E K; cbn [tick_scan] in E.
  - inversion E; subst; exact K.
  - destruct (_ && _); [|destruct (_ =? _)]; eapply IH; eauto; (apply dk_upd; [bsimp; rewrite get_blk_id; same_keys|exact K]).
Qed.
Lemma dk_drop_all ids : forall s0 s s' r, drop_all ids s = (s', r) -> dk s0 s -> dk s0 s'.
Proof.
  induction ids as [|i r IH]; intros s0 s s' r0 E K; cbn [drop_all] in E.
  - inversion E; subst; exact K.
  - destruct (_ || _); [inversion E; subst; exact K|]. eapply IH; eauto.
    apply dk_blocks; [|exact K]. intros b Hb. left. eapply In_remove_bid; eauto.
Qed.
Lemma dk_modeD_quota o ids : forall s0 s, dk s0 s -> dk s0 (modeD_quota o ids s).
Proof.
  induction ids as [|i r IH]; intros s0 s K; cbn [modeD_quota]; [exact K|]. apply IH.
  assert (Q : forall q, dk s0 (upd (set_b_quota q (get_blk i s)) s))
    by (intros q; apply dk_upd; [bsimp; rewrite get_blk_id; same_keys|exact K]).
  assert (M : forall q, dk s0 (set_blocks (move_end i (upd_blk (set_b_quota q (get_blk i s)) (blocks s))) s)).
  { intros q. exact (dk_perm_blocks s0 _ (upd (set_b_quota q (get_blk i s)) s) (move_end_perm i _) (Q q)). }
  destruct (_ =? 1); [destruct (mem_n _ _)|destruct (_ <? _)]; auto.
Qed.
Lemma dk_free_loop o i fuel : forall s0 s s' r, free_loop o i fuel s = (s', r) -> dk s0 s -> dk s0 s'.
Proof.
  induction fuel as [|f IH]; intros s0 s s' r E K; cbn [free_loop] in E.
  - inversion E; subst; exact K.
  - destruct (should_free o i s); [|inversion E; subst; exact K].
    destruct (try_steal i s) as [[c|] s1] eqn:Es; [|inversion E; subst; exact K].
    destruct (maybe_free i c s1) as [s2 ok] eqn:Em.
    assert (K2 : dk s0 s2) by (eapply dk_maybe_free; [eauto|]; eapply dk_try_steal; eauto).
    destruct ok; [eapply IH; eauto|]. inversion E; subst. apply dk_release_unused, K2.
Qed.
Lemma dk_modeD_free o ids : forall s0 s, dk s0 s -> dk s0 (modeD_free o ids s).
Proof.
  induction ids as [|i r IH]; intros s0 s K; cbn [modeD_free]; [exact K|].
  destruct (free_loop _ _ _ _) as [s1 stop] eqn:Ef.
  assert (K1 : dk s0 s1) by (eapply dk_free_loop; eauto).
  destruct stop; [exact K1|apply IH, K1].
Qed.
Lemma dk_set_quotas cq : forall s0 s, dk s0 s -> dk s0 (set_quotas cq s).
Proof.
  induction cq as [|[d q] r IH]; intros s0 s K; cbn [set_quotas]; [exact K|]. apply IH.
  destruct (find_db _ _) as [b|] eqn:Ed; [|exact K]. destruct (find_db_In _ _ _ Ed) as [Hb _].
  apply dk_upd_gen; [|exact K]. bsimp. intros x Hx. exists b. repeat split; auto.
Qed.
Lemma dk_tick o s0 s : dk s0 s -> dk s0 (tick o s).
Proof.
  intros K. unfold tick.
  assert (K0 : dk s0 (maybe_sched_tick (set_tick_armed false s)))
    by (apply dk_maybe_sched_tick; apply dk_eq with (s := s); try reflexivity; exact K).
  destruct (blocks _) as [|b [|b2 bs]] eqn:Eb.
  - apply dk_eq with (s := maybe_sched_tick (set_tick_armed false s)); try reflexivity; exact K0.
  - apply dk_upd_gen.
    + bsimp. intros x Hx. exists b. cbn [blocks set_starving]. rewrite Eb. repeat split; auto. left; reflexivity.
    + apply dk_eq with (s := maybe_sched_tick (set_tick_armed false s)); try reflexivity; exact K0.
  - destruct (tick_scan _ _ _ _ _ _) as [[[s1 tot] need] drop] eqn:Et.
    assert (K1 : dk s0 s1) by (eapply dk_tick_scan; eauto).
    destruct (drop_all _ _) as [s3 crashed] eqn:Ed.
    assert (K3 : dk s0 s3) by (eapply dk_drop_all; [eauto|]; apply dk_eq with (s := s1); try reflexivity; exact K1).
    destruct crashed; [apply dk_eq with (s := s3); try reflexivity; exact K3|].
    dif; [exact K3|]. dif.
    { dif; [apply dk_rebalance|]; exact K3. }
    dif.
    + dif; [apply dk_modeD_free|]; apply dk_modeD_quota, K3.
    + dif; [apply dk_eq with (s := set_quotas (o_cq o) s3); try reflexivity|apply dk_rebalance]; apply dk_set_quotas, K3.
Qed.
Lemma dk_gc_block i n : forall s0 s, dk s0 s -> dk s0 (gc_block i n s).
Proof.
  induction n as [|m IH]; intros s0 s K; cbn [gc_block]; [exact K|].
  destruct (try_steal i s) as [[c|] s1] eqn:Es; [|exact K].
  apply IH, dk_sched_discard. eapply dk_try_steal; eauto.
Qed.
Lemma dk_gc_all o ids : forall s0 s, dk s0 s -> dk s0 (gc_all o ids s).
Proof. induction ids; intros; cbn [gc_all]; [assumption|]. apply IHids, dk_gc_block; assumption. Qed.
Lemma dk_run_gc o s0 s : dk s0 s -> dk s0 (run_gc o s).
Proof.
  intros K. unfold run_gc.
  destruct (starving _); [apply dk_eq with (s := s); try reflexivity; exact K|].
  apply dk_gc_all. destruct (_ <? _); (apply dk_eq with (s := s); try reflexivity; exact K).
Qed.
Lemma In_aremove {A} k (l : list (N * A)) x : In x (aremove k l) -> In x l.
Proof.
  induction l as [|[k' v] l IH]; cbn [aremove]; [tauto|].
  destruct (k =? k')%N; cbn [In]; intros H; [right; exact H|]. destruct H; auto.
Qed.
Lemma dk_release o d c discard s0 s : dk s0 s -> dk s0 (release o d c discard s).
Proof.
  intros K. unfold release.
  destruct (find_db d _) as [b|] eqn:Ed; [|apply dk_eq with (s := s); try reflexivity; exact K].
  destruct (alookup c (b_conns b)) as [[|]|]; try (apply dk_eq with (s := s); try reflexivity; exact K).
  destruct (find_db_In _ _ _ Ed) as [Hb _].
  set (s1 := maybe_sched_tick _).
  assert (K1 : dk s0 s1).
  { subst s1. apply dk_maybe_sched_tick, dk_held_sub.
    - cbn. intros x Hx. eapply In_aremove; eauto.
    - apply dk_upd_gen; [|exact K]. bsimp. intros x Hx. unfold keys in Hx. cbn [b_conns set_b_conns set_b_acq] in Hx.
      rewrite keys_aset in Hx. exists b. repeat split; auto. }
  destruct (if should_free o (b_id b) s1 then maybe_free (b_id b) c s1 else (s1, false)) as [s2 moved] eqn:Em.
  assert (K2 : dk s0 s2).
  { destruct (should_free o (b_id b) s1); [eapply dk_maybe_free; eauto|inversion Em; subst; exact K1]. }
  destruct moved; [exact K2|].
  destruct discard; [apply dk_sched_new_conn, dk_sched_discard|apply dk_release_unused]; exact K2.
Qed.

Record DbI (s : pool) : Prop := mkDbI {
  db_keys : forall b, In b s.(blocks) -> forall c, In c (keys b) -> alookup c s.(g_conndb) = Some (b_db b);
  db_held : forall c t d, In (c, (t, d)) s.(g_held) -> alookup c s.(g_conndb) = Some d;
  db_wake : forall cid i c nodb, In (KConnWake cid i (Some c) nodb) s.(ready) -> alookup c s.(g_conndb) = Some (fst i) }.

Lemma dk_DbI s s' : dk s s' -> DbI s -> DbI s'.
Proof.
  intros [a1 a2 a3 a4] [d1 d2 d3]. split; rewrite a1.
  - intros b' Hb c Hc. destruct (a2 b' Hb c Hc) as (b & Hb0 & E & Hc0).
    rewrite (d1 b Hb0 c Hc0). unfold b_db. rewrite E. reflexivity.
  - intros c t d H. destruct (a3 c t d H) as [H0|(b & Hb & E & Hc)]; [eauto|].
    rewrite (d1 b Hb c Hc). rewrite E. reflexivity.
  - intros cid i c nodb H. apply (d3 cid i c nodb). apply a4; [exact H|reflexivity].
Qed.

Lemma step_DbI s e o s' : OwnI s -> DbI s -> step s e o = Some s' -> DbI s'.
Proof.
  intros O D St.
  assert (K0 : dk s (set_outs [] s)) by (apply dk_eq with (s := s); try reflexivity; apply dk_refl).
  destruct e; cbn [step] in St.
  - destruct (_ =? _)%N; inversion St; subst. eapply dk_DbI; [|exact D].
    apply dk_push; [reflexivity|]. apply dk_eq with (s := s); try reflexivity. apply dk_refl.
  - destruct (_ =? _)%N; inversion St; subst. eapply dk_DbI; [|exact D].
    apply dk_push; [reflexivity|]. apply dk_eq with (s := s); try reflexivity. apply dk_refl.
  - inversion St; subst. eapply dk_DbI; [apply dk_release, K0|exact D].
  - (* EConnOk: a fresh connection id; it belongs to the database the connect callback was called for *)
    destruct (alookup cid _) as [i|] eqn:El; inversion St; subst; clear St.
    destruct D as [d1 d2 d3].
    assert (Fr : forall c, In c (g_open s) -> (c =? next_conn s)%N = false).
    { intros c Hc. apply N.eqb_neq. pose proof (own_fresh _ _ _ _ O c Hc). lia. }
    assert (Kopen : forall b c, In b (blocks s) -> In c (keys b) -> In c (g_open s)).
    { intros b c Hb Hc. apply zocc_In. apply zocc_In in Hc.
      destruct (own_block_facts s b c O Hb) as (_ & F2 & _). pose proof (zocc_nonneg c (limbo s)). lia. }
    split; cbn.
    + intros b Hb c Hc. rewrite (Fr c (Kopen b c Hb Hc)). auto.
    + intros c t d H. specialize (d2 c t d H).
      assert (Hin : In c (g_open s)).
      { (* a lent connection is in_use in some block *)
        apply zocc_In.
        assert (H1 : 1 <= zocc c (map fst (g_held s))) by (apply zocc_In; apply (in_map fst) in H; exact H).
        rewrite (own_held _ _ _ _ O c) in H1.
        destruct (sumZ_pos_In _ _ (fun b _ => zocc_nonneg c (inuse_keys b)) H1) as (b & Hb & Hw).
        destruct (own_block_facts s b c O Hb) as (F1 & F2 & _).
        pose proof (zocc_nonneg c (limbo s)). pose proof (zocc_nonneg c (b_stack b)). pose proof (zocc_nonneg c (wres b)). lia. }
      rewrite (Fr c Hin). exact d2.
    + intros cid0 i0 c nodb Hin. apply in_app_iff in Hin as [Hin|[E|[]]].
      * assert (Ho : In c (g_open s)).
        { apply zocc_In. pose proof (own_open _ _ _ _ O c) as Op. unfold limbo in Op. rewrite zocc_app, zocc_nil in Op.
          assert (1 <= zocc c (flat_map kont_limbo (ready s))).
          { apply zocc_In. apply in_flat_map. exists (KConnWake cid0 i0 (Some c) nodb). split; [exact Hin|left; reflexivity]. }
          assert (0 <= sumZ (fun b => zocc c (keys b)) (blocks s)) by (apply sumZ_nonneg; intros; apply zocc_nonneg).
          pose proof (zocc_nonneg c (map (fun e : N * (N * after_disc) => fst (snd e)) (infl_disc s))). lia. }
        rewrite (Fr c Ho). eapply d3; eauto.
      * inversion E; subst. rewrite N.eqb_refl. reflexivity.
  - destruct (alookup cid _) as [i|] eqn:El; inversion St; subst; clear St.
    eapply dk_DbI; [|exact D]. apply dk_push; [reflexivity|]. apply dk_eq with (s := s); try reflexivity. apply dk_refl.
  - destruct (alookup did _) as [[c a]|] eqn:El; inversion St; subst; clear St.
    eapply dk_DbI; [|exact D]. apply dk_push; [reflexivity|]. apply dk_eq with (s := s); try reflexivity. apply dk_refl.
  - destruct (alookup did _) as [[c a]|] eqn:El; inversion St; subst; clear St.
    eapply dk_DbI; [|exact D]. apply dk_push; [reflexivity|]. apply dk_eq with (s := s); try reflexivity. apply dk_refl.
  - destruct (tick_armed _); inversion St; subst. eapply dk_DbI; [apply dk_tick, K0|exact D].
  - destruct (_ <? _); inversion St; subst. eapply dk_DbI; [apply dk_run_gc, K0|exact D].
  - (* ECancel *)
    unfold cancel in St. cbn [ready blocks set_outs] in St.
    destruct (existsb (is_task t) (ready s)).
    + inversion St; subst; clear St. eapply dk_DbI; [|exact D].
      split; cbn; auto.
      * intros b' Hb c Hc. exists b'. auto.
      * intros k Hk Wk. apply in_map_iff in Hk as (k0 & E & Hk0).
        assert (cancel_kont t k0 = k0) as Ek; [|subst k; rewrite Ek; exact Hk0].
        subst k. destruct k0; cbn in *; try reflexivity; destruct (_ =? _)%N; cbn in Wk; try reflexivity; discriminate.
    + destruct (find_waiting t (blocks s)) as [b|] eqn:Ef; [|discriminate]. inversion St; subst; clear St.
      eapply dk_DbI; [|exact D]. apply dk_push; [reflexivity|].
      apply dk_upd_gen; [|exact K0]. bsimp. intros x Hx. exists b. repeat split; auto.
      exact (find_waiting_In _ _ _ Ef).
  - cbn in St. destruct (ready s) as [|k r] eqn:Er; inversion St; subst; clear St.
    set (s0 := set_ready r (set_outs [] s)).
    assert (Kp : dk s s0).
    { split; cbn; auto.
      - intros b' Hb c Hc. exists b'. auto.
      - intros k0 Hk _. rewrite Er. right. exact Hk. }
    destruct k as [t d|t i ok|i|cid i res nodb|f c to|i c p br|did c a ok|t d|t i acc ok|t|t|t|t i late]; cbn [run_kont].
    + eapply dk_DbI; [apply dk_acquire_start, Kp|exact D].
    + eapply dk_DbI; [apply dk_acquire_wake, Kp|exact D].
    + eapply dk_DbI; [|exact D]. unfold call_connect, emit. apply dk_eq with (s := s0); try reflexivity. exact Kp.
    + destruct res as [c|].
      * (* the new connection enters the dict of block i *)
        assert (Dc : alookup c (g_conndb s) = Some (fst i)) by (eapply (db_wake _ D); rewrite Er; left; reflexivity).
        assert (D0 : DbI s0) by (eapply dk_DbI; eauto).
        unfold connect_wake.
        set (b' := set_b_conns _ _).
        assert (D1 : DbI (upd b' s0)).
        { destruct D0 as [d1 d2 d3]. split; unfold upd; cbn; auto.
          intros b Hb x Hx. apply In_upd_blk in Hb as [->|Hb]; [|apply (d1 b Hb x Hx)].
          subst b'. unfold keys in Hx. cbn [b_conns set_b_conns set_b_pending set_b_fails] in Hx.
          rewrite map_app in Hx. apply in_app_iff in Hx as [Hx|[<-|[]]].
          - assert (Eb : b_db (set_b_conns (b_conns (get_blk i s0) ++ [(c, false)])
                        (set_b_pending (b_pending (get_blk i s0) - 1) (set_b_fails 0 (get_blk i s0)))) = fst i)
              by (unfold b_db; bsimp; rewrite get_blk_id; reflexivity).
            rewrite Eb. unfold get_blk in Hx. destruct (find_bid i (blocks s0)) as [b|] eqn:Ef; [|destruct Hx].
            pose proof (d1 b (find_bid_In _ _ _ Ef) x Hx) as E1. cbn in E1. rewrite E1.
            unfold b_db. rewrite (find_bid_id _ _ _ Ef). reflexivity.
          - cbn [fst]. rewrite Dc. unfold b_db. bsimp. rewrite get_blk_id. reflexivity. }
        eapply dk_DbI; [|exact D1]. apply dk_block_release, dk_refl.
      * eapply dk_DbI; [|exact D]. unfold connect_wake.
        set (s1 := set_cur (cur s0 - 1) s0).
        assert (K1 : dk s s1) by (apply dk_eq with (s := s0); try reflexivity; exact Kp).
        set (s2 := upd _ s1).
        assert (K2 : dk s s2) by (apply dk_upd; [bsimp; rewrite get_blk_id; same_keys|exact K1]).
        match goal with |- dk _ (upd _ (if ?x then ?a else ?b)) => set (s3 := if x then a else b) end.
        assert (K3 : dk s s3) by (subst s3; match goal with |- dk _ (if ?x then _ else _) => destruct x end;
                                   [apply dk_abort_waiters|apply dk_sched_new_conn]; exact K2).
        apply dk_upd; [bsimp; rewrite get_blk_id; same_keys|exact K3].
    + eapply dk_DbI; [|exact D]. unfold call_disconnect, emit. apply dk_eq with (s := s0); try reflexivity. exact Kp.
    + eapply dk_DbI; [|exact D]. unfold discard_start.
      destruct (alookup c _) as [[|]|]; try (apply dk_eq with (s := s0); try reflexivity; exact Kp).
      unfold call_disconnect, emit.
      apply dk_eq with (s := upd (set_b_conns (aremove c (b_conns (get_blk i s0))) (get_blk i s0)) s0); try reflexivity.
      apply dk_upd; [|exact Kp]. bsimp. rewrite get_blk_id. intros x Hx. unfold keys in *.
      cbn [b_conns set_b_conns] in Hx. eapply In_keys_aremove; exact Hx.
    + eapply dk_DbI; [|exact D]. unfold disconnect_wake. destruct a as [to|[t|] br].
      * unfold call_connect, emit. apply dk_eq with (s := s0); try reflexivity. exact Kp.
      * apply dk_push; [reflexivity|]. apply dk_eq with (s := s0); try reflexivity. exact Kp.
      * apply dk_eq with (s := s0); try reflexivity. exact Kp.
    + eapply dk_DbI; [apply dk_prune_start, Kp|exact D].
    + eapply dk_DbI; [apply dk_prune_wake, Kp|exact D].
    + eapply dk_DbI; [apply dk_gather_cb, Kp|exact D].
    + eapply dk_DbI; [|exact D]. apply dk_eq with (s := s0); try reflexivity. exact Kp.
    + eapply dk_DbI; [|exact D]. apply dk_eq with (s := s0); try reflexivity. exact Kp.
    + eapply dk_DbI; [apply dk_acquire_cancelled, Kp|exact D].
Qed.

Lemma DbI_init mx : DbI (init mx).
Proof. split; cbn; intros; tauto. Qed.

Lemma reach_DbI mx s : 0 <= mx -> reach mx s -> DbI s.
Proof.
  intros Hm R. induction R as [|s e o s' R IH St]; [apply DbI_init|].
  destruct (reach_Inv _ _ Hm R) as (_ & O & _). eapply step_DbI; eauto.
Qed.

(* ---- C15: a lent connection was opened for the database the acquirer asked for *)
Lemma p_lent_db mx s c t d : 0 <= mx -> reach mx s -> In (c, (t, d)) s.(g_held) ->
  alookup c s.(g_conndb) = Some d /\
  exists b, In b s.(blocks) /\ b_db b = d /\ alookup c b.(b_conns) = Some true.
Proof.
  intros Hm R H. pose proof (reach_DbI _ _ Hm R) as D.
  split; [eapply db_held; eauto|].
  destruct (p_single_lender _ _ Hm R) as [_ L]. destruct (L c t d H) as (_ & _ & b & Hb & Al & _ & _).
  exists b. repeat split; auto.
  pose proof (db_keys _ D b Hb c (alookup_In_keys_z _ _ _ Al)) as E1.
  pose proof (db_held _ D c t d H) as E2. congruence.
Qed.

(* ================================================================== C16: no lost wake-up *)
Definition is_wok (i : bid) (k : kont) : bool :=
  match k with
  | KAcqWake _ j true => bid_eqb i j
  | KPruneWake _ j _ true => bid_eqb i j
  | KAcqWakeC _ j true => bid_eqb i j      (* cancelled after its waiter was completed: passes the wake-up on *)
  | _ => false
  end.
Definition nwok (s : pool) (i : bid) : Z := cnt (is_wok i) s.(ready).
(* a block with queued waiters never has more idle connections than successful wake-ups on their way *)
Definition has_pending (ws : list (tid * wk)) : bool := existsb (fun w => negb (is_done w)) ws.
(* cancelled (done) futures still sitting in the deque do not count: nobody can be woken through them *)
Definition Pw (s : pool) (b : blk) : Prop :=
  has_pending b.(b_waiters) = true -> zlen b.(b_stack) <= nwok s b.(b_id).
Lemma has_pending_drop ws : has_pending (drop_done ws) = has_pending ws.
Proof.
  induction ws as [|w r IH]; cbn [drop_done]; [reflexivity|].
  destruct (is_done w) eqn:E; [|reflexivity]. rewrite IH. unfold has_pending. cbn [existsb]. rewrite E. reflexivity.
Qed.
Lemma drop_done_head ws w r : drop_done ws = w :: r -> is_done w = false.
Proof.
  induction ws as [|x l IH]; cbn [drop_done]; [discriminate|].
  destruct (is_done x) eqn:E; [exact IH|]. intros H; inversion H; subst; exact E.
Qed.
Definition W (s : pool) : Prop := forall b, In b s.(blocks) -> Pw s b.

Lemma W_upd s b' : W s -> Pw s b' -> W (upd b' s).
Proof.
  intros Hw Hp b Hb. unfold upd in Hb. cbn in Hb. apply In_upd_blk in Hb as [->|Hb]; [exact Hp|].
  exact (Hw b Hb).
Qed.
Lemma W_mono s s' : W s -> s'.(blocks) = s.(blocks) -> (forall i, nwok s i <= nwok s' i) -> W s'.
Proof. intros Hw E M b Hb Hne. rewrite E in Hb. specialize (Hw b Hb Hne). specialize (M (b_id b)). lia. Qed.
Lemma W_eq s s' : W s -> s'.(blocks) = s.(blocks) -> s'.(ready) = s.(ready) -> W s'.
Proof. intros Hw E R. apply (W_mono s); auto. intros i. unfold nwok. rewrite R. lia. Qed.
Lemma W_append s ks : W s -> W (set_ready (s.(ready) ++ ks) s).
Proof. intros Hw. apply (W_mono s); auto. intros i. unfold nwok. cbn. rewrite cnt_app. pose proof (cnt_nonneg (is_wok i) ks). lia. Qed.
Lemma W_push s k : W s -> W (push k s).
Proof. apply W_append. Qed.
Lemma W_blocks s bs : W s -> (forall b, In b bs -> In b s.(blocks) \/ b.(b_waiters) = []) -> W (set_blocks bs s).
Proof.
  intros Hw H b Hb Hne. cbn in Hb. destruct (H b Hb) as [Hin|E]; [|rewrite E in Hne; discriminate].
  exact (Hw b Hin Hne).
Qed.
Lemma Pw_get s i : W s -> Pw s (get_blk i s).
Proof.
  intros Hw. unfold get_blk. destruct (find_bid i (blocks s)) as [b|] eqn:Ef.
  - apply Hw. eapply find_bid_In; eauto.
  - intros Hne. cbn in Hne. discriminate.
Qed.
(* the stack does not grow and the waiters stay *)
Lemma W_upd_le s i b' : W s -> b'.(b_id) = i ->
  (has_pending b'.(b_waiters) = true ->
     has_pending (get_blk i s).(b_waiters) = true /\ zlen b'.(b_stack) <= zlen (get_blk i s).(b_stack)) ->
  W (upd b' s).
Proof.
  intros Hw E H. apply W_upd; [exact Hw|]. intros Hne. destruct (H Hne) as [H1 H2].
  pose proof (Pw_get s i Hw H1) as P. rewrite get_blk_id in P. rewrite E. lia.
Qed.
Ltac w_same i := apply (W_upd_le _ i); [assumption|bsimp; apply get_blk_id|bsimp; let Hne := fresh "Hne" in intros Hne; split; [exact Hne|lia]].

Lemma W_wakeup_next i s : W s -> W (wakeup_next i s).
Proof.
  intros Hw. unfold wakeup_next. destruct (drop_done (b_waiters (get_blk i s))) as [|w ws] eqn:Ew.
  - apply W_upd; [exact Hw|]. intros Hne. cbn in Hne. discriminate.
  - apply W_push. apply (W_upd_le _ i); [exact Hw|bsimp; apply get_blk_id|]. bsimp. intros Hne. split; [|lia].
    rewrite <- has_pending_drop, Ew. unfold has_pending in *. cbn [existsb]. rewrite Hne. apply orb_true_r.
Qed.
Lemma W_abort_waiters i s : W s -> W (abort_waiters i s).
Proof.
  intros Hw. unfold abort_waiters.
  change (ready s) with (ready (upd (set_b_waiters [] (get_blk i s)) s)). apply W_append.
  apply W_upd; [exact Hw|]. intros Hne. cbn in Hne. discriminate.
Qed.
Lemma nwok_push_wake s i w : is_done w = false -> nwok (push (wake_kont i w true) s) i = nwok s i + 1.
Proof.
  intros Hd. unfold nwok, push. cbn. rewrite cnt_app, cnt_cons, cnt_nil. unfold wake_kont, is_done in *.
  destruct (snd w); try discriminate; cbn [is_wok]; rewrite bid_eqb_refl; cbn [b2z]; lia.
Qed.
Lemma find_bid_upd_hit bs b' : find_bid (b_id b') bs <> None -> find_bid (b_id b') (upd_blk b' bs) = Some b'.
Proof.
  induction bs as [|x r IH]; cbn [find_bid upd_blk]; intros H; [contradiction|].
  destruct (bid_eqb (b_id b') (b_id x)) eqn:E; cbn [find_bid]; [rewrite bid_eqb_refl; reflexivity|].
  rewrite E. apply IH. exact H.
Qed.
(* Block.release: push and wake in one atomic section *)
Lemma W_block_release i c s : W s -> W (block_release i c s).
Proof.
  intros Hw. unfold block_release, wakeup_next.
  set (b := get_blk i s). set (s1 := upd (set_b_stack (b_stack b ++ [c]) b) s).
  assert (Eid : b_id b = i) by apply get_blk_id.
  destruct (find_bid i (blocks s)) as [b0|] eqn:Ef.
  - assert (Eg : get_blk i s1 = set_b_stack (b_stack b ++ [c]) b).
    { subst s1. unfold get_blk, upd. cbn [blocks set_blocks].
      assert (Eid2 : b_id (set_b_stack (b_stack b ++ [c]) b) = i) by (bsimp; exact Eid).
      rewrite <- Eid2 at 1. rewrite find_bid_upd_hit; [reflexivity|]. rewrite Eid2, Ef. discriminate. }
    rewrite Eg. bsimp. destruct (drop_done (b_waiters b)) as [|w ws] eqn:Ew.
    + apply W_upd; [|intros Hne; cbn in Hne; discriminate].
      apply W_upd; [exact Hw|]. intros Hne. change (has_pending (b_waiters b) = true) in Hne.
      rewrite <- has_pending_drop, Ew in Hne. discriminate.
    + assert (Hd : is_done w = false) by (eapply drop_done_head; eauto).
      assert (Hp : has_pending (b_waiters b) = true).
      { rewrite <- has_pending_drop, Ew. unfold has_pending. cbn [existsb]. rewrite Hd. reflexivity. }
      assert (P : zlen (b_stack b) <= nwok s i).
      { pose proof (Pw_get s i Hw Hp) as P. fold b in P. rewrite Eid in P. exact P. }
      intros x Hx Hne. unfold push, upd in Hx. cbn in Hx.
      assert (Nw : nwok (push (wake_kont i w true) (upd (set_b_waiters ws (set_b_stack (b_stack b ++ [c]) b)) s1)) i = nwok s i + 1).
      { rewrite nwok_push_wake; [reflexivity|exact Hd]. }
      apply In_upd_blk in Hx as [->|Hx].
      * bsimp. rewrite Eid, Nw, zlen_app, zlen_cons, zlen_nil. lia.
      * apply In_upd_blk in Hx as [->|Hx].
        -- bsimp. rewrite Eid, Nw, zlen_app, zlen_cons, zlen_nil. lia.
        -- specialize (Hw x Hx Hne). unfold nwok in *. cbn. rewrite cnt_app. pose proof (cnt_nonneg (is_wok (b_id x)) [wake_kont i w true]). lia.
  - (* stale block: nothing happens *)
    assert (E1 : s1 = set_blocks (blocks s) s).
    { subst s1. unfold upd. rewrite upd_blk_none; [reflexivity|]. bsimp. rewrite Eid. exact Ef. }
    assert (Eg : get_blk i s1 = stale_blk i) by (rewrite E1; unfold get_blk; cbn; rewrite Ef; reflexivity).
    rewrite Eg. cbn. rewrite E1.
    apply W_upd; [apply (W_eq s); auto|]. intros Hne. cbn in Hne. discriminate.
Qed.

Lemma W_try_steal i s r s' : try_steal i s = (r, s') -> W s -> W s'.
Proof.
  unfold try_steal. destruct (b_stack (get_blk i s)) as [|c0 r0] eqn:Es; intros E Hw; inversion E; subst; [exact Hw|].
  apply (W_upd_le _ i); [exact Hw|bsimp; apply get_blk_id|]. bsimp. intros Hne. split; [exact Hne|]. rewrite Es, zlen_cons. lia.
Qed.
Lemma W_perm s bs : Permutation bs s.(blocks) -> W s -> W (set_blocks bs s).
Proof. intros P Hw. apply W_blocks; [exact Hw|]. intros b Hb. left. eapply Permutation_in; eauto. Qed.
Lemma W_sched_new_conn i s : W s -> W (sched_new_conn i s).
Proof.
  intros Hw. unfold sched_new_conn. apply W_push.
  assert (W1 : W (set_cur (cur s + 1) (upd (set_b_pending (b_pending (get_blk i s) + 1) (get_blk i s)) s))).
  { apply (W_eq (upd (set_b_pending (b_pending (get_blk i s) + 1) (get_blk i s)) s)); try reflexivity. w_same i. }
  match goal with |- W (if ?x then _ else _) => destruct x end; [|exact W1].
  apply W_perm; [apply move_end_perm|exact W1].
Qed.
Lemma W_sched_transfer f c t s : W s -> W (sched_transfer f c t s).
Proof.
  intros Hw. unfold sched_transfer. destruct (alookup _ _) as [[|]|].
  1,3: (apply (W_eq s); try reflexivity; exact Hw).
  apply W_push.
  set (s1 := upd (set_b_conns _ _) s). assert (W1 : W s1) by (subst s1; w_same f).
  set (s2 := upd _ s1). assert (W2 : W s2) by (subst s2; w_same t).
  match goal with |- W (if ?x then _ else _) => destruct x end; [|exact W2].
  apply W_perm; [etransitivity; apply move_end_perm|exact W2].
Qed.
Lemma W_sched_discard i c p br s : W s -> W (sched_discard i c p br s).
Proof. intros Hw. apply W_push, Hw. Qed.
Lemma W_maybe_sched_tick s : W s -> W (maybe_sched_tick s).
Proof. intros Hw. unfold maybe_sched_tick. destruct (_ && _); [apply (W_eq s); try reflexivity|]; exact Hw. Qed.
Lemma W_find_most_starving s s' r : find_most_starving s = (s', r) -> W s -> W s'.
Proof.
  unfold find_most_starving. destruct (wl_pop _ _) as [wl o]. intros E Hw.
  destruct o; [|destruct (starve_revive _ _ _)]; inversion E; subst; (apply (W_eq s); try reflexivity; exact Hw).
Qed.
Lemma W_maybe_free f c s s' r : maybe_free f c s = (s', r) -> W s -> W s'.
Proof.
  unfold maybe_free. destruct (find_most_starving s) as [s1 to] eqn:E. intros E2 Hw.
  assert (W1 : W s1) by (eapply W_find_most_starving; eauto).
  destruct to as [j|]; [destruct (bid_eqb j f)|]; inversion E2; subst; try exact W1.
  apply W_sched_transfer, W1.
Qed.
Lemma W_release_unused i c s : W s -> W (release_unused i c s).
Proof.
  intros Hw. unfold release_unused.
  assert (W1 : W (block_release i c s)) by (apply W_block_release, Hw).
  match goal with |- W (if ?x then _ else _) => destruct x end; (eapply W_eq; [exact W1| |]; reflexivity).
Qed.
Lemma W_try_steal_conn o f l : forall s s' r, try_steal_conn o f l s = (s', r) -> W s -> W s'.
Proof.
  induction l as [|i l IH]; intros s s' r E Hw; cbn [try_steal_conn] in E.
  - inversion E; subst; exact Hw.
  - destruct (bid_eqb i f || negb (should_free o i s)); [eapply IH; eauto|].
    destruct (try_steal i s) as [[c|] s1] eqn:Es; [|eapply IH; eauto].
    inversion E; subst. apply W_sched_transfer. eapply W_try_steal; eauto.
Qed.
Lemma W_try_shrink o i fuel : forall s, W s -> W (try_shrink o i fuel s).
Proof.
  induction fuel as [|f IH]; intros s Hw; cbn [try_shrink]; [exact Hw|].
  destruct (_ && _); [|exact Hw].
  destruct (try_steal i s) as [[c|] s1] eqn:Es; [|exact Hw].
  destruct (find_most_starving s1) as [s2 to] eqn:Ef.
  apply IH. assert (W2 : W s2) by (eapply W_find_most_starving; [eauto|]; eapply W_try_steal; eauto).
  destruct to; [apply W_sched_transfer|apply W_sched_discard]; exact W2.
Qed.
Lemma W_grow i fuel : forall s, W s -> W (grow i fuel s).
Proof.
  induction fuel as [|f IH]; intros s Hw; cbn [grow]; [exact Hw|].
  destruct (_ && _); [|exact Hw]. apply IH, W_sched_new_conn, Hw.
Qed.
Lemma W_set_overq v s : W s -> W (set_overq v s).
Proof. intros Hw. apply (W_eq s); auto. Qed.
Lemma W_rebalance_one o i s : W s -> W (rebalance_one o i s).
Proof.
  intros Hw. unfold rebalance_one.
  destruct (_ <? _); [|destruct (_ <? _); [apply W_grow|]; exact Hw].
  match goal with |- W (if ?x then _ else _) => destruct x end; [apply W_set_overq|]; apply W_try_shrink, Hw.
Qed.
Lemma W_rebalance_loop o l : forall s, W s -> W (rebalance_loop o l s).
Proof. induction l; intros; cbn [rebalance_loop]; [assumption|]. apply IHl, W_rebalance_one; assumption. Qed.
Lemma W_rebalance o s : W s -> W (rebalance o s).
Proof.
  intros Hw. unfold rebalance. destruct (starving s); [exact Hw|].
  apply W_set_overq, W_rebalance_loop, W_set_overq, Hw.
Qed.
Lemma W_finish_acquire t d c s : W s -> W (finish_acquire t d c s).
Proof.
  intros Hw. unfold finish_acquire.
  assert (W1 : W (set_nacq (nacq s - 1) s)) by (apply (W_eq s); auto).
  destruct (find_db d _) as [b|] eqn:Ed; [|apply (W_eq s); auto].
  destruct (alookup c (b_conns b)) as [[|]|].
  1,3: (apply (W_eq s); auto).
  cbn [blocks set_nacq] in Ed. destruct (find_db_In _ _ _ Ed) as [Hb _].
  set (b' := set_b_acq _ _).
  apply (W_eq (upd b' (set_nacq (nacq s - 1) s))); try reflexivity.
  apply W_upd; [exact W1|]. intros Hne. exact (Hw b Hb Hne).
Qed.

Lemma W_block_acquire t i f s : W s -> W (block_acquire t i f s).
Proof.
  intros Hw. unfold block_acquire. destruct (split_last _) as [[r c]|] eqn:Sl.
  - apply W_finish_acquire. pose proof (split_last_spec (b_stack (get_blk i s))) as Sp. rewrite Sl in Sp.
    apply (W_upd_le _ i); [exact Hw|bsimp; apply get_blk_id|]. bsimp. intros Hne. split; [exact Hne|].
    rewrite Sp, zlen_app. pose proof (zlen_nonneg [c]). lia.
  - (* the stack is empty: queueing a waiter is fine *)
    pose proof (split_last_spec (b_stack (get_blk i s))) as Sp. rewrite Sl in Sp.
    apply W_upd; [exact Hw|]. intros _. bsimp. rewrite Sp. unfold nwok. pose proof (cnt_nonneg (is_wok (b_id (get_blk i s))) (ready s)).
    rewrite zlen_nil. lia.
Qed.
Lemma W_get_block d s i s' : get_block d s = (i, s') -> W s -> W s'.
Proof.
  unfold get_block. destruct (find_db d (blocks s)); intros E Hw; inversion E; subst; [exact Hw|].
  apply (W_eq (set_blocks (if starving s then new_blk (d, next_bid s) :: blocks s else blocks s ++ [new_blk (d, next_bid s)]) s)); try reflexivity.
  apply W_blocks; [exact Hw|]. intros b Hb.
  destruct (starving s); [destruct Hb as [<-|Hb]|apply in_app_iff in Hb as [Hb|[<-|[]]]]; auto.
Qed.
Ltac wif := match goal with |- W (if ?x then _ else _) => destruct x end.
Lemma W_acquire_start o t d s : W s -> W (acquire_start o t d s).
Proof.
  intros Hw. unfold acquire_start.
  destruct (get_block d _) as [i s1] eqn:Eg.
  assert (W1 : W s1).
  { eapply W_get_block; [eauto|]. apply W_maybe_sched_tick. apply (W_eq s); auto. }
  set (s2 := upd _ s1). assert (W2 : W s2) by (subst s2; w_same i).
  wif.
  - apply W_block_acquire. wif; [wif|wif]; try exact W2; apply W_sched_new_conn; assumption.
  - wif; [|wif].
    + destruct (try_steal_conn o i (overq s2) s2) as [s3 ok] eqn:Et.
      assert (W3 : W s3) by (eapply W_try_steal_conn; eauto).
      apply W_block_acquire. destruct ok; [|apply (W_eq s3); auto]; exact W3.
    + destruct (try_steal_conn o i (overq s2) s2) as [s3 ok] eqn:Et.
      apply W_block_acquire. eapply W_try_steal_conn; eauto.
    + apply W_block_acquire, W2.
Qed.

(* the state right after the loop popped a successful wake-up for block i: block i may be one short *)
Definition Wd (i : bid) (s : pool) : Prop :=
  forall b, In b s.(blocks) -> has_pending b.(b_waiters) = true ->
    zlen b.(b_stack) <= nwok s b.(b_id) + (if bid_eqb b.(b_id) i then 1 else 0).
Lemma In_upd_blk_nodup b' bs x :
  NoDup (map b_id bs) -> In x (upd_blk b' bs) -> x = b' \/ (In x bs /\ b_id x <> b_id b').
Proof.
  induction bs as [|b r IH]; cbn [upd_blk map]; intros ND Hx; [destruct Hx|]. inversion ND; subst.
  destruct (bid_eqb (b_id b') (b_id b)) eqn:E.
  - apply bid_eqb_eq in E. destruct Hx as [<-|Hx]; [left; reflexivity|]. right. split; [right; exact Hx|].
    intros Ex. apply H1. rewrite <- E, <- Ex. apply in_map. exact Hx.
  - apply bid_eqb_neq in E. destruct Hx as [<-|Hx]; [right; split; [left; reflexivity|congruence]|].
    destruct (IH H2 Hx) as [->|[Hin Hne]]; [left; reflexivity|right; split; [right; exact Hin|exact Hne]].
Qed.
Lemma Wd_fix i s b' :
  NoDup (map b_id s.(blocks)) -> Wd i s -> b'.(b_id) = i -> Pw s b' -> W (upd b' s).
Proof.
  intros ND Hd E P b Hb Hne. unfold upd in Hb. cbn in Hb.
  apply In_upd_blk_nodup in Hb as [->|[Hb Hn]]; [exact (P Hne)| |exact ND].
  specialize (Hd b Hb Hne).
  assert (Eb : bid_eqb (b_id b) i = false) by (apply bid_eqb_neq; congruence).
  rewrite Eb in Hd. unfold nwok in *. cbn. lia.
Qed.
(* if block i turns out to have an empty stack (or does not exist) the deficit is void *)
Lemma Wd_W_empty i s : NoDup (map b_id s.(blocks)) -> Wd i s -> (get_blk i s).(b_stack) = [] -> W s.
Proof.
  intros ND Hd Es b Hb Hne. specialize (Hd b Hb Hne).
  destruct (bid_eqb (b_id b) i) eqn:Eb; [|lia].
  apply bid_eqb_eq in Eb. pose proof (find_bid_unique _ _ ND Hb) as Ef. rewrite Eb in Ef.
  rewrite (get_blk_live _ _ _ Ef) in Es. rewrite Es, zlen_nil. unfold nwok. apply cnt_nonneg.
Qed.

Lemma W_acquire_wake_ok t i s : NoDup (map b_id s.(blocks)) -> Wd i s -> W (acquire_wake t i true s).
Proof.
  intros ND Hd. unfold acquire_wake.
  pose proof (split_last_spec (b_stack (get_blk i s))) as Sp.
  destruct (split_last _) as [[r c]|] eqn:Sl.
  - apply W_finish_acquire. apply (Wd_fix i); [exact ND|exact Hd|bsimp; apply get_blk_id|].
    intros Hne. cbn [b_waiters set_b_nwait set_b_stack] in Hne. bsimp.
    destruct (find_bid i (blocks s)) as [b|] eqn:Ef.
    + rewrite (get_blk_live _ _ _ Ef) in *. specialize (Hd b (find_bid_In _ _ _ Ef) Hne).
      rewrite (find_bid_id _ _ _ Ef), bid_eqb_refl in Hd. rewrite Sp, zlen_app, zlen_cons, zlen_nil in Hd.
      rewrite (find_bid_id _ _ _ Ef). lia.
    + rewrite (get_blk_stale _ _ Ef) in Sp. cbn in Sp. destruct r; discriminate.
  - assert (W0 : W s) by (eapply Wd_W_empty; eauto).
    apply W_block_acquire. w_same i.
Qed.
Lemma W_acquire_wake_fail t i s : W s -> W (acquire_wake t i false s).
Proof.
  intros Hw. unfold acquire_wake.
  set (s2 := match b_stack (get_blk i s) with [] => s | _ :: _ => wakeup_next i s end).
  assert (W2 : W s2) by (subst s2; destruct (b_stack _); [exact Hw|apply W_wakeup_next, Hw]).
  apply (W_eq (upd (set_b_nwait (b_nwait (get_blk i s2) - 1) (get_blk i s2)) s2)); try reflexivity. w_same i.
Qed.

Lemma W_connect_wake i res nodb s : W s -> W (connect_wake i res nodb s).
Proof.
  intros Hw. unfold connect_wake. destruct res as [c|].
  - apply W_block_release. w_same i.
  - set (s1 := set_cur (cur s - 1) s). assert (W1 : W s1) by (apply (W_eq s); auto).
    set (s2 := upd _ s1). assert (W2 : W s2) by (subst s2; w_same i).
    match goal with |- W (upd _ (if ?x then ?a else ?b)) => set (s3 := if x then a else b) end.
    assert (W3 : W s3) by (subst s3; wif; [apply W_abort_waiters|apply W_sched_new_conn]; exact W2).
    w_same i.
Qed.
Lemma W_prune_cont t i acc s : W s -> W (prune_cont t i acc s).
Proof.
  intros Hw. unfold prune_cont. destruct (_ && _).
  - apply W_upd; [exact Hw|]. intros _. bsimp. rewrite zlen_nil. unfold nwok. apply cnt_nonneg.
  - destruct acc as [|a acc']; [apply (W_eq s); auto|].
    apply (W_eq (set_ready (ready s ++ map (fun c => KDiscStart i c (Some t) false) (a :: acc')) s)); try reflexivity.
    apply W_append, Hw.
Qed.
Lemma W_prune_start t d s : W s -> W (prune_start t d s).
Proof.
  intros Hw. unfold prune_start. destruct (find_db _ _) as [b|]; [|apply (W_eq s); auto].
  apply W_prune_cont, W_upd; [exact Hw|]. intros _. bsimp. rewrite zlen_nil. unfold nwok. apply cnt_nonneg.
Qed.
Lemma W_prune_wake_ok t i acc s : NoDup (map b_id s.(blocks)) -> Wd i s -> W (prune_wake t i acc true s).
Proof.
  intros ND Hd. unfold prune_wake.
  pose proof (split_last_spec (b_stack (get_blk i s))) as Sp.
  destruct (split_last _) as [[r c]|] eqn:Sl.
  - apply W_prune_cont. apply (Wd_fix i); [exact ND|exact Hd|bsimp; apply get_blk_id|].
    intros Hne. cbn [b_waiters set_b_nwait set_b_stack] in Hne. bsimp.
    destruct (find_bid i (blocks s)) as [b|] eqn:Ef.
    + rewrite (get_blk_live _ _ _ Ef) in *. specialize (Hd b (find_bid_In _ _ _ Ef) Hne).
      rewrite (find_bid_id _ _ _ Ef), bid_eqb_refl in Hd. rewrite Sp, zlen_app, zlen_cons, zlen_nil in Hd.
      rewrite (find_bid_id _ _ _ Ef). lia.
    + rewrite (get_blk_stale _ _ Ef) in Sp. cbn in Sp. destruct r; discriminate.
  - assert (W0 : W s) by (eapply Wd_W_empty; eauto).
    apply W_prune_cont. w_same i.
Qed.
Lemma W_prune_wake_fail t i acc s : W s -> W (prune_wake t i acc false s).
Proof.
  intros Hw. unfold prune_wake.
  set (s2 := match b_stack (get_blk i s) with [] => s | _ :: _ => wakeup_next i s end).
  assert (W2 : W s2) by (subst s2; destruct (b_stack _); [exact Hw|apply W_wakeup_next, Hw]).
  apply (W_eq (upd (set_b_nwait (b_nwait (get_blk i s2) - 1) (get_blk i s2)) s2)); try reflexivity. w_same i.
Qed.
Lemma W_gather_cb t s : W s -> W (gather_cb t s).
Proof.
  intros Hw. unfold gather_cb. destruct (alookup _ _); [|exact Hw].
  destruct (_ <=? _); [apply W_push|]; (apply (W_eq s); auto).
Qed.
Lemma W_tick_scan o ids : forall s tot need drop s' a b c,
  tick_scan o ids s tot need drop = (s', a, b, c) -> W s -> W s'.
Proof.
  induction ids as [|i r IH]; intros s tot need drop s' a b c E Hw; cbn [tick_scan] in E.
  - inversion E; subst; exact Hw.
  - destruct (_ && _); [|destruct (_ =? _)]; eapply IH; eauto; w_same i.
Qed.
Lemma W_drop_all ids : forall s s' r, drop_all ids s = (s', r) -> W s -> W s'.
Proof.
  induction ids as [|i r IH]; intros s s' r0 E Hw; cbn [drop_all] in E.
  - inversion E; subst; exact Hw.
  - destruct (_ || _); [inversion E; subst; exact Hw|]. eapply IH; eauto.
    apply W_blocks; [exact Hw|]. intros b Hb. left. eapply In_remove_bid; eauto.
Qed.
Lemma W_modeD_quota o ids : forall s, W s -> W (modeD_quota o ids s).
Proof.
  induction ids as [|i r IH]; intros s Hw; cbn [modeD_quota]; [exact Hw|]. apply IH.
  assert (Q : forall q, W (upd (set_b_quota q (get_blk i s)) s)) by (intros q; w_same i).
  assert (M : forall q, W (set_blocks (move_end i (upd_blk (set_b_quota q (get_blk i s)) (blocks s))) s)).
  { intros q. exact (W_perm (upd (set_b_quota q (get_blk i s)) s) _ (move_end_perm i _) (Q q)). }
  destruct (_ =? 1); [destruct (mem_n _ _)|destruct (_ <? _)]; auto.
Qed.
Lemma W_free_loop o i fuel : forall s s' r, free_loop o i fuel s = (s', r) -> W s -> W s'.
Proof.
  induction fuel as [|f IH]; intros s s' r E Hw; cbn [free_loop] in E.
  - inversion E; subst; exact Hw.
  - destruct (should_free o i s); [|inversion E; subst; exact Hw].
    destruct (try_steal i s) as [[c|] s1] eqn:Es; [|inversion E; subst; exact Hw].
    destruct (maybe_free i c s1) as [s2 ok] eqn:Em.
    assert (W2 : W s2) by (eapply W_maybe_free; [eauto|]; eapply W_try_steal; eauto).
    destruct ok; [eapply IH; eauto|]. inversion E; subst. apply W_release_unused, W2.
Qed.
Lemma W_modeD_free o ids : forall s, W s -> W (modeD_free o ids s).
Proof.
  induction ids as [|i r IH]; intros s Hw; cbn [modeD_free]; [exact Hw|].
  destruct (free_loop _ _ _ _) as [s1 stop] eqn:Ef.
  assert (W1 : W s1) by (eapply W_free_loop; eauto).
  destruct stop; [exact W1|apply IH, W1].
Qed.
Lemma W_set_quotas cq : forall s, W s -> W (set_quotas cq s).
Proof.
  induction cq as [|[d q] r IH]; intros s Hw; cbn [set_quotas]; [exact Hw|]. apply IH.
  destruct (find_db _ _) as [b|] eqn:Ed; [|exact Hw]. destruct (find_db_In _ _ _ Ed) as [Hb _].
  apply W_upd; [exact Hw|]. intros Hne. exact (Hw b Hb Hne).
Qed.
Lemma W_tick o s : W s -> W (tick o s).
Proof.
  intros Hw. unfold tick.
  assert (W0 : W (maybe_sched_tick (set_tick_armed false s))) by (apply W_maybe_sched_tick; apply (W_eq s); auto).
  destruct (blocks _) as [|b [|b2 bs]] eqn:Eb.
  - apply (W_eq (maybe_sched_tick (set_tick_armed false s))); auto.
  - apply W_upd; [apply (W_eq (maybe_sched_tick (set_tick_armed false s))); auto|].
    intros Hne. apply (W0 b); [rewrite Eb; left; reflexivity|exact Hne].
  - destruct (tick_scan _ _ _ _ _ _) as [[[s1 tot] need] drop] eqn:Et.
    assert (W1 : W s1) by (eapply W_tick_scan; eauto).
    destruct (drop_all _ _) as [s3 crashed] eqn:Ed.
    assert (W3 : W s3) by (eapply W_drop_all; [eauto|]; apply (W_eq s1); auto).
    destruct crashed; [apply (W_eq s3); auto|].
    wif; [exact W3|]. wif.
    { wif; [apply W_rebalance|]; exact W3. }
    wif.
    + wif; [apply W_modeD_free|]; apply W_modeD_quota, W3.
    + wif; [apply (W_eq (set_quotas (o_cq o) s3)); auto|apply W_rebalance]; apply W_set_quotas, W3.
Qed.
Lemma W_gc_block i n : forall s, W s -> W (gc_block i n s).
Proof.
  induction n as [|m IH]; intros s Hw; cbn [gc_block]; [exact Hw|].
  destruct (try_steal i s) as [[c|] s1] eqn:Es; [|exact Hw].
  apply IH, W_sched_discard. eapply W_try_steal; eauto.
Qed.
Lemma W_gc_all o ids : forall s, W s -> W (gc_all o ids s).
Proof. induction ids; intros; cbn [gc_all]; [assumption|]. apply IHids, W_gc_block; assumption. Qed.
Lemma W_run_gc o s : W s -> W (run_gc o s).
Proof.
  intros Hw. unfold run_gc.
  destruct (starving _); [apply (W_eq s); auto|].
  apply W_gc_all. destruct (_ <? _); (apply (W_eq s); auto).
Qed.
Lemma W_release o d c discard s : W s -> W (release o d c discard s).
Proof.
  intros Hw. unfold release.
  destruct (find_db d _) as [b|] eqn:Ed; [|apply (W_eq s); auto].
  destruct (alookup c (b_conns b)) as [[|]|].
  2,3: (apply (W_eq s); auto).
  destruct (find_db_In _ _ _ Ed) as [Hb _].
  set (s1 := maybe_sched_tick _).
  assert (W1 : W s1).
  { subst s1. apply W_maybe_sched_tick.
    set (b' := set_b_acq _ _). apply (W_eq (upd b' s)); try reflexivity.
    apply W_upd; [exact Hw|]. intros Hne. exact (Hw b Hb Hne). }
  destruct (if should_free o (b_id b) s1 then maybe_free (b_id b) c s1 else (s1, false)) as [s2 moved] eqn:Em.
  assert (W2 : W s2).
  { destruct (should_free o (b_id b) s1); [eapply W_maybe_free; eauto|inversion Em; subst; exact W1]. }
  destruct moved; [exact W2|].
  destruct discard; [apply W_sched_new_conn, W_sched_discard|apply W_release_unused]; exact W2.
Qed.

Lemma has_pending_mark_done t ws : has_pending (mark_done t ws) = true -> has_pending ws = true.
Proof.
  unfold has_pending. induction ws as [|[t' [|acc|]] r IH]; cbn [mark_done existsb is_done snd negb]; auto.
  all: try (destruct (t' =? t)%N; cbn [existsb is_done snd negb]; auto).
Qed.
Lemma cnt_wok_cancel i t l : cnt (is_wok i) l <= cnt (is_wok i) (map (cancel_kont t) l).
Proof.
  induction l as [|k l IH]; cbn [map]; [lia|]. rewrite !cnt_cons.
  assert (b2z (is_wok i k) <= b2z (is_wok i (cancel_kont t k))); [|lia].
  destruct k; cbn; try lia; destruct (_ =? _)%N; cbn; try lia.
  destruct ok; cbn; [lia|]. destruct (bid_eqb i b); cbn; lia.
Qed.
Lemma has_pending_remove_done t ws : has_pending (remove_done t ws) = true -> has_pending ws = true.
Proof.
  unfold has_pending. induction ws as [|[t' [|acc|]] r IH]; cbn [remove_done existsb is_done snd negb]; auto.
  destruct (t' =? t)%N; cbn [existsb is_done snd negb]; auto.
Qed.
(* passing the wake-up on while block i is one wake-up short *)
Lemma W_wakeup_next_d i s : NoDup (map b_id s.(blocks)) -> Wd i s -> W (wakeup_next i s).
Proof.
  intros ND Hd. unfold wakeup_next. destruct (drop_done (b_waiters (get_blk i s))) as [|w ws] eqn:Ew.
  - apply (Wd_fix i); [exact ND|exact Hd|bsimp; apply get_blk_id|]. intros Hne. cbn in Hne. discriminate.
  - assert (Hdn : is_done w = false) by (eapply drop_done_head; eauto).
    destruct (find_bid i (blocks s)) as [b|] eqn:Ef.
    2: { rewrite (get_blk_stale _ _ Ef) in Ew. discriminate. }
    rewrite (get_blk_live _ _ _ Ef) in *.
    assert (Eb : b_id b = i) by (eapply find_bid_id; eauto).
    intros x Hx Hne. unfold push, upd in Hx. cbn in Hx.
    apply In_upd_blk_nodup in Hx as [->|[Hx Hn]]; [| |exact ND].
    + bsimp. rewrite Eb, nwok_push_wake; [|exact Hdn].
      assert (Hp : has_pending (b_waiters b) = true).
      { rewrite <- has_pending_drop, Ew. unfold has_pending. cbn [existsb]. rewrite Hdn. reflexivity. }
      pose proof (Hd b (find_bid_In _ _ _ Ef) Hp) as P. rewrite Eb, bid_eqb_refl in P.
      unfold nwok at 1. cbn [ready upd set_blocks]. fold (nwok s i). lia.
    + pose proof (Hd x Hx Hne) as P.
      assert (E : bid_eqb (b_id x) i = false) by (apply bid_eqb_neq; cbn in Hn; congruence).
      rewrite E in P. unfold nwok in *. cbn. rewrite cnt_app. pose proof (cnt_nonneg (is_wok (b_id x)) [wake_kont i w true]). lia.
Qed.
Lemma W_acquire_cancelled_late t i s : NoDup (map b_id s.(blocks)) -> Wd i s -> W (acquire_cancelled t i true s).
Proof.
  intros ND Hd. unfold acquire_cancelled, emit.
  set (s2 := match b_stack (get_blk i s) with [] => s | _ :: _ => wakeup_next i s end).
  assert (W2 : W s2).
  { subst s2. destruct (b_stack (get_blk i s)) eqn:Es; [eapply Wd_W_empty; eauto|apply W_wakeup_next_d; assumption]. }
  apply (W_eq (upd (set_b_nwait (b_nwait (get_blk i s2) - 1) (get_blk i s2)) s2)); try reflexivity. w_same i.
Qed.
Lemma W_acquire_cancelled_early t i s : W s -> W (acquire_cancelled t i false s).
Proof.
  intros Hw. unfold acquire_cancelled, emit.
  set (s2 := upd _ s).
  assert (W2 : W s2).
  { subst s2. apply (W_upd_le _ i); [exact Hw|bsimp; apply get_blk_id|]. bsimp. intros Hne. split; [|lia].
    eapply has_pending_remove_done; eauto. }
  apply (W_eq (upd (set_b_nwait (b_nwait (get_blk i s2) - 1) (get_blk i s2)) s2)); try reflexivity. w_same i.
Qed.

Lemma step_W s e o s' : OwnI s -> W s -> step s e o = Some s' -> W s'.
Proof.
  intros O Hw St.
  assert (W0 : W (set_outs [] s)) by (apply (W_eq s); auto).
  destruct e; cbn [step] in St.
  - destruct (_ =? _)%N; inversion St; subst. apply W_push. apply (W_eq s); auto.
  - destruct (_ =? _)%N; inversion St; subst. apply W_push. apply (W_eq s); auto.
  - inversion St; subst. apply W_release, W0.
  - destruct (alookup cid _); inversion St; subst. apply W_push. apply (W_eq s); auto.
  - destruct (alookup cid _); inversion St; subst. apply W_push. apply (W_eq s); auto.
  - destruct (alookup did _) as [[c a]|]; inversion St; subst. apply W_push. apply (W_eq s); auto.
  - destruct (alookup did _) as [[c a]|]; inversion St; subst. apply W_push. apply (W_eq s); auto.
  - destruct (tick_armed _); inversion St; subst. apply W_tick, W0.
  - destruct (_ <? _); inversion St; subst. apply W_run_gc, W0.
  - (* ECancel *)
    unfold cancel in St. cbn [ready blocks set_outs] in St.
    destruct (existsb (is_task t) (ready s)).
    + inversion St; subst; clear St. apply (W_mono s); [exact Hw|reflexivity|].
      intros i. unfold nwok. cbn. apply cnt_wok_cancel.
    + destruct (find_waiting t (blocks s)) as [b|] eqn:Ef; [|discriminate]. inversion St; subst; clear St.
      apply W_push. apply W_upd; [exact W0|].
      intros Hne. cbn [b_waiters set_b_waiters] in Hne. apply has_pending_mark_done in Hne. bsimp.
      exact (Hw b (find_waiting_In _ _ _ Ef) Hne).
  - cbn in St. destruct (ready s) as [|k r] eqn:Er; inversion St; subst; clear St.
    set (s0 := set_ready r (set_outs [] s)).
    assert (ND : NoDup (map b_id (blocks s0))) by exact (own_ids _ _ _ _ O).
    (* popping k removes at most one successful wake-up, and only for the block k names *)
    assert (Hd : forall i, (forall j, is_wok j k = true -> j = i) -> Wd i s0).
    { intros i Hk b Hb Hne. specialize (Hw b Hb Hne). unfold nwok in *. rewrite Er, cnt_cons in Hw.
      change (ready s0) with r.
      destruct (is_wok (b_id b) k) eqn:Ek; cbn [b2z] in Hw.
      - pose proof (Hk _ Ek) as E. rewrite E in *. rewrite bid_eqb_refl. lia.
      - destruct (bid_eqb (b_id b) i); lia. }
    assert (Wp : (forall j, is_wok j k = false) -> W s0).
    { intros Hk b Hb Hne. specialize (Hw b Hb Hne). unfold nwok in *. rewrite Er, cnt_cons, Hk in Hw. cbn [b2z] in Hw.
      change (ready s0) with r. lia. }
    destruct k as [t d|t i ok|i|cid i res nodb|f c to|i c p br|did c a ok|t d|t i acc ok|t|t|t|t i late]; cbn [run_kont].
    + apply W_acquire_start, Wp; intros; reflexivity.
    + destruct ok.
      * apply W_acquire_wake_ok; [exact ND|]. apply Hd. intros j Hj. cbn in Hj. apply bid_eqb_eq in Hj. exact Hj.
      * apply W_acquire_wake_fail, Wp; intros; reflexivity.
    + unfold call_connect, emit. apply (W_eq s0); auto; apply Wp; intros; reflexivity.
    + apply W_connect_wake, Wp; intros; reflexivity.
    + unfold call_disconnect, emit. apply (W_eq s0); auto; apply Wp; intros; reflexivity.
    + unfold discard_start. destruct (alookup c _) as [[|]|].
      1,3: (apply (W_eq s0); auto; apply Wp; intros; reflexivity).
      unfold call_disconnect, emit.
      apply (W_eq (upd (set_b_conns (aremove c (b_conns (get_blk i s0))) (get_blk i s0)) s0)); try reflexivity.
      assert (Wq : W s0) by (apply Wp; intros; reflexivity). w_same i.
    + unfold disconnect_wake. destruct a as [to|[t|] br].
      * unfold call_connect, emit. apply (W_eq s0); auto; apply Wp; intros; reflexivity.
      * apply W_push. apply (W_eq s0); auto; apply Wp; intros; reflexivity.
      * apply (W_eq s0); auto; apply Wp; intros; reflexivity.
    + apply W_prune_start, Wp; intros; reflexivity.
    + destruct ok.
      * apply W_prune_wake_ok; [exact ND|]. apply Hd. intros j Hj. cbn in Hj. apply bid_eqb_eq in Hj. exact Hj.
      * apply W_prune_wake_fail, Wp; intros; reflexivity.
    + apply W_gather_cb, Wp; intros; reflexivity.
    + apply (W_eq s0); auto; apply Wp; intros; reflexivity.
    + apply (W_eq s0); auto; apply Wp; intros; reflexivity.
    + destruct late.
      * apply W_acquire_cancelled_late; [exact ND|]. apply Hd. intros j Hj. cbn in Hj. apply bid_eqb_eq in Hj. exact Hj.
      * apply W_acquire_cancelled_early, Wp; intros; reflexivity.
Qed.

Lemma reach_W mx s : 0 <= mx -> reach mx s -> W s.
Proof.
  intros Hm R. induction R as [|s e o s' R IH St]; [intros b []|].
  destruct (reach_Inv _ _ Hm R) as (_ & O & _). eapply step_W; eauto.
Qed.

(* ---- C16: no lost wake-up (cancelled futures sitting in the deque do not count as waiters) *)
Lemma p_no_lost_wakeup mx s b : 0 <= mx -> reach mx s -> In b s.(blocks) ->
  has_pending b.(b_waiters) = true -> zlen b.(b_stack) <= nwok s b.(b_id).
Proof. intros Hm R Hb Hne. exact (reach_W _ _ Hm R b Hb Hne). Qed.
Lemma p_quiescent_no_idle_with_waiters mx s b : 0 <= mx -> reach mx s -> In b s.(blocks) -> s.(ready) = [] ->
  has_pending b.(b_waiters) = false \/ b.(b_stack) = [].
Proof.
  intros Hm R Hb E. destruct (has_pending (b_waiters b)) eqn:Ew; [right|left; reflexivity].
  pose proof (p_no_lost_wakeup _ _ b Hm R Hb Ew) as P.
  unfold nwok in P. rewrite E, cnt_nil in P. destruct (b_stack b); [reflexivity|rewrite zlen_cons in P; pose proof (zlen_nonneg l); lia].
Qed.

(* ---- C16: a failed connect is retried exactly once or reported to every waiter of the block *)
Lemma find_bid_upd_same i bs b b' : find_bid i bs = Some b -> b'.(b_id) = i -> find_bid i (upd_blk b' bs) = Some b'.
Proof.
  induction bs as [|x r IH]; cbn [find_bid upd_blk]; [discriminate|]. intros H E.
  destruct (bid_eqb i (b_id x)) eqn:E1.
  - rewrite E, E1. cbn [find_bid]. rewrite E, bid_eqb_refl. reflexivity.
  - rewrite E, E1. cbn [find_bid]. rewrite E1. apply IH; assumption.
Qed.
Lemma find_bid_perm i l1 l2 : Permutation l1 l2 -> NoDup (map b_id l1) -> find_bid i l2 = find_bid i l1.
Proof.
  intros P ND. assert (ND2 : NoDup (map b_id l2)) by (eapply Permutation_NoDup; [apply Permutation_map; exact P|exact ND]).
  destruct (find_bid i l1) as [b|] eqn:E1.
  - rewrite <- (find_bid_id _ _ _ E1). apply find_bid_unique; [exact ND2|].
    eapply Permutation_in; [exact P|eapply find_bid_In; eauto].
  - destruct (find_bid i l2) as [b|] eqn:E2; [|reflexivity]. exfalso.
    apply (find_bid_none _ _ E1 b); [eapply Permutation_in; [symmetry; exact P|eapply find_bid_In; eauto]|eapply find_bid_id; eauto].
Qed.

Lemma p_retry_or_abort s i b nodb :
  NoDup (map b_id s.(blocks)) -> find_bid i s.(blocks) = Some b ->
  let f2 := if nodb && (b.(b_fails) + 1 <=? RETRIES) then RETRIES + 1 else b.(b_fails) + 1 in
  let s' := connect_wake i None nodb s in
  (nodb = true -> RETRIES < f2) /\
  (f2 <= RETRIES ->
     s'.(ready) = s.(ready) ++ [KConnStart i] /\ s'.(cur) = s.(cur) /\
     exists b', find_bid i s'.(blocks) = Some b' /\ b'.(b_waiters) = b.(b_waiters) /\ b'.(b_pending) = b.(b_pending)) /\
  (RETRIES < f2 ->
     s'.(ready) = s.(ready) ++ map (fun w => wake_kont i w false) (filter (fun w => negb (is_done w)) b.(b_waiters)) /\ s'.(cur) = s.(cur) - 1 /\
     exists b', find_bid i s'.(blocks) = Some b' /\ b'.(b_waiters) = [] /\ b'.(b_pending) = b.(b_pending) - 1).
Proof.
  intros ND Ef f2 s'. subst s'. unfold connect_wake.
  set (s1 := set_cur (cur s - 1) s).
  assert (G1 : get_blk i s1 = b) by (unfold get_blk; cbn; rewrite Ef; reflexivity).
  rewrite G1. fold f2.
  set (b2 := set_b_fails f2 b). set (s2 := upd b2 s1).
  assert (Eb : b_id b = i) by (eapply find_bid_id; eauto).
  assert (F2 : find_bid i (blocks s2) = Some b2) by (apply (find_bid_upd_same i _ b); [exact Ef|exact Eb]).
  assert (ND2 : NoDup (map b_id (blocks s2))) by (unfold s2, upd; cbn; rewrite map_id_upd; exact ND).
  split; [|split].
  - intros ->. subst f2. cbn [andb]. destruct (b_fails b + 1 <=? RETRIES) eqn:E; [unfold RETRIES; lia|apply Z.leb_gt in E; lia].
  - intros Hle. assert (E : (RETRIES <? f2) = false) by (apply Z.ltb_ge; exact Hle). rewrite E.
    assert (G2 : get_blk i s2 = b2) by (unfold get_blk; rewrite F2; reflexivity).
    unfold sched_new_conn. rewrite G2.
    set (b3 := set_b_pending (b_pending b2 + 1) b2). set (s3 := set_cur _ (upd b3 s2)).
    assert (F3 : find_bid i (blocks s3) = Some b3) by (apply (find_bid_upd_same i _ b2); [exact F2|exact Eb]).
    assert (ND3 : NoDup (map b_id (blocks s3))) by (unfold s3, upd; cbn; rewrite map_id_upd; exact ND2).
    set (s4 := if starving s3 then _ else s3).
    assert (F4 : find_bid i (blocks s4) = Some b3).
    { subst s4. destruct (starving s3); [|exact F3]. cbn [blocks set_blocks].
      rewrite (find_bid_perm i (blocks s3) _ (Permutation_sym (move_end_perm i _)) ND3). exact F3. }
    assert (G4 : get_blk i (push (KConnStart i) s4) = b3) by (unfold get_blk; cbn; rewrite F4; reflexivity).
    rewrite G4. repeat split.
    + subst s4. destruct (starving s3); reflexivity.
    + subst s4. destruct (starving s3); cbn; lia.
    + exists (set_b_pending (b_pending b3 - 1) b3). repeat split; [|cbn; lia].
      unfold upd. cbn [blocks set_blocks push set_ready]. apply (find_bid_upd_same i _ b3); [exact F4|exact Eb].
  - intros Hgt. assert (E : (RETRIES <? f2) = true) by (apply Z.ltb_lt; exact Hgt). rewrite E.
    assert (G2 : get_blk i s2 = b2) by (unfold get_blk; rewrite F2; reflexivity).
    unfold abort_waiters. rewrite G2.
    set (b3 := set_b_waiters [] b2). set (s3 := set_ready _ (upd b3 s2)).
    assert (F3 : find_bid i (blocks s3) = Some b3) by (apply (find_bid_upd_same i _ b2); [exact F2|exact Eb]).
    assert (G3 : get_blk i s3 = b3) by (unfold get_blk; rewrite F3; reflexivity).
    rewrite G3. repeat split.
    exists (set_b_pending (b_pending b3 - 1) b3). repeat split.
    unfold upd. cbn [blocks set_blocks]. apply (find_bid_upd_same i _ b3); [exact F3|exact Eb].
Qed.

(* ---- C15 (internal accounting): a block's pending_conns covers every connect promised to it
        (scheduled, in flight, completed but unprocessed, or behind a transfer) *)
Lemma p_pending_covers mx s b : 0 <= mx -> reach mx s -> In b s.(blocks) ->
  0 <= npipe b.(b_id) s <= b.(b_pending).
Proof.
  intros Hm R Hb. destruct (reach_Inv _ _ Hm R) as (_ & O & _).
  pose proof (own_pend _ _ _ _ O (b_id b)) as P. rewrite zoccB_nil in P.
  rewrite (sumZ_at_unique (b_id b) b_pending _ b (own_ids _ _ _ _ O) Hb eq_refl) in P.
  pose proof (npipe_nonneg (b_id b) s). lia.
Qed.

