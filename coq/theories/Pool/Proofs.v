(* Proofs about the pool model: invariants preserved by every event for every oracle value. *)
From Coq Require Import List ZArith NArith Bool Lia Permutation.
From Verif.Pool Require Import Model.
Import ListNotations.
Open Scope Z_scope.


(* ------------------------------------------------------------------ generic *)
Lemma zlen_app {A} (l1 l2 : list A) : zlen (l1 ++ l2) = zlen l1 + zlen l2.
Proof. unfold zlen. rewrite app_length. lia. Qed.
Lemma zlen_cons {A} (x : A) l : zlen (x :: l) = 1 + zlen l.
Proof. unfold zlen. cbn [length]. lia. Qed.
Lemma zlen_nil {A} : zlen (@nil A) = 0. Proof. reflexivity. Qed.
Lemma zlen_nonneg {A} (l : list A) : 0 <= zlen l. Proof. unfold zlen. lia. Qed.

Definition b2z (b : bool) : Z := if b then 1 else 0.
Definition cnt (f : kont -> bool) (l : list kont) : Z := zlen (filter f l).
Lemma cnt_nil f : cnt f [] = 0. Proof. reflexivity. Qed.
Lemma cnt_cons f k l : cnt f (k :: l) = b2z (f k) + cnt f l.
Proof. unfold cnt. cbn [filter]. destruct (f k); cbn [b2z]; rewrite ?zlen_cons; lia. Qed.
Lemma cnt_app f l1 l2 : cnt f (l1 ++ l2) = cnt f l1 + cnt f l2.
Proof. unfold cnt. rewrite filter_app, zlen_app. lia. Qed.
Lemma cnt_nonneg f l : 0 <= cnt f l. Proof. apply zlen_nonneg. Qed.
Lemma cnt_le f g l : (forall k, f k = true -> g k = true) -> cnt f l <= cnt g l.
Proof.
  intros H. induction l as [|k l IH]; [rewrite !cnt_nil; lia|].
  rewrite !cnt_cons. specialize (H k). destruct (f k) eqn:Ef.
  - rewrite (H eq_refl). lia.
  - destruct (g k); cbn [b2z]; lia.
Qed.
Lemma cnt_map_zero {A} f (g : A -> kont) l : (forall x, f (g x) = false) -> cnt f (map g l) = 0.
Proof. intros H. induction l; cbn [map]; [reflexivity|]. rewrite cnt_cons, H, IHl. reflexivity. Qed.

Lemma bid_eqb_eq a b : bid_eqb a b = true <-> a = b.
Proof.
  destruct a as [a1 a2], b as [b1 b2]. unfold bid_eqb. cbn [fst snd].
  rewrite andb_true_iff, !N.eqb_eq. split; [intros [-> ->]; reflexivity|intros H; inversion H; auto].
Qed.
Lemma bid_eqb_refl a : bid_eqb a a = true. Proof. apply bid_eqb_eq. reflexivity. Qed.
Lemma bid_eqb_neq a b : bid_eqb a b = false <-> a <> b.
Proof. rewrite <- bid_eqb_eq. destruct (bid_eqb a b); split; congruence. Qed.

(* ------------------------------------------------------------------ kinds of ready-queue entries *)
Definition is_cstart k := match k with KConnStart _ => true | _ => false end.
Definition is_cfail k := match k with KConnWake _ _ None _ => true | _ => false end.
Definition is_dwake k := match k with KDiscWake _ _ _ _ => true | _ => false end.
Definition is_bstart k := match k with KDiscStart _ _ _ true => true | _ => false end.
Definition is_bwake k := match k with KDiscWake _ _ (ADDiscard _ true) _ => true | _ => false end.
Definition is_binfl (e : N * (conn * after_disc)) :=
  match snd (snd e) with ADDiscard _ true => true | _ => false end.

(* connections being opened: _connect tasks scheduled or waiting for the connect callback *)
Definition opening (s : pool) : Z := cnt is_cstart s.(ready) + zlen s.(infl_conn).
(* completions the backend has delivered but the pool's task has not processed yet *)
Definition lag (s : pool) : Z := cnt is_cfail s.(ready) + cnt is_dwake s.(ready).
(* connections handed back with discard=True whose disconnect has not completed: still open *)
Definition nbroken (s : pool) : Z := cnt is_bstart s.(ready) + zlen (filter is_binfl s.(infl_disc)).

Definition InvA (s : pool) : Prop := s.(cur) = zlen s.(g_open) + opening s + lag s.
Definition InvB (s : pool) : Prop := s.(cur) <= s.(maxc) + nbroken s + cnt is_bwake s.(ready).

(* ------------------------------------------------------------------ aspect 1: counting *)
(* keepA s s': s' is s after some bookkeeping that may append harmless entries to the ready
   queue and schedule new connections only under the capacity guard *)
Record keepA (s s' : pool) : Prop := mkKeepA {
  kA_maxc : s'.(maxc) = s.(maxc);
  kA_open : s'.(g_open) = s.(g_open);
  kA_ic : s'.(infl_conn) = s.(infl_conn);
  kA_id : s'.(infl_disc) = s.(infl_disc);
  kA_ready : exists add, s'.(ready) = s.(ready) ++ add /\ s'.(cur) = s.(cur) + cnt is_cstart add
      /\ cnt is_cfail add = 0 /\ cnt is_dwake add = 0 /\ cnt is_bstart add = 0;
  kA_cap : s'.(cur) <= Z.max s.(cur) s.(maxc);
  kA_err : s.(err) = true -> s'.(err) = true }.

Lemma keepA_refl s : keepA s s.
Proof. split; try reflexivity; [exists []; rewrite app_nil_r, !cnt_nil; repeat split; lia | lia | auto]. Qed.

Lemma keepA_trans s1 s2 s3 : keepA s1 s2 -> keepA s2 s3 -> keepA s1 s3.
Proof.
  intros [a1 a2 a3 a4 (d1 & r1 & c1 & f1 & w1 & b1) p1 q1] [e1 e2 e3 e4 (d2 & r2 & c2 & f2 & w2 & b2) p2 q2].
  split; try congruence.
  - exists (d1 ++ d2). rewrite r2, r1, app_assoc, !cnt_app. repeat split; lia.
  - rewrite a1 in *. lia.
  - auto.
Qed.

(* a state that differs from s only in fields the counting invariants do not read *)
Definition sameA (s s' : pool) : Prop :=
  s'.(maxc) = s.(maxc) /\ s'.(g_open) = s.(g_open) /\ s'.(infl_conn) = s.(infl_conn) /\
  s'.(infl_disc) = s.(infl_disc) /\ s'.(ready) = s.(ready) /\ s'.(cur) = s.(cur) /\
  (s.(err) = true -> s'.(err) = true).
Lemma sameA_keepA s0 s s' : sameA s s' -> keepA s0 s -> keepA s0 s'.
Proof.
  intros (h1 & h2 & h3 & h4 & h5 & h6 & h7) K. apply keepA_trans with s; [exact K|].
  split; try assumption; [exists []; rewrite app_nil_r, !cnt_nil; repeat split; try lia; congruence | lia].
Qed.
Ltac sameA_tac := unfold sameA; cbn; repeat split; solve [reflexivity | auto].

Lemma kA_upd s0 b s : keepA s0 s -> keepA s0 (upd b s).
Proof. apply sameA_keepA. sameA_tac. Qed.
Lemma kA_set_blocks s0 v s : keepA s0 s -> keepA s0 (set_blocks v s).
Proof. apply sameA_keepA. sameA_tac. Qed.
Lemma kA_set_starving s0 v s : keepA s0 s -> keepA s0 (set_starving v s).
Proof. apply sameA_keepA. sameA_tac. Qed.
Lemma kA_set_waitlist s0 v s : keepA s0 s -> keepA s0 (set_waitlist v s).
Proof. apply sameA_keepA. sameA_tac. Qed.
Lemma kA_set_overq s0 v s : keepA s0 s -> keepA s0 (set_overq v s).
Proof. apply sameA_keepA. sameA_tac. Qed.
Lemma kA_set_nacq s0 v s : keepA s0 s -> keepA s0 (set_nacq v s).
Proof. apply sameA_keepA. sameA_tac. Qed.
Lemma kA_set_tick_armed s0 v s : keepA s0 s -> keepA s0 (set_tick_armed v s).
Proof. apply sameA_keepA. sameA_tac. Qed.
Lemma kA_set_gc_reqs s0 v s : keepA s0 s -> keepA s0 (set_gc_reqs v s).
Proof. apply sameA_keepA. sameA_tac. Qed.
Lemma kA_set_gc_timers s0 v s : keepA s0 s -> keepA s0 (set_gc_timers v s).
Proof. apply sameA_keepA. sameA_tac. Qed.
Lemma kA_set_gtasks s0 v s : keepA s0 s -> keepA s0 (set_gtasks v s).
Proof. apply sameA_keepA. sameA_tac. Qed.
Lemma kA_set_next_bid s0 v s : keepA s0 s -> keepA s0 (set_next_bid v s).
Proof. apply sameA_keepA. sameA_tac. Qed.
Lemma kA_set_g_held s0 v s : keepA s0 s -> keepA s0 (set_g_held v s).
Proof. apply sameA_keepA. sameA_tac. Qed.
Lemma kA_emit s0 v s : keepA s0 s -> keepA s0 (emit v s).
Proof. apply sameA_keepA. sameA_tac. Qed.
Lemma kA_fail s0 s : keepA s0 s -> keepA s0 (fail s).
Proof. apply sameA_keepA. sameA_tac. Qed.

Definition harmless (k : kont) : bool :=
  negb (is_cstart k) && negb (is_cfail k) && negb (is_dwake k) && negb (is_bstart k).

Lemma kA_append s0 l s : forallb harmless l = true -> keepA s0 s -> keepA s0 (set_ready (s.(ready) ++ l) s).
Proof.
  intros Hh K. apply keepA_trans with s; [exact K|].
  assert (Z0 : forall f, (forall k, harmless k = true -> f k = false) -> cnt f l = 0).
  { intros f Hf. induction l as [|k l IH]; [reflexivity|]. cbn [forallb] in Hh.
    apply andb_true_iff in Hh as [Hk Hl]. rewrite cnt_cons, (Hf k Hk), (IH Hl). reflexivity. }
  split; cbn; try reflexivity.
  - exists l. repeat split.
    + rewrite Z0; [lia|]. intros k; unfold harmless; destruct (is_cstart k); cbn; congruence.
    + apply Z0. intros k; unfold harmless; destruct (is_cstart k), (is_cfail k); cbn; congruence.
    + apply Z0. intros k; unfold harmless; destruct (is_cstart k), (is_cfail k), (is_dwake k); cbn; congruence.
    + apply Z0. intros k; unfold harmless; destruct (is_cstart k), (is_cfail k), (is_dwake k), (is_bstart k); cbn; congruence.
  - lia.
  - auto.
Qed.
Lemma kA_push s0 k s : harmless k = true -> keepA s0 s -> keepA s0 (push k s).
Proof. intros H. unfold push. apply kA_append. cbn. rewrite H. reflexivity. Qed.

Lemma harmless_wake i w ok : harmless (wake_kont i w ok) = true.
Proof. unfold wake_kont. destruct (snd w); reflexivity. Qed.

Lemma kA_wakeup_next s0 i s : keepA s0 s -> keepA s0 (wakeup_next i s).
Proof.
  intros K. unfold wakeup_next. destruct (b_waiters (get_blk i s)); [exact K|].
  apply kA_push; [apply harmless_wake|]. apply kA_upd, K.
Qed.
Lemma kA_abort_waiters s0 i s : keepA s0 s -> keepA s0 (abort_waiters i s).
Proof.
  intros K. unfold abort_waiters.
  change (ready s) with (ready (upd (set_b_waiters [] (get_blk i s)) s)).
  apply kA_append; [|apply kA_upd, K].
  induction (b_waiters (get_blk i s)); cbn; [reflexivity|]. rewrite harmless_wake. assumption.
Qed.
Lemma kA_block_release s0 i c s : keepA s0 s -> keepA s0 (block_release i c s).
Proof. intros K. unfold block_release. apply kA_wakeup_next, kA_upd, K. Qed.
Lemma kA_try_steal s0 i s r s' : try_steal i s = (r, s') -> keepA s0 s -> keepA s0 s'.
Proof.
  unfold try_steal. destruct (b_stack (get_blk i s)); intros E K; inversion E; subst; [exact K|].
  apply kA_upd, K.
Qed.
Lemma kA_sched_new_conn s0 i s : s.(cur) < s.(maxc) -> keepA s0 s -> keepA s0 (sched_new_conn i s).
Proof.
  intros G K. apply keepA_trans with s; [exact K|]. unfold sched_new_conn.
  match goal with |- keepA _ (push _ ?x) => assert (E : sameA (set_cur (cur s + 1) s) x) end.
  { destruct (starving (set_cur (cur s + 1) (upd (set_b_pending (b_pending (get_blk i s) + 1) (get_blk i s)) s)));
      sameA_tac. }
  destruct E as (h1 & h2 & h3 & h4 & h5 & h6 & h7). cbn in *.
  split; cbn; try congruence.
  - exists [KConnStart i]. rewrite h5, h6. rewrite !cnt_cons, !cnt_nil. cbn. repeat split; lia.
  - rewrite h6. lia.
  - exact h7.
Qed.
Lemma kA_sched_transfer s0 f c t s : keepA s0 s -> keepA s0 (sched_transfer f c t s).
Proof.
  intros K. unfold sched_transfer. destruct (alookup c (b_conns (get_blk f s))) as [[|]|]; try (apply kA_fail, K).
  apply kA_push; [reflexivity|].
  match goal with |- keepA _ (if ?x then _ else _) => destruct x end;
    repeat first [apply kA_set_blocks | apply kA_upd]; exact K.
Qed.
Lemma kA_sched_discard s0 i c p s : keepA s0 s -> keepA s0 (sched_discard i c p false s).
Proof. intros K. apply kA_push; [reflexivity|exact K]. Qed.
Lemma kA_maybe_sched_tick s0 s : keepA s0 s -> keepA s0 (maybe_sched_tick s).
Proof. intros K. unfold maybe_sched_tick. destruct (_ && _); [apply kA_set_tick_armed|]; exact K. Qed.
Lemma kA_find_most_starving s0 s s' r : find_most_starving s = (s', r) -> keepA s0 s -> keepA s0 s'.
Proof.
  unfold find_most_starving. destruct (wl_pop _ _) as [wl o]. intros E K.
  destruct o; [|destruct (starve_revive _ _ _)]; inversion E; subst; apply kA_set_waitlist, K.
Qed.
Lemma kA_maybe_free s0 f c s s' r : maybe_free f c s = (s', r) -> keepA s0 s -> keepA s0 s'.
Proof.
  unfold maybe_free. destruct (find_most_starving s) as [s1 to] eqn:E. intros E2 K.
  assert (K1 : keepA s0 s1) by (eapply kA_find_most_starving; eauto).
  destruct to as [j|]; [destruct (bid_eqb j f)|]; inversion E2; subst; try exact K1.
  apply kA_sched_transfer, K1.
Qed.
Lemma kA_release_unused s0 i c s : keepA s0 s -> keepA s0 (release_unused i c s).
Proof.
  intros K. unfold release_unused. match goal with |- keepA _ (if ?x then _ else _) => destruct x end;
    repeat first [apply kA_set_gc_timers | apply kA_set_gc_reqs | apply kA_block_release]; exact K.
Qed.
Lemma kA_try_steal_conn o f l : forall s0 s s' r, try_steal_conn o f l s = (s', r) -> keepA s0 s -> keepA s0 s'.
Proof.
  induction l as [|i l IH]; intros s0 s s' r E K; cbn [try_steal_conn] in E.
  - inversion E; subst; exact K.
  - destruct (bid_eqb i f || negb (should_free o i s)); [eapply IH; eauto|].
    destruct (try_steal i s) as [[c|] s1] eqn:Es; [|eapply IH; eauto].
    inversion E; subst. apply kA_sched_transfer. eapply kA_try_steal; eauto.
Qed.
Lemma kA_try_shrink o i fuel : forall s0 s, keepA s0 s -> keepA s0 (try_shrink o i fuel s).
Proof.
  induction fuel as [|f IH]; intros s0 s K; cbn [try_shrink]; [exact K|].
  destruct (_ && _); [|exact K].
  destruct (try_steal i s) as [[c|] s1] eqn:Es; [|exact K].
  destruct (find_most_starving s1) as [s2 to] eqn:Ef.
  apply IH. assert (K2 : keepA s0 s2) by (eapply kA_find_most_starving; [eauto|]; eapply kA_try_steal; eauto).
  destruct to; [apply kA_sched_transfer|apply kA_sched_discard]; exact K2.
Qed.
Lemma kA_grow i fuel : forall s0 s, keepA s0 s -> keepA s0 (grow i fuel s).
Proof.
  induction fuel as [|f IH]; intros s0 s K; cbn [grow]; [exact K|].
  destruct (_ && _) eqn:G; [|exact K]. apply andb_true_iff in G as [_ G]. apply Z.ltb_lt in G.
  apply IH, kA_sched_new_conn; assumption.
Qed.
Lemma kA_rebalance_one o i s0 s : keepA s0 s -> keepA s0 (rebalance_one o i s).
Proof.
  intros K. unfold rebalance_one.
  destruct (_ <? _); [|destruct (_ <? _); [apply kA_grow|]; exact K].
  match goal with |- keepA _ (if ?x then _ else _) => destruct x end;
    [apply kA_set_overq|]; apply kA_try_shrink, K.
Qed.
Lemma kA_rebalance_loop o l : forall s0 s, keepA s0 s -> keepA s0 (rebalance_loop o l s).
Proof. induction l; intros; cbn [rebalance_loop]; [assumption|]. apply IHl, kA_rebalance_one; assumption. Qed.
Lemma kA_rebalance o s0 s : keepA s0 s -> keepA s0 (rebalance o s).
Proof.
  intros K. unfold rebalance. destruct (starving s); [exact K|].
  apply kA_set_overq, kA_rebalance_loop, kA_set_overq, K.
Qed.

Lemma kA_finish_acquire s0 t d c s : keepA s0 s -> keepA s0 (finish_acquire t d c s).
Proof.
  intros K. unfold finish_acquire.
  destruct (find_db d _) as [b|]; [|apply kA_fail, kA_set_nacq, K].
  destruct (alookup c (b_conns b)) as [[|]|]; try (apply kA_fail, kA_set_nacq, K).
  apply kA_emit, kA_set_g_held, kA_upd, kA_set_nacq, K.
Qed.
Lemma kA_block_acquire s0 t i f s : keepA s0 s -> keepA s0 (block_acquire t i f s).
Proof.
  intros K. unfold block_acquire. destruct (split_last _) as [[r c]|].
  - apply kA_finish_acquire, kA_upd, K.
  - apply kA_upd, K.
Qed.
Lemma kA_get_block s0 d s i s' : get_block d s = (i, s') -> keepA s0 s -> keepA s0 s'.
Proof.
  unfold get_block. destruct (find_db d (blocks s)); intros E K; inversion E; subst; [exact K|].
  apply kA_set_next_bid, kA_set_blocks, K.
Qed.
Ltac kif := match goal with |- keepA _ (if ?x then _ else _) => destruct x eqn:? end.
Lemma kA_acquire_start o t d s0 s : keepA s0 s -> keepA s0 (acquire_start o t d s).
Proof.
  intros K. unfold acquire_start.
  destruct (get_block d _) as [i s1] eqn:Eg.
  assert (K1 : keepA s0 s1) by (eapply kA_get_block; [eauto|]; apply kA_maybe_sched_tick, kA_set_nacq, K).
  set (s2 := upd _ s1). assert (K2 : keepA s0 s2) by (apply kA_upd, K1).
  kif.
  - match goal with H : (_ <? _) = true |- _ => apply Z.ltb_lt in H end.
    apply kA_block_acquire.
    kif; [kif|kif]; try exact K2; apply kA_sched_new_conn; assumption.
  - kif; [|kif].
    + destruct (try_steal_conn o i (overq s2) s2) as [s3 ok] eqn:Et.
      assert (K3 : keepA s0 s3) by (eapply kA_try_steal_conn; eauto).
      apply kA_block_acquire. destruct ok; [|apply kA_set_waitlist]; exact K3.
    + destruct (try_steal_conn o i (overq s2) s2) as [s3 ok] eqn:Et.
      apply kA_block_acquire. eapply kA_try_steal_conn; eauto.
    + apply kA_block_acquire, K2.
Qed.
Lemma kA_acquire_wake t i ok s0 s : keepA s0 s -> keepA s0 (acquire_wake t i ok s).
Proof.
  intros K. unfold acquire_wake. destruct ok.
  - destruct (split_last _) as [[r c]|].
    + apply kA_finish_acquire, kA_upd, K.
    + apply kA_block_acquire, kA_upd, K.
  - apply kA_emit, kA_set_nacq, kA_upd.
    destruct (b_stack _); [exact K|apply kA_wakeup_next, K].
Qed.
Lemma kA_prune_cont t i acc s0 s : keepA s0 s -> keepA s0 (prune_cont t i acc s).
Proof.
  intros K. unfold prune_cont. destruct (_ && _); [apply kA_upd, K|].
  destruct acc as [|a acc']; [apply kA_emit, K|].
  apply kA_set_gtasks.
  apply kA_append; [|exact K]. induction (a :: acc'); cbn; auto.
Qed.
Lemma kA_prune_start t d s0 s : keepA s0 s -> keepA s0 (prune_start t d s).
Proof.
  intros K. unfold prune_start. destruct (find_db _ _); [|apply kA_emit, K].
  apply kA_prune_cont, kA_upd, K.
Qed.
Lemma kA_prune_wake t i acc ok s0 s : keepA s0 s -> keepA s0 (prune_wake t i acc ok s).
Proof.
  intros K. unfold prune_wake. destruct ok.
  - destruct (split_last _) as [[r c]|]; apply kA_prune_cont, kA_upd, K.
  - apply kA_emit, kA_upd. destruct (b_stack _); [exact K|apply kA_wakeup_next, K].
Qed.
Lemma kA_gather_cb t s0 s : keepA s0 s -> keepA s0 (gather_cb t s).
Proof.
  intros K. unfold gather_cb. destruct (alookup _ _); [|exact K].
  destruct (_ <=? _); [apply kA_push; [reflexivity|]|]; apply kA_set_gtasks, K.
Qed.

Lemma kA_tick_scan o ids : forall s0 s tot need drop s' a b c,
  tick_scan o ids s tot need drop = (s', a, b, c) -> keepA s0 s -> keepA s0 s'.
Proof.
  induction ids as [|i r IH]; intros s0 s tot need drop s' a b c E K; cbn [tick_scan] in E.
  - inversion E; subst; exact K.
  - destruct (_ && _); [|destruct (_ =? _)]; eapply IH; eauto; apply kA_upd, K.
Qed.
Lemma kA_drop_all ids : forall s0 s s' r, drop_all ids s = (s', r) -> keepA s0 s -> keepA s0 s'.
Proof.
  induction ids as [|i r IH]; intros s0 s s' r0 E K; cbn [drop_all] in E.
  - inversion E; subst; exact K.
  - destruct (_ || _); [inversion E; subst; exact K|]. eapply IH; eauto. apply kA_set_blocks, K.
Qed.
Lemma kA_modeD_quota o ids : forall s0 s, keepA s0 s -> keepA s0 (modeD_quota o ids s).
Proof.
  induction ids as [|i r IH]; intros s0 s K; cbn [modeD_quota]; [exact K|]. apply IH.
  destruct (_ =? 1); [destruct (mem_n _ _)|destruct (_ <? _)];
    first [apply kA_upd | apply kA_set_blocks]; exact K.
Qed.
Lemma kA_free_loop o i fuel : forall s0 s s' r, free_loop o i fuel s = (s', r) -> keepA s0 s -> keepA s0 s'.
Proof.
  induction fuel as [|f IH]; intros s0 s s' r E K; cbn [free_loop] in E.
  - inversion E; subst; exact K.
  - destruct (should_free o i s); [|inversion E; subst; exact K].
    destruct (try_steal i s) as [[c|] s1] eqn:Es; [|inversion E; subst; exact K].
    destruct (maybe_free i c s1) as [s2 ok] eqn:Em.
    assert (K2 : keepA s0 s2) by (eapply kA_maybe_free; [eauto|]; eapply kA_try_steal; eauto).
    destruct ok; [eapply IH; eauto|]. inversion E; subst. apply kA_release_unused, K2.
Qed.
Lemma kA_modeD_free o ids : forall s0 s, keepA s0 s -> keepA s0 (modeD_free o ids s).
Proof.
  induction ids as [|i r IH]; intros s0 s K; cbn [modeD_free]; [exact K|].
  destruct (free_loop _ _ _ _) as [s1 stop] eqn:Ef.
  assert (K1 : keepA s0 s1) by (eapply kA_free_loop; eauto).
  destruct stop; [exact K1|apply IH, K1].
Qed.
Lemma kA_set_quotas cq : forall s0 s, keepA s0 s -> keepA s0 (set_quotas cq s).
Proof.
  induction cq as [|[d q] r IH]; intros s0 s K; cbn [set_quotas]; [exact K|]. apply IH.
  destruct (find_db _ _); [apply kA_upd|]; exact K.
Qed.
Lemma kA_tick o s0 s : keepA s0 s -> keepA s0 (tick o s).
Proof.
  intros K. unfold tick.
  assert (K0 : keepA s0 (maybe_sched_tick (set_tick_armed false s)))
    by (apply kA_maybe_sched_tick, kA_set_tick_armed, K).
  destruct (blocks _) as [|b [|b2 bs]] eqn:Eb.
  - apply kA_set_starving, K0.
  - apply kA_upd, kA_set_starving, K0.
  - destruct (tick_scan _ _ _ _ _ _) as [[[s1 tot] need] drop] eqn:Et.
    assert (K1 : keepA s0 s1) by (eapply kA_tick_scan; eauto).
    destruct (drop_all _ _) as [s3 crashed] eqn:Ed.
    assert (K3 : keepA s0 s3) by (eapply kA_drop_all; [eauto|]; apply kA_set_starving, K1).
    destruct crashed; [apply kA_emit, K3|].
    kif; [exact K3|]. kif.
    { kif; [apply kA_rebalance|]; exact K3. }
    kif.
    + kif; [apply kA_modeD_free|]; apply kA_modeD_quota, K3.
    + kif; [apply kA_emit|apply kA_rebalance]; apply kA_set_quotas, K3.
Qed.
Lemma kA_gc_block i n : forall s0 s, keepA s0 s -> keepA s0 (gc_block i n s).
Proof.
  induction n as [|m IH]; intros s0 s K; cbn [gc_block]; [exact K|].
  destruct (try_steal i s) as [[c|] s1] eqn:Es; [|exact K].
  apply IH, kA_sched_discard. eapply kA_try_steal; eauto.
Qed.
Lemma kA_gc_all o ids : forall s0 s, keepA s0 s -> keepA s0 (gc_all o ids s).
Proof. induction ids; intros; cbn [gc_all]; [assumption|]. apply IHids, kA_gc_block; assumption. Qed.
Lemma kA_run_gc o s0 s : keepA s0 s -> keepA s0 (run_gc o s).
Proof.
  intros K. unfold run_gc.
  destruct (starving _); [apply kA_set_gc_timers, kA_set_gc_timers, K|].
  apply kA_gc_all. destruct (_ <? _); repeat first [apply kA_set_gc_timers | apply kA_set_gc_reqs]; exact K.
Qed.

(* ---- the counting invariants are preserved by keepA *)
Lemma keepA_InvA s s' : keepA s s' -> InvA s -> InvA s'.
Proof.
  intros [a1 a2 a3 a4 (d & r & c & f & w & b) p q] I. unfold InvA, opening, lag in *.
  rewrite a2, a3, r, !cnt_app. lia.
Qed.
Lemma keepA_InvB s s' : keepA s s' -> InvB s -> InvB s'.
Proof.
  intros [a1 a2 a3 a4 (d & r & c & f & w & b) p q] I. unfold InvB, nbroken in *.
  rewrite a1, a4, r, !cnt_app.
  assert (cnt is_bwake d = 0).
  { pose proof (cnt_nonneg is_bwake d).
    assert (cnt is_bwake d <= cnt is_dwake d) by (apply cnt_le; intros [] ; cbn; congruence). lia. }
  pose proof (cnt_nonneg is_bstart (ready s)). pose proof (cnt_nonneg is_bwake (ready s)).
  pose proof (zlen_nonneg (filter is_binfl (infl_disc s))). lia.
Qed.

Lemma aremove_len {A} k (l : list (N * A)) v : alookup k l = Some v -> zlen (aremove k l) = zlen l - 1.
Proof.
  induction l as [|[k' v'] l IH]; cbn [alookup aremove]; [discriminate|].
  destruct (k =? k')%N; intros E; rewrite ?zlen_cons; [lia|]. rewrite (IH E). lia.
Qed.
Lemma aremove_filter {A} (f : N * A -> bool) k l v :
  alookup k l = Some v -> zlen (filter f (aremove k l)) = zlen (filter f l) - b2z (f (k, v)).
Proof.
  induction l as [|[k' v'] l IH]; cbn [alookup aremove]; [discriminate|].
  destruct (k =? k')%N eqn:E; intros H.
  - inversion H; subst. apply N.eqb_eq in E; subst. cbn [filter]. destruct (f (k', v)); cbn [b2z]; rewrite ?zlen_cons; lia.
  - cbn [filter]. destruct (f (k', v')); rewrite ?zlen_cons, (IH H); lia.
Qed.
Lemma remove1_len c l : In c l -> zlen (remove1 c l) = zlen l - 1.
Proof.
  induction l as [|y l IH]; cbn [remove1 In]; [tauto|].
  destruct (c =? y)%N eqn:E; intros H; rewrite ?zlen_cons; [lia|].
  destruct H as [->|H]; [rewrite N.eqb_refl in E; discriminate|]. rewrite (IH H). lia.
Qed.

(* every disconnect call in flight is for a connection that is open (proved in aspect 2) *)
Definition discs_open (s : pool) : Prop :=
  forall did c a, alookup did s.(infl_disc) = Some (c, a) -> In c s.(g_open).

Definition Inv1 (s : pool) : Prop := InvA s /\ (s.(err) = false -> InvB s).

Lemma keepA_Inv1 s s' : keepA s s' -> Inv1 s -> Inv1 s'.
Proof.
  intros K [A B]. split; [eapply keepA_InvA; eauto|]. intros E. eapply keepA_InvB; eauto.
  apply B. destruct (err s) eqn:Es; [|reflexivity]. rewrite (kA_err _ _ K Es) in E. discriminate.
Qed.

Lemma sched_new_conn_fields i s :
  let s' := sched_new_conn i s in
  s'.(maxc) = s.(maxc) /\ s'.(g_open) = s.(g_open) /\ s'.(infl_conn) = s.(infl_conn) /\
  s'.(infl_disc) = s.(infl_disc) /\ s'.(ready) = s.(ready) ++ [KConnStart i] /\
  s'.(cur) = s.(cur) + 1 /\ s'.(err) = s.(err).
Proof.
  unfold sched_new_conn.
  destruct (starving (set_cur (cur s + 1) (upd (set_b_pending (b_pending (get_blk i s) + 1) (get_blk i s)) s)));
    cbn; repeat split; reflexivity.
Qed.

Lemma harmless_not_bwake k : harmless k = true -> is_bwake k = false.
Proof. destruct k; cbn; try reflexivity. discriminate. Qed.

Lemma Inv1_pop s k r :
  Inv1 s -> s.(ready) = k :: r -> harmless k = true -> Inv1 (set_ready r (set_outs [] s)).
Proof.
  intros [A B] E H. pose proof (harmless_not_bwake _ H) as Hb.
  unfold harmless in H. rewrite !andb_true_iff, !negb_true_iff in H. destruct H as [[[h1 h2] h3] h4].
  split; [|intros Er; specialize (B Er)]; unfold InvA, InvB, opening, lag, nbroken in *; cbn;
    rewrite E, !cnt_cons in *; rewrite ?h1, ?h2, ?h3, ?h4, ?Hb in *; cbn [b2z] in *; lia.
Qed.

Lemma step_Inv1 s e o s' :
  discs_open s -> Inv1 s -> step s e o = Some s' -> Inv1 s'.
Proof.
  intros DO I St. destruct e; cbn [step] in St.
  - (* EAcquire *)
    destruct (_ =? _)%N; inversion St; subst. eapply keepA_Inv1; [|exact I].
    apply kA_push; [reflexivity|]. eapply sameA_keepA; [|apply keepA_refl]. sameA_tac.
  - destruct (_ =? _)%N; inversion St; subst. eapply keepA_Inv1; [|exact I].
    apply kA_push; [reflexivity|]. eapply sameA_keepA; [|apply keepA_refl]. sameA_tac.
  - (* ERelease *)
    inversion St; subst; clear St.
    assert (K0 : keepA s (set_outs [] s)) by (eapply sameA_keepA; [|apply keepA_refl]; sameA_tac).
    unfold release. destruct (find_db d _) as [b|]; [|eapply keepA_Inv1; [apply kA_emit, K0|exact I]].
    destruct (alookup c (b_conns b)) as [[|]|]; try (eapply keepA_Inv1; [apply kA_emit, K0|exact I]).
    set (s1 := maybe_sched_tick _).
    assert (K1 : keepA s s1) by (apply kA_maybe_sched_tick, kA_set_g_held, kA_upd, K0).
    destruct (if should_free o (b_id b) s1 then maybe_free (b_id b) c s1 else (s1, false)) as [s2 moved] eqn:Em.
    assert (K2 : keepA s s2).
    { destruct (should_free o (b_id b) s1); [eapply kA_maybe_free; eauto|inversion Em; subst; exact K1]. }
    destruct moved; [eapply keepA_Inv1; eauto|].
    destruct discard; [|eapply keepA_Inv1; [apply kA_release_unused, K2|exact I]].
    pose proof (keepA_Inv1 _ _ K2 I) as [A2 B2].
    pose proof (sched_new_conn_fields (b_id b) (sched_discard (b_id b) c None true s2)) as (f1 & f2 & f3 & f4 & f5 & f6 & f7).
    cbn zeta in *. split; [|intros Er; rewrite f7 in Er; cbn in Er; specialize (B2 Er)];
      unfold InvA, InvB, opening, lag, nbroken in *; rewrite ?f1, ?f2, ?f3, ?f4, ?f5, ?f6; cbn;
      rewrite !cnt_app, !cnt_cons, !cnt_nil; cbn [b2z is_cstart is_cfail is_dwake is_bstart is_bwake]; lia.
  - (* EConnOk *)
    destruct (alookup cid _) as [i|] eqn:El; inversion St; subst; clear St.
    destruct I as [A B]. pose proof (aremove_len _ _ _ El) as L.
    split; [|intros Er; specialize (B Er)]; unfold InvA, InvB, opening, lag, nbroken in *; cbn;
      rewrite !cnt_app, !cnt_cons, !cnt_nil, ?zlen_cons; cbn [b2z is_cstart is_cfail is_dwake is_bstart is_bwake]; lia.
  - (* EConnFail *)
    destruct (alookup cid _) as [i|] eqn:El; inversion St; subst; clear St.
    destruct I as [A B]. pose proof (aremove_len _ _ _ El) as L.
    split; [|intros Er; specialize (B Er)]; unfold InvA, InvB, opening, lag, nbroken in *; cbn;
      rewrite !cnt_app, !cnt_cons, !cnt_nil; cbn [b2z is_cstart is_cfail is_dwake is_bstart is_bwake]; lia.
  - (* EDiscOk *)
    destruct (alookup did _) as [[c a]|] eqn:El; inversion St; subst; clear St.
    destruct I as [A B]. pose proof (remove1_len _ _ (DO _ _ _ El)) as L.
    pose proof (aremove_filter is_binfl _ _ _ El) as F.
    split; [|intros Er; specialize (B Er)]; unfold InvA, InvB, opening, lag, nbroken in *; cbn;
      rewrite !cnt_app, !cnt_cons, !cnt_nil; cbn [b2z is_cstart is_cfail is_dwake is_bstart]; try lia.
    rewrite F. unfold is_binfl. cbn [snd is_bwake]. destruct a as [to|p [|]]; cbn [b2z]; lia.
  - (* EDiscFail *)
    destruct (alookup did _) as [[c a]|] eqn:El; inversion St; subst; clear St.
    destruct I as [A B]. pose proof (remove1_len _ _ (DO _ _ _ El)) as L.
    pose proof (aremove_filter is_binfl _ _ _ El) as F.
    split; [|intros Er; specialize (B Er)]; unfold InvA, InvB, opening, lag, nbroken in *; cbn;
      rewrite !cnt_app, !cnt_cons, !cnt_nil; cbn [b2z is_cstart is_cfail is_dwake is_bstart]; try lia.
    rewrite F. unfold is_binfl. cbn [snd is_bwake]. destruct a as [to|p [|]]; cbn [b2z]; lia.
  - (* ETick *)
    destruct (tick_armed _); inversion St; subst. eapply keepA_Inv1; [|exact I].
    apply kA_tick. eapply sameA_keepA; [|apply keepA_refl]. sameA_tac.
  - (* EGc *)
    destruct (_ <? _); inversion St; subst. eapply keepA_Inv1; [|exact I].
    apply kA_run_gc. eapply sameA_keepA; [|apply keepA_refl]. sameA_tac.
  - (* ERun *)
    cbn in St. destruct (ready s) as [|k r] eqn:Er; inversion St; subst; clear St.
    set (s0 := set_ready r (set_outs [] s)).
    assert (Hh : harmless k = true -> Inv1 s0) by (intros; eapply Inv1_pop; eauto).
    destruct k; cbn [run_kont].
    + eapply keepA_Inv1; [apply kA_acquire_start, keepA_refl|apply Hh; reflexivity].
    + eapply keepA_Inv1; [apply kA_acquire_wake, keepA_refl|apply Hh; reflexivity].
    + (* KConnStart *)
      destruct I as [A B]. split; [|intros Ee; specialize (B Ee)];
        unfold InvA, InvB, opening, lag, nbroken in *; cbn; rewrite Er, !cnt_cons in *;
        rewrite ?zlen_app, ?zlen_cons, ?zlen_nil; cbn [b2z is_cstart is_cfail is_dwake is_bstart is_bwake] in *; lia.
    + (* KConnWake *)
      destruct res as [c|].
      * eapply keepA_Inv1; [|apply Hh; reflexivity].
        unfold connect_wake. apply kA_block_release, kA_upd, keepA_refl.
      * unfold connect_wake.
        set (s1 := set_cur (cur s0 - 1) s0).
        assert (I1 : Inv1 s1).
        { destruct I as [A B]. split; [|intros Ee; specialize (B Ee)];
            unfold InvA, InvB, opening, lag, nbroken in *; cbn; rewrite Er, !cnt_cons in *;
            cbn [b2z is_cstart is_cfail is_dwake is_bstart is_bwake] in *; lia. }
        set (b := get_blk b0 s1). set (s2 := upd _ s1).
        assert (K2 : keepA s1 s2) by (apply kA_upd, keepA_refl).
        match goal with |- Inv1 (upd _ (if ?x then _ else _)) => destruct x end.
        -- eapply keepA_Inv1; [|exact I1]. apply kA_upd, kA_abort_waiters, K2.
        -- pose proof (keepA_Inv1 _ _ K2 I1) as [A2 B2].
           pose proof (sched_new_conn_fields b0 s2) as (f1 & f2 & f3 & f4 & f5 & f6 & f7). cbn zeta in *.
           assert (C2 : cur s2 = cur s0 - 1) by reflexivity.
           destruct I as [A B].
           split; [|intros Ee; cbn in Ee; rewrite f7 in Ee; specialize (B2 Ee); specialize (B Ee)];
             unfold InvA, InvB, opening, lag, nbroken in *; cbn; rewrite ?f1, ?f2, ?f3, ?f4, ?f5, ?f6;
             rewrite !cnt_app, !cnt_cons, !cnt_nil; cbn [b2z is_cstart is_cfail is_dwake is_bstart is_bwake];
             cbn in A, B; rewrite Er, !cnt_cons in A, B; cbn [b2z is_cstart is_cfail is_dwake is_bstart is_bwake] in A, B;
             try lia.
    + (* KTransStart *)
      pose proof (Hh eq_refl) as [A B]. split; [|intros Ee; specialize (B Ee)];
        unfold InvA, InvB, opening, lag, nbroken in *; cbn in *; rewrite ?filter_app, ?zlen_app; cbn; try lia.
    + (* KDiscStart *)
      unfold discard_start. destruct (alookup c _) as [[|]|]; try (split; [|cbn; discriminate]).
      1,3: (destruct I as [A _]; unfold InvA, opening, lag in *; cbn; rewrite Er, !cnt_cons in A; cbn [b2z is_cstart is_cfail is_dwake] in A; lia).
      destruct I as [A B]. split; [|intros Ee; specialize (B Ee)];
        unfold InvA, InvB, opening, lag, nbroken in *; cbn in *; rewrite Er, !cnt_cons in *;
        rewrite ?filter_app, ?zlen_app; cbn [filter is_binfl snd];
        destruct broken; cbn [b2z is_cstart is_cfail is_dwake is_bstart is_bwake zlen length app] in *; try lia.
    + (* KDiscWake *)
      destruct I as [A B]. unfold disconnect_wake.
      destruct a as [to|[t|] br]; (split; [|intros Ee; specialize (B Ee)]);
        unfold InvA, InvB, opening, lag, nbroken in *; cbn in *; rewrite Er, !cnt_cons in *;
        rewrite ?cnt_app, ?cnt_cons, ?cnt_nil, ?zlen_app, ?zlen_cons, ?zlen_nil;
        try destruct br; cbn [b2z is_cstart is_cfail is_dwake is_bstart is_bwake] in *; lia.
    + eapply keepA_Inv1; [apply kA_prune_start, keepA_refl|apply Hh; reflexivity].
    + eapply keepA_Inv1; [apply kA_prune_wake, keepA_refl|apply Hh; reflexivity].
    + eapply keepA_Inv1; [apply kA_gather_cb, keepA_refl|apply Hh; reflexivity].
    + eapply keepA_Inv1; [apply kA_emit, keepA_refl|apply Hh; reflexivity].
Qed.
