(* Shared executable model of edb/server/connpool/pool.py (Block, BasePool, Pool) for the
   checks C15 (safety) and C16 (liveness, partial).

   Granularity: asyncio atomic sections.  The state carries the pool's integer fields, the
   per-block fields, an explicit FIFO ready queue of task continuations ([kont]), the connect /
   disconnect calls in flight, the suspended tasks, and GHOST TRUTH of the fake backend
   (g_open, g_held, g_conndb) which no transition ever reads.

   Everything in pool.py that depends on floats or on the clock enters as an ORACLE value of
   the event ([oracle]): the outcome of the "holding its only connection for less than the
   average connect time" test per block (o_recent), whether a block's rolling average of
   waiters is non-zero (o_avgnz), the Mode C quota vector and whether `assert capacity_left >
   0` fired (o_cq, o_capcrash), how many connections of each stack are old enough for the GC
   (o_gcn).  The harness reads them off the real pool; the theorems quantify over all values.

   Not modelled: logging, snapshots/stats callback, Pool.prune_all_connections (HA failover:
   closes lent connections on purpose; outside the property), cancellation of a prune task,
   _NaivePool, pool2.  Cancellation of acquire() by its caller IS modelled (event ECancel). *)
From Coq Require Import List ZArith NArith Bool Lia.
Import ListNotations.
Open Scope Z_scope.

Notation db := N (only parsing).
Notation conn := N (only parsing).
Notation tid := N (only parsing).
Notation bid := (N * N)%type (only parsing).   (* identity of a Block object: (dbname, creation number) *)

(* the coroutine frame of a task suspended on a waiter future of a block *)
Inductive wk :=
 | WAcq                              (* Pool.acquire -> Block.acquire -> try_acquire *)
 | WPrune (acc : list conn)          (* prune_inactive_connections: local list `conns` so far *)
 | WDone.                            (* the future of a cancelled acquire(): done, still in the deque *)

Record blk := mkBlk {
  b_id : bid;                       (* identity of the Block object; fst = Block.dbname *)
  b_conns : list (conn * bool);     (* Block.conns: dict order; bool = ConnectionState.in_use *)
  b_stack : list conn;              (* Block.conn_stack: bottom first, top last *)
  b_waiters : list (tid * wk);      (* Block.conn_waiters: head first; the task awaiting each future + its frame *)
  b_pending : Z;                    (* pending_conns *)
  b_acq : Z;                        (* conn_acquired_num *)
  b_nwait : Z;                      (* conn_waiters_num *)
  b_quota : Z;
  b_supp : bool;                    (* suppressed *)
  b_fails : Z }.                    (* connect_failures_num *)

Definition set_b_conns v b := mkBlk b.(b_id) v b.(b_stack) b.(b_waiters) b.(b_pending) b.(b_acq) b.(b_nwait) b.(b_quota) b.(b_supp) b.(b_fails).
Definition set_b_stack v b := mkBlk b.(b_id) b.(b_conns) v b.(b_waiters) b.(b_pending) b.(b_acq) b.(b_nwait) b.(b_quota) b.(b_supp) b.(b_fails).
Definition set_b_waiters v b := mkBlk b.(b_id) b.(b_conns) b.(b_stack) v b.(b_pending) b.(b_acq) b.(b_nwait) b.(b_quota) b.(b_supp) b.(b_fails).
Definition set_b_pending v b := mkBlk b.(b_id) b.(b_conns) b.(b_stack) b.(b_waiters) v b.(b_acq) b.(b_nwait) b.(b_quota) b.(b_supp) b.(b_fails).
Definition set_b_acq v b := mkBlk b.(b_id) b.(b_conns) b.(b_stack) b.(b_waiters) b.(b_pending) v b.(b_nwait) b.(b_quota) b.(b_supp) b.(b_fails).
Definition set_b_nwait v b := mkBlk b.(b_id) b.(b_conns) b.(b_stack) b.(b_waiters) b.(b_pending) b.(b_acq) v b.(b_quota) b.(b_supp) b.(b_fails).
Definition set_b_quota v b := mkBlk b.(b_id) b.(b_conns) b.(b_stack) b.(b_waiters) b.(b_pending) b.(b_acq) b.(b_nwait) v b.(b_supp) b.(b_fails).
Definition set_b_supp v b := mkBlk b.(b_id) b.(b_conns) b.(b_stack) b.(b_waiters) b.(b_pending) b.(b_acq) b.(b_nwait) b.(b_quota) v b.(b_fails).
Definition set_b_fails v b := mkBlk b.(b_id) b.(b_conns) b.(b_stack) b.(b_waiters) b.(b_pending) b.(b_acq) b.(b_nwait) b.(b_quota) b.(b_supp) v.

Definition b_db (b : blk) : db := fst b.(b_id).
Definition new_blk (i : bid) : blk := mkBlk i [] [] [] 0 0 0 1 false 0.
(* what a dropped (stale) Block object looks like: _drop_block asserted all of this *)
Definition stale_blk (i : bid) : blk := mkBlk i [] [] [] 0 0 0 0 false 0.

(* what a disconnect call is followed by *)
Inductive after_disc :=
 | ADTransfer (to : bid)                 (* BasePool._transfer: re-increment + connect for [to] *)
 | ADDiscard (parent : option tid) (broken : bool).
   (* BasePool._discard_conn; parent = prune task gathering it; broken (ghost) = the holder
      handed the connection back with discard=True *)

(* continuations in asyncio's ready queue: one entry = one Task step / callback *)
Inductive kont :=
 | KAcqStart (t : tid) (d : db)                       (* first step of Pool.acquire(d) *)
 | KAcqWake (t : tid) (b : bid) (ok : bool)           (* waiter future done: result / exception *)
 | KConnStart (b : bid)                               (* first step of BasePool._connect *)
 | KConnWake (cid : N) (b : bid) (res : option conn) (nodb : bool)
 | KTransStart (from : bid) (c : conn) (to : bid)     (* first step of BasePool._transfer *)
 | KDiscStart (b : bid) (c : conn) (parent : option tid) (broken : bool)   (* first step of _discard_conn *)
 | KDiscWake (did : N) (c : conn) (a : after_disc) (ok : bool)
 | KPruneStart (t : tid) (d : db)
 | KPruneWake (t : tid) (b : bid) (acc : list conn) (ok : bool)
 | KGatherCb (t : tid)                                (* asyncio.gather's _done_callback *)
 | KPruneFin (t : tid)                                (* prune task resumes after gather *)
 | KAcqDead (t : tid)                                 (* first step of an acquire task cancelled before it started *)
 | KAcqWakeC (t : tid) (b : bid) (late : bool).
   (* the acquire task resumes with CancelledError; late = its waiter future had already been
      completed (result or exception) when the task was cancelled, otherwise the future itself
      was cancelled and still sits in the deque *)

(* float / clock dependent decisions, read off the real pool by the harness *)
Record oracle := mkOracle {
  o_recent : list db;         (* blocks with  now - last_connect_timestamp < max(conntime_avg, MIN_CONN_TIME) *)
  o_avgnz : list db;          (* _tick: blocks whose nwaiters_avg is non-zero after this tick's sample *)
  o_cq : list (db * Z);       (* _tick Mode C: quota assigned to each block *)
  o_capcrash : bool;          (* _tick Mode C: `assert capacity_left > 0` failed *)
  o_gcn : list (db * nat) }.  (* _run_gc: connections at the bottom of each stack older than the GC interval *)

(* what the environment observes *)
Inductive out :=
 | OConnect (cid : N) (d : db)          (* connect callback invoked for database d *)
 | ODisconnect (did : N) (c : conn)     (* disconnect callback invoked on c *)
 | OAcquired (t : tid) (c : conn)       (* acquire() of task t returned c *)
 | OAcqFailed (t : tid)                 (* acquire() of task t raised the connect error *)
 | OReleaseErr (k : N)                  (* release() raised: 1 unknown db, 2 foreign connection, 3 not in use *)
 | OAcqCancelled (t : tid)              (* acquire() of task t ended with CancelledError *)
 | OPruneDone (t : tid) | OPruneFailed (t : tid)
 | OTickCrash.                          (* an assertion inside _tick failed *)

Record pool := mkPool {
  maxc : Z;
  cur : Z;
  blocks : list blk;
  starving : bool;
  waitlist : list bid;
  overq : list bid;
  nacq : Z;
  tick_armed : bool;
  gc_reqs : Z;
  gc_timers : Z;
  ready : list kont;
  infl_conn : list (N * bid);
  infl_disc : list (N * (conn * after_disc));
  gtasks : list (tid * Z);
  next_bid : N;
  next_conn : N;
  next_cid : N;
  next_did : N;
  next_tid : N;
  err : bool;
  outs : list out;
  g_open : list conn;
  g_held : list (conn * (tid * db));
  g_conndb : list (conn * db) }.

Definition set_maxc (v : Z) (s : pool) : pool :=
  mkPool v (s.(cur)) (s.(blocks)) (s.(starving)) (s.(waitlist)) (s.(overq)) (s.(nacq)) (s.(tick_armed)) (s.(gc_reqs)) (s.(gc_timers)) (s.(ready)) (s.(infl_conn)) (s.(infl_disc)) (s.(gtasks)) (s.(next_bid)) (s.(next_conn)) (s.(next_cid)) (s.(next_did)) (s.(next_tid)) (s.(err)) (s.(outs)) (s.(g_open)) (s.(g_held)) (s.(g_conndb)).
Definition set_cur (v : Z) (s : pool) : pool :=
  mkPool (s.(maxc)) v (s.(blocks)) (s.(starving)) (s.(waitlist)) (s.(overq)) (s.(nacq)) (s.(tick_armed)) (s.(gc_reqs)) (s.(gc_timers)) (s.(ready)) (s.(infl_conn)) (s.(infl_disc)) (s.(gtasks)) (s.(next_bid)) (s.(next_conn)) (s.(next_cid)) (s.(next_did)) (s.(next_tid)) (s.(err)) (s.(outs)) (s.(g_open)) (s.(g_held)) (s.(g_conndb)).
Definition set_blocks (v : list blk) (s : pool) : pool :=
  mkPool (s.(maxc)) (s.(cur)) v (s.(starving)) (s.(waitlist)) (s.(overq)) (s.(nacq)) (s.(tick_armed)) (s.(gc_reqs)) (s.(gc_timers)) (s.(ready)) (s.(infl_conn)) (s.(infl_disc)) (s.(gtasks)) (s.(next_bid)) (s.(next_conn)) (s.(next_cid)) (s.(next_did)) (s.(next_tid)) (s.(err)) (s.(outs)) (s.(g_open)) (s.(g_held)) (s.(g_conndb)).
Definition set_starving (v : bool) (s : pool) : pool :=
  mkPool (s.(maxc)) (s.(cur)) (s.(blocks)) v (s.(waitlist)) (s.(overq)) (s.(nacq)) (s.(tick_armed)) (s.(gc_reqs)) (s.(gc_timers)) (s.(ready)) (s.(infl_conn)) (s.(infl_disc)) (s.(gtasks)) (s.(next_bid)) (s.(next_conn)) (s.(next_cid)) (s.(next_did)) (s.(next_tid)) (s.(err)) (s.(outs)) (s.(g_open)) (s.(g_held)) (s.(g_conndb)).
Definition set_waitlist (v : list bid) (s : pool) : pool :=
  mkPool (s.(maxc)) (s.(cur)) (s.(blocks)) (s.(starving)) v (s.(overq)) (s.(nacq)) (s.(tick_armed)) (s.(gc_reqs)) (s.(gc_timers)) (s.(ready)) (s.(infl_conn)) (s.(infl_disc)) (s.(gtasks)) (s.(next_bid)) (s.(next_conn)) (s.(next_cid)) (s.(next_did)) (s.(next_tid)) (s.(err)) (s.(outs)) (s.(g_open)) (s.(g_held)) (s.(g_conndb)).
Definition set_overq (v : list bid) (s : pool) : pool :=
  mkPool (s.(maxc)) (s.(cur)) (s.(blocks)) (s.(starving)) (s.(waitlist)) v (s.(nacq)) (s.(tick_armed)) (s.(gc_reqs)) (s.(gc_timers)) (s.(ready)) (s.(infl_conn)) (s.(infl_disc)) (s.(gtasks)) (s.(next_bid)) (s.(next_conn)) (s.(next_cid)) (s.(next_did)) (s.(next_tid)) (s.(err)) (s.(outs)) (s.(g_open)) (s.(g_held)) (s.(g_conndb)).
Definition set_nacq (v : Z) (s : pool) : pool :=
  mkPool (s.(maxc)) (s.(cur)) (s.(blocks)) (s.(starving)) (s.(waitlist)) (s.(overq)) v (s.(tick_armed)) (s.(gc_reqs)) (s.(gc_timers)) (s.(ready)) (s.(infl_conn)) (s.(infl_disc)) (s.(gtasks)) (s.(next_bid)) (s.(next_conn)) (s.(next_cid)) (s.(next_did)) (s.(next_tid)) (s.(err)) (s.(outs)) (s.(g_open)) (s.(g_held)) (s.(g_conndb)).
Definition set_tick_armed (v : bool) (s : pool) : pool :=
  mkPool (s.(maxc)) (s.(cur)) (s.(blocks)) (s.(starving)) (s.(waitlist)) (s.(overq)) (s.(nacq)) v (s.(gc_reqs)) (s.(gc_timers)) (s.(ready)) (s.(infl_conn)) (s.(infl_disc)) (s.(gtasks)) (s.(next_bid)) (s.(next_conn)) (s.(next_cid)) (s.(next_did)) (s.(next_tid)) (s.(err)) (s.(outs)) (s.(g_open)) (s.(g_held)) (s.(g_conndb)).
Definition set_gc_reqs (v : Z) (s : pool) : pool :=
  mkPool (s.(maxc)) (s.(cur)) (s.(blocks)) (s.(starving)) (s.(waitlist)) (s.(overq)) (s.(nacq)) (s.(tick_armed)) v (s.(gc_timers)) (s.(ready)) (s.(infl_conn)) (s.(infl_disc)) (s.(gtasks)) (s.(next_bid)) (s.(next_conn)) (s.(next_cid)) (s.(next_did)) (s.(next_tid)) (s.(err)) (s.(outs)) (s.(g_open)) (s.(g_held)) (s.(g_conndb)).
Definition set_gc_timers (v : Z) (s : pool) : pool :=
  mkPool (s.(maxc)) (s.(cur)) (s.(blocks)) (s.(starving)) (s.(waitlist)) (s.(overq)) (s.(nacq)) (s.(tick_armed)) (s.(gc_reqs)) v (s.(ready)) (s.(infl_conn)) (s.(infl_disc)) (s.(gtasks)) (s.(next_bid)) (s.(next_conn)) (s.(next_cid)) (s.(next_did)) (s.(next_tid)) (s.(err)) (s.(outs)) (s.(g_open)) (s.(g_held)) (s.(g_conndb)).
Definition set_ready (v : list kont) (s : pool) : pool :=
  mkPool (s.(maxc)) (s.(cur)) (s.(blocks)) (s.(starving)) (s.(waitlist)) (s.(overq)) (s.(nacq)) (s.(tick_armed)) (s.(gc_reqs)) (s.(gc_timers)) v (s.(infl_conn)) (s.(infl_disc)) (s.(gtasks)) (s.(next_bid)) (s.(next_conn)) (s.(next_cid)) (s.(next_did)) (s.(next_tid)) (s.(err)) (s.(outs)) (s.(g_open)) (s.(g_held)) (s.(g_conndb)).
Definition set_infl_conn (v : list (N * bid)) (s : pool) : pool :=
  mkPool (s.(maxc)) (s.(cur)) (s.(blocks)) (s.(starving)) (s.(waitlist)) (s.(overq)) (s.(nacq)) (s.(tick_armed)) (s.(gc_reqs)) (s.(gc_timers)) (s.(ready)) v (s.(infl_disc)) (s.(gtasks)) (s.(next_bid)) (s.(next_conn)) (s.(next_cid)) (s.(next_did)) (s.(next_tid)) (s.(err)) (s.(outs)) (s.(g_open)) (s.(g_held)) (s.(g_conndb)).
Definition set_infl_disc (v : list (N * (conn * after_disc))) (s : pool) : pool :=
  mkPool (s.(maxc)) (s.(cur)) (s.(blocks)) (s.(starving)) (s.(waitlist)) (s.(overq)) (s.(nacq)) (s.(tick_armed)) (s.(gc_reqs)) (s.(gc_timers)) (s.(ready)) (s.(infl_conn)) v (s.(gtasks)) (s.(next_bid)) (s.(next_conn)) (s.(next_cid)) (s.(next_did)) (s.(next_tid)) (s.(err)) (s.(outs)) (s.(g_open)) (s.(g_held)) (s.(g_conndb)).
Definition set_gtasks (v : list (tid * Z)) (s : pool) : pool :=
  mkPool (s.(maxc)) (s.(cur)) (s.(blocks)) (s.(starving)) (s.(waitlist)) (s.(overq)) (s.(nacq)) (s.(tick_armed)) (s.(gc_reqs)) (s.(gc_timers)) (s.(ready)) (s.(infl_conn)) (s.(infl_disc)) v (s.(next_bid)) (s.(next_conn)) (s.(next_cid)) (s.(next_did)) (s.(next_tid)) (s.(err)) (s.(outs)) (s.(g_open)) (s.(g_held)) (s.(g_conndb)).
Definition set_next_bid (v : N) (s : pool) : pool :=
  mkPool (s.(maxc)) (s.(cur)) (s.(blocks)) (s.(starving)) (s.(waitlist)) (s.(overq)) (s.(nacq)) (s.(tick_armed)) (s.(gc_reqs)) (s.(gc_timers)) (s.(ready)) (s.(infl_conn)) (s.(infl_disc)) (s.(gtasks)) v (s.(next_conn)) (s.(next_cid)) (s.(next_did)) (s.(next_tid)) (s.(err)) (s.(outs)) (s.(g_open)) (s.(g_held)) (s.(g_conndb)).
Definition set_next_conn (v : N) (s : pool) : pool :=
  mkPool (s.(maxc)) (s.(cur)) (s.(blocks)) (s.(starving)) (s.(waitlist)) (s.(overq)) (s.(nacq)) (s.(tick_armed)) (s.(gc_reqs)) (s.(gc_timers)) (s.(ready)) (s.(infl_conn)) (s.(infl_disc)) (s.(gtasks)) (s.(next_bid)) v (s.(next_cid)) (s.(next_did)) (s.(next_tid)) (s.(err)) (s.(outs)) (s.(g_open)) (s.(g_held)) (s.(g_conndb)).
Definition set_next_cid (v : N) (s : pool) : pool :=
  mkPool (s.(maxc)) (s.(cur)) (s.(blocks)) (s.(starving)) (s.(waitlist)) (s.(overq)) (s.(nacq)) (s.(tick_armed)) (s.(gc_reqs)) (s.(gc_timers)) (s.(ready)) (s.(infl_conn)) (s.(infl_disc)) (s.(gtasks)) (s.(next_bid)) (s.(next_conn)) v (s.(next_did)) (s.(next_tid)) (s.(err)) (s.(outs)) (s.(g_open)) (s.(g_held)) (s.(g_conndb)).
Definition set_next_did (v : N) (s : pool) : pool :=
  mkPool (s.(maxc)) (s.(cur)) (s.(blocks)) (s.(starving)) (s.(waitlist)) (s.(overq)) (s.(nacq)) (s.(tick_armed)) (s.(gc_reqs)) (s.(gc_timers)) (s.(ready)) (s.(infl_conn)) (s.(infl_disc)) (s.(gtasks)) (s.(next_bid)) (s.(next_conn)) (s.(next_cid)) v (s.(next_tid)) (s.(err)) (s.(outs)) (s.(g_open)) (s.(g_held)) (s.(g_conndb)).
Definition set_next_tid (v : N) (s : pool) : pool :=
  mkPool (s.(maxc)) (s.(cur)) (s.(blocks)) (s.(starving)) (s.(waitlist)) (s.(overq)) (s.(nacq)) (s.(tick_armed)) (s.(gc_reqs)) (s.(gc_timers)) (s.(ready)) (s.(infl_conn)) (s.(infl_disc)) (s.(gtasks)) (s.(next_bid)) (s.(next_conn)) (s.(next_cid)) (s.(next_did)) v (s.(err)) (s.(outs)) (s.(g_open)) (s.(g_held)) (s.(g_conndb)).
Definition set_err (v : bool) (s : pool) : pool :=
  mkPool (s.(maxc)) (s.(cur)) (s.(blocks)) (s.(starving)) (s.(waitlist)) (s.(overq)) (s.(nacq)) (s.(tick_armed)) (s.(gc_reqs)) (s.(gc_timers)) (s.(ready)) (s.(infl_conn)) (s.(infl_disc)) (s.(gtasks)) (s.(next_bid)) (s.(next_conn)) (s.(next_cid)) (s.(next_did)) (s.(next_tid)) v (s.(outs)) (s.(g_open)) (s.(g_held)) (s.(g_conndb)).
Definition set_outs (v : list out) (s : pool) : pool :=
  mkPool (s.(maxc)) (s.(cur)) (s.(blocks)) (s.(starving)) (s.(waitlist)) (s.(overq)) (s.(nacq)) (s.(tick_armed)) (s.(gc_reqs)) (s.(gc_timers)) (s.(ready)) (s.(infl_conn)) (s.(infl_disc)) (s.(gtasks)) (s.(next_bid)) (s.(next_conn)) (s.(next_cid)) (s.(next_did)) (s.(next_tid)) (s.(err)) v (s.(g_open)) (s.(g_held)) (s.(g_conndb)).
Definition set_g_open (v : list conn) (s : pool) : pool :=
  mkPool (s.(maxc)) (s.(cur)) (s.(blocks)) (s.(starving)) (s.(waitlist)) (s.(overq)) (s.(nacq)) (s.(tick_armed)) (s.(gc_reqs)) (s.(gc_timers)) (s.(ready)) (s.(infl_conn)) (s.(infl_disc)) (s.(gtasks)) (s.(next_bid)) (s.(next_conn)) (s.(next_cid)) (s.(next_did)) (s.(next_tid)) (s.(err)) (s.(outs)) v (s.(g_held)) (s.(g_conndb)).
Definition set_g_held (v : list (conn * (tid * db))) (s : pool) : pool :=
  mkPool (s.(maxc)) (s.(cur)) (s.(blocks)) (s.(starving)) (s.(waitlist)) (s.(overq)) (s.(nacq)) (s.(tick_armed)) (s.(gc_reqs)) (s.(gc_timers)) (s.(ready)) (s.(infl_conn)) (s.(infl_disc)) (s.(gtasks)) (s.(next_bid)) (s.(next_conn)) (s.(next_cid)) (s.(next_did)) (s.(next_tid)) (s.(err)) (s.(outs)) (s.(g_open)) v (s.(g_conndb)).
Definition set_g_conndb (v : list (conn * db)) (s : pool) : pool :=
  mkPool (s.(maxc)) (s.(cur)) (s.(blocks)) (s.(starving)) (s.(waitlist)) (s.(overq)) (s.(nacq)) (s.(tick_armed)) (s.(gc_reqs)) (s.(gc_timers)) (s.(ready)) (s.(infl_conn)) (s.(infl_disc)) (s.(gtasks)) (s.(next_bid)) (s.(next_conn)) (s.(next_cid)) (s.(next_did)) (s.(next_tid)) (s.(err)) (s.(outs)) (s.(g_open)) (s.(g_held)) v.

(* ------------------------------------------------------------------ small list helpers *)
Fixpoint alookup {A} (k : N) (l : list (N * A)) : option A :=
  match l with [] => None | (k', v) :: r => if (k =? k')%N then Some v else alookup k r end.
Fixpoint aremove {A} (k : N) (l : list (N * A)) : list (N * A) :=
  match l with [] => [] | (k', v) :: r => if (k =? k')%N then r else (k', v) :: aremove k r end.
Fixpoint aset {A} (k : N) (v : A) (l : list (N * A)) : list (N * A) :=
  match l with [] => [] | (k', v') :: r => if (k =? k')%N then (k', v) :: r else (k', v') :: aset k v r end.
Fixpoint mem_n (x : N) (l : list N) : bool :=
  match l with [] => false | y :: r => if (x =? y)%N then true else mem_n x r end.
Fixpoint remove1 (x : N) (l : list N) : list N :=
  match l with [] => [] | y :: r => if (x =? y)%N then r else y :: remove1 x r end.
(* deque.pop(): split off the last element *)
Fixpoint split_last {A} (l : list A) : option (list A * A) :=
  match l with
  | [] => None
  | x :: r => match split_last r with None => Some ([], x) | Some (r', y) => Some (x :: r', y) end
  end.
Definition zlen {A} (l : list A) : Z := Z.of_nat (length l).
Definition bid_eqb (a b : bid) : bool := (fst a =? fst b)%N && (snd a =? snd b)%N.
Fixpoint mem_bid (x : bid) (l : list bid) : bool :=
  match l with [] => false | y :: r => if bid_eqb x y then true else mem_bid x r end.

(* ------------------------------------------------------------------ the OrderedDict of blocks *)
Fixpoint find_bid (i : bid) (bs : list blk) : option blk :=
  match bs with [] => None | b :: r => if bid_eqb i b.(b_id) then Some b else find_bid i r end.
Fixpoint find_db (d : db) (bs : list blk) : option blk :=
  match bs with [] => None | b :: r => if (d =? b_db b)%N then Some b else find_db d r end.
Fixpoint upd_blk (b : blk) (bs : list blk) : list blk :=
  match bs with [] => [] | b' :: r => if bid_eqb b.(b_id) b'.(b_id) then b :: r else b' :: upd_blk b r end.
Fixpoint remove_bid (i : bid) (bs : list blk) : list blk :=
  match bs with [] => [] | b :: r => if bid_eqb i b.(b_id) then r else b :: remove_bid i r end.
Definition move_end (i : bid) (bs : list blk) : list blk :=
  match find_bid i bs with Some b => remove_bid i bs ++ [b] | None => bs end.
Definition move_front (i : bid) (bs : list blk) : list blk :=
  match find_bid i bs with Some b => b :: remove_bid i bs | None => bs end.

Definition count_conns (b : blk) : Z := zlen b.(b_conns) + b.(b_pending).
Definition over_quota (b : blk) : Z := Z.max (count_conns b - b.(b_quota)) 0.
Definition approx_avail (b : blk) : Z := Z.max (count_conns b - b.(b_acq) - b.(b_nwait)) 0.

(* a Block object reachable through a stale reference behaves like an empty block *)
Definition get_blk (i : bid) (s : pool) : blk :=
  match find_bid i s.(blocks) with Some b => b | None => stale_blk i end.
Definition upd (b : blk) (s : pool) : pool := set_blocks (upd_blk b s.(blocks)) s.
Definition push (k : kont) (s : pool) : pool := set_ready (s.(ready) ++ [k]) s.
Definition emit (o : out) (s : pool) : pool := set_outs (s.(outs) ++ [o]) s.
Definition fail (s : pool) : pool := set_err true s.   (* a branch the real code cannot reach *)

(* the ready-queue entry created when a waiter future is completed *)
Definition wake_kont (i : bid) (w : tid * wk) (ok : bool) : kont :=
  match snd w with
  | WAcq => KAcqWake (fst w) i ok
  | WPrune acc => KPruneWake (fst w) i acc ok
  | WDone => KAcqDead (fst w)            (* never used: done futures are skipped *)
  end.
Definition is_done (w : tid * wk) : bool := match snd w with WDone => true | _ => false end.
(* `while self.conn_waiters: waiter = popleft(); if not waiter.done(): ...; break` *)
Fixpoint drop_done (ws : list (tid * wk)) : list (tid * wk) :=
  match ws with
  | [] => []
  | w :: r => if is_done w then drop_done r else ws
  end.

(* Block._wakeup_next_waiter: cancelled (done) futures are popped and skipped *)
Definition wakeup_next (i : bid) (s : pool) : pool :=
  let b := get_blk i s in
  match drop_done b.(b_waiters) with
  | [] => upd (set_b_waiters [] b) s
  | w :: ws => push (wake_kont i w true) (upd (set_b_waiters ws b) s)
  end.

(* Block.abort_waiters: every queued future is popped; the pending ones get the exception *)
Definition abort_waiters (i : bid) (s : pool) : pool :=
  let b := get_blk i s in
  set_ready (s.(ready) ++ map (fun w => wake_kont i w false) (filter (fun w => negb (is_done w)) b.(b_waiters)))
    (upd (set_b_waiters [] b) s).

(* Block.release *)
Definition block_release (i : bid) (c : conn) (s : pool) : pool :=
  let b := get_blk i s in
  wakeup_next i (upd (set_b_stack (b.(b_stack) ++ [c]) b) s).

(* Block.try_steal(None) *)
Definition try_steal (i : bid) (s : pool) : option conn * pool :=
  let b := get_blk i s in
  match b.(b_stack) with
  | [] => (None, s)
  | c :: r => (Some c, upd (set_b_stack r b) s)
  end.

(* BasePool._schedule_new_conn *)
Definition sched_new_conn (i : bid) (s : pool) : pool :=
  let b := get_blk i s in
  let s1 := set_cur (s.(cur) + 1) (upd (set_b_pending (b.(b_pending) + 1) b) s) in
  let s2 := if s1.(starving) then set_blocks (move_end i s1.(blocks)) s1 else s1 in
  push (KConnStart i) s2.

(* BasePool._schedule_transfer *)
Definition sched_transfer (from : bid) (c : conn) (to : bid) (s : pool) : pool :=
  let fb := get_blk from s in
  match alookup c fb.(b_conns) with
  | Some false =>
      let s1 := upd (set_b_conns (aremove c fb.(b_conns)) fb) s in
      let tb := get_blk to s1 in
      let s2 := upd (set_b_pending (tb.(b_pending) + 1) tb) s1 in
      let s3 := if s2.(starving)
                then set_blocks (move_end from (move_end to s2.(blocks))) s2 else s2 in
      push (KTransStart from c to) s3
  | _ => fail s            (* assert not in_use / KeyError *)
  end.

(* BasePool._schedule_discard *)
Definition sched_discard (i : bid) (c : conn) (parent : option tid) (broken : bool) (s : pool) : pool :=
  push (KDiscStart i c parent broken) s.

(* Pool._maybe_schedule_tick (the snapshot part is not modelled) *)
Definition maybe_sched_tick (s : pool) : pool :=
  if negb (s.(nacq) =? 0) && negb s.(tick_armed) then set_tick_armed true s else s.

(* Pool._should_free_conn *)
Definition should_free (o : oracle) (i : bid) (s : pool) : bool :=
  let b := get_blk i s in
  if (length s.(blocks) <=? 1)%nat then false else
  let size := count_conns b in
  if negb s.(starving) && (size <=? b.(b_quota)) then false else
  if s.(starving) && (size =? 1) && negb (b.(b_nwait) =? 0) && mem_n (b_db b) o.(o_recent)
  then false else true.

(* Pool._find_most_starving_block *)
Fixpoint wl_pop (bs : list blk) (wl : list bid) : list bid * option bid :=
  match wl with
  | [] => ([], None)
  | i :: r =>
      match find_bid i bs with
      | Some b => if (count_conns b =? 0) && negb (b.(b_nwait) =? 0) then (r, Some i) else wl_pop bs r
      | None => wl_pop bs r
      end
  end.
Fixpoint starve_revive (bs : list blk) (mx : Z) (best : option bid) : option bid :=
  match bs with
  | [] => best
  | b :: r =>
      if (count_conns b =? 0) && negb (b.(b_nwait) =? 0) && negb b.(b_supp) && (mx <? b.(b_nwait))
      then starve_revive r b.(b_nwait) (Some b.(b_id)) else starve_revive r mx best
  end.
Fixpoint starve_redist (bs : list blk) (mx : Z) (best : option bid) : option bid :=
  match bs with
  | [] => best
  | b :: r =>
      if (count_conns b <? b.(b_quota)) && negb b.(b_supp) && (mx <? b.(b_quota) - count_conns b)
      then starve_redist r (b.(b_quota) - count_conns b) (Some b.(b_id)) else starve_redist r mx best
  end.
Definition find_most_starving (s : pool) : pool * option bid :=
  let '(wl, r) := wl_pop s.(blocks) s.(waitlist) in
  let s1 := set_waitlist wl s in
  match r with
  | Some i => (s1, Some i)
  | None =>
      match starve_revive s1.(blocks) 0 None with
      | Some i => (s1, Some i)
      | None => (s1, starve_redist s1.(blocks) 0 None)
      end
  end.

(* Pool._maybe_free_into_starving_blocks *)
Definition maybe_free (from : bid) (c : conn) (s : pool) : pool * bool :=
  let '(s1, to) := find_most_starving s in
  match to with
  | None => (s1, false)
  | Some j => if bid_eqb j from then (s1, false) else (sched_transfer from c j s1, true)
  end.

(* Pool._release_unused *)
Definition release_unused (i : bid) (c : conn) (s : pool) : pool :=
  let s1 := block_release i c s in
  let g := s1.(gc_reqs) + 1 in
  let s2 := set_gc_reqs g s1 in
  if g =? 1 then set_gc_timers (s2.(gc_timers) + 1) s2 else s2.

(* Pool._try_steal_conn: iterate over a snapshot of _blocks_over_quota *)
Fixpoint try_steal_conn (o : oracle) (for_ : bid) (l : list bid) (s : pool) : pool * bool :=
  match l with
  | [] => (s, false)
  | i :: r =>
      if bid_eqb i for_ || negb (should_free o i s) then try_steal_conn o for_ r s else
      match try_steal i s with
      | (Some c, s1) => (sched_transfer i c for_ s1, true)
      | (None, _) => try_steal_conn o for_ r s
      end
  end.

(* Pool._try_shrink_block; fuel = length of the stack (every iteration pops one) *)
Fixpoint try_shrink (o : oracle) (i : bid) (fuel : nat) (s : pool) : pool :=
  match fuel with
  | O => s
  | S f =>
      if (0 <? over_quota (get_blk i s)) && should_free o i s then
        match try_steal i s with
        | (Some c, s1) =>
            let '(s2, to) := find_most_starving s1 in
            try_shrink o i f (match to with
                              | Some j => sched_transfer i c j s2
                              | None => sched_discard i c None false s2
                              end)
        | (None, _) => s
        end
      else s
  end.

(* the `while count_conns() < quota and cur < max: _schedule_new_conn` loop *)
Fixpoint grow (i : bid) (fuel : nat) (s : pool) : pool :=
  match fuel with
  | O => s
  | S f =>
      let b := get_blk i s in
      if (count_conns b <? b.(b_quota)) && (s.(cur) <? s.(maxc)) then grow i f (sched_new_conn i s) else s
  end.

(* stable insertion sort of _blocks_over_quota by count_conns_over_quota, descending *)
Fixpoint ins_desc (s : pool) (i : bid) (l : list bid) : list bid :=
  match l with
  | [] => [i]
  | j :: r => if over_quota (get_blk j s) <=? over_quota (get_blk i s) then i :: j :: r
              else j :: ins_desc s i r
  end.
Fixpoint sort_desc (s : pool) (l : list bid) : list bid :=
  match l with [] => [] | i :: r => ins_desc s i (sort_desc s r) end.

(* Pool._maybe_rebalance *)
Definition rebalance_one (o : oracle) (i : bid) (s : pool) : pool :=
  let b := get_blk i s in
  let nconns := count_conns b in
  let quota := b.(b_quota) in
  if quota <? nconns then
    let s1 := try_shrink o i (length b.(b_stack)) s in
    if quota <? count_conns (get_blk i s1) then set_overq (s1.(overq) ++ [i]) s1 else s1
  else if nconns <? quota then grow i (Z.to_nat (quota - nconns)) s
  else s.
Fixpoint rebalance_loop (o : oracle) (ids : list bid) (s : pool) : pool :=
  match ids with [] => s | i :: r => rebalance_loop o r (rebalance_one o i s) end.
Definition rebalance (o : oracle) (s : pool) : pool :=
  if s.(starving) then s else
  let s1 := rebalance_loop o (map b_id s.(blocks)) (set_overq [] s) in
  set_overq (sort_desc s1 s1.(overq)) s1.

(* ------------------------------------------------------------------ acquire *)
(* tail of Pool.acquire once Block.acquire returned c; d = the dbname argument of acquire() *)
Definition finish_acquire (t : tid) (d : db) (c : conn) (s : pool) : pool :=
  let s1 := set_nacq (s.(nacq) - 1) s in
  match find_db d s1.(blocks) with
  | None => fail s1                                   (* self._blocks[dbname]: KeyError *)
  | Some b =>
      match alookup c b.(b_conns) with
      | Some false =>
          let b' := set_b_acq (b.(b_acq) + 1) (set_b_conns (aset c true b.(b_conns)) b) in
          emit (OAcquired t c) (set_g_held ((c, (t, d)) :: s1.(g_held)) (upd b' s1))
      | _ => fail s1                                  (* assert not in_use / KeyError *)
      end
  end.

(* Block.acquire / try_acquire up to the first suspension point.
   first = true: attempts == 1 (append); false: attempts > 1 (appendleft).
   The dbname the task asked for is fst i (the block was obtained by _get_block(dbname)). *)
Definition block_acquire (t : tid) (i : bid) (first : bool) (s : pool) : pool :=
  let b := get_blk i s in
  match split_last b.(b_stack) with
  | None =>
      let ws := if first then b.(b_waiters) ++ [(t, WAcq)] else (t, WAcq) :: b.(b_waiters) in
      upd (set_b_nwait (b.(b_nwait) + 1) (set_b_waiters ws b)) s
  | Some (r, c) =>
      (* conn_waiters_num += 1 ... finally -= 1 *)
      finish_acquire t (fst i) c (upd (set_b_stack r b) s)
  end.

(* BasePool._get_block / _new_block *)
Definition get_block (d : db) (s : pool) : bid * pool :=
  match find_db d s.(blocks) with
  | Some b => (b.(b_id), s)
  | None =>
      let i := (d, s.(next_bid)) in
      let b := new_blk i in
      let bs := if s.(starving) then b :: s.(blocks) else s.(blocks) ++ [b] in
      (i, set_next_bid (s.(next_bid) + 1)%N (set_blocks bs s))
  end.

(* OrderedDict.__setitem__(block, True): an existing key keeps its place *)
Definition wl_add (i : bid) (l : list bid) : list bid := if mem_bid i l then l else l ++ [i].

(* first step of Pool.acquire: acquire() prologue + _acquire() + Block.acquire() *)
Definition acquire_start (o : oracle) (t : tid) (d : db) (s : pool) : pool :=
  let s0 := maybe_sched_tick (set_nacq (s.(nacq) + 1) s) in
  let '(i, s1) := get_block d s0 in
  let s2 := upd (set_b_supp false (get_blk i s1)) s1 in
  let b := get_blk i s2 in
  let nconns := count_conns b in
  if s2.(cur) <? s2.(maxc) then
    let s3 :=
      if (length s2.(blocks) =? 1)%nat then
        (if (length b.(b_stack) <=? 1)%nat then sched_new_conn i s2 else s2)
      else if (nconns =? 0) || (nconns <? b.(b_quota)) || (approx_avail b =? 0)
           then sched_new_conn i s2 else s2 in
    block_acquire t i true s3
  else if nconns =? 0 then
    let '(s3, ok) := try_steal_conn o i s2.(overq) s2 in
    let s4 := if ok then s3 else set_waitlist (wl_add i s3.(waitlist)) s3 in
    block_acquire t i true s4
  else if nconns <? b.(b_quota) then
    let '(s3, _) := try_steal_conn o i s2.(overq) s2 in
    block_acquire t i true s3
  else block_acquire t i true s2.

(* the acquire task resumes after its waiter future completed *)
Definition acquire_wake (t : tid) (i : bid) (ok : bool) (s : pool) : pool :=
  let b := get_blk i s in
  if ok then
    match split_last b.(b_stack) with
    | Some (r, c) =>
        finish_acquire t (fst i) c (upd (set_b_nwait (b.(b_nwait) - 1) (set_b_stack r b)) s)
    | None =>
        (* woken up but the connection is gone: finally -= 1, then try_acquire(attempts+1) *)
        block_acquire t i false (upd (set_b_nwait (b.(b_nwait) - 1) b) s)
    end
  else
    (* waiter.set_exception(e): except-branch of try_acquire, then the finally clauses *)
    let s2 := match b.(b_stack) with [] => s | _ :: _ => wakeup_next i s end in
    let b2 := get_blk i s2 in
    emit (OAcqFailed t) (set_nacq (s2.(nacq) - 1) (upd (set_b_nwait (b2.(b_nwait) - 1) b2) s2)).

Fixpoint remove_done (t : tid) (ws : list (tid * wk)) : list (tid * wk) :=
  match ws with
  | [] => []
  | (t', WDone) :: r => if (t' =? t)%N then r else (t', WDone) :: remove_done t r
  | w :: r => w :: remove_done t r
  end.
(* the acquire task resumes with CancelledError (thrown at `await waiter`).  Since fix 7b54f16
   the cleanup handler of try_acquire is `except BaseException`: the waiter is removed from the
   deque if it is still there; if the waiter had been completed (not cancelled) and a
   connection is on the stack, the wake-up is passed on; then the finally clauses run. *)
Definition acquire_cancelled (t : tid) (i : bid) (late : bool) (s : pool) : pool :=
  let b := get_blk i s in
  let s2 :=
    if late then match b.(b_stack) with [] => s | _ :: _ => wakeup_next i s end
    else upd (set_b_waiters (remove_done t b.(b_waiters)) b) s in
  let b2 := get_blk i s2 in
  emit (OAcqCancelled t) (set_nacq (s2.(nacq) - 1) (upd (set_b_nwait (b2.(b_nwait) - 1) b2) s2)).

(* Task.cancel() on an acquire() task that has not returned yet *)
Definition kont_task (k : kont) : option tid :=
  match k with KAcqStart t _ => Some t | KAcqWake t _ _ => Some t | _ => None end.
Definition is_task (t : tid) (k : kont) : bool :=
  match kont_task k with Some t' => (t' =? t)%N | None => false end.
Definition cancel_kont (t : tid) (k : kont) : kont :=
  match k with
  | KAcqStart t' _ => if (t' =? t)%N then KAcqDead t else k          (* _must_cancel: throws at the first step *)
  | KAcqWake t' i _ => if (t' =? t)%N then KAcqWakeC t i true else k (* waiter already done: _must_cancel *)
  | _ => k
  end.
(* a cancel that hits a task whose waiter has already been woken successfully *)
Definition late_ok (t : tid) (k : kont) : bool :=
  match k with KAcqWake t' _ true => (t' =? t)%N | _ => false end.
Definition late_cancel (s : pool) (e_t : tid) : bool := existsb (late_ok e_t) s.(ready).
Fixpoint has_wacq (t : tid) (ws : list (tid * wk)) : bool :=
  match ws with
  | [] => false
  | (t', WAcq) :: r => if (t' =? t)%N then true else has_wacq t r
  | _ :: r => has_wacq t r
  end.
Fixpoint mark_done (t : tid) (ws : list (tid * wk)) : list (tid * wk) :=
  match ws with
  | [] => []
  | (t', WAcq) :: r => if (t' =? t)%N then (t', WDone) :: r else (t', WAcq) :: mark_done t r
  | w :: r => w :: mark_done t r
  end.
Fixpoint find_waiting (t : tid) (bs : list blk) : option blk :=
  match bs with
  | [] => None
  | b :: r => if has_wacq t b.(b_waiters) then Some b else find_waiting t r
  end.
Definition cancel (t : tid) (s : pool) : option pool :=
  if existsb (is_task t) s.(ready) then
    (* not started yet, or its waiter future is already done: the pending callback will throw *)
    Some (set_ready (map (cancel_kont t) s.(ready)) s)
  else
    match find_waiting t s.(blocks) with
    | Some b =>
        (* waiter.cancel(): the future stays in the deque, its callback (the task wake-up) is scheduled *)
        Some (push (KAcqWakeC t b.(b_id) false) (upd (set_b_waiters (mark_done t b.(b_waiters)) b) s))
    | None => None
    end.

(* ------------------------------------------------------------------ connect / disconnect *)
(* the part of BasePool._connect up to `await self._connect_cb(block.dbname)` *)
Definition call_connect (i : bid) (s : pool) : pool :=
  let cid := s.(next_cid) in
  emit (OConnect cid (fst i))
    (set_next_cid (cid + 1)%N (set_infl_conn (s.(infl_conn) ++ [(cid, i)]) s)).

Definition RETRIES : Z := 3.     (* config.CONNECT_FAILURE_RETRIES *)

(* BasePool._connect after the callback's future completed *)
Definition connect_wake (i : bid) (res : option conn) (nodb : bool) (s : pool) : pool :=
  match res with
  | None =>
      let s1 := set_cur (s.(cur) - 1) s in
      let b := get_blk i s1 in
      let f1 := b.(b_fails) + 1 in
      let f2 := if nodb && (f1 <=? RETRIES) then RETRIES + 1 else f1 in
      let s2 := upd (set_b_fails f2 b) s1 in
      let s3 := if RETRIES <? f2 then abort_waiters i s2 else sched_new_conn i s2 in
      let b3 := get_blk i s3 in
      upd (set_b_pending (b3.(b_pending) - 1) b3) s3                 (* finally *)
  | Some c =>
      let b := get_blk i s in
      let b' := set_b_conns (b.(b_conns) ++ [(c, false)])
                  (set_b_pending (b.(b_pending) - 1) (set_b_fails 0 b)) in
      block_release i c (upd b' s)
  end.

(* the part of BasePool._disconnect up to `await self._disconnect_cb(conn)` *)
Definition call_disconnect (c : conn) (a : after_disc) (s : pool) : pool :=
  let did := s.(next_did) in
  emit (ODisconnect did c)
    (set_next_did (did + 1)%N (set_infl_disc (s.(infl_disc) ++ [(did, (c, a))]) s)).

(* first step of BasePool._discard_conn *)
Definition discard_start (i : bid) (c : conn) (parent : option tid) (broken : bool) (s : pool) : pool :=
  let b := get_blk i s in
  match alookup c b.(b_conns) with
  | Some false =>
      call_disconnect c (ADDiscard parent broken) (upd (set_b_conns (aremove c b.(b_conns)) b) s)
  | _ => fail s                                       (* assert not in_use / KeyError *)
  end.

(* after the disconnect callback's future completed: `finally: _cur_capacity -= 1`, then the caller *)
Definition disconnect_wake (c : conn) (a : after_disc) (ok : bool) (s : pool) : pool :=
  let s1 := set_cur (s.(cur) - 1) s in
  match a with
  | ADTransfer to =>
      (* _transfer swallows an exception of _disconnect (fix 275590b) and carries on *)
      call_connect to (set_cur (s1.(cur) + 1) s1)
  | ADDiscard (Some t) _ => push (KGatherCb t) s1
  | ADDiscard None _ => s1
  end.

(* ------------------------------------------------------------------ prune_inactive_connections *)
(* `while not block.count_waiters() and block.pending_conns: if c := await block.try_acquire(): ...`
   followed by the gather of _discard_conn.  While the loop condition holds every iteration
   pops the top of the stack without suspending; with an empty stack the task suspends. *)
Definition prune_cont (t : tid) (i : bid) (acc : list conn) (s : pool) : pool :=
  let b := get_blk i s in
  if (b.(b_nwait) =? 0) && negb (b.(b_pending) =? 0) then
    upd (set_b_nwait (b.(b_nwait) + 1)
          (set_b_waiters (b.(b_waiters) ++ [(t, WPrune (acc ++ rev b.(b_stack)))])
            (set_b_stack [] b))) s
  else
    match acc with
    | [] => emit (OPruneDone t) s
    | _ :: _ =>
        set_gtasks (s.(gtasks) ++ [(t, zlen acc)])
          (set_ready (s.(ready) ++ map (fun c => KDiscStart i c (Some t) false) acc) s)
    end.

Definition prune_start (t : tid) (d : db) (s : pool) : pool :=
  match find_db d s.(blocks) with
  | None => emit (OPruneDone t) s
  | Some b =>
      prune_cont t b.(b_id) b.(b_stack) (upd (set_b_stack [] (set_b_supp true b)) s)
  end.

Definition prune_wake (t : tid) (i : bid) (acc : list conn) (ok : bool) (s : pool) : pool :=
  let b := get_blk i s in
  if ok then
    match split_last b.(b_stack) with
    | Some (r, c) =>
        prune_cont t i (acc ++ [c]) (upd (set_b_nwait (b.(b_nwait) - 1) (set_b_stack r b)) s)
    | None => prune_cont t i acc (upd (set_b_nwait (b.(b_nwait) - 1) b) s)
    end
  else
    (* the exception leaves prune_inactive_connections; the connections in acc stay in
       block.conns, neither lent nor on the stack *)
    let s2 := match b.(b_stack) with [] => s | _ :: _ => wakeup_next i s end in
    let b2 := get_blk i s2 in
    emit (OPruneFailed t) (upd (set_b_nwait (b2.(b_nwait) - 1) b2) s2).

(* asyncio.gather's _done_callback for one child of prune task t (a missing entry cannot happen:
   the callback exists only while the gather is pending) *)
Definition gather_cb (t : tid) (s : pool) : pool :=
  match alookup t s.(gtasks) with
  | None => s
  | Some n =>
      if n <=? 1 then push (KPruneFin t) (set_gtasks (aremove t s.(gtasks)) s)
      else set_gtasks (aset t (n - 1) s.(gtasks)) s
  end.

(* ------------------------------------------------------------------ release *)
Definition release (o : oracle) (d : db) (c : conn) (discard : bool) (s : pool) : pool :=
  match find_db d s.(blocks) with
  | None => emit (OReleaseErr 1) s
  | Some b =>
      match alookup c b.(b_conns) with
      | None => emit (OReleaseErr 2) s
      | Some false => emit (OReleaseErr 3) s
      | Some true =>
          let i := b.(b_id) in
          let b' := set_b_acq (b.(b_acq) - 1) (set_b_conns (aset c false b.(b_conns)) b) in
          let s1 := maybe_sched_tick (set_g_held (aremove c s.(g_held)) (upd b' s)) in
          let '(s2, moved) :=
            if should_free o i s1 then maybe_free i c s1 else (s1, false) in
          if moved then s2
          else if discard then
            sched_new_conn i (sched_discard i c None true s2)
          else release_unused i c s2
      end
  end.

(* ------------------------------------------------------------------ _tick *)
(* first loop of _tick: quota := nwaiters; returns (state, total_nwaiters, need_conns_at_least, to_drop) *)
Fixpoint tick_scan (o : oracle) (ids : list bid) (s : pool) (tot need : Z) (drop : list bid)
  : pool * Z * Z * list bid :=
  match ids with
  | [] => (s, tot, need, drop)
  | i :: r =>
      let b := get_blk i s in
      let nw := b.(b_nwait) + b.(b_acq) in
      let s1 := upd (set_b_quota nw b) s in
      if mem_n (b_db b) o.(o_avgnz) && negb b.(b_supp)
      then tick_scan o r s1 (tot + nw) (need + 1) drop
      else if count_conns b =? 0 then tick_scan o r s1 (tot + nw) need (drop ++ [i])
           else tick_scan o r s1 (tot + nw) need drop
  end.

(* `for block in self._to_drop: self._drop_block(block)`; true = an assertion failed *)
Fixpoint drop_all (ids : list bid) (s : pool) : pool * bool :=
  match ids with
  | [] => (s, false)
  | i :: r =>
      let b := get_blk i s in
      if negb (b.(b_nwait) =? 0) || negb (count_conns b =? 0) || negb (b.(b_quota) =? 0)
      then (s, true)
      else drop_all r (set_blocks (remove_bid i s.(blocks)) s)
  end.

(* Mode D quota loop over tuple(self._blocks.values()) *)
Fixpoint modeD_quota (o : oracle) (ids : list bid) (s : pool) : pool :=
  match ids with
  | [] => s
  | i :: r =>
      let b := get_blk i s in
      let n := count_conns b in
      let s1 :=
        if n =? 1 then
          (if mem_n (b_db b) o.(o_recent) then upd (set_b_quota 1 b) s
           else set_blocks (move_end i (upd_blk (set_b_quota 0 b) s.(blocks))) s)
        else if 1 <? n then set_blocks (move_end i (upd_blk (set_b_quota 0 b) s.(blocks))) s
        else set_blocks (move_end i (upd_blk (set_b_quota 1 b) s.(blocks))) s in
      modeD_quota o r s1
  end.

(* `while self._should_free_conn(block): steal; free into starving | put back and return` *)
Fixpoint free_loop (o : oracle) (i : bid) (fuel : nat) (s : pool) : pool * bool :=
  match fuel with
  | O => (s, false)
  | S f =>
      if should_free o i s then
        match try_steal i s with
        | (None, _) => (s, false)
        | (Some c, s1) =>
            let '(s2, ok) := maybe_free i c s1 in
            if ok then free_loop o i f s2 else (release_unused i c s2, true)
        end
      else (s, false)
  end.
Fixpoint modeD_free (o : oracle) (ids : list bid) (s : pool) : pool :=
  match ids with
  | [] => s
  | i :: r =>
      let '(s1, stop) := free_loop o i (S (length (get_blk i s).(b_stack))) s in
      if stop then s1 else modeD_free o r s1
  end.

Fixpoint set_quotas (cq : list (db * Z)) (s : pool) : pool :=
  match cq with
  | [] => s
  | (d, q) :: r =>
      set_quotas r (match find_db d s.(blocks) with
                    | Some b => upd (set_b_quota q b) s
                    | None => s
                    end)
  end.

Definition tick (o : oracle) (s : pool) : pool :=
  let s0 := maybe_sched_tick (set_tick_armed false s) in
  match s0.(blocks) with
  | [] => set_starving false s0
  | [b] => upd (set_b_quota s0.(maxc) b) (set_starving false s0)
  | _ =>
      let '(s1, tot, need, drop) := tick_scan o (map b_id s0.(blocks)) s0 0 0 [] in
      let was := s1.(starving) in
      let s2 := set_starving (s1.(maxc) <=? need) s1 in
      let '(s3, crashed) := drop_all drop s2 in
      if crashed then emit OTickCrash s3 else
      if tot =? 0 then s3 else
      if tot <? s3.(maxc) then
        (if s3.(maxc) <=? s3.(cur) then rebalance o s3 else s3)
      else if s3.(starving) then
        let s4 := modeD_quota o (map b_id s3.(blocks)) s3 in
        if negb was && negb (match s4.(waitlist) with [] => true | _ => false end)
        then modeD_free o (map b_id s4.(blocks)) s4 else s4
      else
        let s4 := set_quotas o.(o_cq) s3 in
        if o.(o_capcrash) then emit OTickCrash s4 else rebalance o s4
  end.

(* ------------------------------------------------------------------ _run_gc *)
Fixpoint gc_block (i : bid) (n : nat) (s : pool) : pool :=
  match n with
  | O => s
  | S m => match try_steal i s with
           | (Some c, s1) => gc_block i m (sched_discard i c None false s1)
           | (None, _) => s
           end
  end.
Fixpoint gc_n (d : db) (l : list (db * nat)) : nat :=
  match l with [] => O | (d', n) :: r => if (d =? d')%N then n else gc_n d r end.
Fixpoint gc_all (o : oracle) (ids : list bid) (s : pool) : pool :=
  match ids with
  | [] => s
  | i :: r => gc_all o r (gc_block i (gc_n (fst i) o.(o_gcn)) s)
  end.
Definition run_gc (o : oracle) (s : pool) : pool :=
  let s0 := set_gc_timers (s.(gc_timers) - 1) s in
  if s0.(starving) then set_gc_timers (s0.(gc_timers) + 1) s0 else
  let s1 := if 1 <? s0.(gc_reqs)
            then set_gc_timers (s0.(gc_timers) + 1) (set_gc_reqs 1 s0)
            else set_gc_reqs 0 s0 in
  gc_all o (map b_id s1.(blocks)) s1.

(* ------------------------------------------------------------------ one ready callback *)
Definition run_kont (o : oracle) (k : kont) (s : pool) : pool :=
  match k with
  | KAcqStart t d => acquire_start o t d s
  | KAcqWake t i ok => acquire_wake t i ok s
  | KConnStart i => call_connect i s
  | KConnWake _ i res nodb => connect_wake i res nodb s
  | KTransStart _ c to => call_disconnect c (ADTransfer to) s
  | KDiscStart i c p br => discard_start i c p br s
  | KDiscWake _ c a ok => disconnect_wake c a ok s
  | KPruneStart t d => prune_start t d s
  | KPruneWake t i acc ok => prune_wake t i acc ok s
  | KGatherCb t => gather_cb t s
  | KPruneFin t => emit (OPruneDone t) s
  | KAcqDead t => emit (OAcqCancelled t) s     (* CancelledError thrown into the unstarted coroutine *)
  | KAcqWakeC t i late => acquire_cancelled t i late s
  end.

(* ------------------------------------------------------------------ external events *)
Inductive event :=
 | EAcquire (t : tid) (d : db)            (* create_task(pool.acquire(d)) *)
 | EPrune (t : tid) (d : db)              (* create_task(pool.prune_inactive_connections(d)) *)
 | ERelease (d : db) (c : conn) (discard : bool)    (* pool.release(d, c, discard=...) *)
 | EConnOk (cid : N)                      (* the backend opened the connection of call cid *)
 | EConnFail (cid : N) (nodb : bool)      (* ... failed (nodb: error 3D000) *)
 | EDiscOk (did : N) | EDiscFail (did : N)
 | ETick | EGc                            (* the timer fires *)
 | ECancel (t : tid)                      (* the caller cancels a pending acquire(): Task.cancel() *)
 | ERun.                                  (* the loop runs the first callback of its ready queue *)

Definition step (s : pool) (e : event) (o : oracle) : option pool :=
  let s := set_outs [] s in
  match e with
  | EAcquire t d =>
      if (t =? s.(next_tid))%N
      then Some (push (KAcqStart t d) (set_next_tid (t + 1)%N s))
      else None
  | EPrune t d =>
      if (t =? s.(next_tid))%N
      then Some (push (KPruneStart t d) (set_next_tid (t + 1)%N s))
      else None
  | ERelease d c discard => Some (release o d c discard s)
  | EConnOk cid =>
      match alookup cid s.(infl_conn) with
      | None => None
      | Some i =>
          let c := s.(next_conn) in
          Some (push (KConnWake cid i (Some c) false)
                 (set_g_conndb ((c, fst i) :: s.(g_conndb))
                   (set_g_open (c :: s.(g_open))
                     (set_next_conn (c + 1)%N (set_infl_conn (aremove cid s.(infl_conn)) s)))))
      end
  | EConnFail cid nodb =>
      match alookup cid s.(infl_conn) with
      | None => None
      | Some i => Some (push (KConnWake cid i None nodb) (set_infl_conn (aremove cid s.(infl_conn)) s))
      end
  | EDiscOk did | EDiscFail did =>
      match alookup did s.(infl_disc) with
      | None => None
      | Some (c, a) =>
          Some (push (KDiscWake did c a (match e with EDiscOk _ => true | _ => false end))
                 (set_g_open (remove1 c s.(g_open)) (set_infl_disc (aremove did s.(infl_disc)) s)))
      end
  | ETick => if s.(tick_armed) then Some (tick o s) else None
  | EGc => if 0 <? s.(gc_timers) then Some (run_gc o s) else None
  | ECancel t => cancel t s
  | ERun => match s.(ready) with
            | [] => None
            | k :: r => Some (run_kont o k (set_ready r s))
            end
  end.

Definition init (mx : Z) : pool :=
  mkPool mx 0 [] false [] [] 0 false 0 0 [] [] [] [] 1%N 1%N 1%N 1%N 1%N false [] [] [] [].

(* run a whole trace; None as soon as an event is not enabled *)
Fixpoint run (s : pool) (evs : list (event * oracle)) : option pool :=
  match evs with
  | [] => Some s
  | (e, o) :: r => match step s e o with Some s' => run s' r | None => None end
  end.
