(* C13 -- Generated SQL is well-scoped and parameter-consistent: the verified validator.
   Statements only; each is closed by [exact] of a lemma of Proofs.v and followed by
   Print Assumptions (audited by the check on every run).

   What is proved here is about the VALIDATOR, not about the compiler: for every abstract SQL
   statement q (any nesting, any number of range variables, CTEs, parameters)
     - [well_scoped q] (the extracted checker that the harness runs on the abstraction of every
       statement the real compiler emits) returns true exactly when q is derivable in the
       declarative relation [Scoped] (Proofs.v), which transcribes PostgreSQL's name-resolution
       rules: nearest enclosing level wins, FROM items see items to their left only when
       LATERAL (functions always), the left side of a RIGHT/FULL join and the target of
       UPDATE/DELETE cannot be referenced laterally, JOIN ... ON sees the joined relations only,
       LIMIT/OFFSET see no variable of their own level, WITH queries are visible to later ones
       and to the body (and nested levels) only, unqualified table names are captured by WITH
       queries, INSERT's source does not see the target, RETURNING / ON CONFLICT see the
       target (and "excluded"), ORDER BY / GROUP BY may name output columns, set-operation
       ORDER BY may name result columns only, data-modifying statements only at the top level
       or in a WITH of the top level, duplicate range-variable / WITH names are errors;
     - [params_ok am q] holds exactly when the physical indexes of the reported argument map are
       pairwise distinct, are exactly 1..k, and are exactly the $n occurring in q.
   Determinism of the compiler is not a theorem (tested by the harness). *)
From Coq Require Import List NArith Bool.
From Verif.C13 Require Import Model Proofs.
Import ListNotations.
Open Scope N_scope.

(* the checker accepts only statements that are well-scoped under PostgreSQL's rules ... *)
Theorem C13_checker_sound : forall q, well_scoped q = true -> Scoped q.
Proof. exact p_sound. Qed.
Print Assumptions C13_checker_sound.

(* ... and accepts every such statement (it is not stricter than the rules) *)
Theorem C13_checker_complete : forall q, Scoped q -> well_scoped q = true.
Proof. exact p_complete. Qed.
Print Assumptions C13_checker_complete.

(* the same in any context: outer query levels G, visible WITH queries D, position p; the
   checker also computes the output columns of the derivation *)
Theorem C13_checker_decides : forall q G D p cs,
  chk_query G D p q = Ok cs <-> SQuery G D p q cs.
Proof. exact chk_query_iff. Qed.
Print Assumptions C13_checker_decides.

(* output columns are determined by the statement and its context *)
Theorem C13_output_columns_unique : forall q G D p c1 c2,
  SQuery G D p q c1 -> SQuery G D p q c2 -> c1 = c2.
Proof. exact p_cols_fun. Qed.
Print Assumptions C13_output_columns_unique.

(* a resolved range-variable reference names an entry of an enclosing level that may be
   referenced from that position *)
Theorem C13_resolved_in_scope : forall G q it, ResolveRel G q it ->
  exists lvl, In lvl G /\ In it lvl /\ ns_name it = q /\ ns_ok it = true.
Proof. exact resolve_in. Qed.
Print Assumptions C13_resolved_in_scope.

(* parameters: params_ok <=> indexes distinct, exactly 1..k, exactly the $n of the statement *)
Theorem C13_params : forall am q, params_ok am q = true <-> ParamsConsistent am q.
Proof. exact p_params. Qed.
Print Assumptions C13_params.

(* ---------------------------------------------------------------- non-vacuity *)
(* names: 10 = t, 11 = a, 12 = b, 13 = x, 14 = y, 15 = c, 16 = w *)

(* SELECT b.y FROM t AS a, LATERAL (SELECT a.x AS y) AS b WHERE b.y = $1 LIMIT $2 *)
Definition ex_lateral (lat : bool) : query :=
  QSelect WNone
    (TCons (TExpr 0 (ACons (ACol 12 14) ANil)) TNil)
    (FCons (FRel (RTab false 10 (Cols [13])) 11 [])
      (FCons (FSub lat (QSelect WNone (TCons (TExpr 14 (ACons (ACol 11 13) ANil)) TNil)
                                FNil ANil SNil SNil ANil []) 12 []) FNil))
    (ACons (ACol 12 14) (ACons (AParam 1) ANil)) SNil SNil (ACons (AParam 2) ANil) [].

Example ex_lateral_ok : well_scoped (ex_lateral true) = true.
Proof. vm_compute. reflexivity. Qed.
(* without LATERAL the sub-select cannot see "a" *)
Example ex_lateral_needed : check (ex_lateral false) = Err (E_missing_from, 11, 0).
Proof. vm_compute. reflexivity. Qed.
Example ex_lateral_scoped : Scoped (ex_lateral true).
Proof. apply C13_checker_sound. vm_compute. reflexivity. Qed.
Example ex_lateral_not_scoped : ~ Scoped (ex_lateral false).
Proof. intro H. apply C13_checker_complete in H. vm_compute in H. discriminate. Qed.

(* WITH c AS (INSERT INTO t AS a (x) VALUES ($1) RETURNING a.x AS y) SELECT w.y FROM c AS w *)
Definition ex_dml_cte : query :=
  QSelect (WSome false (CCons 15 []
             (QInsert WNone (RTab false 10 (Cols [13])) 11 [13]
                (SrcQuery (QValues WNone [16] (ACons (AParam 1) ANil))) CfNone
                (TCons (TExpr 14 (ACons (ACol 11 13) ANil)) TNil)) CNil))
    (TCons (TExpr 0 (ACons (ACol 16 14) ANil)) TNil)
    (FCons (FRel (RCte 15) 16 []) FNil) ANil SNil SNil ANil [].

Example ex_dml_cte_ok : check ex_dml_cte = Ok (Cols [0]).
Proof. vm_compute. reflexivity. Qed.
(* the same statement nested in a sub-select is rejected: data-modifying WITH below the top *)
Example ex_dml_cte_nested :
  check (QSelect WNone (TCons (TExpr 0 (ACons (ASub ex_dml_cte) ANil)) TNil)
           FNil ANil SNil SNil ANil []) = Err (E_dml_nested, 0, 0).
Proof. vm_compute. reflexivity. Qed.

(* a WITH query is not visible outside the statement it is attached to:
   SELECT (WITH c AS (SELECT 1 AS y) SELECT 1), w.y FROM c AS w *)
Example ex_cte_out_of_scope :
  check (QSelect WNone
           (TCons (TExpr 0 (ACons (ASub
              (QSelect (WSome false (CCons 15 [] (QSelect WNone (TCons (TExpr 14 ANil) TNil)
                                                   FNil ANil SNil SNil ANil []) CNil))
                       (TCons (TExpr 0 ANil) TNil) FNil ANil SNil SNil ANil [])) ANil))
            (TCons (TExpr 0 (ACons (ACol 16 14) ANil)) TNil))
           (FCons (FRel (RCte 15) 16 []) FNil) ANil SNil SNil ANil [])
  = Err (E_cte_scope, 15, 0).
Proof. vm_compute. reflexivity. Qed.

(* UPDATE t AS a SET x = b.y FROM LATERAL (SELECT a.x AS y) AS b: FROM cannot see the target *)
Example ex_update_from_target :
  check (QUpdate WNone (RTab false 10 (Cols [13])) 11 [13] (ACons (ACol 12 14) ANil)
           (FCons (FSub true (QSelect WNone (TCons (TExpr 14 (ACons (ACol 11 13) ANil)) TNil)
                                 FNil ANil SNil SNil ANil []) 12 []) FNil)
           ANil TNil) = Err (E_invalid_ref, 11, 0).
Proof. vm_compute. reflexivity. Qed.

Example ex_params_ok : params_ok [(1, false); (2, false)] (ex_lateral true) = true.
Proof. vm_compute. reflexivity. Qed.
Example ex_params_gap : params_ok [(1, false); (3, false)] (ex_lateral true) = false.
Proof. vm_compute. reflexivity. Qed.
Example ex_params_consistent : ParamsConsistent [(1, false); (2, false)] (ex_lateral true).
Proof. apply C13_params. vm_compute. reflexivity. Qed.

(* ---------------------------------------------------------------- the rules, one by one
   (each Example is a fact about PostgreSQL that the relation / checker reproduces) *)
(* further names: 17 = u (second table), 18 = z *)
Definition tab_t := RTab false 10 (Cols [13]).
Definition tab_u := RTab false 17 (Cols [13; 18]).
Definition sel (ts : targets) (fs : fitems) (body : atoms) : query :=
  QSelect WNone ts fs body SNil SNil ANil [].
Definition col (q c : name) : atoms := ACons (ACol q c) ANil.
Definition out1 (nm q c : name) : targets := TCons (TExpr nm (col q c)) TNil.

(* JOIN ... ON sees the joined relations only:
   SELECT a.x FROM t AS a, t AS b JOIN u AS c ON a.x = c.x   -- "a" is not visible in ON *)
Example ex_join_on_scope :
  check (sel (out1 0 11 13)
           (FCons (FRel tab_t 11 [])
              (FCons (FJoin JInner (FRel tab_t 12 []) (FRel tab_u 15 [])
                        (ACons (ACol 11 13) (ACons (ACol 15 13) ANil))) FNil)) ANil)
  = Err (E_missing_from, 11, 0).
Proof. vm_compute. reflexivity. Qed.

(* the right side of a RIGHT JOIN cannot refer laterally to the left side *)
Definition ex_join_lat (jt : jointype) : query :=
  sel (out1 0 12 14)
      (FCons (FJoin jt (FRel tab_t 11 [])
                (FSub true (sel (out1 14 11 13) FNil ANil) 12 []) ANil) FNil) ANil.
Example ex_left_join_lateral : well_scoped (ex_join_lat JLeft) = true.
Proof. vm_compute. reflexivity. Qed.
Example ex_right_join_lateral : check (ex_join_lat JRight) = Err (E_invalid_ref, 11, 0).
Proof. vm_compute. reflexivity. Qed.

(* LIMIT must not contain variables of its own level; an outer level is fine *)
Example ex_limit_var :
  check (QSelect WNone (out1 0 11 13) (FCons (FRel tab_t 11 []) FNil) ANil SNil SNil (col 11 13) [])
  = Err (E_invalid_ref, 11, 0).
Proof. vm_compute. reflexivity. Qed.
Example ex_limit_outer_var :
  well_scoped (sel (TCons (TExpr 0 (ACons (ASub
     (QSelect WNone (out1 0 12 13) (FCons (FRel tab_t 12 []) FNil) ANil SNil SNil (col 11 13) [])) ANil)) TNil)
     (FCons (FRel tab_t 11 []) FNil) ANil) = true.
Proof. vm_compute. reflexivity. Qed.

(* ORDER BY may name an output column; two output columns of that name are ambiguous *)
Example ex_order_by_output :
  well_scoped (QSelect WNone (out1 14 11 13) (FCons (FRel tab_t 11 []) FNil) ANil SNil
                 (SCons (SBare 14) SNil) ANil []) = true.
Proof. vm_compute. reflexivity. Qed.
Example ex_order_by_ambiguous :
  check (QSelect WNone (TCons (TExpr 14 (col 11 13)) (out1 14 11 13)) (FCons (FRel tab_t 11 []) FNil) ANil SNil
           (SCons (SBare 14) SNil) ANil []) = Err (E_ambiguous_order, 0, 14).
Proof. vm_compute. reflexivity. Qed.

(* an unqualified column provided by two range variables of the same level is ambiguous;
   the nearest level wins over outer levels *)
Example ex_unqualified_ambiguous :
  check (sel (out1 0 0 13) (FCons (FRel tab_t 11 []) (FCons (FRel tab_u 15 []) FNil)) ANil)
  = Err (E_ambiguous_column, 0, 13).
Proof. vm_compute. reflexivity. Qed.
Example ex_unqualified_nearest :
  well_scoped (sel (TCons (TExpr 0 (ACons (ASub (sel (out1 0 0 13) (FCons (FRel tab_u 15 []) FNil) ANil)) ANil)) TNil)
                 (FCons (FRel tab_t 11 []) FNil) ANil) = true.
Proof. vm_compute. reflexivity. Qed.

(* the same alias twice in one FROM clause *)
Example ex_duplicate_alias :
  check (sel (out1 0 11 13) (FCons (FRel tab_t 11 []) (FCons (FRel tab_u 11 []) FNil)) ANil)
  = Err (E_dup_alias, 11, 0).
Proof. vm_compute. reflexivity. Qed.

(* WITH queries see earlier ones only *)
Definition q_one (nm : name) : query := sel (TCons (TExpr nm ANil) TNil) FNil ANil.
Example ex_cte_forward_reference :
  check (QSelect (WSome false
            (CCons 15 [] (sel (out1 14 16 14) (FCons (FRel (RCte 16) 16 []) FNil) ANil)
            (CCons 16 [] (q_one 14) CNil)))
           (out1 0 15 14) (FCons (FRel (RCte 15) 15 []) FNil) ANil SNil SNil ANil [])
  = Err (E_cte_scope, 16, 0).
Proof. vm_compute. reflexivity. Qed.

(* INSERT ... SELECT does not see the target; RETURNING does *)
Example ex_insert_source_target :
  check (QInsert WNone tab_t 11 [13] (SrcQuery (sel (out1 13 11 13) FNil ANil)) CfNone (out1 14 11 13))
  = Err (E_missing_from, 11, 0).
Proof. vm_compute. reflexivity. Qed.
Example ex_insert_returning_target :
  check (QInsert WNone tab_t 11 [13] (SrcQuery (q_one 13)) CfNone (out1 14 11 13)) = Ok (Cols [14]).
Proof. vm_compute. reflexivity. Qed.
(* ON CONFLICT DO UPDATE sees "excluded" *)
Example ex_conflict_excluded :
  well_scoped (QInsert WNone tab_t 11 [13] (SrcQuery (q_one 13))
                 (CfUpdate (col 0 13) [13] (col 7 13)) TNil) = true.
Proof. vm_compute. reflexivity. Qed.

(* a column that the sub-select does not output *)
Example ex_missing_output_column :
  check (sel (out1 0 12 18) (FCons (FSub false (sel (out1 14 11 13) (FCons (FRel tab_t 11 []) FNil) ANil) 12 []) FNil) ANil)
  = Err (E_no_column, 12, 18).
Proof. vm_compute. reflexivity. Qed.

(* system columns: on base tables only, never through * *)
Example ex_syscol_base : well_scoped (sel (out1 0 11 1) (FCons (FRel tab_t 11 []) FNil) ANil) = true.
Proof. vm_compute. reflexivity. Qed.
Example ex_syscol_subselect :
  check (sel (out1 0 12 1) (FCons (FSub false (sel (TCons (TStar 11) TNil) (FCons (FRel tab_t 11 []) FNil) ANil) 12 []) FNil) ANil)
  = Err (E_no_column, 12, 1).
Proof. vm_compute. reflexivity. Qed.

(* an unqualified table name is captured by a WITH query of the same name *)
Example ex_table_captured :
  check (QSelect (WSome false (CCons 10 [] (q_one 14) CNil)) (out1 0 11 13)
           (FCons (FRel (RTab true 10 (Cols [13])) 11 []) FNil) ANil SNil SNil ANil [])
  = Err (E_tab_shadowed, 10, 0).
Proof. vm_compute. reflexivity. Qed.
