(* C13 -- generated SQL is well-scoped and parameter-consistent: the VALIDATOR.

   This file contains executable definitions only:
     - an abstract syntax of the SQL that edb/pgsql/codegen.py prints (what matters for name
       resolution: range variables, LATERAL flags, CTEs, sub-selects in every clause, set
       operations, DML statements and DML CTEs, column references, output columns, $n);
     - [chk_query]: the scope checker (algorithmic), with an error code for diagnostics;
     - [params_of] / [params_ok]: parameter numbering against the reported argument map.

   The declarative scoping relation (PostgreSQL's rules) is in Proofs.v; Props.v states that
   the checker decides it.

   Identifiers are interned numbers (the harness interns the identifier AFTER truncation to
   PostgreSQL's 63 bytes); 0 = "no name"; 1..6 are the system columns ctid, tableoid, xmin,
   xmax, cmin, cmax (available on base tables only, never part of a star expansion);
   7 = "excluded" (ON CONFLICT DO UPDATE). *)
From Coq Require Import List NArith Bool.
Import ListNotations.
Open Scope N_scope.

Definition name := N.

(* known output columns, or unknown (a relation whose columns the harness does not know is
   assumed to provide every column asked of it) *)
Inductive colset := Open | Cols (cs : list name).

(* one entry of a query level's namespace (PostgreSQL: ParseNamespaceItem) *)
Record nsitem := mkItem {
  ns_name : name;        (* refname: alias, or relation name when there is no alias *)
  ns_cols : colset;
  ns_base : bool;        (* a base table: system columns can be referenced *)
  ns_ok   : bool         (* may be referenced from the current position
                            (false = PostgreSQL finds the entry and then raises "invalid
                            reference to FROM-clause entry" / "must not contain variables") *)
}.
Definition level := list nsitem.
Definition env := list level.                    (* innermost query level first *)
Definition cteenv := list (name * colset).       (* innermost / latest first *)

(* where a query sits: data-modifying statements are allowed as the top statement and as a
   CTE of the top statement only *)
Inductive pos := PTop | PCteTop | PSub.

Inductive jointype := JInner | JLeft | JCross | JRight | JFull.

Inductive relref :=
| RTab (unqualified : bool) (nm : name) (cols : colset)    (* a table / view of the catalog *)
| RCte (nm : name).                                         (* a reference to a WITH query *)

(* ---------------------------------------------------------------- syntax *)
Inductive atom :=
| ACol (q c : name)                (* q.c ; q = 0: unqualified c *)
| AStarRef (q : name)              (* q.* inside an expression (whole row) *)
| AParam (n : N)                   (* $n *)
| ASub (s : query)                 (* sub-select in an expression *)
with atoms := ANil | ACons (a : atom) (r : atoms)
with target :=
| TExpr (nm : name) (e : atoms)    (* expression [AS nm]; nm = 0: anonymous column *)
| TStar (q : name)                 (* q.* ; q = 0: bare * *)
with targets := TNil | TCons (t : target) (r : targets)
with sitem :=                       (* ORDER BY / GROUP BY item *)
| SBare (c : name)                 (* a bare unqualified name *)
| SExpr (e : atoms)
with sitems := SNil | SCons (s : sitem) (r : sitems)
with fitem :=
| FRel (r : relref) (alias : name) (acols : list name)
| FSub (lateral : bool) (s : query) (alias : name) (acols : list name)
| FFunc (args : atoms) (alias : name) (cols : colset)     (* functions are implicitly LATERAL *)
| FJoin (jt : jointype) (l r : fitem) (on : atoms)
with fitems := FNil | FCons (f : fitem) (r : fitems)
with withc := WNone | WSome (recursive : bool) (cs : ctes)
with ctes := CNil | CCons (nm : name) (acols : list name) (s : query) (r : ctes)
with source := SrcDefault | SrcQuery (s : query)
with conflict :=
| CfNone
| CfNothing (infer : atoms)
| CfUpdate (infer : atoms) (scols : list name) (sexprs : atoms)
with query :=
| QSelect (w : withc) (ts : targets) (fs : fitems) (body : atoms)
          (grp srt : sitems) (lim : atoms) (lock : list name)
| QValues (w : withc) (cols : list name) (es : atoms)
| QSetOp (w : withc) (l r : query) (srt : sitems) (lim : atoms)
| QInsert (w : withc) (rel : relref) (alias : name) (cols : list name)
          (src : source) (cf : conflict) (ret : targets)
| QUpdate (w : withc) (rel : relref) (alias : name) (scols : list name) (sexprs : atoms)
          (fs : fitems) (wh : atoms) (ret : targets)
| QDelete (w : withc) (rel : relref) (alias : name) (fs : fitems) (wh : atoms) (ret : targets).

(* ---------------------------------------------------------------- results *)
Definition err := (N * name * name)%type.
Inductive res (A : Type) := Ok (a : A) | Err (e : err).
Arguments Ok {A} a.
Arguments Err {A} e.

(* error codes (first component of [err]); the harness prints them by name *)
Definition E_missing_from : N := 1.       (* missing FROM-clause entry for table q *)
Definition E_invalid_ref : N := 2.        (* entry exists but cannot be referenced from here *)
Definition E_ambiguous_table : N := 3.
Definition E_no_column : N := 4.
Definition E_ambiguous_column : N := 5.
Definition E_cte_scope : N := 6.          (* WITH query referenced outside its scope *)
Definition E_tab_shadowed : N := 7.       (* unqualified table name captured by a CTE *)
Definition E_dml_target_cte : N := 8.
Definition E_dup_alias : N := 9.          (* table name specified more than once *)
Definition E_dup_cte : N := 10.
Definition E_recursive : N := 11.         (* WITH RECURSIVE: not modelled, rejected *)
Definition E_star_nofrom : N := 12.
Definition E_ambiguous_order : N := 13.
Definition E_ambiguous_group : N := 14.
Definition E_setop_arity : N := 15.
Definition E_setop_order_expr : N := 16.
Definition E_setop_order_unknown : N := 17.
Definition E_dml_nested : N := 18.
Definition E_insert_column : N := 19.
Definition E_insert_arity : N := 20.
Definition E_update_column : N := 21.
Definition E_alias_count : N := 22.
Definition E_lock_rel : N := 23.

(* ---------------------------------------------------------------- small helpers *)
Definition mem (c : name) (l : list name) : bool := existsb (N.eqb c) l.

Fixpoint count (c : name) (l : list name) : nat :=
  match l with
  | [] => O
  | x :: r => if N.eqb c x then S (count c r) else count c r
  end.

Fixpoint nodup (l : list name) : bool :=
  match l with
  | [] => true
  | x :: r => negb (mem x r) && nodup r
  end.

(* first duplicated element, for the error message *)
Fixpoint first_dup (l : list name) : name :=
  match l with
  | [] => 0
  | x :: r => if mem x r then x else first_dup r
  end.

Fixpoint subset (a b : list name) : bool :=
  match a with
  | [] => true
  | x :: r => mem x b && subset r b
  end.

Fixpoint first_missing (a b : list name) : name :=
  match a with
  | [] => 0
  | x :: r => if mem x b then first_missing r b else x
  end.

Definition is_syscol (c : name) : bool := (1 <=? c) && (c <=? 6).
Definition n_excluded : name := 7.

Definition has_col (it : nsitem) (c : name) : bool :=
  match ns_cols it with
  | Open => true
  | Cols l => mem c l || (ns_base it && is_syscol c)
  end.

Definition cs_app (a b : colset) : colset :=
  match a, b with
  | Cols x, Cols y => Cols (x ++ y)
  | _, _ => Open
  end.

Definition cs_sub (a : list name) (b : colset) : bool :=
  match b with Open => true | Cols l => subset a l end.

Definition cs_missing (a : list name) (b : colset) : name :=
  match b with Open => 0 | Cols l => first_missing a l end.

(* AS alias(c1..ck): the first k columns are renamed *)
Definition rename (cs : colset) (acols : list name) : res colset :=
  match acols with
  | [] => Ok cs
  | _ => match cs with
         | Open => Ok Open
         | Cols l => if Nat.leb (length acols) (length l)
                     then Ok (Cols (acols ++ skipn (length acols) l))
                     else Err (E_alias_count, 0, 0)
         end
  end.

Definition set_ok (b : bool) (l : level) : level :=
  map (fun it => mkItem (ns_name it) (ns_cols it) (ns_base it) (ns_ok it && b)) l.

Definition names_of (l : level) : list name := map ns_name l.

Definition join_lateral_ok (jt : jointype) : bool :=
  match jt with JInner | JLeft | JCross => true | JRight | JFull => false end.

(* ---------------------------------------------------------------- name resolution *)
Definition rel_matches (lvl : level) (q : name) : level :=
  filter (fun it => ns_name it =? q) lvl.
Definition col_matches (lvl : level) (c : name) : level :=
  filter (fun it => has_col it c) lvl.

(* refnameNamespaceItem: nearest level that has the refname; ambiguity and forbidden
   references are errors at that level (no fall-through) *)
Fixpoint resolve_rel (G : env) (q : name) : res nsitem :=
  match G with
  | [] => Err (E_missing_from, q, 0)
  | lvl :: G' =>
    match rel_matches lvl q with
    | [] => resolve_rel G' q
    | [it] => if ns_ok it then Ok it else Err (E_invalid_ref, q, 0)
    | _ => Err (E_ambiguous_table, q, 0)
    end
  end.

(* colNameToVar: nearest level in which some entry has the column.
   Ok true = found, Ok false = no entry of any level has it *)
Fixpoint find_col (G : env) (c : name) : res bool :=
  match G with
  | [] => Ok false
  | lvl :: G' =>
    match col_matches lvl c with
    | [] => find_col G' c
    | [it] => if ns_ok it then Ok true else Err (E_invalid_ref, ns_name it, c)
    | _ => Err (E_ambiguous_column, 0, c)
    end
  end.

(* an unqualified name: a column, else a whole-row reference to a range variable *)
Definition chk_unqual (G : env) (c : name) : res unit :=
  match find_col G c with
  | Err e => Err e
  | Ok true => Ok tt
  | Ok false => match resolve_rel G c with
                | Ok _ => Ok tt
                | Err (k, _, _) => if k =? E_missing_from then Err (E_no_column, 0, c)
                                   else Err (k, c, 0)
                end
  end.

Definition chk_qual (G : env) (q c : name) : res unit :=
  match resolve_rel G q with
  | Err e => Err e
  | Ok it => if has_col it c then Ok tt else Err (E_no_column, q, c)
  end.

Fixpoint cte_lookup (D : cteenv) (n : name) : option colset :=
  match D with
  | [] => None
  | (m, cs) :: D' => if m =? n then Some cs else cte_lookup D' n
  end.

(* a relation in FROM: (columns, is a base table) *)
Definition rel_cols (D : cteenv) (r : relref) : res (colset * bool) :=
  match r with
  | RCte n => match cte_lookup D n with
              | Some cs => Ok (cs, false)
              | None => Err (E_cte_scope, n, 0)
              end
  | RTab unq n cs =>
      if unq then match cte_lookup D n with
                  | Some _ => Err (E_tab_shadowed, n, 0)
                  | None => Ok (cs, true)
                  end
      else Ok (cs, true)
  end.

(* the target of INSERT / UPDATE / DELETE must be a catalog relation *)
Definition target_cols (D : cteenv) (r : relref) : res colset :=
  match r with
  | RCte n => Err (E_dml_target_cte, n, 0)
  | RTab _ _ _ => match rel_cols D r with Ok (cs, _) => Ok cs | Err e => Err e end
  end.

Definition level_cols (l : level) : colset :=
  fold_right (fun it acc => cs_app (ns_cols it) acc) (Cols []) l.

(* ORDER BY <bare name>: an output column name wins (SQL92); two output columns of that name
   are ambiguous; otherwise an ordinary expression *)
Definition chk_sort_bare (G : env) (out : colset) (c : name) : res unit :=
  match out with
  | Open => Ok tt
  | Cols l => match count c l with
              | 1%nat => Ok tt
              | O => chk_unqual G c
              | _ => Err (E_ambiguous_order, 0, c)
              end
  end.

(* GROUP BY <bare name>: a column of this level's FROM wins, then an output column name *)
Definition chk_group_bare (G : env) (out : colset) (c : name) : res unit :=
  match G with
  | lvl :: _ =>
    match col_matches lvl c with
    | _ :: _ => chk_unqual G c
    | [] => match out with
            | Open => Ok tt
            | Cols l => match count c l with
                        | 1%nat => Ok tt
                        | O => chk_unqual G c
                        | _ => Err (E_ambiguous_group, 0, c)
                        end
            end
    end
  | [] => chk_unqual G c
  end.

(* ORDER BY of a UNION/INTERSECT/EXCEPT: result column names only *)
Fixpoint chk_setop_sort (out : colset) (s : sitems) : res unit :=
  match s with
  | SNil => Ok tt
  | SCons (SExpr _) _ => Err (E_setop_order_expr, 0, 0)
  | SCons (SBare c) r =>
      match out with
      | Open => chk_setop_sort out r
      | Cols l => match count c l with
                  | 1%nat => chk_setop_sort out r
                  | _ => Err (E_setop_order_unknown, 0, c)
                  end
      end
  end.

Definition cs_same_arity (a b : colset) : bool :=
  match a, b with
  | Cols x, Cols y => Nat.eqb (length x) (length y)
  | _, _ => true
  end.

Definition arity_ok (cols : list name) (src : colset) : bool :=
  match cols, src with
  | [], _ => true
  | _, Open => true
  | _, Cols l => Nat.eqb (length cols) (length l)
  end.

Definition dml_allowed (p : pos) : bool :=
  match p with PSub => false | _ => true end.

Definition cte_pos (p : pos) : pos :=
  match p with PTop => PCteTop | _ => PSub end.

Fixpoint chk_lock (ns : level) (l : list name) : res unit :=
  match l with
  | [] => Ok tt
  | n :: r => if mem n (names_of ns) then chk_lock ns r else Err (E_lock_rel, n, 0)
  end.

Definition tgt_item (alias : name) (tcols : colset) (ok : bool) : nsitem :=
  mkItem alias tcols true ok.

(* ---------------------------------------------------------------- the checker *)
Fixpoint chk_atom (G : env) (D : cteenv) (a : atom) {struct a} : res unit :=
  match a with
  | ACol q c => if q =? 0 then chk_unqual G c else chk_qual G q c
  | AStarRef q => match resolve_rel G q with Ok _ => Ok tt | Err e => Err e end
  | AParam _ => Ok tt
  | ASub s => match chk_query G D PSub s with Ok _ => Ok tt | Err e => Err e end
  end

with chk_atoms (G : env) (D : cteenv) (l : atoms) {struct l} : res unit :=
  match l with
  | ANil => Ok tt
  | ACons a r => match chk_atom G D a with
                 | Ok _ => chk_atoms G D r
                 | Err e => Err e
                 end
  end

(* a target: the output columns it contributes.  G's head is the level that * expands *)
with chk_target (G : env) (D : cteenv) (t : target) {struct t} : res colset :=
  match t with
  | TExpr nm e => match chk_atoms G D e with
                  | Ok _ => Ok (Cols [nm])
                  | Err e => Err e
                  end
  | TStar q =>
      if q =? 0 then
        match G with
        | (_ :: _) as lvl :: _ => Ok (level_cols lvl)
        | _ => Err (E_star_nofrom, 0, 0)
        end
      else match resolve_rel G q with
           | Ok it => Ok (ns_cols it)
           | Err e => Err e
           end
  end

with chk_targets (G : env) (D : cteenv) (ts : targets) {struct ts} : res colset :=
  match ts with
  | TNil => Ok (Cols [])
  | TCons t r => match chk_target G D t with
                 | Ok c1 => match chk_targets G D r with
                            | Ok c2 => Ok (cs_app c1 c2)
                            | Err e => Err e
                            end
                 | Err e => Err e
                 end
  end

with chk_sorts (G : env) (D : cteenv) (out : colset) (s : sitems) {struct s} : res unit :=
  match s with
  | SNil => Ok tt
  | SCons (SBare c) r => match chk_sort_bare G out c with
                         | Ok _ => chk_sorts G D out r
                         | Err e => Err e
                         end
  | SCons (SExpr e) r => match chk_atoms G D e with
                         | Ok _ => chk_sorts G D out r
                         | Err e => Err e
                         end
  end

with chk_groups (G : env) (D : cteenv) (out : colset) (s : sitems) {struct s} : res unit :=
  match s with
  | SNil => Ok tt
  | SCons (SBare c) r => match chk_group_bare G out c with
                         | Ok _ => chk_groups G D out r
                         | Err e => Err e
                         end
  | SCons (SExpr e) r => match chk_atoms G D e with
                         | Ok _ => chk_groups G D out r
                         | Err e => Err e
                         end
  end

(* a FROM item, given the entries to its left (visible to LATERAL items only): the namespace
   it contributes *)
with chk_fitem (G : env) (D : cteenv) (left : level) (f : fitem) {struct f} : res level :=
  match f with
  | FRel r alias acols =>
      match rel_cols D r with
      | Ok (cs, base) => match rename cs acols with
                         | Ok cs' => Ok [mkItem alias cs' base true]
                         | Err e => Err e
                         end
      | Err e => Err e
      end
  | FSub lat s alias acols =>
      match chk_query (if lat then left :: G else G) D PSub s with
      | Ok cs => match rename cs acols with
                 | Ok cs' => Ok [mkItem alias cs' false true]
                 | Err e => Err e
                 end
      | Err e => Err e
      end
  | FFunc args alias cols =>
      match chk_atoms (left :: G) D args with
      | Ok _ => Ok [mkItem alias cols false true]
      | Err e => Err e
      end
  | FJoin jt l r on =>
      match chk_fitem G D left l with
      | Ok nsl =>
          match chk_fitem G D (left ++ set_ok (join_lateral_ok jt) nsl) r with
          | Ok nsr => match chk_atoms ((nsl ++ nsr) :: G) D on with
                      | Ok _ => Ok (nsl ++ nsr)
                      | Err e => Err e
                      end
          | Err e => Err e
          end
      | Err e => Err e
      end
  end

with chk_fitems (G : env) (D : cteenv) (left : level) (fs : fitems) {struct fs} : res level :=
  match fs with
  | FNil => Ok []
  | FCons f r => match chk_fitem G D left f with
                 | Ok ns1 => match chk_fitems G D (left ++ ns1) r with
                             | Ok ns2 => Ok (ns1 ++ ns2)
                             | Err e => Err e
                             end
                 | Err e => Err e
                 end
  end

with chk_with (G : env) (D : cteenv) (p : pos) (w : withc) {struct w} : res cteenv :=
  match w with
  | WNone => Ok D
  | WSome true _ => Err (E_recursive, 0, 0)
  | WSome false cs => chk_ctes G D p [] cs
  end

with chk_ctes (G : env) (D : cteenv) (p : pos) (seen : list name) (cs : ctes) {struct cs}
  : res cteenv :=
  match cs with
  | CNil => Ok D
  | CCons nm acols s r =>
      if mem nm seen then Err (E_dup_cte, nm, 0)
      else match chk_query G D (cte_pos p) s with
           | Ok cols => match rename cols acols with
                        | Ok cols' => chk_ctes G ((nm, cols') :: D) p (nm :: seen) r
                        | Err e => Err e
                        end
           | Err e => Err e
           end
  end

with chk_source (G : env) (D : cteenv) (cols : list name) (s : source) {struct s} : res unit :=
  match s with
  | SrcDefault => Ok tt
  | SrcQuery q => match chk_query ([] :: G) D PSub q with
                  | Ok sc => if arity_ok cols sc then Ok tt else Err (E_insert_arity, 0, 0)
                  | Err e => Err e
                  end
  end

with chk_conflict (G : env) (D : cteenv) (alias : name) (tcols : colset) (cf : conflict)
  {struct cf} : res unit :=
  match cf with
  | CfNone => Ok tt
  | CfNothing infer => chk_atoms ([tgt_item alias tcols true] :: G) D infer
  | CfUpdate infer scols sexprs =>
      match chk_atoms ([tgt_item alias tcols true] :: G) D infer with
      | Ok _ =>
          if cs_sub scols tcols then
            if alias =? n_excluded then Err (E_dup_alias, n_excluded, 0)
            else chk_atoms ([tgt_item alias tcols true;
                             mkItem n_excluded tcols false true] :: G) D sexprs
          else Err (E_update_column, alias, cs_missing scols tcols)
      | Err e => Err e
      end
  end

with chk_query (G : env) (D : cteenv) (p : pos) (q : query) {struct q} : res colset :=
  match q with
  | QSelect w ts fs body grp srt lim lock =>
      match chk_with G D p w with
      | Ok D' =>
        match chk_fitems G D' [] fs with
        | Ok ns =>
          if nodup (names_of ns) then
            match chk_targets (ns :: G) D' ts with
            | Ok out =>
              match chk_atoms (ns :: G) D' body with
              | Ok _ =>
                match chk_groups (ns :: G) D' out grp with
                | Ok _ =>
                  match chk_sorts (ns :: G) D' out srt with
                  | Ok _ =>
                    match chk_atoms (set_ok false ns :: G) D' lim with
                    | Ok _ => match chk_lock ns lock with
                              | Ok _ => Ok out
                              | Err e => Err e
                              end
                    | Err e => Err e
                    end
                  | Err e => Err e
                  end
                | Err e => Err e
                end
              | Err e => Err e
              end
            | Err e => Err e
            end
          else Err (E_dup_alias, first_dup (names_of ns), 0)
        | Err e => Err e
        end
      | Err e => Err e
      end
  | QValues w cols es =>
      match chk_with G D p w with
      | Ok D' => match chk_atoms ([] :: G) D' es with
                 | Ok _ => Ok (Cols cols)
                 | Err e => Err e
                 end
      | Err e => Err e
      end
  | QSetOp w l r srt lim =>
      match chk_with G D p w with
      | Ok D' =>
        match chk_query G D' PSub l with
        | Ok cl =>
          match chk_query G D' PSub r with
          | Ok cr =>
            if cs_same_arity cl cr then
              match chk_setop_sort cl srt with
              | Ok _ => match chk_atoms ([] :: G) D' lim with
                        | Ok _ => Ok cl
                        | Err e => Err e
                        end
              | Err e => Err e
              end
            else Err (E_setop_arity, 0, 0)
          | Err e => Err e
          end
        | Err e => Err e
        end
      | Err e => Err e
      end
  | QInsert w rel alias cols src cf ret =>
      if dml_allowed p then
        match chk_with G D p w with
        | Ok D' =>
          match target_cols D' rel with
          | Ok tcols =>
            if cs_sub cols tcols then
              match chk_source G D' cols src with
              | Ok _ =>
                match chk_conflict G D' alias tcols cf with
                | Ok _ => chk_targets ([tgt_item alias tcols true] :: G) D' ret
                | Err e => Err e
                end
              | Err e => Err e
              end
            else Err (E_insert_column, alias, cs_missing cols tcols)
          | Err e => Err e
          end
        | Err e => Err e
        end
      else Err (E_dml_nested, 0, 0)
  | QUpdate w rel alias scols sexprs fs wh ret =>
      if dml_allowed p then
        match chk_with G D p w with
        | Ok D' =>
          match target_cols D' rel with
          | Ok tcols =>
            match chk_fitems G D' [tgt_item alias tcols false] fs with
            | Ok ns =>
              if nodup (alias :: names_of ns) then
                if cs_sub scols tcols then
                  match chk_atoms ((tgt_item alias tcols true :: ns) :: G) D' sexprs with
                  | Ok _ =>
                    match chk_atoms ((tgt_item alias tcols true :: ns) :: G) D' wh with
                    | Ok _ => chk_targets ((tgt_item alias tcols true :: ns) :: G) D' ret
                    | Err e => Err e
                    end
                  | Err e => Err e
                  end
                else Err (E_update_column, alias, cs_missing scols tcols)
              else Err (E_dup_alias, first_dup (alias :: names_of ns), 0)
            | Err e => Err e
            end
          | Err e => Err e
          end
        | Err e => Err e
        end
      else Err (E_dml_nested, 0, 0)
  | QDelete w rel alias fs wh ret =>
      if dml_allowed p then
        match chk_with G D p w with
        | Ok D' =>
          match target_cols D' rel with
          | Ok tcols =>
            match chk_fitems G D' [tgt_item alias tcols false] fs with
            | Ok ns =>
              if nodup (alias :: names_of ns) then
                match chk_atoms ((tgt_item alias tcols true :: ns) :: G) D' wh with
                | Ok _ => chk_targets ((tgt_item alias tcols true :: ns) :: G) D' ret
                | Err e => Err e
                end
              else Err (E_dup_alias, first_dup (alias :: names_of ns), 0)
            | Err e => Err e
            end
          | Err e => Err e
          end
        | Err e => Err e
        end
      else Err (E_dml_nested, 0, 0)
  end.

Definition check (q : query) : res colset := chk_query [] [] PTop q.

Definition well_scoped (q : query) : bool :=
  match check q with Ok _ => true | Err _ => false end.

(* ---------------------------------------------------------------- parameters *)
Fixpoint par_atom (a : atom) : list N :=
  match a with
  | ACol _ _ | AStarRef _ => []
  | AParam n => [n]
  | ASub s => par_query s
  end
with par_atoms (l : atoms) : list N :=
  match l with ANil => [] | ACons a r => par_atom a ++ par_atoms r end
with par_target (t : target) : list N :=
  match t with TExpr _ e => par_atoms e | TStar _ => [] end
with par_targets (ts : targets) : list N :=
  match ts with TNil => [] | TCons t r => par_target t ++ par_targets r end
with par_sitem (s : sitem) : list N :=
  match s with SBare _ => [] | SExpr e => par_atoms e end
with par_sitems (s : sitems) : list N :=
  match s with SNil => [] | SCons x r => par_sitem x ++ par_sitems r end
with par_fitem (f : fitem) : list N :=
  match f with
  | FRel _ _ _ => []
  | FSub _ s _ _ => par_query s
  | FFunc args _ _ => par_atoms args
  | FJoin _ l r on => par_fitem l ++ par_fitem r ++ par_atoms on
  end
with par_fitems (fs : fitems) : list N :=
  match fs with FNil => [] | FCons f r => par_fitem f ++ par_fitems r end
with par_with (w : withc) : list N :=
  match w with WNone => [] | WSome _ cs => par_ctes cs end
with par_ctes (cs : ctes) : list N :=
  match cs with CNil => [] | CCons _ _ s r => par_query s ++ par_ctes r end
with par_source (s : source) : list N :=
  match s with SrcDefault => [] | SrcQuery q => par_query q end
with par_conflict (cf : conflict) : list N :=
  match cf with
  | CfNone => []
  | CfNothing i => par_atoms i
  | CfUpdate i _ e => par_atoms i ++ par_atoms e
  end
with par_query (q : query) : list N :=
  match q with
  | QSelect w ts fs body grp srt lim _ =>
      par_with w ++ par_targets ts ++ par_fitems fs ++ par_atoms body
      ++ par_sitems grp ++ par_sitems srt ++ par_atoms lim
  | QValues w _ es => par_with w ++ par_atoms es
  | QSetOp w l r srt lim => par_with w ++ par_query l ++ par_query r ++ par_sitems srt ++ par_atoms lim
  | QInsert w _ _ _ src cf ret => par_with w ++ par_source src ++ par_conflict cf ++ par_targets ret
  | QUpdate w _ _ _ sexprs fs wh ret =>
      par_with w ++ par_atoms sexprs ++ par_fitems fs ++ par_atoms wh ++ par_targets ret
  | QDelete w _ _ fs wh ret => par_with w ++ par_fitems fs ++ par_atoms wh ++ par_targets ret
  end.

Definition params_of (q : query) : list N := par_query q.

(* the argument map as reported by the compiler: one entry per EdgeQL parameter / global:
   (physical index, composite?) -- a composite (tuple) parameter is decoded from its
   sub-parameters and has no $n of its own *)
Definition argentry := (N * bool)%type.

Definition phys (am : list argentry) : list N :=
  map fst (filter (fun e => negb (snd e)) am).

Fixpoint all_in (a b : list N) : bool :=
  match a with
  | [] => true
  | x :: r => mem x b && all_in r b
  end.

Fixpoint seq1 (k : nat) : list N :=       (* [k; k-1; ...; 1] *)
  match k with
  | O => []
  | S k' => N.of_nat k :: seq1 k'
  end.

(* parameters are numbered consistently with the argument map:
   the physical indexes are pairwise distinct and are exactly 1..k, and the $n occurring in
   the statement are exactly the physical indexes *)
Definition params_ok (am : list argentry) (q : query) : bool :=
  let idx := phys am in
  nodup idx && all_in idx (seq1 (length idx)) && all_in (seq1 (length idx)) idx
  && all_in (params_of q) idx && all_in idx (params_of q).
