(* C13 -- the declarative scoping relation (PostgreSQL's name-resolution rules, written
   from parse_relation.c / parse_clause.c / parse_cte.c / analyze.c) and the proof that the
   checker of Model.v decides it; parameter consistency. *)
From Coq Require Import List NArith Bool Lia PeanoNat.
From Verif.C13 Require Import Model.
Import ListNotations.
Open Scope N_scope.

(* ================================================================ name resolution *)

(* refnameNamespaceItem / scanNameSpaceForRefname: the nearest query level that has an entry
   with this refname decides; there the entry must be unique and referencable *)
Inductive ResolveRel : env -> name -> nsitem -> Prop :=
| RR_here : forall lvl G q it,
    rel_matches lvl q = [it] -> ns_ok it = true -> ResolveRel (lvl :: G) q it
| RR_up : forall lvl G q it,
    rel_matches lvl q = [] -> ResolveRel G q it -> ResolveRel (lvl :: G) q it.

(* colNameToVar: the nearest level in which some entry provides the column decides *)
Inductive ResolveCol : env -> name -> Prop :=
| RC_here : forall lvl G c it,
    col_matches lvl c = [it] -> ns_ok it = true -> ResolveCol (lvl :: G) c
| RC_up : forall lvl G c,
    col_matches lvl c = [] -> ResolveCol G c -> ResolveCol (lvl :: G) c.

Inductive NoCol : env -> name -> Prop :=
| NC_nil : forall c, NoCol [] c
| NC_cons : forall lvl G c, col_matches lvl c = [] -> NoCol G c -> NoCol (lvl :: G) c.

(* an unqualified name is a column, or -- if no entry of any level has such a column -- a
   whole-row reference to a range variable *)
Definition UnqualOK (G : env) (c : name) : Prop :=
  ResolveCol G c \/ (NoCol G c /\ exists it, ResolveRel G c it).

Definition QualOK (G : env) (q c : name) : Prop :=
  exists it, ResolveRel G q it /\ has_col it c = true.

(* a relation name in FROM: WITH queries shadow unqualified table names; a schema-qualified
   name is always a catalog relation *)
Inductive RelCols : cteenv -> relref -> colset -> bool -> Prop :=
| RCo_cte : forall D n cs, cte_lookup D n = Some cs -> RelCols D (RCte n) cs false
| RCo_tab_q : forall D n cs, RelCols D (RTab false n cs) cs true
| RCo_tab_u : forall D n cs, cte_lookup D n = None -> RelCols D (RTab true n cs) cs true.

Inductive TargetCols : cteenv -> relref -> colset -> Prop :=
| TCo : forall D u n cs b, RelCols D (RTab u n cs) cs b -> TargetCols D (RTab u n cs) cs.

Definition SortBareOK (G : env) (out : colset) (c : name) : Prop :=
  match out with
  | Open => True
  | Cols l => count c l = 1%nat \/ (count c l = 0%nat /\ UnqualOK G c)
  end.

Definition GroupBareOK (G : env) (out : colset) (c : name) : Prop :=
  match G with
  | lvl :: _ => if match col_matches lvl c with [] => false | _ => true end
                then UnqualOK G c else SortBareOK G out c
  | [] => UnqualOK G c
  end.

Inductive SetopSort : colset -> sitems -> Prop :=
| SS_nil : forall out, SetopSort out SNil
| SS_open : forall c r, SetopSort Open r -> SetopSort Open (SCons (SBare c) r)
| SS_cols : forall l c r, count c l = 1%nat -> SetopSort (Cols l) r ->
                          SetopSort (Cols l) (SCons (SBare c) r).

(* ================================================================ the scoping relation *)
(* [SQuery G D p q cols]: under the outer query levels G (innermost first) and the visible
   WITH queries D, at position p, statement q is well-scoped and has output columns cols *)
Inductive SAtom : env -> cteenv -> atom -> Prop :=
| SA_unq : forall G D c, UnqualOK G c -> SAtom G D (ACol 0 c)
| SA_qual : forall G D q c, q <> 0 -> QualOK G q c -> SAtom G D (ACol q c)
| SA_star : forall G D q it, ResolveRel G q it -> SAtom G D (AStarRef q)
| SA_param : forall G D n, SAtom G D (AParam n)
| SA_sub : forall G D s cols, SQuery G D PSub s cols -> SAtom G D (ASub s)

with SAtoms : env -> cteenv -> atoms -> Prop :=
| SAs_nil : forall G D, SAtoms G D ANil
| SAs_cons : forall G D a r, SAtom G D a -> SAtoms G D r -> SAtoms G D (ACons a r)

with STarget : env -> cteenv -> target -> colset -> Prop :=
| ST_expr : forall G D nm e, SAtoms G D e -> STarget G D (TExpr nm e) (Cols [nm])
| ST_star_all : forall it lvl G D,
    STarget ((it :: lvl) :: G) D (TStar 0) (level_cols (it :: lvl))
| ST_star_q : forall G D q it, q <> 0 -> ResolveRel G q it -> STarget G D (TStar q) (ns_cols it)

with STargets : env -> cteenv -> targets -> colset -> Prop :=
| STs_nil : forall G D, STargets G D TNil (Cols [])
| STs_cons : forall G D t r c1 c2,
    STarget G D t c1 -> STargets G D r c2 -> STargets G D (TCons t r) (cs_app c1 c2)

with SSorts : env -> cteenv -> colset -> sitems -> Prop :=
| SSo_nil : forall G D out, SSorts G D out SNil
| SSo_bare : forall G D out c r,
    SortBareOK G out c -> SSorts G D out r -> SSorts G D out (SCons (SBare c) r)
| SSo_expr : forall G D out e r,
    SAtoms G D e -> SSorts G D out r -> SSorts G D out (SCons (SExpr e) r)

with SGroups : env -> cteenv -> colset -> sitems -> Prop :=
| SGr_nil : forall G D out, SGroups G D out SNil
| SGr_bare : forall G D out c r,
    GroupBareOK G out c -> SGroups G D out r -> SGroups G D out (SCons (SBare c) r)
| SGr_expr : forall G D out e r,
    SAtoms G D e -> SGroups G D out r -> SGroups G D out (SCons (SExpr e) r)

(* FROM items are analysed left to right; [left] = the entries already in the namespace of
   this level: visible to LATERAL sub-selects and to functions only *)
with SFItem : env -> cteenv -> level -> fitem -> level -> Prop :=
| SF_rel : forall G D left r alias acols cs base cs',
    RelCols D r cs base -> rename cs acols = Ok cs' ->
    SFItem G D left (FRel r alias acols) [mkItem alias cs' base true]
| SF_sub_lateral : forall G D left s alias acols cs cs',
    SQuery (left :: G) D PSub s cs -> rename cs acols = Ok cs' ->
    SFItem G D left (FSub true s alias acols) [mkItem alias cs' false true]
| SF_sub_plain : forall G D left s alias acols cs cs',
    SQuery G D PSub s cs -> rename cs acols = Ok cs' ->
    SFItem G D left (FSub false s alias acols) [mkItem alias cs' false true]
| SF_func : forall G D left args alias cols,
    SAtoms (left :: G) D args ->
    SFItem G D left (FFunc args alias cols) [mkItem alias cols false true]
| SF_join : forall G D left jt l r on nsl nsr,
    SFItem G D left l nsl ->
    SFItem G D (left ++ set_ok (join_lateral_ok jt) nsl) r nsr ->
    SAtoms ((nsl ++ nsr) :: G) D on ->          (* ON sees the joined relations only *)
    SFItem G D left (FJoin jt l r on) (nsl ++ nsr)

with SFItems : env -> cteenv -> level -> fitems -> level -> Prop :=
| SFs_nil : forall G D left, SFItems G D left FNil []
| SFs_cons : forall G D left f r ns1 ns2,
    SFItem G D left f ns1 -> SFItems G D (left ++ ns1) r ns2 ->
    SFItems G D left (FCons f r) (ns1 ++ ns2)

with SWith : env -> cteenv -> pos -> withc -> cteenv -> Prop :=
| SW_none : forall G D p, SWith G D p WNone D
| SW_some : forall G D p cs D', SCtes G D p [] cs D' -> SWith G D p (WSome false cs) D'

(* non-recursive WITH: each query sees the earlier ones; names are distinct *)
with SCtes : env -> cteenv -> pos -> list name -> ctes -> cteenv -> Prop :=
| SC_nil : forall G D p seen, SCtes G D p seen CNil D
| SC_cons : forall G D p seen nm acols s r cols cols' D',
    ~ In nm seen ->
    SQuery G D (cte_pos p) s cols -> rename cols acols = Ok cols' ->
    SCtes G ((nm, cols') :: D) p (nm :: seen) r D' ->
    SCtes G D p seen (CCons nm acols s r) D'

with SSource : env -> cteenv -> list name -> source -> Prop :=
| SS_default : forall G D cols, SSource G D cols SrcDefault
| SS_query : forall G D cols q sc,
    SQuery ([] :: G) D PSub q sc -> arity_ok cols sc = true -> SSource G D cols (SrcQuery q)

with SConflict : env -> cteenv -> name -> colset -> conflict -> Prop :=
| SCf_none : forall G D alias tcols, SConflict G D alias tcols CfNone
| SCf_nothing : forall G D alias tcols infer,
    SAtoms ([tgt_item alias tcols true] :: G) D infer ->
    SConflict G D alias tcols (CfNothing infer)
| SCf_update : forall G D alias tcols infer scols sexprs,
    SAtoms ([tgt_item alias tcols true] :: G) D infer ->
    cs_sub scols tcols = true -> alias <> n_excluded ->
    SAtoms ([tgt_item alias tcols true; mkItem n_excluded tcols false true] :: G) D sexprs ->
    SConflict G D alias tcols (CfUpdate infer scols sexprs)

with SQuery : env -> cteenv -> pos -> query -> colset -> Prop :=
| SQ_select : forall G D p w ts fs body grp srt lim lock D' ns out,
    SWith G D p w D' ->
    SFItems G D' [] fs ns ->
    NoDup (names_of ns) ->
    STargets (ns :: G) D' ts out ->
    SAtoms (ns :: G) D' body ->
    SGroups (ns :: G) D' out grp ->
    SSorts (ns :: G) D' out srt ->
    SAtoms (set_ok false ns :: G) D' lim ->       (* LIMIT/OFFSET: no variables of this level *)
    (forall n, In n lock -> In n (names_of ns)) ->
    SQuery G D p (QSelect w ts fs body grp srt lim lock) out
| SQ_values : forall G D p w cols es D',
    SWith G D p w D' -> SAtoms ([] :: G) D' es ->
    SQuery G D p (QValues w cols es) (Cols cols)
| SQ_setop : forall G D p w l r srt lim D' cl cr,
    SWith G D p w D' ->
    SQuery G D' PSub l cl -> SQuery G D' PSub r cr ->
    cs_same_arity cl cr = true ->
    SetopSort cl srt ->
    SAtoms ([] :: G) D' lim ->
    SQuery G D p (QSetOp w l r srt lim) cl
| SQ_insert : forall G D p w rel alias cols src cf ret D' tcols out,
    dml_allowed p = true ->
    SWith G D p w D' ->
    TargetCols D' rel tcols ->
    cs_sub cols tcols = true ->
    SSource G D' cols src ->                      (* the source does not see the target *)
    SConflict G D' alias tcols cf ->
    STargets ([tgt_item alias tcols true] :: G) D' ret out ->
    SQuery G D p (QInsert w rel alias cols src cf ret) out
| SQ_update : forall G D p w rel alias scols sexprs fs wh ret D' tcols ns out,
    dml_allowed p = true ->
    SWith G D p w D' ->
    TargetCols D' rel tcols ->
    SFItems G D' [tgt_item alias tcols false] fs ns ->   (* FROM cannot reference the target *)
    NoDup (alias :: names_of ns) ->
    cs_sub scols tcols = true ->
    SAtoms ((tgt_item alias tcols true :: ns) :: G) D' sexprs ->
    SAtoms ((tgt_item alias tcols true :: ns) :: G) D' wh ->
    STargets ((tgt_item alias tcols true :: ns) :: G) D' ret out ->
    SQuery G D p (QUpdate w rel alias scols sexprs fs wh ret) out
| SQ_delete : forall G D p w rel alias fs wh ret D' tcols ns out,
    dml_allowed p = true ->
    SWith G D p w D' ->
    TargetCols D' rel tcols ->
    SFItems G D' [tgt_item alias tcols false] fs ns ->
    NoDup (alias :: names_of ns) ->
    SAtoms ((tgt_item alias tcols true :: ns) :: G) D' wh ->
    STargets ((tgt_item alias tcols true :: ns) :: G) D' ret out ->
    SQuery G D p (QDelete w rel alias fs wh ret) out.

(* a complete statement: no outer levels, no WITH queries in scope, top position *)
Definition Scoped (q : query) : Prop := exists cols, SQuery [] [] PTop q cols.

(* ================================================================ helper lemmas *)

Lemma mem_In : forall c l, mem c l = true <-> In c l.
Proof.
  unfold mem. intros c l. rewrite existsb_exists. split.
  - intros [x [Hi He]]. apply N.eqb_eq in He. subst. exact Hi.
  - intros H. exists c. split; [exact H | apply N.eqb_refl].
Qed.

Lemma mem_false : forall c l, mem c l = false <-> ~ In c l.
Proof.
  intros c l. rewrite <- mem_In. destruct (mem c l); split; intro H; try discriminate; auto.
  exfalso. apply H. reflexivity.
Qed.

Lemma nodup_NoDup : forall l, nodup l = true <-> NoDup l.
Proof.
  induction l as [|x r IH]; simpl.
  - split; intros; [constructor | reflexivity].
  - rewrite andb_true_iff, negb_true_iff, mem_false, IH. split.
    + intros [A B]. constructor; assumption.
    + intros H. inversion H; subst. split; assumption.
Qed.

Lemma resolve_rel_iff : forall G q it, resolve_rel G q = Ok it <-> ResolveRel G q it.
Proof.
  induction G as [|lvl G IH]; intros q it; simpl.
  - split; intro H; [discriminate | inversion H].
  - destruct (rel_matches lvl q) as [|x [|y l]] eqn:E.
    + rewrite IH. split; intro H.
      * apply RR_up; assumption.
      * inversion H; subst; [congruence | assumption].
    + destruct (ns_ok x) eqn:Ek.
      * split; intro H.
        -- inversion H; subst. apply RR_here; assumption.
        -- inversion H; subst; [| congruence].
           match goal with A : rel_matches _ _ = [_] |- _ => rewrite E in A; inversion A end.
           reflexivity.
      * split; intro H; [discriminate |].
        inversion H; subst; [| congruence].
        match goal with A : rel_matches _ _ = [_] |- _ => rewrite E in A; inversion A; subst end.
        congruence.
    + split; intro H; [discriminate |].
      inversion H; subst; congruence.
Qed.

Lemma resolve_rel_fun : forall G q a b, ResolveRel G q a -> ResolveRel G q b -> a = b.
Proof.
  intros G q a b Ha Hb. apply resolve_rel_iff in Ha. apply resolve_rel_iff in Hb. congruence.
Qed.

Lemma find_col_true : forall G c, find_col G c = Ok true <-> ResolveCol G c.
Proof.
  induction G as [|lvl G IH]; intros c; simpl.
  - split; intro H; [discriminate | inversion H].
  - destruct (col_matches lvl c) as [|x [|y l]] eqn:E.
    + rewrite IH. split; intro H.
      * apply RC_up; assumption.
      * inversion H; subst; [congruence | assumption].
    + destruct (ns_ok x) eqn:Ek.
      * split; intro H; [eapply RC_here; eassumption | reflexivity].
      * split; intro H; [discriminate |].
        inversion H; subst; [| congruence].
        match goal with A : col_matches _ _ = [_] |- _ => rewrite E in A; inversion A; subst end.
        congruence.
    + split; intro H; [discriminate |].
      inversion H; subst; congruence.
Qed.

Lemma find_col_false : forall G c, find_col G c = Ok false <-> NoCol G c.
Proof.
  induction G as [|lvl G IH]; intros c; simpl.
  - split; intro H; [constructor | reflexivity].
  - destruct (col_matches lvl c) as [|x [|y l]] eqn:E.
    + rewrite IH. split; intro H.
      * constructor; assumption.
      * inversion H; subst; assumption.
    + split; intro H.
      * destruct (ns_ok x); discriminate.
      * inversion H; subst; congruence.
    + split; intro H; [discriminate | inversion H; subst; congruence].
Qed.

Lemma chk_unqual_iff : forall G c, chk_unqual G c = Ok tt <-> UnqualOK G c.
Proof.
  intros G c. unfold chk_unqual, UnqualOK.
  destruct (find_col G c) as [[|]|e] eqn:F.
  - split; intro H; [left; apply find_col_true; exact F | reflexivity].
  - destruct (resolve_rel G c) as [it|[[k a] b]] eqn:R.
    + split; intro H; [| reflexivity].
      right. split; [apply find_col_false; exact F | exists it; apply resolve_rel_iff; exact R].
    + split; intro H.
      * destruct (k =? E_missing_from); discriminate.
      * destruct H as [H | [_ [it H]]].
        -- apply find_col_true in H. congruence.
        -- apply resolve_rel_iff in H. congruence.
  - split; intro H; [discriminate |].
    destruct H as [H | [H _]].
    + apply find_col_true in H. congruence.
    + apply find_col_false in H. congruence.
Qed.

Lemma chk_qual_iff : forall G q c, chk_qual G q c = Ok tt <-> QualOK G q c.
Proof.
  intros G q c. unfold chk_qual, QualOK.
  destruct (resolve_rel G q) as [it|e] eqn:R.
  - destruct (has_col it c) eqn:Hc.
    + split; intro H; [| reflexivity].
      exists it. split; [apply resolve_rel_iff; exact R | exact Hc].
    + split; intro H; [discriminate |].
      destruct H as [it' [H1 H2]]. apply resolve_rel_iff in H1. congruence.
  - split; intro H; [discriminate |].
    destruct H as [it' [H1 _]]. apply resolve_rel_iff in H1. congruence.
Qed.

Lemma rel_cols_iff : forall D r cs b, rel_cols D r = Ok (cs, b) <-> RelCols D r cs b.
Proof.
  intros D r cs b. destruct r as [u n c | n]; simpl.
  - destruct u.
    + destruct (cte_lookup D n) eqn:E.
      * split; intro H; [discriminate | inversion H; subst; congruence].
      * split; intro H.
        -- inversion H; subst. constructor. exact E.
        -- inversion H; subst. reflexivity.
    + split; intro H.
      * inversion H; subst. constructor.
      * inversion H; subst. reflexivity.
  - destruct (cte_lookup D n) eqn:E.
    + split; intro H.
      * inversion H; subst. constructor. exact E.
      * inversion H; subst. congruence.
    + split; intro H; [discriminate | inversion H; subst; congruence].
Qed.

Lemma target_cols_iff : forall D r cs, target_cols D r = Ok cs <-> TargetCols D r cs.
Proof.
  intros D r cs. destruct r as [u n c | n].
  - unfold target_cols. destruct (rel_cols D (RTab u n c)) as [[c' b]|e] eqn:E.
    + apply rel_cols_iff in E. split; intro H.
      * inversion H; subst. inversion E; subst; econstructor; eassumption.
      * inversion H; subst. inversion E; subst; reflexivity.
    + split; intro H; [discriminate |].
      inversion H; subst.
      match goal with A : RelCols _ _ _ _ |- _ => apply rel_cols_iff in A end. congruence.
  - simpl. split; intro H; [discriminate | inversion H].
Qed.

Lemma chk_sort_bare_iff : forall G out c, chk_sort_bare G out c = Ok tt <-> SortBareOK G out c.
Proof.
  intros G out c. unfold chk_sort_bare, SortBareOK. destruct out as [|l].
  - split; auto.
  - destruct (count c l) as [|[|k]] eqn:E.
    + rewrite chk_unqual_iff. split; intro H.
      * right. split; [reflexivity | exact H].
      * destruct H as [H | [_ H]]; [discriminate | exact H].
    + split; intro H; [left; reflexivity | reflexivity].
    + split; intro H; [discriminate |].
      destruct H as [H | [H _]]; discriminate.
Qed.

Lemma chk_group_bare_iff : forall G out c, chk_group_bare G out c = Ok tt <-> GroupBareOK G out c.
Proof.
  intros G out c. unfold chk_group_bare, GroupBareOK. destruct G as [|lvl G].
  - apply chk_unqual_iff.
  - destruct (col_matches lvl c) eqn:E.
    + unfold SortBareOK. destruct out as [|l].
      * split; auto.
      * destruct (count c l) as [|[|k]] eqn:E'.
        -- rewrite chk_unqual_iff. split; intro H.
           ++ right. split; [reflexivity | exact H].
           ++ destruct H as [H | [_ H]]; [discriminate | exact H].
        -- split; intro H; [left; reflexivity | reflexivity].
        -- split; intro H; [discriminate |].
           destruct H as [H | [H _]]; discriminate.
    + apply chk_unqual_iff.
Qed.

Lemma chk_setop_sort_iff : forall s out, chk_setop_sort out s = Ok tt <-> SetopSort out s.
Proof.
  induction s as [|x r IH]; intros out; simpl.
  - split; intro H; [constructor | reflexivity].
  - destruct x as [c | e].
    + destruct out as [|l].
      * rewrite IH. split; intro H; [constructor; exact H | inversion H; subst; assumption].
      * destruct (count c l) as [|[|k]] eqn:E.
        -- split; intro H; [discriminate | inversion H; subst; congruence].
        -- rewrite IH. split; intro H; [constructor; assumption | inversion H; subst; assumption].
        -- split; intro H; [discriminate | inversion H; subst; congruence].
    + split; intro H; [discriminate | inversion H].
Qed.

Lemma chk_lock_iff : forall ns l,
  chk_lock ns l = Ok tt <-> (forall n, In n l -> In n (names_of ns)).
Proof.
  intros ns. induction l as [|x r IH]; simpl.
  - split; intros; [contradiction | reflexivity].
  - destruct (mem x (names_of ns)) eqn:E.
    + rewrite IH. apply mem_In in E. split; intro H.
      * intros n [Hn | Hn]; [subst; exact E | apply H; exact Hn].
      * intros n Hn. apply H. right. exact Hn.
    + apply mem_false in E. split; intro H; [discriminate |].
      exfalso. apply E. apply H. left. reflexivity.
Qed.

Lemma unit_ok : forall (r : res unit) (u : unit), r = Ok u <-> r = Ok tt.
Proof. intros r u. destruct u. reflexivity. Qed.

(* ================================================================ the checker decides Scoped *)

Scheme atom_mind := Induction for atom Sort Prop
with atoms_mind := Induction for atoms Sort Prop
with target_mind := Induction for target Sort Prop
with targets_mind := Induction for targets Sort Prop
with sitem_mind := Induction for sitem Sort Prop
with sitems_mind := Induction for sitems Sort Prop
with fitem_mind := Induction for fitem Sort Prop
with fitems_mind := Induction for fitems Sort Prop
with withc_mind := Induction for withc Sort Prop
with ctes_mind := Induction for ctes Sort Prop
with source_mind := Induction for source Sort Prop
with conflict_mind := Induction for conflict Sort Prop
with query_mind := Induction for query Sort Prop.

Combined Scheme syntax_mutind from atom_mind, atoms_mind, target_mind, targets_mind,
  sitem_mind, sitems_mind, fitem_mind, fitems_mind, withc_mind, ctes_mind, source_mind,
  conflict_mind, query_mind.

Definition P_atom (a : atom) := forall G D, chk_atom G D a = Ok tt <-> SAtom G D a.
Definition P_atoms (l : atoms) := forall G D, chk_atoms G D l = Ok tt <-> SAtoms G D l.
Definition P_target (t : target) := forall G D cs, chk_target G D t = Ok cs <-> STarget G D t cs.
Definition P_targets (t : targets) :=
  forall G D cs, chk_targets G D t = Ok cs <-> STargets G D t cs.
Definition P_sitem (s : sitem) :=
  match s with SBare _ => True | SExpr e => P_atoms e end.
Definition P_sitems (s : sitems) :=
  forall G D out, (chk_sorts G D out s = Ok tt <-> SSorts G D out s)
               /\ (chk_groups G D out s = Ok tt <-> SGroups G D out s).
Definition P_fitem (f : fitem) :=
  forall G D left ns, chk_fitem G D left f = Ok ns <-> SFItem G D left f ns.
Definition P_fitems (f : fitems) :=
  forall G D left ns, chk_fitems G D left f = Ok ns <-> SFItems G D left f ns.
Definition P_withc (w : withc) :=
  forall G D p D', chk_with G D p w = Ok D' <-> SWith G D p w D'.
Definition P_ctes (c : ctes) :=
  forall G D p seen D', chk_ctes G D p seen c = Ok D' <-> SCtes G D p seen c D'.
Definition P_source (s : source) :=
  forall G D cols, chk_source G D cols s = Ok tt <-> SSource G D cols s.
Definition P_conflict (c : conflict) :=
  forall G D alias tcols, chk_conflict G D alias tcols c = Ok tt <-> SConflict G D alias tcols c.
Definition P_query (q : query) :=
  forall G D p cs, chk_query G D p q = Ok cs <-> SQuery G D p q cs.

(* destruct the scrutinee of the first match / if in hypothesis H *)
Ltac step H :=
  match type of H with
  | match ?x with _ => _ end = Ok _ => let E := fresh "E" in destruct x eqn:E; try discriminate H
  | (if ?b then _ else _) = Ok _ => let E := fresh "E" in destruct b eqn:E; try discriminate H
  end.

Ltac inj H := inversion H; subst; clear H.

Lemma ok_tt_res : forall (r : res unit), (exists u, r = Ok u) -> r = Ok tt.
Proof. intros r [[] H]. exact H. Qed.

Ltac units := repeat match goal with u : unit |- _ => destruct u end.
Arguments nodup : simpl never.
Ltac unify_ok := repeat match goal with
  | A : ?x = Ok ?a, B : ?x = Ok ?b |- _ => rewrite A in B; inversion B; subst; clear B
  | A : ?x = Ok ?a, B : ?x = Err ?b |- _ => rewrite A in B; discriminate B
  end.
Ltac cg := unify_ok; first [congruence | reflexivity | discriminate | contradiction].

Theorem chk_decides :
  (forall a, P_atom a) /\ (forall l, P_atoms l) /\ (forall t, P_target t) /\
  (forall t, P_targets t) /\ (forall s, P_sitem s) /\ (forall s, P_sitems s) /\
  (forall f, P_fitem f) /\ (forall f, P_fitems f) /\ (forall w, P_withc w) /\
  (forall c, P_ctes c) /\ (forall s, P_source s) /\ (forall c, P_conflict c) /\
  (forall q, P_query q).
Proof.
  apply syntax_mutind;
    unfold P_atom, P_atoms, P_target, P_targets, P_sitem, P_sitems, P_fitem, P_fitems,
           P_withc, P_ctes, P_source, P_conflict, P_query.
  (* ---- atom *)
  - (* ACol *) intros q c G D. simpl. destruct (q =? 0) eqn:E.
    + apply N.eqb_eq in E. subst. rewrite chk_unqual_iff. split; intro H.
      * constructor. exact H.
      * inversion H; subst; [assumption | congruence].
    + apply N.eqb_neq in E. rewrite chk_qual_iff. split; intro H.
      * constructor; assumption.
      * inversion H; subst; [congruence | assumption].
  - (* AStarRef *) intros q G D. simpl. destruct (resolve_rel G q) as [it|e] eqn:R.
    + split; intro H; [| reflexivity]. econstructor. apply resolve_rel_iff. exact R.
    + split; intro H; [discriminate |]. inversion H; subst.
      match goal with A : ResolveRel _ _ _ |- _ => apply resolve_rel_iff in A end. cg.
  - (* AParam *) intros n G D. simpl. split; intro; [constructor | reflexivity].
  - (* ASub *) intros s IH G D. simpl. destruct (chk_query G D PSub s) as [cs|e] eqn:E.
    + split; intro H; [| reflexivity]. econstructor. apply IH. exact E.
    + split; intro H; [discriminate |]. inversion H; subst.
      match goal with A : SQuery _ _ _ _ _ |- _ => apply IH in A end. cg.
  (* ---- atoms *)
  - intros G D. simpl. split; intro; [constructor | reflexivity].
  - intros a IHa r IHr G D. simpl. destruct (chk_atom G D a) as [u|e] eqn:E.
    + units. rewrite IHr. split; intro H.
      * constructor; [apply IHa; exact E | exact H].
      * inversion H; subst. assumption.
    + split; intro H; [discriminate |]. inversion H; subst.
      match goal with A : SAtom _ _ _ |- _ => apply IHa in A end. cg.
  (* ---- target *)
  - (* TExpr *) intros nm e IHe G D cs. simpl. destruct (chk_atoms G D e) as [u|er] eqn:E.
    + units. split; intro H.
      * inj H. constructor. apply IHe. exact E.
      * inversion H; subst. reflexivity.
    + split; intro H; [discriminate |]. inversion H; subst.
      match goal with A : SAtoms _ _ _ |- _ => apply IHe in A end. cg.
  - (* TStar *) intros q G D cs. simpl. destruct (q =? 0) eqn:E.
    + apply N.eqb_eq in E. subst. destruct G as [|[|it lvl] G].
      * split; intro H; [discriminate | inversion H; subst; congruence].
      * split; intro H; [discriminate | inversion H; subst; congruence].
      * split; intro H.
        -- inj H. constructor.
        -- inversion H; subst; [reflexivity | congruence].
    + apply N.eqb_neq in E. destruct (resolve_rel G q) as [it|er] eqn:R.
      * split; intro H.
        -- inj H. constructor; [exact E | apply resolve_rel_iff; exact R].
        -- inversion H; subst; [congruence |].
           match goal with A : ResolveRel _ _ _ |- _ => apply resolve_rel_iff in A end.
           cg.
      * split; intro H; [discriminate |]. inversion H; subst; [congruence |].
        match goal with A : ResolveRel _ _ _ |- _ => apply resolve_rel_iff in A end. cg.
  (* ---- targets *)
  - intros G D cs. simpl. split; intro H.
    + inj H. constructor.
    + inversion H; subst. reflexivity.
  - intros t IHt r IHr G D cs. simpl.
    destruct (chk_target G D t) as [c1|e] eqn:E1.
    + destruct (chk_targets G D r) as [c2|e] eqn:E2.
      * split; intro H.
        -- inj H. constructor; [apply IHt; exact E1 | apply IHr; exact E2].
        -- inversion H; subst.
           match goal with A : STarget _ _ _ _, B : STargets _ _ _ _ |- _ =>
             apply IHt in A; apply IHr in B end. cg.
      * split; intro H; [discriminate |]. inversion H; subst.
        match goal with B : STargets _ _ _ _ |- _ => apply IHr in B end. cg.
    + split; intro H; [discriminate |]. inversion H; subst.
      match goal with A : STarget _ _ _ _ |- _ => apply IHt in A end. cg.
  (* ---- sitem *)
  - intros c. exact I.
  - intros e IHe. exact IHe.
  (* ---- sitems *)
  - intros G D out. simpl. split; (split; intro; [constructor | reflexivity]).
  - intros s IHs r IHr G D out. destruct (IHr G D out) as [IHr1 IHr2]. destruct s as [c | e].
    + simpl. split.
      * destruct (chk_sort_bare G out c) as [u|er] eqn:E.
        -- units. rewrite IHr1. split; intro H.
           ++ constructor; [apply chk_sort_bare_iff; exact E | exact H].
           ++ inversion H; subst. assumption.
        -- split; intro H; [discriminate |]. inversion H; subst.
           match goal with A : SortBareOK _ _ _ |- _ => apply chk_sort_bare_iff in A end.
           cg.
      * destruct (chk_group_bare G out c) as [u|er] eqn:E.
        -- units. rewrite IHr2. split; intro H.
           ++ constructor; [apply chk_group_bare_iff; exact E | exact H].
           ++ inversion H; subst. assumption.
        -- split; intro H; [discriminate |]. inversion H; subst.
           match goal with A : GroupBareOK _ _ _ |- _ => apply chk_group_bare_iff in A end.
           cg.
    + simpl in IHs. simpl. split.
      * destruct (chk_atoms G D e) as [u|er] eqn:E.
        -- units. rewrite IHr1. split; intro H.
           ++ constructor; [apply IHs; exact E | exact H].
           ++ inversion H; subst. assumption.
        -- split; intro H; [discriminate |]. inversion H; subst.
           match goal with A : SAtoms _ _ _ |- _ => apply IHs in A end. cg.
      * destruct (chk_atoms G D e) as [u|er] eqn:E.
        -- units. rewrite IHr2. split; intro H.
           ++ constructor; [apply IHs; exact E | exact H].
           ++ inversion H; subst. assumption.
        -- split; intro H; [discriminate |]. inversion H; subst.
           match goal with A : SAtoms _ _ _ |- _ => apply IHs in A end. cg.
  (* ---- fitem *)
  - (* FRel *) intros r alias acols G D left ns. simpl.
    destruct (rel_cols D r) as [[cs base]|e] eqn:E.
    + destruct (rename cs acols) as [cs'|e] eqn:R.
      * split; intro H.
        -- inj H. econstructor; [apply rel_cols_iff; exact E | exact R].
        -- inversion H; subst.
           match goal with A : RelCols _ _ _ _ |- _ => apply rel_cols_iff in A end.
           cg.
      * split; intro H; [discriminate |]. inversion H; subst.
        match goal with A : RelCols _ _ _ _ |- _ => apply rel_cols_iff in A end. cg.
    + split; intro H; [discriminate |]. inversion H; subst.
      match goal with A : RelCols _ _ _ _ |- _ => apply rel_cols_iff in A end. cg.
  - (* FSub *) intros lat s IHs alias acols G D left ns. simpl. destruct lat.
    + destruct (chk_query (left :: G) D PSub s) as [cs|e] eqn:E.
      * destruct (rename cs acols) as [cs'|e] eqn:R.
        -- split; intro H.
           ++ inj H. econstructor; [apply IHs; exact E | exact R].
           ++ inversion H; subst.
              match goal with A : SQuery _ _ _ _ _ |- _ => apply IHs in A end. cg.
        -- split; intro H; [discriminate |]. inversion H; subst.
           match goal with A : SQuery _ _ _ _ _ |- _ => apply IHs in A end. cg.
      * split; intro H; [discriminate |]. inversion H; subst.
        match goal with A : SQuery _ _ _ _ _ |- _ => apply IHs in A end. cg.
    + destruct (chk_query G D PSub s) as [cs|e] eqn:E.
      * destruct (rename cs acols) as [cs'|e] eqn:R.
        -- split; intro H.
           ++ inj H. econstructor; [apply IHs; exact E | exact R].
           ++ inversion H; subst.
              match goal with A : SQuery _ _ _ _ _ |- _ => apply IHs in A end. cg.
        -- split; intro H; [discriminate |]. inversion H; subst.
           match goal with A : SQuery _ _ _ _ _ |- _ => apply IHs in A end. cg.
      * split; intro H; [discriminate |]. inversion H; subst.
        match goal with A : SQuery _ _ _ _ _ |- _ => apply IHs in A end. cg.
  - (* FFunc *) intros args IHa alias cols G D left ns. simpl.
    destruct (chk_atoms (left :: G) D args) as [u|e] eqn:E.
    + units. split; intro H.
      * inj H. constructor. apply IHa. exact E.
      * inversion H; subst. reflexivity.
    + split; intro H; [discriminate |]. inversion H; subst.
      match goal with A : SAtoms _ _ _ |- _ => apply IHa in A end. cg.
  - (* FJoin *) intros jt l IHl r IHr on IHon G D left ns. simpl.
    destruct (chk_fitem G D left l) as [nsl|e] eqn:El.
    + destruct (chk_fitem G D (left ++ set_ok (join_lateral_ok jt) nsl) r) as [nsr|e] eqn:Er.
      * destruct (chk_atoms ((nsl ++ nsr) :: G) D on) as [u|e] eqn:Eo.
        -- units. split; intro H.
           ++ inj H. constructor; [apply IHl; exact El | apply IHr; exact Er | apply IHon; exact Eo].
           ++ inversion H; subst.
              match goal with A : SFItem _ _ _ l _ |- _ => apply IHl in A; rewrite El in A; inj A end.
              match goal with A : SFItem _ _ _ r _ |- _ => apply IHr in A; rewrite Er in A; inj A end.
              reflexivity.
        -- split; intro H; [discriminate |]. inversion H; subst.
           match goal with A : SFItem _ _ _ l _ |- _ => apply IHl in A; rewrite El in A; inj A end.
           match goal with A : SFItem _ _ _ r _ |- _ => apply IHr in A; rewrite Er in A; inj A end.
           match goal with A : SAtoms _ _ on |- _ => apply IHon in A end. cg.
      * split; intro H; [discriminate |]. inversion H; subst.
        match goal with A : SFItem _ _ _ l _ |- _ => apply IHl in A; rewrite El in A; inj A end.
        match goal with A : SFItem _ _ _ r _ |- _ => apply IHr in A end. cg.
    + split; intro H; [discriminate |]. inversion H; subst.
      match goal with A : SFItem _ _ _ l _ |- _ => apply IHl in A end. cg.
  (* ---- fitems *)
  - intros G D left ns. simpl. split; intro H.
    + inj H. constructor.
    + inversion H; subst. reflexivity.
  - intros f IHf r IHr G D left ns. simpl.
    destruct (chk_fitem G D left f) as [ns1|e] eqn:E1.
    + destruct (chk_fitems G D (left ++ ns1) r) as [ns2|e] eqn:E2.
      * split; intro H.
        -- inj H. constructor; [apply IHf; exact E1 | apply IHr; exact E2].
        -- inversion H; subst.
           match goal with A : SFItem _ _ _ f _ |- _ => apply IHf in A; rewrite E1 in A; inj A end.
           match goal with A : SFItems _ _ _ r _ |- _ => apply IHr in A; rewrite E2 in A; inj A end.
           reflexivity.
      * split; intro H; [discriminate |]. inversion H; subst.
        match goal with A : SFItem _ _ _ f _ |- _ => apply IHf in A; rewrite E1 in A; inj A end.
        match goal with A : SFItems _ _ _ r _ |- _ => apply IHr in A end. cg.
    + split; intro H; [discriminate |]. inversion H; subst.
      match goal with A : SFItem _ _ _ f _ |- _ => apply IHf in A end. cg.
  (* ---- withc *)
  - intros G D p D'. simpl. split; intro H.
    + inj H. constructor.
    + inversion H; subst. reflexivity.
  - intros rec cs IHc G D p D'. simpl. destruct rec.
    + split; intro H; [discriminate | inversion H].
    + rewrite IHc. split; intro H; [constructor; exact H | inversion H; subst; assumption].
  (* ---- ctes *)
  - intros G D p seen D'. simpl. split; intro H.
    + inj H. constructor.
    + inversion H; subst. reflexivity.
  - intros nm acols s IHs r IHr G D p seen D'. simpl.
    destruct (mem nm seen) eqn:Em.
    + apply mem_In in Em. split; intro H; [discriminate |]. inversion H; subst. contradiction.
    + apply mem_false in Em.
      destruct (chk_query G D (cte_pos p) s) as [cols|e] eqn:E.
      * destruct (rename cols acols) as [cols'|e] eqn:R.
        -- rewrite IHr. split; intro H.
           ++ econstructor; [exact Em | apply IHs; exact E | exact R | exact H].
           ++ inversion H; subst.
              match goal with A : SQuery _ _ _ s _ |- _ => apply IHs in A; rewrite E in A; inj A end.
              match goal with A : rename _ _ = Ok _ |- _ => rewrite R in A; inj A end.
              assumption.
        -- split; intro H; [discriminate |]. inversion H; subst.
           match goal with A : SQuery _ _ _ s _ |- _ => apply IHs in A; rewrite E in A; inj A end.
           cg.
      * split; intro H; [discriminate |]. inversion H; subst.
        match goal with A : SQuery _ _ _ s _ |- _ => apply IHs in A end. cg.
  (* ---- source *)
  - intros G D cols. simpl. split; intro; [constructor | reflexivity].
  - intros q IHq G D cols. simpl.
    destruct (chk_query ([] :: G) D PSub q) as [sc|e] eqn:E.
    + destruct (arity_ok cols sc) eqn:A.
      * split; intro H; [| reflexivity]. econstructor; [apply IHq; exact E | exact A].
      * split; intro H; [discriminate |]. inversion H; subst.
        match goal with B : SQuery _ _ _ q _ |- _ => apply IHq in B; rewrite E in B; inj B end.
        cg.
    + split; intro H; [discriminate |]. inversion H; subst.
      match goal with B : SQuery _ _ _ q _ |- _ => apply IHq in B end. cg.
  (* ---- conflict *)
  - intros G D alias tcols. simpl. split; intro; [constructor | reflexivity].
  - intros infer IHi G D alias tcols. simpl. rewrite IHi.
    split; intro H; [constructor; exact H | inversion H; subst; assumption].
  - intros infer IHi scols sexprs IHe G D alias tcols. simpl.
    destruct (chk_atoms ([tgt_item alias tcols true] :: G) D infer) as [u|e] eqn:E.
    + units. destruct (cs_sub scols tcols) eqn:S.
      * destruct (alias =? n_excluded) eqn:X.
        -- apply N.eqb_eq in X. split; intro H; [discriminate |]. inversion H; subst. cg.
        -- apply N.eqb_neq in X. rewrite IHe. split; intro H.
           ++ constructor; [apply IHi; exact E | exact S | exact X | exact H].
           ++ inversion H; subst. assumption.
      * split; intro H; [discriminate | inversion H; subst; congruence].
    + split; intro H; [discriminate |]. inversion H; subst.
      match goal with A : SAtoms _ _ infer |- _ => apply IHi in A end. cg.
  (* ---- query *)
  - (* QSelect *)
    intros w IHw ts IHts fs IHfs body IHb grp IHg srt IHs lim IHl lock G D p cs. simpl. split.
    + intro H.
      step H. rename a into D'. step H. rename a into ns. step H. step H. rename a into out.
      step H. step H. step H. step H. step H. inj H.
      apply IHw in E. apply IHfs in E0. apply nodup_NoDup in E1. apply IHts in E2.
      units.
      apply IHb in E3. apply (proj2 (IHg _ _ _)) in E4. apply (proj1 (IHs _ _ _)) in E5.
      apply IHl in E6. pose proof (proj1 (chk_lock_iff _ _) E7) as L7.
      econstructor; eassumption.
    + intro H. inversion H; subst.
      match goal with A : SWith _ _ _ w _ |- _ => apply IHw in A; rewrite A end.
      match goal with A : SFItems _ _ _ fs _ |- _ => apply IHfs in A; rewrite A end.
      match goal with A : NoDup _ |- _ => apply nodup_NoDup in A; rewrite A end.
      match goal with A : STargets _ _ ts _ |- _ => apply IHts in A; rewrite A end.
      match goal with A : SAtoms _ _ body |- _ => apply IHb in A; rewrite A end.
      match goal with A : SGroups _ _ _ grp |- _ => apply (proj2 (IHg _ _ _)) in A; rewrite A end.
      match goal with A : SSorts _ _ _ srt |- _ => apply (proj1 (IHs _ _ _)) in A; rewrite A end.
      match goal with A : SAtoms _ _ lim |- _ => apply IHl in A; rewrite A end.
      match goal with A : forall n, In n lock -> _ |- _ => let L := fresh in pose proof (proj2 (chk_lock_iff _ _) A) as L; rewrite L end.
      reflexivity.
  - (* QValues *)
    intros w IHw cols es IHe G D p cs. simpl. split.
    + intro H. step H. step H. inj H. units.
      apply IHw in E. apply IHe in E0. econstructor; eassumption.
    + intro H. inversion H; subst.
      match goal with A : SWith _ _ _ w _ |- _ => apply IHw in A; rewrite A end.
      match goal with A : SAtoms _ _ es |- _ => apply IHe in A; rewrite A end.
      reflexivity.
  - (* QSetOp *)
    intros w IHw l IHl r IHr srt IHs lim IHlim G D p cs. simpl. split.
    + intro H. step H. step H. step H. step H. step H. step H. inj H. units.
      apply IHw in E. apply IHl in E0. apply IHr in E1. apply chk_setop_sort_iff in E3.
      apply IHlim in E4. econstructor; eassumption.
    + intro H. inversion H; subst.
      match goal with A : SWith _ _ _ w _ |- _ => apply IHw in A; rewrite A end.
      match goal with A : SQuery _ _ _ l _ |- _ => apply IHl in A; rewrite A end.
      match goal with A : SQuery _ _ _ r _ |- _ => apply IHr in A; rewrite A end.
      match goal with A : cs_same_arity _ _ = true |- _ => rewrite A end.
      match goal with A : SetopSort _ _ |- _ => apply chk_setop_sort_iff in A; rewrite A end.
      match goal with A : SAtoms _ _ lim |- _ => apply IHlim in A; rewrite A end.
      reflexivity.
  - (* QInsert *)
    intros w IHw rel alias cols src IHsrc cf IHcf ret IHret G D p cs. simpl. split.
    + intro H. step H. step H. step H. step H. step H. step H. units.
      apply IHw in E0. apply target_cols_iff in E1. apply IHsrc in E3. apply IHcf in E4.
      apply IHret in H. econstructor; eassumption.
    + intro H. inversion H; subst.
      match goal with A : dml_allowed _ = true |- _ => rewrite A end.
      match goal with A : SWith _ _ _ w _ |- _ => apply IHw in A; rewrite A end.
      match goal with A : TargetCols _ _ _ |- _ => apply target_cols_iff in A; rewrite A end.
      match goal with A : cs_sub _ _ = true |- _ => rewrite A end.
      match goal with A : SSource _ _ _ src |- _ => apply IHsrc in A; rewrite A end.
      match goal with A : SConflict _ _ _ _ cf |- _ => apply IHcf in A; rewrite A end.
      apply IHret. assumption.
  - (* QUpdate *)
    intros w IHw rel alias scols sexprs IHse fs IHfs wh IHwh ret IHret G D p cs. simpl. split.
    + intro H. step H. step H. step H. step H. step H. step H. step H. step H. units.
      apply IHw in E0. apply target_cols_iff in E1. apply IHfs in E2.
      apply nodup_NoDup in E3.
      apply IHse in E5. apply IHwh in E6. apply IHret in H. econstructor; eassumption.
    + intro H. inversion H; subst.
      match goal with A : dml_allowed _ = true |- _ => rewrite A end.
      match goal with A : SWith _ _ _ w _ |- _ => apply IHw in A; rewrite A end.
      match goal with A : TargetCols _ _ _ |- _ => apply target_cols_iff in A; rewrite A end.
      match goal with A : SFItems _ _ _ fs _ |- _ => apply IHfs in A; rewrite A end.
      match goal with A : NoDup _ |- _ => apply nodup_NoDup in A; rewrite A end.
      match goal with A : cs_sub _ _ = true |- _ => rewrite A end.
      match goal with A : SAtoms _ _ sexprs |- _ => apply IHse in A; rewrite A end.
      match goal with A : SAtoms _ _ wh |- _ => apply IHwh in A; rewrite A end.
      apply IHret. assumption.
  - (* QDelete *)
    intros w IHw rel alias fs IHfs wh IHwh ret IHret G D p cs. simpl. split.
    + intro H. step H. step H. step H. step H. step H. step H. units.
      apply IHw in E0. apply target_cols_iff in E1. apply IHfs in E2.
      apply nodup_NoDup in E3.
      apply IHwh in E4. apply IHret in H. econstructor; eassumption.
    + intro H. inversion H; subst.
      match goal with A : dml_allowed _ = true |- _ => rewrite A end.
      match goal with A : SWith _ _ _ w _ |- _ => apply IHw in A; rewrite A end.
      match goal with A : TargetCols _ _ _ |- _ => apply target_cols_iff in A; rewrite A end.
      match goal with A : SFItems _ _ _ fs _ |- _ => apply IHfs in A; rewrite A end.
      match goal with A : NoDup _ |- _ => apply nodup_NoDup in A; rewrite A end.
      match goal with A : SAtoms _ _ wh |- _ => apply IHwh in A; rewrite A end.
      apply IHret. assumption.
Qed.

Lemma chk_query_iff : forall q G D p cs, chk_query G D p q = Ok cs <-> SQuery G D p q cs.
Proof. exact (proj2 (proj2 (proj2 (proj2 (proj2 (proj2 (proj2 (proj2 (proj2 (proj2 (proj2
  (proj2 chk_decides)))))))))))). Qed.

Lemma p_sound : forall q, well_scoped q = true -> Scoped q.
Proof.
  intros q H. unfold well_scoped, check in H.
  destruct (chk_query [] [] PTop q) as [cs|e] eqn:E; [| discriminate].
  exists cs. apply chk_query_iff. exact E.
Qed.

Lemma p_complete : forall q, Scoped q -> well_scoped q = true.
Proof.
  intros q [cs H]. apply chk_query_iff in H. unfold well_scoped, check. rewrite H. reflexivity.
Qed.

Lemma p_iff : forall q, well_scoped q = true <-> Scoped q.
Proof. intros q. split; [apply p_sound | apply p_complete]. Qed.

(* the output columns are a function of the statement *)
Lemma p_cols_fun : forall q G D p c1 c2, SQuery G D p q c1 -> SQuery G D p q c2 -> c1 = c2.
Proof.
  intros q G D p c1 c2 H1 H2. apply chk_query_iff in H1. apply chk_query_iff in H2. congruence.
Qed.

(* the checker reports the output columns of the derivation *)
Lemma p_check_cols : forall q cs, check q = Ok cs <-> SQuery [] [] PTop q cs.
Proof. intros q cs. unfold check. apply chk_query_iff. Qed.

(* ---- consequences that name the PostgreSQL rules directly *)

(* a qualified reference needs a range variable of that name in some enclosing level *)
Lemma resolve_in : forall G q it, ResolveRel G q it ->
  exists lvl, In lvl G /\ In it lvl /\ ns_name it = q /\ ns_ok it = true.
Proof.
  intros G q it H. induction H.
  - exists lvl. split; [left; reflexivity |].
    assert (In it (rel_matches lvl q)) as Hi by (rewrite H; left; reflexivity).
    unfold rel_matches in Hi. apply filter_In in Hi. destruct Hi as [Hi He].
    apply N.eqb_eq in He. auto.
  - destruct IHResolveRel as [l [A B]]. exists l. split; [right; exact A | exact B].
Qed.

(* ================================================================ parameters *)

Lemma all_in_iff : forall a b, all_in a b = true <-> (forall n, In n a -> In n b).
Proof.
  induction a as [|x r IH]; intros b; simpl.
  - split; intros; [contradiction | reflexivity].
  - rewrite andb_true_iff, mem_In, IH. split.
    + intros [A B] n [Hn | Hn]; [subst; exact A | apply B; exact Hn].
    + intros H. split; [apply H; left; reflexivity | intros n Hn; apply H; right; exact Hn].
Qed.

Lemma seq1_In : forall k n, In n (seq1 k) <-> (1 <= n /\ n <= N.of_nat k).
Proof.
  induction k as [|k IH]; intros n.
  - simpl. split; [contradiction | lia].
  - change (seq1 (S k)) with (N.of_nat (S k) :: seq1 k). simpl In. rewrite IH. lia.
Qed.

Definition ParamsConsistent (am : list argentry) (q : query) : Prop :=
  let idx := phys am in
  NoDup idx
  /\ (forall n, In n idx <-> (1 <= n /\ n <= N.of_nat (length idx)))
  /\ (forall n, In n (params_of q) <-> In n idx).

Lemma p_params : forall am q, params_ok am q = true <-> ParamsConsistent am q.
Proof.
  intros am q. unfold params_ok, ParamsConsistent.
  repeat rewrite andb_true_iff. rewrite nodup_NoDup. repeat rewrite all_in_iff.
  split.
  - intros [[[[A B] C] E] F]. split; [exact A |]. split.
    + intros n. split.
      * intro H. apply seq1_In. apply B. exact H.
      * intro H. apply C. apply seq1_In. exact H.
    + intros n. split; [apply E | apply F].
  - intros [A [B C]]. repeat split.
    + exact A.
    + intros n H. apply seq1_In. apply B. exact H.
    + intros n H. apply B. apply seq1_In. exact H.
    + intros n H. apply C. exact H.
    + intros n H. apply C. exact H.
Qed.
