(* C16 — the full liveness statement is false of the faithful model (and of the real code: the
   witness below is the recorded trace of the real pool on the schedule `4,50,1;a1 x x o1 p1`,
   replayed on the implementation by harness/props/c16.py on every run).

   Schedule: acquire(d1) starts and schedules a connect; the connect completes; before the woken
   acquirer runs, prune_inactive_connections(d1) steals the fresh connection from the stack and
   discards it; the acquirer wakes up, finds the stack empty and queues again at the head of the
   waiters; the disconnect completes.  Now the pool is idle with capacity 0/4, one block, one
   blocked acquire() and nobody will ever schedule a connection: the tick runs in Mode A and
   returns early. *)
From Coq Require Import List ZArith NArith.
From Verif.Pool Require Import Model Proofs.
From Verif.C16 Require Import Props.
Import ListNotations.
Open Scope Z_scope.

Definition w_trace : list (event * oracle) :=
  [(EAcquire 1%N 1%N, mkOracle [] [] [] false []); (ERun, mkOracle [] [] [] false []);
   (ERun, mkOracle [] [] [] false []); (EConnOk 1%N, mkOracle [] [] [] false []);
   (EPrune 2%N 1%N, mkOracle [] [] [] false []); (ERun, mkOracle [] [] [] false []);
   (ERun, mkOracle [1%N] [] [] false []); (ERun, mkOracle [1%N] [] [] false []);
   (ERun, mkOracle [1%N] [] [] false []); (EDiscOk 1%N, mkOracle [] [] [] false []);
   (ERun, mkOracle [1%N] [] [] false []); (ERun, mkOracle [1%N] [] [] false []);
   (ERun, mkOracle [1%N] [] [] false []);
   (ETick, mkOracle [1%N] [1%N] [(1%N, 4)] false [])].

Definition w_state : pool :=
  Eval vm_compute in match run (init 4) w_trace with Some s => s | None => init 0 end.

Lemma w_reach : reach 4 w_state.
Proof. apply (run_reach 4 w_trace (init 4)); [apply reach_init|]. vm_compute. reflexivity. Qed.

Lemma w_at_rest : at_rest w_state.
Proof. unfold at_rest. repeat split; try (vm_compute; reflexivity); intros o; vm_compute; reflexivity. Qed.

Lemma w_blocked : exists b, In b w_state.(blocks) /\ b.(b_waiters) = [(1%N, WAcq)] /\
  w_state.(cur) = 0 /\ w_state.(maxc) = 4 /\ b.(b_conns) = [] /\ b.(b_pending) = 0.
Proof. eexists. split; [vm_compute; left; reflexivity|vm_compute; repeat split]. Qed.

Theorem C16_full_refuted : ~ C16_full.
Proof.
  intros H. destruct w_blocked as (b & Hb & Hw & _).
  specialize (H 4 w_state ltac:(discriminate) w_reach w_at_rest b Hb). rewrite Hw in H. discriminate.
Qed.
Print Assumptions C16_full_refuted.

(* ---- regression witness for fix 7b54f16 (try_acquire: `except BaseException`): T1 holds the only
        connection, T2 and T3 queue, T1 releases (T2's waiter is completed), T2 is cancelled
        before it resumes.  Before the fix the connection stayed on the stack with T3 queued and
        nothing scheduled; now T2's cleanup passes the wake-up on and T3 gets the connection. *)
Definition c_trace : list (event * oracle) :=
  [(EAcquire 1%N 1%N, mkOracle [] [] [] false []); (ERun, mkOracle [] [] [] false []);
   (ERun, mkOracle [] [] [] false []); (EConnOk 1%N, mkOracle [] [] [] false []);
   (ERun, mkOracle [] [] [] false []); (ERun, mkOracle [1%N] [] [] false []);
   (EAcquire 2%N 1%N, mkOracle [] [] [] false []); (EAcquire 3%N 1%N, mkOracle [] [] [] false []);
   (ERun, mkOracle [1%N] [] [] false []); (ERun, mkOracle [1%N] [] [] false []);
   (ERelease 1%N 1%N false, mkOracle [1%N] [] [] false []); (ECancel 2%N, mkOracle [] [] [] false []);
   (ERun, mkOracle [1%N] [] [] false []); (ERun, mkOracle [1%N] [] [] false [])].
Definition c_state : pool :=
  Eval vm_compute in match run (init 1) c_trace with Some s => s | None => init 0 end.

Theorem C16_late_cancel_passes_wakeup_on :
  reach 1 c_state /\ c_state.(ready) = [] /\ c_state.(g_held) = [(1%N, (3%N, 1%N))] /\
  forall b, In b c_state.(blocks) -> b.(b_waiters) = [] /\ b.(b_stack) = [].
Proof.
  split; [apply (run_reach 1 c_trace (init 1)); [apply reach_init|vm_compute; reflexivity]|].
  split; [vm_compute; reflexivity|]. split; [vm_compute; reflexivity|].
  intros b Hb. vm_compute in Hb. destruct Hb as [<-|[]]. vm_compute. split; reflexivity.
Qed.
Print Assumptions C16_late_cancel_passes_wakeup_on.
