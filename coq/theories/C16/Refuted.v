(* C16 — the full liveness statement is false of the faithful model (and of the real code: the
   witness below is the recorded trace of the real pool on the schedule `4,50,1;a1 x x o1 p1`,
   replayed on the implementation by harness/props/c16.py on every run).

   Schedule: acquire(d1) starts and schedules a connect; the connect completes; before the woken
   acquirer runs, prune_inactive_connections(d1) steals the fresh connection from the stack and
   discards it; the acquirer wakes up, finds the stack empty and queues again at the head of the
   waiters; the disconnect completes.  Now the pool is idle with capacity 0/4, one block, one
   blocked acquire() and nobody will ever schedule a connection: the tick runs in Mode A and
   returns early. *)
From Coq Require Import List ZArith NArith.
From Verif.Pool Require Import Model Proofs.
From Verif.C16 Require Import Props.
Import ListNotations.
Open Scope Z_scope.

Definition w_trace : list (event * oracle) :=
  [(EAcquire 1%N 1%N, mkOracle [] [] [] false []); (ERun, mkOracle [] [] [] false []);
   (ERun, mkOracle [] [] [] false []); (EConnOk 1%N, mkOracle [] [] [] false []);
   (EPrune 2%N 1%N, mkOracle [] [] [] false []); (ERun, mkOracle [] [] [] false []);
   (ERun, mkOracle [1%N] [] [] false []); (ERun, mkOracle [1%N] [] [] false []);
   (ERun, mkOracle [1%N] [] [] false []); (EDiscOk 1%N, mkOracle [] [] [] false []);
   (ERun, mkOracle [1%N] [] [] false []); (ERun, mkOracle [1%N] [] [] false []);
   (ERun, mkOracle [1%N] [] [] false []);
   (ETick, mkOracle [1%N] [1%N] [(1%N, 4)] false [])].

Definition w_state : pool :=
  Eval vm_compute in match run (init 4) w_trace with Some s => s | None => init 0 end.

Lemma w_reach : reach 4 w_state.
Proof. apply (run_reach 4 w_trace (init 4)); [apply reach_init|]. vm_compute. reflexivity. Qed.

Lemma w_at_rest : at_rest w_state.
Proof. unfold at_rest. repeat split; try (vm_compute; reflexivity); intros o; vm_compute; reflexivity. Qed.

Lemma w_blocked : exists b, In b w_state.(blocks) /\ b.(b_waiters) = [(1%N, WAcq)] /\
  w_state.(cur) = 0 /\ w_state.(maxc) = 4 /\ b.(b_conns) = [] /\ b.(b_pending) = 0.
Proof. eexists. split; [vm_compute; left; reflexivity|vm_compute; repeat split]. Qed.

Theorem C16_full_refuted : ~ C16_full.
Proof.
  intros H. destruct w_blocked as (b & Hb & Hw & _).
  specialize (H 4 w_state ltac:(discriminate) w_reach w_at_rest b Hb). rewrite Hw in H. discriminate.
Qed.
Print Assumptions C16_full_refuted.
