(* C16 — Every connection request is eventually served.  PARTIAL.

   The full liveness statement is FALSE of the pinned code (see Refuted.v and the known findings
   C16-connectionless-block-not-served, C16-mode-D-idle-connection-stuck,
   C16-prune-suppressed-waiters-tick-crash).  What is proved here for every reachable state and
   every oracle value (same model and vocabulary as C15/Props.v):

   * no lost wake-up: a block with queued pending waiters (futures of cancelled acquire() calls
     that still sit in the deque do not count) never has more idle connections on its stack
     than wake-ups already scheduled in the event loop for it (a task cancelled after its
     waiter was completed counts: since fix 7b54f16 it passes the wake-up on); hence when the
     loop is quiescent no block has both an idle connection and a pending waiter.  Callers
     may cancel a pending acquire() at any time (event ECancel);
   * retry-or-abort: processing a failed connect either schedules exactly one new connect for
     the same block (keeping its waiters and its pending count) or - after
     CONNECT_FAILURE_RETRIES, immediately on error 3D000 - fails every queued waiter of the block.

   * the tick chain never stops: in every reachable state with a pending acquire() call
     (nacq > 0) the periodic tick timer is armed, and a tick that fires while a call is pending
     re-arms the timer before anything else (Pool._tick / _maybe_schedule_tick / acquire).  This is
     the precondition of every Mode C/D rescue path (steal, rebalance); the fair-drain monitor
     therefore never accepts a starved request whose pool has no tick timer armed as a known
     finding (seed C16/5).

   NOT proved (and not true in general): that a queued waiter is eventually woken.  The progress
   theorems sketched in DESIGN (modes A/B by a ranking function, C/D under a tick-oracle
   hypothesis) were not attempted once the model exhibited the stuck states of Refuted.v. *)
From Coq Require Import List ZArith NArith Bool.
From Verif.Pool Require Import Model Proofs TickProofs.
Import ListNotations.
Open Scope Z_scope.

Theorem C16_no_lost_wakeup : forall mx s b, 0 <= mx -> reach mx s -> In b s.(blocks) ->
  has_pending b.(b_waiters) = true -> zlen b.(b_stack) <= nwok s b.(b_id).
Proof. exact p_no_lost_wakeup. Qed.
Print Assumptions C16_no_lost_wakeup.

Theorem C16_quiescent_no_idle_with_waiters : forall mx s b, 0 <= mx -> reach mx s -> In b s.(blocks) ->
  s.(ready) = [] -> has_pending b.(b_waiters) = false \/ b.(b_stack) = [].
Proof. exact p_quiescent_no_idle_with_waiters. Qed.
Print Assumptions C16_quiescent_no_idle_with_waiters.

(* [connect_wake i None nodb s] is BasePool._connect resuming after the connect callback raised *)
Theorem C16_retry_or_abort : forall s i b nodb,
  NoDup (map b_id s.(blocks)) -> find_bid i s.(blocks) = Some b ->
  let f2 := if nodb && (b.(b_fails) + 1 <=? RETRIES) then RETRIES + 1 else b.(b_fails) + 1 in
  let s' := connect_wake i None nodb s in
  (nodb = true -> RETRIES < f2) /\
  (f2 <= RETRIES ->
     s'.(ready) = s.(ready) ++ [KConnStart i] /\ s'.(cur) = s.(cur) /\
     exists b', find_bid i s'.(blocks) = Some b' /\ b'.(b_waiters) = b.(b_waiters) /\ b'.(b_pending) = b.(b_pending)) /\
  (RETRIES < f2 ->
     s'.(ready) = s.(ready) ++ map (fun w => wake_kont i w false) (filter (fun w => negb (is_done w)) b.(b_waiters)) /\
     s'.(cur) = s.(cur) - 1 /\
     exists b', find_bid i s'.(blocks) = Some b' /\ b'.(b_waiters) = [] /\ b'.(b_pending) = b.(b_pending) - 1).
Proof. exact p_retry_or_abort. Qed.
Print Assumptions C16_retry_or_abort.

(* the block ids of a reachable state are distinct (hypothesis of the previous theorem) *)
Theorem C16_block_ids_distinct : forall mx s, 0 <= mx -> reach mx s -> NoDup (map b_id s.(blocks)).
Proof. intros mx s Hm R. destruct (reach_Inv _ _ Hm R) as (_ & O & _). exact (own_ids _ _ _ _ O). Qed.
Print Assumptions C16_block_ids_distinct.

Theorem C16_tick_chain_alive : forall mx s, reach mx s -> 0 < s.(nacq) -> s.(tick_armed) = true.
Proof. exact p_tick_chain. Qed.
Print Assumptions C16_tick_chain_alive.

Theorem C16_tick_rearms : forall s o s', step s ETick o = Some s' -> 0 < s.(nacq) ->
  s'.(nacq) = s.(nacq) /\ s'.(tick_armed) = true.
Proof. exact p_tick_rearms. Qed.
Print Assumptions C16_tick_rearms.

(* The full statement, in the form of its consequence for states where nothing but timer ticks
   can happen any more and ticks change nothing: such a state must not contain a blocked
   acquire().  Refuted.v shows this is false. *)
Definition at_rest (s : pool) : Prop :=
  s.(ready) = [] /\ s.(infl_conn) = [] /\ s.(infl_disc) = [] /\ s.(g_held) = [] /\
  (forall o, step s ETick o = Some s) /\ (forall o, step s EGc o = None).
Definition C16_full : Prop :=
  forall mx s, 0 <= mx -> reach mx s -> at_rest s -> forall b, In b s.(blocks) -> b.(b_waiters) = [].

(* non-vacuity of the wake-up invariant: a waiter queued, connection arrives, one wake-up in flight *)
Definition o0 : oracle := mkOracle [] [] [] false [].
Definition ex_trace : list (event * oracle) :=
  [(EAcquire 1 1, o0); (ERun, o0); (ERun, o0); (EConnOk 1, o0); (ERun, o0)].
Definition ex_state : pool := Eval vm_compute in match run (init 1) ex_trace with Some s => s | None => init 0 end.
Example ex_wakeup : exists b, reach 1 ex_state /\ In b ex_state.(blocks) /\ b.(b_waiters) = [] /\
  b.(b_stack) = [1%N] /\ nwok ex_state b.(b_id) = 1.
Proof.
  eexists. split; [apply (run_reach 1 ex_trace (init 1)); [apply reach_init|vm_compute; reflexivity]|].
  split; [vm_compute; left; reflexivity|vm_compute; repeat split].
Qed.
