(* C01 -- print / re-parse round trip: the theorems.

   Model (Model.v): tokens; the expression core of EdgeQL as trees [expr]; [pp_items]/[pp] mirroring
   edb/edgeql/codegen.py for that core; [parse] a precedence-climbing parser whose every shift/reduce
   decision is taken from Gen_Grammar.v, which is regenerated on every run from
   edb/edgeql/parser/grammar/precedence.py, tokens.py and the operator productions of expressions.py.

   [wf e] (decidable, computed with the generated tables) says: e is built the way the parser builds trees
   (signs folded into numeric literals, paths/indirections flattened, non-empty lists where the grammar
   needs them, known operator ids) and every operand the printer writes WITHOUT parentheses stays in
   place under the precedence tables (see Model.v, section "when does the round trip hold?").
   The trees excluded by the second part are exactly the printer defects recorded as known findings
   (C01-prefix-left-operand, C01-shape-on-prefix, C01-detached-postfix); Refuted.v shows they are real.

   All statements are for EVERY tree: no bound on depth, width or operator nesting. *)
From Coq Require Import List NArith Bool.
From Verif.C01 Require Import Gen_Grammar Model ProofsBase Proofs ProofsLex.
Import ListNotations.

(* the text printed for a well-formed tree parses back to the same tree *)
Theorem C01_roundtrip : forall e, wf e = true -> parse (pp e) = Some e.
Proof. exact roundtrip. Qed.
Print Assumptions C01_roundtrip.

(* printing the re-parsed tree gives the same token text again *)
Theorem C01_idempotent : forall e e', wf e = true -> parse (pp e) = Some e' -> pp e' = pp e.
Proof. exact idempotent. Qed.
Print Assumptions C01_idempotent.

(* the general statement the two above are instances of: under ANY enclosing production c and followed by
   ANY continuation k on which the operator loop would return r, the printed tree is consumed as one operand *)
Theorem C01_in_context : forall e, wf e = true -> forall c k r f1,
  tight c e = true -> rspine e k = true -> okfollow k = true ->
  (forall f, f1 <= f -> parse_loop f c e k = Some r) ->
  forall f, f1 + need e <= f -> parse_expr f c (pp e ++ k) = Some r.
Proof. exact main. Qed.
Print Assumptions C01_in_context.

(* no two tokens that the printer writes without white space between them can be read differently by the
   lexer: [no_fuse] checks every adjacent pair of the printed item stream against [fuses], an
   over-approximation of "the lexer would not read these two spellings as these two tokens" that the harness
   sweeps against the real Rust lexer for every pair of token-class representatives on every run.
   [lex_ok] excludes exactly `+` directly applied to `+` (C01_lex_refuted: `+ +x` prints `++x`). *)
Theorem C01_lex_stable : forall e, wf e = true -> lex_ok e = true -> no_fuse (pp_items e) = true.
Proof. exact lex_stable. Qed.
Print Assumptions C01_lex_stable.

(* ---- non-vacuity: wf holds on trees using every constructor, operator nesting included ---- *)

Definition ex_x := EPathRef None 0%N [].
Definition ex_path := EPathRef (Some 6%N) 3%N [SPtr false 4%N; SPtr true 5%N; SAt 19%N; SIs (TyColl None 23%N [TyName None 7%N])].
Definition ex1 : expr :=
  EBin 0%N (EUn UMinus ex_x)                                        (* (-x + ...) : unary minus as LEFT operand of + is fine *)
       (EBin 7%N (EConst (CNum KInt) 0 2%N) (EUn UMinus ex_path)).  (* (2 ^ -std::Foo.bar.<a1@p[is array<T>]) *)
Definition ex2 : expr :=
  EIf true (EIs true ex_x (TyName None 7%N))
      (ECall (Some 6%N) 10%N [ESeq QTuple [EConst CStr 0 0%N]; ESeq QSet []] [(20%N, ECast true (TyName None 7%N) (EUn UMinus ex_x))])
      (EIf false (EUn UNot (EBin 20%N ex_x (EConst CStr 0 1%N)))
           (EIndir ex_path [(false, Some (EConst (CNum KInt) 2 1%N), None); (true, None, Some ex_x)])
           (EShape (EDetached ex_x) [(4%N, None); (5%N, Some (ENamedTuple [(1%N, EParam 0%N)]))])).
Definition ex3 : expr :=
  EPathExpr (ESeq QTuple [EGlobal None 11%N; EPathPartial [SPtr false 4%N]]) [SPtr false 19%N].

Example C01_wf_ex1 : wf ex1 = true. Proof. vm_compute. reflexivity. Qed.
Example C01_wf_ex2 : wf ex2 = true. Proof. vm_compute. reflexivity. Qed.
Example C01_wf_ex3 : wf ex3 = true. Proof. vm_compute. reflexivity. Qed.
Example C01_rt_ex2 : parse (pp ex2) = Some ex2. Proof. vm_compute. reflexivity. Qed.
Example C01_lex_ex2 : lex_ok ex2 = true /\ no_fuse (pp_items ex2) = true. Proof. split; vm_compute; reflexivity. Qed.
