(* C01 -- print / re-parse round trip: the theorems.

   Model (Model.v): tokens; the expression core of EdgeQL as trees [expr]; [pp_items]/[pp] mirroring
   edb/edgeql/codegen.py for that core (including _prefix_swallows_op / _visit_left_operand, the DETACHED
   operand parentheses, `+ +x` spacing and <required T>); [parse] a precedence-climbing parser whose every
   shift/reduce decision is taken from Gen_Grammar.v, which is regenerated on every run from
   edb/edgeql/parser/grammar/precedence.py, tokens.py, the operator productions of expressions.py and the
   two operator sets _WEAKER_THAN_NOT / _TIGHTER_THAN_UMINUS of codegen.py.

   [image e] (decidable, PURELY STRUCTURAL, no precedence table involved) says: e is built the way the
   parser builds trees -- signs folded into numeric literals, paths / indirections flattened, non-empty lists
   where the grammar needs them, known operator ids, well-formed slices, no duplicate keyword arguments --
   and no shape has an empty element list (`x {}` is printed as `x` on purpose; see Refuted.v).
   [wf e] is the weaker, table-computed condition the induction actually needs ("every operand the printer
   writes without parentheses stays in place"); C01_image_wf shows that with the repaired printer it follows
   from [image] alone, i.e. the printer no longer relies on any side condition about operator nesting.

   All statements are for EVERY tree: no bound on depth, width or operator nesting. *)
From Coq Require Import List NArith Bool.
From Verif.C01 Require Import Gen_Grammar Model ProofsBase Proofs ProofsImage ProofsLex.
Import ListNotations.

(* the text printed for a parser-shaped tree parses back to the same tree *)
Theorem C01_roundtrip : forall e, image e = true -> parse (pp e) = Some e.
Proof. exact roundtrip_image. Qed.
Print Assumptions C01_roundtrip.

(* the structural class is inside the class the induction is carried out on *)
Theorem C01_image_wf : forall e, image e = true -> wf e = true.
Proof. exact image_wf. Qed.
Print Assumptions C01_image_wf.

(* the same for the (larger) table-computed class *)
Theorem C01_roundtrip_wf : forall e, wf e = true -> parse (pp e) = Some e.
Proof. exact roundtrip. Qed.
Print Assumptions C01_roundtrip_wf.

(* printing the re-parsed tree gives the same token text again *)
Theorem C01_idempotent : forall e e', wf e = true -> parse (pp e) = Some e' -> pp e' = pp e.
Proof. exact idempotent. Qed.
Print Assumptions C01_idempotent.

(* the general statement the ones above are instances of: under ANY enclosing production c and followed by
   ANY continuation k on which the operator loop would return r, the printed tree is consumed as one operand *)
Theorem C01_in_context : forall e, wf e = true -> forall c k r f1,
  tight c e = true -> rspine e k = true -> okfollow k = true ->
  (forall f, f1 <= f -> parse_loop f c e k = Some r) ->
  forall f, f1 + need e <= f -> parse_expr f c (pp e ++ k) = Some r.
Proof. exact main. Qed.
Print Assumptions C01_in_context.

(* no two tokens that the printer writes without white space between them can be read differently by the
   lexer: [no_fuse] checks every adjacent pair of the printed item stream against [fuses], an
   over-approximation of "the lexer would not read these two spellings as these two tokens" that the harness
   sweeps against the real Rust lexer for every pair of token-class representatives on every run.
   (No side condition any more: `+ +x` is printed with a space.) *)
Theorem C01_lex_stable : forall e, wf e = true -> no_fuse (pp_items e) = true.
Proof. exact lex_stable. Qed.
Print Assumptions C01_lex_stable.

(* ---- non-vacuity: wf holds on trees using every constructor, operator nesting included ---- *)

Definition ex_x := EPathRef None 0%N [].
Definition ex_path := EPathRef (Some 6%N) 3%N [SPtr false 4%N; SPtr true 5%N; SAt 19%N; SIs (TyColl None 23%N [TyName None 7%N])].
Definition ex1 : expr :=
  EBin 0%N (EUn UMinus ex_x)                                        (* (-x + ...) : unary minus as LEFT operand of + is fine *)
       (EBin 7%N (EConst (CNum KInt) 0 2%N) (EUn UMinus ex_path)).  (* (2 ^ -std::Foo.bar.<a1@p[is array<T>]) *)
Definition ex2 : expr :=
  EIf true (EIs true ex_x (TyName None 7%N))
      (ECall (Some 6%N) 10%N [ESeq QTuple [EConst CStr 0 0%N]; ESeq QSet []] [(20%N, ECast COpt (TyName None 7%N) (EUn UMinus ex_x))])
      (EIf false (EUn UNot (EBin 20%N ex_x (EConst CStr 0 1%N)))
           (EIndir ex_path [(false, Some (EConst (CNum KInt) 2 1%N), None); (true, None, Some ex_x)])
           (EShape (EDetached ex_x) [(4%N, None); (5%N, Some (ENamedTuple [(1%N, EParam 0%N)]))])).
Definition ex3 : expr :=
  EPathExpr (ESeq QTuple [EGlobal None 11%N; EPathPartial [SPtr false 4%N]]) [SPtr false 19%N].

Example C01_wf_ex1 : wf ex1 = true. Proof. vm_compute. reflexivity. Qed.
Example C01_wf_ex2 : wf ex2 = true. Proof. vm_compute. reflexivity. Qed.
Example C01_wf_ex3 : wf ex3 = true. Proof. vm_compute. reflexivity. Qed.
Example C01_rt_ex2 : parse (pp ex2) = Some ex2. Proof. vm_compute. reflexivity. Qed.
Example C01_lex_ex2 : no_fuse (pp_items ex2) = true. Proof. vm_compute; reflexivity. Qed.

(* trees that needed a side condition before the printer repairs are now inside [image] *)
Definition ex4 : expr :=                                             (* (-5) ^ 2, (NOT x) = 2, (<T>x){a}, DETACHED (x.y), + +x *)
  ESeq QTuple [EBin 7%N (EConst (CNum KInt) 1 3%N) (EConst (CNum KInt) 0 2%N);
               EBin 16%N (EUn UNot ex_x) (EConst (CNum KInt) 0 2%N);
               EShape (ECast CReq (TyName None 7%N) ex_x) [(4%N, None)];
               EDetached (EPathRef None 0%N [SPtr false 1%N]);
               EUn UPlus (EUn UPlus ex_x)].
Example C01_image_ex : image ex1 = true /\ image ex2 = true /\ image ex3 = true /\ image ex4 = true.
Proof. repeat split; vm_compute; reflexivity. Qed.
Example C01_rt_ex4 : parse (pp ex4) = Some ex4 /\ no_fuse (pp_items ex4) = true. Proof. split; vm_compute; reflexivity. Qed.
