(* C01 -- print / re-parse round trip: executable model of the expression core.

   pp_items / pp  mirror  edb/edgeql/codegen.py  (visit_Constant, visit_Parameter, visit_Path, visit_Ptr,
                  visit_TypeIntersection, visit_UnaryOp, visit_BinOp, visit_IsOp, visit_IfElse, visit_Tuple,
                  visit_NamedTuple, visit_Array, visit_Set, visit_FunctionCall, visit_TypeCast,
                  visit_Indirection, visit_Slice, visit_Index, visit_DetachedExpr, visit_GlobalExpr,
                  visit_Shape / visit_ShapeElement, visit_ObjectRef, visit_TypeName) as token streams with
                  the places where the printer writes white space (common/ast/codegen.py::write).
   parse          is a precedence-climbing parser for the same fragment that takes every shift/reduce
                  decision from the tables of Gen_Grammar.v (precedence.py + the operator productions
                  of expressions.py), with the yacc rule "production precedence vs look-ahead token
                  precedence, associativity on a tie, %nonassoc = error", and that builds the tree the
                  reduce_* methods build (constant folding of unary minus, path / indirection
                  flattening, named-tuple / tuple / parenthesis distinction).
   Leaves (identifiers, literal values, parameter names) are abstract numbers: their spelling is
   C18's subject; the harness renders them with the real quoting functions.                         *)
From Coq Require Import List NArith Bool Arith.
From Verif.C01 Require Import Gen_Grammar.
Import ListNotations.

(* ------------------------------------------------------------------ tokens *)

Inductive numkind := KInt | KFloat | KBigInt | KDecimal.

Inductive tok :=
| TId (i : N)                      (* IDENT (plain or backtick-quoted) *)
| TNum (k : numkind) (v : N)       (* ICONST / FCONST / NICONST / NFCONST *)
| TStr (v : N)
| TBytes (v : N)
| TParam (i : N)
| TSym (s : N).                    (* punctuation, operators, keywords: Gen_Grammar.S_* *)

Inductive item := IT (t : tok) | ISp.       (* printed token | white space *)

Fixpoint toks (l : list item) : list tok :=
  match l with
  | [] => []
  | IT t :: r => t :: toks r
  | ISp :: r => toks r
  end.

(* ------------------------------------------------------------------ trees *)

Inductive texpr :=
| TyName (m : option N) (n : N)
| TyColl (m : option N) (n : N) (subs : list texpr).

Inductive unop := UPlus | UMinus | UNot | UExists | UDistinct.
Inductive ckind := CNum (k : numkind) | CStr | CBytes | CBool.
Inductive seqkind := QTuple | QArray | QSet.
Inductive cmod := CNone | COpt | CReq.               (* TypeCast.cardinality_mod *)
Inductive pstep := SPtr (bw : bool) (n : N) | SAt (n : N) | SIs (t : texpr).

Inductive expr :=
| EConst (k : ckind) (nneg : nat) (v : N)     (* numeric: value text = nneg times '-' then the literal *)
| EParam (i : N)
| EPathRef (m : option N) (n : N) (ss : list pstep)      (* Path [ObjectRef; steps] *)
| EPathPartial (ss : list pstep)                         (* partial Path: .a / .<a / @a ... *)
| EPathExpr (e : expr) (ss : list pstep)                 (* Path [expr; steps], expr not itself a Path *)
| EUn (o : unop) (e : expr)
| EBin (o : N) (l r : expr)                              (* o = operator id of Gen_Grammar.binop_table *)
| EIs (neg : bool) (l : expr) (t : texpr)
| EIf (py : bool) (c a b : expr)                         (* py: `a IF c ELSE b`, else `IF c THEN a ELSE b` *)
| ESeq (k : seqkind) (es : list expr)
| ENamedTuple (fs : list (N * expr))
| ECall (m : option N) (f : N) (args : list expr) (kw : list (N * expr))
| ECast (cm : cmod) (t : texpr) (e : expr)
| EIndir (e : expr) (ixs : list (bool * option expr * option expr))   (* (slice?, a, b); index = (false, Some i, None) *)
| EDetached (e : expr)
| EGlobal (m : option N) (n : N)
| EShape (e : expr) (els : list (N * option expr)).     (* { a, b := e } *)

(* ------------------------------------------------------------------ grammar tables *)

Definition ctx := option prec.          (* precedence of the production whose right end is being parsed *)
Inductive decision := DShift | DReduce | DError.

Definition decide (c : ctx) (la : prec) : decision :=
  match c with
  | None => DShift
  | Some (lv, a) =>
      match N.compare (fst la) lv with
      | Gt => DShift
      | Lt => DReduce
      | Eq => match a with ALeft => DReduce | ARight => DShift | ANon => DError end
      end
  end.

Fixpoint assoc_find {A} (k : N) (l : list (N * A)) : option A :=
  match l with
  | [] => None
  | (k', v) :: r => if N.eqb k k' then Some v else assoc_find k r
  end.

Definition tok_prec (s : N) : option prec := assoc_find s tok_prec_table.

Definition sym_eqb (t : tok) (s : N) : bool :=
  match t with TSym s' => N.eqb s s' | _ => false end.

Fixpoint syms_prefix (ss : list N) (ts : list tok) : option (list tok) :=
  match ss with
  | [] => Some ts
  | s :: ss' => match ts with
                | t :: ts' => if sym_eqb t s then syms_prefix ss' ts' else None
                | [] => None
                end
  end.

(* first table row whose token sequence is a prefix of the input *)
Fixpoint binop_lookup (tbl : list (list N * N * prec)) (ts : list tok) : option (N * prec * list tok) :=
  match tbl with
  | [] => None
  | (ss, oid, p) :: r =>
      match syms_prefix ss ts with
      | Some rest => Some (oid, p, rest)
      | None => binop_lookup r ts
      end
  end.

(* a token that can start a binary operator production (the LR look-ahead on which the decision is taken) *)
Fixpoint starts_binop (tbl : list (list N * N * prec)) (s : N) : bool :=
  match tbl with
  | [] => false
  | (ss, _, _) :: r => match ss with s' :: _ => N.eqb s s' || starts_binop r s | [] => starts_binop r s end
  end.

Fixpoint binop_syms (tbl : list (list N * N * prec)) (o : N) : option (list N) :=
  match tbl with
  | [] => None
  | (ss, oid, _) :: r => if N.eqb o oid then Some ss else binop_syms r o
  end.

Fixpoint binop_row (tbl : list (list N * N * prec)) (o : N) : option (list N * prec) :=
  match tbl with
  | [] => None
  | (ss, oid, p) :: r => if N.eqb o oid then Some (ss, p) else binop_row r o
  end.

Definition un_sym (o : unop) : N :=
  match o with UPlus => S_PLUS | UMinus => S_MINUS | UNot => S_NOT | UExists => S_EXISTS | UDistinct => S_DISTINCT end.
Definition un_prec (o : unop) : prec :=
  match o with UPlus => p_uplus | UMinus => p_uminus | UNot => p_not | UExists => p_exists | UDistinct => p_distinct end.
Definition un_word (o : unop) : bool :=          (* str(op).isalnum() in visit_UnaryOp *)
  match o with UPlus | UMinus => false | _ => true end.

(* ------------------------------------------------------------------ printer *)

Definition S (s : N) : item := IT (TSym s).

Definition pp_name (m : option N) (n : N) : list item :=
  match m with
  | Some m' => [IT (TId m'); S S_DOUBLECOLON; IT (TId n)]
  | None => [IT (TId n)]
  end.

Section SepBy.
  Context {A : Type} (f : A -> list item) (sep : list item).
  Fixpoint sep_by (l : list A) : list item :=
    match l with
    | [] => []
    | x :: r => match r with [] => f x | _ :: _ => f x ++ sep ++ sep_by r end
    end.
End SepBy.

Definition comma_sep {A} (f : A -> list item) (l : list A) : list item := sep_by f [S S_COMMA; ISp] l.

Fixpoint pp_type (paren : bool) (t : texpr) {struct t} : list item :=
  match t with
  | TyName m n => pp_name m n
  | TyColl m n subs =>
      (if paren then [S S_LPAREN] else []) ++
      pp_name m n ++ [S S_LANGBRACKET] ++ comma_sep (fun x => pp_type false x) subs ++ [S S_RANGBRACKET] ++
      (if paren then [S S_RPAREN] else [])
  end.

Definition pp_step (s : pstep) : list item :=
  match s with
  | SPtr false n => [S S_DOT; IT (TId n)]
  | SPtr true n => [S S_DOTBW; IT (TId n)]
  | SAt n => [S S_AT; IT (TId n)]
  | SIs t => [S S_LBRACKET; S S_IS; ISp] ++ pp_type false t ++ [S S_RBRACKET]
  end.

Definition pp_steps (ss : list pstep) : list item := flat_map pp_step ss.

Definition const_tok (k : ckind) (v : N) : tok :=
  match k with
  | CNum nk => TNum nk v
  | CStr => TStr v
  | CBytes => TBytes v
  | CBool => TSym (if N.eqb v 0 then S_FALSE else S_TRUE)
  end.

(* steps[0] printed bare: ObjectRef, Ptr, Set, Tuple, NamedTuple, Parameter (visit_Path) *)
Definition head_bare (e : expr) : bool :=
  match e with
  | ESeq QTuple _ | ESeq QSet _ | ENamedTuple _ | EParam _ => true
  | _ => false
  end.

(* visit_Path, steps[0]: the head is looked at through empty shapes (_skip_empty_shapes); an empty shape over a
   non-partial path is printed as that path (`Foo {}.bar` is `Foo.bar`) *)
Fixpoint skip_empty (e : expr) : expr := match e with EShape y [] => skip_empty y | _ => e end.
Definition empty_over_path (e : expr) : bool :=
  match e with
  | EShape _ [] => match skip_empty e with EPathRef _ _ _ | EPathExpr _ _ => true | _ => false end
  | _ => false
  end.
Definition head_bare_p (e : expr) : bool := head_bare (skip_empty e) || empty_over_path e.

Definition sym_items (ss : list N) : list item := sep_by (fun s => [S s]) [ISp] ss.

Definition op_syms (o : N) : list N := match binop_syms binop_table o with Some ss => ss | None => [] end.

Definition pp_field (f : expr -> list item) (p : N * expr) : list item :=
  let (n, x) := p in [IT (TId n); ISp; S S_ASSIGN; ISp] ++ f x.

Definition pp_opt (f : expr -> list item) (o : option expr) : list item :=
  match o with Some x => f x | None => [] end.

Definition pp_ix (f : expr -> list item) (ix : bool * option expr * option expr) : list item :=
  let '(sl, a, b) := ix in
  [S S_LBRACKET] ++ pp_opt f a ++ (if sl then [S S_COLON] ++ pp_opt f b else []) ++ [S S_RBRACKET].

Definition pp_el (f : expr -> list item) (el : N * option expr) : list item :=
  let (n, c) := el in
  [IT (TId n)] ++ match c with Some x => [ISp; S S_ASSIGN; ISp] ++ f x | None => [] end.

(* codegen._prefix_swallows_op: would [e], printed bare right before the operator, capture it?  The printer
   decides with its own two operator sets (the cg_ constants of Gen_Grammar), not with the grammar tables. *)
Inductive lctx := LBin (o : N) | LIs | LBrace.

Definition cg_weaker (c : lctx) : bool :=
  match c with LBin o => existsb (N.eqb o) cg_weaker_than_not | _ => false end.
Definition cg_tighter (c : lctx) : bool :=
  match c with LBin o => existsb (N.eqb o) cg_tighter_than_uminus | LBrace => cg_brace_tighter | LIs => false end.

Fixpoint swallows (c : lctx) (e : expr) : bool :=
  match e with
  | EShape y [] => swallows c y                             (* _skip_empty_shapes *)
  | EUn UNot _ => negb (cg_weaker c)
  | EUn o x => if cg_tighter c then true else if un_word o then false else swallows c x
  | ECast _ _ x => match c with LBrace => true | _ => swallows c x end
  | EDetached x => swallows c x
  | EConst (CNum _) (Datatypes.S _) _ => cg_tighter c
  | _ => false
  end.

(* visit_DetachedExpr: the operand is parenthesised when it is an indirection, a shape or a path with steps *)
Fixpoint det_paren (e : expr) : bool :=
  match e with
  | EShape y [] => det_paren y
  | EIndir _ _ | EShape _ _ | EPathExpr _ _ => true
  | EPathRef _ _ (_ :: _) => true
  | EPathPartial (_ :: _ :: _) => true
  | _ => false
  end.

Definition is_uplus (e : expr) : bool := match e with EUn UPlus _ => true | _ => false end.

Definition wrap_if (b : bool) (l : list item) : list item :=
  if b then [S S_LPAREN] ++ l ++ [S S_RPAREN] else l.

Fixpoint pp_items (e : expr) {struct e} : list item :=
  match e with
  | EConst k nneg v => repeat (S S_MINUS) nneg ++ [IT (const_tok k v)]
  | EParam i => [IT (TParam i)]
  | EPathRef m n ss => pp_name m n ++ pp_steps ss
  | EPathPartial ss => pp_steps ss
  | EPathExpr h ss =>
      (if head_bare_p h then pp_items h else [S S_LPAREN] ++ pp_items h ++ [S S_RPAREN]) ++ pp_steps ss
  | EUn o x =>
      if un_word o then [S (un_sym o); ISp; S S_LPAREN] ++ pp_items x ++ [S S_RPAREN]
      else [S (un_sym o)] ++
           (match o with UPlus => if is_uplus x then [ISp] else [] | _ => [] end) ++      (* `+ +x`, never `++x` *)
           pp_items x
  | EBin o l r =>
      [S S_LPAREN] ++ wrap_if (swallows (LBin o) l) (pp_items l) ++ [ISp] ++ sym_items (op_syms o) ++ [ISp] ++
      pp_items r ++ [S S_RPAREN]
  | EIs neg l t =>
      [S S_LPAREN] ++ wrap_if (swallows LIs l) (pp_items l) ++ [ISp; S S_IS] ++ (if neg then [ISp; S S_NOT] else []) ++ [ISp] ++
      pp_type true t ++ [S S_RPAREN]
  | EIf true c a b =>
      [S S_LPAREN] ++ pp_items a ++ [ISp; S S_IF; ISp] ++ pp_items c ++ [ISp; S S_ELSE; ISp] ++ pp_items b ++ [S S_RPAREN]
  | EIf false c a b =>
      [S S_LPAREN; S S_IF; ISp] ++ pp_items c ++ [ISp; S S_THEN; ISp] ++ pp_items a ++
      [ISp; S S_ELSE; ISp] ++ pp_items b ++ [S S_RPAREN]
  | ESeq k es =>
      match k with
      | QTuple => [S S_LPAREN] ++ comma_sep (fun x => pp_items x) es ++ (match es with [_] => [S S_COMMA] | _ => [] end) ++ [S S_RPAREN]
      | QArray => [S S_LBRACKET] ++ comma_sep (fun x => pp_items x) es ++ [S S_RBRACKET]
      | QSet => [S S_LBRACE] ++ comma_sep (fun x => pp_items x) es ++ [S S_RBRACE]
      end
  | ENamedTuple fs => [S S_LPAREN; ISp] ++ comma_sep (pp_field (fun x => pp_items x)) fs ++ [ISp; S S_RPAREN]
  | ECall m f args kw =>
      pp_name m f ++ [S S_LPAREN] ++ comma_sep (fun x => pp_items x) args ++
      (match args, kw with _ :: _, _ :: _ => [S S_COMMA; ISp] | _, _ => [] end) ++
      comma_sep (pp_field (fun x => pp_items x)) kw ++ [S S_RPAREN]
  | ECast cm t x =>
      [S S_LANGBRACKET] ++
      (match cm with CNone => [] | COpt => [S S_OPTIONAL; ISp] | CReq => [S S_REQUIRED; ISp] end) ++
      pp_type false t ++ [S S_RANGBRACKET] ++ pp_items x
  | EIndir x ixs => [S S_LPAREN] ++ pp_items x ++ [S S_RPAREN] ++ flat_map (pp_ix (fun x => pp_items x)) ixs
  | EDetached x => [S S_DETACHED; ISp] ++ wrap_if (det_paren x) (pp_items x)
  | EGlobal m n => [S S_GLOBAL; ISp] ++ pp_name m n
  | EShape x els =>
      match els with
      | [] => pp_items x                                            (* a shape without elements prints as its subject *)
      | _ :: _ =>
          wrap_if (swallows LBrace x) (pp_items x) ++ [ISp; S S_LBRACE; ISp] ++
          comma_sep (pp_el (fun x => pp_items x)) els ++ [ISp; S S_RBRACE]
      end
  end.

Definition pp (e : expr) : list tok := toks (pp_items e).

(* ------------------------------------------------------------------ parser *)

Definition is_num (k : ckind) : bool := match k with CNum _ => true | _ => false end.

(* reduce_MINUS_Expr: a numeric constant absorbs the sign *)
Definition mk_neg (e : expr) : expr :=
  match e with
  | EConst (CNum nk) n v => EConst (CNum nk) (Datatypes.S n) v
  | _ => EUn UMinus e
  end.

(* Path.reduce_Expr_PathStep / ensure_path *)
Definition add_step (e : expr) (s : pstep) : expr :=
  match e with
  | EPathRef m n ss => EPathRef m n (ss ++ [s])
  | EPathPartial ss => EPathPartial (ss ++ [s])
  | EPathExpr h ss => EPathExpr h (ss ++ [s])
  | _ => EPathExpr e [s]
  end.

(* Expr.reduce_Expr_IndirectionEl *)
Definition add_indir (e : expr) (ix : bool * option expr * option expr) : expr :=
  match e with
  | EIndir x ixs => EIndir x (ixs ++ [ix])
  | _ => EIndir e [ix]
  end.

Definition parse_name (ts : list tok) : option (option N * N * list tok) :=
  match ts with
  | TId a :: TSym s :: TId b :: r => if N.eqb s S_DOUBLECOLON then Some (Some a, b, r) else Some (None, a, TSym s :: TId b :: r)
  | TId a :: r => Some (None, a, r)
  | _ => None
  end.

Fixpoint parse_type (fuel : nat) (ts : list tok) {struct fuel} : option (texpr * list tok) :=
  match fuel with
  | O => None
  | Datatypes.S f =>
      match ts with
      | TSym s :: r =>
          if N.eqb s S_LPAREN then
            match parse_type f r with
            | Some (t, TSym s2 :: r2) => if N.eqb s2 S_RPAREN then Some (t, r2) else None
            | _ => None
            end
          else None
      | _ =>
          match parse_name ts with
          | Some (m, n, TSym s :: r) =>
              if N.eqb s S_LANGBRACKET then
                match parse_types f r with
                | Some (subs, TSym s2 :: r2) => if N.eqb s2 S_RANGBRACKET then Some (TyColl m n subs, r2) else None
                | _ => None
                end
              else Some (TyName m n, TSym s :: r)
          | Some (m, n, r) => Some (TyName m n, r)
          | None => None
          end
      end
  end
with parse_types (fuel : nat) (ts : list tok) {struct fuel} : option (list texpr * list tok) :=
  match fuel with
  | O => None
  | Datatypes.S f =>
      match parse_type f ts with
      | Some (t, TSym s :: r) =>
          if N.eqb s S_COMMA then
            match parse_types f r with
            | Some (l, r2) => Some (t :: l, r2)
            | None => None
            end
          else Some ([t], TSym s :: r)
      | Some (t, r) => Some ([t], r)
      | None => None
      end
  end.

Definition parse_type_is (fuel : nat) (ts : list tok) : option (texpr * list tok) :=
  match ts with
  | TSym _ :: _ => parse_type fuel ts
  | _ => match parse_name ts with
         | Some (m, n, r) => Some (TyName m n, r)
         | None => None
         end
  end.

Definition expect (s : N) (ts : list tok) : option (list tok) :=
  match ts with
  | t :: r => if sym_eqb t s then Some r else None
  | [] => None
  end.

Definition starts (s : N) (ts : list tok) : bool :=
  match ts with t :: _ => sym_eqb t s | [] => false end.

Definition prec_of (s : N) : prec := match tok_prec s with Some p => p | None => (0%N, ANon) end.

Fixpoint parse_expr (fuel : nat) (c : ctx) (ts : list tok) {struct fuel} : option (expr * list tok) :=
  match fuel with
  | O => None
  | Datatypes.S f =>
      match parse_operand f ts with
      | Some (e, r) => parse_loop f c e r
      | None => None
      end
  end

(* atoms and prefix forms *)
with parse_operand (fuel : nat) (ts : list tok) {struct fuel} : option (expr * list tok) :=
  match fuel with
  | O => None
  | Datatypes.S f =>
      match ts with
      | TNum k v :: r => Some (EConst (CNum k) 0 v, r)
      | TStr v :: r => Some (EConst CStr 0 v, r)
      | TBytes v :: r => Some (EConst CBytes 0 v, r)
      | TParam i :: r => Some (EParam i, r)
      | TId _ :: _ =>
          match parse_name ts with
          | Some (m, n, r) =>
              if starts S_LPAREN r then
                match parse_args f (tl r) with
                | Some (args, kw, r2) => Some (ECall m n args kw, r2)
                | None => None
                end
              else Some (EPathRef m n [], r)
          | None => None
          end
      | TSym s :: r =>
          if N.eqb s S_TRUE then Some (EConst CBool 0 1%N, r)
          else if N.eqb s S_FALSE then Some (EConst CBool 0 0%N, r)
          else if N.eqb s S_LPAREN then
            if starts S_RPAREN r then Some (ESeq QTuple [], tl r)
            else match r with
                 | TId n :: TSym s2 :: r2 =>
                     if N.eqb s2 S_ASSIGN then
                       match parse_named f r with
                       | Some (fs, r3) => Some (ENamedTuple fs, r3)
                       | None => None
                       end
                     else parse_paren f r
                 | _ => parse_paren f r
                 end
          else if N.eqb s S_LBRACKET then
            match parse_list f S_RBRACKET r with
            | Some (es, r2) => Some (ESeq QArray es, r2)
            | None => None
            end
          else if N.eqb s S_LBRACE then
            match parse_list f S_RBRACE r with
            | Some (es, r2) => Some (ESeq QSet es, r2)
            | None => None
            end
          else if N.eqb s S_DOT then
            match r with TId n :: r2 => Some (EPathPartial [SPtr false n], r2) | _ => None end
          else if N.eqb s S_DOTBW then
            match r with TId n :: r2 => Some (EPathPartial [SPtr true n], r2) | _ => None end
          else if N.eqb s S_AT then
            match r with TId n :: r2 => Some (EPathPartial [SAt n], r2) | _ => None end
          else if N.eqb s S_MINUS then
            match parse_expr f (Some p_uminus) r with
            | Some (e, r2) => Some (mk_neg e, r2)
            | None => None
            end
          else if N.eqb s S_PLUS then
            match parse_expr f (Some p_uplus) r with
            | Some (e, r2) => Some (EUn UPlus e, r2)
            | None => None
            end
          else if N.eqb s S_NOT then
            match parse_expr f (Some p_not) r with
            | Some (e, r2) => Some (EUn UNot e, r2)
            | None => None
            end
          else if N.eqb s S_EXISTS then
            match parse_expr f (Some p_exists) r with
            | Some (e, r2) => Some (EUn UExists e, r2)
            | None => None
            end
          else if N.eqb s S_DISTINCT then
            match parse_expr f (Some p_distinct) r with
            | Some (e, r2) => Some (EUn UDistinct e, r2)
            | None => None
            end
          else if N.eqb s S_DETACHED then
            match parse_expr f (Some p_detached) r with
            | Some (e, r2) => Some (EDetached e, r2)
            | None => None
            end
          else if N.eqb s S_GLOBAL then
            match parse_name r with
            | Some (m, n, r2) => Some (EGlobal m n, r2)
            | None => None
            end
          else if N.eqb s S_LANGBRACKET then
            let cm := if starts S_OPTIONAL r then COpt else if starts S_REQUIRED r then CReq else CNone in
            match parse_type f (match cm with CNone => r | _ => tl r end) with
            | Some (t, r2) =>
                match expect S_RANGBRACKET r2 with
                | Some r3 =>
                    match parse_expr f (Some p_typecast) r3 with
                    | Some (e, r4) => Some (ECast cm t e, r4)
                    | None => None
                    end
                | None => None
                end
            | None => None
            end
          else if N.eqb s S_IF then
            match parse_expr f None r with
            | Some (cnd, r2) =>
                match expect S_THEN r2 with
                | Some r3 =>
                    match parse_expr f None r3 with
                    | Some (a, r4) =>
                        match expect S_ELSE r4 with
                        | Some r5 =>
                            match parse_expr f (Some p_ifthenelse) r5 with
                            | Some (b, r6) => Some (EIf false cnd a b, r6)
                            | None => None
                            end
                        | None => None
                        end
                    | None => None
                    end
                | None => None
                end
            | None => None
            end
          else None
      | [] => None
      end
  end

(* after `(` : ParenExpr or Tuple *)
with parse_paren (fuel : nat) (ts : list tok) {struct fuel} : option (expr * list tok) :=
  match fuel with
  | O => None
  | Datatypes.S f =>
      match parse_expr f None ts with
      | Some (e, TSym s :: r) =>
          if N.eqb s S_RPAREN then Some (e, r)
          else if N.eqb s S_COMMA then
            match parse_list f S_RPAREN r with
            | Some (es, r2) => Some (ESeq QTuple (e :: es), r2)
            | None => None
            end
          else None
      | _ => None
      end
  end

(* OptExprList (trailing comma allowed) up to and including the closing token *)
with parse_list (fuel : nat) (close : N) (ts : list tok) {struct fuel} : option (list expr * list tok) :=
  match fuel with
  | O => None
  | Datatypes.S f =>
      if starts close ts then Some ([], tl ts)
      else
        match parse_expr f None ts with
        | Some (e, TSym s :: r) =>
            if N.eqb s close then Some ([e], r)
            else if N.eqb s S_COMMA then
              match parse_list f close r with
              | Some (es, r2) => Some (e :: es, r2)
              | None => None
              end
            else None
        | _ => None
        end
  end

(* NamedTupleElementList: `a := e, ...` (trailing comma allowed) up to and including `)` *)
with parse_named (fuel : nat) (ts : list tok) {struct fuel} : option (list (N * expr) * list tok) :=
  match fuel with
  | O => None
  | Datatypes.S f =>
      match ts with
      | TId n :: TSym s :: r =>
          if N.eqb s S_ASSIGN then
            match parse_expr f None r with
            | Some (e, TSym s2 :: r2) =>
                if N.eqb s2 S_RPAREN then Some ([(n, e)], r2)
                else if N.eqb s2 S_COMMA then
                  if starts S_RPAREN r2 then Some ([(n, e)], tl r2)
                  else match parse_named f r2 with
                       | Some (fs, r3) => Some ((n, e) :: fs, r3)
                       | None => None
                       end
                else None
            | _ => None
            end
          else None
      | _ => None
      end
  end

(* OptFuncArgList after `(`: positional arguments, then `name := e` arguments, up to and including `)` *)
with parse_args (fuel : nat) (ts : list tok) {struct fuel} : option (list expr * list (N * expr) * list tok) :=
  match fuel with
  | O => None
  | Datatypes.S f =>
      if starts S_RPAREN ts then Some ([], [], tl ts)
      else
        match ts with
        | TId n :: TSym s :: r =>
            if N.eqb s S_ASSIGN then
              match parse_expr f None r with
              | Some (e, TSym s2 :: r2) =>
                  if N.eqb s2 S_RPAREN then Some ([], [(n, e)], r2)
                  else if N.eqb s2 S_COMMA then
                    match parse_args f r2 with
                    | Some ([], kw, r3) =>
                        if existsb (fun q => N.eqb n (fst q)) kw then None      (* duplicate named argument *)
                        else Some ([], (n, e) :: kw, r3)
                    | _ => None                      (* positional argument after a named one *)
                    end
                  else None
              | _ => None
              end
            else parse_args_pos f ts
        | _ => parse_args_pos f ts
        end
  end
with parse_args_pos (fuel : nat) (ts : list tok) {struct fuel} : option (list expr * list (N * expr) * list tok) :=
  match fuel with
  | O => None
  | Datatypes.S f =>
      match parse_expr f None ts with
      | Some (e, TSym s2 :: r2) =>
          if N.eqb s2 S_RPAREN then Some ([e], [], r2)
          else if N.eqb s2 S_COMMA then
            match parse_args f r2 with
            | Some (args, kw, r3) => Some (e :: args, kw, r3)
            | None => None
            end
          else None
      | _ => None
      end
  end

(* shape elements after `{` up to and including `}` *)
with parse_shape (fuel : nat) (ts : list tok) {struct fuel} : option (list (N * option expr) * list tok) :=
  match fuel with
  | O => None
  | Datatypes.S f =>
      if starts S_RBRACE ts then Some ([], tl ts)
      else
        match ts with
        | TId n :: TSym s :: r =>
            if N.eqb s S_ASSIGN then
              match parse_expr f None r with
              | Some (e, TSym s2 :: r2) =>
                  if N.eqb s2 S_RBRACE then Some ([(n, Some e)], r2)
                  else if N.eqb s2 S_COMMA then
                    match parse_shape f r2 with
                    | Some (els, r3) => Some ((n, Some e) :: els, r3)
                    | None => None
                    end
                  else None
              | _ => None
              end
            else if N.eqb s S_RBRACE then Some ([(n, None)], r)
            else if N.eqb s S_COMMA then
              match parse_shape f r with
              | Some (els, r3) => Some ((n, None) :: els, r3)
              | None => None
              end
            else None
        | _ => None
        end
  end

(* the operator loop: one LR decision per look-ahead token *)
with parse_loop (fuel : nat) (c : ctx) (lhs : expr) (ts : list tok) {struct fuel} : option (expr * list tok) :=
  match fuel with
  | O => None
  | Datatypes.S f =>
      match ts with
      | TSym s :: r =>
          if N.eqb s S_DOT || N.eqb s S_DOTBW || N.eqb s S_AT then
            match decide c (prec_of s) with
            | DShift =>
                match r with
                | TId n :: r2 =>
                    parse_loop f c (add_step lhs (if N.eqb s S_AT then SAt n else SPtr (N.eqb s S_DOTBW) n)) r2
                | _ => None
                end
            | DReduce => Some (lhs, ts)
            | DError => None
            end
          else if N.eqb s S_LBRACKET then
            match decide c (prec_of s) with
            | DShift =>
                if starts S_IS r then
                  match parse_type f (tl r) with
                  | Some (t, r2) =>
                      match expect S_RBRACKET r2 with
                      | Some r3 => parse_loop f c (add_step lhs (SIs t)) r3
                      | None => None
                      end
                  | None => None
                  end
                else if starts S_COLON r then
                  match parse_expr f None (tl r) with
                  | Some (b, r2) =>
                      match expect S_RBRACKET r2 with
                      | Some r3 => parse_loop f c (add_indir lhs (true, None, Some b)) r3
                      | None => None
                      end
                  | None => None
                  end
                else
                  match parse_expr f None r with
                  | Some (a, TSym s2 :: r2) =>
                      if N.eqb s2 S_RBRACKET then parse_loop f c (add_indir lhs (false, Some a, None)) r2
                      else if N.eqb s2 S_COLON then
                        if starts S_RBRACKET r2 then parse_loop f c (add_indir lhs (true, Some a, None)) (tl r2)
                        else
                          match parse_expr f None r2 with
                          | Some (b, r3) =>
                              match expect S_RBRACKET r3 with
                              | Some r4 => parse_loop f c (add_indir lhs (true, Some a, Some b)) r4
                              | None => None
                              end
                          | None => None
                          end
                      else None
                  | _ => None
                  end
            | DReduce => Some (lhs, ts)
            | DError => None
            end
          else if N.eqb s S_LBRACE then
            match decide c (prec_of s) with
            | DShift =>
                match parse_shape f r with
                | Some (els, r2) => parse_loop f c (EShape lhs els) r2
                | None => None
                end
            | DReduce => Some (lhs, ts)
            | DError => None
            end
          else if N.eqb s S_IS then
            match decide c (prec_of s) with
            | DShift =>
                let neg := starts S_NOT r in
                (* TypeExpr after IS: a simple name or a parenthesised type; `T < ...` there is a comparison *)
                match parse_type_is f (if neg then tl r else r) with
                | Some (t, r2) => parse_loop f c (EIs neg lhs t) r2
                | None => None
                end
            | DReduce => Some (lhs, ts)
            | DError => None
            end
          else if N.eqb s S_IF then
            match decide c (prec_of s) with
            | DShift =>
                match parse_expr f None r with
                | Some (cnd, r2) =>
                    match expect S_ELSE r2 with
                    | Some r3 =>
                        match parse_expr f (Some p_ifelse) r3 with
                        | Some (b, r4) => parse_loop f c (EIf true cnd lhs b) r4
                        | None => None
                        end
                    | None => None
                    end
                | None => None
                end
            | DReduce => Some (lhs, ts)
            | DError => None
            end
          else if starts_binop binop_table s then
            match decide c (prec_of s) with
            | DShift =>
                match binop_lookup binop_table ts with
                | Some (oid, p, r2) =>
                    match parse_expr f (Some p) r2 with
                    | Some (rhs, r3) => parse_loop f c (EBin oid lhs rhs) r3
                    | None => None
                    end
                | None => None
                end
            | DReduce => Some (lhs, ts)
            | DError => None
            end
          else Some (lhs, ts)
      | _ => Some (lhs, ts)
      end
  end.

Definition fuel_for (ts : list tok) : nat := 6 * length ts + 8.

(* entry point: the whole token list must be one expression (STARTFRAGMENT Expr EOI) *)
Definition parse (ts : list tok) : option expr :=
  match parse_expr (fuel_for ts) None ts with
  | Some (e, []) => Some e
  | _ => None
  end.

(* ------------------------------------------------------------------ when does the round trip hold?
   [wf e] = e is in the image of the parser's tree constructors (signs folded into numeric constants, paths and
   indirections flattened, non-empty lists where the grammar wants them, operator ids of the table)
   AND every operand that the printer writes WITHOUT parentheses is followed / preceded by tokens on which the
   precedence tables take the decision that keeps it in place:
     tight c e     the postfix chain of e (path steps, [..], {..}) is shifted under the enclosing production c
     rspine e s    every prefix production open at the right end of e is reduced on look-ahead s
   Both are evaluated with the generated tables, so the theorems hold for whatever precedence.py says. *)

Definition is_loop_sym (s : N) : bool :=
  N.eqb s S_DOT || N.eqb s S_DOTBW || N.eqb s S_AT || N.eqb s S_LBRACKET || N.eqb s S_LBRACE ||
  N.eqb s S_IS || N.eqb s S_IF || starts_binop binop_table s.

Definition reduces (c : ctx) (la : prec) : bool := match decide c la with DReduce => true | _ => false end.
Definition shifts (c : ctx) (la : prec) : bool := match decide c la with DShift => true | _ => false end.

(* the operator loop under context c hands its operand back when it sees k *)
Definition stops (c : ctx) (k : list tok) : bool :=
  match k with
  | TSym s :: _ => if is_loop_sym s then reduces c (prec_of s) else true
  | _ => true
  end.

Fixpoint rspine (e : expr) (k : list tok) : bool :=
  match e with
  | EUn o x => stops (Some (un_prec o)) k && (if un_word o then true else rspine x k)
  | ECast _ _ x => stops (Some p_typecast) k && rspine x k
  | EDetached x => stops (Some p_detached) k && rspine x k
  | EConst (CNum _) (Datatypes.S _) _ => stops (Some p_uminus) k
  | _ => true
  end.

Definition step_sym (s : pstep) : N :=
  match s with SPtr false _ => S_DOT | SPtr true _ => S_DOTBW | SAt _ => S_AT | SIs _ => S_LBRACKET end.

Definition steps_ok (c : ctx) (ss : list pstep) : bool := forallb (fun s => shifts c (prec_of (step_sym s))) ss.

Fixpoint tight (c : ctx) (e : expr) : bool :=
  match e with
  | EPathRef _ _ ss => steps_ok c ss
  | EPathPartial ss => steps_ok c (tl ss)
  | EPathExpr _ ss => steps_ok c ss
  | EIndir _ _ => shifts c (prec_of S_LBRACKET)
  | EShape x _ => (swallows LBrace x || tight c x) && shifts c (prec_of S_LBRACE)
  | _ => true
  end.

Definition is_path (e : expr) : bool :=
  match e with EPathRef _ _ _ | EPathPartial _ | EPathExpr _ _ => true | _ => false end.
Definition is_indir (e : expr) : bool := match e with EIndir _ _ => true | _ => false end.
Definition is_numconst (e : expr) : bool := match e with EConst (CNum _) _ _ => true | _ => false end.

Fixpoint wf_type (t : texpr) : bool :=
  match t with
  | TyName _ _ => true
  | TyColl _ _ subs =>
      match subs with [] => false | _ => true end &&
      (fix go (l : list texpr) : bool := match l with [] => true | x :: r => wf_type x && go r end) subs
  end.

Definition wf_step (s : pstep) : bool := match s with SIs t => wf_type t | _ => true end.

Definition sym_toks (ss : list N) : list tok := map TSym ss.

Fixpoint nodup_names {A} (l : list (N * A)) : bool :=
  match l with
  | [] => true
  | (n, _) :: r => negb (existsb (fun q => N.eqb n (fst q)) r) && nodup_names r
  end.

Fixpoint wf (e : expr) : bool :=
  match e with
  | EConst k nneg v =>
      match k with
      | CNum _ => true
      | CBool => match nneg with O => N.ltb v 2 | _ => false end
      | _ => match nneg with O => true | _ => false end
      end
  | EParam _ => true
  | EPathRef _ _ ss => forallb wf_step ss
  | EPathPartial ss =>
      match ss with SPtr _ _ :: _ | SAt _ :: _ => true | _ => false end && forallb wf_step ss
  | EPathExpr h ss =>
      wf h && negb (is_path h) && match ss with [] => false | _ => true end && forallb wf_step ss
  | EUn o x =>
      wf x &&
      (if un_word o then true else tight (Some (un_prec o)) x) &&
      match o with UMinus => negb (is_numconst x) | _ => true end
  | EBin o l r =>
      wf l && wf r &&
      match binop_row binop_table o with
      | Some (ss, p) => (swallows (LBin o) l || rspine l (sym_toks ss)) && tight (Some p) r
      | None => false
      end
  | EIs neg l t => wf l && wf_type t && (swallows LIs l || rspine l [TSym S_IS])
  | EIf true c a b => wf c && wf a && wf b && rspine a [TSym S_IF] && tight (Some p_ifelse) b
  | EIf false c a b => wf c && wf a && wf b && tight (Some p_ifthenelse) b
  | ESeq _ es => (fix go (l : list expr) : bool := match l with [] => true | x :: r => wf x && go r end) es
  | ENamedTuple fs =>
      match fs with [] => false | _ => true end &&
      (fix go (l : list (N * expr)) : bool := match l with [] => true | (_, x) :: r => wf x && go r end) fs
  | ECall _ _ args kw =>
      (fix go (l : list expr) : bool := match l with [] => true | x :: r => wf x && go r end) args &&
      (fix go (l : list (N * expr)) : bool := match l with [] => true | (_, x) :: r => wf x && go r end) kw &&
      nodup_names kw
  | ECast _ t x => wf_type t && wf x && tight (Some p_typecast) x
  | EIndir x ixs =>
      wf x && negb (is_indir x) && match ixs with [] => false | _ => true end &&
      (fix go (l : list (bool * option expr * option expr)) : bool :=
         match l with
         | [] => true
         | (sl, a, b) :: r =>
             (match a with Some x => wf x | None => true end) &&
             (match b with Some x => wf x | None => true end) &&
             (if sl then match a, b with None, None => false | _, _ => true end
              else match a, b with Some _, None => true | _, _ => false end) &&
             go r
         end) ixs
  | EDetached x => wf x && (det_paren x || tight (Some p_detached) x)
  | EGlobal _ _ => true
  | EShape x els =>
      wf x && (swallows LBrace x || rspine x [TSym S_LBRACE]) && match els with [] => false | _ => true end &&
      (fix go (l : list (N * option expr)) : bool :=
         match l with
         | [] => true
         | (_, c) :: r => (match c with Some y => wf y | None => true end) && go r
         end) els
  end.

(* [image e]: e is built the way the parser builds trees -- purely structural, no precedence involved:
   boolean literals are 0/1 and only numeric literals carry signs; a partial path starts with a pointer
   step; Path[expr; steps] has steps and its head is not itself a path; unary minus never sits on a numeric
   literal (the parser folds it); operator ids exist in the table; named tuples, indirections, shapes and
   collection types are non-empty; slices have at least one bound; named arguments are distinct. *)
Fixpoint image (e : expr) : bool :=
  match e with
  | EConst k nneg v =>
      match k with
      | CNum _ => true
      | CBool => match nneg with O => N.ltb v 2 | _ => false end
      | _ => match nneg with O => true | _ => false end
      end
  | EParam _ => true
  | EPathRef _ _ ss => forallb wf_step ss
  | EPathPartial ss =>
      match ss with SPtr _ _ :: _ | SAt _ :: _ => true | _ => false end && forallb wf_step ss
  | EPathExpr h ss =>
      image h && negb (is_path h) && match ss with [] => false | _ => true end && forallb wf_step ss
  | EUn o x => image x && match o with UMinus => negb (is_numconst x) | _ => true end
  | EBin o l r => image l && image r && match binop_row binop_table o with Some _ => true | None => false end
  | EIs _ l t => image l && wf_type t
  | EIf _ c a b => image c && image a && image b
  | ESeq _ es => (fix go (l : list expr) : bool := match l with [] => true | x :: r => image x && go r end) es
  | ENamedTuple fs =>
      match fs with [] => false | _ => true end &&
      (fix go (l : list (N * expr)) : bool := match l with [] => true | (_, x) :: r => image x && go r end) fs
  | ECall _ _ args kw =>
      (fix go (l : list expr) : bool := match l with [] => true | x :: r => image x && go r end) args &&
      (fix go (l : list (N * expr)) : bool := match l with [] => true | (_, x) :: r => image x && go r end) kw &&
      nodup_names kw
  | ECast _ t x => wf_type t && image x
  | EIndir x ixs =>
      image x && negb (is_indir x) && match ixs with [] => false | _ => true end &&
      (fix go (l : list (bool * option expr * option expr)) : bool :=
         match l with
         | [] => true
         | (sl, a, b) :: r =>
             (match a with Some x => image x | None => true end) &&
             (match b with Some x => image x | None => true end) &&
             (if sl then match a, b with None, None => false | _, _ => true end
              else match a, b with Some _, None => true | _, _ => false end) &&
             go r
         end) ixs
  | EDetached x => image x
  | EGlobal _ _ => true
  | EShape x els =>
      image x && match els with [] => false | _ => true end &&
      (fix go (l : list (N * option expr)) : bool :=
         match l with
         | [] => true
         | (_, c) :: r => (match c with Some y => image y | None => true end) && go r
         end) els
  end.

(* ------------------------------------------------------------------ lexical adjacency *)

(* classes of tokens as far as fusing with a neighbour goes; the table is swept against the real
   Rust lexer on every run (every pair of representatives) *)
Definition wordlike (t : tok) : bool :=
  match t with
  | TId _ | TNum _ _ | TParam _ => true
  | TStr _ | TBytes _ => false
  | TSym s => negb (existsb (N.eqb s)
                [S_DOT; S_DOTBW; S_LBRACKET; S_RBRACKET; S_LPAREN; S_RPAREN; S_LBRACE; S_RBRACE; S_DOUBLECOLON;
                 S_DOUBLEQMARK; S_COLON; S_SEMICOLON; S_COMMA; S_PLUS; S_DOUBLEPLUS; S_MINUS; S_STAR; S_SLASH;
                 S_DOUBLESLASH; S_PERCENT; S_CIRCUMFLEX; S_AT; S_ASSIGN; S_LANGBRACKET; S_RANGBRACKET; S_EQUALS;
                 S_AMPER; S_PIPE; S_DISTINCTFROM; S_GREATEREQ; S_LESSEQ; S_NOTDISTINCTFROM; S_NOTEQ; S_DOUBLESTAR;
                 S_ADDASSIGN; S_REMASSIGN; S_ARROW])
  end.

Definition sym_pair_fuses (a b : N) : bool :=
  existsb (fun p => N.eqb a (fst p) && N.eqb b (snd p))
    [(S_PLUS, S_PLUS); (S_PLUS, S_DOUBLEPLUS); (S_PLUS, S_EQUALS); (S_PLUS, S_ADDASSIGN);
     (S_MINUS, S_RANGBRACKET); (S_MINUS, S_GREATEREQ); (S_MINUS, S_EQUALS);
     (S_STAR, S_STAR); (S_STAR, S_DOUBLESTAR); (S_SLASH, S_SLASH); (S_SLASH, S_DOUBLESLASH);
     (S_COLON, S_COLON); (S_COLON, S_EQUALS); (S_COLON, S_DOUBLECOLON); (S_COLON, S_ASSIGN);
     (S_DOT, S_LANGBRACKET); (S_DOT, S_LESSEQ);
     (S_LANGBRACKET, S_EQUALS); (S_RANGBRACKET, S_EQUALS)].

(* would the lexer read `a` immediately followed by `b` as something else than the two tokens? *)
Definition fuses (a b : tok) : bool :=
  match a, b with
  | TSym x, TSym y => (wordlike a && wordlike b) || sym_pair_fuses x y
  | _, TStr _ | _, TBytes _ => wordlike a          (* r'..' / b'..' prefixes, $tag$ *)
  | TStr _, _ | TBytes _, _ => false
  | TSym x, _ => (wordlike a && wordlike b) || (N.eqb x S_DOT && match b with TNum _ _ => true | _ => false end)
  | TNum _ _, TSym y => N.eqb y S_DOT || N.eqb y S_DOTBW || (wordlike a && wordlike b)     (* `1.` / `1.<` *)
  | _, _ => wordlike a && wordlike b
  end.

Fixpoint no_fuse (l : list item) : bool :=
  match l with
  | IT a :: ((IT b :: _) as r) => negb (fuses a b) && no_fuse r
  | _ :: r => no_fuse r
  | [] => true
  end.
