(* C01 -- the full statement is FALSE of the faithful model (hence of the printer): witnesses.

   Full statement:  for every tree the parser can produce, printing and re-parsing gives the same tree:
       C01_full := forall e, (exists ts, parse ts = Some e) -> parse (pp e) = Some e.
   Each witness below is a tree in the parser's image whose printed text parses to a DIFFERENT tree
   (or, for the last one, whose printed characters lex to different tokens).  The harness replays the same
   inputs on the real parser / printer (corpus: the REPLAYS of harness/props/c01.py). *)
From Coq Require Import List NArith Bool.
From Verif.C01 Require Import Gen_Grammar Model.
Import ListNotations.

Definition C01_full : Prop := forall e, (exists ts, parse ts = Some e) -> parse (pp e) = Some e.

Definition five := EConst (CNum KInt) 0 3%N.
Definition two := EConst (CNum KInt) 0 2%N.
Definition x := EPathRef None 0%N [].

(* (-5) ^ 2  prints  (-5 ^ 2)  =  -(5 ^ 2) *)
Definition w_neg_pow : expr := EBin 7%N (EConst (CNum KInt) 1 3%N) two.
Definition w_neg_pow_src : list tok :=
  [TSym S_LPAREN; TSym S_MINUS; TNum KInt 3%N; TSym S_RPAREN; TSym S_CIRCUMFLEX; TNum KInt 2%N].

Lemma w_neg_pow_image : parse w_neg_pow_src = Some w_neg_pow.
Proof. vm_compute. reflexivity. Qed.
Lemma w_neg_pow_back : parse (pp w_neg_pow) = Some (EUn UMinus (EBin 7%N five two)).
Proof. vm_compute. reflexivity. Qed.

Theorem C01_roundtrip_refuted : ~ C01_full.
Proof.
  intro H. specialize (H w_neg_pow (ex_intro _ w_neg_pow_src w_neg_pow_image)).
  rewrite w_neg_pow_back in H. discriminate H.
Qed.
Print Assumptions C01_roundtrip_refuted.

(* (NOT x) = 2  prints  (NOT (x) = 2)  =  NOT (x = 2) *)
Definition w_not_eq : expr := EBin 16%N (EUn UNot x) two.
Theorem C01_not_eq_refuted :
  parse [TSym S_LPAREN; TSym S_NOT; TId 0%N; TSym S_RPAREN; TSym S_EQUALS; TNum KInt 2%N] = Some w_not_eq /\
  parse (pp w_not_eq) = Some (EUn UNot (EBin 16%N x two)).
Proof. split; vm_compute; reflexivity. Qed.
Print Assumptions C01_not_eq_refuted.

(* (<T>x) {a}  prints  <T>x {a}  =  <T>(x {a}) *)
Definition w_shape_cast : expr := EShape (ECast false (TyName None 7%N) x) [(4%N, None)].
Theorem C01_shape_on_prefix_refuted :
  parse [TSym S_LPAREN; TSym S_LANGBRACKET; TId 7%N; TSym S_RANGBRACKET; TId 0%N; TSym S_RPAREN;
         TSym S_LBRACE; TId 4%N; TSym S_RBRACE] = Some w_shape_cast /\
  parse (pp w_shape_cast) = Some (ECast false (TyName None 7%N) (EShape x [(4%N, None)])).
Proof. split; vm_compute; reflexivity. Qed.
Print Assumptions C01_shape_on_prefix_refuted.

(* DETACHED (x.y)  prints  detached x.y  =  (DETACHED x).y *)
Definition w_detached : expr := EDetached (EPathRef None 0%N [SPtr false 1%N]).
Theorem C01_detached_postfix_refuted :
  parse [TSym S_DETACHED; TSym S_LPAREN; TId 0%N; TSym S_DOT; TId 1%N; TSym S_RPAREN] = Some w_detached /\
  parse (pp w_detached) = Some (EPathExpr (EDetached x) [SPtr false 1%N]).
Proof. split; vm_compute; reflexivity. Qed.
Print Assumptions C01_detached_postfix_refuted.

(* + +x  prints  ++x : the two printed characters are the concatenation operator *)
Definition w_plus_plus : expr := EUn UPlus (EUn UPlus x).
Theorem C01_lex_refuted :
  parse [TSym S_PLUS; TSym S_PLUS; TId 0%N] = Some w_plus_plus /\ wf w_plus_plus = true /\
  no_fuse (pp_items w_plus_plus) = false.
Proof. repeat split; vm_compute; reflexivity. Qed.
Print Assumptions C01_lex_refuted.
