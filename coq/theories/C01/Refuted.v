(* C01 -- what is still FALSE of the faithful model (hence of the printer) at this revision.

   Full statement:  for every tree the parser can produce, printing and re-parsing gives the same tree:
       C01_full := forall e, (exists ts, parse ts = Some e) -> parse (pp e) = Some e.
   The witnesses recorded here before the printer repairs ( (-5)^2, (NOT x) = 2, (<T>x){a}, DETACHED (x.y),
   + +x ) are gone: those trees are now inside [image] and covered by C01_roundtrip (Props.v, ex4).
   What remains is the DELIBERATE normalisation of the printer: a shape with no elements is printed as its
   subject (codegen.py: _skip_empty_shapes / visit_Shape).  The harness treats `x {}` == `x` as the documented
   normalisation N2 (and N2' for the path-flattening consequence below), so these are not findings; they
   are the exact reason the theorem is stated for [image] (no empty shape) and not for every parser output. *)
From Coq Require Import List NArith Bool.
From Verif.C01 Require Import Gen_Grammar Model.
Import ListNotations.

Definition C01_full : Prop := forall e, (exists ts, parse ts = Some e) -> parse (pp e) = Some e.

Definition x := EPathRef None 0%N [].

(* x {}  prints  x *)
Definition w_empty_shape : expr := EShape x [].
Definition w_empty_shape_src : list tok := [TId 0%N; TSym S_LBRACE; TSym S_RBRACE].

Lemma w_empty_shape_image : parse w_empty_shape_src = Some w_empty_shape.
Proof. vm_compute. reflexivity. Qed.
Lemma w_empty_shape_back : parse (pp w_empty_shape) = Some x.
Proof. vm_compute. reflexivity. Qed.

Theorem C01_roundtrip_refuted : ~ C01_full.
Proof.
  intro H. specialize (H w_empty_shape (ex_intro _ w_empty_shape_src w_empty_shape_image)).
  rewrite w_empty_shape_back in H. discriminate H.
Qed.
Print Assumptions C01_roundtrip_refuted.

(* consequence: (.a {}).b  prints  (.a).b  which is the single partial path  .a.b  *)
Definition w_empty_shape_path : expr := EPathExpr (EShape (EPathPartial [SPtr false 1%N]) []) [SPtr false 2%N].
Theorem C01_empty_shape_path_refuted :
  parse [TSym S_LPAREN; TSym S_DOT; TId 1%N; TSym S_LBRACE; TSym S_RBRACE; TSym S_RPAREN; TSym S_DOT; TId 2%N]
    = Some w_empty_shape_path /\
  parse (pp w_empty_shape_path) = Some (EPathPartial [SPtr false 1%N; SPtr false 2%N]).
Proof. split; vm_compute; reflexivity. Qed.
Print Assumptions C01_empty_shape_path_refuted.
