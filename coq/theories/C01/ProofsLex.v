(* C01 -- lexical stability: in the printed item stream of a well-formed tree no two tokens that the
   printer writes without white space between them can be read differently by the lexer
   (Model.fuses over-approximates "would fuse"; it is swept against the real lexer by the harness). *)
From Coq Require Import List NArith Bool Arith Lia.
From Verif.C01 Require Import Gen_Grammar Model ProofsBase Proofs.
Import ListNotations.

Definition firstI (l : list item) : option tok := match l with IT t :: _ => Some t | _ => None end.

Fixpoint lastI (l : list item) : option tok :=
  match l with
  | [] => None
  | x :: r => match r with
              | [] => match x with IT t => Some t | ISp => None end
              | _ :: _ => lastI r
              end
  end.

Definition bnd (a b : option tok) : bool :=
  match a, b with Some x, Some y => negb (fuses x y) | _, _ => true end.

Lemma no_fuse_app : forall a b, no_fuse (a ++ b) = no_fuse a && no_fuse b && bnd (lastI a) (firstI b).
Proof.
  induction a as [|x a IH]; intros b.
  - cbn. destruct (no_fuse b); reflexivity.
  - destruct a as [|y a].
    + cbn [app lastI]. destruct x as [t|].
      * destruct b as [|[u|] b]; cbn; rewrite ?andb_true_r; try reflexivity. apply andb_comm.
      * cbn. destruct (no_fuse b); reflexivity.
    + specialize (IH b). cbn [app] in *.
      assert (E : lastI (x :: y :: a) = lastI (y :: a)) by reflexivity. rewrite E.
      destruct x as [t|], y as [u|]; cbn [no_fuse] in *; rewrite ?IH; rewrite ?andb_assoc; reflexivity.
Qed.

Lemma firstI_app : forall a b t, firstI a = Some t -> firstI (a ++ b) = Some t.
Proof. intros [|[u|] a] b t H; try discriminate. exact H. Qed.

Lemma lastI_cons : forall x r, r <> [] -> lastI (x :: r) = lastI r.
Proof. intros x [|y r] H; [congruence|reflexivity]. Qed.

Lemma lastI_app : forall a b, b <> [] -> lastI (a ++ b) = lastI b.
Proof.
  induction a as [|x a IH]; intros b H; [reflexivity|].
  cbn [app]. rewrite lastI_cons; [apply IH; assumption|].
  destruct a; cbn; [assumption|discriminate].
Qed.

Lemma lastI_snoc : forall a t, lastI (a ++ [IT t]) = Some t.
Proof. intros. rewrite lastI_app by discriminate. reflexivity. Qed.

(* ------------------------------------------------------------------ token classes *)

Definition FIRSTSYMS : list N :=
  [S_LPAREN; S_LBRACKET; S_LBRACE; S_DOT; S_DOTBW; S_AT; S_MINUS; S_PLUS; S_NOT; S_EXISTS; S_DISTINCT; S_DETACHED;
   S_GLOBAL; S_LANGBRACKET; S_TRUE; S_FALSE].
Definition LASTSYMS : list N := [S_RPAREN; S_RBRACKET; S_RBRACE; S_TRUE; S_FALSE].

Definition fc (t : tok) : bool := match t with TSym s => existsb (N.eqb s) FIRSTSYMS | _ => true end.
Definition lc (t : tok) : bool := match t with TSym s => existsb (N.eqb s) LASTSYMS | _ => true end.
(* last token of a path head that is printed bare *)
Definition lcb (t : tok) : bool :=
  match t with TSym s => N.eqb s S_RPAREN || N.eqb s S_RBRACE | TParam _ => true | _ => false end.

Ltac in_syms H :=
  apply existsb_exists in H; destruct H as (y & Hin & Heq); apply N.eqb_eq in Heq; subst;
  cbn [In FIRSTSYMS LASTSYMS] in Hin; repeat (destruct Hin as [<-|Hin]); try contradiction.

Lemma fc_after : forall t, fc t = true ->
  fuses (TSym S_LPAREN) t = false /\ fuses (TSym S_LBRACKET) t = false /\ fuses (TSym S_LBRACE) t = false /\
  fuses (TSym S_COLON) t = false /\ fuses (TSym S_RANGBRACKET) t = false /\ fuses (TSym S_MINUS) t = false /\
  (t <> TSym S_PLUS -> fuses (TSym S_PLUS) t = false).
Proof.
  intros t H. destruct t; try (repeat split; reflexivity).
  cbn [fc] in H. in_syms H; repeat split; try reflexivity; intro Hne; try reflexivity; congruence.
Qed.

Lemma lc_before : forall t, lc t = true ->
  fuses t (TSym S_RPAREN) = false /\ fuses t (TSym S_RBRACKET) = false /\ fuses t (TSym S_RBRACE) = false /\
  fuses t (TSym S_COMMA) = false /\ fuses t (TSym S_COLON) = false.
Proof.
  intros t H. destruct t; try (repeat split; reflexivity).
  cbn [lc] in H. in_syms H; repeat split; reflexivity.
Qed.

Lemma lcb_before : forall t, lcb t = true ->
  fuses t (TSym S_DOT) = false /\ fuses t (TSym S_DOTBW) = false /\ fuses t (TSym S_AT) = false /\
  fuses t (TSym S_LBRACKET) = false.
Proof.
  intros t H. destruct t; try discriminate; try (repeat split; reflexivity).
  cbn [lcb] in H. apply orb_prop in H as [H|H]; apply N.eqb_eq in H; subst; repeat split; reflexivity.
Qed.

(* ------------------------------------------------------------------ composition lemmas *)

Lemma nf_cons : forall a l f, firstI l = Some f -> no_fuse (IT a :: l) = negb (fuses a f) && no_fuse l.
Proof. intros a [|[u|] l] f H; try discriminate. inversion H; subst. reflexivity. Qed.

Lemma nf_app_sp : forall x y, no_fuse (x ++ ISp :: y) = no_fuse x && no_fuse y.
Proof.
  intros. rewrite no_fuse_app. cbn [firstI no_fuse]. destruct (lastI x); cbn [bnd]; rewrite andb_true_r; reflexivity.
Qed.

Lemma nf_snoc : forall l z b, lastI l = Some z -> no_fuse (l ++ [IT b]) = no_fuse l && negb (fuses z b).
Proof. intros l z b H. rewrite no_fuse_app, H. cbn. rewrite andb_true_r. reflexivity. Qed.

Lemma nf_sym_items : forall ss, no_fuse (sym_items ss) = true.
Proof.
  unfold sym_items. induction ss as [|s r IH]; [reflexivity|]. cbn [sep_by].
  destruct r as [|s2 r]; [reflexivity|]. cbn [app]. unfold S at 1. cbn [no_fuse]. exact IH.
Qed.

Lemma nf_S_sp : forall s l, no_fuse (S s :: ISp :: l) = no_fuse l.
Proof. reflexivity. Qed.
Lemma firstI_S : forall s l, firstI (S s :: l) = Some (TSym s).
Proof. reflexivity. Qed.

Lemma nf_consS : forall s l f, firstI l = Some f -> no_fuse (S s :: l) = negb (fuses (TSym s) f) && no_fuse l.
Proof. intros. apply nf_cons. assumption. Qed.
Lemma nf_snocS : forall l z s, lastI l = Some z -> no_fuse (l ++ [S s]) = no_fuse l && negb (fuses z (TSym s)).
Proof. intros. apply nf_snoc. assumption. Qed.
Lemma lastI_snocS : forall l s, lastI (l ++ [S s]) = Some (TSym s).
Proof. intros. apply lastI_snoc. Qed.
Lemma firstI_cons_app : forall x l r, firstI ((x :: l) ++ r) = firstI (x :: l).
Proof. reflexivity. Qed.

Definition Good (FCp LCp : tok -> Prop) (l : list item) : Prop :=
  no_fuse l = true /\ (exists t, firstI l = Some t /\ FCp t) /\ (exists z, lastI l = Some z /\ LCp z).

Lemma good_nonempty : forall F L l, Good F L l -> l <> [].
Proof. intros F L l (_ & (t & H & _) & _) E. subst. discriminate. Qed.

Lemma comma_sep_good : forall A (f : A -> list item) (FCp LCp : tok -> Prop) l,
  Forall (fun x => Good FCp LCp (f x)) l ->
  (forall z, LCp z -> fuses z (TSym S_COMMA) = false) -> l <> [] ->
  Good FCp LCp (comma_sep f l).
Proof.
  intros A f FCp LCp l HF Hc Hne. unfold comma_sep. induction l as [|x r IH]; [congruence|].
  inversion HF as [|? ? Hx Hr]; subst. cbn [sep_by]. destruct r as [|y r]; [exact Hx|].
  specialize (IH Hr ltac:(discriminate)). destruct Hx as (Nx & (tx & Fx & FCx) & (zx & Lx & LCx)).
  destruct IH as (Nr & (tr & Fr & FCr) & (zr & Lr & LCr)).
  repeat split.
  - rewrite no_fuse_app, Nx, Lx. cbn [app]. rewrite nf_S_sp, firstI_S. cbn [bnd]. rewrite Nr, (Hc _ LCx). reflexivity.
  - exists tx. split; [apply firstI_app; assumption|assumption].
  - exists zr. split; [|assumption]. rewrite lastI_app by discriminate. cbn [app].
    rewrite !lastI_cons; [assumption| |discriminate].
    apply (good_nonempty FCp LCp). repeat split; eauto.
Qed.

(* ------------------------------------------------------------------ names, types, steps *)

Definition tyF (t : tok) : Prop := t = TSym S_LPAREN \/ exists i, t = TId i.
Definition tyL (t : tok) : Prop := t = TSym S_RPAREN \/ t = TSym S_RANGBRACKET \/ exists i, t = TId i.

Lemma name_good : forall m n, Good (fun t => exists i, t = TId i) (fun t => exists i, t = TId i) (pp_name m n).
Proof. intros [m|] n; repeat split; cbn; eauto. Qed.

Lemma tyL_comma : forall z, tyL z -> fuses z (TSym S_COMMA) = false.
Proof. intros z [->|[->|[i ->]]]; reflexivity. Qed.

Lemma type_good : forall t p, wf_type t = true -> Good tyF tyL (pp_type p t).
Proof.
  induction t as [m n|m n subs IH] using texpr_ind'; intros p Hwf.
  - cbn [pp_type]. destruct (name_good m n) as (N & (t & F & i & ->) & (z & L & j & ->)).
    repeat split; [assumption|exists (TId i); split; [assumption|right; eauto]|exists (TId j); split; [assumption|right; right; eauto]].
  - cbn [wf_type] in Hwf. apply andb_prop in Hwf as [Hne Hall].
    assert (HF : Forall (fun x => Good tyF tyL (pp_type false x)) subs).
    { clear Hne. induction subs as [|x r IHr]; [constructor|]. inversion IH; subst. apply andb_prop in Hall as [Hx Hr].
      constructor; [auto|apply IHr; assumption]. }
    assert (Hsubs : Good tyF tyL (comma_sep (fun x => pp_type false x) subs)).
    { apply comma_sep_good; [assumption|apply tyL_comma|destruct subs; [discriminate|discriminate]]. }
    destruct Hsubs as (Ns & (ts & Fs & FCs) & (zs & Ls & LCs)).
    destruct (name_good m n) as (Nn & (tn & Fn & i & ->) & (zn & Ln & j & ->)).
    cbn [pp_type].
    assert (E1 : fuses (TId j) (TSym S_LANGBRACKET) = false) by reflexivity.
    assert (E2 : fuses (TSym S_LANGBRACKET) ts = false) by (destruct FCs as [->|[k ->]]; reflexivity).
    assert (E3 : fuses zs (TSym S_RANGBRACKET) = false) by (destruct LCs as [->|[->|[k ->]]]; reflexivity).
    set (CS := comma_sep (fun x => pp_type false x) subs) in *.
    assert (Hcore : Good tyF tyL (pp_name m n ++ [S S_LANGBRACKET] ++ CS ++ [S S_RANGBRACKET])).
    { repeat split.
      - rewrite no_fuse_app, Nn, Ln. cbn [app].
        rewrite (nf_consS _ _ ts) by (apply firstI_app; assumption).
        rewrite (nf_snocS _ zs) by assumption. rewrite Ns, firstI_S. cbn [bnd]. rewrite E1, E2, E3. reflexivity.
      - exists (TId i). split; [apply firstI_app; assumption|right; eauto].
      - exists (TSym S_RANGBRACKET). split; [|right; left; reflexivity].
        rewrite lastI_app by discriminate. cbn [app]. rewrite lastI_cons by (destruct CS; discriminate).
        apply lastI_snocS. }
    destruct p; [|cbn [app]; exact Hcore].
    destruct Hcore as (Nc & (tc & Fc & FCc) & (zc & Lc & LCc)).
    set (CORE := pp_name m n ++ [S S_LANGBRACKET] ++ CS ++ [S S_RANGBRACKET]) in *.
    assert (Eq : [S S_LPAREN] ++ pp_name m n ++ [S S_LANGBRACKET] ++ CS ++ [S S_RANGBRACKET] ++ [S S_RPAREN]
                 = S S_LPAREN :: (CORE ++ [S S_RPAREN])).
    { unfold CORE. cbn [app]. rewrite <- !app_assoc. cbn [app]. rewrite <- !app_assoc. reflexivity. }
    rewrite Eq.
    assert (Ez : zc = TSym S_RANGBRACKET).
    { unfold CORE in Lc. rewrite lastI_app in Lc by discriminate. cbn [app] in Lc.
      rewrite lastI_cons in Lc by (destruct CS; discriminate). rewrite lastI_snocS in Lc. congruence. }
    repeat split.
    + rewrite (nf_consS _ _ tc) by (apply firstI_app; assumption).
      rewrite (nf_snocS _ zc) by assumption. rewrite Nc. subst zc.
      destruct FCc as [->|[k ->]]; reflexivity.
    + exists (TSym S_LPAREN). split; [reflexivity|left; reflexivity].
    + exists (TSym S_RPAREN). split; [|left; reflexivity].
      rewrite lastI_cons by (destruct CORE; discriminate). apply lastI_snocS.
Qed.

Definition stepF (t : tok) : Prop := t = TSym S_DOT \/ t = TSym S_DOTBW \/ t = TSym S_AT \/ t = TSym S_LBRACKET.
Definition stepL (t : tok) : Prop := t = TSym S_RBRACKET \/ exists i, t = TId i.

Lemma step_good : forall s, wf_step s = true -> Good stepF stepL (pp_step s).
Proof.
  intros s Hwf. destruct s as [bw n|n|t].
  - destruct bw; cbn [pp_step]; (split; [reflexivity|split; eexists; (split; [reflexivity|])]);
      unfold stepF, stepL; eauto.
  - cbn [pp_step]. (split; [reflexivity|split; eexists; (split; [reflexivity|])]); unfold stepF, stepL; eauto.
  - cbn [pp_step wf_step] in *.
    destruct (type_good t false Hwf) as (Nt & (ft & Ft & FCt) & (zt & Lt & LCt)).
    split; [|split].
    + cbn [app]. change (no_fuse (S S_LBRACKET :: S S_IS :: ISp :: pp_type false t ++ [S S_RBRACKET]))
        with (no_fuse (pp_type false t ++ [S S_RBRACKET])).
      rewrite (nf_snocS _ zt) by assumption. rewrite Nt. destruct LCt as [->|[->|[k ->]]]; reflexivity.
    + exists (TSym S_LBRACKET). split; [reflexivity|unfold stepF; auto].
    + exists (TSym S_RBRACKET). split; [|left; reflexivity].
      cbn [app]. rewrite !lastI_cons by (destruct (pp_type false t); discriminate). apply lastI_snocS.
Qed.

Lemma stepL_stepF : forall z t, stepL z -> stepF t -> fuses z t = false.
Proof.
  intros z t [->|[i ->]] [->|[->|[->| ->]]]; reflexivity.
Qed.

Lemma steps_good : forall ss, forallb wf_step ss = true -> ss <> [] -> Good stepF stepL (pp_steps ss).
Proof.
  induction ss as [|s r IH]; intros Hwf Hne; [congruence|].
  cbn [forallb] in Hwf. apply andb_prop in Hwf as [Hs Hr]. unfold pp_steps. cbn [flat_map].
  destruct (step_good s Hs) as (Ns & (fs & Fs & FCs) & (zs & Ls & LCs)).
  destruct r as [|s2 r]; [cbn [flat_map]; rewrite app_nil_r; repeat split; eauto|].
  destruct (IH Hr ltac:(discriminate)) as (Nr & (fr & Fr & FCr) & (zr & Lr & LCr)). fold (pp_steps (s2 :: r)) in *.
  repeat split.
  - rewrite no_fuse_app, Ns, Nr, Ls, Fr. cbn [bnd]. rewrite (stepL_stepF _ _ LCs FCr). reflexivity.
  - exists fs. split; [apply firstI_app; assumption|assumption].
  - exists zr. split; [|assumption]. rewrite lastI_app; [assumption|]. intro E. rewrite E in Fr. discriminate.
Qed.

(* ------------------------------------------------------------------ expressions *)

Definition Lex (e : expr) : Prop :=
  wf e = true ->
  no_fuse (pp_items e) = true /\
  (exists t, firstI (pp_items e) = Some t /\ fc t = true /\ (t = TSym S_PLUS -> is_uplus e = true)) /\
  (exists z, lastI (pp_items e) = Some z /\ lc z = true /\ (head_bare e = true -> lcb z = true)).

Definition FCe (t : tok) : Prop := fc t = true.
Definition LCe (z : tok) : Prop := lc z = true.

Lemma lex_good : forall e, Lex e -> wf e = true -> Good FCe LCe (pp_items e).
Proof.
  intros e H Hwf. destruct (H Hwf) as (N & (t & F & FC & _) & (z & L & LC & _)).
  repeat split; eauto.
Qed.

Lemma LCe_comma : forall z, LCe z -> fuses z (TSym S_COMMA) = false.
Proof. intros z H. apply lc_before in H. tauto. Qed.

Lemma stepF_fc : forall t, stepF t -> fc t = true /\ t <> TSym S_PLUS.
Proof. intros t [->|[->|[->| ->]]]; split; (reflexivity || discriminate). Qed.
Lemma stepL_lc : forall t, stepL t -> lc t = true.
Proof. intros t [->|[i ->]]; reflexivity. Qed.

Lemma lex_const : forall k n v, Lex (EConst k n v).
Proof.
  intros k n v Hwf. cbn [pp_items].
  assert (Hc : fc (const_tok k v) = true /\ lc (const_tok k v) = true /\ const_tok k v <> TSym S_PLUS /\
               fuses (TSym S_MINUS) (const_tok k v) = false).
  { destruct k; cbn [const_tok]; [| | |destruct (N.eqb v 0)]; repeat split; discriminate. }
  destruct Hc as (C1 & C2 & C3 & C4).
  induction n as [|n IH].
  - cbn [repeat app]. split; [reflexivity|split].
    + eexists. split; [reflexivity|]. split; [assumption|intro E; congruence].
    + eexists. split; [reflexivity|]. split; [assumption|intro E; discriminate].
  - assert (Hwf' : wf (EConst k n v) = true).
    { cbn [wf] in *. destruct k; try discriminate; reflexivity. }
    destruct (IH Hwf') as (N & (t & F & FC & _) & (z & L & LC & _)). cbn [repeat app].
    assert (Hm : fuses (TSym S_MINUS) t = false).
    { destruct n; cbn [repeat app firstI] in F; inversion F; subst; [assumption|reflexivity]. }
    split; [|split].
    + rewrite (nf_consS _ _ t) by assumption. rewrite Hm, N. reflexivity.
    + exists (TSym S_MINUS). split; [reflexivity|]. split; [reflexivity|intro E; discriminate].
    + exists z. split; [|split; [assumption|intro E; discriminate]].
      rewrite lastI_cons; [assumption|]. destruct n; discriminate.
Qed.

Lemma lex_param : forall i, Lex (EParam i).
Proof.
  intros i _. cbn [pp_items]. split; [reflexivity|split].
  - eexists. split; [reflexivity|]. split; [reflexivity|intro; discriminate].
  - eexists. split; [reflexivity|]. split; reflexivity.
Qed.

Lemma lex_pathref : forall m n ss, Lex (EPathRef m n ss).
Proof.
  intros m n ss Hwf. cbn [pp_items wf] in *.
  destruct (name_good m n) as (Nn & (tn & Fn & i & ->) & (zn & Ln & j & ->)).
  destruct ss as [|s ss].
  - unfold pp_steps. cbn [flat_map]. rewrite app_nil_r. split; [assumption|split].
    + exists (TId i). split; [assumption|]. split; [reflexivity|intro; discriminate].
    + exists (TId j). split; [assumption|]. split; [reflexivity|intro; discriminate].
  - destruct (steps_good (s :: ss) Hwf ltac:(discriminate)) as (Ns & (fs & Fs & FCs) & (zs & Ls & LCs)).
    split; [|split].
    + rewrite no_fuse_app, Nn, Ns, Ln, Fs. cbn [bnd].
      assert (E : fuses (TId j) fs = false) by (destruct FCs as [->|[->|[->| ->]]]; reflexivity). rewrite E. reflexivity.
    + exists (TId i). split; [apply firstI_app; assumption|]. split; [reflexivity|intro; discriminate].
    + exists zs. split; [|split; [apply stepL_lc; assumption|intro; discriminate]].
      rewrite lastI_app; [assumption|]. intro E. rewrite E in Fs. discriminate.
Qed.

Lemma lex_partial : forall ss, Lex (EPathPartial ss).
Proof.
  intros ss Hwf. cbn [pp_items wf] in *. apply andb_prop in Hwf as [Hh Hws].
  destruct ss as [|s ss]; [discriminate|].
  destruct (steps_good (s :: ss) Hws ltac:(discriminate)) as (Ns & (fs & Fs & FCs) & (zs & Ls & LCs)).
  destruct (stepF_fc _ FCs) as [F1 F2].
  split; [assumption|split].
  - exists fs. split; [assumption|]. split; [assumption|intro; contradiction].
  - exists zs. split; [assumption|]. split; [apply stepL_lc; assumption|intro; discriminate].
Qed.

Lemma nf_wrap : forall a b X f z, no_fuse X = true -> firstI X = Some f -> lastI X = Some z ->
  fuses (TSym a) f = false -> fuses z (TSym b) = false -> no_fuse (S a :: X ++ [S b]) = true.
Proof.
  intros a b X f z N F L Ha Hb. rewrite (nf_consS _ _ f) by (apply firstI_app; assumption).
  rewrite (nf_snocS _ z) by assumption. rewrite N, Ha, Hb. reflexivity.
Qed.

Lemma lastI_wrap : forall a X b, lastI (S a :: X ++ [S b]) = Some (TSym b).
Proof. intros. rewrite lastI_cons by (destruct X; discriminate). apply lastI_snocS. Qed.

Lemma nf_S_sp_S : forall a b l, no_fuse (S a :: ISp :: S b :: l) = no_fuse (S b :: l).
Proof. reflexivity. Qed.

Lemma uplus_not_bare : forall e, head_bare e = true -> is_uplus e = false.
Proof. intros e H. destruct e as [| | | | |[]| | | | | | | | | | |]; try reflexivity; discriminate. Qed.

Lemma lex_pathexpr : forall h ss, Lex h -> Lex (EPathExpr h ss).
Proof.
  intros h ss IH Hwf. cbn [wf] in *. apply andb_prop in Hwf as [Hwf Hws]. apply andb3 in Hwf as (Hwh & _ & Hne).
  destruct ss as [|s ss]; [discriminate|].
  destruct (IH Hwh) as (Nh & (fh & Fh & FCh & Uh) & (zh & Lh & LCh & Bh)).
  destruct (steps_good (s :: ss) Hws ltac:(discriminate)) as (Ns & (fs & Fs & FCs) & (zs & Ls & LCs)).
  assert (Hsne : pp_steps (s :: ss) <> []) by (intro E; rewrite E in Fs; discriminate).
  cbn [pp_items]. rewrite (head_bare_p_wf h Hwh). destruct (head_bare h) eqn:Hb.
  - specialize (Bh eq_refl). destruct (lcb_before _ Bh) as (B1 & B2 & B3 & B4).
    split; [|split].
    + rewrite no_fuse_app, Nh, Ns, Lh, Fs. cbn [bnd].
      assert (E : fuses zh fs = false) by (destruct FCs as [->|[->|[->| ->]]]; assumption). rewrite E. reflexivity.
    + exists fh. split; [apply firstI_app; assumption|]. split; [assumption|].
      intro E. specialize (Uh E). rewrite (uplus_not_bare _ Hb) in Uh. discriminate.
    + exists zs. split; [rewrite lastI_app; assumption|]. split; [apply stepL_lc; assumption|intro; discriminate].
  - destruct (fc_after _ FCh) as (A1 & _). destruct (lc_before _ LCh) as (C1 & _).
    split; [|split].
    + rewrite (no_fuse_app ([S S_LPAREN] ++ pp_items h ++ [S S_RPAREN])).
      change ([S S_LPAREN] ++ pp_items h ++ [S S_RPAREN]) with (S S_LPAREN :: pp_items h ++ [S S_RPAREN]).
      rewrite (nf_wrap _ _ _ fh zh) by assumption. rewrite Ns, lastI_wrap, Fs. cbn [bnd].
      assert (E : fuses (TSym S_RPAREN) fs = false) by (destruct FCs as [->|[->|[->| ->]]]; reflexivity). rewrite E. reflexivity.
    + exists (TSym S_LPAREN). split; [reflexivity|]. split; [reflexivity|intro; discriminate].
    + exists zs. split; [rewrite lastI_app; assumption|]. split; [apply stepL_lc; assumption|intro; discriminate].
Qed.

Lemma ne_first : forall (X : list item) t, firstI X = Some t -> X <> [].
Proof. intros X t H E. rewrite E in H. discriminate. Qed.

Lemma wrap_lex : forall b L f z, no_fuse L = true -> firstI L = Some f -> lastI L = Some z -> fc f = true -> lc z = true ->
  no_fuse (wrap_if b L) = true /\
  (exists f', firstI (wrap_if b L) = Some f' /\ fc f' = true /\ (f' = TSym S_PLUS -> b = false /\ f = TSym S_PLUS)) /\
  (exists z', lastI (wrap_if b L) = Some z' /\ lc z' = true).
Proof.
  intros b L f z N F La FC LC. destruct b; unfold wrap_if.
  - destruct (fc_after _ FC) as (A1 & _). destruct (lc_before _ LC) as (C1 & _). cbn [app]. split; [|split].
    + apply (nf_wrap _ _ _ f z); assumption.
    + exists (TSym S_LPAREN). split; [reflexivity|]. split; [reflexivity|intro; discriminate].
    + exists (TSym S_RPAREN). split; [apply lastI_wrap|reflexivity].
  - split; [assumption|split]; [exists f|exists z]; auto.
Qed.

Lemma lex_un : forall o x, Lex x -> Lex (EUn o x).
Proof.
  intros o x IH Hwf. cbn [wf] in *. apply andb3 in Hwf as (Hwx & _ & _).
  destruct (IH Hwx) as (Nx & (fx & Fx & FCx & Ux) & (zx & Lx & LCx & _)).
  destruct (fc_after _ FCx) as (A1 & _ & _ & _ & _ & A6 & A7). destruct (lc_before _ LCx) as (C1 & _).
  pose proof (ne_first _ _ Fx) as Hne.
  cbn [pp_items]. destruct o; cbn [un_word un_sym] in *.
  - (* + *)
    destruct (is_uplus x) eqn:Eu; cbn [app].
    + split; [|split].
      * rewrite nf_S_sp. assumption.
      * exists (TSym S_PLUS). split; [reflexivity|]. split; reflexivity.
      * exists zx. split; [|split; [assumption|intro; discriminate]]. rewrite !lastI_cons by (assumption || discriminate). assumption.
    + assert (Hp : fx <> TSym S_PLUS) by (intro E; specialize (Ux E); congruence).
      split; [|split].
      * rewrite (nf_consS _ _ fx) by assumption. rewrite (A7 Hp), Nx. reflexivity.
      * exists (TSym S_PLUS). split; [reflexivity|]. split; reflexivity.
      * exists zx. split; [|split; [assumption|intro; discriminate]]. rewrite lastI_cons by assumption. assumption.
  - (* - *)
    split; [|split].
    + cbn [app]. rewrite (nf_consS _ _ fx) by assumption. rewrite A6, Nx. reflexivity.
    + exists (TSym S_MINUS). split; [reflexivity|]. split; [reflexivity|intro; discriminate].
    + exists zx. split; [|split; [assumption|intro; discriminate]]. cbn [app]. rewrite lastI_cons by assumption. assumption.
  - split; [|split].
    + cbn [app]. rewrite nf_S_sp_S. apply (nf_wrap _ _ _ fx zx); assumption.
    + exists (TSym S_NOT). split; [reflexivity|]. split; [reflexivity|intro; discriminate].
    + exists (TSym S_RPAREN). split; [|split; [reflexivity|intro; discriminate]].
      cbn [app]. rewrite !lastI_cons by discriminate. apply lastI_wrap.
  - split; [|split].
    + cbn [app]. rewrite nf_S_sp_S. apply (nf_wrap _ _ _ fx zx); assumption.
    + exists (TSym S_EXISTS). split; [reflexivity|]. split; [reflexivity|intro; discriminate].
    + exists (TSym S_RPAREN). split; [|split; [reflexivity|intro; discriminate]].
      cbn [app]. rewrite !lastI_cons by discriminate. apply lastI_wrap.
  - split; [|split].
    + cbn [app]. rewrite nf_S_sp_S. apply (nf_wrap _ _ _ fx zx); assumption.
    + exists (TSym S_DISTINCT). split; [reflexivity|]. split; [reflexivity|intro; discriminate].
    + exists (TSym S_RPAREN). split; [|split; [reflexivity|intro; discriminate]].
      cbn [app]. rewrite !lastI_cons by discriminate. apply lastI_wrap.
Qed.

Ltac lex_first s := exists (TSym s); split; [reflexivity|]; split; [reflexivity|intro; discriminate].
Ltac lex_last_rparen :=
  exists (TSym S_RPAREN); split; [|split; [reflexivity|intro; discriminate]].

Lemma lex_bin : forall o l r, Lex l -> Lex r -> Lex (EBin o l r).
Proof.
  intros o l r IHl IHr Hwf. cbn [wf] in *. apply andb3 in Hwf as (Hwl & Hwr & _).
  destruct (IHl Hwl) as (Nl0 & (fl0 & Fl0 & FCl0 & _) & (zl0 & Ll0 & LCl0 & _)).
  destruct (wrap_lex (swallows (LBin o) l) _ _ _ Nl0 Fl0 Ll0 FCl0 LCl0) as (Nl & (fl & Fl & FCl & _) & (zl & Ll & LCl)).
  set (W := wrap_if (swallows (LBin o) l) (pp_items l)) in *.
  destruct (IHr Hwr) as (Nr & (fr & Fr & FCr & _) & (zr & Lr & LCr & _)).
  destruct (fc_after _ FCl) as (A1 & _). destruct (lc_before _ LCr) as (C1 & _).
  cbn [pp_items]. fold W. split; [|split].
  - cbn [app]. rewrite (nf_consS _ _ fl) by (apply firstI_app; assumption).
    rewrite nf_app_sp, Nl, A1. cbn [negb andb].
    rewrite nf_app_sp, nf_sym_items. rewrite (nf_snocS _ zr) by assumption. rewrite Nr, C1. reflexivity.
  - lex_first S_LPAREN.
  - lex_last_rparen. cbn [app]. rewrite lastI_cons by (destruct W; discriminate).
    rewrite lastI_app by discriminate. cbn [app]. rewrite lastI_cons by (destruct (sym_items (op_syms o)); discriminate).
    rewrite lastI_app by discriminate. cbn [app]. rewrite lastI_cons by (destruct (pp_items r); discriminate).
    apply lastI_snocS.
Qed.

Lemma lex_is : forall neg l t, Lex l -> Lex (EIs neg l t).
Proof.
  intros neg l t IHl Hwf. cbn [wf] in *. apply andb3 in Hwf as (Hwl & Hwt & _).
  destruct (IHl Hwl) as (Nl0 & (fl0 & Fl0 & FCl0 & _) & (zl0 & Ll0 & LCl0 & _)).
  destruct (wrap_lex (swallows LIs l) _ _ _ Nl0 Fl0 Ll0 FCl0 LCl0) as (Nl & (fl & Fl & FCl & _) & (zl & Ll & LCl)).
  set (W := wrap_if (swallows LIs l) (pp_items l)) in *.
  destruct (type_good t true Hwt) as (Nt & (ft & Ft & FCt) & (zt & Lt & LCt)).
  destruct (fc_after _ FCl) as (A1 & _).
  assert (C1 : fuses zt (TSym S_RPAREN) = false) by (destruct LCt as [->|[->|[k ->]]]; reflexivity).
  cbn [pp_items]. fold W. split; [|split].
  - cbn [app]. rewrite (nf_consS _ _ fl) by (apply firstI_app; assumption).
    rewrite nf_app_sp, Nl, A1. cbn [negb andb].
    destruct neg; cbn [app]; rewrite ?nf_S_sp_S; rewrite nf_S_sp; rewrite (nf_snocS _ zt) by assumption; rewrite Nt, C1; reflexivity.
  - lex_first S_LPAREN.
  - lex_last_rparen. cbn [app]. rewrite lastI_cons by (destruct W; discriminate).
    rewrite lastI_app by discriminate. destruct neg; cbn [app]; rewrite !lastI_cons by (try discriminate; destruct (pp_type true t); discriminate);
      apply lastI_snocS.
Qed.

Lemma lex_if : forall py c a b, Lex c -> Lex a -> Lex b -> Lex (EIf py c a b).
Proof.
  intros py c a b IHc IHa IHb Hwf.
  assert (Hw : wf c = true /\ wf a = true /\ wf b = true).
  { cbn [wf] in Hwf. destruct py.
    - apply andb_prop in Hwf as [Hwf _]. apply andb_prop in Hwf as [Hwf _]. apply andb3 in Hwf. exact Hwf.
    - apply andb_prop in Hwf as [Hwf _]. apply andb3 in Hwf. exact Hwf. }
  destruct Hw as (Hwc & Hwa & Hwb).
  destruct (IHc Hwc) as (Nc & (fc' & Fc & FCc & _) & (zc & Lc & LCc & _)).
  destruct (IHa Hwa) as (Na & (fa & Fa & FCa & _) & (za & La & LCa & _)).
  destruct (IHb Hwb) as (Nb & (fb & Fb & FCb & _) & (zb & Lb & LCb & _)).
  destruct (lc_before _ LCb) as (C1 & _).
  cbn [pp_items]. destruct py.
  - destruct (fc_after _ FCa) as (A1 & _). split; [|split].
    + cbn [app]. rewrite (nf_consS _ _ fa) by (apply firstI_app; assumption).
      rewrite nf_app_sp, Na, A1. cbn [negb andb app]. rewrite nf_S_sp.
      rewrite nf_app_sp, Nc. cbn [andb app]. rewrite nf_S_sp. rewrite (nf_snocS _ zb) by assumption. rewrite Nb, C1. reflexivity.
    + lex_first S_LPAREN.
    + lex_last_rparen. cbn [app]. rewrite lastI_cons by (destruct (pp_items a); discriminate).
      rewrite lastI_app by discriminate. cbn [app]. rewrite !lastI_cons by (try discriminate; destruct (pp_items c); discriminate).
      rewrite lastI_app by discriminate. cbn [app]. rewrite !lastI_cons by (try discriminate; destruct (pp_items b); discriminate).
      apply lastI_snocS.
  - split; [|split].
    + cbn [app]. change (no_fuse (S S_LPAREN :: S S_IF :: ISp :: pp_items c ++ ISp :: S S_THEN :: ISp :: pp_items a ++ ISp :: S S_ELSE :: ISp :: pp_items b ++ [S S_RPAREN]))
        with (no_fuse (pp_items c ++ ISp :: S S_THEN :: ISp :: pp_items a ++ ISp :: S S_ELSE :: ISp :: pp_items b ++ [S S_RPAREN])).
      rewrite nf_app_sp, Nc. cbn [andb]. rewrite nf_S_sp. rewrite nf_app_sp, Na. cbn [andb]. rewrite nf_S_sp.
      rewrite (nf_snocS _ zb) by assumption. rewrite Nb, C1. reflexivity.
    + lex_first S_LPAREN.
    + lex_last_rparen. cbn [app]. rewrite !lastI_cons by (try discriminate; destruct (pp_items c); discriminate).
      rewrite lastI_app by discriminate. rewrite !lastI_cons by (try discriminate; destruct (pp_items a); discriminate).
      rewrite lastI_app by discriminate. rewrite !lastI_cons by (try discriminate; destruct (pp_items b); discriminate).
      apply lastI_snocS.
Qed.

Lemma lex_detached : forall x, Lex x -> Lex (EDetached x).
Proof.
  intros x IH Hwf. cbn [wf] in *. apply andb_prop in Hwf as [Hwx _].
  destruct (IH Hwx) as (Nx0 & (fx0 & Fx0 & FCx0 & _) & (zx0 & Lx0 & LCx0 & _)).
  destruct (wrap_lex (det_paren x) _ _ _ Nx0 Fx0 Lx0 FCx0 LCx0) as (Nx & (fx & Fx & FCx & _) & (zx & Lx & LCx)).
  cbn [pp_items app]. split; [|split].
  - rewrite nf_S_sp. assumption.
  - lex_first S_DETACHED.
  - exists zx. split; [|split; [assumption|intro; discriminate]].
    rewrite !lastI_cons; [assumption|apply (ne_first _ _ Fx)|discriminate].
Qed.

Lemma lex_global : forall m n, Lex (EGlobal m n).
Proof.
  intros m n _. cbn [pp_items app].
  destruct (name_good m n) as (Nn & (tn & Fn & i & ->) & (zn & Ln & j & ->)).
  split; [|split].
  - rewrite nf_S_sp. assumption.
  - lex_first S_GLOBAL.
  - exists (TId j). split; [|split; [reflexivity|intro; discriminate]].
    rewrite !lastI_cons; [assumption|apply (ne_first _ _ Fn)|discriminate].
Qed.

Lemma lex_cast : forall cm t x, Lex x -> Lex (ECast cm t x).
Proof.
  intros cm t x IH Hwf. cbn [wf] in *. apply andb3 in Hwf as (Hwt & Hwx & _).
  destruct (IH Hwx) as (Nx & (fx & Fx & FCx & _) & (zx & Lx & LCx & _)).
  destruct (type_good t false Hwt) as (Nt & (ft & Ft & FCt) & (zt & Lt & LCt)).
  destruct (fc_after _ FCx) as (_ & _ & _ & _ & A5 & _).
  assert (T1 : fuses (TSym S_LANGBRACKET) ft = false) by (destruct FCt as [->|[k ->]]; reflexivity).
  assert (T2 : fuses zt (TSym S_RANGBRACKET) = false) by (destruct LCt as [->|[->|[k ->]]]; reflexivity).
  assert (Hcore : no_fuse (pp_type false t ++ S S_RANGBRACKET :: pp_items x) = true).
  { rewrite no_fuse_app, Nt, Lt. rewrite (nf_consS _ _ fx) by assumption. rewrite firstI_S. cbn [bnd].
    rewrite A5, Nx, T2. reflexivity. }
  cbn [pp_items]. split; [|split].
  - destruct cm; cbn [app].
    + rewrite (nf_consS _ _ ft) by (apply firstI_app; assumption). rewrite T1, Hcore. reflexivity.
    + change (no_fuse (S S_LANGBRACKET :: S S_OPTIONAL :: ISp :: pp_type false t ++ S S_RANGBRACKET :: pp_items x))
        with (no_fuse (pp_type false t ++ S S_RANGBRACKET :: pp_items x)). exact Hcore.
    + change (no_fuse (S S_LANGBRACKET :: S S_REQUIRED :: ISp :: pp_type false t ++ S S_RANGBRACKET :: pp_items x))
        with (no_fuse (pp_type false t ++ S S_RANGBRACKET :: pp_items x)). exact Hcore.
  - lex_first S_LANGBRACKET.
  - exists zx. split; [|split; [assumption|intro; discriminate]].
    pose proof (ne_first _ _ Fx) as Hx.
    destruct cm; cbn [app]; rewrite !lastI_cons by (try discriminate; destruct (pp_type false t); discriminate);
      rewrite lastI_app by discriminate; cbn [app]; rewrite lastI_cons by assumption; assumption.
Qed.

(* ------------------------------------------------------------------ lists *)

Lemma good_list : forall es, Forall Lex es -> forallb wf es = true ->
  Forall (fun x => Good FCe LCe (pp_items x)) es.
Proof.
  induction es as [|x r IH]; intros HL Hw; [constructor|].
  inversion HL; subst. cbn [forallb] in *. apply andb_prop in Hw as [Hwx Hwr].
  constructor; [apply lex_good; assumption|apply IH; assumption].
Qed.

Lemma field_good : forall n x, Good FCe LCe (pp_items x) -> Good FCe LCe (pp_field (fun x => pp_items x) (n, x)).
Proof.
  intros n x (Nx & (fx & Fx & FCx) & (zx & Lx & LCx)). cbn [pp_field app]. split; [|split].
  - change (no_fuse (IT (TId n) :: ISp :: S S_ASSIGN :: ISp :: pp_items x)) with (no_fuse (pp_items x)). assumption.
  - exists (TId n). split; reflexivity.
  - exists zx. split; [|assumption]. rewrite !lastI_cons; [assumption|apply (ne_first _ _ Fx)|discriminate|discriminate|discriminate].
Qed.

Lemma good_fields : forall fs, Forall (fun p => Lex (snd p)) fs -> forallb (fun p => wf (snd p)) fs = true ->
  Forall (fun p => Good FCe LCe (pp_field (fun x => pp_items x) p)) fs.
Proof.
  induction fs as [|[n x] r IH]; intros HL Hw; [constructor|].
  inversion HL; subst. cbn [forallb snd] in *. apply andb_prop in Hw as [Hwx Hwr].
  constructor; [apply field_good; apply lex_good; assumption|apply IH; assumption].
Qed.

Lemma lex_seq : forall sk es, Forall Lex es -> Lex (ESeq sk es).
Proof.
  intros sk es HL Hwf. rewrite wf_seq_forallb in Hwf.
  pose proof (good_list es HL Hwf) as HG. cbn [pp_items].
  destruct es as [|x r].
  - unfold comma_sep. cbn [sep_by]. destruct sk; cbn [app]; (split; [reflexivity|split]);
      try (lex_first S_LPAREN); try (lex_first S_LBRACKET); try (lex_first S_LBRACE);
      eexists; (split; [reflexivity|split; [reflexivity|intro; try reflexivity; discriminate]]).
  - destruct (comma_sep_good _ (fun x => pp_items x) FCe LCe (x :: r) HG LCe_comma ltac:(discriminate))
      as (Nc & (f & F & FC) & (z & L & LC)).
    set (CS := comma_sep (fun x => pp_items x) (x :: r)) in *.
    destruct (fc_after _ FC) as (A1 & A2 & A3 & _). destruct (lc_before _ LC) as (C1 & C2 & C3 & C4 & _).
    destruct sk.
    + destruct r as [|y r].
      * split; [|split].
        -- cbn [app]. rewrite (nf_consS _ _ f) by (apply firstI_app; assumption). rewrite A1. cbn [negb andb].
           rewrite no_fuse_app, Nc, L. cbn. rewrite C4. reflexivity.
        -- lex_first S_LPAREN.
        -- exists (TSym S_RPAREN). split; [|split; reflexivity].
           cbn [app]. rewrite lastI_cons by (destruct CS; discriminate). rewrite lastI_app by discriminate. reflexivity.
      * split; [|split].
        -- cbn [app]. apply (nf_wrap _ _ _ f z); assumption.
        -- lex_first S_LPAREN.
        -- exists (TSym S_RPAREN). split; [|split; reflexivity]. cbn [app]. apply lastI_wrap.
    + split; [|split].
      * cbn [app]. apply (nf_wrap _ _ _ f z); assumption.
      * lex_first S_LBRACKET.
      * exists (TSym S_RBRACKET). split; [|split; [reflexivity|intro; discriminate]]. cbn [app]. apply lastI_wrap.
    + split; [|split].
      * cbn [app]. apply (nf_wrap _ _ _ f z); assumption.
      * lex_first S_LBRACE.
      * exists (TSym S_RBRACE). split; [|split; reflexivity]. cbn [app]. apply lastI_wrap.
Qed.

Lemma lex_named : forall fs, Forall (fun p => Lex (snd p)) fs -> Lex (ENamedTuple fs).
Proof.
  intros fs HL Hwf. cbn [wf] in *. apply andb_prop in Hwf as [Hne Hwf]. rewrite wf_fields in Hwf.
  pose proof (good_fields fs HL Hwf) as HG.
  destruct fs as [|p r]; [discriminate|].
  destruct (comma_sep_good _ (pp_field (fun x => pp_items x)) FCe LCe (p :: r) HG LCe_comma ltac:(discriminate))
    as (Nc & (f & F & FC) & (z & L & LC)).
  cbn [pp_items app]. split; [|split].
  - rewrite nf_S_sp. rewrite nf_app_sp, Nc. reflexivity.
  - lex_first S_LPAREN.
  - exists (TSym S_RPAREN). split; [|split; reflexivity].
    rewrite !lastI_cons by (try discriminate; destruct (comma_sep (pp_field (fun x => pp_items x)) (p :: r)); discriminate).
    rewrite lastI_app by discriminate. reflexivity.
Qed.

Lemma lex_call : forall m fn args kw, Forall Lex args -> Forall (fun p => Lex (snd p)) kw -> Lex (ECall m fn args kw).
Proof.
  intros m fn args kw HLa HLk Hwf. cbn [wf] in *. apply andb3 in Hwf as (Hwa & Hwk & _).
  rewrite wf_list_forallb in Hwa. rewrite wf_fields in Hwk.
  pose proof (good_list args HLa Hwa) as HGa. pose proof (good_fields kw HLk Hwk) as HGk.
  destruct (name_good m fn) as (Nn & (tn & Fn & i & ->) & (zn & Ln & j & ->)).
  set (CSa := comma_sep (fun x => pp_items x) args).
  set (CSk := comma_sep (pp_field (fun x => pp_items x)) kw).
  set (SEP := match args, kw with _ :: _, _ :: _ => [S S_COMMA; ISp] | _, _ => [] end).
  assert (HB : (args = [] /\ kw = [] /\ CSa ++ SEP ++ CSk = []) \/ Good FCe LCe (CSa ++ SEP ++ CSk)).
  { destruct args as [|a ar], kw as [|k kr].
    - left. repeat split.
    - right. unfold CSa, SEP. cbn [comma_sep sep_by app]. apply comma_sep_good; [assumption|apply LCe_comma|discriminate].
    - right. unfold CSk, SEP. cbn [comma_sep sep_by app]. rewrite app_nil_r.
      apply comma_sep_good; [assumption|apply LCe_comma|discriminate].
    - right.
      destruct (comma_sep_good _ (fun x => pp_items x) FCe LCe (a :: ar) HGa LCe_comma ltac:(discriminate)) as (N1 & (f1 & F1 & FC1) & (z1 & L1 & LC1)).
      destruct (comma_sep_good _ (pp_field (fun x => pp_items x)) FCe LCe (k :: kr) HGk LCe_comma ltac:(discriminate)) as (N2 & (f2 & F2 & FC2) & (z2 & L2 & LC2)).
      fold CSa in N1, F1, L1. fold CSk in N2, F2, L2. unfold SEP. split; [|split].
      + rewrite no_fuse_app, N1, L1. cbn [app]. rewrite nf_S_sp, firstI_S, N2. cbn [bnd]. rewrite (LCe_comma _ LC1). reflexivity.
      + exists f1. split; [apply firstI_app; assumption|assumption].
      + exists z2. split; [|assumption]. rewrite lastI_app by discriminate. cbn [app].
        rewrite !lastI_cons; [assumption|apply (ne_first _ _ F2)|discriminate]. }
  cbn [pp_items]. fold CSa CSk SEP.
  assert (Eq : pp_name m fn ++ [S S_LPAREN] ++ CSa ++ SEP ++ CSk ++ [S S_RPAREN] =
               pp_name m fn ++ S S_LPAREN :: (CSa ++ SEP ++ CSk) ++ [S S_RPAREN]).
  { cbn [app]. rewrite <- !app_assoc. reflexivity. }
  rewrite Eq. clear Eq.
  destruct HB as [(Ea & Ek & E0)|(Nb & (fb & Fb & FCb) & (zb & Lb & LCb))].
  - rewrite E0. cbn [app]. split; [|split].
    + rewrite no_fuse_app, Nn, Ln. reflexivity.
    + exists (TId i). split; [apply firstI_app; assumption|]. split; [reflexivity|intro; discriminate].
    + exists (TSym S_RPAREN). split; [|split; [reflexivity|intro; discriminate]]. rewrite lastI_app by discriminate. reflexivity.
  - destruct (fc_after _ FCb) as (A1 & _). destruct (lc_before _ LCb) as (C1 & _).
    split; [|split].
    + rewrite no_fuse_app, Nn, Ln. rewrite (nf_wrap _ _ _ fb zb) by assumption. rewrite firstI_S. reflexivity.
    + exists (TId i). split; [apply firstI_app; assumption|]. split; [reflexivity|intro; discriminate].
    + exists (TSym S_RPAREN). split; [|split; [reflexivity|intro; discriminate]].
      rewrite lastI_app by discriminate. apply lastI_wrap.
Qed.

(* indirection *)
Definition IxGood (l : list item) : Prop :=
  no_fuse l = true /\ firstI l = Some (TSym S_LBRACKET) /\ lastI l = Some (TSym S_RBRACKET).

Lemma ix_good : forall sl a b, optP Lex a -> optP Lex b -> wf_ix (sl, a, b) = true ->
  IxGood (pp_ix (fun x => pp_items x) (sl, a, b)).
Proof.
  intros sl a b Ma Mb Hwf. unfold wf_ix in Hwf. apply andb3 in Hwf as (Hwa & Hwb & Hshape).
  cbn [pp_ix].
  assert (GA : forall x, a = Some x -> Good FCe LCe (pp_items x)).
  { intros x ->. apply lex_good; assumption. }
  assert (GB : forall x, b = Some x -> Good FCe LCe (pp_items x)).
  { intros x ->. apply lex_good; assumption. }
  destruct sl, a as [xa|], b as [xb|]; try discriminate; cbn [pp_opt app].
  - destruct (GA xa eq_refl) as (N1 & (f1 & F1 & FC1) & (z1 & L1 & LC1)).
    destruct (GB xb eq_refl) as (N2 & (f2 & F2 & FC2) & (z2 & L2 & LC2)).
    destruct (fc_after _ FC1) as (_ & A2 & _). destruct (fc_after _ FC2) as (_ & _ & _ & A4 & _).
    destruct (lc_before _ LC1) as (_ & _ & _ & _ & C5). destruct (lc_before _ LC2) as (_ & C2 & _).
    split; [|split].
    + rewrite (nf_consS _ _ f1) by (apply firstI_app; assumption). rewrite A2. cbn [negb andb].
      rewrite no_fuse_app, N1, L1. rewrite (nf_consS _ _ f2) by (apply firstI_app; assumption).
      rewrite (nf_snocS _ z2) by assumption. rewrite firstI_S, A4, N2, C2. cbn [bnd]. rewrite C5. reflexivity.
    + reflexivity.
    + rewrite lastI_cons by (destruct (pp_items xa); discriminate). rewrite lastI_app by discriminate.
      rewrite lastI_cons by (destruct (pp_items xb); discriminate). apply lastI_snocS.
  - destruct (GA xa eq_refl) as (N1 & (f1 & F1 & FC1) & (z1 & L1 & LC1)).
    destruct (fc_after _ FC1) as (_ & A2 & _). destruct (lc_before _ LC1) as (_ & _ & _ & _ & C5).
    split; [|split].
    + rewrite (nf_consS _ _ f1) by (apply firstI_app; assumption). rewrite A2. cbn [negb andb].
      rewrite no_fuse_app, N1, L1. cbn. rewrite C5. reflexivity.
    + reflexivity.
    + rewrite lastI_cons by (destruct (pp_items xa); discriminate). rewrite lastI_app by discriminate. reflexivity.
  - destruct (GB xb eq_refl) as (N2 & (f2 & F2 & FC2) & (z2 & L2 & LC2)).
    destruct (fc_after _ FC2) as (_ & _ & _ & A4 & _). destruct (lc_before _ LC2) as (_ & C2 & _).
    split; [|split].
    + change (no_fuse (S S_LBRACKET :: S S_COLON :: pp_items xb ++ [S S_RBRACKET]))
        with (negb (fuses (TSym S_LBRACKET) (TSym S_COLON)) && no_fuse (S S_COLON :: pp_items xb ++ [S S_RBRACKET])).
      rewrite (nf_consS _ _ f2) by (apply firstI_app; assumption). rewrite (nf_snocS _ z2) by assumption.
      rewrite A4, N2, C2. reflexivity.
    + reflexivity.
    + rewrite !lastI_cons by (try discriminate; destruct (pp_items xb); discriminate). apply lastI_snocS.
  - destruct (GA xa eq_refl) as (N1 & (f1 & F1 & FC1) & (z1 & L1 & LC1)).
    destruct (fc_after _ FC1) as (_ & A2 & _). destruct (lc_before _ LC1) as (_ & C2 & _).
    split; [|split].
    + apply (nf_wrap _ _ _ f1 z1); assumption.
    + reflexivity.
    + apply lastI_wrap.
Qed.

Lemma ixs_good : forall ixs, Forall (fun t => optP Lex (snd (fst t)) /\ optP Lex (snd t)) ixs ->
  forallb wf_ix ixs = true -> ixs <> [] ->
  IxGood (flat_map (pp_ix (fun x => pp_items x)) ixs).
Proof.
  induction ixs as [|[[sl a] b] r IH]; intros HL Hw Hne; [congruence|].
  inversion HL as [|? ? [Ma Mb] HLr]; subst. cbn [fst snd] in Ma, Mb.
  cbn [forallb fst snd] in *. apply andb_prop in Hw as [Hw1 Hwr].
  destruct (ix_good sl a b Ma Mb Hw1) as (N1 & F1 & L1). cbn [flat_map].
  destruct r as [|ix2 r]; [cbn [flat_map]; rewrite app_nil_r; repeat split; assumption|].
  destruct (IH HLr Hwr ltac:(discriminate)) as (N2 & F2 & L2).
  split; [|split].
  - rewrite no_fuse_app, N1, N2, L1, F2. reflexivity.
  - apply firstI_app; assumption.
  - rewrite lastI_app; [assumption|]. apply (ne_first _ _ F2).
Qed.

Lemma lex_indir : forall x ixs, Lex x -> Forall (fun t => optP Lex (snd (fst t)) /\ optP Lex (snd t)) ixs -> Lex (EIndir x ixs).
Proof.
  intros x ixs IH HL Hwf. cbn [wf] in *. apply andb_prop in Hwf as [Hwf Hwi]. apply andb3 in Hwf as (Hwx & _ & Hne).
  rewrite wf_ixs in Hwi.
  destruct ixs as [|ix ixs]; [discriminate|].
  destruct (IH Hwx) as (Nx & (fx & Fx & FCx & _) & (zx & Lx & LCx & _)).
  destruct (ixs_good (ix :: ixs) HL Hwi ltac:(discriminate)) as (Ni & Fi & Li).
  destruct (fc_after _ FCx) as (A1 & _). destruct (lc_before _ LCx) as (C1 & _).
  cbn [pp_items].
  assert (Eq : [S S_LPAREN] ++ pp_items x ++ [S S_RPAREN] ++ flat_map (pp_ix (fun x => pp_items x)) (ix :: ixs) =
               (S S_LPAREN :: pp_items x ++ [S S_RPAREN]) ++ flat_map (pp_ix (fun x => pp_items x)) (ix :: ixs)).
  { cbn [app]. rewrite <- app_assoc. reflexivity. }
  rewrite Eq. clear Eq. split; [|split].
  - rewrite no_fuse_app. rewrite (nf_wrap _ _ _ fx zx) by assumption. rewrite Ni, lastI_wrap, Fi. reflexivity.
  - lex_first S_LPAREN.
  - exists (TSym S_RBRACKET). split; [|split; [reflexivity|intro; discriminate]].
    rewrite lastI_app; [assumption|]. apply (ne_first _ _ Fi).
Qed.

(* shapes *)
Lemma good_els : forall els, Forall (fun p => optP Lex (snd p)) els ->
  forallb (fun p => match snd p with Some y => wf y | None => true end) els = true ->
  Forall (fun p => Good FCe LCe (pp_el (fun x => pp_items x) p)) els.
Proof.
  induction els as [|[n c] r IH]; intros HL Hw; [constructor|].
  inversion HL as [|? ? Mc HLr]; subst. cbn [forallb snd] in *. apply andb_prop in Hw as [Hwc Hwr].
  constructor; [|apply IH; assumption].
  cbn [pp_el]. destruct c as [y|]; cbn [optP app] in *.
  - destruct (lex_good y Mc Hwc) as (Ny & (fy & Fy & FCy) & (zy & Ly & LCy)). split; [|split].
    + change (no_fuse (IT (TId n) :: ISp :: S S_ASSIGN :: ISp :: pp_items y)) with (no_fuse (pp_items y)). assumption.
    + exists (TId n). split; reflexivity.
    + exists zy. split; [|assumption].
      rewrite !lastI_cons; [assumption|apply (ne_first _ _ Fy)|discriminate|discriminate|discriminate].
  - split; [reflexivity|split]; exists (TId n); split; reflexivity.
Qed.

Lemma uplus_swallows_brace : forall y, swallows LBrace (EUn UPlus y) = true.
Proof. reflexivity. Qed.

Lemma lex_shape : forall x els, Lex x -> Forall (fun p => optP Lex (snd p)) els -> Lex (EShape x els).
Proof.
  intros x els IH HL Hwf. cbn [wf] in *. apply andb_prop in Hwf as [Hwf Hwe]. apply andb3 in Hwf as (Hwx & Hrx & Hne).
  rewrite wf_els in Hwe.
  destruct els as [|el els]; [discriminate|].
  destruct (IH Hwx) as (Nx0 & (fx0 & Fx0 & FCx0 & Ux) & (zx0 & Lx0 & LCx0 & _)).
  destruct (wrap_lex (swallows LBrace x) _ _ _ Nx0 Fx0 Lx0 FCx0 LCx0) as (Nx & (fx & Fx & FCx & Px) & (zx & Lx & LCx)).
  set (W := wrap_if (swallows LBrace x) (pp_items x)) in *.
  pose proof (good_els (el :: els) HL Hwe) as HG.
  destruct (comma_sep_good _ (pp_el (fun x => pp_items x)) FCe LCe (el :: els) HG LCe_comma ltac:(discriminate))
    as (Nc & (f & F & FC) & (z & L & LC)).
  cbn [pp_items]. fold W. split; [|split].
  - cbn [app]. rewrite nf_app_sp, Nx. cbn [andb]. rewrite nf_S_sp. rewrite nf_app_sp, Nc. reflexivity.
  - exists fx. split; [apply firstI_app; assumption|]. split; [assumption|].
    intro E. destruct (Px E) as [Eb Ef]. specialize (Ux Ef).
    destruct x as [| | | | |[] y| | | | | | | | | | |]; try discriminate.
  - exists (TSym S_RBRACE). split; [|split; [reflexivity|intro; discriminate]].
    rewrite lastI_app by discriminate. cbn [app]. rewrite !lastI_cons by (try discriminate; destruct (comma_sep (pp_el (fun x => pp_items x)) (el :: els)); discriminate).
    rewrite lastI_app by discriminate. reflexivity.
Qed.

(* ------------------------------------------------------------------ the theorem *)

Theorem lex_main : forall e, Lex e.
Proof.
  induction e as [ck nn v|i|m n ss|ss|h ss IHh|o x IHx|o l r IHl IHr|neg l t IHl|py c0 a b IHc IHa IHb|sk es IHes|fs IHfs|m fn args kw IHargs IHkw|opt t x IHx|x ixs IHx IHixs|x IHx|m n|x els IHx IHels] using expr_ind'.
  - apply lex_const.
  - apply lex_param.
  - apply lex_pathref.
  - apply lex_partial.
  - apply lex_pathexpr; assumption.
  - apply lex_un; assumption.
  - apply lex_bin; assumption.
  - apply lex_is; assumption.
  - apply lex_if; assumption.
  - apply lex_seq; assumption.
  - apply lex_named; assumption.
  - apply lex_call; assumption.
  - apply lex_cast; assumption.
  - apply lex_indir; assumption.
  - apply lex_detached; assumption.
  - apply lex_global.
  - apply lex_shape; assumption.
Qed.

Theorem lex_stable : forall e, wf e = true -> no_fuse (pp_items e) = true.
Proof. intros e Hwf. destruct (lex_main e Hwf) as (H & _). exact H. Qed.
