(* C01 -- the main lemma: parsing the printed form of a well-formed tree gives the tree back. *)
From Coq Require Import List NArith Bool Arith Lia.
From Verif.C01 Require Import Gen_Grammar Model ProofsBase.
Import ListNotations.
Local Open Scope nat_scope.

Lemma hard_rparen : forall k, hard (TSym S_RPAREN :: k) = true. Proof. reflexivity. Qed.
Lemma hard_rbracket : forall k, hard (TSym S_RBRACKET :: k) = true. Proof. reflexivity. Qed.
Lemma hard_rbrace : forall k, hard (TSym S_RBRACE :: k) = true. Proof. reflexivity. Qed.
Lemma hard_comma : forall k, hard (TSym S_COMMA :: k) = true. Proof. reflexivity. Qed.
Lemma hard_colon : forall k, hard (TSym S_COLON :: k) = true. Proof. reflexivity. Qed.
Lemma hard_then : forall k, hard (TSym S_THEN :: k) = true. Proof. reflexivity. Qed.
Lemma hard_else : forall k, hard (TSym S_ELSE :: k) = true. Proof. reflexivity. Qed.

(* a sub-expression followed by a token after which the loop stops, parsed with no enclosing production *)
Lemma sub_hard : forall x, Main x -> wf x = true -> forall k, hard k = true -> okfollow k = true ->
  forall f, 1 + need x <= f -> parse_expr f None (pp x ++ k) = Some (x, k).
Proof.
  intros x M Hwf k Hh Hk f Hf.
  apply (M Hwf None k (x, k) 1); auto.
  - apply tight_none.
  - apply hard_rspine; assumption.
  - intros f' Hf'. apply loop_stops; [apply hard_stops; assumption|assumption].
Qed.

(* the same under a production c whose operand is printed bare *)
Lemma sub_ctx : forall x, Main x -> wf x = true -> forall c k, tight c x = true -> rspine x k = true ->
  stops c k = true -> okfollow k = true ->
  forall f, 1 + need x <= f -> parse_expr f c (pp x ++ k) = Some (x, k).
Proof.
  intros x M Hwf c k Ht Hr Hs Hk f Hf.
  apply (M Hwf c k (x, k) 1); auto.
  intros f' Hf'. apply loop_stops; assumption.
Qed.

Lemma paren_operand : forall x, Main x -> wf x = true -> forall k f, need x + 4 <= f ->
  parse_operand f (TSym S_LPAREN :: pp x ++ TSym S_RPAREN :: k) = Some (x, k).
Proof.
  intros x M Hwf k f Hf.
  pose proof (first_ok x Hwf (TSym S_RPAREN :: k)) as Hfb. apply firstbad_starts in Hfb as (F1 & _).
  pose proof (named_ok x Hwf (TSym S_RPAREN :: k) eq_refl) as Hn.
  fuel f. rewrite op_lparen by assumption. fuel f. rewrite paren_S.
  rewrite (sub_hard x M Hwf) by (reflexivity || lia). reflexivity.
Qed.

Lemma is_numconst_mk_neg : forall x, is_numconst x = false -> mk_neg x = EUn UMinus x.
Proof. intros x H. destruct x as [[]| | | | | | | | | | | | | | | |]; try reflexivity. discriminate. Qed.

Lemma main_un : forall o x, Main x -> Main (EUn o x).
Proof.
  intros o x M Hwf c k r f1 Ht Hr Hk Hloop f Hf.
  cbn [wf] in Hwf. apply andb3 in Hwf as (Hwx & Htx & Hneg).
  cbn [rspine] in Hr. apply andb_prop in Hr as [Hst Hrx].
  unfold need in Hf. rewrite pp_un in *.
  destruct o; cbn [un_word un_sym un_prec] in *.
  - (* + *) cbn [length app] in *. fuel f. rewrite expr_S. fuel f. rewrite op_plus.
    rewrite (sub_ctx x M Hwx) by (assumption || (unfold need; lia)). apply Hloop. lia.
  - (* - *) cbn [length app] in *. fuel f. rewrite expr_S. fuel f. rewrite op_minus.
    rewrite (sub_ctx x M Hwx) by (assumption || (unfold need; lia)).
    apply negb_true_iff in Hneg. rewrite is_numconst_mk_neg by assumption. apply Hloop. lia.
  - (* NOT *) cbn [app]. rewrite <- app_assoc. cbn [app length] in *. rewrite app_length in Hf. cbn [length] in Hf.
    fuel f. rewrite expr_S. fuel f. rewrite op_not. fuel f. rewrite expr_S.
    rewrite (paren_operand x M Hwx) by (unfold need; lia).
    rewrite loop_stops by (assumption || lia). apply Hloop. lia.
  - (* EXISTS *) cbn [app]. rewrite <- app_assoc. cbn [app length] in *. rewrite app_length in Hf. cbn [length] in Hf.
    fuel f. rewrite expr_S. fuel f. rewrite op_exists. fuel f. rewrite expr_S.
    rewrite (paren_operand x M Hwx) by (unfold need; lia).
    rewrite loop_stops by (assumption || lia). apply Hloop. lia.
  - (* DISTINCT *) cbn [app]. rewrite <- app_assoc. cbn [app length] in *. rewrite app_length in Hf. cbn [length] in Hf.
    fuel f. rewrite expr_S. fuel f. rewrite op_distinct. fuel f. rewrite expr_S.
    rewrite (paren_operand x M Hwx) by (unfold need; lia).
    rewrite loop_stops by (assumption || lia). apply Hloop. lia.
Qed.

Lemma main_detached : forall x, Main x -> Main (EDetached x).
Proof.
  intros x M Hwf c k r f1 Ht Hr Hk Hloop f Hf.
  cbn [wf] in Hwf. apply andb_prop in Hwf as [Hwx Htx].
  cbn [rspine] in Hr. apply andb_prop in Hr as [Hst Hrx].
  unfold need in Hf. rewrite pp_detached in *. cbn [length app] in *.
  fuel f. rewrite expr_S. fuel f. rewrite op_detached.
  rewrite (sub_ctx x M Hwx) by (assumption || (unfold need; lia)). apply Hloop. lia.
Qed.

Lemma ttype_first : forall p t k, starts S_OPTIONAL (ttype p t ++ k) = false /\ starts S_NOT (ttype p t ++ k) = false.
Proof.
  intros p [m n|m n subs] k.
  - rewrite ttype_name. destruct m; split; reflexivity.
  - rewrite ttype_coll. destruct p, m; split; reflexivity.
Qed.

Lemma main_cast : forall opt t x, Main x -> Main (ECast opt t x).
Proof.
  intros opt t x M Hwf c k r f1 Ht Hr Hk Hloop f Hf.
  cbn [wf] in Hwf. apply andb3 in Hwf as (Hwt & Hwx & Htx).
  cbn [rspine] in Hr. apply andb_prop in Hr as [Hst Hrx].
  unfold need in Hf. rewrite pp_cast in *.
  cbn [app length] in *. rewrite !app_length in Hf. cbn [length] in Hf.
  fuel f. rewrite expr_S. fuel f. rewrite op_cast. cbv zeta.
  destruct opt; cbn [app length] in *.
  - change (starts S_OPTIONAL (TSym S_OPTIONAL :: (ttype false t ++ TSym S_RANGBRACKET :: pp x) ++ k)) with true.
    cbn [tl]. rewrite <- app_assoc. cbn [app].
    rewrite type_ok by (assumption || reflexivity || (unfold tneed; lia)).
    cbn [expect sym_eqb]. rewrite N.eqb_refl.
    rewrite (sub_ctx x M Hwx) by (assumption || (unfold need; lia)). apply Hloop. lia.
  - rewrite <- app_assoc. cbn [app]. destruct (ttype_first false t (TSym S_RANGBRACKET :: pp x ++ k)) as [E _].
    rewrite E.
    rewrite type_ok by (assumption || reflexivity || (unfold tneed; lia)).
    cbn [expect sym_eqb]. rewrite N.eqb_refl.
    rewrite (sub_ctx x M Hwx) by (assumption || (unfold need; lia)). apply Hloop. lia.
Qed.

Lemma rparen_close : forall e k, 
  match Some (e, TSym S_RPAREN :: k) with
  | Some (e0, TSym s :: r0) =>
      if N.eqb s S_RPAREN then Some (e0, r0)
      else if N.eqb s S_COMMA then
        match parse_list 0 S_RPAREN r0 with Some (es, r2) => Some (ESeq QTuple (e0 :: es), r2) | None => None end
      else None
  | _ => None
  end = Some (e, k).
Proof. reflexivity. Qed.

Lemma main_bin : forall o l r, Main l -> Main r -> Main (EBin o l r).
Proof.
  intros o l r Ml Mr Hwf c k res f1 Ht Hr Hk Hloop f Hf.
  cbn [wf] in Hwf. apply andb3 in Hwf as (Hwl & Hwr & Hrow).
  destruct (binop_row binop_table o) as [[ss p]|] eqn:Erow; [|discriminate].
  apply andb_prop in Hrow as [Hrl Htr].
  pose proof (binop_row_in _ _ _ _ Erow) as Hin.
  pose proof (binop_row_syms _ _ _ _ Erow) as Hsy.
  destruct (row_cons _ _ _ Hin) as (s0 & ss' & Ess).
  unfold need in Hf. rewrite pp_bin in *. unfold op_syms in *. rewrite Hsy in *.
  cbn [app length] in *. rewrite !app_length in Hf. cbn [length] in Hf.
  assert (Hlen : 1 <= length (sym_toks ss)) by (subst ss; cbn; lia).
  rewrite <- ?app_assoc. cbn [app].
  set (rest := sym_toks ss ++ pp r ++ TSym S_RPAREN :: k).
  pose proof (first_ok l Hwl rest) as Hfb. apply firstbad_starts in Hfb as (F1 & _).
  assert (Hokf : okfollow rest = true) by (apply (row_okfollow _ _ _ Hin)).
  pose proof (named_ok l Hwl rest (proj2 (proj2 (okfollow_parts _ Hokf)))) as Hn.
  fuel f. rewrite expr_S. fuel f. rewrite op_lparen by assumption. fuel f. rewrite paren_S.
  rewrite (Ml Hwl None rest (EBin o l r, TSym S_RPAREN :: k) (need r + 3)).
  - cbn [N.eqb]. rewrite N.eqb_refl. apply Hloop. lia.
  - apply tight_none.
  - unfold rest. subst ss. cbn [sym_toks map app]. rewrite (rspine_hd l _ _ (sym_toks ss')). exact Hrl.
  - assumption.
  - intros f' Hf'. unfold rest. fuel f'. rewrite (loop_binop _ _ _ Hin). rewrite decide_none.
    rewrite (sub_ctx r Mr Hwr (Some p) (TSym S_RPAREN :: k)); try reflexivity; try assumption.
    + apply loop_stops; [reflexivity|lia].
    + apply hard_rspine. reflexivity.
    + lia.
  - unfold need. lia.
Qed.

Lemma main_is : forall neg l t, Main l -> Main (EIs neg l t).
Proof.
  intros neg l t Ml Hwf c k res f1 Ht Hr Hk Hloop f Hf.
  cbn [wf] in Hwf. apply andb3 in Hwf as (Hwl & Hwt & Hrl).
  unfold need in Hf. rewrite pp_is in *.
  cbn [app length] in *. rewrite !app_length in Hf. cbn [length] in Hf. rewrite !app_length in Hf. cbn [length] in Hf.
  rewrite <- ?app_assoc. cbn [app]. rewrite <- ?app_assoc. cbn [app]. rewrite <- ?app_assoc. cbn [app].
  set (rest := TSym S_IS :: (if neg then [TSym S_NOT] else []) ++ ttype true t ++ TSym S_RPAREN :: k).
  pose proof (first_ok l Hwl rest) as Hfb. apply firstbad_starts in Hfb as (F1 & _).
  pose proof (named_ok l Hwl rest eq_refl) as Hn.
  assert (Hlt : length (ttype false t) <= length (ttype true t)).
  { destruct t; [rewrite !ttype_name; lia|]. rewrite !ttype_coll. simpl. rewrite !app_length. simpl. rewrite !app_length. simpl. lia. }
  fuel f. rewrite expr_S. fuel f. rewrite op_lparen by assumption. fuel f. rewrite paren_S.
  rewrite (Ml Hwl None rest (EIs neg l t, TSym S_RPAREN :: k) (tneed t + 4)).
  - cbn [N.eqb]. rewrite N.eqb_refl. apply Hloop. lia.
  - apply tight_none.
  - unfold rest. rewrite (rspine_hd l _ _ []). exact Hrl.
  - reflexivity.
  - intros f' Hf'. unfold rest. fuel f'. rewrite loop_is, decide_none. cbv zeta.
    destruct neg; cbn [app].
    + change (starts S_NOT (TSym S_NOT :: ttype true t ++ TSym S_RPAREN :: k)) with true. cbn [tl].
      rewrite type_paren_ok by (assumption || reflexivity || lia).
      apply loop_stops; [reflexivity|lia].
    + destruct (ttype_first true t (TSym S_RPAREN :: k)) as [_ E]. rewrite E.
      rewrite type_paren_ok by (assumption || reflexivity || lia).
      apply loop_stops; [reflexivity|lia].
  - unfold need, tneed. destruct neg; cbn [length] in Hf; lia.
Qed.

Lemma main_if : forall py c0 a b, Main c0 -> Main a -> Main b -> Main (EIf py c0 a b).
Proof.
  intros py c0 a b Mc Ma Mb Hwf c k res f1 Ht Hr Hk Hloop f Hf.
  destruct py.
  - (* a IF c ELSE b *)
    cbn [wf] in Hwf. apply andb_prop in Hwf as [Hwf Htb]. apply andb_prop in Hwf as [Hwf Hra].
    apply andb3 in Hwf as (Hwc & Hwa & Hwb).
    unfold need in Hf. rewrite pp_if_py in *.
    cbn [app length] in *. rewrite !app_length in Hf. cbn [length] in Hf. rewrite !app_length in Hf. cbn [length] in Hf.
    rewrite !app_length in Hf. cbn [length] in Hf.
    rewrite <- ?app_assoc. cbn [app]. rewrite <- ?app_assoc. cbn [app]. rewrite <- ?app_assoc. cbn [app].
    set (rest := TSym S_IF :: pp c0 ++ TSym S_ELSE :: pp b ++ TSym S_RPAREN :: k).
    pose proof (first_ok a Hwa rest) as Hfb. apply firstbad_starts in Hfb as (F1 & _).
    pose proof (named_ok a Hwa rest eq_refl) as Hn.
    fuel f. rewrite expr_S. fuel f. rewrite op_lparen by assumption. fuel f. rewrite paren_S.
    rewrite (Ma Hwa None rest (EIf true c0 a b, TSym S_RPAREN :: k) (need c0 + need b + 4)).
    + cbn [N.eqb]. rewrite N.eqb_refl. apply Hloop. lia.
    + apply tight_none.
    + unfold rest. rewrite (rspine_hd a _ _ []). exact Hra.
    + reflexivity.
    + intros f' Hf'. unfold rest. fuel f'. rewrite loop_if, decide_none.
      rewrite (sub_hard c0 Mc Hwc) by (reflexivity || lia).
      cbn [expect sym_eqb]. rewrite N.eqb_refl.
      rewrite (sub_ctx b Mb Hwb (Some p_ifelse) (TSym S_RPAREN :: k)); try reflexivity; try assumption.
      * apply loop_stops; [reflexivity|lia].
      * apply hard_rspine. reflexivity.
      * lia.
    + unfold need. lia.
  - (* IF c THEN a ELSE b *)
    cbn [wf] in Hwf. apply andb_prop in Hwf as [Hwf Htb]. apply andb3 in Hwf as (Hwc & Hwa & Hwb).
    unfold need in Hf. rewrite pp_if_new in *.
    cbn [app length] in *. rewrite !app_length in Hf. cbn [length] in Hf. rewrite !app_length in Hf. cbn [length] in Hf.
    rewrite !app_length in Hf. cbn [length] in Hf.
    rewrite <- ?app_assoc. cbn [app]. rewrite <- ?app_assoc. cbn [app]. rewrite <- ?app_assoc. cbn [app].
    fuel f. rewrite expr_S. fuel f. rewrite op_lparen by reflexivity. fuel f. rewrite paren_S.
    fuel f. rewrite expr_S. fuel f. rewrite op_if.
    rewrite (sub_hard c0 Mc Hwc) by (reflexivity || (unfold need; lia)).
    cbn [expect sym_eqb]. rewrite N.eqb_refl.
    rewrite (sub_hard a Ma Hwa) by (reflexivity || (unfold need; lia)).
    cbn [expect sym_eqb]. rewrite N.eqb_refl.
    rewrite (sub_ctx b Mb Hwb (Some p_ifthenelse) (TSym S_RPAREN :: k)); try reflexivity; try assumption.
    + rewrite loop_stops by (reflexivity || lia). cbn [N.eqb]. rewrite N.eqb_refl. apply Hloop. lia.
    + apply hard_rspine. reflexivity.
    + unfold need. lia.
Qed.
