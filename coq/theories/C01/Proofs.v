(* C01 -- the main lemma: parsing the printed form of a well-formed tree gives the tree back. *)
From Coq Require Import List NArith Bool Arith Lia.
From Verif.C01 Require Import Gen_Grammar Model ProofsBase.
Import ListNotations.
Local Open Scope nat_scope.

Lemma hard_rparen : forall k, hard (TSym S_RPAREN :: k) = true. Proof. reflexivity. Qed.
Lemma hard_rbracket : forall k, hard (TSym S_RBRACKET :: k) = true. Proof. reflexivity. Qed.
Lemma hard_rbrace : forall k, hard (TSym S_RBRACE :: k) = true. Proof. reflexivity. Qed.
Lemma hard_comma : forall k, hard (TSym S_COMMA :: k) = true. Proof. reflexivity. Qed.
Lemma hard_colon : forall k, hard (TSym S_COLON :: k) = true. Proof. reflexivity. Qed.
Lemma hard_then : forall k, hard (TSym S_THEN :: k) = true. Proof. reflexivity. Qed.
Lemma hard_else : forall k, hard (TSym S_ELSE :: k) = true. Proof. reflexivity. Qed.

(* a sub-expression followed by a token after which the loop stops, parsed with no enclosing production *)
Lemma sub_hard : forall x, Main x -> wf x = true -> forall k, hard k = true -> okfollow k = true ->
  forall f, 1 + need x <= f -> parse_expr f None (pp x ++ k) = Some (x, k).
Proof.
  intros x M Hwf k Hh Hk f Hf.
  apply (M Hwf None k (x, k) 1); auto.
  - apply tight_none.
  - apply hard_rspine; assumption.
  - intros f' Hf'. apply loop_stops; [apply hard_stops; assumption|assumption].
Qed.

(* the same under a production c whose operand is printed bare *)
Lemma sub_ctx : forall x, Main x -> wf x = true -> forall c k, tight c x = true -> rspine x k = true ->
  stops c k = true -> okfollow k = true ->
  forall f, 1 + need x <= f -> parse_expr f c (pp x ++ k) = Some (x, k).
Proof.
  intros x M Hwf c k Ht Hr Hs Hk f Hf.
  apply (M Hwf c k (x, k) 1); auto.
  intros f' Hf'. apply loop_stops; assumption.
Qed.

Lemma paren_operand : forall x, Main x -> wf x = true -> forall k f, need x + 4 <= f ->
  parse_operand f (TSym S_LPAREN :: pp x ++ TSym S_RPAREN :: k) = Some (x, k).
Proof.
  intros x M Hwf k f Hf.
  pose proof (first_ok x Hwf (TSym S_RPAREN :: k)) as Hfb. apply firstbad_starts in Hfb as (F1 & _).
  pose proof (named_ok x Hwf (TSym S_RPAREN :: k) eq_refl) as Hn.
  fuel f. rewrite op_lparen by assumption. fuel f. rewrite paren_S.
  rewrite (sub_hard x M Hwf) by (reflexivity || lia). reflexivity.
Qed.

Lemma is_numconst_mk_neg : forall x, is_numconst x = false -> mk_neg x = EUn UMinus x.
Proof. intros x H. destruct x as [[]| | | | | | | | | | | | | | | |]; try reflexivity. discriminate. Qed.

Lemma main_un : forall o x, Main x -> Main (EUn o x).
Proof.
  intros o x M Hwf c k r f1 Ht Hr Hk Hloop f Hf.
  cbn [wf] in Hwf. apply andb3 in Hwf as (Hwx & Htx & Hneg).
  cbn [rspine] in Hr. apply andb_prop in Hr as [Hst Hrx].
  unfold need in Hf. rewrite pp_un in *.
  destruct o; cbn [un_word un_sym un_prec] in *.
  - (* + *) cbn [length app] in *. fuel f. rewrite expr_S. fuel f. rewrite op_plus.
    rewrite (sub_ctx x M Hwx) by (assumption || (unfold need; lia)). apply Hloop. lia.
  - (* - *) cbn [length app] in *. fuel f. rewrite expr_S. fuel f. rewrite op_minus.
    rewrite (sub_ctx x M Hwx) by (assumption || (unfold need; lia)).
    apply negb_true_iff in Hneg. rewrite is_numconst_mk_neg by assumption. apply Hloop. lia.
  - (* NOT *) cbn [app]. rewrite <- app_assoc. cbn [app length] in *. rewrite app_length in Hf. cbn [length] in Hf.
    fuel f. rewrite expr_S. fuel f. rewrite op_not. fuel f. rewrite expr_S.
    rewrite (paren_operand x M Hwx) by (unfold need; lia).
    rewrite loop_stops by (assumption || lia). apply Hloop. lia.
  - (* EXISTS *) cbn [app]. rewrite <- app_assoc. cbn [app length] in *. rewrite app_length in Hf. cbn [length] in Hf.
    fuel f. rewrite expr_S. fuel f. rewrite op_exists. fuel f. rewrite expr_S.
    rewrite (paren_operand x M Hwx) by (unfold need; lia).
    rewrite loop_stops by (assumption || lia). apply Hloop. lia.
  - (* DISTINCT *) cbn [app]. rewrite <- app_assoc. cbn [app length] in *. rewrite app_length in Hf. cbn [length] in Hf.
    fuel f. rewrite expr_S. fuel f. rewrite op_distinct. fuel f. rewrite expr_S.
    rewrite (paren_operand x M Hwx) by (unfold need; lia).
    rewrite loop_stops by (assumption || lia). apply Hloop. lia.
Qed.

Lemma main_detached : forall x, Main x -> Main (EDetached x).
Proof.
  intros x M Hwf c k r f1 Ht Hr Hk Hloop f Hf.
  cbn [wf] in Hwf. apply andb_prop in Hwf as [Hwx Htx].
  cbn [rspine] in Hr. apply andb_prop in Hr as [Hst Hrx].
  unfold need in Hf. rewrite pp_detached in *. cbn [length app] in *.
  destruct (det_paren x); cbn [twrap orb] in *.
  - cbn [length app] in Hf. rewrite app_length in Hf. cbn [length] in Hf. cbn [app]. rewrite <- app_assoc. cbn [app].
    fuel f. rewrite expr_S. fuel f. rewrite op_detached. fuel f. rewrite expr_S.
    rewrite (paren_operand x M Hwx) by (unfold need; lia).
    rewrite loop_stops by (assumption || lia). apply Hloop. lia.
  - fuel f. rewrite expr_S. fuel f. rewrite op_detached.
    rewrite (sub_ctx x M Hwx) by (assumption || (unfold need; lia)). apply Hloop. lia.
Qed.

Lemma ttype_first : forall p t k,
  starts S_OPTIONAL (ttype p t ++ k) = false /\ starts S_NOT (ttype p t ++ k) = false /\
  starts S_REQUIRED (ttype p t ++ k) = false.
Proof.
  intros p [m n|m n subs] k.
  - rewrite ttype_name. destruct m; repeat split; reflexivity.
  - rewrite ttype_coll. destruct p, m; repeat split; reflexivity.
Qed.

Lemma main_cast : forall cm t x, Main x -> Main (ECast cm t x).
Proof.
  intros cm t x M Hwf c k r f1 Ht Hr Hk Hloop f Hf.
  cbn [wf] in Hwf. apply andb3 in Hwf as (Hwt & Hwx & Htx).
  cbn [rspine] in Hr. apply andb_prop in Hr as [Hst Hrx].
  unfold need in Hf. rewrite pp_cast in *.
  cbn [app length] in *. rewrite !app_length in Hf. cbn [length] in Hf.
  fuel f. rewrite expr_S. fuel f. rewrite op_cast. cbv zeta.
  destruct cm; cbn [tcmod app length] in *.
  - rewrite <- app_assoc. cbn [app]. destruct (ttype_first false t (TSym S_RANGBRACKET :: pp x ++ k)) as (E1 & _ & E3).
    rewrite E1, E3.
    rewrite type_ok by (assumption || reflexivity || (unfold tneed; lia)).
    cbn [expect sym_eqb]. rewrite N.eqb_refl.
    rewrite (sub_ctx x M Hwx) by (assumption || (unfold need; lia)). apply Hloop. lia.
  - change (starts S_OPTIONAL (TSym S_OPTIONAL :: (ttype false t ++ TSym S_RANGBRACKET :: pp x) ++ k)) with true.
    cbn [tl]. rewrite <- app_assoc. cbn [app].
    rewrite type_ok by (assumption || reflexivity || (unfold tneed; lia)).
    cbn [expect sym_eqb]. rewrite N.eqb_refl.
    rewrite (sub_ctx x M Hwx) by (assumption || (unfold need; lia)). apply Hloop. lia.
  - change (starts S_OPTIONAL (TSym S_REQUIRED :: (ttype false t ++ TSym S_RANGBRACKET :: pp x) ++ k)) with false.
    change (starts S_REQUIRED (TSym S_REQUIRED :: (ttype false t ++ TSym S_RANGBRACKET :: pp x) ++ k)) with true.
    cbn [tl]. rewrite <- app_assoc. cbn [app].
    rewrite type_ok by (assumption || reflexivity || (unfold tneed; lia)).
    cbn [expect sym_eqb]. rewrite N.eqb_refl.
    rewrite (sub_ctx x M Hwx) by (assumption || (unfold need; lia)). apply Hloop. lia.
Qed.

Lemma rparen_close : forall e k, 
  match Some (e, TSym S_RPAREN :: k) with
  | Some (e0, TSym s :: r0) =>
      if N.eqb s S_RPAREN then Some (e0, r0)
      else if N.eqb s S_COMMA then
        match parse_list 0 S_RPAREN r0 with Some (es, r2) => Some (ESeq QTuple (e0 :: es), r2) | None => None end
      else None
  | _ => None
  end = Some (e, k).
Proof. reflexivity. Qed.

Lemma twrap_length : forall b l, length l <= length (twrap b l).
Proof. intros [] l; cbn [twrap length]; [rewrite app_length; cbn; lia|lia]. Qed.

(* a left operand, printed bare or in parentheses, followed by [rest] under no enclosing production *)
Lemma left_operand : forall l, Main l -> wf l = true -> forall b rest res g,
  (b = false -> rspine l rest = true) -> okfollow rest = true ->
  (forall f, g <= f -> parse_loop f None l rest = Some res) ->
  forall f, g + need l + 5 <= f -> parse_expr f None (twrap b (pp l) ++ rest) = Some res.
Proof.
  intros l Ml Hwl b rest res g Hr Hk HL f Hf. destruct b; cbn [twrap].
  - cbn [app]. rewrite <- app_assoc. cbn [app]. fuel f. rewrite expr_S.
    rewrite (paren_operand l Ml Hwl) by lia. apply HL. lia.
  - apply (Ml Hwl None rest res g); auto; [apply tight_none|lia].
Qed.

Lemma main_bin : forall o l r, Main l -> Main r -> Main (EBin o l r).
Proof.
  intros o l r Ml Mr Hwf c k res f1 Ht Hr Hk Hloop f Hf.
  cbn [wf] in Hwf. apply andb3 in Hwf as (Hwl & Hwr & Hrow).
  destruct (binop_row binop_table o) as [[ss p]|] eqn:Erow; [|discriminate].
  apply andb_prop in Hrow as [Hrl Htr].
  pose proof (binop_row_in _ _ _ _ Erow) as Hin.
  pose proof (binop_row_syms _ _ _ _ Erow) as Hsy.
  destruct (row_cons _ _ _ Hin) as (s0 & ss' & Ess).
  unfold need in Hf. rewrite pp_bin in *. unfold op_syms in *. rewrite Hsy in *.
  cbn [app length] in *. rewrite !app_length in Hf. cbn [length] in Hf.
  pose proof (twrap_length (swallows (LBin o) l) (pp l)) as Hwl'.
  assert (Hlen : 1 <= length (sym_toks ss)) by (subst ss; cbn; lia).
  rewrite <- ?app_assoc. cbn [app].
  set (rest := sym_toks ss ++ pp r ++ TSym S_RPAREN :: k).
  assert (Hokf : okfollow rest = true) by (apply (row_okfollow _ _ _ Hin)).
  assert (F1 : starts S_RPAREN (twrap (swallows (LBin o) l) (pp l) ++ rest) = false /\
               named_prefix (twrap (swallows (LBin o) l) (pp l) ++ rest) = false).
  { destruct (swallows (LBin o) l); cbn [twrap]; [split; reflexivity|].
    pose proof (first_ok l Hwl rest) as Hfb. apply firstbad_starts in Hfb as (F1 & _).
    split; [assumption|]. apply (named_ok l Hwl rest). apply (okfollow_parts _ Hokf). }
  destruct F1 as [F1 F2].
  fuel f. rewrite expr_S. fuel f. rewrite op_lparen by assumption. fuel f. rewrite paren_S.
  rewrite (left_operand l Ml Hwl (swallows (LBin o) l) rest (EBin o l r, TSym S_RPAREN :: k) (need r + 3)).
  - cbn [N.eqb]. rewrite N.eqb_refl. apply Hloop. lia.
  - intro E. rewrite E in Hrl. cbn [orb] in Hrl.
    unfold rest. subst ss. cbn [sym_toks map app]. rewrite (rspine_hd l _ _ (sym_toks ss')). exact Hrl.
  - assumption.
  - intros f' Hf'. unfold rest. fuel f'. rewrite (loop_binop _ _ _ Hin). rewrite decide_none.
    rewrite (sub_ctx r Mr Hwr (Some p) (TSym S_RPAREN :: k)); try reflexivity; try assumption.
    + apply loop_stops; [reflexivity|lia].
    + apply hard_rspine. reflexivity.
    + lia.
  - unfold need. lia.
Qed.

Lemma main_is : forall neg l t, Main l -> Main (EIs neg l t).
Proof.
  intros neg l t Ml Hwf c k res f1 Ht Hr Hk Hloop f Hf.
  cbn [wf] in Hwf. apply andb3 in Hwf as (Hwl & Hwt & Hrl).
  unfold need in Hf. rewrite pp_is in *.
  cbn [app length] in *. rewrite !app_length in Hf. cbn [length] in Hf. rewrite !app_length in Hf. cbn [length] in Hf.
  pose proof (twrap_length (swallows LIs l) (pp l)) as Hwl'.
  rewrite <- ?app_assoc. cbn [app]. rewrite <- ?app_assoc. cbn [app]. rewrite <- ?app_assoc. cbn [app].
  set (rest := TSym S_IS :: (if neg then [TSym S_NOT] else []) ++ ttype true t ++ TSym S_RPAREN :: k).
  assert (F1 : starts S_RPAREN (twrap (swallows LIs l) (pp l) ++ rest) = false /\
               named_prefix (twrap (swallows LIs l) (pp l) ++ rest) = false).
  { destruct (swallows LIs l); cbn [twrap]; [split; reflexivity|].
    pose proof (first_ok l Hwl rest) as Hfb. apply firstbad_starts in Hfb as (F1 & _).
    split; [assumption|]. apply (named_ok l Hwl rest eq_refl). }
  destruct F1 as [F1 F2].
  assert (Hlt : length (ttype false t) <= length (ttype true t)).
  { destruct t; [rewrite !ttype_name; lia|]. rewrite !ttype_coll. simpl. rewrite !app_length. simpl. rewrite !app_length. simpl. lia. }
  fuel f. rewrite expr_S. fuel f. rewrite op_lparen by assumption. fuel f. rewrite paren_S.
  rewrite (left_operand l Ml Hwl (swallows LIs l) rest (EIs neg l t, TSym S_RPAREN :: k) (tneed t + 4)).
  - cbn [N.eqb]. rewrite N.eqb_refl. apply Hloop. lia.
  - intro E. rewrite E in Hrl. cbn [orb] in Hrl. unfold rest. rewrite (rspine_hd l _ _ []). exact Hrl.
  - reflexivity.
  - intros f' Hf'. unfold rest. fuel f'. rewrite loop_is, decide_none. cbv zeta.
    destruct neg; cbn [app].
    + change (starts S_NOT (TSym S_NOT :: ttype true t ++ TSym S_RPAREN :: k)) with true. cbn [tl].
      rewrite type_paren_ok by (assumption || reflexivity || lia).
      apply loop_stops; [reflexivity|lia].
    + destruct (ttype_first true t (TSym S_RPAREN :: k)) as (_ & E & _). rewrite E.
      rewrite type_paren_ok by (assumption || reflexivity || lia).
      apply loop_stops; [reflexivity|lia].
  - unfold need, tneed. destruct neg; cbn [length] in Hf; lia.
Qed.

Lemma main_if : forall py c0 a b, Main c0 -> Main a -> Main b -> Main (EIf py c0 a b).
Proof.
  intros py c0 a b Mc Ma Mb Hwf c k res f1 Ht Hr Hk Hloop f Hf.
  destruct py.
  - (* a IF c ELSE b *)
    cbn [wf] in Hwf. apply andb_prop in Hwf as [Hwf Htb]. apply andb_prop in Hwf as [Hwf Hra].
    apply andb3 in Hwf as (Hwc & Hwa & Hwb).
    unfold need in Hf. rewrite pp_if_py in *.
    cbn [app length] in *. rewrite !app_length in Hf. cbn [length] in Hf. rewrite !app_length in Hf. cbn [length] in Hf.
    rewrite !app_length in Hf. cbn [length] in Hf.
    rewrite <- ?app_assoc. cbn [app]. rewrite <- ?app_assoc. cbn [app]. rewrite <- ?app_assoc. cbn [app].
    set (rest := TSym S_IF :: pp c0 ++ TSym S_ELSE :: pp b ++ TSym S_RPAREN :: k).
    pose proof (first_ok a Hwa rest) as Hfb. apply firstbad_starts in Hfb as (F1 & _).
    pose proof (named_ok a Hwa rest eq_refl) as Hn.
    fuel f. rewrite expr_S. fuel f. rewrite op_lparen by assumption. fuel f. rewrite paren_S.
    rewrite (Ma Hwa None rest (EIf true c0 a b, TSym S_RPAREN :: k) (need c0 + need b + 4)).
    + cbn [N.eqb]. rewrite N.eqb_refl. apply Hloop. lia.
    + apply tight_none.
    + unfold rest. rewrite (rspine_hd a _ _ []). exact Hra.
    + reflexivity.
    + intros f' Hf'. unfold rest. fuel f'. rewrite loop_if, decide_none.
      rewrite (sub_hard c0 Mc Hwc) by (reflexivity || lia).
      cbn [expect sym_eqb]. rewrite N.eqb_refl.
      rewrite (sub_ctx b Mb Hwb (Some p_ifelse) (TSym S_RPAREN :: k)); try reflexivity; try assumption.
      * apply loop_stops; [reflexivity|lia].
      * apply hard_rspine. reflexivity.
      * lia.
    + unfold need. lia.
  - (* IF c THEN a ELSE b *)
    cbn [wf] in Hwf. apply andb_prop in Hwf as [Hwf Htb]. apply andb3 in Hwf as (Hwc & Hwa & Hwb).
    unfold need in Hf. rewrite pp_if_new in *.
    cbn [app length] in *. rewrite !app_length in Hf. cbn [length] in Hf. rewrite !app_length in Hf. cbn [length] in Hf.
    rewrite !app_length in Hf. cbn [length] in Hf.
    rewrite <- ?app_assoc. cbn [app]. rewrite <- ?app_assoc. cbn [app]. rewrite <- ?app_assoc. cbn [app].
    fuel f. rewrite expr_S. fuel f. rewrite op_lparen by reflexivity. fuel f. rewrite paren_S.
    fuel f. rewrite expr_S. fuel f. rewrite op_if.
    rewrite (sub_hard c0 Mc Hwc) by (reflexivity || (unfold need; lia)).
    cbn [expect sym_eqb]. rewrite N.eqb_refl.
    rewrite (sub_hard a Ma Hwa) by (reflexivity || (unfold need; lia)).
    cbn [expect sym_eqb]. rewrite N.eqb_refl.
    rewrite (sub_ctx b Mb Hwb (Some p_ifthenelse) (TSym S_RPAREN :: k)); try reflexivity; try assumption.
    + rewrite loop_stops by (reflexivity || lia). cbn [N.eqb]. rewrite N.eqb_refl. apply Hloop. lia.
    + apply hard_rspine. reflexivity.
    + unfold need. lia.
Qed.

(* ------------------------------------------------------------------ lists *)

Lemma wf_seq_forallb : forall k es, wf (ESeq k es) = forallb wf es.
Proof. intros k es. cbn [wf]. induction es as [|x r IH]; [reflexivity|]. cbn [forallb]. rewrite <- IH. reflexivity. Qed.

Lemma list_ok : forall close, (close = S_RPAREN \/ close = S_RBRACKET \/ close = S_RBRACE) ->
  forall es, Forall Main es -> forallb wf es = true -> es <> [] ->
  forall k f, 6 * length (tcommas pp es) + 8 <= f ->
  parse_list f close (tcommas pp es ++ TSym close :: k) = Some (es, k).
Proof.
  intros close Hc. induction es as [|x rest IH]; intros HM Hwf Hne k f Hf; [congruence|].
  inversion HM as [|? ? Mx Mrest]; subst. cbn [forallb] in Hwf. apply andb_prop in Hwf as [Hwx Hwrest].
  assert (Hcl : forall k', hard (TSym close :: k') = true /\ okfollow (TSym close :: k') = true /\
                           N.eqb S_COMMA close = false)
    by (intros k'; destruct Hc as [->|[->| ->]]; repeat split; reflexivity).
  assert (Hst : forall k', starts close (pp x ++ k') = false).
  { intros k'. pose proof (first_ok x Hwx k') as Hfb. apply firstbad_starts in Hfb as (F1 & F2 & F3 & _).
    destruct Hc as [->|[->| ->]]; assumption. }
  cbn [tcommas] in *. destruct rest as [|y rest].
  - fuel f. rewrite list_S, Hst. destruct (Hcl k) as (H1 & H2 & _).
    rewrite (sub_hard x Mx Hwx) by (assumption || (unfold need; lia)).
    rewrite N.eqb_refl. reflexivity.
  - rewrite app_length in Hf. cbn [length] in Hf. rewrite <- app_assoc. cbn [app].
    fuel f. rewrite list_S, Hst.
    rewrite (sub_hard x Mx Hwx) by (reflexivity || (unfold need; lia)).
    destruct (Hcl k) as (_ & _ & H3). rewrite H3, N.eqb_refl.
    rewrite IH; [reflexivity|assumption|assumption|discriminate|lia].
Qed.

Lemma tcommas_cons2 : forall A (f : A -> list tok) x y r,
  tcommas f (x :: y :: r) = f x ++ TSym S_COMMA :: tcommas f (y :: r).
Proof. reflexivity. Qed.

Lemma list_empty : forall close k f, 1 <= f -> parse_list f close (TSym close :: k) = Some ([], k).
Proof.
  intros close k f Hf. fuel f. rewrite list_S. unfold starts, sym_eqb. rewrite N.eqb_refl. reflexivity.
Qed.

Lemma main_seq : forall sk es, Forall Main es -> Main (ESeq sk es).
Proof.
  intros sk es HM Hwf c k r f1 Ht Hr Hk Hloop f Hf.
  rewrite wf_seq_forallb in Hwf. unfold need in Hf. rewrite pp_seq in *.
  destruct sk.
  - (* tuple *)
    destruct es as [|x [|y rest]].
    + cbn [tcommas app length] in *. fuel f. rewrite expr_S. fuel f. rewrite op_lparen_empty. apply Hloop. lia.
    + inversion HM as [|? ? Mx _]; subst. cbn [forallb] in Hwf. apply andb_prop in Hwf as [Hwx _].
      cbn [tcommas app length] in *. rewrite app_length in Hf. cbn [length] in Hf.
      rewrite <- ?app_assoc. cbn [app].
      pose proof (first_ok x Hwx (TSym S_COMMA :: TSym S_RPAREN :: k)) as Hfb. apply firstbad_starts in Hfb as (F1 & _).
      pose proof (named_ok x Hwx (TSym S_COMMA :: TSym S_RPAREN :: k) eq_refl) as Hn.
      fuel f. rewrite expr_S. fuel f. rewrite op_lparen by assumption. fuel f. rewrite paren_S.
      rewrite (sub_hard x Mx Hwx) by (reflexivity || (unfold need; lia)).
      change (N.eqb S_COMMA S_RPAREN) with false. rewrite N.eqb_refl.
      rewrite list_empty by lia. apply Hloop. lia.
    + inversion HM as [|? ? Mx Mrest]; subst. cbn [forallb] in Hwf. apply andb_prop in Hwf as [Hwx Hwrest].
      rewrite tcommas_cons2 in *. cbn [app length] in Hf. rewrite ?app_length in Hf. cbn [length] in Hf.
      rewrite ?app_length in Hf. cbn [length] in Hf.
      cbn [app]. rewrite <- ?app_assoc. cbn [app]. rewrite <- ?app_assoc. cbn [app].
      set (restk := TSym S_COMMA :: tcommas pp (y :: rest) ++ TSym S_RPAREN :: k).
      pose proof (first_ok x Hwx restk) as Hfb. apply firstbad_starts in Hfb as (F1 & _).
      pose proof (named_ok x Hwx restk eq_refl) as Hn.
      fuel f. rewrite expr_S. fuel f. rewrite op_lparen by assumption. fuel f. rewrite paren_S.
      rewrite (sub_hard x Mx Hwx) by (reflexivity || (unfold need; lia)). unfold restk.
      change (N.eqb S_COMMA S_RPAREN) with false. rewrite N.eqb_refl.
      rewrite (list_ok S_RPAREN) by (auto || discriminate || lia).
      apply Hloop. lia.
  - (* array *)
    cbn [app length] in *. rewrite app_length in Hf. cbn [length] in Hf. rewrite <- ?app_assoc. cbn [app].
    fuel f. rewrite expr_S. fuel f. rewrite op_lbracket.
    destruct es as [|x rest].
    + cbn [tcommas app]. rewrite list_empty by lia. apply Hloop. lia.
    + rewrite (list_ok S_RBRACKET) by (auto || discriminate || lia). apply Hloop. lia.
  - (* set *)
    cbn [app length] in *. rewrite app_length in Hf. cbn [length] in Hf. rewrite <- ?app_assoc. cbn [app].
    fuel f. rewrite expr_S. fuel f. rewrite op_lbrace.
    destruct es as [|x rest].
    + cbn [tcommas app]. rewrite list_empty by lia. apply Hloop. lia.
    + rewrite (list_ok S_RBRACE) by (auto || discriminate || lia). apply Hloop. lia.
Qed.

(* ------------------------------------------------------------------ named tuples and calls *)

Lemma named_S : forall f n r, parse_named (Datatypes.S f) (TId n :: TSym S_ASSIGN :: r) =
  match parse_expr f None r with
  | Some (e, TSym s2 :: r2) =>
      if N.eqb s2 S_RPAREN then Some ([(n, e)], r2)
      else if N.eqb s2 S_COMMA then
        if starts S_RPAREN r2 then Some ([(n, e)], tl r2)
        else match parse_named f r2 with Some (fs, r3) => Some ((n, e) :: fs, r3) | None => None end
      else None
  | _ => None
  end.
Proof. reflexivity. Qed.

Lemma wf_fields : forall fs,
  (fix go (l : list (N * expr)) : bool := match l with [] => true | (_, x) :: r => wf x && go r end) fs =
  forallb (fun p => wf (snd p)) fs.
Proof. induction fs as [|[n x] r IH]; [reflexivity|]. cbn [forallb snd]. rewrite <- IH. reflexivity. Qed.

Lemma tfield_hd : forall n x rest k, exists t', tcommas tfield ((n, x) :: rest) ++ k = TId n :: TSym S_ASSIGN :: t'.
Proof. intros n x [|y rest] k; cbn [tcommas tfield app]; eauto. Qed.

Lemma tfield_starts : forall fs k, fs <> [] -> starts S_RPAREN (tcommas tfield fs ++ k) = false.
Proof. intros [|[n x] rest] k H; [congruence|]. destruct (tfield_hd n x rest k) as [t' E]. rewrite E. reflexivity. Qed.

Lemma named_list_ok : forall fs, Forall (fun p => Main (snd p)) fs -> forallb (fun p => wf (snd p)) fs = true -> fs <> [] ->
  forall k f, 6 * length (tcommas tfield fs) + 8 <= f ->
  parse_named f (tcommas tfield fs ++ TSym S_RPAREN :: k) = Some (fs, k).
Proof.
  induction fs as [|[n x] rest IH]; intros HM Hwf Hne k f Hf; [congruence|].
  inversion HM as [|? ? Mx Mrest]; subst. cbn [snd] in Mx. cbn [forallb snd] in Hwf. apply andb_prop in Hwf as [Hwx Hwrest].
  destruct rest as [|y rest].
  - cbn [tcommas tfield app length] in *. fuel f. rewrite named_S.
    rewrite (sub_hard x Mx Hwx) by (reflexivity || (unfold need; lia)). reflexivity.
  - rewrite tcommas_cons2 in *. cbn [tfield app length] in *. rewrite app_length in Hf. cbn [length] in Hf.
    rewrite <- app_assoc. cbn [app]. fuel f. rewrite named_S.
    rewrite (sub_hard x Mx Hwx) by (reflexivity || (unfold need; lia)).
    change (N.eqb S_COMMA S_RPAREN) with false. rewrite N.eqb_refl.
    rewrite tfield_starts by discriminate.
    rewrite IH; [reflexivity|assumption|assumption|discriminate|lia].
Qed.

Lemma main_named : forall fs, Forall (fun p => Main (snd p)) fs -> Main (ENamedTuple fs).
Proof.
  intros fs HM Hwf c k r f1 Ht Hr Hk Hloop f Hf.
  cbn [wf] in Hwf. apply andb_prop in Hwf as [Hne Hwf]. rewrite wf_fields in Hwf.
  unfold need in Hf. rewrite pp_named in *. cbn [app length] in *. rewrite app_length in Hf. cbn [length] in Hf.
  rewrite <- app_assoc. cbn [app].
  destruct fs as [|[n x] rest]; [discriminate|].
  destruct (tfield_hd n x rest (TSym S_RPAREN :: k)) as [t' E].
  fuel f. rewrite expr_S. fuel f. rewrite E, op_lparen_named, <- E.
  rewrite named_list_ok by (auto || discriminate || lia). apply Hloop. lia.
Qed.

Lemma args_S_close : forall f r, parse_args (Datatypes.S f) (TSym S_RPAREN :: r) = Some ([], [], r).
Proof. reflexivity. Qed.

Lemma args_S_named : forall f n r, parse_args (Datatypes.S f) (TId n :: TSym S_ASSIGN :: r) =
  match parse_expr f None r with
  | Some (e, TSym s2 :: r2) =>
      if N.eqb s2 S_RPAREN then Some ([], [(n, e)], r2)
      else if N.eqb s2 S_COMMA then
        match parse_args f r2 with
        | Some ([], kw, r3) => if existsb (fun q => N.eqb n (fst q)) kw then None else Some ([], (n, e) :: kw, r3)
        | _ => None
        end
      else None
  | _ => None
  end.
Proof. reflexivity. Qed.

Lemma args_S_pos : forall f ts, starts S_RPAREN ts = false -> named_prefix ts = false ->
  parse_args (Datatypes.S f) ts = parse_args_pos f ts.
Proof.
  intros f ts H1 H2. cbn [parse_args]. rewrite H1.
  destruct ts as [|[] ts]; try reflexivity. destruct ts as [|[] ts]; try reflexivity.
  cbn in H2. rewrite H2. reflexivity.
Qed.

Lemma args_pos_S : forall f ts, parse_args_pos (Datatypes.S f) ts =
  match parse_expr f None ts with
  | Some (e, TSym s2 :: r2) =>
      if N.eqb s2 S_RPAREN then Some ([e], [], r2)
      else if N.eqb s2 S_COMMA then
        match parse_args f r2 with Some (args, kw, r3) => Some (e :: args, kw, r3) | None => None end
      else None
  | _ => None
  end.
Proof. reflexivity. Qed.

Lemma kw_ok : forall kw, Forall (fun p => Main (snd p)) kw -> forallb (fun p => wf (snd p)) kw = true ->
  nodup_names kw = true -> kw <> [] ->
  forall k f, 6 * length (tcommas tfield kw) + 8 <= f ->
  parse_args f (tcommas tfield kw ++ TSym S_RPAREN :: k) = Some ([], kw, k).
Proof.
  induction kw as [|[n x] rest IH]; intros HM Hwf Hnd Hne k f Hf; [congruence|].
  inversion HM as [|? ? Mx Mrest]; subst. cbn [snd] in Mx. cbn [forallb snd] in Hwf. apply andb_prop in Hwf as [Hwx Hwrest].
  cbn [nodup_names] in Hnd. apply andb_prop in Hnd as [Hn1 Hnd]. apply negb_true_iff in Hn1.
  destruct rest as [|y rest].
  - cbn [tcommas tfield app length] in *. fuel f. rewrite args_S_named.
    rewrite (sub_hard x Mx Hwx) by (reflexivity || (unfold need; lia)). reflexivity.
  - rewrite tcommas_cons2 in *. cbn [tfield app length] in *. rewrite app_length in Hf. cbn [length] in Hf.
    rewrite <- app_assoc. cbn [app]. fuel f. rewrite args_S_named.
    rewrite (sub_hard x Mx Hwx) by (reflexivity || (unfold need; lia)).
    change (N.eqb S_COMMA S_RPAREN) with false. rewrite N.eqb_refl.
    rewrite IH by (assumption || discriminate || lia). rewrite Hn1. reflexivity.
Qed.

Definition argsep (args : list expr) (kw : list (N * expr)) : list tok :=
  match args, kw with _ :: _, _ :: _ => [TSym S_COMMA] | _, _ => [] end.

Lemma pos_ok : forall args kw, Forall Main args -> forallb wf args = true -> args <> [] ->
  Forall (fun p => Main (snd p)) kw -> forallb (fun p => wf (snd p)) kw = true -> nodup_names kw = true ->
  forall k f, 6 * (length (tcommas pp args) + length (tcommas tfield kw)) + 16 <= f ->
  parse_args f (tcommas pp args ++ argsep args kw ++ tcommas tfield kw ++ TSym S_RPAREN :: k) = Some (args, kw, k).
Proof.
  induction args as [|x rest IH]; intros kw HM Hwf Hne HMk Hwk Hnd k f Hf; [congruence|].
  inversion HM as [|? ? Mx Mrest]; subst. cbn [forallb] in Hwf. apply andb_prop in Hwf as [Hwx Hwrest].
  destruct rest as [|y rest].
  - cbn [tcommas length] in *.
    destruct kw as [|kv kw'].
    + cbn [argsep tcommas app length] in *.
      pose proof (first_ok x Hwx (TSym S_RPAREN :: k)) as Hfb. apply firstbad_starts in Hfb as (F1 & _).
      pose proof (named_ok x Hwx (TSym S_RPAREN :: k) eq_refl) as Hn.
      fuel f. rewrite args_S_pos by assumption. fuel f. rewrite args_pos_S.
      rewrite (sub_hard x Mx Hwx) by (reflexivity || (unfold need; lia)). reflexivity.
    + cbn [argsep app].
      set (rk := TSym S_COMMA :: tcommas tfield (kv :: kw') ++ TSym S_RPAREN :: k).
      pose proof (first_ok x Hwx rk) as Hfb. apply firstbad_starts in Hfb as (F1 & _).
      pose proof (named_ok x Hwx rk eq_refl) as Hn.
      fuel f. rewrite args_S_pos by assumption. fuel f. rewrite args_pos_S.
      rewrite (sub_hard x Mx Hwx) by (reflexivity || (unfold need; lia)). unfold rk.
      change (N.eqb S_COMMA S_RPAREN) with false. rewrite N.eqb_refl.
      rewrite kw_ok by (assumption || discriminate || lia). reflexivity.
  - rewrite tcommas_cons2 in *. cbn [length] in Hf. rewrite app_length in Hf. cbn [length] in Hf.
    rewrite <- app_assoc. cbn [app].
    assert (Esep : argsep (x :: y :: rest) kw = argsep (y :: rest) kw) by (destruct kw; reflexivity).
    rewrite Esep.
    set (rk := TSym S_COMMA :: tcommas pp (y :: rest) ++ argsep (y :: rest) kw ++ tcommas tfield kw ++ TSym S_RPAREN :: k).
    pose proof (first_ok x Hwx rk) as Hfb. apply firstbad_starts in Hfb as (F1 & _).
    pose proof (named_ok x Hwx rk eq_refl) as Hn.
    fuel f. rewrite args_S_pos by assumption. fuel f. rewrite args_pos_S.
    rewrite (sub_hard x Mx Hwx) by (reflexivity || (unfold need; lia)). unfold rk.
    change (N.eqb S_COMMA S_RPAREN) with false. rewrite N.eqb_refl.
    rewrite IH by (assumption || discriminate || lia). reflexivity.
Qed.

Lemma call_operand : forall f m n r,
  parse_operand (Datatypes.S f) (tname m n ++ TSym S_LPAREN :: r) =
  match parse_args f r with Some (args, kw, r2) => Some (ECall m n args kw, r2) | None => None end.
Proof.
  intros f m n r.
  assert (E : parse_operand (Datatypes.S f) (tname m n ++ TSym S_LPAREN :: r) =
              match parse_name (tname m n ++ TSym S_LPAREN :: r) with
              | Some (m, n, r') =>
                  if starts S_LPAREN r' then
                    match parse_args f (tl r') with Some (args, kw, r2) => Some (ECall m n args kw, r2) | None => None end
                  else Some (EPathRef m n [], r')
              | None => None
              end) by (destruct m; reflexivity).
  rewrite E, parse_name_ok by reflexivity. reflexivity.
Qed.

Lemma wf_list_forallb : forall es,
  (fix go (l : list expr) : bool := match l with [] => true | x :: r => wf x && go r end) es = forallb wf es.
Proof. induction es as [|x r IH]; [reflexivity|]. cbn [forallb]. rewrite <- IH. reflexivity. Qed.

Lemma main_call : forall m fn args kw, Forall Main args -> Forall (fun p => Main (snd p)) kw -> Main (ECall m fn args kw).
Proof.
  intros m fn args kw HMa HMk Hwf c k r f1 Ht Hr Hk Hloop f Hf.
  cbn [wf] in Hwf. apply andb3 in Hwf as (Hwa & Hwk & Hnd). rewrite wf_list_forallb in Hwa. rewrite wf_fields in Hwk.
  unfold need in Hf. rewrite pp_call in *. fold (argsep args kw) in *.
  rewrite !app_length in Hf. cbn [length] in Hf. rewrite !app_length in Hf. cbn [length] in Hf.
  pose proof (length_tname m fn).
  rewrite <- ?app_assoc. cbn [app]. rewrite <- ?app_assoc. cbn [app]. rewrite <- ?app_assoc. cbn [app].
  fuel f. rewrite expr_S. fuel f. rewrite call_operand.
  destruct args as [|x rest].
  - cbn [tcommas argsep app] in *. destruct kw as [|kv kw'].
    + cbn [tcommas app]. fuel f. rewrite args_S_close. apply Hloop. lia.
    + rewrite kw_ok by (assumption || discriminate || lia). apply Hloop. lia.
  - rewrite pos_ok by (assumption || discriminate || lia). apply Hloop. lia.
Qed.

(* ------------------------------------------------------------------ paths over an expression, indirection, shapes *)

Lemma head_bare_facts : forall h, head_bare h = true ->
  (forall c, tight c h = true) /\ (forall k, rspine h k = true).
Proof.
  intros h H. destruct h as [| | | | | | | | |sk es| | | | | | |]; try discriminate; try (split; reflexivity).
Qed.

Lemma okfollow_intro : forall k, starts S_DOUBLECOLON k = false -> starts S_LPAREN k = false -> starts S_ASSIGN k = false ->
  okfollow k = true.
Proof. intros k H1 H2 H3. unfold okfollow. rewrite H1, H2, H3. reflexivity. Qed.

Lemma main_pathexpr : forall h ss, Main h -> Main (EPathExpr h ss).
Proof.
  intros h ss Mh Hwf c k r f1 Ht Hr Hk Hloop f Hf.
  cbn [wf] in Hwf. apply andb_prop in Hwf as [Hwf Hws]. apply andb3 in Hwf as (Hwh & Hnp & Hne).
  apply negb_true_iff in Hnp. destruct ss as [|s ss]; [discriminate|].
  cbn [tight] in Ht. unfold need in Hf. rewrite (pp_pathexpr h (s :: ss) Hwh) in *.
  destruct (steps_follow (s :: ss) k Hk) as (F1 & F2 & F3).
  assert (Hl : forall f, f1 <= f -> parse_loop f c (add_steps h (s :: ss)) k = Some r)
    by (intros f' Hf'; rewrite add_steps_head by assumption; apply Hloop; assumption).
  destruct (head_bare h) eqn:Hb.
  - destruct (head_bare_facts h Hb) as [Th Rh]. rewrite <- app_assoc. rewrite app_length in Hf.
    apply (Mh Hwh c (tsteps (s :: ss) ++ k) r (f1 + 2 * length (tsteps (s :: ss)))); auto.
    + apply okfollow_intro; assumption.
    + intros f' Hf'. apply (loop_steps (s :: ss) h c k r f1); auto.
    + unfold need. lia.
  - cbn [app length] in *. rewrite !app_length in Hf. cbn [length] in Hf.
    rewrite <- ?app_assoc. cbn [app]. rewrite <- ?app_assoc. cbn [app].
    fuel f. rewrite expr_S. rewrite (paren_operand h Mh Hwh) by (unfold need; lia).
    apply (loop_steps (s :: ss) h c k r f1); auto. lia.
Qed.

Definition wf_ix (ix : bool * option expr * option expr) : bool :=
  let '(sl, a, b) := ix in
  (match a with Some x => wf x | None => true end) &&
  (match b with Some x => wf x | None => true end) &&
  (if sl then match a, b with None, None => false | _, _ => true end
   else match a, b with Some _, None => true | _, _ => false end).

Lemma wf_ixs : forall ixs,
  (fix go (l : list (bool * option expr * option expr)) : bool :=
     match l with
     | [] => true
     | (sl, a, b) :: r =>
         (match a with Some x => wf x | None => true end) &&
         (match b with Some x => wf x | None => true end) &&
         (if sl then match a, b with None, None => false | _, _ => true end
          else match a, b with Some _, None => true | _, _ => false end) &&
         go r
     end) ixs = forallb wf_ix ixs.
Proof. induction ixs as [|[[sl a] b] r IH]; [reflexivity|]. cbn [forallb wf_ix]. rewrite <- IH. reflexivity. Qed.

Definition add_indirs (base : expr) (ixs : list (bool * option expr * option expr)) : expr := fold_left add_indir ixs base.

Lemma add_indirs_indir : forall ixs x acc, add_indirs (EIndir x acc) ixs = EIndir x (acc ++ ixs).
Proof.
  induction ixs as [|ix ixs IH]; intros; cbn; [rewrite app_nil_r; reflexivity|].
  unfold add_indirs in IH. rewrite IH, <- app_assoc. reflexivity.
Qed.
Lemma add_indirs_head : forall x ix ixs, is_indir x = false -> add_indirs x (ix :: ixs) = EIndir x (ix :: ixs).
Proof.
  intros x ix ixs H. unfold add_indirs. cbn [fold_left].
  assert (E : add_indir x ix = EIndir x [ix]) by (destruct x; try discriminate; reflexivity).
  rewrite E. apply (add_indirs_indir ixs x [ix]).
Qed.

Lemma first_parts : forall x, wf x = true -> forall k,
  starts S_RPAREN (pp x ++ k) = false /\ starts S_RBRACKET (pp x ++ k) = false /\ starts S_RBRACE (pp x ++ k) = false /\
  starts S_IS (pp x ++ k) = false /\ starts S_COLON (pp x ++ k) = false.
Proof. intros x H k. apply firstbad_starts. apply first_ok; assumption. Qed.

Lemma indir_loop : forall ixs base c k r f1,
  Forall (fun t => optP Main (snd (fst t)) /\ optP Main (snd t)) ixs -> forallb wf_ix ixs = true ->
  shifts c (prec_of S_LBRACKET) = true ->
  (forall f, f1 <= f -> parse_loop f c (add_indirs base ixs) k = Some r) ->
  forall f, f1 + 6 * length (flat_map tix ixs) <= f -> parse_loop f c base (flat_map tix ixs ++ k) = Some r.
Proof.
  induction ixs as [|[[sl a] b] ixs IH]; intros base c k r f1 HM Hwf Hs Hloop f Hf.
  - apply Hloop. cbn in Hf. lia.
  - inversion HM as [|? ? [Ma Mb] Mrest]; subst. cbn [fst snd] in Ma, Mb.
    cbn [forallb] in Hwf. apply andb_prop in Hwf as [Hwix Hwrest].
    unfold wf_ix in Hwix. apply andb3 in Hwix as (Hwa & Hwb & Hshape).
    cbn [flat_map] in *. rewrite app_length in Hf. rewrite <- app_assoc.
    pose proof (shifts_decide _ _ Hs) as Hd.
    assert (Hloop' : forall f, f1 <= f -> parse_loop f c (add_indirs (add_indir base (sl, a, b)) ixs) k = Some r) by exact Hloop.
    set (rest := flat_map tix ixs ++ k) in *.
    destruct sl, a as [a|], b as [b|]; try discriminate; cbn [tix topt app length optP] in *.
    + (* [a:b] *)
      repeat (first [rewrite app_length in Hf | progress (cbn [length] in Hf)]). rewrite <- ?app_assoc. cbn [app]. rewrite <- ?app_assoc. cbn [app].
      destruct (first_parts a Hwa (TSym S_COLON :: pp b ++ TSym S_RBRACKET :: rest)) as (_ & _ & _ & Fis & Fcol).
      destruct (first_parts b Hwb (TSym S_RBRACKET :: rest)) as (_ & Frb & _).
      fuel f. rewrite loop_lbracket by assumption. rewrite Hd, Fcol.
      rewrite (sub_hard a Ma Hwa) by (reflexivity || (unfold need; lia)).
      change (N.eqb S_COLON S_RBRACKET) with false. rewrite N.eqb_refl. rewrite Frb.
      rewrite (sub_hard b Mb Hwb) by (reflexivity || (unfold need; lia)).
      cbn [expect sym_eqb]. rewrite N.eqb_refl. apply (IH _ _ _ _ f1); auto. lia.
    + (* [a:] *)
      repeat (first [rewrite app_length in Hf | progress (cbn [length] in Hf)]). rewrite <- ?app_assoc. cbn [app].
      destruct (first_parts a Hwa (TSym S_COLON :: TSym S_RBRACKET :: rest)) as (_ & _ & _ & Fis & Fcol).
      fuel f. rewrite loop_lbracket by assumption. rewrite Hd, Fcol.
      rewrite (sub_hard a Ma Hwa) by (reflexivity || (unfold need; lia)).
      change (N.eqb S_COLON S_RBRACKET) with false. rewrite N.eqb_refl.
      change (starts S_RBRACKET (TSym S_RBRACKET :: rest)) with true. cbn [tl].
      apply (IH _ _ _ _ f1); auto. lia.
    + (* [:b] *)
      repeat (first [rewrite app_length in Hf | progress (cbn [length] in Hf)]). rewrite <- ?app_assoc. cbn [app].
      fuel f. rewrite loop_lbracket by reflexivity. rewrite Hd.
      change (starts S_COLON (TSym S_COLON :: pp b ++ TSym S_RBRACKET :: rest)) with true. cbn [tl].
      rewrite (sub_hard b Mb Hwb) by (reflexivity || (unfold need; lia)).
      cbn [expect sym_eqb]. rewrite N.eqb_refl. apply (IH _ _ _ _ f1); auto. lia.
    + (* [a] *)
      repeat (first [rewrite app_length in Hf | progress (cbn [length] in Hf)]). rewrite <- ?app_assoc. cbn [app].
      destruct (first_parts a Hwa (TSym S_RBRACKET :: rest)) as (_ & _ & _ & Fis & Fcol).
      fuel f. rewrite loop_lbracket by assumption. rewrite Hd, Fcol.
      rewrite (sub_hard a Ma Hwa) by (reflexivity || (unfold need; lia)).
      rewrite N.eqb_refl. apply (IH _ _ _ _ f1); auto. lia.
Qed.

Lemma main_indir : forall x ixs, Main x -> Forall (fun t => optP Main (snd (fst t)) /\ optP Main (snd t)) ixs ->
  Main (EIndir x ixs).
Proof.
  intros x ixs Mx HM Hwf c k r f1 Ht Hr Hk Hloop f Hf.
  cbn [wf] in Hwf. apply andb_prop in Hwf as [Hwf Hwixs]. apply andb3 in Hwf as (Hwx & Hni & Hne).
  apply negb_true_iff in Hni. rewrite wf_ixs in Hwixs. destruct ixs as [|ix ixs]; [discriminate|].
  cbn [tight] in Ht. unfold need in Hf. rewrite pp_indir in *.
  cbn [app length] in *. rewrite !app_length in Hf. cbn [length] in Hf.
  rewrite <- ?app_assoc. cbn [app].
  fuel f. rewrite expr_S. rewrite (paren_operand x Mx Hwx) by (unfold need; lia).
  apply (indir_loop (ix :: ixs) x c k r f1); auto.
  - intros f' Hf'. rewrite add_indirs_head by assumption. apply Hloop; assumption.
  - lia.
Qed.

Lemma shape_S_comp : forall f n r, parse_shape (Datatypes.S f) (TId n :: TSym S_ASSIGN :: r) =
  match parse_expr f None r with
  | Some (e, TSym s2 :: r2) =>
      if N.eqb s2 S_RBRACE then Some ([(n, Some e)], r2)
      else if N.eqb s2 S_COMMA then
        match parse_shape f r2 with Some (els, r3) => Some ((n, Some e) :: els, r3) | None => None end
      else None
  | _ => None
  end.
Proof. reflexivity. Qed.
Lemma shape_S_close : forall f n r, parse_shape (Datatypes.S f) (TId n :: TSym S_RBRACE :: r) = Some ([(n, None)], r).
Proof. reflexivity. Qed.
Lemma shape_S_comma : forall f n r, parse_shape (Datatypes.S f) (TId n :: TSym S_COMMA :: r) =
  match parse_shape f r with Some (els, r3) => Some ((n, None) :: els, r3) | None => None end.
Proof. reflexivity. Qed.

Lemma wf_els : forall els,
  (fix go (l : list (N * option expr)) : bool :=
     match l with [] => true | (_, c) :: r => (match c with Some y => wf y | None => true end) && go r end) els =
  forallb (fun p => match snd p with Some y => wf y | None => true end) els.
Proof. induction els as [|[n c] r IH]; [reflexivity|]. cbn [forallb snd]. rewrite <- IH. reflexivity. Qed.

Lemma shape_ok : forall els, Forall (fun p => optP Main (snd p)) els ->
  forallb (fun p => match snd p with Some y => wf y | None => true end) els = true -> els <> [] ->
  forall k f, 6 * length (tcommas tel els) + 8 <= f ->
  parse_shape f (tcommas tel els ++ TSym S_RBRACE :: k) = Some (els, k).
Proof.
  induction els as [|[n cx] rest IH]; intros HM Hwf Hne k f Hf; [congruence|].
  inversion HM as [|? ? Mx Mrest]; subst. cbn [snd] in Mx. cbn [forallb snd] in Hwf. apply andb_prop in Hwf as [Hwx Hwrest].
  destruct rest as [|y rest].
  - cbn [tcommas tel app length] in *. destruct cx as [x|]; cbn [app length optP] in *.
    + fuel f. rewrite shape_S_comp. rewrite (sub_hard x Mx Hwx) by (reflexivity || (unfold need; lia)).
      rewrite N.eqb_refl. reflexivity.
    + fuel f. rewrite shape_S_close. reflexivity.
  - rewrite tcommas_cons2 in *. rewrite app_length in Hf. cbn [length] in Hf. rewrite <- app_assoc. cbn [app].
    destruct cx as [x|]; cbn [tel app length optP] in *.
    + rewrite <- ?app_assoc. cbn [app]. fuel f. rewrite shape_S_comp.
      rewrite (sub_hard x Mx Hwx) by (reflexivity || (unfold need; lia)).
      change (N.eqb S_COMMA S_RBRACE) with false. rewrite N.eqb_refl.
      rewrite IH; [reflexivity|assumption|assumption|discriminate|lia].
    + fuel f. rewrite shape_S_comma. rewrite IH; [reflexivity|assumption|assumption|discriminate|lia].
Qed.

Lemma main_shape : forall x els, Main x -> Forall (fun p => optP Main (snd p)) els -> Main (EShape x els).
Proof.
  intros x els Mx HM Hwf c k r f1 Ht Hr Hk Hloop f Hf.
  cbn [wf] in Hwf. apply andb_prop in Hwf as [Hwf Hwels]. apply andb3 in Hwf as (Hwx & Hrx & Hne).
  rewrite wf_els in Hwels. cbn [tight] in Ht. apply andb_prop in Ht as [Htx Hsh].
  destruct els as [|el els]; [discriminate|].
  unfold need in Hf. rewrite pp_shape in *. rewrite !app_length in Hf. cbn [length] in Hf. rewrite app_length in Hf. cbn [length] in Hf.
  pose proof (twrap_length (swallows LBrace x) (pp x)) as Hwl'.
  rewrite <- ?app_assoc. cbn [app]. rewrite <- ?app_assoc. cbn [app].
  set (rest := TSym S_LBRACE :: tcommas tel (el :: els) ++ TSym S_RBRACE :: k).
  assert (HL : forall f', f1 + 6 * length (tcommas tel (el :: els)) + 9 <= f' -> parse_loop f' c x rest = Some r).
  { intros f' Hf'. unfold rest. fuel f'. rewrite loop_lbrace. rewrite (shifts_decide _ _ Hsh).
    rewrite shape_ok; [|assumption|assumption|discriminate|lia]. apply Hloop. lia. }
  destruct (swallows LBrace x); cbn [twrap orb] in *.
  - cbn [app]. rewrite <- app_assoc. cbn [app]. cbn [length] in Hf. rewrite app_length in Hf. cbn [length] in Hf.
    fuel f. rewrite expr_S. rewrite (paren_operand x Mx Hwx) by (unfold need; lia). apply HL. lia.
  - apply (Mx Hwx c rest r (f1 + 6 * length (tcommas tel (el :: els)) + 9)); auto.
    + unfold rest. rewrite (rspine_hd x _ _ []). exact Hrx.
    + unfold need. lia.
Qed.

(* ------------------------------------------------------------------ the theorem *)

Theorem main : forall e, Main e.
Proof.
  induction e as [ck nn v|i|m n ss|ss|h ss IHh|o x IHx|o l r IHl IHr|neg l t IHl|py c0 a b IHc IHa IHb|sk es IHes|fs IHfs|m fn args kw IHargs IHkw|opt t x IHx|x ixs IHx IHixs|x IHx|m n|x els IHx IHels] using expr_ind'.
  - apply main_const.
  - apply main_param.
  - apply main_pathref.
  - apply main_partial.
  - apply main_pathexpr; assumption.
  - apply main_un; assumption.
  - apply main_bin; assumption.
  - apply main_is; assumption.
  - apply main_if; assumption.
  - apply main_seq; assumption.
  - apply main_named; assumption.
  - apply main_call; assumption.
  - apply main_cast; assumption.
  - apply main_indir; assumption.
  - apply main_detached; assumption.
  - apply main_global.
  - apply main_shape; assumption.
Qed.

Lemma rspine_nil : forall e, rspine e [] = true.
Proof. intros e. apply hard_rspine. reflexivity. Qed.

Theorem roundtrip : forall e, wf e = true -> parse (pp e) = Some e.
Proof.
  intros e Hwf. unfold parse.
  pose proof (main e Hwf None [] (e, []) 1 (tight_none e) (rspine_nil e) eq_refl) as H.
  rewrite app_nil_r in H. rewrite H; [reflexivity| |].
  - intros f Hf. apply loop_stops; [reflexivity|assumption].
  - unfold need, fuel_for. lia.
Qed.

Theorem idempotent : forall e e', wf e = true -> parse (pp e) = Some e' -> pp e' = pp e.
Proof. intros e e' Hwf H. rewrite roundtrip in H by assumption. inversion H. reflexivity. Qed.
