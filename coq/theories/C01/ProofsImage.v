(* C01 -- every parser-shaped tree satisfies the computed side conditions of the round-trip lemma:
     image e = true -> wf e = true.
   This is where the printer's own precedence sets (_WEAKER_THAN_NOT, _TIGHTER_THAN_UMINUS: Gen_Grammar.cg_ constants)
   meet the grammar's tables: whenever _prefix_swallows_op answers "no parentheses needed", the LR tables
   really hand the operand back.  The table facts are brute force over the generated rows. *)
From Coq Require Import List NArith Bool Arith Lia.
From Verif.C01 Require Import Gen_Grammar Model ProofsBase Proofs.
Import ListNotations.

Definition all_tight (c : ctx) : bool :=
  shifts c (prec_of S_DOT) && shifts c (prec_of S_DOTBW) && shifts c (prec_of S_AT) &&
  shifts c (prec_of S_LBRACKET) && shifts c (prec_of S_LBRACE).

Lemma tight_all : forall c, all_tight c = true -> forall e, tight c e = true.
Proof.
  intros c H. unfold all_tight in H. apply andb_prop in H as [H H5]. apply andb_prop in H as [H H4].
  apply andb3 in H as (H1 & H2 & H3).
  assert (Hs : forall ss, steps_ok c ss = true).
  { intros ss. unfold steps_ok. apply forallb_forall. intros [[] n|n|t] _; cbn [step_sym]; assumption. }
  induction e as [ck nn v|i|m n ss|ss|h ss IHh|o x IHx|o l r IHl IHr|neg l t IHl|py c0 a b IHc IHa IHb|sk es IHes|fs IHfs|m fn args kw IHargs IHkw|opt t x IHx|x ixs IHx IHixs|x IHx|m n|x els IHx IHels] using expr_ind';
    cbn [tight]; try reflexivity; try apply Hs; try assumption.
  rewrite IHx, H5, orb_true_r. reflexivity.
Qed.

Lemma tight_rows : forall ss o p, In (ss, o, p) binop_table -> all_tight (Some p) = true.
Proof. intros ss o p H. rows H; reflexivity. Qed.

(* stops facts over the rows *)
Lemma stops_not_rows : forall ss o p, In (ss, o, p) binop_table -> cg_weaker (LBin o) = true ->
  forall k, stops (Some p_not) (sym_toks ss ++ k) = true.
Proof. intros ss o p H. rows H; intros Hw k; try discriminate Hw; reflexivity. Qed.

Lemma stops_um_rows : forall ss o p, In (ss, o, p) binop_table -> cg_tighter (LBin o) = false ->
  forall k, stops (Some p_uplus) (sym_toks ss ++ k) = true /\ stops (Some p_uminus) (sym_toks ss ++ k) = true /\
            stops (Some p_exists) (sym_toks ss ++ k) = true /\ stops (Some p_distinct) (sym_toks ss ++ k) = true.
Proof. intros ss o p H. rows H; intros Hw k; try discriminate Hw; repeat split; reflexivity. Qed.

Lemma stops_hi_rows : forall ss o p, In (ss, o, p) binop_table ->
  forall k, stops (Some p_typecast) (sym_toks ss ++ k) = true /\ stops (Some p_detached) (sym_toks ss ++ k) = true.
Proof. intros ss o p H. rows H; intros k; split; reflexivity. Qed.

Lemma un_prec_stops : forall o k, o <> UNot ->
  stops (Some p_uplus) k = true -> stops (Some p_uminus) k = true -> stops (Some p_exists) k = true ->
  stops (Some p_distinct) k = true -> stops (Some (un_prec o)) k = true.
Proof. intros [] k H; intros; try assumption. congruence. Qed.

Lemma swallows_bin_rspine : forall l ss o p, In (ss, o, p) binop_table -> swallows (LBin o) l = false ->
  forall k, rspine l (sym_toks ss ++ k) = true.
Proof.
  intros l ss o p Hin.
  induction l as [ck nn v|i|m n ss0|ss0|h ss0 IHh|uo x IHx|o' l r IHl IHr|neg l t IHl|py c0 a b IHc IHa IHb|sk es IHes|fs IHfs|m fn args kw IHargs IHkw|opt t x IHx|x ixs IHx IHixs|x IHx|m n|x els IHx IHels] using expr_ind';
    intros Hs k; cbn [rspine]; try reflexivity.
  - destruct ck; try reflexivity. destruct nn; try reflexivity. cbn [swallows] in Hs.
    destruct (stops_um_rows _ _ _ Hin Hs k) as (_ & H & _). exact H.
  - destruct uo; cbn [swallows un_word un_prec] in *.
    + destruct (cg_tighter (LBin o)) eqn:E; [discriminate|].
      destruct (stops_um_rows _ _ _ Hin E k) as (H1 & _). rewrite H1. cbn. apply IHx. exact Hs.
    + destruct (cg_tighter (LBin o)) eqn:E; [discriminate|].
      destruct (stops_um_rows _ _ _ Hin E k) as (_ & H1 & _). rewrite H1. cbn. apply IHx. exact Hs.
    + apply negb_false_iff in Hs. rewrite (stops_not_rows _ _ _ Hin Hs). reflexivity.
    + destruct (cg_tighter (LBin o)) eqn:E; [discriminate|].
      destruct (stops_um_rows _ _ _ Hin E k) as (_ & _ & H1 & _). rewrite H1. reflexivity.
    + destruct (cg_tighter (LBin o)) eqn:E; [discriminate|].
      destruct (stops_um_rows _ _ _ Hin E k) as (_ & _ & _ & H1). rewrite H1. reflexivity.
  - cbn [swallows] in Hs. destruct (stops_hi_rows _ _ _ Hin k) as (H1 & _). rewrite H1. cbn. apply IHx. exact Hs.
  - cbn [swallows] in Hs. destruct (stops_hi_rows _ _ _ Hin k) as (_ & H1). rewrite H1. cbn. apply IHx. exact Hs.
Qed.

Lemma swallows_is_rspine : forall l, swallows LIs l = false -> forall k, rspine l (TSym S_IS :: k) = true.
Proof.
  induction l as [ck nn v|i|m n ss0|ss0|h ss0 IHh|uo x IHx|o' l r IHl IHr|neg l t IHl|py c0 a b IHc IHa IHb|sk es IHes|fs IHfs|m fn args kw IHargs IHkw|opt t x IHx|x ixs IHx IHixs|x IHx|m n|x els IHx IHels] using expr_ind';
    intros Hs k; cbn [rspine]; try reflexivity.
  - destruct ck; try reflexivity. destruct nn; reflexivity.
  - destruct uo; cbn [swallows un_word un_prec cg_tighter cg_weaker negb] in *; try discriminate;
      try (change (stops (Some p_uplus) (TSym S_IS :: k)) with true); try (change (stops (Some p_uminus) (TSym S_IS :: k)) with true);
      try reflexivity; cbn [andb]; apply IHx; exact Hs.
  - cbn [swallows] in Hs. change (stops (Some p_typecast) (TSym S_IS :: k)) with true. cbn [andb]. apply IHx. exact Hs.
  - cbn [swallows] in Hs. change (stops (Some p_detached) (TSym S_IS :: k)) with true. cbn [andb]. apply IHx. exact Hs.
Qed.

Lemma brace_tighter_true : cg_brace_tighter = true.
Proof. reflexivity. Qed.

Lemma swallows_brace_rspine : forall l, swallows LBrace l = false -> forall k, rspine l (TSym S_LBRACE :: k) = true.
Proof.
  induction l as [ck nn v|i|m n ss0|ss0|h ss0 IHh|uo x IHx|o' l r IHl IHr|neg l t IHl|py c0 a b IHc IHa IHb|sk es IHes|fs IHfs|m fn args kw IHargs IHkw|opt t x IHx|x ixs IHx IHixs|x IHx|m n|x els IHx IHels] using expr_ind';
    intros Hs k; cbn [rspine]; try reflexivity.
  - destruct ck; try reflexivity. destruct nn; try reflexivity. cbn [swallows cg_tighter] in Hs.
    rewrite brace_tighter_true in Hs. discriminate.
  - destruct uo; cbn [swallows cg_tighter cg_weaker negb] in Hs; try rewrite brace_tighter_true in Hs; discriminate.
  - cbn [swallows] in Hs. discriminate.
  - cbn [swallows] in Hs. change (stops (Some p_detached) (TSym S_LBRACE :: k)) with true. cbn [andb]. apply IHx. exact Hs.
Qed.

Lemma rspine_if : forall e k, rspine e (TSym S_IF :: k) = true.
Proof.
  induction e as [ck nn v|i|m n ss0|ss0|h ss0 IHh|uo x IHx|o' l r IHl IHr|neg l t IHl|py c0 a b IHc IHa IHb|sk es IHes|fs IHfs|m fn args kw IHargs IHkw|opt t x IHx|x ixs IHx IHixs|x IHx|m n|x els IHx IHels] using expr_ind';
    intros k; cbn [rspine]; try reflexivity.
  - destruct ck; try reflexivity. destruct nn; reflexivity.
  - destruct uo; cbn [un_word un_prec]; try reflexivity; rewrite IHx; reflexivity.
  - rewrite IHx. reflexivity.
  - rewrite IHx. reflexivity.
Qed.

Lemma det_paren_tight : forall x, image x = true -> det_paren x = false -> tight (Some p_detached) x = true.
Proof.
  intros x Hi Hd. destruct x as [| |m n ss|ss| | | | | | | | | | | | |y els]; try reflexivity; try discriminate.
  - destruct ss; [reflexivity|discriminate].
  - destruct ss as [|s [|s2 ss]]; try reflexivity. discriminate.
  - cbn [image] in Hi. destruct els; [rewrite andb_false_r in Hi; cbn in Hi; discriminate|discriminate].
Qed.

(* ------------------------------------------------------------------ image -> wf *)

Lemma image_list : forall es, Forall (fun x => image x = true -> wf x = true) es ->
  (fix go (l : list expr) : bool := match l with [] => true | x :: r => image x && go r end) es = true ->
  (fix go (l : list expr) : bool := match l with [] => true | x :: r => wf x && go r end) es = true.
Proof.
  induction es as [|x r IH]; intros HF H; [reflexivity|]. inversion HF as [|? ? Hx Hr]; subst.
  apply andb_prop in H as [G1 G2]. rewrite (Hx G1). cbn [andb]. apply IH; assumption.
Qed.

Lemma image_fields : forall fs, Forall (fun p => image (snd p) = true -> wf (snd p) = true) fs ->
  (fix go (l : list (N * expr)) : bool := match l with [] => true | (_, x) :: r => image x && go r end) fs = true ->
  (fix go (l : list (N * expr)) : bool := match l with [] => true | (_, x) :: r => wf x && go r end) fs = true.
Proof.
  induction fs as [|[n x] r IH]; intros HF H; [reflexivity|]. inversion HF as [|? ? Hx Hr]; subst. cbn [snd] in Hx.
  apply andb_prop in H as [G1 G2]. rewrite (Hx G1). cbn [andb]. apply IH; assumption.
Qed.

Theorem image_wf : forall e, image e = true -> wf e = true.
Proof.
  induction e as [ck nn v|i|m n ss|ss|h ss IHh|o x IHx|o l r IHl IHr|neg l t IHl|py c0 a b IHc IHa IHb|sk es IHes|fs IHfs|m fn args kw IHargs IHkw|opt t x IHx|x ixs IHx IHixs|x IHx|m n|x els IHx IHels] using expr_ind';
    intros Hi; cbn [image wf] in *; try assumption.
  - (* EPathExpr *)
    apply andb_prop in Hi as [Hi H4]. apply andb3 in Hi as (H1 & H2 & H3). rewrite (IHh H1), H2, H3, H4. reflexivity.
  - (* EUn *)
    apply andb_prop in Hi as [H1 H2]. rewrite (IHx H1), H2. cbn [andb].
    destruct (un_word o); [reflexivity|]. rewrite andb_true_r.
    apply tight_all. destruct o; reflexivity.
  - (* EBin *)
    apply andb3 in Hi as (H1 & H2 & H3). rewrite (IHl H1), (IHr H2). cbn [andb].
    destruct (binop_row binop_table o) as [[ss p]|] eqn:Erow; [|discriminate].
    pose proof (binop_row_in _ _ _ _ Erow) as Hin.
    rewrite (tight_all _ (tight_rows _ _ _ Hin)). rewrite andb_true_r.
    destruct (swallows (LBin o) l) eqn:Es; [reflexivity|]. cbn [orb].
    rewrite <- (app_nil_r (sym_toks ss)). apply (swallows_bin_rspine l ss o p Hin Es).
  - (* EIs *)
    apply andb_prop in Hi as [H1 H2]. rewrite (IHl H1), H2. cbn [andb].
    destruct (swallows LIs l) eqn:Es; [reflexivity|]. apply swallows_is_rspine. exact Es.
  - (* EIf *)
    apply andb3 in Hi as (H1 & H2 & H3). rewrite (IHc H1), (IHa H2), (IHb H3).
    destruct py; cbn [andb].
    + rewrite rspine_if. apply tight_all. reflexivity.
    + apply tight_all. reflexivity.
  - (* ESeq *) apply image_list; assumption.
  - (* ENamedTuple *)
    apply andb_prop in Hi as [H1 H2]. rewrite H1. cbn [andb]. apply image_fields; assumption.
  - (* ECall *)
    apply andb3 in Hi as (H1 & H2 & H3). rewrite (image_list _ IHargs H1), (image_fields _ IHkw H2), H3. reflexivity.
  - (* ECast *)
    apply andb_prop in Hi as [H1 H2]. rewrite H1, (IHx H2). cbn [andb]. apply tight_all. reflexivity.
  - (* EIndir *)
    apply andb_prop in Hi as [Hi H4]. apply andb3 in Hi as (H1 & H2 & H3). rewrite (IHx H1), H2, H3. cbn [andb].
    clear H3. induction ixs as [|[[sl a] b] r IHr]; [reflexivity|].
    inversion IHixs as [|? ? [Ha Hb] Hr']; subst. cbn [fst snd] in Ha, Hb.
    apply andb_prop in H4 as [H4 H5]. apply andb3 in H4 as (Ga & Gb & Gs).
    assert (Wa : match a with Some x0 => wf x0 | None => true end = true) by (destruct a; [apply Ha; assumption|reflexivity]).
    assert (Wb : match b with Some x0 => wf x0 | None => true end = true) by (destruct b; [apply Hb; assumption|reflexivity]).
    rewrite Wa, Wb, Gs. cbn [andb]. apply IHr; assumption.
  - (* EDetached *)
    rewrite (IHx Hi). cbn [andb]. destruct (det_paren x) eqn:Ed; [reflexivity|]. apply det_paren_tight; assumption.
  - (* EShape *)
    apply andb_prop in Hi as [Hi H3]. apply andb_prop in Hi as [H1 H2]. rewrite (IHx H1), H2. cbn [andb].
    assert (Hr : (swallows LBrace x || rspine x [TSym S_LBRACE]) = true).
    { destruct (swallows LBrace x) eqn:Es; [reflexivity|]. apply swallows_brace_rspine. exact Es. }
    rewrite Hr. cbn [andb]. clear H2 Hr.
    induction els as [|[n c] r IHr]; [reflexivity|].
    inversion IHels as [|? ? Hc Hr']; subst. cbn [snd] in Hc.
    apply andb_prop in H3 as [G1 G2].
    assert (Wc : match c with Some y => wf y | None => true end = true) by (destruct c; [apply Hc; assumption|reflexivity]).
    rewrite Wc. cbn [andb]. apply IHr; assumption.
Qed.

Theorem roundtrip_image : forall e, image e = true -> parse (pp e) = Some e.
Proof. intros e H. apply roundtrip. apply image_wf. exact H. Qed.
