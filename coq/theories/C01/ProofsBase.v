(* C01 -- lemmas.  Main result: for every tree e with wf e = true,
     parse (pp e) = Some e        (any depth / width; the decisions are those of the generated tables). *)
From Coq Require Import List NArith Bool Arith Lia.
From Verif.C01 Require Import Gen_Grammar Model.
Import ListNotations.

Local Open Scope nat_scope.
(* ------------------------------------------------------------------ induction principles *)

Section TexprInd.
  Variable P : texpr -> Prop.
  Hypothesis HName : forall m n, P (TyName m n).
  Hypothesis HColl : forall m n subs, Forall P subs -> P (TyColl m n subs).
  Fixpoint texpr_ind' (t : texpr) : P t :=
    match t with
    | TyName m n => HName m n
    | TyColl m n subs =>
        HColl m n subs ((fix go (l : list texpr) : Forall P l :=
                           match l with [] => Forall_nil _ | x :: r => Forall_cons x (texpr_ind' x) (go r) end) subs)
    end.
End TexprInd.

Section ExprInd.
  Variable P : expr -> Prop.
  Definition optP (o : option expr) : Prop := match o with Some x => P x | None => True end.
  Hypothesis HConst : forall k n v, P (EConst k n v).
  Hypothesis HParam : forall i, P (EParam i).
  Hypothesis HPathRef : forall m n ss, P (EPathRef m n ss).
  Hypothesis HPathPartial : forall ss, P (EPathPartial ss).
  Hypothesis HPathExpr : forall h ss, P h -> P (EPathExpr h ss).
  Hypothesis HUn : forall o x, P x -> P (EUn o x).
  Hypothesis HBin : forall o l r, P l -> P r -> P (EBin o l r).
  Hypothesis HIs : forall neg l t, P l -> P (EIs neg l t).
  Hypothesis HIf : forall py c a b, P c -> P a -> P b -> P (EIf py c a b).
  Hypothesis HSeq : forall k es, Forall P es -> P (ESeq k es).
  Hypothesis HNamed : forall fs, Forall (fun p => P (snd p)) fs -> P (ENamedTuple fs).
  Hypothesis HCall : forall m f args kw, Forall P args -> Forall (fun p => P (snd p)) kw -> P (ECall m f args kw).
  Hypothesis HCast : forall o t x, P x -> P (ECast o t x).
  Hypothesis HIndir : forall x ixs, P x -> Forall (fun t => optP (snd (fst t)) /\ optP (snd t)) ixs -> P (EIndir x ixs).
  Hypothesis HDetached : forall x, P x -> P (EDetached x).
  Hypothesis HGlobal : forall m n, P (EGlobal m n).
  Hypothesis HShape : forall x els, P x -> Forall (fun p => optP (snd p)) els -> P (EShape x els).

  Fixpoint expr_ind' (e : expr) : P e :=
    let optp (o : option expr) : optP o := match o with Some x => expr_ind' x | None => I end in
    match e with
    | EConst k n v => HConst k n v
    | EParam i => HParam i
    | EPathRef m n ss => HPathRef m n ss
    | EPathPartial ss => HPathPartial ss
    | EPathExpr h ss => HPathExpr h ss (expr_ind' h)
    | EUn o x => HUn o x (expr_ind' x)
    | EBin o l r => HBin o l r (expr_ind' l) (expr_ind' r)
    | EIs neg l t => HIs neg l t (expr_ind' l)
    | EIf py c a b => HIf py c a b (expr_ind' c) (expr_ind' a) (expr_ind' b)
    | ESeq k es =>
        HSeq k es ((fix go (l : list expr) : Forall P l :=
                      match l with [] => Forall_nil _ | x :: r => Forall_cons x (expr_ind' x) (go r) end) es)
    | ENamedTuple fs =>
        HNamed fs ((fix go (l : list (N * expr)) : Forall (fun p => P (snd p)) l :=
                      match l with [] => Forall_nil _ | (n, x) :: r => Forall_cons (n, x) (expr_ind' x) (go r) end) fs)
    | ECall m f args kw =>
        HCall m f args kw
          ((fix go (l : list expr) : Forall P l :=
              match l with [] => Forall_nil _ | x :: r => Forall_cons x (expr_ind' x) (go r) end) args)
          ((fix go (l : list (N * expr)) : Forall (fun p => P (snd p)) l :=
              match l with [] => Forall_nil _ | (n, x) :: r => Forall_cons (n, x) (expr_ind' x) (go r) end) kw)
    | ECast o t x => HCast o t x (expr_ind' x)
    | EIndir x ixs =>
        HIndir x ixs (expr_ind' x)
          ((fix go (l : list (bool * option expr * option expr)) : Forall (fun t => optP (snd (fst t)) /\ optP (snd t)) l :=
              match l with
              | [] => Forall_nil _
              | (sl, a, b) :: r => Forall_cons (sl, a, b) (conj (optp a) (optp b)) (go r)
              end) ixs)
    | EDetached x => HDetached x (expr_ind' x)
    | EGlobal m n => HGlobal m n
    | EShape x els =>
        HShape x els (expr_ind' x)
          ((fix go (l : list (N * option expr)) : Forall (fun p => optP (snd p)) l :=
              match l with [] => Forall_nil _ | (n, c) :: r => Forall_cons (n, c) (optp c) (go r) end) els)
    end.
End ExprInd.

(* ------------------------------------------------------------------ basics *)

Lemma toks_app : forall a b, toks (a ++ b) = toks a ++ toks b.
Proof. induction a as [|[t|] a IH]; intros; cbn; rewrite ?IH; reflexivity. Qed.

Lemma andb3 : forall a b c, a && b && c = true -> a = true /\ b = true /\ c = true.
Proof. intros a b c H. apply andb_prop in H as [H1 H3]. apply andb_prop in H1 as [H1 H2]. auto. Qed.

Definition okfollow (k : list tok) : bool :=
  negb (starts S_DOUBLECOLON k) && negb (starts S_LPAREN k) && negb (starts S_ASSIGN k).

(* ------------------------------------------------------------------ the operator loop *)

Lemma decide_none : forall la, decide None la = DShift.
Proof. reflexivity. Qed.

Lemma loop_stops : forall c k e f, stops c k = true -> 1 <= f -> parse_loop f c e k = Some (e, k).
Proof.
  intros c k e f H Hf. destruct f as [|f]; [lia|].
  destruct k as [|t k]; [reflexivity|]. destruct t; try reflexivity.
  cbn [stops] in H.
  assert (Hd : is_loop_sym s = true -> decide c (prec_of s) = DReduce).
  { intro E; rewrite E in H. unfold reduces in H. destruct (decide c (prec_of s)); congruence. }
  unfold is_loop_sym in Hd. cbn [parse_loop].
  destruct (N.eqb s S_DOT); [rewrite Hd by reflexivity; reflexivity|].
  destruct (N.eqb s S_DOTBW); [rewrite Hd by reflexivity; reflexivity|].
  destruct (N.eqb s S_AT); [rewrite Hd by reflexivity; reflexivity|].
  cbn [orb].
  destruct (N.eqb s S_LBRACKET); [rewrite Hd by reflexivity; reflexivity|].
  destruct (N.eqb s S_LBRACE); [rewrite Hd by reflexivity; reflexivity|].
  destruct (N.eqb s S_IS); [rewrite Hd by reflexivity; reflexivity|].
  destruct (N.eqb s S_IF); [rewrite Hd by reflexivity; reflexivity|].
  destruct (starts_binop binop_table s); [rewrite Hd by reflexivity; reflexivity|].
  reflexivity.
Qed.

(* symbols after which the loop always hands its operand back *)
Definition hard (k : list tok) : bool :=
  match k with
  | TSym s :: _ => negb (is_loop_sym s)
  | _ => true
  end.

Lemma hard_stops : forall c k, hard k = true -> stops c k = true.
Proof.
  intros c k H. destruct k as [|[] k]; try reflexivity. cbn in *.
  destruct (is_loop_sym s); [discriminate|reflexivity].
Qed.

Lemma hard_rspine : forall e k, hard k = true -> rspine e k = true.
Proof.
  induction e as [ck nn v|i|m n ss|ss|h ss IHh|o x IHx|o l r IHl IHr|neg l t IHl|py c0 a b IHc IHa IHb|sk es IHes|fs IHfs|m fn args kw IHargs IHkw|opt t x IHx|x ixs IHx IHixs|x IHx|m n|x els IHx IHels] using expr_ind'; intros kk Hk; cbn [rspine]; try reflexivity.
  - destruct ck; try reflexivity. destruct nn; try reflexivity. apply hard_stops; assumption.
  - rewrite hard_stops by assumption. destruct (un_word o); [reflexivity|]. cbn. apply IHx; assumption.
  - rewrite hard_stops by assumption. cbn. apply IHx; assumption.
  - rewrite hard_stops by assumption. cbn. apply IHx; assumption.
Qed.

Lemma stops_hd : forall c t k1 k2, stops c (t :: k1) = stops c (t :: k2).
Proof. intros. destruct t; reflexivity. Qed.

Lemma rspine_hd : forall e t k1 k2, rspine e (t :: k1) = rspine e (t :: k2).
Proof.
  induction e as [ck nn v|i|m n ss|ss|h ss IHh|o x IHx|o l r IHl IHr|neg l t IHl|py c0 a b IHc IHa IHb|sk es IHes|fs IHfs|m fn args kw IHargs IHkw|opt t x IHx|x ixs IHx IHixs|x IHx|m n|x els IHx IHels] using expr_ind'; intros; cbn [rspine]; try reflexivity.
  - rewrite (stops_hd _ t k1 k2). destruct (un_word o); [reflexivity|]. f_equal. apply IHx.
  - rewrite (stops_hd _ t0 k1 k2). f_equal. apply IHx.
  - rewrite (stops_hd _ t k1 k2). f_equal. apply IHx.
Qed.

Lemma steps_ok_none : forall ss, steps_ok None ss = true.
Proof. intros. unfold steps_ok. apply forallb_forall. intros; reflexivity. Qed.

Lemma tight_none : forall e, tight None e = true.
Proof.
  induction e as [ck nn v|i|m n ss|ss|h ss IHh|o x IHx|o l r IHl IHr|neg l t IHl|py c0 a b IHc IHa IHb|sk es IHes|fs IHfs|m fn args kw IHargs IHkw|opt t x IHx|x ixs IHx IHixs|x IHx|m n|x els IHx IHels] using expr_ind'; cbn [tight]; try reflexivity; try apply steps_ok_none.
  rewrite IHx. rewrite orb_true_r. reflexivity.
Qed.

(* ------------------------------------------------------------------ facts about the generated tables
   (brute force over the rows: they are re-proved whenever Gen_Grammar.v is regenerated) *)

Lemma binop_row_in : forall tbl o ss p, binop_row tbl o = Some (ss, p) -> In (ss, o, p) tbl.
Proof.
  induction tbl as [|[[ss' o'] p'] tbl IH]; intros o ss p H; cbn in H; [discriminate|].
  destruct (N.eqb o o') eqn:E.
  - apply N.eqb_eq in E. subst. inversion H; subst. left; reflexivity.
  - right. apply IH; assumption.
Qed.

Lemma binop_row_syms : forall tbl o ss p, binop_row tbl o = Some (ss, p) -> binop_syms tbl o = Some ss.
Proof.
  induction tbl as [|[[ss' o'] p'] tbl IH]; intros o ss p H; cbn in *; [discriminate|].
  destruct (N.eqb o o'); [inversion H; reflexivity|]. eapply IH; eassumption.
Qed.

Ltac rows H := unfold binop_table in H; cbn [In] in H;
  repeat (destruct H as [H|H]; [inversion H; subst; clear H|]); [..|contradiction].

Lemma loop_binop : forall ss o p, In (ss, o, p) binop_table -> forall f c lhs rest,
  parse_loop (Datatypes.S f) c lhs (sym_toks ss ++ rest) =
  match decide c (prec_of (hd 0%N ss)) with
  | DShift => match parse_expr f (Some p) rest with
              | Some (rhs, r3) => parse_loop f c (EBin o lhs rhs) r3
              | None => None
              end
  | DReduce => Some (lhs, sym_toks ss ++ rest)
  | DError => None
  end.
Proof. intros ss o p H f c lhs rest. rows H; reflexivity. Qed.

Lemma row_okfollow : forall ss o p, In (ss, o, p) binop_table -> forall rest, okfollow (sym_toks ss ++ rest) = true.
Proof. intros ss o p H rest. rows H; reflexivity. Qed.

Lemma row_cons : forall ss o p, In (ss, o, p) binop_table -> exists s ss', ss = s :: ss'.
Proof. intros ss o p H. rows H; eauto. Qed.

(* ------------------------------------------------------------------ one-step unfoldings (all by computation) *)

Lemma expr_S : forall f c ts,
  parse_expr (Datatypes.S f) c ts =
  match parse_operand f ts with Some (e, r) => parse_loop f c e r | None => None end.
Proof. reflexivity. Qed.

Lemma op_num : forall f k v r, parse_operand (Datatypes.S f) (TNum k v :: r) = Some (EConst (CNum k) 0 v, r).
Proof. reflexivity. Qed.
Lemma op_str : forall f v r, parse_operand (Datatypes.S f) (TStr v :: r) = Some (EConst CStr 0 v, r).
Proof. reflexivity. Qed.
Lemma op_bytes : forall f v r, parse_operand (Datatypes.S f) (TBytes v :: r) = Some (EConst CBytes 0 v, r).
Proof. reflexivity. Qed.
Lemma op_param : forall f i r, parse_operand (Datatypes.S f) (TParam i :: r) = Some (EParam i, r).
Proof. reflexivity. Qed.
Lemma op_true : forall f r, parse_operand (Datatypes.S f) (TSym S_TRUE :: r) = Some (EConst CBool 0 1%N, r).
Proof. reflexivity. Qed.
Lemma op_false : forall f r, parse_operand (Datatypes.S f) (TSym S_FALSE :: r) = Some (EConst CBool 0 0%N, r).
Proof. reflexivity. Qed.
Lemma op_minus : forall f r, parse_operand (Datatypes.S f) (TSym S_MINUS :: r) =
  match parse_expr f (Some p_uminus) r with Some (e, r2) => Some (mk_neg e, r2) | None => None end.
Proof. reflexivity. Qed.
Lemma op_plus : forall f r, parse_operand (Datatypes.S f) (TSym S_PLUS :: r) =
  match parse_expr f (Some p_uplus) r with Some (e, r2) => Some (EUn UPlus e, r2) | None => None end.
Proof. reflexivity. Qed.
Lemma op_not : forall f r, parse_operand (Datatypes.S f) (TSym S_NOT :: r) =
  match parse_expr f (Some p_not) r with Some (e, r2) => Some (EUn UNot e, r2) | None => None end.
Proof. reflexivity. Qed.
Lemma op_exists : forall f r, parse_operand (Datatypes.S f) (TSym S_EXISTS :: r) =
  match parse_expr f (Some p_exists) r with Some (e, r2) => Some (EUn UExists e, r2) | None => None end.
Proof. reflexivity. Qed.
Lemma op_distinct : forall f r, parse_operand (Datatypes.S f) (TSym S_DISTINCT :: r) =
  match parse_expr f (Some p_distinct) r with Some (e, r2) => Some (EUn UDistinct e, r2) | None => None end.
Proof. reflexivity. Qed.
Lemma op_detached : forall f r, parse_operand (Datatypes.S f) (TSym S_DETACHED :: r) =
  match parse_expr f (Some p_detached) r with Some (e, r2) => Some (EDetached e, r2) | None => None end.
Proof. reflexivity. Qed.
Lemma op_global : forall f r, parse_operand (Datatypes.S f) (TSym S_GLOBAL :: r) =
  match parse_name r with Some (m, n, r2) => Some (EGlobal m n, r2) | None => None end.
Proof. reflexivity. Qed.
Lemma op_cast : forall f r, parse_operand (Datatypes.S f) (TSym S_LANGBRACKET :: r) =
  let cm := if starts S_OPTIONAL r then COpt else if starts S_REQUIRED r then CReq else CNone in
  match parse_type f (match cm with CNone => r | _ => tl r end) with
  | Some (t, r2) =>
      match expect S_RANGBRACKET r2 with
      | Some r3 => match parse_expr f (Some p_typecast) r3 with
                   | Some (e, r4) => Some (ECast cm t e, r4)
                   | None => None
                   end
      | None => None
      end
  | None => None
  end.
Proof. reflexivity. Qed.
Lemma op_if : forall f r, parse_operand (Datatypes.S f) (TSym S_IF :: r) =
  match parse_expr f None r with
  | Some (cnd, r2) =>
      match expect S_THEN r2 with
      | Some r3 =>
          match parse_expr f None r3 with
          | Some (a, r4) =>
              match expect S_ELSE r4 with
              | Some r5 => match parse_expr f (Some p_ifthenelse) r5 with
                           | Some (b, r6) => Some (EIf false cnd a b, r6)
                           | None => None
                           end
              | None => None
              end
          | None => None
          end
      | None => None
      end
  | None => None
  end.
Proof. reflexivity. Qed.

Definition named_prefix (ts : list tok) : bool :=
  match ts with TId _ :: TSym s :: _ => N.eqb s S_ASSIGN | _ => false end.

Lemma op_lparen : forall f r, starts S_RPAREN r = false -> named_prefix r = false ->
  parse_operand (Datatypes.S f) (TSym S_LPAREN :: r) = parse_paren f r.
Proof.
  intros f r H1 H2. cbn [parse_operand]. cbn. rewrite H1.
  destruct r as [|[] r]; try reflexivity. destruct r as [|[] r]; try reflexivity.
  cbn in H2. rewrite H2. reflexivity.
Qed.
Lemma op_lparen_empty : forall f r, parse_operand (Datatypes.S f) (TSym S_LPAREN :: TSym S_RPAREN :: r) = Some (ESeq QTuple [], r).
Proof. reflexivity. Qed.
Lemma op_lparen_named : forall f n r, parse_operand (Datatypes.S f) (TSym S_LPAREN :: TId n :: TSym S_ASSIGN :: r) =
  match parse_named f (TId n :: TSym S_ASSIGN :: r) with Some (fs, r3) => Some (ENamedTuple fs, r3) | None => None end.
Proof. reflexivity. Qed.
Lemma op_lbracket : forall f r, parse_operand (Datatypes.S f) (TSym S_LBRACKET :: r) =
  match parse_list f S_RBRACKET r with Some (es, r2) => Some (ESeq QArray es, r2) | None => None end.
Proof. reflexivity. Qed.
Lemma op_lbrace : forall f r, parse_operand (Datatypes.S f) (TSym S_LBRACE :: r) =
  match parse_list f S_RBRACE r with Some (es, r2) => Some (ESeq QSet es, r2) | None => None end.
Proof. reflexivity. Qed.
Lemma op_dot : forall f n r, parse_operand (Datatypes.S f) (TSym S_DOT :: TId n :: r) = Some (EPathPartial [SPtr false n], r).
Proof. reflexivity. Qed.
Lemma op_dotbw : forall f n r, parse_operand (Datatypes.S f) (TSym S_DOTBW :: TId n :: r) = Some (EPathPartial [SPtr true n], r).
Proof. reflexivity. Qed.
Lemma op_at : forall f n r, parse_operand (Datatypes.S f) (TSym S_AT :: TId n :: r) = Some (EPathPartial [SAt n], r).
Proof. reflexivity. Qed.
Lemma op_name : forall f a r, parse_operand (Datatypes.S f) (TId a :: r) =
  match parse_name (TId a :: r) with
  | Some (m, n, r') =>
      if starts S_LPAREN r' then
        match parse_args f (tl r') with Some (args, kw, r2) => Some (ECall m n args kw, r2) | None => None end
      else Some (EPathRef m n [], r')
  | None => None
  end.
Proof. reflexivity. Qed.

Lemma paren_S : forall f ts, parse_paren (Datatypes.S f) ts =
  match parse_expr f None ts with
  | Some (e, TSym s :: r) =>
      if N.eqb s S_RPAREN then Some (e, r)
      else if N.eqb s S_COMMA then
        match parse_list f S_RPAREN r with Some (es, r2) => Some (ESeq QTuple (e :: es), r2) | None => None end
      else None
  | _ => None
  end.
Proof. reflexivity. Qed.

Lemma list_S : forall f close ts, parse_list (Datatypes.S f) close ts =
  if starts close ts then Some ([], tl ts)
  else match parse_expr f None ts with
       | Some (e, TSym s :: r) =>
           if N.eqb s close then Some ([e], r)
           else if N.eqb s S_COMMA then
             match parse_list f close r with Some (es, r2) => Some (e :: es, r2) | None => None end
           else None
       | _ => None
       end.
Proof. reflexivity. Qed.

(* loop steps *)
Lemma loop_dot : forall f c lhs n r, parse_loop (Datatypes.S f) c lhs (TSym S_DOT :: TId n :: r) =
  match decide c (prec_of S_DOT) with
  | DShift => parse_loop f c (add_step lhs (SPtr false n)) r
  | DReduce => Some (lhs, TSym S_DOT :: TId n :: r) | DError => None end.
Proof. reflexivity. Qed.
Lemma loop_dotbw : forall f c lhs n r, parse_loop (Datatypes.S f) c lhs (TSym S_DOTBW :: TId n :: r) =
  match decide c (prec_of S_DOTBW) with
  | DShift => parse_loop f c (add_step lhs (SPtr true n)) r
  | DReduce => Some (lhs, TSym S_DOTBW :: TId n :: r) | DError => None end.
Proof. reflexivity. Qed.
Lemma loop_at : forall f c lhs n r, parse_loop (Datatypes.S f) c lhs (TSym S_AT :: TId n :: r) =
  match decide c (prec_of S_AT) with
  | DShift => parse_loop f c (add_step lhs (SAt n)) r
  | DReduce => Some (lhs, TSym S_AT :: TId n :: r) | DError => None end.
Proof. reflexivity. Qed.
Lemma loop_isstep : forall f c lhs r, parse_loop (Datatypes.S f) c lhs (TSym S_LBRACKET :: TSym S_IS :: r) =
  match decide c (prec_of S_LBRACKET) with
  | DShift =>
      match parse_type f r with
      | Some (t, r2) => match expect S_RBRACKET r2 with
                        | Some r3 => parse_loop f c (add_step lhs (SIs t)) r3
                        | None => None
                        end
      | None => None
      end
  | DReduce => Some (lhs, TSym S_LBRACKET :: TSym S_IS :: r) | DError => None end.
Proof. reflexivity. Qed.
Lemma loop_lbrace : forall f c lhs r, parse_loop (Datatypes.S f) c lhs (TSym S_LBRACE :: r) =
  match decide c (prec_of S_LBRACE) with
  | DShift => match parse_shape f r with Some (els, r2) => parse_loop f c (EShape lhs els) r2 | None => None end
  | DReduce => Some (lhs, TSym S_LBRACE :: r) | DError => None end.
Proof. reflexivity. Qed.
Lemma loop_is : forall f c lhs r, parse_loop (Datatypes.S f) c lhs (TSym S_IS :: r) =
  match decide c (prec_of S_IS) with
  | DShift =>
      let neg := starts S_NOT r in
      match parse_type_is f (if neg then tl r else r) with
      | Some (t, r2) => parse_loop f c (EIs neg lhs t) r2
      | None => None
      end
  | DReduce => Some (lhs, TSym S_IS :: r) | DError => None end.
Proof. reflexivity. Qed.
Lemma loop_if : forall f c lhs r, parse_loop (Datatypes.S f) c lhs (TSym S_IF :: r) =
  match decide c (prec_of S_IF) with
  | DShift =>
      match parse_expr f None r with
      | Some (cnd, r2) =>
          match expect S_ELSE r2 with
          | Some r3 => match parse_expr f (Some p_ifelse) r3 with
                       | Some (b, r4) => parse_loop f c (EIf true cnd lhs b) r4
                       | None => None
                       end
          | None => None
          end
      | None => None
      end
  | DReduce => Some (lhs, TSym S_IF :: r) | DError => None end.
Proof. reflexivity. Qed.
Lemma loop_lbracket : forall f c lhs r, starts S_IS r = false ->
  parse_loop (Datatypes.S f) c lhs (TSym S_LBRACKET :: r) =
  match decide c (prec_of S_LBRACKET) with
  | DShift =>
      if starts S_COLON r then
        match parse_expr f None (tl r) with
        | Some (b, r2) => match expect S_RBRACKET r2 with
                          | Some r3 => parse_loop f c (add_indir lhs (true, None, Some b)) r3
                          | None => None
                          end
        | None => None
        end
      else
        match parse_expr f None r with
        | Some (a, TSym s2 :: r2) =>
            if N.eqb s2 S_RBRACKET then parse_loop f c (add_indir lhs (false, Some a, None)) r2
            else if N.eqb s2 S_COLON then
              if starts S_RBRACKET r2 then parse_loop f c (add_indir lhs (true, Some a, None)) (tl r2)
              else match parse_expr f None r2 with
                   | Some (b, r3) => match expect S_RBRACKET r3 with
                                     | Some r4 => parse_loop f c (add_indir lhs (true, Some a, Some b)) r4
                                     | None => None
                                     end
                   | None => None
                   end
            else None
        | _ => None
        end
  | DReduce => Some (lhs, TSym S_LBRACKET :: r) | DError => None end.
Proof. intros f c lhs r H. cbn [parse_loop]. cbn. rewrite H. reflexivity. Qed.

(* ------------------------------------------------------------------ printed token lists *)

Definition tname (m : option N) (n : N) : list tok :=
  match m with Some m' => [TId m'; TSym S_DOUBLECOLON; TId n] | None => [TId n] end.

Lemma toks_pp_name : forall m n, toks (pp_name m n) = tname m n.
Proof. destruct m; reflexivity. Qed.

Section TSep.
  Context {A : Type} (f : A -> list tok).
  Fixpoint tcommas (l : list A) : list tok :=
    match l with
    | [] => []
    | x :: r => match r with [] => f x | _ :: _ => f x ++ TSym S_COMMA :: tcommas r end
    end.
End TSep.

Lemma toks_comma_sep : forall A (f : A -> list item) l, toks (comma_sep f l) = tcommas (fun x => toks (f x)) l.
Proof.
  intros A f l. unfold comma_sep. induction l as [|x r IH]; [reflexivity|].
  cbn [sep_by tcommas]. destruct r as [|y r]; [reflexivity|].
  rewrite toks_app. cbn [app]. unfold S at 1. cbn [toks]. rewrite IH. reflexivity.
Qed.

Lemma tcommas_ext : forall A (f g : A -> list tok) l, (forall x, f x = g x) -> tcommas f l = tcommas g l.
Proof.
  intros A f g l H. induction l as [|x r IH]; [reflexivity|]. cbn [tcommas].
  destruct r; [apply H|]. rewrite H, IH. reflexivity.
Qed.

Definition ttype (p : bool) (t : texpr) : list tok := toks (pp_type p t).

Lemma ttype_name : forall p m n, ttype p (TyName m n) = tname m n.
Proof. intros. unfold ttype. cbn [pp_type]. apply toks_pp_name. Qed.

Lemma ttype_coll : forall p m n subs,
  ttype p (TyColl m n subs) =
  (if p then [TSym S_LPAREN] else []) ++ tname m n ++ TSym S_LANGBRACKET :: tcommas (ttype false) subs ++
  TSym S_RANGBRACKET :: (if p then [TSym S_RPAREN] else []).
Proof.
  intros. unfold ttype. cbn [pp_type]. rewrite !toks_app. rewrite toks_pp_name, toks_comma_sep.
  destruct p; reflexivity.
Qed.

Definition tsteps (ss : list pstep) : list tok := toks (pp_steps ss).

Definition tstep (s : pstep) : list tok :=
  match s with
  | SPtr false n => [TSym S_DOT; TId n]
  | SPtr true n => [TSym S_DOTBW; TId n]
  | SAt n => [TSym S_AT; TId n]
  | SIs t => TSym S_LBRACKET :: TSym S_IS :: ttype false t ++ [TSym S_RBRACKET]
  end.

Lemma tsteps_cons : forall s ss, tsteps (s :: ss) = tstep s ++ tsteps ss.
Proof.
  intros. unfold tsteps, pp_steps. cbn [flat_map]. rewrite toks_app. f_equal.
  destruct s as [[] n|n|t]; try reflexivity. cbn [pp_step]. rewrite !toks_app. reflexivity.
Qed.

Lemma tsteps_nil : tsteps [] = [].
Proof. reflexivity. Qed.

(* ------------------------------------------------------------------ names and types *)

Lemma starts_false_neq : forall s k, starts s k = false ->
  match k with TSym s' :: _ => N.eqb s' s = false | _ => True end.
Proof. intros s k H. destruct k as [|[] k]; auto. unfold starts, sym_eqb in H. rewrite N.eqb_sym. exact H. Qed.

Lemma parse_name_ok : forall m n k, starts S_DOUBLECOLON k = false -> parse_name (tname m n ++ k) = Some (m, n, k).
Proof.
  intros [m|] n k H; [reflexivity|]. cbn [tname app].
  apply starts_false_neq in H.
  destruct k as [|[] k]; try reflexivity. destruct k as [|[] k]; try reflexivity.
  cbn [parse_name]. rewrite H. reflexivity.
Qed.

Definition tfollow (k : list tok) : bool := negb (starts S_DOUBLECOLON k) && negb (starts S_LANGBRACKET k).

Definition tneed (t : texpr) : nat := 2 * length (ttype false t) + 2.

Lemma type_S_gen : forall f m n k,
  parse_type (Datatypes.S f) (tname m n ++ k) =
  match parse_name (tname m n ++ k) with
  | Some (m, n, TSym s :: r) =>
      if N.eqb s S_LANGBRACKET then
        match parse_types f r with
        | Some (subs, TSym s2 :: r2) => if N.eqb s2 S_RANGBRACKET then Some (TyColl m n subs, r2) else None
        | _ => None
        end
      else Some (TyName m n, TSym s :: r)
  | Some (m, n, r) => Some (TyName m n, r)
  | None => None
  end.
Proof. intros f [m|] n k; reflexivity. Qed.

Lemma type_S_name : forall f m n k, tfollow k = true ->
  parse_type (Datatypes.S f) (tname m n ++ k) = Some (TyName m n, k).
Proof.
  intros f m n k H. unfold tfollow in H. apply andb_prop in H as [H1 H2].
  apply negb_true_iff in H1. apply negb_true_iff in H2.
  rewrite type_S_gen, parse_name_ok by assumption. apply starts_false_neq in H2.
  destruct k as [|[] k]; try reflexivity. rewrite H2. reflexivity.
Qed.

Lemma type_S_coll : forall f m n r,
  parse_type (Datatypes.S f) (tname m n ++ TSym S_LANGBRACKET :: r) =
  match parse_types f r with
  | Some (subs, TSym s2 :: r2) => if N.eqb s2 S_RANGBRACKET then Some (TyColl m n subs, r2) else None
  | _ => None
  end.
Proof. intros f m n r. rewrite type_S_gen, parse_name_ok by reflexivity. reflexivity. Qed.

Lemma types_S : forall f ts, parse_types (Datatypes.S f) ts =
  match parse_type f ts with
  | Some (t, TSym s :: r) =>
      if N.eqb s S_COMMA then match parse_types f r with Some (l, r2) => Some (t :: l, r2) | None => None end
      else Some ([t], TSym s :: r)
  | Some (t, r) => Some ([t], r)
  | None => None
  end.
Proof. reflexivity. Qed.

Lemma length_tname_pos : forall m n, 1 <= length (tname m n).
Proof. destruct m; cbn; lia. Qed.

Lemma type_ok : forall t, wf_type t = true -> forall k, tfollow k = true ->
  forall f, tneed t <= f -> parse_type f (ttype false t ++ k) = Some (t, k).
Proof.
  induction t as [m n|m n subs IH] using texpr_ind'; intros Hwf k Hk f Hf.
  - rewrite ttype_name. destruct f as [|f]; [unfold tneed in Hf; lia|]. apply type_S_name; assumption.
  - cbn [wf_type] in Hwf. apply andb_prop in Hwf as [Hne Hall].
    unfold tneed in Hf. rewrite ttype_coll in *. cbn [app] in *.
    rewrite <- app_assoc. cbn [app].
    destruct f as [|f]; [lia|]. rewrite type_S_coll.
    rewrite <- app_assoc. cbn [app].
    (* the element list *)
    assert (L : forall f', 2 * length (tcommas (ttype false) subs) + 3 <= f' ->
                parse_types f' (tcommas (ttype false) subs ++ TSym S_RANGBRACKET :: k) = Some (subs, TSym S_RANGBRACKET :: k)).
    { clear Hf f. induction subs as [|x r IHr]; [discriminate|].
      inversion IH as [|? ? Hx Hr]; subst. apply andb_prop in Hall as [Hwx Hwr].
      intros f' Hf'. cbn [tcommas] in *. destruct r as [|y r].
      - destruct f' as [|f']; [lia|]. rewrite types_S.
        rewrite Hx; [reflexivity|assumption|reflexivity|unfold tneed; lia].
      - rewrite app_length in Hf'. cbn [length] in Hf'.
        destruct f' as [|f']; [lia|]. rewrite types_S. rewrite <- app_assoc. cbn [app].
        rewrite Hx; [|assumption|reflexivity|unfold tneed; lia].
        cbn. rewrite IHr; [reflexivity|assumption|reflexivity|assumption|lia]. }
    rewrite app_length in Hf. cbn [length] in Hf. rewrite app_length in Hf. cbn [length] in Hf.
    rewrite L by lia. cbn. reflexivity.
Qed.

Lemma type_paren_ok : forall t, wf_type t = true -> forall k, tfollow k = true ->
  forall f, tneed t + 2 <= f -> parse_type_is f (ttype true t ++ k) = Some (t, k).
Proof.
  intros [m n|m n subs] Hwf k Hk f Hf.
  - rewrite ttype_name. unfold tfollow in Hk. apply andb_prop in Hk as [H1 _]. apply negb_true_iff in H1.
    assert (E : parse_type_is f (tname m n ++ k) =
                match parse_name (tname m n ++ k) with Some (m, n, r) => Some (TyName m n, r) | None => None end)
      by (destruct m; reflexivity).
    rewrite E, parse_name_ok by assumption. reflexivity.
  - pose proof (type_ok (TyColl m n subs) Hwf (TSym S_RPAREN :: k) eq_refl) as T.
    assert (E : ttype true (TyColl m n subs) ++ k = TSym S_LPAREN :: ttype false (TyColl m n subs) ++ TSym S_RPAREN :: k).
    { rewrite !ttype_coll. cbn [app]. rewrite <- !app_assoc. cbn [app]. rewrite <- !app_assoc. reflexivity. }
    rewrite E. destruct f as [|f]; [lia|]. cbn [parse_type_is].
    assert (E2 : forall r, parse_type (Datatypes.S f) (TSym S_LPAREN :: r) =
                 match parse_type f r with
                 | Some (t, TSym s2 :: r2) => if N.eqb s2 S_RPAREN then Some (t, r2) else None
                 | _ => None
                 end) by reflexivity.
    rewrite E2, T by lia. reflexivity.
Qed.

(* ------------------------------------------------------------------ printed form of every constructor *)

Lemma toks_repeat_minus : forall n r, toks (repeat (S S_MINUS) n ++ r) = repeat (TSym S_MINUS) n ++ toks r.
Proof. induction n; intros; cbn; [reflexivity|]. f_equal. apply IHn. Qed.

Lemma toks_sym_items : forall ss, toks (sym_items ss) = sym_toks ss.
Proof.
  unfold sym_items, sym_toks. induction ss as [|s r IH]; [reflexivity|]. cbn [sep_by map].
  destruct r as [|s2 r]; [reflexivity|]. rewrite toks_app. cbn [app toks S]. rewrite IH. reflexivity.
Qed.

Definition tfield (p : N * expr) : list tok := let (n, x) := p in TId n :: TSym S_ASSIGN :: pp x.
Definition topt (o : option expr) : list tok := match o with Some x => pp x | None => [] end.
Definition tix (ix : bool * option expr * option expr) : list tok :=
  let '(sl, a, b) := ix in
  TSym S_LBRACKET :: topt a ++ (if sl then TSym S_COLON :: topt b else []) ++ [TSym S_RBRACKET].
Definition tel (el : N * option expr) : list tok :=
  let (n, c) := el in TId n :: match c with Some y => TSym S_ASSIGN :: pp y | None => [] end.

Lemma toks_repeat_minus' : forall n, toks (repeat (S S_MINUS) n) = repeat (TSym S_MINUS) n.
Proof. induction n; cbn; [reflexivity|]. f_equal. apply IHn. Qed.

Ltac tk := repeat (progress (rewrite ?toks_app, ?toks_pp_name, ?toks_comma_sep, ?toks_sym_items, ?toks_repeat_minus';
                             cbn [app toks S])).

Lemma pp_const : forall k n v, pp (EConst k n v) = repeat (TSym S_MINUS) n ++ [const_tok k v].
Proof. intros. unfold pp. cbn [pp_items]. tk. reflexivity. Qed.
Lemma pp_param : forall i, pp (EParam i) = [TParam i].
Proof. reflexivity. Qed.
Lemma pp_pathref : forall m n ss, pp (EPathRef m n ss) = tname m n ++ tsteps ss.
Proof. intros. unfold pp. cbn [pp_items]. tk. reflexivity. Qed.
Lemma pp_partial : forall ss, pp (EPathPartial ss) = tsteps ss.
Proof. reflexivity. Qed.
Lemma head_bare_p_wf : forall h, wf h = true -> head_bare_p h = head_bare h.
Proof.
  intros h Hwf. unfold head_bare_p. destruct h as [| | | | | | | | | | | | | | | |x els]; try (cbn [skip_empty empty_over_path]; apply orb_false_r).
  destruct els as [|el els].
  - cbn [wf] in Hwf. apply andb_prop in Hwf as [Hwf _]. apply andb_prop in Hwf as [_ Hne]. discriminate.
  - cbn [skip_empty empty_over_path]. apply orb_false_r.
Qed.
Lemma pp_pathexpr : forall h ss, wf h = true ->
  pp (EPathExpr h ss) = (if head_bare h then pp h else TSym S_LPAREN :: pp h ++ [TSym S_RPAREN]) ++ tsteps ss.
Proof. intros h ss Hwf. unfold pp. cbn [pp_items]. rewrite (head_bare_p_wf h Hwf). destruct (head_bare h); tk; reflexivity. Qed.
Lemma pp_un : forall o x,
  pp (EUn o x) = if un_word o then TSym (un_sym o) :: TSym S_LPAREN :: pp x ++ [TSym S_RPAREN]
                 else TSym (un_sym o) :: pp x.
Proof. intros. unfold pp. cbn [pp_items]. destruct o; cbn [un_word]; try destruct (is_uplus x); tk; reflexivity. Qed.

(* an operand that the printer parenthesises when [b] *)
Definition twrap (b : bool) (l : list tok) : list tok := if b then TSym S_LPAREN :: l ++ [TSym S_RPAREN] else l.

Lemma toks_wrap_if : forall b l, toks (wrap_if b l) = twrap b (toks l).
Proof. intros [] l; unfold wrap_if, twrap; tk; reflexivity. Qed.

Lemma pp_bin : forall o l r,
  pp (EBin o l r) = TSym S_LPAREN :: twrap (swallows (LBin o) l) (pp l) ++ sym_toks (op_syms o) ++ pp r ++ [TSym S_RPAREN].
Proof. intros. unfold pp. cbn [pp_items]. tk. rewrite toks_wrap_if. tk. reflexivity. Qed.
Lemma pp_is : forall neg l t,
  pp (EIs neg l t) = TSym S_LPAREN :: twrap (swallows LIs l) (pp l) ++ TSym S_IS :: (if neg then [TSym S_NOT] else []) ++ ttype true t ++ [TSym S_RPAREN].
Proof. intros. unfold pp, ttype. cbn [pp_items]. destruct neg; tk; rewrite toks_wrap_if; tk; reflexivity. Qed.
Lemma pp_if_py : forall c a b,
  pp (EIf true c a b) = TSym S_LPAREN :: pp a ++ TSym S_IF :: pp c ++ TSym S_ELSE :: pp b ++ [TSym S_RPAREN].
Proof. intros. unfold pp. cbn [pp_items]. tk. reflexivity. Qed.
Lemma pp_if_new : forall c a b,
  pp (EIf false c a b) = TSym S_LPAREN :: TSym S_IF :: pp c ++ TSym S_THEN :: pp a ++ TSym S_ELSE :: pp b ++ [TSym S_RPAREN].
Proof. intros. unfold pp. cbn [pp_items]. tk. reflexivity. Qed.
Lemma pp_seq : forall k es,
  pp (ESeq k es) =
  match k with
  | QTuple => TSym S_LPAREN :: tcommas pp es ++ (match es with [_] => [TSym S_COMMA] | _ => [] end) ++ [TSym S_RPAREN]
  | QArray => TSym S_LBRACKET :: tcommas pp es ++ [TSym S_RBRACKET]
  | QSet => TSym S_LBRACE :: tcommas pp es ++ [TSym S_RBRACE]
  end.
Proof.
  intros. unfold pp. cbn [pp_items]. destruct k; tk; try reflexivity.
  destruct es as [|x [|y r]]; reflexivity.
Qed.
Lemma pp_named : forall fs, pp (ENamedTuple fs) = TSym S_LPAREN :: tcommas tfield fs ++ [TSym S_RPAREN].
Proof.
  intros. unfold pp. cbn [pp_items]. tk. f_equal. f_equal. apply tcommas_ext. intros [n x]. reflexivity.
Qed.
Lemma pp_call : forall m f args kw,
  pp (ECall m f args kw) =
  tname m f ++ TSym S_LPAREN :: tcommas pp args ++
  (match args, kw with _ :: _, _ :: _ => [TSym S_COMMA] | _, _ => [] end) ++ tcommas tfield kw ++ [TSym S_RPAREN].
Proof.
  intros. unfold pp. cbn [pp_items]. tk. f_equal. f_equal. f_equal. f_equal.
  - destruct args, kw; reflexivity.
  - f_equal. apply tcommas_ext. intros [n x]. reflexivity.
Qed.
Definition tcmod (cm : cmod) : list tok :=
  match cm with CNone => [] | COpt => [TSym S_OPTIONAL] | CReq => [TSym S_REQUIRED] end.
Lemma pp_cast : forall cm t x,
  pp (ECast cm t x) = TSym S_LANGBRACKET :: tcmod cm ++ ttype false t ++ TSym S_RANGBRACKET :: pp x.
Proof. intros. unfold pp, ttype. cbn [pp_items]. destruct cm; tk; reflexivity. Qed.
Lemma toks_flat_ix : forall ixs, toks (flat_map (pp_ix (fun x => pp_items x)) ixs) = flat_map tix ixs.
Proof.
  induction ixs as [|[[sl a] b] r IH]; [reflexivity|]. cbn [flat_map]. rewrite toks_app, IH. f_equal.
  cbn [pp_ix tix]. destruct sl, a, b; cbn [pp_opt topt]; tk; reflexivity.
Qed.
Lemma pp_indir : forall x ixs, pp (EIndir x ixs) = TSym S_LPAREN :: pp x ++ TSym S_RPAREN :: flat_map tix ixs.
Proof. intros. unfold pp. cbn [pp_items]. tk. rewrite toks_flat_ix. reflexivity. Qed.
Lemma pp_detached : forall x, pp (EDetached x) = TSym S_DETACHED :: twrap (det_paren x) (pp x).
Proof. intros. unfold pp. cbn [pp_items]. tk. rewrite toks_wrap_if. reflexivity. Qed.
Lemma pp_global : forall m n, pp (EGlobal m n) = TSym S_GLOBAL :: tname m n.
Proof. intros. unfold pp. cbn [pp_items]. tk. reflexivity. Qed.
Lemma pp_shape : forall x el els,
  pp (EShape x (el :: els)) = twrap (swallows LBrace x) (pp x) ++ TSym S_LBRACE :: tcommas tel (el :: els) ++ [TSym S_RBRACE].
Proof.
  intros. unfold pp. cbn [pp_items]. tk. rewrite toks_wrap_if. f_equal. f_equal. f_equal. apply tcommas_ext. intros [n [y|]]; reflexivity.
Qed.

(* ------------------------------------------------------------------ first tokens *)

Definition firstbad (ts : list tok) : bool :=
  match ts with
  | TSym s :: _ => existsb (N.eqb s) [S_RPAREN; S_RBRACKET; S_RBRACE; S_IS; S_COLON]
  | [] => true
  | _ => false
  end.

Lemma firstbad_app : forall a b, a <> [] -> firstbad (a ++ b) = firstbad a.
Proof. intros [|t a] b H; [congruence|reflexivity]. Qed.

Lemma tname_nonempty : forall m n, tname m n <> [].
Proof. destruct m; discriminate. Qed.

Lemma first_ok : forall e, wf e = true -> forall k, firstbad (pp e ++ k) = false.
Proof.
  induction e as [ck nn v|i|m n ss|ss|h ss IHh|o x IHx|o l r IHl IHr|neg l t IHl|py c0 a b IHc IHa IHb|sk es IHes|fs IHfs|m fn args kw IHargs IHkw|opt t x IHx|x ixs IHx IHixs|x IHx|m n|x els IHx IHels] using expr_ind';
    intros Hwf k.
  - rewrite pp_const. destruct nn; [|reflexivity]. cbn [repeat app].
    destruct ck; try reflexivity. cbn [const_tok]. destruct (N.eqb v 0); reflexivity.
  - reflexivity.
  - rewrite pp_pathref. destruct m; reflexivity.
  - rewrite pp_partial. cbn [wf] in Hwf. destruct ss as [|[[] n|n|t] ss]; try discriminate; reflexivity.
  - cbn [wf] in Hwf. apply andb_prop in Hwf as [Hwf _]. apply andb_prop in Hwf as [Hwf _].
    apply andb_prop in Hwf as [Hwf _]. rewrite (pp_pathexpr h ss Hwf).
    destruct (head_bare h); [|reflexivity]. rewrite <- app_assoc. apply IHh; assumption.
  - rewrite pp_un. destruct o; reflexivity.
  - rewrite pp_bin. reflexivity.
  - rewrite pp_is. reflexivity.
  - destruct py; [rewrite pp_if_py|rewrite pp_if_new]; reflexivity.
  - rewrite pp_seq. destruct sk; reflexivity.
  - rewrite pp_named. reflexivity.
  - rewrite pp_call. destruct m; reflexivity.
  - rewrite pp_cast. reflexivity.
  - rewrite pp_indir. reflexivity.
  - rewrite pp_detached. reflexivity.
  - rewrite pp_global. reflexivity.
  - cbn [wf] in Hwf. apply andb_prop in Hwf as [Hwf _]. apply andb_prop in Hwf as [Hwf Hne].
    apply andb_prop in Hwf as [Hwf _]. destruct els as [|el els]; [discriminate|]. rewrite pp_shape.
    destruct (swallows LBrace x); cbn [twrap]; [reflexivity|]. rewrite <- app_assoc. apply IHx; assumption.
Qed.

Lemma firstbad_starts : forall ts, firstbad ts = false ->
  starts S_RPAREN ts = false /\ starts S_RBRACKET ts = false /\ starts S_RBRACE ts = false /\
  starts S_IS ts = false /\ starts S_COLON ts = false.
Proof.
  intros [|t ts] H; [discriminate|]. destruct t; try (repeat split; reflexivity).
  unfold firstbad in H. cbn [existsb] in H. unfold starts, sym_eqb.
  rewrite !orb_false_iff in H. destruct H as (H1 & H2 & H3 & H4 & H5 & _).
  rewrite (N.eqb_sym S_RPAREN s), (N.eqb_sym S_RBRACKET s), (N.eqb_sym S_RBRACE s), (N.eqb_sym S_IS s), (N.eqb_sym S_COLON s).
  auto.
Qed.

Lemma tsteps_first : forall ss k, ss <> [] ->
  exists s r, tsteps ss ++ k = TSym s :: r /\ (s = S_DOT \/ s = S_DOTBW \/ s = S_AT \/ s = S_LBRACKET).
Proof.
  intros [|[[] n|n|t] ss] k H; [congruence|..]; rewrite tsteps_cons; cbn [tstep app]; eauto 8.
Qed.

Lemma named_ok : forall e, wf e = true -> forall k, starts S_ASSIGN k = false -> named_prefix (pp e ++ k) = false.
Proof.
  induction e as [ck nn v|i|m n ss|ss|h ss IHh|o x IHx|o l r IHl IHr|neg l t IHl|py c0 a b IHc IHa IHb|sk es IHes|fs IHfs|m fn args kw IHargs IHkw|opt t x IHx|x ixs IHx IHixs|x IHx|m n|x els IHx IHels] using expr_ind';
    intros Hwf k Hk.
  - rewrite pp_const. destruct nn; [|reflexivity]. destruct ck; reflexivity.
  - reflexivity.
  - rewrite pp_pathref. destruct m; [reflexivity|]. cbn [tname app].
    destruct ss as [|s ss].
    + rewrite tsteps_nil. cbn [app]. apply starts_false_neq in Hk. destruct k as [|[] k]; try reflexivity. exact Hk.
    + destruct (tsteps_first (s :: ss) k) as (s' & r & E & Hs); [discriminate|]. rewrite E. cbn.
      destruct Hs as [->|[->|[->| ->]]]; reflexivity.
  - rewrite pp_partial. cbn [wf] in Hwf. destruct ss as [|[[] n|n|t] ss]; try discriminate; reflexivity.
  - cbn [wf] in Hwf. apply andb_prop in Hwf as [Hwf _]. apply andb_prop in Hwf as [Hwf Hss].
    apply andb_prop in Hwf as [Hwf _]. rewrite (pp_pathexpr h ss Hwf).
    destruct (head_bare h); [|reflexivity]. rewrite <- app_assoc. apply IHh; [assumption|].
    destruct ss as [|s ss]; [discriminate|].
    destruct (tsteps_first (s :: ss) k) as (s' & r & E & Hs); [discriminate|]. rewrite E.
    destruct Hs as [->|[->|[->| ->]]]; reflexivity.
  - rewrite pp_un. destruct o; reflexivity.
  - rewrite pp_bin. reflexivity.
  - rewrite pp_is. reflexivity.
  - destruct py; [rewrite pp_if_py|rewrite pp_if_new]; reflexivity.
  - rewrite pp_seq. destruct sk; reflexivity.
  - rewrite pp_named. reflexivity.
  - rewrite pp_call. destruct m; reflexivity.
  - rewrite pp_cast. reflexivity.
  - rewrite pp_indir. reflexivity.
  - rewrite pp_detached. reflexivity.
  - rewrite pp_global. reflexivity.
  - cbn [wf] in Hwf. apply andb_prop in Hwf as [Hwf _]. apply andb_prop in Hwf as [Hwf Hne].
    apply andb_prop in Hwf as [Hwf _]. destruct els as [|el els]; [discriminate|]. rewrite pp_shape.
    destruct (swallows LBrace x); cbn [twrap]; [reflexivity|]. rewrite <- app_assoc. apply IHx; [assumption|reflexivity].
Qed.

(* ------------------------------------------------------------------ path steps *)

Definition add_steps (base : expr) (ss : list pstep) : expr := fold_left add_step ss base.

Lemma add_steps_ref : forall ss m n acc, add_steps (EPathRef m n acc) ss = EPathRef m n (acc ++ ss).
Proof.
  induction ss as [|s ss IH]; intros; cbn; [rewrite app_nil_r; reflexivity|].
  unfold add_steps in IH. rewrite IH, <- app_assoc. reflexivity.
Qed.
Lemma add_steps_partial : forall ss acc, add_steps (EPathPartial acc) ss = EPathPartial (acc ++ ss).
Proof.
  induction ss as [|s ss IH]; intros; cbn; [rewrite app_nil_r; reflexivity|].
  unfold add_steps in IH. rewrite IH, <- app_assoc. reflexivity.
Qed.
Lemma add_steps_pexpr : forall ss h acc, add_steps (EPathExpr h acc) ss = EPathExpr h (acc ++ ss).
Proof.
  induction ss as [|s ss IH]; intros; cbn; [rewrite app_nil_r; reflexivity|].
  unfold add_steps in IH. rewrite IH, <- app_assoc. reflexivity.
Qed.
Lemma add_steps_head : forall h s ss, is_path h = false -> add_steps h (s :: ss) = EPathExpr h (s :: ss).
Proof.
  intros h s ss H. unfold add_steps. cbn [fold_left].
  assert (E : add_step h s = EPathExpr h [s]) by (destruct h; try discriminate; reflexivity).
  rewrite E. apply (add_steps_pexpr ss h [s]).
Qed.

Lemma shifts_decide : forall c p, shifts c p = true -> decide c p = DShift.
Proof. intros c p H. unfold shifts in H. destruct (decide c p); congruence. Qed.

Lemma loop_steps : forall ss base c k r f1,
  forallb wf_step ss = true -> steps_ok c ss = true ->
  (forall f, f1 <= f -> parse_loop f c (add_steps base ss) k = Some r) ->
  forall f, f1 + 2 * length (tsteps ss) <= f -> parse_loop f c base (tsteps ss ++ k) = Some r.
Proof.
  induction ss as [|s ss IH]; intros base c k r f1 Hwf Hok Hloop f Hf.
  - apply Hloop. cbn in Hf. lia.
  - rewrite tsteps_cons in *. rewrite <- app_assoc. rewrite app_length in Hf.
    cbn [forallb] in Hwf. apply andb_prop in Hwf as [Hws Hwss].
    unfold steps_ok in Hok. cbn [forallb] in Hok. apply andb_prop in Hok as [Hs Hss].
    apply shifts_decide in Hs.
    assert (Hloop' : forall f, f1 <= f -> parse_loop f c (add_steps (add_step base s) ss) k = Some r) by exact Hloop.
    destruct f as [|f]; [destruct s as [[] n|n|t]; cbn in Hf; lia|].
    destruct s as [[] n|n|t]; cbn [tstep app step_sym length] in *.
    + rewrite loop_dotbw, Hs. apply (IH _ _ _ _ f1); auto. lia.
    + rewrite loop_dot, Hs. apply (IH _ _ _ _ f1); auto. lia.
    + rewrite loop_at, Hs. apply (IH _ _ _ _ f1); auto. lia.
    + rewrite <- app_assoc. cbn [app]. rewrite loop_isstep, Hs.
      rewrite app_length in Hf. cbn [length] in Hf.
      rewrite type_ok; [|exact Hws|reflexivity|unfold tneed; lia].
      cbn [expect sym_eqb]. rewrite N.eqb_refl. apply (IH _ _ _ _ f1); auto. lia.
Qed.

(* ------------------------------------------------------------------ the main lemma *)

Definition need (e : expr) : nat := 6 * length (pp e) + 6.

Definition Main (e : expr) : Prop :=
  wf e = true -> forall c k r f1,
  tight c e = true -> rspine e k = true -> okfollow k = true ->
  (forall f, f1 <= f -> parse_loop f c e k = Some r) ->
  forall f, f1 + need e <= f -> parse_expr f c (pp e ++ k) = Some r.

Ltac fuel f := destruct f as [|f]; [exfalso; lia|].

Lemma okfollow_parts : forall k, okfollow k = true ->
  starts S_DOUBLECOLON k = false /\ starts S_LPAREN k = false /\ starts S_ASSIGN k = false.
Proof.
  intros k H. unfold okfollow in H. apply andb3 in H as (H1 & H2 & H3).
  rewrite negb_true_iff in *. auto.
Qed.

Lemma main_const : forall ck nn v, Main (EConst ck nn v).
Proof.
  intros ck nn. induction nn as [|nn IH]; intros v Hwf c k r f1 Ht Hr Hk Hloop f Hf; unfold need in Hf;
    rewrite pp_const in *; rewrite app_length, repeat_length in Hf; cbn [length repeat app] in *.
  - fuel f. rewrite expr_S. destruct ck as [nk| | |].
    + cbn [const_tok]. fuel f. rewrite op_num. apply Hloop. lia.
    + cbn [const_tok]. fuel f. rewrite op_str. apply Hloop. lia.
    + cbn [const_tok]. fuel f. rewrite op_bytes. apply Hloop. lia.
    + cbn [wf] in Hwf. cbn [const_tok]. fuel f.
      apply N.ltb_lt in Hwf. assert (Hv : v = 0%N \/ v = 1%N) by lia.
      destruct Hv as [-> | ->]; cbn [N.eqb].
      * rewrite op_false. apply Hloop. lia.
      * change (Pos.eqb 1 1) with true. rewrite op_true. apply Hloop. lia.
  - destruct ck as [nk| | |]; try discriminate.
    fuel f. rewrite expr_S. fuel f. rewrite op_minus.
    assert (Hst : stops (Some p_uminus) k = true) by exact Hr.
    specialize (IH v eq_refl (Some p_uminus) k (EConst (CNum nk) nn v, k) 1).
    rewrite pp_const in IH. rewrite IH.
    + cbn [mk_neg]. apply Hloop. lia.
    + reflexivity.
    + destruct nn; [reflexivity|exact Hst].
    + assumption.
    + intros f' Hf'. apply loop_stops; assumption.
    + unfold need. rewrite pp_const, app_length, repeat_length. cbn [length]. lia.
Qed.

Lemma main_param : forall i, Main (EParam i).
Proof.
  intros i Hwf c k r f1 Ht Hr Hk Hloop f Hf. unfold need in Hf. rewrite pp_param in *. cbn [length app] in *.
  fuel f. rewrite expr_S. fuel f. rewrite op_param. apply Hloop. lia.
Qed.

Lemma name_operand : forall f m n r, starts S_DOUBLECOLON r = false -> starts S_LPAREN r = false ->
  parse_operand (Datatypes.S f) (tname m n ++ r) = Some (EPathRef m n [], r).
Proof.
  intros f m n r H1 H2.
  assert (E : parse_operand (Datatypes.S f) (tname m n ++ r) =
              match parse_name (tname m n ++ r) with
              | Some (m, n, r') =>
                  if starts S_LPAREN r' then
                    match parse_args f (tl r') with Some (args, kw, r2) => Some (ECall m n args kw, r2) | None => None end
                  else Some (EPathRef m n [], r')
              | None => None
              end) by (destruct m; reflexivity).
  rewrite E, parse_name_ok by assumption. rewrite H2. reflexivity.
Qed.

Lemma steps_follow : forall ss k, okfollow k = true ->
  starts S_DOUBLECOLON (tsteps ss ++ k) = false /\ starts S_LPAREN (tsteps ss ++ k) = false /\
  starts S_ASSIGN (tsteps ss ++ k) = false.
Proof.
  intros [|s ss] k H.
  - rewrite tsteps_nil. apply okfollow_parts; assumption.
  - destruct (tsteps_first (s :: ss) k) as (s' & r & E & Hs); [discriminate|]. rewrite E.
    destruct Hs as [->|[->|[->| ->]]]; repeat split; reflexivity.
Qed.

Lemma length_tname : forall m n, 1 <= length (tname m n).
Proof. destruct m; cbn; lia. Qed.

Lemma main_pathref : forall m n ss, Main (EPathRef m n ss).
Proof.
  intros m n ss Hwf c k r f1 Ht Hr Hk Hloop f Hf. unfold need in Hf. rewrite pp_pathref in *.
  rewrite <- app_assoc. rewrite app_length in Hf. pose proof (length_tname m n).
  destruct (steps_follow ss k Hk) as (F1 & F2 & _).
  fuel f. rewrite expr_S. fuel f. rewrite name_operand by assumption.
  cbn [wf tight] in *. apply (loop_steps ss (EPathRef m n []) c k r f1); auto.
  - intros f' Hf'. rewrite add_steps_ref. cbn [app]. apply Hloop; assumption.
  - lia.
Qed.

Lemma main_partial : forall ss, Main (EPathPartial ss).
Proof.
  intros ss Hwf c k r f1 Ht Hr Hk Hloop f Hf. unfold need in Hf. rewrite pp_partial in *.
  cbn [wf tight] in *. apply andb_prop in Hwf as [Hh Hws].
  destruct ss as [|s ss]; [discriminate|]. cbn [tl] in Ht.
  rewrite tsteps_cons in *. rewrite <- app_assoc. rewrite app_length in Hf.
  cbn [forallb] in Hws. apply andb_prop in Hws as [_ Hws].
  fuel f. rewrite expr_S.
  destruct s as [[] n|n|t]; try discriminate; cbn [tstep app length] in *; fuel f.
  - rewrite op_dotbw. apply (loop_steps ss _ c k r f1); auto; [|lia].
    intros f' Hf'. rewrite add_steps_partial. apply Hloop; assumption.
  - rewrite op_dot. apply (loop_steps ss _ c k r f1); auto; [|lia].
    intros f' Hf'. rewrite add_steps_partial. apply Hloop; assumption.
  - rewrite op_at. apply (loop_steps ss _ c k r f1); auto; [|lia].
    intros f' Hf'. rewrite add_steps_partial. apply Hloop; assumption.
Qed.

Lemma main_global : forall m n, Main (EGlobal m n).
Proof.
  intros m n Hwf c k r f1 Ht Hr Hk Hloop f Hf. unfold need in Hf. rewrite pp_global in *.
  cbn [length app] in *. destruct (okfollow_parts k Hk) as (F1 & _).
  fuel f. rewrite expr_S. fuel f. rewrite op_global, parse_name_ok by assumption. apply Hloop. lia.
Qed.
