(* C18 — dollar quoting: the `$$` branch of visit_Constant, dollar_quote_literal's tag search,
   and the combined statement for visit_Constant (STRING). *)
From Coq Require Import List NArith Bool Lia Arith.
From Verif.C18 Require Import Gen_Quote Model ProofsBase ProofsStr.
Import ListNotations.
Open Scope N_scope.

Section Dollar.
Variable U : uni.

(* the value does not end with the tag minus its closing '$' *)
Definition tag_safe (q s : ustr) : bool := negb (suffix (removelast q) s).

Lemma suffix_false_no_end : forall p s, suffix p s = false -> forall pre, s <> pre ++ p.
Proof.
  intros p s H pre E. subst. unfold suffix in H. rewrite rev_app_distr, prefix_app in H. discriminate.
Qed.

Lemma suffix_true_end : forall p s, suffix p s = true -> exists pre, s = pre ++ p.
Proof.
  intros p s H. unfold suffix in H. apply prefix_true in H as [t E].
  exists (rev t). rewrite <- (rev_involutive s), E, rev_app_distr, rev_involutive. reflexivity.
Qed.

Lemma ql_lex1_dollar : forall s, ql_lex1 U (36 :: s) = lex_dollar U s.
Proof. reflexivity. Qed.

Theorem p_ql_dollar2 : forall s k,
  contains [36; 36] s = false -> tag_safe [36; 36] s = true -> no_prohibited s = true ->
  ql_lex1 U (([36; 36] ++ s ++ [36; 36]) ++ k) = LexOk (TStr s) k.
Proof.
  intros s k Hc Hs Hp. cbn [app]. rewrite ql_lex1_dollar. unfold lex_dollar.
  cbn [N.eqb Pos.eqb]. rewrite <- app_assoc. cbn [app].
  pose proof (find_sub_tag 36 [] s k) as F. cbn [app] in F. rewrite F; auto.
  - now rewrite existsb_prohibited.
  - apply suffix_false_no_end. unfold tag_safe in Hs. cbn in Hs. now apply negb_true_iff in Hs.
Qed.

(* ------------------------------------------------------------------ $tag$ markers *)

Lemma hexdigit_classes : forall c, is_hexdigit c ->
  (c =? 36) = false /\ is_ascii c = true /\
  ((is_digit c = true) \/ (is_digit c = false /\ rs_alpha U c = true)).
Proof.
  intros c [H|H]; repeat split; try (apply eqb_neq_false; lia);
    try (unfold is_ascii; apply N.ltb_lt; lia).
  - left. unfold is_digit, in_range. apply andb_true_iff; split; apply N.leb_le; lia.
  - right. split.
    + unfold is_digit, in_range. apply andb_false_iff. right. apply N.leb_gt; lia.
    + unfold rs_alpha. replace (is_ascii c) with true by (symmetry; unfold is_ascii; apply N.ltb_lt; lia).
      unfold is_alpha, is_lower, in_range. apply orb_true_iff; right.
      apply andb_true_iff; split; apply N.leb_le; lia.
Qed.

Lemma dollar_scan_marker : forall h R, Forall is_hexdigit h ->
  dollar_scan U (h ++ 36 :: R) = DMarker h R.
Proof.
  induction h as [|c h IH]; intros R H.
  - reflexivity.
  - inversion H; subst. destruct (hexdigit_classes c H2) as [E36 [_ [Ed|[Ed Ea]]]].
    + cbn [app dollar_scan]. rewrite E36, Ed. rewrite IH by auto. reflexivity.
    + cbn [app dollar_scan]. rewrite E36, Ed, Ea. cbn [orb]. rewrite IH by auto. reflexivity.
Qed.

Lemma lex_dollar_marker : forall h0 h R, 97 <= h0 <= 102 -> Forall is_hexdigit h ->
  lex_dollar U (h0 :: h ++ 36 :: R) =
  match find_sub (36 :: h0 :: h ++ [36]) R with
  | Some (data, rest') => if existsb prohibited data then LexErr else LexOk (TStr data) rest'
  | None => LexErr
  end.
Proof.
  intros h0 h R H0 Hh.
  assert (Hd : is_hexdigit h0) by (right; lia).
  destruct (hexdigit_classes h0 Hd) as [E36 [Ea [Ed|[Ed Eal]]]].
  { exfalso. unfold is_digit, in_range in Ed. apply andb_true_iff in Ed as [_ Ed]. apply N.leb_le in Ed. lia. }
  unfold lex_dollar. rewrite E36, (eqb_neq_false h0 96) by lia. rewrite Ed, Eal. cbn [orb].
  rewrite dollar_scan_marker by auto. rewrite ?Ed.
  assert (Hasc : forallb is_ascii (h0 :: h) = true).
  { cbn. rewrite Ea. cbn. apply forallb_forall. intros x Hx.
    rewrite Forall_forall in Hh. now destruct (hexdigit_classes x (Hh x Hx)) as [_ [? _]]. }
  rewrite Hasc. reflexivity.
Qed.

Theorem p_ql_dollar_tag : forall h0 h s k,
  97 <= h0 <= 102 -> Forall is_hexdigit h ->
  let q := 36 :: h0 :: h ++ [36] in
  contains q s = false -> tag_safe q s = true -> no_prohibited s = true ->
  ql_lex1 U ((q ++ s ++ q) ++ k) = LexOk (TStr s) k.
Proof.
  intros h0 h s k H0 Hh q Hc Hs Hp.
  assert (Hnin : ~ In 36 (h0 :: h)).
  { intros [E|E]; [lia|]. rewrite Forall_forall in Hh. destruct (Hh _ E); lia. }
  replace ((q ++ s ++ q) ++ k) with (36 :: h0 :: h ++ 36 :: (s ++ q ++ k)).
  2:{ unfold q. cbn [app]. rewrite <- !app_assoc. cbn [app]. rewrite <- !app_assoc. reflexivity. }
  rewrite ql_lex1_dollar, lex_dollar_marker by auto.
  pose proof (find_sub_tag 36 (h0 :: h) s k) as F. cbn [app] in F.
  unfold q. cbn [app]. rewrite F; auto.
  - now rewrite existsb_prohibited.
  - apply suffix_false_no_end. unfold tag_safe, q in Hs. apply negb_true_iff in Hs.
    change (36 :: h0 :: h ++ [36]) with ((36 :: h0 :: h) ++ [36]) in Hs.
    now rewrite removelast_last in Hs.
Qed.

(* ------------------------------------------------------------------ the tag search *)

Inductive good_tag : ustr -> Prop :=
| gt_init : good_tag [36; 36]
| gt_hex : forall h0 h, 97 <= h0 <= 102 -> Forall is_hexdigit h -> good_tag (36 :: h0 :: h ++ [36]).

Lemma hexrev_digits : forall fuel n, Forall is_hexdigit (hexrev fuel n).
Proof.
  induction fuel as [|f IH]; intros n; cbn [hexrev]; [constructor|].
  constructor.
  - apply hexchar_cases. apply N.mod_lt; lia.
  - destruct (n / 16 =? 0); [constructor|apply IH].
Qed.

Lemma dq_tag_good : forall qq, 10 <= qq mod 16 -> good_tag (dq_tag qq).
Proof.
  intros qq H. unfold dq_tag, g_dq_open, g_dq_close. cbn [hexrev app].
  apply gt_hex.
  - assert (qq mod 16 < 16) by (apply N.mod_lt; lia). unfold hexchar.
    replace (qq mod 16 <? 10) with false by (symmetry; apply N.ltb_ge; lia). lia.
  - destruct (qq / 16 =? 0); [constructor|apply hexrev_digits].
Qed.

Lemma dq_next_mod : forall qq,
  10 <= (if qq mod g_dq_mod <? g_dq_thr then qq + (g_dq_thr - qq mod g_dq_mod) else qq) mod 16.
Proof.
  intros qq. unfold g_dq_mod, g_dq_thr. destruct (qq mod 16 <? 10) eqn:E.
  - apply N.ltb_lt in E.
    replace (qq + (10 - qq mod 16)) with (10 + (qq / 16) * 16)
      by (pose proof (N.div_mod qq 16); lia).
    rewrite N.mod_add by lia. cbn. lia.
  - now apply N.ltb_ge in E.
Qed.

Lemma dq_loop_spec : forall fuel text q qq r, good_tag q ->
  dq_loop fuel text q qq = Some r -> good_tag r /\ contains r (text ++ removelast r) = false.
Proof.
  induction fuel as [|f IH]; intros text q qq r Hq H; cbn [dq_loop] in H;
    destruct (contains q (text ++ removelast q)) eqn:E; try discriminate.
  - inversion H; subst; auto.
  - eapply IH; [|exact H]. apply dq_tag_good. apply dq_next_mod.
  - inversion H; subst; auto.
Qed.

(* the loop condition `quote in text + quote[:-1]` rules out both an occurrence inside the text
   and a text whose tail runs into the closing quote *)
Lemma loop_cond_safe : forall x h s,
  contains (x :: h ++ [x]) (s ++ removelast (x :: h ++ [x])) = false ->
  contains (x :: h ++ [x]) s = false /\ tag_safe (x :: h ++ [x]) s = true.
Proof.
  intros x h s H. split.
  - destruct (contains (x :: h ++ [x]) s) eqn:E; auto.
    rewrite (contains_app_l _ _ _ E) in H. discriminate.
  - unfold tag_safe. apply negb_true_iff.
    destruct (suffix (removelast (x :: h ++ [x])) s) eqn:E; auto.
    apply suffix_true_end in E as [pre E]. exfalso.
    change (x :: h ++ [x]) with ((x :: h) ++ [x]) in *. rewrite removelast_last in *.
    rewrite E in H. rewrite <- app_assoc in H.
    replace ((x :: h) ++ x :: h) with (((x :: h) ++ [x]) ++ h) in H
      by (rewrite <- app_assoc; reflexivity).
    rewrite contains_mid in H. discriminate.
Qed.

Lemma good_tag_lex : forall q s k, good_tag q ->
  contains q (s ++ removelast q) = false -> no_prohibited s = true ->
  ql_lex1 U ((q ++ s ++ q) ++ k) = LexOk (TStr s) k.
Proof.
  intros q s k Hq. destruct Hq as [|h0 h H0 Hh]; intros Hc Hp.
  - destruct (loop_cond_safe 36 [] s Hc). now apply p_ql_dollar2.
  - destruct (loop_cond_safe 36 (h0 :: h) s Hc). now apply p_ql_dollar_tag.
Qed.

Theorem p_ql_dollar_quote_literal : forall s k out,
  no_prohibited s = true ->
  ql_dollar_quote_literal s = Some out ->
  ql_lex1 U (out ++ k) = LexOk (TStr s) k.
Proof.
  intros s k out Hp H. unfold ql_dollar_quote_literal in H.
  destruct (dq_loop (S (length s)) s g_dq_init 0) as [q|] eqn:E; [|discriminate].
  inversion H; subst out. apply dq_loop_spec in E as [Hg Hc]; [|apply gt_init].
  now apply good_tag_lex.
Qed.

(* ------------------------------------------------------------------ visit_Constant (STRING) *)

Lemma nonprintable_prohibited : forall c, prohibited c = true -> in_ranges c g_ql_nonprintable = true.
Proof.
  intros c H. unfold prohibited, in_range in H.
  apply orb_true_iff in H as [H|H]; [apply orb_true_iff in H as [H|H]|].
  - apply N.eqb_eq in H; subst; reflexivity.
  - apply andb_true_iff in H as [H1 H2]. apply N.leb_le in H1, H2.
    unfold in_ranges, g_ql_nonprintable, in_range. cbn [existsb fst snd]. leb_solve. reflexivity.
  - apply andb_true_iff in H as [H1 H2]. apply N.leb_le in H1, H2.
    unfold in_ranges, g_ql_nonprintable, in_range. cbn [existsb fst snd]. leb_solve. reflexivity.
Qed.

Lemma no_nonprintable_no_prohibited : forall s,
  existsb (fun c => in_ranges c g_ql_nonprintable) s = false -> no_prohibited s = true.
Proof.
  induction s as [|c s IH]; intros H; [reflexivity|]. cbn [existsb] in H. apply orb_false_iff in H as [H1 H2].
  unfold no_prohibited in *. cbn [forallb]. rewrite IH by auto. rewrite andb_true_r. apply negb_true_iff.
  destruct (prohibited c) eqn:E; auto. apply nonprintable_prohibited in E. congruence.
Qed.

Theorem p_ql_visit_constant : forall s k out,
  (existsb (fun c => in_ranges c g_ql_nonprintable) s = true -> forallb (repr_char_ok U) s = true) ->
  ql_visit_constant U s = Some out ->
  ql_lex1 U (out ++ k) = LexOk (TStr s) k.
Proof.
  intros s k out Hs H. unfold ql_visit_constant in H.
  destruct (existsb (fun c => in_ranges c g_ql_nonprintable) s) eqn:En.
  - cbn [negb] in H. inversion H; subst. apply p_py_repr. auto.
  - cbn [negb] in H. pose proof (no_nonprintable_no_prohibited s En) as Hp.
    unfold g_ql_delims in H. cbn [vc_delims] in H.
    rewrite !contains_single in H.
    destruct (mem 39 s) eqn:E39.
    + destruct (mem 34 s) eqn:E34.
      * cbn [negb] in H. now apply p_ql_dollar_quote_literal with (out := out).
      * cbn [negb] in H. destruct (mem 92 s) eqn:E92; inversion H; subst.
        -- apply p_ql_raw; auto.
        -- apply p_ql_plain; auto.
    + cbn [negb] in H. destruct (mem 92 s) eqn:E92; inversion H; subst.
      * apply p_ql_raw; auto.
      * apply p_ql_plain; auto.
Qed.

End Dollar.
