(* C18 — generic lemmas: lists, prefix / find_sub, replace chains, hexadecimal round trips. *)
From Coq Require Import List NArith Bool Lia Arith.
From Verif.C18 Require Import Gen_Quote Model.
Import ListNotations.
Open Scope N_scope.

Ltac leb_solve :=
  repeat match goal with
  | |- context [?a <=? ?b] =>
    first [ replace (a <=? b) with true by (symmetry; apply N.leb_le; lia)
          | replace (a <=? b) with false by (symmetry; apply N.leb_gt; lia) ]
  end.
Ltac eqb_solve :=
  repeat match goal with
  | |- context [?a =? ?b] =>
    first [ replace (a =? b) with true by (symmetry; apply N.eqb_eq; lia)
          | replace (a =? b) with false by (symmetry; apply N.eqb_neq; lia) ]
  end.
Ltac ltb_solve :=
  repeat match goal with
  | |- context [?a <? ?b] =>
    first [ replace (a <? b) with true by (symmetry; apply N.ltb_lt; lia)
          | replace (a <? b) with false by (symmetry; apply N.ltb_ge; lia) ]
  end.

Lemma eqb_neq_false : forall a b : N, a <> b -> (a =? b) = false.
Proof. intros; now apply N.eqb_neq. Qed.

Lemma mem_false_iff : forall c s, mem c s = false <-> ~ In c s.
Proof.
  intros c s; unfold mem; induction s as [|x s IH]; cbn.
  - tauto.
  - rewrite orb_false_iff, IH. split.
    + intros [H1 H2] [H|H]; [subst; rewrite N.eqb_refl in H1; discriminate | tauto].
    + intros H; split; [apply eqb_neq_false; intro; subst; tauto | tauto].
Qed.

Lemma mem_true_iff : forall c s, mem c s = true <-> In c s.
Proof.
  intros c s. destruct (mem c s) eqn:E.
  - split; auto. intros _. destruct (in_dec N.eq_dec c s); auto.
    apply mem_false_iff in n. congruence.
  - split; [discriminate|]. intro H. apply mem_false_iff in E. tauto.
Qed.

Lemma str_eqb_eq : forall a b, str_eqb a b = true <-> a = b.
Proof.
  induction a as [|x a IH]; destruct b as [|y b]; cbn; try (split; [discriminate|discriminate]); try tauto.
  rewrite andb_true_iff, N.eqb_eq, IH. split; [intros [-> ->]; auto | intros H; inversion H; auto].
Qed.

Lemma str_eqb_refl : forall a, str_eqb a a = true.
Proof. intros; now apply str_eqb_eq. Qed.

Lemma in_strs_iff : forall s l, in_strs s l = true <-> In s l.
Proof.
  intros s l; unfold in_strs; rewrite existsb_exists. split.
  - intros [x [H1 H2]]. apply str_eqb_eq in H2. now subst.
  - intros H; exists s; split; auto. apply str_eqb_refl.
Qed.

(* ------------------------------------------------------------------ prefix / find_sub *)

Lemma prefix_app : forall p k, prefix p (p ++ k) = true.
Proof. induction p; cbn; intros; auto. now rewrite N.eqb_refl, IHp. Qed.

Lemma skipn_app_exact : forall (p k : ustr), skipn (length p) (p ++ k) = k.
Proof. induction p; cbn; auto. Qed.

Lemma prefix_true : forall p s, prefix p s = true -> exists t, s = p ++ t.
Proof.
  induction p as [|a p IH]; cbn; intros s H.
  - now exists s.
  - destruct s as [|b s]; [discriminate|]. apply andb_true_iff in H as [H1 H2].
    apply N.eqb_eq in H1; subst. destruct (IH _ H2) as [t ->]. now exists t.
Qed.

(* a match of p on s ++ t either lies inside s or s is a proper prefix of p *)
Lemma prefix_app_split : forall p s t, prefix p (s ++ t) = true ->
  prefix p s = true \/ exists p2, p = s ++ p2 /\ p2 <> [] /\ prefix p2 t = true.
Proof.
  induction p as [|a p IH]; intros s t H.
  - left; reflexivity.
  - destruct s as [|b s].
    + right. exists (a :: p). repeat split; auto; discriminate.
    + cbn in H. apply andb_true_iff in H as [H1 H2]. apply N.eqb_eq in H1; subst b.
      destruct (IH _ _ H2) as [H|[p2 [-> [Hn Hp]]]].
      * left; cbn. now rewrite N.eqb_refl.
      * right; exists p2; auto.
Qed.

Lemma find_sub_unfold : forall p s, find_sub p s =
  if prefix p s then Some ([], skipn (length p) s) else
  match s with
  | [] => None
  | c :: s' => match find_sub p s' with Some (b, a) => Some (c :: b, a) | None => None end
  end.
Proof. intros p s; destruct s; reflexivity. Qed.

Lemma contains_cons_false : forall p c s, contains p (c :: s) = false ->
  prefix p (c :: s) = false /\ contains p s = false.
Proof.
  unfold contains; intros p c s H. rewrite find_sub_unfold in H.
  destruct (prefix p (c :: s)); [discriminate|]. split; auto.
  destruct (find_sub p s) as [[b a]|]; [discriminate|reflexivity].
Qed.

Lemma contains_nil_pat : forall s, contains [] s = true.
Proof. intros s; unfold contains; rewrite find_sub_unfold; reflexivity. Qed.

(* p = x :: h ++ [x] with x not in h: the only way p can straddle the end of s is s = x :: h *)
Lemma straddle_tag : forall x h s t,
  ~ In x h -> s <> [] ->
  (exists p2, x :: h ++ [x] = s ++ p2 /\ p2 <> [] /\ prefix p2 (x :: t) = true) ->
  s = x :: h.
Proof.
  intros x h s t Hx Hs [p2 [E [Hn Hp]]].
  destruct s as [|c s]; [congruence|]. cbn in E. inversion E; subst c. clear E. f_equal.
  destruct p2 as [|y p2]; [congruence|]. cbn in Hp. apply andb_true_iff in Hp as [Hy _].
  apply N.eqb_eq in Hy; subst y.
  (* h ++ [x] = s ++ x :: p2, x not in h  ->  s = h *)
  clear Hn Hs. revert s H1. induction h as [|a h IH]; intros s H1.
  - destruct s as [|b s]; auto. cbn in H1. inversion H1. destruct s; discriminate.
  - destruct s as [|b s].
    + cbn in H1. inversion H1. subst. exfalso; apply Hx; left; auto.
    + cbn in H1. inversion H1; subst. f_equal. apply IH; auto. intro; apply Hx; right; auto.
Qed.

(* the closing tag is found exactly after s *)
Lemma find_sub_tag : forall x h s k,
  ~ In x h ->
  contains (x :: h ++ [x]) s = false ->
  (forall pre, s <> pre ++ x :: h) ->
  find_sub (x :: h ++ [x]) (s ++ (x :: h ++ [x]) ++ k) = Some (s, k).
Proof.
  intros x h s k Hx. remember (x :: h ++ [x]) as tag eqn:Etag.
  induction s as [|c s IH]; intros Hc Hend.
  - rewrite app_nil_l. rewrite find_sub_unfold, prefix_app, skipn_app_exact. reflexivity.
  - apply contains_cons_false in Hc as [Hp Hc].
    rewrite find_sub_unfold.
    assert (Hnp : prefix tag ((c :: s) ++ tag ++ k) = false).
    { destruct (prefix tag ((c :: s) ++ tag ++ k)) eqn:E; auto.
      apply prefix_app_split in E as [E|E]; [congruence|].
      exfalso. apply (Hend []). rewrite app_nil_l.
      eapply straddle_tag with (t := h ++ [x] ++ k); eauto; [discriminate|].
      destruct E as [p2 [E1 [E2 E3]]]. exists p2. subst tag. repeat split; auto.
      replace (x :: h ++ [x] ++ k) with ((x :: h ++ [x]) ++ k); auto.
      cbn. now rewrite <- app_assoc. }
    rewrite Hnp. rewrite <- app_comm_cons. rewrite IH; auto.
    intros pre E. apply (Hend (c :: pre)). cbn. now rewrite E.
Qed.

Lemma contains_cons : forall p c s, contains p (c :: s) = prefix p (c :: s) || contains p s.
Proof.
  intros p c s. unfold contains. rewrite find_sub_unfold.
  destruct (prefix p (c :: s)); [reflexivity|]. cbn [orb].
  destruct (find_sub p s) as [[b a]|]; reflexivity.
Qed.


Lemma prefix_app_l : forall p s t, prefix p s = true -> prefix p (s ++ t) = true.
Proof.
  induction p as [|a p IH]; intros s t H; [reflexivity|].
  destruct s as [|b s]; [discriminate|]. cbn in *. apply andb_true_iff in H as [H1 H2].
  now rewrite H1, IH.
Qed.

Lemma contains_app_l : forall p s t, contains p s = true -> contains p (s ++ t) = true.
Proof.
  intros p s t. induction s as [|c s IH]; intros H.
  - unfold contains in *. rewrite find_sub_unfold in H. destruct (prefix p []) eqn:E; [|discriminate].
    destruct p; [|discriminate]. rewrite find_sub_unfold. reflexivity.
  - rewrite contains_cons in H. cbn [app]. rewrite contains_cons.
    apply orb_true_iff in H as [H|H].
    + change (c :: s ++ t) with ((c :: s) ++ t). now rewrite prefix_app_l.
    + rewrite IH by auto. apply orb_true_r.
Qed.

Lemma contains_mid : forall p a b, contains p (a ++ p ++ b) = true.
Proof.
  intros p a b. induction a as [|c a IH].
  - cbn [app]. unfold contains. rewrite find_sub_unfold, prefix_app. reflexivity.
  - cbn [app]. rewrite contains_cons, IH. apply orb_true_r.
Qed.

(* ------------------------------------------------------------------ replace chains *)

Lemma replace_char_flat_map : forall a bs (f : N -> ustr) s,
  replace_char a bs (flat_map f s) = flat_map (fun c => replace_char a bs (f c)) s.
Proof.
  intros a bs f s; unfold replace_char. induction s as [|c s IH]; cbn; auto.
  now rewrite flat_map_app, IH.
Qed.

Lemma replace_char_single : forall a bs c, replace_char a bs [c] = if c =? a then bs else [c].
Proof. intros; unfold replace_char; cbn. rewrite app_nil_r. reflexivity. Qed.

Lemma replace_char_as_flat_map : forall a bs s,
  replace_char a bs s = flat_map (fun c => replace_char a bs [c]) s.
Proof.
  intros; unfold replace_char. apply flat_map_ext. intros c. cbn. now rewrite app_nil_r.
Qed.

Lemma flat_map_id : forall (s : ustr), flat_map (fun c => [c]) s = s.
Proof. induction s; cbn; congruence. Qed.

(* ------------------------------------------------------------------ hexadecimal *)

Lemma hexval_hexchar : forall d, d < 16 -> hexval (hexchar d) = Some d.
Proof.
  intros d H. assert (Hc : d = 0 \/ d = 1 \/ d = 2 \/ d = 3 \/ d = 4 \/ d = 5 \/ d = 6 \/ d = 7 \/ d = 8 \/ d = 9
    \/ d = 10 \/ d = 11 \/ d = 12 \/ d = 13 \/ d = 14 \/ d = 15) by lia.
  repeat (destruct Hc as [->|Hc]; [reflexivity|]). subst; reflexivity.
Qed.

Lemma hexchar_cases : forall d, d < 16 ->
  (48 <= hexchar d <= 57) \/ (97 <= hexchar d <= 102).
Proof.
  intros d H. unfold hexchar. destruct (d <? 10) eqn:E.
  - apply N.ltb_lt in E. left; lia.
  - apply N.ltb_ge in E. right; lia.
Qed.

Lemma hexfold_snoc : forall l acc d, d < 16 ->
  hexfold acc (l ++ [hexchar d]) =
  match hexfold acc l with Some v => Some (v * 16 + d) | None => None end.
Proof.
  induction l as [|c l IH]; intros acc d Hd; cbn.
  - now rewrite hexval_hexchar.
  - destruct (hexval c); auto.
Qed.

Lemma hex_fixed_length : forall k n, length (hex_fixed k n) = k.
Proof. induction k; intros; cbn; auto. rewrite app_length, IHk. cbn. lia. Qed.

Lemma hexfold_fixed : forall k n, hexfold 0 (hex_fixed k n) = Some (n mod 16 ^ N.of_nat k).
Proof.
  induction k as [|k IH]; intros n.
  - cbn. now rewrite N.mod_1_r.
  - cbn [hex_fixed]. rewrite hexfold_snoc by (apply N.mod_lt; lia). rewrite IH. f_equal.
    rewrite Nat2N.inj_succ, N.pow_succ_r'.
    rewrite N.mod_mul_r by (try apply N.pow_nonzero; lia).
    lia.
Qed.

Lemma hex_fixed_head : forall k n, hex_fixed (S k) n <> [] /\
  forall c l, hex_fixed (S k) n = c :: l -> c <> 43.
Proof.
  induction k as [|k IH]; intros n.
  - cbn. split; [discriminate|]. intros c l H. inversion H.
    destruct (hexchar_cases (n mod 16)) as [?|?]; [apply N.mod_lt; lia| |]; lia.
  - split.
    + change (hex_fixed (S (S k)) n) with (hex_fixed (S k) (n / 16) ++ [hexchar (n mod 16)]).
      destruct (hex_fixed (S k) (n / 16)); discriminate.
    + intros c l H.
      change (hex_fixed (S (S k)) n) with (hex_fixed (S k) (n / 16) ++ [hexchar (n mod 16)]) in H.
      destruct (IH (n / 16)) as [Hne Hh].
      destruct (hex_fixed (S k) (n / 16)) as [|c' l'] eqn:E; [congruence|].
      cbn in H. inversion H; subst. eapply Hh; eauto.
Qed.

Lemma from_str_radix16_fixed : forall k n, n < 16 ^ N.of_nat (S k) ->
  from_str_radix16 (hex_fixed (S k) n) = Some n.
Proof.
  intros k n Hn. destruct (hex_fixed_head k n) as [Hne Hh].
  pose proof (hexfold_fixed (S k) n) as Hf.
  destruct (hex_fixed (S k) n) as [|c l] eqn:E; [congruence|].
  unfold from_str_radix16. rewrite eqb_neq_false by (eapply Hh; eauto).
  rewrite Hf. now rewrite N.mod_small.
Qed.

Lemma firstn_app_exact : forall (l r : ustr), firstn (length l) (l ++ r) = l.
Proof. induction l; cbn; intros; auto. now rewrite IHl. Qed.

Lemma hexn_fixed : forall k n rest, n < 16 ^ N.of_nat (S k) ->
  hexn (S k) (hex_fixed (S k) n ++ rest) = Some n.
Proof.
  intros k n rest Hn. unfold hexn.
  rewrite app_length, hex_fixed_length.
  replace (Nat.ltb (S k + length rest) (S k)) with false
    by (symmetry; apply Nat.ltb_ge; lia).
  rewrite <- (hex_fixed_length (S k) n) at 1. rewrite firstn_app_exact.
  now apply from_str_radix16_fixed.
Qed.

(* every character of a fixed-width hex number is a lower-case hex digit *)
Definition is_hexdigit (c : N) : Prop := (48 <= c <= 57) \/ (97 <= c <= 102).
Lemma hex_fixed_digits : forall k n, Forall is_hexdigit (hex_fixed k n).
Proof.
  induction k; intros; cbn; [constructor|]. apply Forall_app; split; auto.
  constructor; [|constructor]. apply hexchar_cases. apply N.mod_lt; lia.
Qed.
