(* C18 — EdgeQL string literal forms: quote_literal, the plain / raw / repr() branches of
   visit_Constant. *)
From Coq Require Import List NArith Bool Lia Arith.
From Verif.C18 Require Import Gen_Quote Model ProofsBase.
Import ListNotations.
Open Scope N_scope.

Section Str.
Variable U : uni.

Definition sc_app (l : ustr) (r : scanres) : scanres := fold_right sc_cons r l.
Lemma sc_app_end : forall l i t, sc_app l (ScEnd i t) = ScEnd (l ++ i) t.
Proof. unfold sc_app. induction l; cbn; intros; auto. now rewrite IHl. Qed.
Lemma sc_app_app : forall a b r, sc_app (a ++ b) r = sc_app a (sc_app b r).
Proof. intros; unfold sc_app; now rewrite fold_right_app. Qed.

Definition no_prohibited (s : ustr) : bool := forallb (fun c => negb (prohibited c)) s.

Lemma no_prohibited_in : forall s c, no_prohibited s = true -> In c s -> prohibited c = false.
Proof.
  unfold no_prohibited; intros s c H Hi. rewrite forallb_forall in H. apply H in Hi.
  now apply negb_true_iff in Hi.
Qed.

Lemma existsb_prohibited : forall s, no_prohibited s = true -> existsb prohibited s = false.
Proof.
  induction s; cbn; auto. intros H. apply andb_true_iff in H as [H1 H2].
  apply negb_true_iff in H1. now rewrite H1, IHs.
Qed.

Lemma prohibited_small : forall c, 0 < c -> c < 8234 -> prohibited c = false.
Proof.
  intros c H1 H2. unfold prohibited, in_range.
  rewrite eqb_neq_false by lia.
  replace (8234 <=? c) with false by (symmetry; apply N.leb_gt; lia).
  replace (8294 <=? c) with false by (symmetry; apply N.leb_gt; lia). reflexivity.
Qed.

(* a character that the non-raw scanner copies as it is *)
Definition plain (q c : N) : Prop := c <> 92 /\ c <> q /\ prohibited c = false.

Lemma scan_str_plain : forall q c rest, plain q c ->
  scan_str false q (c :: rest) = sc_cons c (scan_str false q rest).
Proof.
  intros q c rest [H1 [H2 H3]]. cbn [scan_str].
  rewrite (eqb_neq_false c 92), (eqb_neq_false c q), H3 by auto. reflexivity.
Qed.

Lemma scan_str_plains : forall q l rest, Forall (plain q) l ->
  scan_str false q (l ++ rest) = sc_app l (scan_str false q rest).
Proof.
  induction l as [|c l IH]; intros rest H; [reflexivity|]. inversion H; subst.
  cbn [app]. rewrite scan_str_plain by auto. cbn. now rewrite IH.
Qed.

Lemma scan_str_esc : forall q d rest, d <> 40 ->
  scan_str false q (92 :: d :: rest) = sc_cons 92 (sc_cons d (scan_str false q rest)).
Proof. intros q d rest H. cbn [scan_str]. cbn. now rewrite (eqb_neq_false d 40). Qed.

Inductive chunk_ok (q : N) : ustr -> Prop :=
| ck_plain : forall c, plain q c -> chunk_ok q [c]
| ck_esc : forall d tl, d <> 40 -> Forall (plain q) tl -> chunk_ok q (92 :: d :: tl).

Lemma scan_str_chunk : forall q ch rest, chunk_ok q ch ->
  scan_str false q (ch ++ rest) = sc_app ch (scan_str false q rest).
Proof.
  intros q ch rest H. destruct H as [c H|d tl Hd Htl].
  - cbn [app]. now rewrite scan_str_plain.
  - cbn [app]. rewrite scan_str_esc by auto. rewrite scan_str_plains by auto. reflexivity.
Qed.

Lemma scan_str_body : forall q (f : N -> ustr) s k, q <> 92 ->
  (forall c, In c s -> chunk_ok q (f c)) ->
  scan_str false q (flat_map f s ++ q :: k) = ScEnd (flat_map f s) k.
Proof.
  intros q f s k Hq. induction s as [|c s IH]; intros H.
  - cbn. rewrite (eqb_neq_false q 92) by auto. rewrite N.eqb_refl. reflexivity.
  - cbn [flat_map]. rewrite <- app_assoc. rewrite scan_str_chunk by (apply H; left; auto).
    rewrite IH by (intros; apply H; right; auto). now rewrite sc_app_end.
Qed.

Lemma scan_str_raw : forall q s k, mem q s = false -> no_prohibited s = true ->
  scan_str true q (s ++ q :: k) = ScEnd s k.
Proof.
  intros q s k. induction s as [|c s IH]; intros Hm Hp.
  - cbn. rewrite andb_false_r, N.eqb_refl. reflexivity.
  - cbn in Hm. apply orb_false_iff in Hm as [Hm1 Hm2].
    cbn in Hp. apply andb_true_iff in Hp as [Hp1 Hp2]. apply negb_true_iff in Hp1.
    cbn [app scan_str]. rewrite andb_false_r. rewrite N.eqb_sym in Hm1. rewrite Hm1, Hp1.
    rewrite IH by auto. reflexivity.
Qed.

(* ------------------------------------------------------------------ unquoting *)

Lemma unq_plain : forall c rest, c <> 92 -> unq U 0 (c :: rest) = ocons c (unq U 0 rest).
Proof. intros c rest H. cbn [unq]. now rewrite (eqb_neq_false c 92). Qed.

Lemma unq_no_backslash : forall s, mem 92 s = false -> unq U 0 s = Some s.
Proof.
  induction s as [|c s IH]; intros H; [reflexivity|].
  cbn in H. apply orb_false_iff in H as [H1 H2]. rewrite unq_plain.
  - now rewrite IH.
  - intro; subst; discriminate.
Qed.

Lemma unq_skip : forall l rest, unq U (length l) (l ++ rest) = unq U 0 rest.
Proof.
  induction l as [|c l IH]; intros rest; [reflexivity|]. cbn [length app unq]. apply IH.
Qed.

Lemma unq_body : forall (f : N -> ustr) s,
  (forall c rest, In c s -> unq U 0 (f c ++ rest) = ocons c (unq U 0 rest)) ->
  unq U 0 (flat_map f s) = Some s.
Proof.
  intros f s. induction s as [|c s IH]; intros H; [reflexivity|].
  cbn [flat_map]. rewrite H by (left; auto). rewrite IH; [reflexivity|].
  intros; apply H; right; auto.
Qed.

Lemma unq_hex2 : forall c rest, 0 < c -> c <= 127 ->
  unq U 0 (92 :: 120 :: hex_fixed 2 c ++ rest) = ocons c (unq U 0 rest).
Proof.
  intros c rest H1 H2. cbn [unq]. cbn [N.eqb Pos.eqb orb].
  rewrite hexn_fixed by (cbn; lia).
  replace (0 <? c) with true by (symmetry; apply N.ltb_lt; lia).
  replace (c <=? 127) with true by (symmetry; apply N.leb_le; lia).
  cbn [andb]. f_equal; try apply (unq_skip (hex_fixed 2 c)).
Qed.

Lemma valid_char_intro : forall c, 0 < c -> c < 1114112 -> ~ (55296 <= c <= 57343) -> valid_char c = true.
Proof.
  intros c H1 H2 H3. unfold valid_char, in_range.
  replace (0 <? c) with true by (symmetry; apply N.ltb_lt; lia).
  replace (c <? 1114112) with true by (symmetry; apply N.ltb_lt; lia).
  cbn [andb]. apply negb_true_iff. apply andb_false_iff.
  destruct (N.le_gt_cases 55296 c); [right; apply N.leb_gt; lia | left; apply N.leb_gt; lia].
Qed.

Lemma unq_hex4 : forall c rest, valid_char c = true -> c < 65536 ->
  unq U 0 (92 :: 117 :: hex_fixed 4 c ++ rest) = ocons c (unq U 0 rest).
Proof.
  intros c rest H1 H2. cbn [unq]. cbn [N.eqb Pos.eqb orb].
  rewrite hexn_fixed by (cbn; lia). rewrite H1. f_equal; try apply (unq_skip (hex_fixed 4 c)).
Qed.

Lemma unq_hex8 : forall c rest, valid_char c = true ->
  unq U 0 (92 :: 85 :: hex_fixed 8 c ++ rest) = ocons c (unq U 0 rest).
Proof.
  intros c rest H1. cbn [unq]. cbn [N.eqb Pos.eqb orb].
  assert (c < 1114112).
  { unfold valid_char in H1. apply andb_true_iff in H1 as [H1 _]. apply andb_true_iff in H1 as [_ H1].
    now apply N.ltb_lt. }
  rewrite hexn_fixed by (cbn; lia). rewrite H1. f_equal; try apply (unq_skip (hex_fixed 8 c)).
Qed.

(* ------------------------------------------------------------------ entry points of ql_lex1 *)

Lemma ql_lex1_quote : forall q s, q = 34 \/ q = 39 -> ql_lex1 U (q :: s) = lex_str U false q s.
Proof. intros q s [->| ->]; reflexivity. Qed.

Lemma ql_lex1_raw : forall q s, q = 34 \/ q = 39 -> ql_lex1 U (114 :: q :: s) = lex_str U true q s.
Proof. intros q s [->| ->]; reflexivity. Qed.

Lemma lex_str_ok : forall raw q body k v,
  scan_str raw q (body ++ q :: k) = ScEnd body k ->
  (if raw then Some body else unq U 0 body) = Some v ->
  lex_str U raw q (body ++ q :: k) = LexOk (TStr v) k.
Proof.
  intros raw q body k v H1 H2. unfold lex_str. rewrite H1. destruct raw.
  - now inversion H2.
  - now rewrite H2.
Qed.

(* ------------------------------------------------------------------ escape_string / quote_literal *)

Definition esc1 (c : N) : ustr :=
  if c =? 92 then [92; 92] else if c =? 39 then [92; 39] else if c =? 8 then [92; 98]
  else if c =? 12 then [92; 102] else if c =? 10 then [92; 110] else if c =? 13 then [92; 114]
  else if c =? 9 then [92; 116]
  else if mem c g_ql_escape_bidi then 92 :: 117 :: hex_fixed 4 c else [c].

Lemma ql_escape_string_flat : forall s, ql_escape_string s = flat_map esc1 s.
Proof.
  intros s. unfold ql_escape_string, g_ql_escape_table, g_ql_escape_bidi. cbn [fold_left fst snd].
  rewrite (replace_char_as_flat_map 92 [92; 92] s).
  repeat rewrite replace_char_flat_map.
  apply flat_map_ext. intros c. unfold esc1, g_ql_escape_bidi, mem. cbn [existsb].
  rewrite replace_char_single. destruct (c =? 92); [reflexivity|].
  rewrite replace_char_single. destruct (c =? 39); [reflexivity|].
  rewrite replace_char_single. destruct (c =? 8); [reflexivity|].
  rewrite replace_char_single. destruct (c =? 12); [reflexivity|].
  rewrite replace_char_single. destruct (c =? 10); [reflexivity|].
  rewrite replace_char_single. destruct (c =? 13); [reflexivity|].
  rewrite replace_char_single. destruct (c =? 9); [reflexivity|].
  rewrite replace_char_single. destruct (c =? 8234) eqn:E; [apply N.eqb_eq in E; subst; reflexivity|]. clear E.
  rewrite replace_char_single. destruct (c =? 8235) eqn:E; [apply N.eqb_eq in E; subst; reflexivity|]. clear E.
  rewrite replace_char_single. destruct (c =? 8236) eqn:E; [apply N.eqb_eq in E; subst; reflexivity|]. clear E.
  rewrite replace_char_single. destruct (c =? 8237) eqn:E; [apply N.eqb_eq in E; subst; reflexivity|]. clear E.
  rewrite replace_char_single. destruct (c =? 8238) eqn:E; [apply N.eqb_eq in E; subst; reflexivity|]. clear E.
  rewrite replace_char_single. destruct (c =? 8294) eqn:E; [apply N.eqb_eq in E; subst; reflexivity|]. clear E.
  rewrite replace_char_single. destruct (c =? 8295) eqn:E; [apply N.eqb_eq in E; subst; reflexivity|]. clear E.
  rewrite replace_char_single. destruct (c =? 8296) eqn:E; [apply N.eqb_eq in E; subst; reflexivity|]. clear E.
  rewrite replace_char_single. destruct (c =? 8297) eqn:E; [apply N.eqb_eq in E; subst; reflexivity|]. clear E.
  reflexivity.
Qed.

(* check_prohibited's set is NUL plus exactly the characters escape_string rewrites *)
Lemma prohibited_bidi : forall c, prohibited c = (c =? 0) || mem c g_ql_escape_bidi.
Proof.
  intros c. unfold prohibited. rewrite <- orb_assoc. f_equal.
  unfold g_ql_escape_bidi, mem, in_range. cbn [existsb].
  destruct (N.lt_ge_cases c 8234); [leb_solve; eqb_solve; reflexivity|].
  destruct (N.lt_ge_cases 8297 c); [leb_solve; eqb_solve; reflexivity|].
  destruct (N.lt_ge_cases c 8239).
  { assert (Hc : c = 8234 \/ c = 8235 \/ c = 8236 \/ c = 8237 \/ c = 8238) by lia.
    repeat (destruct Hc as [->|Hc]; [reflexivity|]). subst; reflexivity. }
  destruct (N.lt_ge_cases c 8294); [leb_solve; eqb_solve; reflexivity|].
  assert (Hc : c = 8294 \/ c = 8295 \/ c = 8296 \/ c = 8297) by lia.
  repeat (destruct Hc as [->|Hc]; [reflexivity|]). subst; reflexivity.
Qed.

Lemma hexdigits_plain39 : forall k c, Forall (plain 39) (hex_fixed k c).
Proof.
  intros. eapply Forall_impl; [|apply hex_fixed_digits].
  intros a [H|H]; repeat split; try lia; apply prohibited_small; lia.
Qed.

Lemma bidi_range : forall c, mem c g_ql_escape_bidi = true -> 8234 <= c <= 8297.
Proof.
  intros c H. apply mem_true_iff in H. unfold g_ql_escape_bidi in H. cbn in H.
  repeat (destruct H as [<-|H]; [lia|]). destruct H.
Qed.

Lemma esc1_chunk : forall c, c <> 0 -> chunk_ok 39 (esc1 c).
Proof.
  intros c Hp. unfold esc1.
  destruct (c =? 92) eqn:E1; [apply ck_esc; [lia|constructor]|].
  destruct (c =? 39) eqn:E2; [apply ck_esc; [lia|constructor]|].
  destruct (c =? 8); [apply ck_esc; [lia|constructor]|].
  destruct (c =? 12); [apply ck_esc; [lia|constructor]|].
  destruct (c =? 10); [apply ck_esc; [lia|constructor]|].
  destruct (c =? 13); [apply ck_esc; [lia|constructor]|].
  destruct (c =? 9); [apply ck_esc; [lia|constructor]|].
  destruct (mem c g_ql_escape_bidi) eqn:Eb.
  - apply ck_esc; [lia|]. apply hexdigits_plain39.
  - apply ck_plain. apply N.eqb_neq in E1, E2. repeat split; auto.
    rewrite prohibited_bidi, Eb. now rewrite (eqb_neq_false c 0).
Qed.

Lemma esc1_unq : forall c rest, unq U 0 (esc1 c ++ rest) = ocons c (unq U 0 rest).
Proof.
  intros c rest. unfold esc1.
  destruct (c =? 92) eqn:E1; [apply N.eqb_eq in E1; subst; reflexivity|].
  destruct (c =? 39) eqn:E2; [apply N.eqb_eq in E2; subst; reflexivity|].
  destruct (c =? 8) eqn:E3; [apply N.eqb_eq in E3; subst; reflexivity|].
  destruct (c =? 12) eqn:E4; [apply N.eqb_eq in E4; subst; reflexivity|].
  destruct (c =? 10) eqn:E5; [apply N.eqb_eq in E5; subst; reflexivity|].
  destruct (c =? 13) eqn:E6; [apply N.eqb_eq in E6; subst; reflexivity|].
  destruct (c =? 9) eqn:E7; [apply N.eqb_eq in E7; subst; reflexivity|].
  destruct (mem c g_ql_escape_bidi) eqn:Eb.
  - apply bidi_range in Eb. cbn [app]. apply unq_hex4; [|lia]. apply valid_char_intro; lia.
  - cbn [app]. apply unq_plain. now apply N.eqb_neq.
Qed.

Theorem p_ql_quote_literal : forall s k, mem 0 s = false ->
  ql_lex1 U (ql_quote_literal s ++ k) = LexOk (TStr s) k.
Proof.
  intros s k Hp. unfold ql_quote_literal, g_ql_lit_quote. rewrite ql_escape_string_flat.
  rewrite <- app_comm_cons, <- app_assoc. cbn [app].
  rewrite ql_lex1_quote by auto.
  apply lex_str_ok.
  - apply scan_str_body; [lia|]. intros c Hc. apply esc1_chunk. apply mem_false_iff in Hp.
    intro; subst; auto.
  - apply unq_body. intros; apply esc1_unq.
Qed.

(* ------------------------------------------------------------------ visit_Constant: plain and raw *)

Lemma contains_single : forall q s, contains [q] s = mem q s.
Proof.
  intros q s. unfold contains. induction s as [|c s IH]; [reflexivity|].
  rewrite find_sub_unfold. cbn [prefix mem existsb]. rewrite andb_true_r.
  destruct (q =? c); [reflexivity|]. cbn [orb].
  destruct (find_sub [q] s) as [[b a]|]; auto.
Qed.

Lemma plains_of : forall q s, q <> 92 -> mem 92 s = false -> mem q s = false -> no_prohibited s = true ->
  Forall (plain q) s.
Proof.
  intros q s Hq H1 H2 H3. apply Forall_forall. intros c Hc. repeat split.
  - apply mem_false_iff in H1. intro; subst; auto.
  - apply mem_false_iff in H2. intro; subst; auto.
  - eapply no_prohibited_in; eauto.
Qed.

Theorem p_ql_plain : forall q s k, q = 34 \/ q = 39 ->
  mem 92 s = false -> mem q s = false -> no_prohibited s = true ->
  ql_lex1 U (([q] ++ s ++ [q]) ++ k) = LexOk (TStr s) k.
Proof.
  intros q s k Hq H1 H2 H3. cbn [app]. rewrite <- app_assoc. cbn [app].
  rewrite ql_lex1_quote by auto. apply lex_str_ok.
  - assert (q <> 92) by (destruct Hq; lia).
    rewrite scan_str_plains by (apply plains_of; auto).
    cbn [scan_str]. rewrite (eqb_neq_false q 92) by auto. rewrite N.eqb_refl. cbn [andb].
    now rewrite sc_app_end, app_nil_r.
  - now apply unq_no_backslash.
Qed.

Theorem p_ql_raw : forall q s k, q = 34 \/ q = 39 ->
  mem q s = false -> no_prohibited s = true ->
  ql_lex1 U ((114 :: [q] ++ s ++ [q]) ++ k) = LexOk (TStr s) k.
Proof.
  intros q s k Hq H2 H3. cbn [app]. rewrite <- app_assoc. cbn [app].
  rewrite ql_lex1_raw by auto. apply lex_str_ok; auto.
  now apply scan_str_raw.
Qed.

(* ------------------------------------------------------------------ repr() + _REPR_ESCAPE_RE *)

Definition repr_char_ok (c : N) : bool :=
  negb (c =? 0) && valid_char c && negb (py_printable U c && prohibited c).

(* repr1 after the substitution: the Latin-1 branch writes \u00HH *)
Definition repr1' (q c : N) : ustr :=
  if (c =? q) || (c =? 92) then [92; c]
  else if c =? 9 then [92; 116]
  else if c =? 10 then [92; 110]
  else if c =? 13 then [92; 114]
  else if (c <? 32) || (c =? 127) then 92 :: 120 :: hex_fixed 2 c
  else if c <? 127 then [c]
  else if py_printable U c then [c]
  else if c <? 256 then 92 :: 117 :: 48 :: 48 :: hex_fixed 2 c
  else if c <? 65536 then 92 :: 117 :: hex_fixed 4 c
  else 92 :: 85 :: hex_fixed 8 c.

Lemma repr_fix_plain : forall c rest, c <> 92 -> repr_fix (c :: rest) = c :: repr_fix rest.
Proof. intros c rest H. cbn [repr_fix]. now rewrite (eqb_neq_false c 92). Qed.

Lemma repr_fix_nobs : forall l rest, ~ In 92 l -> repr_fix (l ++ rest) = l ++ repr_fix rest.
Proof.
  induction l as [|c l IH]; intros rest H; [reflexivity|]. cbn [app].
  rewrite repr_fix_plain by (intro; subst; apply H; left; auto).
  rewrite IH; auto. intro; apply H; right; auto.
Qed.

Lemma hexdigits_nobs : forall k c, ~ In 92 (hex_fixed k c).
Proof.
  intros k c H. pose proof (hex_fixed_digits k c) as F. rewrite Forall_forall in F.
  destruct (F _ H); lia.
Qed.

Lemma repr_fix_esc : forall d rest, d <> 120 -> repr_fix (92 :: d :: rest) = 92 :: d :: repr_fix rest.
Proof. intros d rest H. cbn [repr_fix N.eqb Pos.eqb]. now rewrite (eqb_neq_false d 120). Qed.

Lemma hexchar_hi : forall d, d < 16 ->
  is_hex_lc (hexchar d) = true /\ is_hex_hi (hexchar d) = (8 <=? d).
Proof.
  intros d H. assert (Hc : d = 0 \/ d = 1 \/ d = 2 \/ d = 3 \/ d = 4 \/ d = 5 \/ d = 6 \/ d = 7 \/ d = 8 \/ d = 9
    \/ d = 10 \/ d = 11 \/ d = 12 \/ d = 13 \/ d = 14 \/ d = 15) by lia.
  repeat (destruct Hc as [->|Hc]; [split; reflexivity|]). subst; split; reflexivity.
Qed.

Lemma repr_fix_x_unfold : forall a b rest,
  repr_fix (92 :: 120 :: a :: b :: rest) =
  if is_hex_hi a && is_hex_lc b then 92 :: 117 :: 48 :: 48 :: a :: b :: repr_fix rest
  else 92 :: 120 :: repr_fix (a :: b :: rest).
Proof. reflexivity. Qed.

Lemma repr_fix_x : forall c rest, c < 256 ->
  repr_fix (92 :: 120 :: hex_fixed 2 c ++ rest) =
  (if 128 <=? c then 92 :: 117 :: 48 :: 48 :: hex_fixed 2 c else 92 :: 120 :: hex_fixed 2 c) ++ repr_fix rest.
Proof.
  intros c rest H. cbn [hex_fixed app]. rewrite repr_fix_x_unfold.
  assert (H1 : (c / 16) mod 16 < 16) by (apply N.mod_lt; lia).
  assert (H2 : c mod 16 < 16) by (apply N.mod_lt; lia).
  destruct (hexchar_hi _ H1) as [_ Ha]. destruct (hexchar_hi _ H2) as [Hb _].
  rewrite Ha, Hb.
  assert (Hd : c / 16 < 16) by (apply N.div_lt_upper_bound; lia).
  rewrite (N.mod_small (c / 16) 16) by auto.
  destruct (128 <=? c) eqn:E.
  - apply N.leb_le in E. replace (8 <=? c / 16) with true
      by (symmetry; apply N.leb_le; apply N.div_le_lower_bound; lia). reflexivity.
  - apply N.leb_gt in E. replace (8 <=? c / 16) with false
      by (symmetry; apply N.leb_gt; apply N.div_lt_upper_bound; lia).
    cbn [andb]. pose proof (hexchar_cases ((c / 16)) Hd). pose proof (hexchar_cases (c mod 16) H2).
    rewrite !repr_fix_plain by lia. reflexivity.
Qed.

Lemma repr_fix_chunk : forall q c rest, q = 34 \/ q = 39 -> c < 1114112 ->
  repr_fix (repr1 U q c ++ rest) = repr1' q c ++ repr_fix rest.
Proof.
  intros q c rest Hq Hc. unfold repr1, repr1'.
  destruct ((c =? q) || (c =? 92)) eqn:E1.
  { cbn [app]. apply repr_fix_esc. apply orb_true_iff in E1 as [E|E]; apply N.eqb_eq in E; subst; destruct Hq; lia. }
  apply orb_false_iff in E1 as [Eq E92]. apply N.eqb_neq in Eq, E92.
  destruct (c =? 9); [reflexivity|]. destruct (c =? 10); [reflexivity|]. destruct (c =? 13); [reflexivity|].
  destruct ((c <? 32) || (c =? 127)) eqn:Ec.
  { assert (c <= 127) by (apply orb_true_iff in Ec as [E|E]; [apply N.ltb_lt in E; lia | apply N.eqb_eq in E; lia]).
    cbn [app]. rewrite repr_fix_x by lia. replace (128 <=? c) with false by (symmetry; apply N.leb_gt; lia).
    reflexivity. }
  destruct (c <? 127) eqn:E127; [cbn [app]; now apply repr_fix_plain|].
  destruct (py_printable U c); [cbn [app]; now apply repr_fix_plain|].
  destruct (c <? 256) eqn:E256.
  { apply N.ltb_lt in E256. apply orb_false_iff in Ec as [Ec1 Ec2]. apply N.ltb_ge in Ec1.
    cbn [app]. rewrite repr_fix_x by lia.
    destruct (128 <=? c) eqn:E128; [reflexivity|].
    (* 32 <= c < 128 and not < 127 and <> 127: impossible *)
    exfalso. apply N.leb_gt in E128. apply N.eqb_neq in Ec2. apply N.ltb_ge in E127. lia. }
  destruct (c <? 65536).
  - cbn [app]. rewrite repr_fix_esc by lia. now rewrite repr_fix_nobs by apply hexdigits_nobs.
  - cbn [app]. rewrite repr_fix_esc by lia. now rewrite repr_fix_nobs by apply hexdigits_nobs.
Qed.

Lemma repr_fix_repr : forall s, Forall (fun c => c < 1114112) s ->
  repr_fix (py_repr U s) =
  let q := if mem 39 s && negb (mem 34 s) then 34 else 39 in q :: flat_map (repr1' q) s ++ [q].
Proof.
  intros s Hs. unfold py_repr.
  set (q := if mem 39 s && negb (mem 34 s) then 34 else 39).
  assert (Hq : q = 34 \/ q = 39) by (unfold q; destruct (mem 39 s && negb (mem 34 s)); auto).
  cbv zeta. rewrite repr_fix_plain by (destruct Hq; lia). f_equal.
  clearbody q. induction s as [|c s IH].
  - cbn [flat_map app]. rewrite repr_fix_plain by (destruct Hq; lia). reflexivity.
  - inversion Hs; subst. cbn [flat_map]. rewrite <- !app_assoc. rewrite repr_fix_chunk by auto.
    now rewrite IH.
Qed.

Lemma hexdigit_plain : forall q c, q = 34 \/ q = 39 -> is_hexdigit c -> plain q c.
Proof.
  intros q c Hq Hc. unfold is_hexdigit in Hc. repeat split.
  - lia.
  - destruct Hq; lia.
  - apply prohibited_small; lia.
Qed.

Lemma hexdigits_plain : forall q k c, q = 34 \/ q = 39 -> Forall (plain q) (hex_fixed k c).
Proof.
  intros. eapply Forall_impl; [|apply hex_fixed_digits]. intros; now apply hexdigit_plain.
Qed.

Lemma hex4_latin1 : forall c, c < 256 -> hex_fixed 4 c = 48 :: 48 :: hex_fixed 2 c.
Proof.
  intros c H. cbn [hex_fixed app].
  assert (c / 16 / 16 = 0) by (rewrite N.div_div by lia; apply N.div_small; lia).
  rewrite H0. reflexivity.
Qed.

Lemma repr1'_ok : forall q c, q = 34 \/ q = 39 -> repr_char_ok c = true ->
  chunk_ok q (repr1' q c) /\ forall rest, unq U 0 (repr1' q c ++ rest) = ocons c (unq U 0 rest).
Proof.
  intros q c Hq Hok. unfold repr_char_ok in Hok.
  apply andb_true_iff in Hok as [Hok H3]. apply andb_true_iff in Hok as [H1 H2].
  apply negb_true_iff in H1, H3. apply N.eqb_neq in H1.
  unfold repr1'.
  destruct ((c =? q) || (c =? 92)) eqn:E1.
  { split.
    - apply ck_esc; [|constructor]. apply orb_true_iff in E1 as [E|E]; apply N.eqb_eq in E; subst; destruct Hq; lia.
    - intros rest. apply orb_true_iff in E1 as [E|E]; apply N.eqb_eq in E; subst;
        [destruct Hq; subst; reflexivity | reflexivity]. }
  apply orb_false_iff in E1 as [Eq E92]. apply N.eqb_neq in Eq, E92.
  destruct (c =? 9) eqn:E9; [apply N.eqb_eq in E9; subst; split; [apply ck_esc; [lia|constructor]|reflexivity]|].
  destruct (c =? 10) eqn:E10; [apply N.eqb_eq in E10; subst; split; [apply ck_esc; [lia|constructor]|reflexivity]|].
  destruct (c =? 13) eqn:E13; [apply N.eqb_eq in E13; subst; split; [apply ck_esc; [lia|constructor]|reflexivity]|].
  destruct ((c <? 32) || (c =? 127)) eqn:Ec.
  { assert (c <= 127) by (apply orb_true_iff in Ec as [E|E]; [apply N.ltb_lt in E; lia | apply N.eqb_eq in E; lia]).
    split.
    - apply ck_esc; [lia|]. now apply hexdigits_plain.
    - intros rest. cbn [app]. apply unq_hex2; lia. }
  apply orb_false_iff in Ec as [Ec1 Ec2]. apply N.ltb_ge in Ec1. apply N.eqb_neq in Ec2.
  destruct (c <? 127) eqn:E127.
  { apply N.ltb_lt in E127. split.
    - apply ck_plain. repeat split; auto. apply prohibited_small; lia.
    - intros rest. cbn [app]. now apply unq_plain. }
  apply N.ltb_ge in E127.
  destruct (py_printable U c) eqn:Epr.
  { cbn [andb] in H3. split.
    - apply ck_plain. repeat split; auto.
    - intros rest. cbn [app]. now apply unq_plain. }
  destruct (c <? 256) eqn:E256.
  { apply N.ltb_lt in E256. rewrite <- hex4_latin1 by auto. split.
    - apply ck_esc; [lia|]. now apply hexdigits_plain.
    - intros rest. cbn [app]. apply unq_hex4; auto. lia. }
  destruct (c <? 65536) eqn:E64k.
  { apply N.ltb_lt in E64k. split.
    - apply ck_esc; [lia|]. now apply hexdigits_plain.
    - intros rest. cbn [app]. now apply unq_hex4. }
  split.
  - apply ck_esc; [lia|]. now apply hexdigits_plain.
  - intros rest. cbn [app]. now apply unq_hex8.
Qed.

Lemma repr_char_ok_scalar : forall c, repr_char_ok c = true -> c < 1114112.
Proof.
  intros c H. unfold repr_char_ok, valid_char in H.
  apply andb_true_iff in H as [H _]. apply andb_true_iff in H as [_ H].
  apply andb_true_iff in H as [H _]. apply andb_true_iff in H as [_ H]. now apply N.ltb_lt.
Qed.

Theorem p_py_repr : forall s k, forallb repr_char_ok s = true ->
  ql_lex1 U (repr_fix (py_repr U s) ++ k) = LexOk (TStr s) k.
Proof.
  intros s k H. rewrite forallb_forall in H.
  rewrite repr_fix_repr by (apply Forall_forall; intros; apply repr_char_ok_scalar; auto).
  set (q := if mem 39 s && negb (mem 34 s) then 34 else 39).
  assert (Hq : q = 34 \/ q = 39) by (unfold q; destruct (mem 39 s && negb (mem 34 s)); auto).
  cbv zeta. rewrite <- app_comm_cons, <- app_assoc. cbn [app].
  rewrite ql_lex1_quote by auto.
  apply lex_str_ok.
  - apply scan_str_body; [destruct Hq; lia|]. intros c Hc. now apply repr1'_ok; auto.
  - apply unq_body. intros c rest Hc. now apply repr1'_ok; auto.
Qed.

End Str.
