(* C18 — visit_BytesConstant (EdgeQL b'...') and the PostgreSQL literal forms
   (quote_literal, quote_bytea_literal). *)
From Coq Require Import List NArith Bool Lia Arith.
From Verif.C18 Require Import Gen_Quote Model ProofsBase ProofsStr.
Import ListNotations.
Open Scope N_scope.

Section Bytes.
Variable U : uni.

Definition plainb (q c : N) : Prop := c <> 92 /\ c <= 127 /\ c <> q.

Lemma scan_bin_plain : forall q c rest, plainb q c ->
  scan_bin false q (c :: rest) = sc_cons c (scan_bin false q rest).
Proof.
  intros q c rest [H1 [H2 H3]]. cbn [scan_bin].
  rewrite (eqb_neq_false c 92), (eqb_neq_false c q) by auto.
  replace (127 <? c) with false by (symmetry; apply N.ltb_ge; lia). reflexivity.
Qed.

Lemma scan_bin_plains : forall q l rest, Forall (plainb q) l ->
  scan_bin false q (l ++ rest) = sc_app l (scan_bin false q rest).
Proof.
  induction l as [|c l IH]; intros rest H; [reflexivity|]. inversion H; subst.
  cbn [app]. rewrite scan_bin_plain by auto. cbn. now rewrite IH.
Qed.

Lemma scan_bin_esc : forall q d rest,
  scan_bin false q (92 :: d :: rest) = sc_cons 92 (sc_cons d (scan_bin false q rest)).
Proof. reflexivity. Qed.

Inductive chunkb_ok (q : N) : ustr -> Prop :=
| ckb_plain : forall c, plainb q c -> chunkb_ok q [c]
| ckb_esc : forall d tl, Forall (plainb q) tl -> chunkb_ok q (92 :: d :: tl).

Lemma scan_bin_body : forall q (f : N -> ustr) s k, q <> 92 -> q <= 127 ->
  (forall c, In c s -> chunkb_ok q (f c)) ->
  scan_bin false q (flat_map f s ++ q :: k) = ScEnd (flat_map f s) k.
Proof.
  intros q f s k Hq Hq2. induction s as [|c s IH]; intros H.
  - cbn. rewrite (eqb_neq_false q 92) by auto. rewrite N.eqb_refl.
    replace (127 <? q) with false by (symmetry; apply N.ltb_ge; lia). reflexivity.
  - cbn [flat_map]. rewrite <- app_assoc.
    destruct (H c (or_introl eq_refl)) as [x Hx|d tl Htl].
    + cbn [app]. rewrite scan_bin_plain by auto. rewrite IH by (intros; apply H; right; auto). reflexivity.
    + cbn [app]. rewrite scan_bin_esc, scan_bin_plains by auto.
      rewrite IH by (intros; apply H; right; auto). rewrite sc_app_end. reflexivity.
Qed.

Lemma unqb_plain : forall c rest, c <> 92 -> unqb 0 (c :: rest) = ocons c (unqb 0 rest).
Proof. intros c rest H. cbn [unqb]. now rewrite (eqb_neq_false c 92). Qed.

Lemma unqb_skip : forall l rest, unqb (length l) (l ++ rest) = unqb 0 rest.
Proof. induction l as [|c l IH]; intros rest; [reflexivity|]. cbn [length app unqb]. apply IH. Qed.

Lemma unqb_hex2 : forall c rest, c < 256 ->
  unqb 0 (92 :: 120 :: hex_fixed 2 c ++ rest) = ocons c (unqb 0 rest).
Proof.
  intros c rest H. cbn [unqb]. cbn [N.eqb Pos.eqb orb].
  rewrite hexn_fixed by (cbn; lia). f_equal; try apply (unqb_skip (hex_fixed 2 c)).
Qed.

Lemma unqb_body : forall (f : N -> ustr) s,
  (forall c rest, In c s -> unqb 0 (f c ++ rest) = ocons c (unqb 0 rest)) ->
  unqb 0 (flat_map f s) = Some s.
Proof.
  intros f s. induction s as [|c s IH]; intros H; [reflexivity|].
  cbn [flat_map]. rewrite H by (left; auto). rewrite IH; [reflexivity|].
  intros; apply H; right; auto.
Qed.

Lemma hexdigits_plainb : forall k c, Forall (plainb 39) (hex_fixed k c).
Proof.
  intros. eapply Forall_impl; [|apply hex_fixed_digits].
  intros a [H|H]; repeat split; lia.
Qed.

Lemma ql_bytes_esc1_ok : forall b, b < 256 ->
  chunkb_ok 39 (ql_bytes_esc1 b) /\
  forall rest, unqb 0 (ql_bytes_esc1 b ++ rest) = ocons b (unqb 0 rest).
Proof.
  intros b Hb. unfold ql_bytes_esc1, g_qlb_class, g_qlb_escapes, in_ranges, in_range.
  cbn [existsb fst snd assoc].
  destruct (N.eq_dec b 92) as [->|H92]; [split; [apply ckb_esc; constructor|reflexivity]|].
  destruct (N.eq_dec b 39) as [->|H39]; [split; [apply ckb_esc; constructor|reflexivity]|].
  destruct (N.eq_dec b 9) as [->|H9]; [split; [apply ckb_esc; constructor|reflexivity]|].
  destruct (N.eq_dec b 10) as [->|H10]; [split; [apply ckb_esc; constructor|reflexivity]|].
  destruct (N.le_gt_cases b 31) as [Hlo|Hlo].
  { leb_solve. eqb_solve. cbn [andb orb]. split.
    - apply ckb_esc. apply hexdigits_plainb.
    - intros rest. cbn [app]. now apply unqb_hex2. }
  destruct (N.le_gt_cases 126 b) as [Hhi|Hhi].
  { leb_solve. eqb_solve. cbn [andb orb]. split.
    - apply ckb_esc. apply hexdigits_plainb.
    - intros rest. cbn [app]. now apply unqb_hex2. }
  destruct (N.lt_ge_cases b 39); destruct (N.lt_ge_cases b 92); try (exfalso; lia);
    leb_solve; cbn [andb orb]; (split;
    [apply ckb_plain; repeat split; auto; lia | intros rest; cbn [app]; now apply unqb_plain]).
Qed.

Lemma ql_lex1_bin : forall s, ql_lex1 U (98 :: 39 :: s) = lex_bin false 39 s.
Proof. reflexivity. Qed.

Theorem p_ql_visit_bytes : forall bs k,
  Forall (fun b => b < 256) bs ->
  ql_lex1 U (ql_visit_bytes bs ++ k) = LexOk (TBin bs) k.
Proof.
  intros bs k Hb. unfold ql_visit_bytes. rewrite <- !app_comm_cons, <- app_assoc. cbn [app].
  rewrite ql_lex1_bin. unfold lex_bin.
  rewrite Forall_forall in Hb.
  rewrite scan_bin_body; try lia.
  - rewrite unqb_body; [reflexivity|].
    intros c rest Hc. apply ql_bytes_esc1_ok; auto.
  - intros c Hc. apply ql_bytes_esc1_ok; auto.
Qed.

End Bytes.

(* ================================================================== PostgreSQL literal forms *)

Lemma pg_scan_q_body : forall q s k, q <> 0 -> mem 0 s = false ->
  (match k with d :: _ => d <> q | [] => True end) ->
  pg_scan_q q (replace_char q [q; q] s ++ q :: k) = Some (s, k).
Proof.
  intros q s k Hq. induction s as [|c s IH]; intros H0 Hk.
  - cbn. rewrite (eqb_neq_false q 0) by auto. rewrite N.eqb_refl.
    destruct k as [|d k]; [reflexivity|]. now rewrite (eqb_neq_false d q).
  - unfold mem in H0. cbn [existsb] in H0. apply orb_false_iff in H0 as [H0 H0']. apply N.eqb_neq in H0.
    assert (Hc0 : c <> 0) by lia. fold (mem 0 s) in H0'.
    unfold replace_char in *. cbn [flat_map]. destruct (c =? q) eqn:E.
    + apply N.eqb_eq in E; subst c. cbn [app pg_scan_q].
      rewrite (eqb_neq_false q 0) by auto. rewrite N.eqb_refl. rewrite IH by auto. reflexivity.
    + cbn [app pg_scan_q]. rewrite (eqb_neq_false c 0) by auto. rewrite E. rewrite IH by auto. reflexivity.
Qed.

Theorem p_pg_quote_literal : forall s k, mem 0 s = false ->
  (match k with d :: _ => d <> 39 | [] => True end) ->
  pg_lex1 (pg_quote_literal s ++ k) = PgOk (PSConst s) k.
Proof.
  intros s k H0 Hk. unfold pg_quote_literal, g_pg_lit_quote, g_pg_lit_rep.
  rewrite <- app_comm_cons, <- app_assoc. cbn [app].
  unfold pg_lex1. cbn [N.eqb Pos.eqb]. rewrite pg_scan_q_body; auto. lia.
Qed.

Lemma pg_hexpairs_one : forall b rest, b < 256 ->
  pg_hexpairs (hex_fixed 2 b ++ rest) = ocons b (pg_hexpairs rest).
Proof.
  intros b rest H. cbn [hex_fixed app pg_hexpairs].
  rewrite !hexval_hexchar by (apply N.mod_lt; lia).
  f_equal.
  pose proof (N.div_mod b 16). pose proof (N.mod_lt b 16).
  assert (b / 16 < 16) by (apply N.div_lt_upper_bound; lia).
  rewrite (N.mod_small (b / 16) 16) by auto. lia.
Qed.

Lemma pg_hexpairs_bytes : forall bs, Forall (fun b => b < 256) bs ->
  pg_hexpairs (flat_map (hex_fixed 2) bs) = Some bs.
Proof.
  induction bs as [|b bs IH]; intros H; [reflexivity|]. inversion H; subst.
  cbn [flat_map]. rewrite pg_hexpairs_one by auto. now rewrite IH.
Qed.

Lemma pg_scan_q_hex : forall l rest, Forall is_hexdigit l ->
  pg_scan_q 39 (l ++ 39 :: 58 :: rest) = Some (l, 58 :: rest).
Proof.
  induction l as [|c l IH]; intros rest H.
  - reflexivity.
  - inversion H; subst. cbn [app pg_scan_q].
    assert (c <> 0 /\ c <> 39) as [A B] by (destruct H2; lia).
    rewrite (eqb_neq_false c 0), (eqb_neq_false c 39) by auto. now rewrite IH.
Qed.

Lemma flat_hex_digits : forall bs, Forall is_hexdigit (flat_map (hex_fixed 2) bs).
Proof.
  induction bs; cbn [flat_map]; [constructor|]. apply Forall_app; split; auto. apply hex_fixed_digits.
Qed.

Theorem p_pg_quote_bytea : forall bs k, Forall (fun b => b < 256) bs ->
  exists v, pg_lex1 (pg_quote_bytea bs ++ k) = PgOk (PSConst v) ([58; 58; 98; 121; 116; 101; 97] ++ k)
            /\ pg_bytea_in v = Some bs.
Proof.
  intros bs k H. destruct bs as [|b bs].
  - exists []. split; reflexivity.
  - exists (92 :: 120 :: flat_map (hex_fixed 2) (b :: bs)). split.
    + unfold pg_quote_bytea, g_pg_bytea_open, g_pg_bytea_close.
      rewrite <- !app_assoc. cbn [app]. unfold pg_lex1. cbn [N.eqb Pos.eqb].
      cbn [pg_scan_q N.eqb Pos.eqb].
      rewrite pg_scan_q_hex by apply flat_hex_digits. reflexivity.
    + cbn [pg_bytea_in]. now apply pg_hexpairs_bytes.
Qed.
