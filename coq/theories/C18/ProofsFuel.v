(* C18 — the tag search of dollar_quote_literal terminates within the fuel the model runs it
   with: out-of-fuel (None) is not a real outcome.

   Argument: every rejected tag `$h$` occurs in the text at some position as `$h` followed by `$`
   or by the end of the text; that position determines h; the tags tried are pairwise different
   (`$$`, then the reversed hex numerals of a strictly increasing counter); so at most |text| tags
   can be rejected, and the loop is run with fuel |text| + 1. *)
From Coq Require Import List NArith Bool Lia Arith.
From Verif.C18 Require Import Gen_Quote Model ProofsBase ProofsStr ProofsDollar.
Import ListNotations.
Open Scope N_scope.

Lemma find_sub_sound : forall p s b a, find_sub p s = Some (b, a) -> s = b ++ p ++ a.
Proof.
  intros p s. induction s as [|c s IH]; intros b a H; rewrite find_sub_unfold in H.
  - destruct (prefix p []) eqn:E; [|discriminate]. inversion H; subst.
    apply prefix_true in E as [t E]. symmetry in E. apply app_eq_nil in E as [-> ->]. reflexivity.
  - destruct (prefix p (c :: s)) eqn:E.
    + inversion H; subst. apply prefix_true in E as [t E]. rewrite E. now rewrite skipn_app_exact.
    + destruct (find_sub p s) as [[b' a']|] eqn:F; [|discriminate]. inversion H; subst.
      cbn [app]. f_equal. now apply IH.
Qed.

Lemma contains_split : forall p s, contains p s = true -> exists b a, s = b ++ p ++ a.
Proof.
  intros p s H. unfold contains in H. destruct (find_sub p s) as [[b a]|] eqn:E; [|discriminate].
  exists b, a. now apply find_sub_sound.
Qed.

Definition endcond (x : N) (post : ustr) : Prop := post = [] \/ exists post', post = x :: post'.

(* where a rejected tag sits in the text *)
Lemma rejected_pos : forall x h text, ~ In x h ->
  contains (x :: h ++ [x]) (text ++ x :: h) = true ->
  exists pre post, text = pre ++ x :: h ++ post /\ endcond x post.
Proof.
  intros x h text Hx H. apply contains_split in H as [b [a E]].
  apply app_eq_app in E as [l [[E1 E2]|[E1 E2]]].
  - symmetry in E2. apply app_eq_app in E2 as [m [[E3 E4]|[E3 E4]]].
    + (* l = (x :: h ++ [x]) ++ m *)
      exists b, (x :: m). split; [|right; eauto].
      rewrite E1, E3. cbn [app]. rewrite <- !app_assoc. reflexivity.
    + (* x :: h ++ [x] = l ++ m,  x :: h = m ++ a *)
      destruct m as [|y m'].
      * rewrite app_nil_r in E3. exists b, [x]. split; [|right; eauto]. subst l. exact E1.
      * cbn [app] in E4. inversion E4; subst y.
        destruct m' as [|z m''] using rev_ind.
        -- change (x :: h ++ [x]) with ((x :: h) ++ [x]) in E3.
           apply app_inj_tail in E3 as [E3 _]. exists b, []. split; [|left; auto].
           rewrite E1, <- E3, H1. cbn [app]. now rewrite app_nil_r.
        -- exfalso. clear IHm''.
           change (x :: h ++ [x]) with ((x :: h) ++ [x]) in E3.
           replace (l ++ x :: m'' ++ [z]) with ((l ++ x :: m'') ++ [z]) in E3
             by (rewrite <- app_assoc; reflexivity).
           apply app_inj_tail in E3 as [_ E3]. subst z.
           apply Hx. rewrite H1. apply in_or_app. left. apply in_or_app. right. left. reflexivity.
  - exfalso. apply (f_equal (@length N)) in E2. rewrite !app_length in E2. cbn [length] in E2.
    rewrite !app_length in E2. cbn [length] in E2. lia.
Qed.

Lemma app_same_length : forall (a1 b1 a2 b2 : ustr), a1 ++ b1 = a2 ++ b2 -> length a1 = length a2 ->
  a1 = a2 /\ b1 = b2.
Proof.
  induction a1 as [|x a1 IH]; intros b1 a2 b2 E L; destruct a2 as [|y a2]; try discriminate; cbn in *.
  - auto.
  - inversion E; subst. inversion L. destruct (IH _ _ _ H1 H0). subst. auto.
Qed.

Lemma tail_inj : forall x h1 h2 post1 post2, ~ In x h1 -> ~ In x h2 ->
  h1 ++ post1 = h2 ++ post2 -> endcond x post1 -> endcond x post2 -> h1 = h2.
Proof.
  intros x. induction h1 as [|a h1 IH]; intros h2 post1 post2 H1 H2 E C1 C2.
  - destruct h2 as [|b h2]; auto. exfalso. cbn in E. destruct C1 as [->|[p ->]]; [discriminate|].
    inversion E; subst. apply H2. left; auto.
  - destruct h2 as [|b h2].
    + exfalso. cbn in E. destruct C2 as [->|[p ->]]; [discriminate|]. inversion E; subst. apply H1. left; auto.
    + cbn in E. inversion E; subst. f_equal. eapply IH; eauto.
      * intro; apply H1; right; auto.
      * intro; apply H2; right; auto.
Qed.

(* pigeonhole: pairwise different rejected tags fit into the positions of the text *)
Lemma rejected_count : forall x text (hs : list ustr), NoDup hs ->
  (forall h, In h hs -> ~ In x h /\ contains (x :: h ++ [x]) (text ++ x :: h) = true) ->
  (length hs <= length text)%nat.
Proof.
  intros x text hs Hnd Hall.
  assert (Hex : exists ns : list nat, length ns = length hs /\ NoDup ns /\
            (forall n, In n ns -> (n < length text)%nat) /\
            (forall n, In n ns -> exists h pre post, In h hs /\ text = pre ++ x :: h ++ post /\
                                       endcond x post /\ n = length pre)).
  { induction hs as [|h hs IH].
    - exists []. repeat split; auto; try constructor; intros n [].
    - inversion Hnd; subst. destruct IH as [ns [L [ND [B R]]]]; auto.
      { intros h' Hh'. apply Hall. now right. }
      destruct (Hall h (or_introl eq_refl)) as [Hx Hc].
      destruct (rejected_pos x h text Hx Hc) as [pre [post [E C]]].
      exists (length pre :: ns). repeat split.
      + cbn. now rewrite L.
      + constructor; auto. intro Hin. destruct (R _ Hin) as [h' [pre' [post' [Hh' [E' [C' Ln]]]]]].
        assert (pre = pre' /\ x :: h ++ post = x :: h' ++ post') as [-> E2].
        { apply app_same_length; auto. now rewrite <- E, <- E'. }
        inversion E2. assert (h = h').
        { destruct (Hall h' (or_intror Hh')) as [Hx' _]. eapply tail_inj; eauto. }
        subst h'. contradiction.
      + intros n [<-|Hn]; auto. rewrite E. rewrite app_length. cbn. lia.
      + intros n [<-|Hn].
        * exists h, pre, post. repeat split; auto. now left.
        * destruct (R _ Hn) as [h' [pre' [post' [Hh' Rest]]]]. exists h', pre', post'. split; auto. now right. }
  destruct Hex as [ns [L [ND [B _]]]]. rewrite <- L.
  rewrite <- (seq_length (length text) 0). apply NoDup_incl_length; auto.
  intros n Hn. apply in_seq. specialize (B n Hn). lia.
Qed.

(* ------------------------------------------------------------------ the tags are pairwise different *)

Definition hexdec (c : N) : N := match hexval c with Some d => d | None => 0 end.
Fixpoint hexrev_val (l : ustr) : N :=
  match l with [] => 0 | c :: l' => hexdec c + 16 * hexrev_val l' end.

Lemma hexrev_val_ok : forall fuel n, n < 16 ^ N.of_nat fuel -> hexrev_val (hexrev fuel n) = n.
Proof.
  induction fuel as [|f IH]; intros n H.
  - cbn in H. assert (n = 0) by lia. subst. reflexivity.
  - cbn [hexrev hexrev_val]. unfold hexdec at 1. rewrite hexval_hexchar by (apply N.mod_lt; lia).
    destruct (n / 16 =? 0) eqn:E.
    + apply N.eqb_eq in E. cbn [hexrev_val]. pose proof (N.div_mod n 16). lia.
    + rewrite IH.
      * pose proof (N.div_mod n 16). lia.
      * rewrite Nat2N.inj_succ, N.pow_succ_r' in H. apply N.div_lt_upper_bound; lia.
Qed.

Lemma pos_size_nat_gt : forall p, N.pos p < 2 ^ N.of_nat (Pos.size_nat p).
Proof.
  induction p as [p IH|p IH|]; cbn [Pos.size_nat]; rewrite ?Nat2N.inj_succ, ?N.pow_succ_r'.
  - change (N.pos p~1) with (2 * N.pos p + 1). lia.
  - change (N.pos p~0) with (2 * N.pos p). lia.
  - cbn. lia.
Qed.

Lemma size_nat_16 : forall n, n < 16 ^ N.of_nat (S (N.size_nat n)).
Proof.
  intros n. destruct n as [|p]; [cbn; lia|]. cbn [N.size_nat].
  pose proof (pos_size_nat_gt p) as H. rewrite Nat2N.inj_succ, N.pow_succ_r'.
  assert (2 ^ N.of_nat (Pos.size_nat p) <= 16 ^ N.of_nat (Pos.size_nat p)) by (apply N.pow_le_mono_l; lia).
  assert (0 < 16 ^ N.of_nat (Pos.size_nat p)) by (apply N.neq_0_lt_0, N.pow_nonzero; lia).
  lia.
Qed.

Definition tag_digits (qq : N) : ustr := hexrev (S (N.size_nat qq)) qq.

Lemma tag_digits_inj : forall a b, tag_digits a = tag_digits b -> a = b.
Proof.
  intros a b H. unfold tag_digits in H.
  rewrite <- (hexrev_val_ok (S (N.size_nat a)) a) by apply size_nat_16.
  rewrite <- (hexrev_val_ok (S (N.size_nat b)) b) by apply size_nat_16. now rewrite H.
Qed.

Lemma tag_digits_nonempty : forall a, tag_digits a <> [].
Proof. intros a. unfold tag_digits. cbn [hexrev]. discriminate. Qed.

Lemma tag_digits_no_dollar : forall a, ~ In 36 (tag_digits a).
Proof.
  intros a H. pose proof (hexrev_digits (S (N.size_nat a)) a) as F. rewrite Forall_forall in F.
  destruct (F _ H); lia.
Qed.

Lemma dq_tag_form : forall qq, dq_tag qq = 36 :: tag_digits qq ++ [36].
Proof. reflexivity. Qed.

(* ------------------------------------------------------------------ the loop *)

(* seen: the digit strings ([] for `$$`) of the tags rejected so far *)
Definition older (qq : N) (h : ustr) : Prop := h = [] \/ exists m, m < qq /\ h = tag_digits m.

Lemma dq_loop_total : forall fuel text h qq seen,
  older qq h -> ~ In h seen -> NoDup seen ->
  (forall h', In h' seen -> older qq h' /\ contains (36 :: h' ++ [36]) (text ++ 36 :: h') = true) ->
  (length text + 1 <= length seen + fuel)%nat ->
  dq_loop fuel text (36 :: h ++ [36]) qq <> None.
Proof.
  induction fuel as [|f IH]; intros text h qq seen Ho Hni Hnd Hall Hlen.
  - cbn [dq_loop].
    change (36 :: h ++ [36]) with ((36 :: h) ++ [36]). rewrite removelast_last.
    destruct (contains ((36 :: h) ++ [36]) (text ++ 36 :: h)) eqn:E; [|discriminate].
    exfalso.
    assert (L : (length (h :: seen) <= length text)%nat).
    { apply (rejected_count 36 text (h :: seen)); [constructor; auto|].
      intros h' [<-|Hh'].
      - split; auto. destruct Ho as [->|[m [_ ->]]]; [intros []|apply tag_digits_no_dollar].
      - destruct (Hall h' Hh') as [Ho' Hc]. split; auto.
        destruct Ho' as [->|[m [_ ->]]]; [intros []|apply tag_digits_no_dollar]. }
    cbn [length] in L. lia.
  - cbn [dq_loop].
    change (36 :: h ++ [36]) with ((36 :: h) ++ [36]). rewrite removelast_last.
    destruct (contains ((36 :: h) ++ [36]) (text ++ 36 :: h)) eqn:E; [|discriminate].
    set (qq1 := if qq mod g_dq_mod <? g_dq_thr then qq + (g_dq_thr - qq mod g_dq_mod) else qq).
    assert (Hge : qq <= qq1) by (unfold qq1; destruct (qq mod g_dq_mod <? g_dq_thr); lia).
    rewrite dq_tag_form.
    assert (Hold : forall h', older qq h' -> older (qq1 + 1) h' /\ h' <> tag_digits qq1).
    { intros h' [->|[m [Hm ->]]].
      - split; [left; auto|]. intro X. symmetry in X. now apply tag_digits_nonempty in X.
      - split; [right; exists m; split; auto; lia|]. intro X. apply tag_digits_inj in X. lia. }
    apply (IH text (tag_digits qq1) (qq1 + 1) (h :: seen)).
    + right. exists qq1. split; auto. lia.
    + intros [X|X].
      * destruct (Hold h Ho) as [_ N]. congruence.
      * destruct (Hall _ X) as [Ho' _]. destruct (Hold _ Ho') as [_ N]. congruence.
    + constructor; auto.
    + intros h' [<-|Hh'].
      * split; [apply Hold; auto|exact E].
      * destruct (Hall h' Hh') as [Ho' Hc]. split; auto. apply Hold; auto.
    + cbn [length]. lia.
Qed.

Theorem p_dq_fuel_enough : forall s, ql_dollar_quote_literal s <> None.
Proof.
  intros s. unfold ql_dollar_quote_literal.
  pose proof (dq_loop_total (S (length s)) s [] 0 []) as H.
  cbn [app] in H. unfold g_dq_init.
  destruct (dq_loop (S (length s)) s [36; 36] 0) eqn:E; [discriminate|].
  exfalso. apply H; auto.
  - left; auto.
  - constructor.
  - intros h' [].
  - cbn [length]. lia.
Qed.
