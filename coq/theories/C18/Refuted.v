(* C18 — where the full statement is FALSE of the faithful model.

   quote_ident / param_to_str decide "bare or back-quoted" with Python's re classes \w and \d,
   the EdgeQL lexer decides with Rust's char::is_alphabetic / ASCII digits.  The two disagree on
   915 code points at the start of a name (categories No / Nl, e.g. U+00B2 SUPERSCRIPT TWO), on
   every non-ASCII alphanumeric-but-not-alphabetic code point inside a parameter name, and on
   non-ASCII decimal digits inside an all-digit name.  The witnesses below are stated for every
   instantiation of the Unicode tables that has the stated values at the named code points; the
   code-point sweep of the check confirms those values on the real `re` engine and the real
   lexer, and the witnesses are replayed on the real functions (known finding
   C18-ident-unicode-class). *)
From Coq Require Import List NArith Bool.
From Verif.C18 Require Import Gen_Quote Model Proofs.
Import ListNotations.
Open Scope N_scope.

(* quote_ident('²x', allow_reserved=True) = '²x', which the lexer rejects *)
Theorem r_ql_quote_ident : forall U,
  py_alnum_hi U 178 = true -> py_dec_hi U 178 = false -> rs_alpha_hi U 178 = false ->
  exists s, ql_ident_dom s = true /\
    ql_quote_ident U false true false true s = s /\ ql_lex1 U (s ++ []) = LexErr.
Proof.
  intros U H1 H2 H3. exists [178; 120]. split; [reflexivity|].
  assert (E : ql_quote_ident U false true false true [178; 120] = [178; 120]).
  { unfold ql_quote_ident, ql_needs_quoting, py_ident_match, py_word, py_alnum, py_dec.
    cbn. rewrite H1, H2. reflexivity. }
  split; [exact E|].
  unfold ql_lex1, rs_alpha. cbn. rewrite H3. reflexivity.
Qed.

(* param_to_str('a²') = '$a²', read back as the parameter `a` followed by a stray character *)
Theorem r_ql_param_to_str : forall U,
  py_alnum_hi U 178 = true -> rs_alpha_hi U 178 = false ->
  exists s, ql_param_dom s = true /\
    ql_lex1 U (ql_param_to_str U s ++ []) = LexOk (TParam [97]) [178] /\ s <> [97].
Proof.
  intros U H1 H3. exists [97; 178]. split; [reflexivity|]. split; [|discriminate].
  assert (E : ql_param_to_str U [97; 178] = [36; 97; 178]).
  { unfold ql_param_to_str, ql_quote_ident, ql_needs_quoting, py_ident_match, py_word, py_alnum, py_dec.
    cbn. rewrite H1. reflexivity. }
  rewrite E. unfold ql_lex1, lex_dollar, rs_alpha. cbn. rewrite H3. reflexivity.
Qed.

(* quote_ident('1٣', allow_num=True) = '1٣' (U+0663 ARABIC-INDIC DIGIT THREE is \d for Python):
   read back as the integer 1 followed by a stray character *)
Theorem r_ql_quote_ident_num : forall U,
  py_dec_hi U 1635 = true -> rs_alpha_hi U 1635 = false ->
  exists s, ql_ident_dom s = true /\
    ql_quote_ident U false true true true s = s /\ ql_lex1 U (s ++ []) = LexOk (TInt 1) [1635].
Proof.
  intros U H1 H3. exists [49; 1635]. split; [reflexivity|].
  assert (E : ql_quote_ident U false true true true [49; 1635] = [49; 1635]).
  { unfold ql_quote_ident, ql_needs_quoting, py_ident_match, py_num_match, py_word, py_alnum, py_dec.
    cbn. rewrite H1. reflexivity. }
  split; [exact E|].
  unfold ql_lex1, lex_number, rs_alpha. cbn. rewrite H3. reflexivity.
Qed.
