(* C18 — identifiers: EdgeQL quote_ident (back-quoted, bare name, bare number), param_to_str,
   and PostgreSQL quote_ident (double-quoted, bare). *)
From Coq Require Import List NArith Bool Lia Arith.
From Verif.C18 Require Import Gen_Quote Model ProofsBase ProofsStr ProofsBytes.
Import ListNotations.
Open Scope N_scope.

Section Ident.
Variable U : uni.

(* ------------------------------------------------------------------ back-quoted names *)

Definition bt1 (c : N) : ustr := if c =? 96 then [96; 96] else [c].

Lemma quote_raw_flat : forall s, ql_quote_ident_raw s = 96 :: flat_map bt1 s ++ [96].
Proof. reflexivity. Qed.

Definition not_starting (x : N) (k : ustr) : Prop := match k with d :: _ => d <> x | [] => True end.

Lemma scan_bt_body : forall s k, no_prohibited s = true -> not_starting 96 k ->
  scan_bt (flat_map bt1 s ++ 96 :: k) = ScEnd (flat_map bt1 s) k.
Proof.
  induction s as [|c s IH]; intros k Hp Hk.
  - cbn. destruct k as [|d k]; [reflexivity|]. cbn in Hk. now rewrite (eqb_neq_false d 96).
  - cbn in Hp. apply andb_true_iff in Hp as [Hp1 Hp2]. apply negb_true_iff in Hp1.
    cbn [flat_map]. unfold bt1 at 1 3. destruct (c =? 96) eqn:E.
    + cbn [app scan_bt N.eqb Pos.eqb]. rewrite IH by auto. reflexivity.
    + cbn [app scan_bt]. rewrite E, Hp1. rewrite IH by auto. reflexivity.
Qed.

Lemma unbt_body : forall s, unbt (flat_map bt1 s) = s.
Proof.
  induction s as [|c s IH]; [reflexivity|]. cbn [flat_map]. unfold bt1 at 1. destruct (c =? 96) eqn:E.
  - apply N.eqb_eq in E; subst. cbn [app unbt N.eqb Pos.eqb]. now rewrite IH.
  - cbn [app unbt]. rewrite E. now rewrite IH.
Qed.

Lemma prefix1_bt : forall x s, x <> 96 -> prefix [x] (flat_map bt1 s) = prefix [x] s.
Proof.
  intros x s Hx. destruct s as [|c s]; [reflexivity|]. cbn [flat_map]. unfold bt1. destruct (c =? 96) eqn:E.
  - apply N.eqb_eq in E; subst. cbn. now rewrite (eqb_neq_false x 96).
  - cbn. reflexivity.
Qed.

Lemma prefix2_bt : forall x y s, x <> 96 -> y <> 96 -> prefix [x; y] (flat_map bt1 s) = prefix [x; y] s.
Proof.
  intros x y s Hx Hy. destruct s as [|c s]; [reflexivity|]. cbn [flat_map]. unfold bt1 at 1. destruct (c =? 96) eqn:E.
  - apply N.eqb_eq in E; subst. cbn [app prefix]. now rewrite (eqb_neq_false x 96).
  - cbn [app prefix]. f_equal. now apply prefix1_bt.
Qed.

Lemma contains2_bt : forall x y s, x <> 96 -> y <> 96 ->
  contains [x; y] (flat_map bt1 s) = contains [x; y] s.
Proof.
  intros x y s Hx Hy. induction s as [|c s IH]; [reflexivity|].
  rewrite contains_cons. cbn [flat_map]. unfold bt1 at 1. destruct (c =? 96) eqn:E.
  - apply N.eqb_eq in E; subst. cbn [app]. rewrite !contains_cons. rewrite IH.
    cbn [prefix]. rewrite (eqb_neq_false x 96) by auto. reflexivity.
  - cbn [app]. rewrite contains_cons, IH. f_equal. cbn [prefix]. f_equal. now apply prefix1_bt.
Qed.

Lemma rev_bt : forall s, rev (flat_map bt1 s) = flat_map bt1 (rev s).
Proof.
  induction s as [|c s IH]; [reflexivity|]. cbn [flat_map rev]. rewrite rev_app_distr, IH, flat_map_app.
  f_equal. cbn [flat_map]. rewrite app_nil_r. unfold bt1. destruct (c =? 96); reflexivity.
Qed.

Lemma dunder_bt : forall s, dunder (flat_map bt1 s) = dunder s.
Proof.
  intros s. unfold dunder, suffix. rewrite rev_bt. cbn [rev app]. rewrite !prefix2_bt by lia. reflexivity.
Qed.

Definition ql_ident_dom (s : ustr) : bool :=
  match s with
  | [] => false
  | c :: _ => negb (c =? 64) && negb (c =? 36) && negb (contains [58; 58] s) && negb (dunder s) && no_prohibited s
  end.
(* parameter names may start with '$' *)
(* ... but not with a backtick: param_to_str passes such names through unchanged (the parser keeps
   the backticks of a quoted parameter as part of the name), so they are outside the domain here *)
Definition ql_param_dom (s : ustr) : bool :=
  match s with
  | [] => false
  | c :: _ => negb (c =? 64) && negb (c =? 96) && negb (contains [58; 58] s) && negb (dunder s) && no_prohibited s
  end.

Lemma bt_head : forall c s, exists c' B, flat_map bt1 (c :: s) = c' :: B /\ (c' = c \/ (c = 96 /\ c' = 96)).
Proof.
  intros c s. cbn [flat_map]. unfold bt1. destruct (c =? 96) eqn:E.
  - apply N.eqb_eq in E. subst. eexists; eexists; split; [reflexivity|]. auto.
  - eexists; eexists; split; [reflexivity|]. auto.
Qed.

Theorem p_ql_ident_quoted : forall s k, ql_ident_dom s = true -> not_starting 96 k ->
  ql_lex1 U (ql_quote_ident_raw s ++ k) = LexOk (TIdent s) k.
Proof.
  intros s k Hd Hk. rewrite quote_raw_flat. rewrite <- app_comm_cons, <- app_assoc. cbn [app].
  change (ql_lex1 U (96 :: flat_map bt1 s ++ 96 :: k)) with (lex_backtick (flat_map bt1 s ++ 96 :: k)).
  destruct s as [|c s]; [discriminate|]. unfold ql_ident_dom in Hd.
  apply andb_true_iff in Hd as [Hd Hp]. apply andb_true_iff in Hd as [Hd Hdu].
  apply andb_true_iff in Hd as [Hd Hco]. apply andb_true_iff in Hd as [H64 H36].
  apply negb_true_iff in H64, H36, Hco, Hdu. apply N.eqb_neq in H64, H36.
  unfold lex_backtick. rewrite scan_bt_body by auto.
  pose proof (contains2_bt 58 58 (c :: s)) as Hc. rewrite Hco in Hc.
  pose proof (dunder_bt (c :: s)) as Hdd. rewrite Hdu in Hdd.
  pose proof (unbt_body (c :: s)) as Hu.
  destruct (bt_head c s) as [c' [B [E Hc']]]. rewrite E in *.
  rewrite Hc, Hdd by lia.
  assert (c' <> 64 /\ c' <> 36) as [A1 A2] by (destruct Hc' as [->|[-> ->]]; split; auto; lia).
  rewrite (eqb_neq_false c' 64), (eqb_neq_false c' 36) by auto. cbn [orb]. now rewrite Hu.
Qed.

(* ------------------------------------------------------------------ bare names *)

Definition name_char (c : N) : bool := (c =? 95) || rs_alnum U c.
Definition ident_start (c : N) : bool := (c =? 95) || rs_alpha U c.
Definition param_char (c : N) : bool := is_digit c || rs_alpha U c || (c =? 95).

(* continuation after a bare form: end of input or a character that cannot continue the token *)
Definition ql_boundary (k : ustr) : bool :=
  match k with
  | [] => true
  | c :: _ => negb ((c =? 34) || (c =? 39) || (c =? 96) || (c =? 36) || name_char c || rs_alpha U c || is_digit c)
  end.
Definition ql_num_boundary (k : ustr) : bool :=
  ql_boundary k && match k with c :: _ => negb (c =? 46) | [] => true end.

Lemma ql_boundary_cons : forall d k, ql_boundary (d :: k) = true ->
  (d =? 34) = false /\ (d =? 39) = false /\ (d =? 96) = false /\ (d =? 36) = false /\
  name_char d = false /\ rs_alpha U d = false /\ is_digit d = false.
Proof.
  intros d k H. unfold ql_boundary in H. apply negb_true_iff in H.
  repeat (apply orb_false_iff in H as [H ?]). repeat split; auto.
Qed.

Lemma name_char_not_special : forall c, name_char c = true ->
  c <> 34 /\ c <> 39 /\ c <> 96 /\ c <> 36 /\ c <> 46.
Proof. intros c H. repeat split; intro; subst; vm_compute in H; discriminate. Qed.
Lemma ident_start_not_special : forall c, ident_start c = true ->
  c <> 34 /\ c <> 39 /\ c <> 96 /\ c <> 36 /\ is_digit c = false.
Proof.
  intros c H. repeat split; try (intro; subst; vm_compute in H; discriminate).
  destruct (is_digit c) eqn:E; auto. exfalso.
  unfold is_digit, in_range in E. apply andb_true_iff in E as [E1 E2]. apply N.leb_le in E1, E2.
  unfold ident_start, rs_alpha, is_ascii, is_alpha, is_upper, is_lower, in_range in H.
  revert H. eqb_solve. ltb_solve. leb_solve. discriminate.
Qed.
Lemma param_char_not_dollar : forall c, param_char c = true -> c <> 36 /\ c <> 96.
Proof. intros c H. split; intro; subst; vm_compute in H; discriminate. Qed.

Lemma scan_ident_run : forall r k, forallb name_char r = true -> ql_boundary k = true ->
  scan_ident U (r ++ k) = IdEnd r k.
Proof.
  induction r as [|c r IH]; intros k Hr Hk.
  - cbn [app]. destruct k as [|d k]; [reflexivity|].
    destruct (ql_boundary_cons d k Hk) as (B34 & B39 & B96 & B36 & Bn & Ba & Bd).
    cbn [scan_ident]. rewrite B34, B39, B96. unfold name_char in Bn. rewrite Bn. reflexivity.
  - cbn in Hr. apply andb_true_iff in Hr as [Hc Hr].
    destruct (name_char_not_special c Hc) as [A [B [C _]]].
    cbn [app scan_ident]. rewrite (eqb_neq_false c 34), (eqb_neq_false c 39), (eqb_neq_false c 96) by auto.
    unfold name_char in Hc. rewrite Hc. cbn [orb]. rewrite IH by auto. reflexivity.
Qed.

Lemma ql_lex1_name : forall c r k, ident_start c = true -> forallb name_char r = true ->
  ql_boundary k = true ->
  ql_lex1 U ((c :: r) ++ k) =
  if ql_as_keyword (c :: r) then LexOk (TKeyword (c :: r)) k
  else if dunder (c :: r) then LexErr else LexOk (TIdent (c :: r)) k.
Proof.
  intros c r k Hc Hr Hk. destruct (ident_start_not_special c Hc) as [A [B [C _]]].
  cbn [app]. unfold ql_lex1.
  rewrite (eqb_neq_false c 34), (eqb_neq_false c 39), (eqb_neq_false c 96) by auto.
  unfold ident_start in Hc. rewrite Hc. cbn [orb]. rewrite scan_ident_run by auto. reflexivity.
Qed.

(* the compatibility side condition: every character Python's regex accepts is accepted by
   the Rust lexer in the same position *)
Definition ident_compat (s : ustr) : bool :=
  match s with
  | [] => true
  | c :: r => implb (py_word U c && negb (py_dec U c)) (ident_start c)
              && forallb (fun x => implb (py_word U x) (name_char x)) r
  end.
Definition param_compat (s : ustr) : bool :=
  match s with
  | [] => true
  | c :: r => implb (py_word U c && negb (py_dec U c)) (ident_start c)
              && forallb (fun x => implb (py_word U x) (param_char x)) r
  end.
Definition num_compat (s : ustr) : bool :=
  match s with
  | [] => true
  | _ :: r => forallb (fun x => implb (py_dec U x) (is_digit x)) r
  end.

Lemma forallb_impl2 : forall (p q : N -> bool) l,
  forallb p l = true -> forallb (fun x => implb (p x) (q x)) l = true -> forallb q l = true.
Proof.
  induction l as [|x l IH]; cbn; auto. intros H1 H2.
  apply andb_true_iff in H1 as [A B]. apply andb_true_iff in H2 as [C D].
  rewrite A in C. cbn in C. rewrite C. cbn. auto.
Qed.

(* ---- keywords *)

Lemma kw_lists_ascii : forallb (forallb is_ascii) ql_all_keywords = true.
Proof. vm_compute. reflexivity. Qed.

Lemma ascii_lower_ascii : forall c, is_ascii (ascii_lower c) = true -> is_ascii c = true.
Proof.
  intros c. unfold ascii_lower, is_upper, in_range, is_ascii. destruct ((65 <=? c) && (c <=? 90)) eqn:E; auto.
  intros _. apply andb_true_iff in E as [_ E]. apply N.leb_le in E. apply N.ltb_lt. lia.
Qed.

Lemma as_keyword_ascii : forall s, ql_as_keyword s = true -> forallb is_ascii s = true.
Proof.
  intros s H. unfold ql_as_keyword in H. apply andb_true_iff in H as [_ H].
  apply in_strs_iff in H. pose proof kw_lists_ascii as K. rewrite forallb_forall in K.
  apply K in H. rewrite forallb_forall in *. intros x Hx. apply ascii_lower_ascii. apply H.
  now apply in_map.
Qed.

Lemma lower_ascii : forall s, forallb is_ascii s = true -> py_lower U s = map ascii_lower s.
Proof.
  induction s as [|c s IH]; intros H; [reflexivity|]. cbn in H. apply andb_true_iff in H as [A B].
  unfold py_lower in *. cbn [flat_map map]. unfold py_low1 at 1. rewrite A. cbn [app]. now rewrite IH.
Qed.

Lemma kw_partial_disjoint :
  forallb (fun w => negb (in_strs w g_kw_future || in_strs w g_kw_current)) g_kw_partial = true.
Proof. vm_compute. reflexivity. Qed.

(* a bare keyword token that quote_ident(allow_reserved=False) lets through is not reserved,
   except the reserved __names__ (which no quoted form can express) *)
Lemma bare_not_reserved : forall s an apr,
  ql_needs_quoting U s false an apr = false -> ql_ident_dom s = true ->
  ql_as_keyword s = true -> ql_kw_reserved s = true ->
  dunder (map ascii_lower s) = true.
Proof.
  intros s an apr Hn Hd Hk Hr. destruct s as [|c s]; [discriminate|].
  unfold ql_ident_dom in Hd.
  apply andb_true_iff in Hd as [Hd _]. apply andb_true_iff in Hd as [Hd _].
  apply andb_true_iff in Hd as [Hd Hco]. apply andb_true_iff in Hd as [H64 _].
  apply negb_true_iff in H64, Hco.
  unfold ql_needs_quoting, g_ql_bad_start, g_ql_bad_sub in Hn. rewrite H64, Hco in Hn. cbn [orb] in Hn.
  apply orb_false_iff in Hn as [Hn _]. apply orb_false_iff in Hn as [_ Hn]. cbn [negb andb] in Hn.
  rewrite (lower_ascii (c :: s)) in Hn by now apply as_keyword_ascii.
  unfold ql_kw_reserved in Hr. unfold ql_py_reserved in Hn. rewrite Hr in Hn. cbn [andb] in Hn.
  unfold g_ql_exempt_start, g_ql_exempt_end in Hn. fold (dunder (map ascii_lower (c :: s))) in Hn.
  destruct (dunder (map ascii_lower (c :: s))); [reflexivity|].
  cbn [negb andb] in Hn. apply negb_false_iff in Hn.
  pose proof kw_partial_disjoint as D. rewrite forallb_forall in D.
  apply in_strs_iff in Hn. apply D in Hn. rewrite Hr in Hn. discriminate.
Qed.

(* with allow_partial_reserved=False a bare keyword token is not union / except / intersect *)
Lemma bare_not_partial : forall s ar an,
  ql_needs_quoting U s ar an false = false -> ql_ident_dom s = true ->
  ql_as_keyword s = true -> in_strs (map ascii_lower s) g_kw_partial = false.
Proof.
  intros s ar an Hn Hd Hk. destruct s as [|c s]; [discriminate|].
  unfold ql_ident_dom in Hd.
  apply andb_true_iff in Hd as [Hd _]. apply andb_true_iff in Hd as [Hd _].
  apply andb_true_iff in Hd as [Hd Hco]. apply andb_true_iff in Hd as [H64 _].
  apply negb_true_iff in H64, Hco.
  unfold ql_needs_quoting, g_ql_bad_start, g_ql_bad_sub in Hn. rewrite H64, Hco in Hn. cbn [orb] in Hn.
  apply orb_false_iff in Hn as [_ Hn]. cbn [negb andb] in Hn.
  now rewrite (lower_ascii (c :: s)) in Hn by now apply as_keyword_ascii.
Qed.

Theorem p_ql_ident_bare_name : forall s k,
  py_ident_match U s = true -> ident_compat s = true -> dunder s = false -> ql_boundary k = true ->
  ql_lex1 U (s ++ k) = LexOk (if ql_as_keyword s then TKeyword s else TIdent s) k.
Proof.
  intros s k Hm Hc Hd Hk. destruct s as [|c r]; [discriminate|].
  unfold py_ident_match in Hm. apply andb_true_iff in Hm as [Hm Hr].
  unfold ident_compat in Hc. apply andb_true_iff in Hc as [Hc1 Hc2]. rewrite Hm in Hc1. cbn in Hc1.
  rewrite ql_lex1_name; auto.
  - destruct (ql_as_keyword (c :: r)); [reflexivity|]. now rewrite Hd.
  - apply (forallb_impl2 (py_word U) name_char); auto.
Qed.

(* ---- numeric names (allow_num) *)

Lemma span_num_run : forall r k, forallb is_digit r = true ->
  (match k with d :: _ => is_digit d = false /\ d <> 95 | [] => True end) ->
  span_num (r ++ k) = (r, k).
Proof.
  induction r as [|c r IH]; intros k Hr Hk.
  - cbn [app]. destruct k as [|d k]; [reflexivity|]. destruct Hk as [A B]. cbn [span_num].
    now rewrite A, (eqb_neq_false d 95).
  - cbn in Hr. apply andb_true_iff in Hr as [A B]. cbn [app span_num]. rewrite A. cbn [orb].
    now rewrite IH.
Qed.

Lemma digit_facts : forall c, is_digit c = true ->
  48 <= c <= 57 /\ rs_alpha U c = false /\ name_char c = true /\ param_char c = true.
Proof.
  intros c H. unfold is_digit, in_range in H. apply andb_true_iff in H as [H1 H2]. apply N.leb_le in H1, H2.
  repeat split; auto.
  - unfold rs_alpha, is_ascii, is_alpha, is_upper, is_lower, in_range. ltb_solve. leb_solve. reflexivity.
  - unfold name_char, rs_alnum, is_ascii, is_alnum, is_digit, in_range. ltb_solve. eqb_solve. leb_solve.
    now rewrite !orb_true_r.
  - unfold param_char, is_digit, in_range. leb_solve. reflexivity.
Qed.

Lemma py_num_match_shape : forall c r, py_num_match U (c :: r) = true -> num_compat (c :: r) = true ->
  is_digit c = true /\ forallb is_digit r = true /\ ((c =? 48) && negb (match r with [] => true | _ => false end)) = false.
Proof.
  intros c r H Hc. unfold py_num_match in H. unfold num_compat in Hc.
  apply orb_true_iff in H as [H|H].
  - apply andb_true_iff in H as [H1 H2]. unfold in_range in H1. apply andb_true_iff in H1 as [A B].
    apply N.leb_le in A, B. repeat split.
    + unfold is_digit, in_range. leb_solve. reflexivity.
    + apply (forallb_impl2 (py_dec U) is_digit); auto.
    + rewrite (eqb_neq_false c 48) by lia. reflexivity.
  - apply andb_true_iff in H as [H1 H2]. apply N.eqb_eq in H1; subst. destruct r; [|discriminate].
    repeat split; reflexivity.
Qed.

Theorem p_ql_ident_bare_num : forall s k,
  py_num_match U s = true -> num_compat s = true -> ql_num_boundary k = true ->
  dec_value s < 18446744073709551616 ->
  ql_lex1 U (s ++ k) = LexOk (TInt (dec_value s)) k.
Proof.
  intros s k Hm Hc Hk Hv. destruct s as [|c r]; [discriminate|].
  destruct (py_num_match_shape c r Hm Hc) as [Hd [Hr Hz]].
  destruct (digit_facts c Hd) as [[L1 L2] [Ha _]].
  unfold ql_num_boundary in Hk. apply andb_true_iff in Hk as [Hk Hk46].
  cbn [app]. unfold ql_lex1.
  rewrite (eqb_neq_false c 34), (eqb_neq_false c 39), (eqb_neq_false c 96), (eqb_neq_false c 95) by lia.
  rewrite Ha, Hd. cbn [orb]. unfold lex_number.
  rewrite span_num_run; auto.
  - rewrite Hz.
    assert (Hmore : match k with c0 :: _ => (c0 =? 101) || (c0 =? 46) || rs_alpha U c0 | [] => false end = false).
    { destruct k as [|d k]; auto.
      destruct (ql_boundary_cons d k Hk) as (B34 & B39 & B96 & B36 & Bn & Ba & Bd).
      apply negb_true_iff in Hk46.
      rewrite Hk46, Ba. destruct (d =? 101) eqn:E; auto. apply N.eqb_eq in E; subst. vm_compute in Bn. discriminate. }
    rewrite Hmore.
    replace (dec_value (c :: r) <? 18446744073709551616) with true by (symmetry; now apply N.ltb_lt).
    reflexivity.
  - destruct k as [|d k]; auto.
    destruct (ql_boundary_cons d k Hk) as (B34 & B39 & B96 & B36 & Bn & Ba & Bd). split; auto.
    intro; subst. vm_compute in Bn. discriminate.
Qed.

(* ---- quote_ident, all flag combinations *)

Theorem p_ql_quote_ident : forall force ar an apr s k,
  ql_ident_dom s = true -> ident_compat s = true -> num_compat s = true ->
  ql_num_boundary k = true ->
  (an = true -> dec_value s < 18446744073709551616) ->
  exists t, ql_lex1 U (ql_quote_ident U force ar an apr s ++ k) = LexOk t k /\
    (t = TIdent s
     \/ (t = TKeyword s /\ (ar = false -> ql_kw_reserved s = true -> dunder (map ascii_lower s) = true)
                        /\ (apr = false -> in_strs (map ascii_lower s) g_kw_partial = false))
     \/ (an = true /\ py_num_match U s = true /\ t = TInt (dec_value s))).
Proof.
  intros force ar an apr s k Hd Hc Hn Hk Hv.
  assert (Hk' : ql_boundary k = true) by (unfold ql_num_boundary in Hk; now apply andb_true_iff in Hk as [? _]).
  assert (Hk96 : not_starting 96 k).
  { destruct k as [|d k]; cbn; auto.
    destruct (ql_boundary_cons d k Hk') as (B34 & B39 & B96 & B36 & Bn & Ba & Bd). now apply N.eqb_neq. }
  unfold ql_quote_ident. destruct (force || ql_needs_quoting U s ar an apr) eqn:E.
  - exists (TIdent s). split; auto. now apply p_ql_ident_quoted.
  - apply orb_false_iff in E as [_ E].
    assert (Hdd := Hd). destruct s as [|c r]; [discriminate|].
    unfold ql_ident_dom in Hd.
    apply andb_true_iff in Hd as [Hd _]. apply andb_true_iff in Hd as [Hd Hdu].
    apply andb_true_iff in Hd as [Hd Hco]. apply andb_true_iff in Hd as [H64 _].
    apply negb_true_iff in H64, Hco, Hdu.
    assert (E' := E).
    unfold ql_needs_quoting, g_ql_bad_start, g_ql_bad_sub in E. rewrite H64, Hco in E. cbn [orb] in E.
    apply orb_false_iff in E as [E E3]. apply orb_false_iff in E as [E1 E2]. apply negb_false_iff in E1.
    apply orb_true_iff in E1 as [E1|E1].
    + rewrite p_ql_ident_bare_name by auto.
      destruct (ql_as_keyword (c :: r)) eqn:Ek.
      * eexists; split; [reflexivity|]. right; left. split; [auto|split].
        -- intros -> Hr. eapply bare_not_reserved; eauto.
        -- intros ->. eapply bare_not_partial; eauto.
      * eexists; split; [reflexivity|]. auto.
    + apply andb_true_iff in E1 as [-> E1].
      rewrite p_ql_ident_bare_num by auto.
      eexists; split; [reflexivity|]. right; right. auto.
Qed.

(* ------------------------------------------------------------------ parameters *)

Lemma ql_lex1_dollar_eq : forall s, ql_lex1 U (36 :: s) = lex_dollar U s.
Proof. reflexivity. Qed.

Lemma dollar_scan_run : forall r k, forallb param_char r = true -> ql_boundary k = true ->
  exists hl, dollar_scan U (r ++ k) = DEnd r k hl /\ (forallb is_digit r = true -> hl = false).
Proof.
  induction r as [|c r IH]; intros k Hr Hk.
  - exists false. split; auto. cbn [app]. destruct k as [|d k]; [reflexivity|].
    destruct (ql_boundary_cons d k Hk) as (B34 & B39 & B96 & B36 & Bn & Ba & Bd).
    cbn [dollar_scan]. rewrite B36, Bd, Ba.
    unfold name_char in Bn. apply orb_false_iff in Bn as [Bn _]. rewrite Bn. reflexivity.
  - cbn in Hr. apply andb_true_iff in Hr as [Hc Hr]. destruct (IH k Hr Hk) as [hl [E Hh]].
    destruct (param_char_not_dollar c Hc) as [A _].
    cbn [app dollar_scan]. rewrite (eqb_neq_false c 36) by auto. rewrite E.
    destruct (is_digit c) eqn:Ed.
    + exists hl. split; [reflexivity|]. intros H. cbn in H. apply andb_true_iff in H as [_ H]. auto.
    + unfold param_char in Hc. rewrite Ed in Hc. cbn [orb] in Hc. rewrite Hc.
      exists true. split; [reflexivity|]. intros H. cbn in H. rewrite Ed in H. discriminate.
Qed.

Lemma lex_dollar_name : forall c r k, (ident_start c = true \/ is_digit c = true) ->
  forallb param_char r = true -> (is_digit c = true -> forallb is_digit r = true) ->
  ql_boundary k = true ->
  lex_dollar U (c :: r ++ k) = LexOk (TParam (c :: r)) k.
Proof.
  intros c r k Hc Hr Hnum Hk.
  assert (A : c <> 36 /\ c <> 96 /\ (is_digit c || rs_alpha U c || (c =? 95)) = true).
  { destruct Hc as [Hc|Hc].
    - destruct (ident_start_not_special c Hc) as [_ [_ [A [B _]]]]. repeat split; auto.
      unfold ident_start in Hc. apply orb_true_iff in Hc as [Hc|Hc]; rewrite Hc; now rewrite ?orb_true_r.
    - destruct (digit_facts c Hc) as [[? ?] _]. repeat split; try lia. now rewrite Hc. }
  destruct A as [A [B C]].
  unfold lex_dollar. rewrite (eqb_neq_false c 36), (eqb_neq_false c 96) by auto. rewrite C.
  destruct (dollar_scan_run r k Hr Hk) as [hl [E Hh]]. rewrite E.
  destruct (is_digit c) eqn:Ed.
  - rewrite (Hh (Hnum eq_refl)). reflexivity.
  - now rewrite andb_false_r.
Qed.

Theorem p_ql_param_to_str : forall s k,
  ql_param_dom s = true -> param_compat s = true -> num_compat s = true -> ql_boundary k = true ->
  ql_lex1 U (ql_param_to_str U s ++ k) = LexOk (TParam s) k.
Proof.
  intros s k Hd Hc Hn Hk.
  assert (Hk96 : not_starting 96 k).
  { destruct k as [|d k]; cbn; auto.
    destruct (ql_boundary_cons d k Hk) as (B34 & B39 & B96 & B36 & Bn & Ba & Bd). now apply N.eqb_neq. }
  destruct s as [|c r]; [discriminate|]. unfold ql_param_dom in Hd.
  apply andb_true_iff in Hd as [Hd Hp]. apply andb_true_iff in Hd as [Hd Hdu].
  apply andb_true_iff in Hd as [Hd Hco]. apply andb_true_iff in Hd as [H64 H96].
  apply negb_true_iff in H64, H96, Hco, Hdu.
  unfold ql_param_to_str. cbn [prefix]. rewrite (N.eqb_sym 96 c), H96. cbn [andb].
  rewrite <- app_comm_cons. rewrite ql_lex1_dollar_eq.
  unfold ql_quote_ident. cbn [orb]. destruct (ql_needs_quoting U (c :: r) true true true) eqn:E.
  - rewrite quote_raw_flat. rewrite <- app_comm_cons, <- app_assoc. cbn [app].
    unfold lex_dollar. cbn [N.eqb Pos.eqb]. rewrite scan_bt_body by auto.
    pose proof (contains2_bt 58 58 (c :: r)) as Hc2. rewrite Hco in Hc2.
    pose proof (dunder_bt (c :: r)) as Hdd. rewrite Hdu in Hdd.
    pose proof (unbt_body (c :: r)) as Hu.
    destruct (bt_head c r) as [c' [B [E' Hc']]]. rewrite E' in *.
    rewrite Hc2, Hdd by lia.
    assert (c' <> 64) by (apply N.eqb_neq in H64; destruct Hc' as [->|[-> ->]]; auto; lia).
    rewrite (eqb_neq_false c' 64) by auto. cbn [orb]. now rewrite Hu.
  - unfold ql_needs_quoting, g_ql_bad_start, g_ql_bad_sub in E. rewrite H64, Hco in E. cbn [orb] in E.
    apply orb_false_iff in E as [E _]. apply orb_false_iff in E as [E1 _]. apply negb_false_iff in E1. cbn [andb] in E1.
    apply orb_true_iff in E1 as [E1|E1].
    + unfold py_ident_match in E1. apply andb_true_iff in E1 as [E1 Er].
      unfold param_compat in Hc. apply andb_true_iff in Hc as [Hc1 Hc2]. rewrite E1 in Hc1. cbn in Hc1.
      apply lex_dollar_name; auto.
      * apply (forallb_impl2 (py_word U) param_char); auto.
      * intros Hdg. destruct (ident_start_not_special c Hc1) as [_ [_ [_ [_ X]]]]. congruence.
    + destruct (py_num_match_shape c r E1 Hn) as [Hdg [Hr _]].
      apply lex_dollar_name; auto.
      apply forallb_forall. intros x Hx. rewrite forallb_forall in Hr.
      now destruct (digit_facts x (Hr x Hx)) as [_ [_ [_ ?]]].
Qed.

End Ident.

(* ================================================================== PostgreSQL identifiers *)

Section PgIdent.
Variable U : uni.

Theorem p_pg_ident_quoted : forall s k, s <> [] -> mem 0 s = false ->
  (utf8_len_str s <= 63)%nat -> not_starting 34 k ->
  pg_lex1 (pg_quote_ident_raw s ++ k) = PgOk (PIdent s) k.
Proof.
  intros s k Hne H0 Hl Hk. unfold pg_quote_ident_raw, g_pg_id_quote, g_pg_id_rep.
  rewrite <- app_comm_cons, <- app_assoc. cbn [app]. unfold pg_lex1. cbn [N.eqb Pos.eqb].
  rewrite pg_scan_q_body; auto; try lia.
  destruct s as [|c s]; [congruence|].
  replace (Nat.ltb 63 (utf8_len_str (c :: s))) with false by (symmetry; apply Nat.ltb_ge; lia).
  reflexivity.
Qed.

Definition pg_boundary (k : ustr) : bool :=
  match k with
  | [] => true
  | d :: _ => negb (pg_ident_cont d || (d =? 39) || (d =? 34) || (d =? 38))
  end.
Lemma pg_boundary_cons : forall d k, pg_boundary (d :: k) = true ->
  pg_ident_cont d = false /\ (d =? 39) = false /\ (d =? 34) = false /\ (d =? 38) = false.
Proof.
  intros d k H. unfold pg_boundary in H. apply negb_true_iff in H.
  apply orb_false_iff in H as [H H38]. apply orb_false_iff in H as [H H34].
  apply orb_false_iff in H as [H H39]. repeat split; auto.
Qed.
Definition lower_nonempty (s : ustr) : bool :=
  forallb (fun c => negb (match py_low1 U c with [] => true | _ => false end)) s.

Lemma flat_map_length_ge : forall (f : N -> ustr) s,
  (forall c, In c s -> (1 <= length (f c))%nat) -> (length s <= length (flat_map f s))%nat.
Proof.
  induction s as [|c s IH]; intros H; cbn; [lia|]. rewrite app_length.
  specialize (H c (or_introl eq_refl)) as H1. specialize (IH (fun x Hx => H x (or_intror Hx))). lia.
Qed.

Lemma flat_map_fix : forall (f : N -> ustr) s,
  (forall c, In c s -> (1 <= length (f c))%nat) -> flat_map f s = s -> forall c, In c s -> f c = [c].
Proof.
  induction s as [|c s IH]; intros H E x Hx; [destruct Hx|].
  assert (L : length (flat_map f (c :: s)) = length (c :: s)) by now rewrite E.
  cbn [flat_map] in *. rewrite app_length in L. cbn [length] in L.
  pose proof (H c (or_introl eq_refl)) as H1.
  pose proof (flat_map_length_ge f s (fun y Hy => H y (or_intror Hy))) as H2.
  destruct (f c) as [|a [|b l]] eqn:Ef; cbn [length] in *; try lia.
  cbn [app] in E. inversion E; subst a.
  destruct Hx as [->|Hx]; [exact Ef|].
  apply IH; auto. intros y Hy. apply H. now right.
Qed.

Lemma lower_fix_ascii : forall s, lower_nonempty s = true -> py_lower U s = s -> map ascii_lower s = s.
Proof.
  intros s Hn E.
  assert (F : forall c, In c s -> py_low1 U c = [c]).
  { apply flat_map_fix; auto. intros c Hc. unfold lower_nonempty in Hn. rewrite forallb_forall in Hn.
    apply Hn in Hc. destruct (py_low1 U c); [discriminate|cbn; lia]. }
  rewrite <- (map_id s) at 2. apply map_ext_in. intros c Hc. specialize (F c Hc).
  unfold py_low1 in F. destruct (is_ascii c) eqn:Ea.
  - injection F as F'. cbn beta. exact F'.
  - cbn beta. unfold ascii_lower, is_upper, in_range. unfold is_ascii in Ea. apply N.ltb_ge in Ea.
    replace (c <=? 90) with false by (symmetry; apply N.leb_gt; lia). now rewrite andb_false_r.
Qed.

Definition pg_name_char (c : N) : Prop := c = 95 \/ py_alnum U c = true.

Lemma pg_isalnum_chars : forall s, forallb (py_alnum U) (replace_char 95 [97] s) = true ->
  Forall pg_name_char s.
Proof.
  induction s as [|c s IH]; intros H; [constructor|].
  unfold replace_char in H. cbn [flat_map] in H. rewrite forallb_app in H. apply andb_true_iff in H as [A B].
  constructor; [|apply IH; exact B].
  destruct (c =? 95) eqn:E; [left; now apply N.eqb_eq|right]. cbn in A. now rewrite andb_true_r in A.
Qed.

Lemma pg_name_char_cont : forall c, pg_name_char c ->
  pg_ident_cont c = true /\ c <> 39 /\ c <> 34 /\ c <> 38 /\ c <> 0.
Proof.
  intros c [->|H]; [repeat split; try lia; reflexivity|].
  unfold py_alnum in H. destruct (is_ascii c) eqn:Ea.
  - repeat split; try (intro; subst; vm_compute in H; discriminate).
    unfold pg_ident_cont. now rewrite H.
  - unfold is_ascii in Ea. apply N.ltb_ge in Ea. repeat split; try lia.
    unfold pg_ident_cont. replace (128 <=? c) with true by (symmetry; apply N.leb_le; lia).
    now rewrite !orb_true_r.
Qed.

Lemma pg_span_ident_run : forall r k, Forall pg_name_char r -> pg_boundary k = true ->
  pg_span_ident (r ++ k) = (r, k).
Proof.
  induction r as [|c r IH]; intros k Hr Hk.
  - cbn [app]. destruct k as [|d k]; [reflexivity|].
    destruct (pg_boundary_cons d k Hk) as (Bc & B39 & B34 & B38). cbn [pg_span_ident]. now rewrite Bc.
  - inversion Hr; subst. destruct (pg_name_char_cont c H1) as [A _].
    cbn [app pg_span_ident]. rewrite A. now rewrite IH.
Qed.

Theorem p_pg_ident_bare : forall column s k,
  pg_needs_quoting U s column = false -> lower_nonempty s = true ->
  (utf8_len_str s <= 63)%nat -> pg_boundary k = true ->
  exists t, pg_lex1 (s ++ k) = PgOk t k /\
    (t = PIdent s \/ exists cl, t = PKeyword s cl /\ cl <> 2 /\ cl <> 3 /\ (column = true -> cl <> 4)).
Proof.
  intros column s k Hn Hlow Hlen Hk. unfold pg_needs_quoting in Hn.
  apply orb_false_iff in Hn as [Hn Hle]. apply orb_false_iff in Hn as [Hn Hcol].
  apply orb_false_iff in Hn as [Hn Hc3]. apply orb_false_iff in Hn as [Hal Hc2].
  apply negb_false_iff in Hal, Hle. apply str_eqb_eq in Hle. rewrite Hle in *.
  destruct s as [|c r]; [discriminate|]. apply andb_true_iff in Hal as [Hdec Hal].
  apply negb_true_iff in Hdec. apply pg_isalnum_chars in Hal.
  pose proof (Forall_inv Hal) as Hch. pose proof (Forall_inv_tail Hal) as Hrt.
  assert (Hlow2 : map ascii_lower (c :: r) = c :: r) by now apply lower_fix_ascii.
  destruct (pg_name_char_cont c Hch) as [Hcont [N39 [N34 [N38 N0]]]].
  assert (Hstart : pg_ident_start c = true).
  { destruct Hch as [->|Ha]; [reflexivity|]. unfold pg_ident_start. unfold py_alnum, py_dec in *.
    destruct (is_ascii c) eqn:Ea.
    - unfold is_alnum in Ha. rewrite Hdec in Ha. rewrite orb_false_r in Ha. now rewrite Ha.
    - unfold is_ascii in Ea. apply N.ltb_ge in Ea.
      replace (128 <=? c) with true by (symmetry; apply N.leb_le; lia). now rewrite !orb_true_r. }
  assert (Hp1 : prefix [39] (r ++ k) = false /\ prefix [38; 39] (r ++ k) = false /\ prefix [38; 34] (r ++ k) = false).
  { destruct r as [|x r].
    - cbn [app]. destruct k as [|d k]; [auto|].
      destruct (pg_boundary_cons d k Hk) as (Bc & B39 & B34 & B38).
      cbn [prefix]. rewrite (N.eqb_sym 39), (N.eqb_sym 38).
      rewrite B39, B38. auto.
    - pose proof (Forall_inv Hrt) as Hx. destruct (pg_name_char_cont x Hx) as [_ [A [_ [B _]]]].
      cbn [app prefix]. rewrite (eqb_neq_false 39 x), (eqb_neq_false 38 x) by auto. auto. }
  destruct Hp1 as [P1 [P2 P3]].
  cbn [app]. unfold pg_lex1.
  rewrite (eqb_neq_false c 39), (eqb_neq_false c 34) by auto. rewrite Hstart, P1, P2, P3.
  rewrite !andb_false_r. cbn [orb].
  rewrite pg_span_ident_run by auto. rewrite Hlow2.
  destruct (pg_kw_class (c :: r) g_pg_keywords) as [cl|] eqn:Ecl.
  - eexists; split; [reflexivity|]. right. exists cl. split; auto.
    repeat split.
    + intro; subst cl. cbn in Hc2. discriminate.
    + intro; subst cl. cbn in Hc3. discriminate.
    + intros -> ->. cbn in Hcol. discriminate.
  - replace (Nat.ltb 63 (utf8_len_str (c :: r))) with false by (symmetry; apply Nat.ltb_ge; lia).
    eexists; split; [reflexivity|]. auto.
Qed.

Theorem p_pg_quote_ident : forall force column s k,
  s <> [] -> mem 0 s = false -> lower_nonempty s = true ->
  (utf8_len_str s <= 63)%nat -> pg_boundary k = true ->
  exists t, pg_lex1 (pg_quote_ident U force column s ++ k) = PgOk t k /\
    (t = PIdent s \/ exists cl, t = PKeyword s cl /\ cl <> 2 /\ cl <> 3 /\ (column = true -> cl <> 4)).
Proof.
  intros force column s k Hne H0 Hlow Hlen Hk. unfold pg_quote_ident.
  destruct (pg_needs_quoting U s column || force) eqn:E.
  - exists (PIdent s). split; auto. apply p_pg_ident_quoted; auto.
    destruct k as [|d k]; cbn; auto.
    destruct (pg_boundary_cons d k Hk) as (Bc & B39 & B34 & B38). now apply N.eqb_neq.
  - apply orb_false_iff in E as [E _]. now apply p_pg_ident_bare with (column := column).
Qed.

End PgIdent.
