(* C18 — lemmas.  The development is split by quoting form; this file gathers it and adds the
   corollaries used by Props.v. *)
From Coq Require Import List NArith Bool Lia Arith.
From Verif.C18 Require Import Gen_Quote Model.
From Verif.C18 Require Export ProofsBase ProofsStr ProofsDollar ProofsFuel ProofsBytes ProofsIdent.
Import ListNotations.
Open Scope N_scope.

(* for all-ASCII names the compatibility side conditions hold by the ASCII definitions alone *)
Section Ascii.
Variable U : uni.

Lemma ascii_word_facts : forall c, is_ascii c = true ->
  py_word U c = name_char U c /\
  (py_word U c && negb (py_dec U c) = true -> ident_start U c = true) /\
  (py_word U c = true -> param_char U c = true) /\
  (py_dec U c = true -> is_digit c = true).
Proof.
  intros c H. unfold param_char, py_word, name_char, py_alnum, rs_alnum, py_dec, ident_start, rs_alpha.
  rewrite H. repeat split; auto.
  - unfold is_alnum. intros E. apply andb_true_iff in E as [E1 E2]. apply negb_true_iff in E2.
    rewrite E2, orb_false_r in E1. exact E1.
  - unfold is_alnum. intros E. destruct (c =? 95); [now rewrite orb_true_r|].
    cbn [orb] in E. apply orb_true_iff in E as [E|E]; rewrite E; now rewrite ?orb_true_r.
Qed.

Lemma ascii_compat : forall s, forallb is_ascii s = true ->
  ident_compat U s = true /\ param_compat U s = true /\ num_compat U s = true.
Proof.
  intros s H. rewrite forallb_forall in H.
  assert (F1 : forall r, (forall x, In x r -> is_ascii x = true) ->
          forallb (fun x => implb (py_word U x) (name_char U x)) r = true).
  { intros r Hr. apply forallb_forall. intros x Hx. destruct (ascii_word_facts x (Hr x Hx)) as [E _].
    rewrite E. now destruct (name_char U x). }
  assert (F2 : forall r, (forall x, In x r -> is_ascii x = true) ->
          forallb (fun x => implb (py_word U x) (param_char U x)) r = true).
  { intros r Hr. apply forallb_forall. intros x Hx. destruct (ascii_word_facts x (Hr x Hx)) as [_ [_ [E _]]].
    destruct (py_word U x); [now rewrite E|reflexivity]. }
  assert (F3 : forall r, (forall x, In x r -> is_ascii x = true) ->
          forallb (fun x => implb (py_dec U x) (is_digit x)) r = true).
  { intros r Hr. apply forallb_forall. intros x Hx. destruct (ascii_word_facts x (Hr x Hx)) as [_ [_ [_ E]]].
    destruct (py_dec U x); [now rewrite E|reflexivity]. }
  destruct s as [|c r]; [repeat split; reflexivity|].
  assert (Hc : is_ascii c = true) by (apply H; left; auto).
  assert (Hr : forall x, In x r -> is_ascii x = true) by (intros; apply H; right; auto).
  destruct (ascii_word_facts c Hc) as [_ [E _]].
  unfold ident_compat, param_compat, num_compat. rewrite F1, F2, F3 by auto.
  destruct (py_word U c && negb (py_dec U c)); [rewrite E by auto|]; repeat split; reflexivity.
Qed.

End Ascii.
