(* C18 — quoted literals and identifiers cannot break out of their quotes.

   Executable Gallina model of
     (1) the Python quoting functions of /repo
           edb/edgeql/quote.py       escape_string, quote_literal, dollar_quote_literal,
                                     needs_quoting, quote_ident
           edb/edgeql/codegen.py     param_to_str, visit_Constant (STRING), visit_BytesConstant
                                     (+ CPython's repr(str), which visit_Constant falls back to)
           edb/pgsql/common.py       quote_literal, quote_ident, needs_quoting, quote_bytea_literal, qname
         whose tables/constants come from Gen_Quote.v (regenerated from the source on every run);
     (2) the EdgeQL lexer of /repo (edb/edgeql-parser/src/tokenizer.rs peek_token_inner +
         validation.rs parse_value + helpers/strings.rs, helpers/bytes.rs), restricted to the
         token classes the quoting functions produce: Str (four spellings), BinStr,
         BacktickName/Ident/Keyword, Parameter, and integer constants;  anything else is
         [LexUnmodelled];
     (3) PostgreSQL's lexical rules for '...' (standard_conforming_strings = on), "...",
         bare identifiers / keywords and the hex input format of bytea — written by hand from
         the PostgreSQL manual (4.1 Lexical Structure, 8.4 Binary Data Types); PostgreSQL is absent
         from the sandbox, so (3) is a trusted specification.

   Strings are lists of Unicode code points (N); byte strings are lists of N < 256.
   Unicode character classes that are huge tables (Python's str.isalnum / re \w, \d,
   str.isprintable, str.lower, Rust's char::is_alphabetic / is_alphanumeric / is_whitespace)
   are the fields of the record [uni]; they are consulted only for code points >= 128 — the
   ASCII behaviour is fixed by definition here.  Every theorem is proved for EVERY value of that
   record; the correspondence harness instantiates it with tables obtained by sweeping all
   0x110000 code points through the real `re`/str methods and the real Rust lexer. *)
From Coq Require Import List NArith Bool.
From Verif.C18 Require Import Gen_Quote.
Import ListNotations.
Open Scope N_scope.

Definition ustr := list N.

Record uni := {
  py_alnum_hi : N -> bool;   (* str.isalnum(); re \w is this or '_' *)
  py_dec_hi   : N -> bool;   (* str.isdecimal(); re \d *)
  py_print_hi : N -> bool;   (* str.isprintable() as used by repr() *)
  py_low_hi   : N -> list N; (* chr(c).lower() *)
  rs_alpha_hi : N -> bool;   (* char::is_alphabetic *)
  rs_alnum_hi : N -> bool;   (* char::is_alphanumeric *)
  rs_white_hi : N -> bool    (* char::is_whitespace *)
}.

(* ------------------------------------------------------------------ generic helpers *)

Definition in_range (c lo hi : N) : bool := (lo <=? c) && (c <=? hi).
Definition in_ranges (c : N) (rs : list (N * N)) : bool :=
  existsb (fun r => in_range c (fst r) (snd r)) rs.
Definition mem (c : N) (s : ustr) : bool := existsb (N.eqb c) s.

Fixpoint str_eqb (a b : ustr) : bool :=
  match a, b with
  | [], [] => true
  | x :: a', y :: b' => (x =? y) && str_eqb a' b'
  | _, _ => false
  end.
Definition in_strs (s : ustr) (l : list ustr) : bool := existsb (str_eqb s) l.

Fixpoint prefix (p s : ustr) : bool :=
  match p, s with
  | [], _ => true
  | a :: p', b :: s' => (a =? b) && prefix p' s'
  | _ :: _, [] => false
  end.
Definition suffix (p s : ustr) : bool := prefix (rev p) (rev s).

(* first occurrence of p in s: (text before it, text after it) — str.find / memmem::find *)
Fixpoint find_sub (p s : ustr) : option (ustr * ustr) :=
  if prefix p s then Some ([], skipn (length p) s) else
  match s with
  | [] => None
  | c :: s' => match find_sub p s' with Some (b, a) => Some (c :: b, a) | None => None end
  end.
Definition contains (p s : ustr) : bool :=
  match find_sub p s with Some _ => true | None => false end.

(* str.replace(a, bs) for a one-character pattern *)
Definition replace_char (a : N) (bs : ustr) (s : ustr) : ustr :=
  flat_map (fun c => if c =? a then bs else [c]) s.

Fixpoint assoc (c : N) (t : list (N * list N)) : option (list N) :=
  match t with
  | [] => None
  | (k, v) :: t' => if c =? k then Some v else assoc c t'
  end.

Definition ocons (c : N) (r : option ustr) : option ustr :=
  match r with Some l => Some (c :: l) | None => None end.

(* ------------------------------------------------------------------ ASCII classes *)

Definition is_digit (c : N) := in_range c 48 57.
Definition is_upper (c : N) := in_range c 65 90.
Definition is_lower (c : N) := in_range c 97 122.
Definition is_alpha (c : N) := is_upper c || is_lower c.
Definition is_alnum (c : N) := is_alpha c || is_digit c.
Definition ascii_lower (c : N) : N := if is_upper c then c + 32 else c.
Definition is_ascii (c : N) := c <? 128.

Section WithUni.
Variable U : uni.

Definition py_alnum (c : N) := if is_ascii c then is_alnum c else py_alnum_hi U c.
Definition py_word (c : N) := (c =? 95) || py_alnum c.
Definition py_dec (c : N) := if is_ascii c then is_digit c else py_dec_hi U c.
Definition py_printable (c : N) := if is_ascii c then in_range c 32 126 else py_print_hi U c.
Definition py_low1 (c : N) : list N := if is_ascii c then [ascii_lower c] else py_low_hi U c.
Definition py_lower (s : ustr) : ustr := flat_map py_low1 s.
Definition rs_alpha (c : N) := if is_ascii c then is_alpha c else rs_alpha_hi U c.
Definition rs_alnum (c : N) := if is_ascii c then is_alnum c else rs_alnum_hi U c.
Definition rs_white (c : N) := if is_ascii c then (c =? 32) || in_range c 9 13 else rs_white_hi U c.

(* ================================================================== Python: edb/edgeql/quote.py *)

(* '%02x' etc.: k lower-case hex digits, most significant first *)
Definition hexchar (d : N) : N := if d <? 10 then 48 + d else 87 + d.
Fixpoint hex_fixed (k : nat) (n : N) : ustr :=
  match k with
  | O => []
  | S k' => hex_fixed k' (n / 16) ++ [hexchar (n mod 16)]
  end.

(* escape_string: the chain  result = result.replace(A, B)  in source order, then
   for c in _BIDI_CONTROLS: if c in result: result = result.replace(c, '\\u{:04x}'.format(ord(c)))
   (the `if` guard does not change the value) *)
Definition ql_escape_string (s : ustr) : ustr :=
  fold_left (fun acc c => replace_char c (92 :: 117 :: hex_fixed 4 c) acc) g_ql_escape_bidi
    (fold_left (fun acc ab => replace_char (fst ab) (snd ab) acc) g_ql_escape_table s).

Definition ql_quote_literal (s : ustr) : ustr :=
  g_ql_lit_quote :: ql_escape_string s ++ [g_ql_lit_quote].

(* '{:x}'.format(n) reversed = hex digits, least significant first *)
Fixpoint hexrev (fuel : nat) (n : N) : ustr :=
  match fuel with
  | O => []
  | S f => hexchar (n mod 16) :: (if n / 16 =? 0 then [] else hexrev f (n / 16))
  end.
Definition dq_tag (qq : N) : ustr := g_dq_open ++ hexrev (S (N.size_nat qq)) qq ++ g_dq_close.

(* the while loop of dollar_quote_literal,  while quote in text + quote[:-1];  None = out of fuel *)
Fixpoint dq_loop (fuel : nat) (text quote : ustr) (qq : N) : option ustr :=
  if contains quote (text ++ removelast quote) then
    match fuel with
    | O => None
    | S f =>
      let qq1 := if qq mod g_dq_mod <? g_dq_thr then qq + (g_dq_thr - qq mod g_dq_mod) else qq in
      dq_loop f text (dq_tag qq1) (qq1 + 1)
    end
  else Some quote.
Definition ql_dollar_quote_literal (s : ustr) : option ustr :=
  match dq_loop (S (length s)) s g_dq_init 0 with
  | Some q => Some (q ++ s ++ q)
  | None => None
  end.

(* _re_ident = [^\W\d]\w*      _re_ident_or_num = [^\W\d]\w* | ([1-9]\d* | 0)      (fullmatch) *)
Definition py_ident_match (s : ustr) : bool :=
  match s with
  | [] => false
  | c :: r => py_word c && negb (py_dec c) && forallb py_word r
  end.
Definition py_num_match (s : ustr) : bool :=
  match s with
  | [] => false
  | c :: r => (in_range c 49 57 && forallb py_dec r) || ((c =? 48) && match r with [] => true | _ => false end)
  end.

Definition ql_py_reserved (low : ustr) : bool :=
  (in_strs low g_kw_future || in_strs low g_kw_current) && negb (in_strs low g_kw_partial).

Definition ql_needs_quoting (s : ustr) (allow_reserved allow_num allow_partial : bool) : bool :=
  match s with
  | [] => false
  | c :: _ =>
    if (c =? g_ql_bad_start) || contains g_ql_bad_sub s then false else
    let isalnum := py_ident_match s || (allow_num && py_num_match s) in
    let low := py_lower s in
    (* reserved __names__ are never back-quoted: the lexer rejects `__x__` anyway *)
    let is_reserved := negb (prefix g_ql_exempt_start low && suffix g_ql_exempt_end low) && ql_py_reserved low in
    (* by_type[PARTIAL_RESERVED_KEYWORD]: union / except / intersect *)
    let is_partial := in_strs low g_kw_partial in
    negb isalnum || (negb allow_reserved && is_reserved) || (negb allow_partial && is_partial)
  end.

Definition ql_quote_ident_raw (s : ustr) : ustr :=
  g_ql_id_quote :: replace_char g_ql_id_quote g_ql_id_rep s ++ [g_ql_id_quote].
Definition ql_quote_ident (force allow_reserved allow_num allow_partial : bool) (s : ustr) : ustr :=
  if force || ql_needs_quoting s allow_reserved allow_num allow_partial then ql_quote_ident_raw s else s.

(* ================================================================== Python: edb/edgeql/codegen.py *)

(* a name that already starts with a backtick is written as it is *)
Definition ql_param_to_str (s : ustr) : ustr :=
  if prefix [96] s then 36 :: s else 36 :: ql_quote_ident false true true true s.

(* CPython unicode_repr *)
Definition repr1 (q c : N) : ustr :=
  if (c =? q) || (c =? 92) then [92; c]
  else if c =? 9 then [92; 116]
  else if c =? 10 then [92; 110]
  else if c =? 13 then [92; 114]
  else if (c <? 32) || (c =? 127) then 92 :: 120 :: hex_fixed 2 c
  else if c <? 127 then [c]
  else if py_printable c then [c]
  else if c <? 256 then 92 :: 120 :: hex_fixed 2 c
  else if c <? 65536 then 92 :: 117 :: hex_fixed 4 c
  else 92 :: 85 :: hex_fixed 8 c.
Definition py_repr (s : ustr) : ustr :=
  let q := if mem 39 s && negb (mem 34 s) then 34 else 39 in
  q :: flat_map (repr1 q) s ++ [q].

(* _REPR_ESCAPE_RE.sub(lambda m: '\\u00' + m.group(1) if m.group(1) else m.group(0), repr(value))
   with _REPR_ESCAPE_RE = \\(?:x([89a-f][0-9a-f])|.)  (DOTALL): left to right, a backslash
   consumes the next character; \xHH with H >= 8 becomes \u00HH *)
Definition is_hex_hi (c : N) := (c =? 56) || (c =? 57) || in_range c 97 102.
Definition is_hex_lc (c : N) := is_digit c || in_range c 97 102.
Fixpoint repr_fix (s : ustr) : ustr :=
  match s with
  | [] => []
  | c :: t =>
    if c =? 92 then
      match t with
      | [] => [c]
      | d :: t' =>
        if d =? 120 then
          match t' with
          | a :: b :: t'' =>
            if is_hex_hi a && is_hex_lc b then 92 :: 117 :: 48 :: 48 :: a :: b :: repr_fix t''
            else 92 :: d :: repr_fix t'
          | _ => 92 :: d :: repr_fix t'
          end
        else 92 :: d :: repr_fix t'
      end
    else c :: repr_fix t
  end.

(* visit_Constant, kind STRING;  None only when dollar_quote_literal runs out of fuel *)
Fixpoint vc_delims (ds : list ustr) (s : ustr) : option ustr :=
  match ds with
  | [] => ql_dollar_quote_literal s
  | d :: ds' =>
    if negb (contains d s) then
      if mem 92 s then Some (114 :: d ++ s ++ d)
      else Some (d ++ s ++ d)
    else vc_delims ds' s
  end.
Definition ql_visit_constant (s : ustr) : option ustr :=
  if negb (existsb (fun c => in_ranges c g_ql_nonprintable) s) then vc_delims g_ql_delims s
  else Some (repr_fix (py_repr s)).

(* visit_BytesConstant: _BYTES_ESCAPE_RE.sub(_bytes_escape, value), then b'...' *)
Definition ql_bytes_esc1 (b : N) : ustr :=
  if in_ranges b g_qlb_class then
    match assoc b g_qlb_escapes with
    | Some e => e
    | None => 92 :: 120 :: hex_fixed 2 b
    end
  else [b].
Definition ql_visit_bytes (bs : list N) : ustr := 98 :: 39 :: flat_map ql_bytes_esc1 bs ++ [39].

(* ================================================================== Python: edb/pgsql/common.py *)

Definition pg_quote_literal (s : ustr) : ustr :=
  g_pg_lit_quote :: replace_char g_pg_lit_quote g_pg_lit_rep s ++ [g_pg_lit_quote].

Definition pg_quote_ident_raw (s : ustr) : ustr :=
  g_pg_id_quote :: replace_char g_pg_id_quote g_pg_id_rep s ++ [g_pg_id_quote].

Fixpoint pg_kw_class (s : ustr) (t : list (ustr * N)) : option N :=
  match t with
  | [] => None
  | (k, c) :: t' => if str_eqb s k then Some c else pg_kw_class s t'
  end.

Definition pg_needs_quoting (s : ustr) (column : bool) : bool :=
  let isalnum :=
    match s with
    | [] => false
    | c :: _ => negb (py_dec c) && forallb py_alnum (replace_char 95 [97] s)
    end in
  let low := py_lower s in
  let cls := pg_kw_class low g_pg_keywords in
  negb isalnum
  || (match cls with Some 2 => true | _ => false end)
  || (match cls with Some 3 => true | _ => false end)
  || (column && match cls with Some 4 => true | _ => false end)
  || negb (str_eqb low s).

Definition pg_quote_ident (force column : bool) (s : ustr) : ustr :=
  if pg_needs_quoting s column || force then pg_quote_ident_raw s else s.

Definition pg_quote_bytea (bs : list N) : ustr :=
  match bs with
  | [] => g_pg_bytea_empty
  | _ => g_pg_bytea_open ++ flat_map (hex_fixed 2) bs ++ g_pg_bytea_close
  end.

Fixpoint pg_qname (column : bool) (parts : list ustr) : ustr :=
  match parts with
  | [] => []
  | [p] => pg_quote_ident false column p
  | p :: ps => pg_quote_ident false column p ++ g_pg_qname_sep ++ pg_qname column ps
  end.

(* ================================================================== the EdgeQL lexer *)

Inductive tok :=
| TStr (v : ustr)        (* Kind::Str, value = unquoted string *)
| TBin (v : list N)      (* Kind::BinStr, value = bytes *)
| TIdent (v : ustr)      (* Kind::Ident (bare, or BacktickName remapped by validation.rs) *)
| TKeyword (text : ustr) (* Kind::Keyword, text as written *)
| TParam (v : ustr)      (* Kind::Parameter, value = name *)
| TInt (v : N).          (* Kind::IntConst *)

Inductive lexres :=
| LexOk (t : tok) (rest : ustr)   (* first token and the text right after it *)
| LexErr                          (* the tokenizer / validator reports an error *)
| LexUnmodelled.                  (* a token class outside this model *)

(* check_prohibited: the same set for both values of its flag *)
Definition prohibited (c : N) : bool := (c =? 0) || in_range c 8234 8238 || in_range c 8294 8297.

Inductive scanres := ScEnd (inner rest : ustr) | ScInterp | ScErr.
Definition sc_cons (c : N) (r : scanres) : scanres :=
  match r with ScEnd i t => ScEnd (c :: i) t | x => x end.

(* parse_string, binary = false; s is the text after the opening quote *)
Fixpoint scan_str (raw : bool) (q : N) (s : ustr) : scanres :=
  match s with
  | [] => ScErr
  | c :: s' =>
    if (c =? 92) && negb raw then
      match s' with
      | [] => ScErr
      | d :: s'' => if d =? 40 then ScInterp else sc_cons c (sc_cons d (scan_str raw q s''))
      end
    else if c =? q then ScEnd [] s'
    else if prohibited c then ScErr
    else sc_cons c (scan_str raw q s')
  end.

(* parse_string, binary = true *)
Fixpoint scan_bin (raw : bool) (q : N) (s : ustr) : scanres :=
  match s with
  | [] => ScErr
  | c :: s' =>
    if (c =? 92) && negb raw then
      match s' with
      | [] => ScErr
      | d :: s'' => sc_cons c (sc_cons d (scan_bin raw q s''))
      end
    else if 127 <? c then ScErr
    else if c =? q then ScEnd [] s'
    else sc_cons c (scan_bin raw q s')
  end.

(* u8/u32::from_str_radix(_, 16): optional leading '+', at least one digit, both cases *)
Definition hexval (c : N) : option N :=
  if is_digit c then Some (c - 48)
  else if in_range c 97 102 then Some (c - 87)
  else if in_range c 65 70 then Some (c - 55)
  else None.
Fixpoint hexfold (acc : N) (l : ustr) : option N :=
  match l with
  | [] => Some acc
  | c :: l' => match hexval c with Some d => hexfold (acc * 16 + d) l' | None => None end
  end.
Definition from_str_radix16 (l : ustr) : option N :=
  match l with
  | [] => None
  | c :: l' => if c =? 43 then (match l' with [] => None | _ => hexfold 0 l' end) else hexfold 0 l
  end.
(* chars.as_str().get(0..k) then from_str_radix *)
Definition hexn (k : nat) (s : ustr) : option N :=
  if Nat.ltb (length s) k then None else from_str_radix16 (firstn k s).

Definition valid_char (c : N) : bool := (0 <? c) && (c <? 1114112) && negb (in_range c 55296 57343).

Definition utf8_len (c : N) : nat :=
  if c <? 128 then 1 else if c <? 2048 then 2 else if c <? 65536 then 3 else 4.
Definition utf8_len_str (s : ustr) : nat := fold_right (fun c n => (utf8_len c + n)%nat) O s.

(* line continuation of _unquote_string: `nskip` is a BYTE count that is then used to skip
   that many CHARS (chars.nth(nskip - 1)) *)
Fixpoint ws_bytes (s : ustr) : nat :=
  match s with
  | c :: s' => if rs_white c then (utf8_len c + ws_bytes s')%nat else O
  | [] => O
  end.

(* helpers/strings.rs::_unquote_string; skip = chars still to be dropped *)
Fixpoint unq (skip : nat) (s : ustr) : option ustr :=
  match s with
  | [] => Some []
  | c :: s' =>
    match skip with
    | S n => unq n s'
    | O =>
      if c =? 92 then
        match s' with
        | [] => None
        | d :: s'' =>
          if (d =? 34) || (d =? 92) || (d =? 47) || (d =? 39) then ocons d (unq 0 s'')
          else if d =? 98 then ocons 8 (unq 0 s'')
          else if d =? 102 then ocons 12 (unq 0 s'')
          else if d =? 110 then ocons 10 (unq 0 s'')
          else if d =? 114 then ocons 13 (unq 0 s'')
          else if d =? 116 then ocons 9 (unq 0 s'')
          else if d =? 120 then
            match hexn 2 s'' with
            | Some code => if (0 <? code) && (code <=? 127) then ocons code (unq 2 s'') else None
            | None => None
            end
          else if d =? 117 then
            match hexn 4 s'' with
            | Some code => if valid_char code then ocons code (unq 4 s'') else None
            | None => None
            end
          else if d =? 85 then
            match hexn 8 s'' with
            | Some code => if valid_char code then ocons code (unq 8 s'') else None
            | None => None
            end
          else if (d =? 13) || (d =? 10) then unq (ws_bytes s'') s''
          else None
        end
      else ocons c (unq 0 s')
    end
  end.

(* helpers/bytes.rs::unquote_bytes_inner *)
Definition is_ascii_ws (c : N) := (c =? 32) || (c =? 9) || (c =? 10) || (c =? 12) || (c =? 13).
Fixpoint asciiws_run (s : ustr) : nat :=
  match s with
  | c :: s' => if is_ascii_ws c then S (asciiws_run s') else O
  | [] => O
  end.
Fixpoint unqb (skip : nat) (s : ustr) : option (list N) :=
  match s with
  | [] => Some []
  | c :: s' =>
    match skip with
    | S n => unqb n s'
    | O =>
      if c =? 92 then
        match s' with
        | [] => None
        | d :: s'' =>
          if (d =? 34) || (d =? 92) || (d =? 47) || (d =? 39) then ocons d (unqb 0 s'')
          else if d =? 98 then ocons 8 (unqb 0 s'')
          else if d =? 102 then ocons 12 (unqb 0 s'')
          else if d =? 110 then ocons 10 (unqb 0 s'')
          else if d =? 114 then ocons 13 (unqb 0 s'')
          else if d =? 116 then ocons 9 (unqb 0 s'')
          else if d =? 120 then
            match hexn 2 s'' with
            | Some code => ocons code (unqb 2 s'')
            | None => None
            end
          else if (d =? 13) || (d =? 10) then unqb (asciiws_run s'') s''
          else None
        end
      else ocons c (unqb 0 s')
    end
  end.

(* `...` : scan to the closing backtick (doubled backticks stay doubled in `inner`) *)
Fixpoint scan_bt (s : ustr) : scanres :=
  match s with
  | [] => ScErr
  | c :: s' =>
    if c =? 96 then
      match s' with
      | d :: s'' => if d =? 96 then sc_cons c (sc_cons d (scan_bt s'')) else ScEnd [] s'
      | [] => ScEnd [] []
      end
    else if prohibited c then ScErr
    else sc_cons c (scan_bt s')
  end.
(* inner.replace("``", "`") *)
Fixpoint unbt (s : ustr) : ustr :=
  match s with
  | [] => []
  | c :: s' =>
    if c =? 96 then
      match s' with
      | d :: s'' => if d =? 96 then 96 :: unbt s'' else c :: unbt s'
      | [] => [c]
      end
    else c :: unbt s'
  end.

Definition dunder (w : ustr) : bool := prefix [95; 95] w && suffix [95; 95] w.

Definition ql_all_keywords : list ustr :=
  g_kw_partial ++ g_kw_future ++ g_kw_current ++ g_kw_combined ++ g_kw_unreserved.
(* Tokenizer::as_keyword: byte length <= MAX_KEYWORD_LENGTH, ASCII lower-casing, lookup_all *)
Definition ql_as_keyword (w : ustr) : bool :=
  Nat.leb (utf8_len_str w) 16 && in_strs (map ascii_lower w) ql_all_keywords.
(* Keyword::is_reserved *)
Definition ql_kw_reserved (w : ustr) : bool :=
  in_strs (map ascii_lower w) g_kw_future || in_strs (map ascii_lower w) g_kw_current.

Inductive idscan :=
| IdEnd (word rest : ustr)
| IdQuote (pre : ustr) (q : N) (rest : ustr)
| IdBacktick.
Definition id_cons (c : N) (r : idscan) : idscan :=
  match r with
  | IdEnd w t => IdEnd (c :: w) t
  | IdQuote p q t => IdQuote (c :: p) q t
  | IdBacktick => IdBacktick
  end.
Fixpoint scan_ident (s : ustr) : idscan :=
  match s with
  | [] => IdEnd [] []
  | c :: s' =>
    if (c =? 34) || (c =? 39) then IdQuote [] c s'
    else if c =? 96 then IdBacktick
    else if (c =? 95) || rs_alnum c then id_cons c (scan_ident s')
    else IdEnd [] s
  end.

Definition lex_str (raw : bool) (q : N) (s : ustr) : lexres :=
  match scan_str raw q s with
  | ScEnd inner rest =>
    if raw then LexOk (TStr inner) rest
    else match unq 0 inner with Some v => LexOk (TStr v) rest | None => LexErr end
  | ScInterp => LexUnmodelled
  | ScErr => LexErr
  end.
Definition lex_bin (raw : bool) (q : N) (s : ustr) : lexres :=
  match scan_bin raw q s with
  | ScEnd inner rest =>
    if raw then LexOk (TBin inner) rest
    else match unqb 0 inner with Some v => LexOk (TBin v) rest | None => LexErr end
  | _ => LexErr
  end.

Definition lex_backtick (s : ustr) : lexres :=
  match scan_bt s with
  | ScEnd inner rest =>
    match inner with
    | [] => LexErr
    | c :: _ =>
      if (c =? 64) || (c =? 36) || contains [58; 58] inner || dunder inner then LexErr
      else LexOk (TIdent (unbt inner)) rest
    end
  | _ => LexErr
  end.

(* digits and '_' after the first digit *)
Fixpoint span_num (s : ustr) : ustr * ustr :=
  match s with
  | c :: s' => if is_digit c || (c =? 95) then let (a, b) := span_num s' in (c :: a, b) else ([], s)
  | [] => ([], [])
  end.
Definition dec_value (ds : ustr) : N :=
  fold_left (fun acc c => if c =? 95 then acc else acc * 10 + (c - 48)) ds 0.
Definition lex_number (c0 : N) (s : ustr) : lexres :=
  let (ds, rest) := span_num s in
  let more := match rest with
              | c :: _ => (c =? 101) || (c =? 46) || rs_alpha c
              | [] => false
              end in
  if more then LexUnmodelled
  else if (c0 =? 48) && negb (match ds with [] => true | _ => false end) then LexErr
  else let v := dec_value (c0 :: ds) in
       if v <? 18446744073709551616 then LexOk (TInt v) rest else LexErr.

Inductive dscan := DMarker (name rest : ustr) | DEnd (name rest : ustr) (has_letter : bool).
Definition d_cons (c : N) (l : bool) (r : dscan) : dscan :=
  match r with
  | DMarker n t => DMarker (c :: n) t
  | DEnd n t hl => DEnd (c :: n) t (l || hl)
  end.
Fixpoint dollar_scan (s : ustr) : dscan :=
  match s with
  | [] => DEnd [] [] false
  | c :: s' =>
    if c =? 36 then DMarker [] s'
    else if is_digit c then d_cons c false (dollar_scan s')
    else if rs_alpha c || (c =? 95) then d_cons c true (dollar_scan s')
    else DEnd [] s false
  end.

(* s is the text after the first '$' *)
Definition lex_dollar (s : ustr) : lexres :=
  match s with
  | [] => LexErr
  | c :: s' =>
    if c =? 36 then
      match find_sub [36; 36] s' with
      | Some (data, rest) => if existsb prohibited data then LexErr else LexOk (TStr data) rest
      | None => LexErr
      end
    else if c =? 96 then
      match scan_bt s' with
      | ScEnd inner rest =>
        match inner with
        | [] => LexErr
        | c1 :: _ =>
          if (c1 =? 64) || contains [58; 58] inner || dunder inner then LexErr
          else LexOk (TParam (unbt inner)) rest
        end
      | _ => LexErr
      end
    else if is_digit c || rs_alpha c || (c =? 95) then
      match dollar_scan s' with
      | DMarker name rest =>
        let marker := 36 :: c :: name ++ [36] in
        if is_digit c then LexErr
        else if negb (forallb is_ascii (c :: name)) then LexErr
        else match find_sub marker rest with
             | Some (data, rest') => if existsb prohibited data then LexErr else LexOk (TStr data) rest'
             | None => LexErr
             end
      | DEnd name rest hl =>
        if (hl || negb (is_digit c)) && is_digit c then LexErr
        else LexOk (TParam (c :: name)) rest
      end
    else LexErr
  end.

(* first characters of the token classes outside this model (operators, punctuation, the
   \(name) substitution) and the characters Tokenizer::new / skip_whitespace step over *)
Definition ql_other_token_start : ustr :=
  [58; 45; 62; 60; 43; 47; 46; 63; 33; 61; 44; 40; 41; 91; 93; 123; 125; 59; 42; 37; 94; 38; 124; 64; 92;
   32; 9; 10; 13; 35; 65279].

(* Tokenizer::peek_token_inner on a fresh tokenizer (dot = false, no open interpolation), with
   the value computed as validation.rs::parse_value does.  `rest` is the text right after the
   token (before skip_whitespace). *)
Definition ql_lex1 (s : ustr) : lexres :=
  match s with
  | [] => LexUnmodelled
  | c :: s' =>
    if (c =? 34) || (c =? 39) then lex_str false c s'
    else if c =? 96 then lex_backtick s'
    else if (c =? 95) || rs_alpha c then
      match scan_ident s' with
      | IdEnd w rest =>
        let word := c :: w in
        if ql_as_keyword word then LexOk (TKeyword word) rest
        else if dunder word then LexErr
        else LexOk (TIdent word) rest
      | IdQuote p q rest =>
        let pre := c :: p in
        if str_eqb pre [114] then lex_str true q rest
        else if str_eqb pre [98] then lex_bin false q rest
        else if str_eqb pre [114; 98] || str_eqb pre [98; 114] then lex_bin true q rest
        else LexErr
      | IdBacktick => LexErr
      end
    else if is_digit c then lex_number c s'
    else if c =? 36 then lex_dollar s'
    else if mem c ql_other_token_start then LexUnmodelled
    else LexErr                       (* "unexpected character" *)
  end.

End WithUni.

(* ================================================================== PostgreSQL lexical spec (trusted) *)

Inductive pgtok :=
| PSConst (v : ustr)            (* string constant *)
| PIdent (v : ustr)             (* identifier, after case folding for bare ones *)
| PKeyword (v : ustr) (cls : N) (* key word (folded) with its class: 1 unreserved, 2 reserved,
                                   3 type_func_name, 4 col_name *)
.
Inductive pgres :=
| PgOk (t : pgtok) (rest : ustr)
| PgErr
| PgTrunc          (* identifier longer than NAMEDATALEN-1 = 63 bytes: silently truncated *)
| PgUnmodelled.

(* q...q where a doubled q stands for one q (q = single quote for string constants, double quote
   for delimited identifiers) *)
Fixpoint pg_scan_q (q : N) (s : ustr) : option (ustr * ustr) :=
  match s with
  | [] => None
  | c :: s' =>
    if c =? 0 then None
    else if c =? q then
      match s' with
      | d :: s'' => if d =? q then match pg_scan_q q s'' with Some (v, r) => Some (q :: v, r) | None => None end
                    else Some ([], s')
      | [] => Some ([], [])
      end
    else match pg_scan_q q s' with Some (v, r) => Some (c :: v, r) | None => None end
  end.

Definition pg_ident_start (c : N) := is_alpha c || (c =? 95) || (128 <=? c).
Definition pg_ident_cont (c : N) := is_alnum c || (c =? 95) || (c =? 36) || (128 <=? c).
Fixpoint pg_span_ident (s : ustr) : ustr * ustr :=
  match s with
  | c :: s' => if pg_ident_cont c then let (a, b) := pg_span_ident s' in (c :: a, b) else ([], s)
  | [] => ([], [])
  end.

Definition pg_lex1 (s : ustr) : pgres :=
  match s with
  | [] => PgUnmodelled
  | c :: s' =>
    if c =? 39 then
      match pg_scan_q 39 s' with Some (v, r) => PgOk (PSConst v) r | None => PgErr end
    else if c =? 34 then
      match pg_scan_q 34 s' with
      | Some ([], _) => PgErr                     (* zero-length delimited identifier *)
      | Some (v, r) => if Nat.ltb 63 (utf8_len_str v) then PgTrunc else PgOk (PIdent v) r
      | None => PgErr
      end
    else if pg_ident_start c then
      (* b'..' x'..' n'..' e'..' u&'..' u&".." are other literal kinds *)
      if mem c [98; 66; 120; 88; 110; 78; 101; 69] && prefix [39] s' then PgUnmodelled
      else if mem c [117; 85] && (prefix [38; 39] s' || prefix [38; 34] s') then PgUnmodelled
      else
        let (w, rest) := pg_span_ident s' in
        let low := map ascii_lower (c :: w) in
        match pg_kw_class low g_pg_keywords with
        | Some cls => PgOk (PKeyword low cls) rest
        | None => if Nat.ltb 63 (utf8_len_str low) then PgTrunc else PgOk (PIdent low) rest
        end
    else PgUnmodelled
  end.

(* byteain, hex format:  \x followed by hex digit pairs ('' is the empty bytea) *)
Fixpoint pg_hexpairs (s : ustr) : option (list N) :=
  match s with
  | [] => Some []
  | a :: b :: s' =>
    match hexval a, hexval b with
    | Some x, Some y => ocons (x * 16 + y) (pg_hexpairs s')
    | _, _ => None
    end
  | [_] => None
  end.
Definition pg_bytea_in (v : ustr) : option (list N) :=
  match v with
  | [] => Some []
  | 92 :: 120 :: hex => pg_hexpairs hex
  | _ => None      (* escape format: not modelled *)
  end.

(* a dotted name: ident ( '.' ident )* *)
Fixpoint pg_lex_qname (fuel : nat) (s : ustr) : option (list pgtok * ustr) :=
  match fuel with
  | O => None
  | S f =>
    match pg_lex1 s with
    | PgOk t rest =>
      match rest with
      | 46 :: rest' =>
        match pg_lex_qname f rest' with Some (ts, r) => Some (t :: ts, r) | None => None end
      | _ => Some ([t], rest)
      end
    | _ => None
    end
  end.
