(* C18 — Quoted literals and identifiers cannot break out of their quotes.
   Statements only; each is closed by [exact] of a lemma of Proofs*.v / Refuted.v and followed by
   Print Assumptions (audited by the check on every run).

   Vocabulary (Model.v): strings are lists of code points; U : uni carries the Unicode class
   tables (Python's isalnum / isdecimal / isprintable / lower, Rust's is_alphabetic /
   is_alphanumeric / is_whitespace) for code points >= 128 — EVERY theorem holds for EVERY U.
   ql_lex1 U t = LexOk tok rest  means: the EdgeQL lexer reads `tok` (with its unquoted value) as the
   first token of t and `rest` is the text right after it;  pg_lex1 likewise for PostgreSQL's
   lexical rules (hand-written specification).  k is the text that follows the quoted form.

   Side conditions (all decidable, defined in Proofs*.v):
     mem 0 s = false            no NUL (not expressible in any EdgeQL / SQL string form)
     no_prohibited s            no NUL and no bidi control U+202A-202E, U+2066-2069 (the raw forms
                                $$..$$ and `..` have no escapes, so they cannot express them)
     repr_char_ok U c           c <> 0, c is a Unicode scalar value, and not (printable for Python
                                and prohibited by the lexer) — the last set is empty for the real tables
     ql_ident_dom s             names the lexer can express at all: non-empty, not starting with @ or $,
                                no "::", not __x__, no prohibited character
     ident_compat / param_compat / num_compat U s
                                every character accepted by Python's \w / \d at its position is
                                accepted by the Rust lexer there; true for every all-ASCII name
                                (C18_ascii_compat); false exactly on the code points listed by the
                                sweep (known finding C18-ident-unicode-class, see the _refuted theorems)
     ql_boundary / ql_num_boundary U k,  pg_boundary k
                                k is empty or starts with a character that cannot continue a bare
                                token (for numbers also not '.'). *)
From Coq Require Import List NArith Bool.
From Verif.C18 Require Import Gen_Quote Model Proofs Refuted.
Import ListNotations.
Open Scope N_scope.

(* ---------------------------------------------------------------- EdgeQL string literals *)

(* quote_literal: every string without NUL, any continuation *)
Theorem C18_ql_quote_literal : forall U s k, mem 0 s = false ->
  ql_lex1 U (ql_quote_literal s ++ k) = LexOk (TStr s) k.
Proof. exact p_ql_quote_literal. Qed.
Print Assumptions C18_ql_quote_literal.

(* dollar_quote_literal: every string the raw form can express, any continuation *)
Theorem C18_ql_dollar_quote_literal : forall U s k out, no_prohibited s = true ->
  ql_dollar_quote_literal s = Some out ->
  ql_lex1 U (out ++ k) = LexOk (TStr s) k.
Proof. exact p_ql_dollar_quote_literal. Qed.
Print Assumptions C18_ql_dollar_quote_literal.

(* the tag search always ends within the fuel the model gives it: None is not a real outcome *)
Theorem C18_dq_fuel_enough : forall s, ql_dollar_quote_literal s <> None.
Proof. exact p_dq_fuel_enough. Qed.
Print Assumptions C18_dq_fuel_enough.

(* visit_Constant (STRING): whichever of '..' ".." r'..' r".." $tag$..$tag$ repr() it picks *)
Theorem C18_ql_visit_constant : forall U s k out,
  (existsb (fun c => in_ranges c g_ql_nonprintable) s = true -> forallb (repr_char_ok U) s = true) ->
  ql_visit_constant U s = Some out ->
  ql_lex1 U (out ++ k) = LexOk (TStr s) k.
Proof. exact p_ql_visit_constant. Qed.
Print Assumptions C18_ql_visit_constant.

(* visit_BytesConstant: every byte string, any continuation *)
Theorem C18_ql_visit_bytes : forall U bs k, Forall (fun b => b < 256) bs ->
  ql_lex1 U (ql_visit_bytes bs ++ k) = LexOk (TBin bs) k.
Proof. exact p_ql_visit_bytes. Qed.
Print Assumptions C18_ql_visit_bytes.

(* ---------------------------------------------------------------- EdgeQL names *)

(* quote_ident, all flag combinations: one token, text/value = the name; a keyword token left
   bare with allow_reserved=False is not reserved (except reserved __names__, which are outside
   ql_ident_dom: no quoted form expresses them); with
   allow_num an all-digit name is kept as the integer token of the same digits; with
   allow_partial_reserved=False a bare keyword token is never union / except / intersect (those are
   back-quoted and read as Ident) *)
Theorem C18_ql_quote_ident_partial : forall U force ar an apr s k,
  ql_ident_dom s = true -> ident_compat U s = true -> num_compat U s = true ->
  ql_num_boundary U k = true ->
  (an = true -> dec_value s < 18446744073709551616) ->
  exists t, ql_lex1 U (ql_quote_ident U force ar an apr s ++ k) = LexOk t k /\
    (t = TIdent s
     \/ (t = TKeyword s /\ (ar = false -> ql_kw_reserved s = true -> dunder (map ascii_lower s) = true)
                        /\ (apr = false -> in_strs (map ascii_lower s) g_kw_partial = false))
     \/ (an = true /\ py_num_match U s = true /\ t = TInt (dec_value s))).
Proof. exact p_ql_quote_ident. Qed.
Print Assumptions C18_ql_quote_ident_partial.

(* the back-quoted form needs no compatibility condition and any continuation not starting with ` *)
Theorem C18_ql_quote_ident_quoted : forall U s k, ql_ident_dom s = true -> not_starting 96 k ->
  ql_lex1 U (ql_quote_ident_raw s ++ k) = LexOk (TIdent s) k.
Proof. exact p_ql_ident_quoted. Qed.
Print Assumptions C18_ql_quote_ident_quoted.

(* ql_param_dom additionally excludes names starting with a backtick: param_to_str writes those
   unchanged (they are already-quoted names kept verbatim by the parser) *)
Theorem C18_ql_param_to_str_partial : forall U s k,
  ql_param_dom s = true -> param_compat U s = true -> num_compat U s = true ->
  ql_boundary U k = true ->
  ql_lex1 U (ql_param_to_str U s ++ k) = LexOk (TParam s) k.
Proof. exact p_ql_param_to_str. Qed.
Print Assumptions C18_ql_param_to_str_partial.

(* the side conditions are vacuous for ASCII names: there the statement is the full one *)
Theorem C18_ascii_compat : forall U s, forallb is_ascii s = true ->
  ident_compat U s = true /\ param_compat U s = true /\ num_compat U s = true.
Proof. exact ascii_compat. Qed.
Print Assumptions C18_ascii_compat.

(* ... and false in general: witnesses (replayed on the real code by the check) *)
Theorem C18_ql_quote_ident_refuted : forall U,
  py_alnum_hi U 178 = true -> py_dec_hi U 178 = false -> rs_alpha_hi U 178 = false ->
  exists s, ql_ident_dom s = true /\
    ql_quote_ident U false true false true s = s /\ ql_lex1 U (s ++ []) = LexErr.
Proof. exact r_ql_quote_ident. Qed.
Print Assumptions C18_ql_quote_ident_refuted.

Theorem C18_ql_param_to_str_refuted : forall U,
  py_alnum_hi U 178 = true -> rs_alpha_hi U 178 = false ->
  exists s, ql_param_dom s = true /\
    ql_lex1 U (ql_param_to_str U s ++ []) = LexOk (TParam [97]) [178] /\ s <> [97].
Proof. exact r_ql_param_to_str. Qed.
Print Assumptions C18_ql_param_to_str_refuted.

Theorem C18_ql_quote_ident_num_refuted : forall U,
  py_dec_hi U 1635 = true -> rs_alpha_hi U 1635 = false ->
  exists s, ql_ident_dom s = true /\
    ql_quote_ident U false true true true s = s /\ ql_lex1 U (s ++ []) = LexOk (TInt 1) [1635].
Proof. exact r_ql_quote_ident_num. Qed.
Print Assumptions C18_ql_quote_ident_num_refuted.

(* ---------------------------------------------------------------- PostgreSQL forms *)

Theorem C18_pg_quote_literal : forall s k, mem 0 s = false ->
  (match k with d :: _ => d <> 39 | [] => True end) ->
  pg_lex1 (pg_quote_literal s ++ k) = PgOk (PSConst s) k.
Proof. exact p_pg_quote_literal. Qed.
Print Assumptions C18_pg_quote_literal.

(* quote_ident: an identifier with the original value, or (bare) a key word of a class that the
   flags allow in that position; names longer than 63 bytes are outside (PostgreSQL truncates) *)
Theorem C18_pg_quote_ident : forall U force column s k,
  s <> [] -> mem 0 s = false -> lower_nonempty U s = true ->
  (utf8_len_str s <= 63)%nat -> pg_boundary k = true ->
  exists t, pg_lex1 (pg_quote_ident U force column s ++ k) = PgOk t k /\
    (t = PIdent s \/ exists cl, t = PKeyword s cl /\ cl <> 2 /\ cl <> 3 /\ (column = true -> cl <> 4)).
Proof. exact p_pg_quote_ident. Qed.
Print Assumptions C18_pg_quote_ident.

(* quote_bytea_literal: one string constant followed by ::bytea, whose bytea value is the data *)
Theorem C18_pg_quote_bytea : forall bs k, Forall (fun b => b < 256) bs ->
  exists v, pg_lex1 (pg_quote_bytea bs ++ k) = PgOk (PSConst v) ([58; 58; 98; 121; 116; 101; 97] ++ k)
            /\ pg_bytea_in v = Some bs.
Proof. exact p_pg_quote_bytea. Qed.
Print Assumptions C18_pg_quote_bytea.

(* ---------------------------------------------------------------- non-vacuity *)

Definition U0 : uni := {| py_alnum_hi := fun _ => false; py_dec_hi := fun _ => false;
  py_print_hi := fun c => negb (in_range c 128 160) && negb (prohibited c); py_low_hi := fun c => [c];
  rs_alpha_hi := fun _ => false; rs_alnum_hi := fun _ => false; rs_white_hi := fun _ => false |}.

(* it's "x" $  — both quotes and a trailing dollar: the tag search moves on to $a$ *)
Example ex_dollar : ql_visit_constant U0 [105; 116; 39; 115; 32; 34; 120; 34; 32; 36] =
  Some ([36; 97; 36] ++ [105; 116; 39; 115; 32; 34; 120; 34; 32; 36] ++ [36; 97; 36]).
Proof. reflexivity. Qed.
Example ex_dollar_hyp :
  existsb (fun c => in_ranges c g_ql_nonprintable) [105; 116; 39; 115; 32; 34; 120; 34; 32; 36] = false.
Proof. reflexivity. Qed.
(* a C1 control, a bidi control and a quote go through repr() and \u escapes *)
Example ex_repr : ql_visit_constant U0 [133; 8238; 39] =
  Some [34; 92; 117; 48; 48; 56; 53; 92; 117; 50; 48; 50; 101; 39; 34]
  /\ forallb (repr_char_ok U0) [133; 8238; 39] = true.
Proof. split; reflexivity. Qed.
Example ex_ident : ql_ident_dom [115; 101; 108; 101; 99; 116] = true
  /\ ident_compat U0 [115; 101; 108; 101; 99; 116] = true
  /\ ql_quote_ident U0 false false false true [115; 101; 108; 101; 99; 116] = [96; 115; 101; 108; 101; 99; 116; 96]
  /\ ql_quote_ident U0 false false false false [117; 110; 105; 111; 110] = [96; 117; 110; 105; 111; 110; 96]
  /\ ql_quote_ident U0 false false false true [117; 110; 105; 111; 110] = [117; 110; 105; 111; 110]
  /\ ql_num_boundary U0 [32; 120] = true.
Proof. repeat split; reflexivity. Qed.
Example ex_param : ql_param_dom [97; 32; 98] = true /\ param_compat U0 [97; 32; 98] = true
  /\ ql_lex1 U0 (ql_param_to_str U0 [97; 32; 98] ++ [59]) = LexOk (TParam [97; 32; 98]) [59].
Proof. repeat split; reflexivity. Qed.
Example ex_pg : pg_lex1 (pg_quote_ident U0 false false [85; 115; 101; 114] ++ [46; 120]) = PgOk (PIdent [85; 115; 101; 114]) [46; 120]
  /\ pg_boundary [46; 120] = true /\ lower_nonempty U0 [85; 115; 101; 114] = true.
Proof. repeat split; reflexivity. Qed.
