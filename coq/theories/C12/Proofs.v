(* C12 — lemmas.  Statements of the property are in Props.v. *)
From Coq Require Import List NArith ZArith Bool Lia Permutation.
From Verif.C12 Require Import Model.
Import ListNotations.

(* ------------------------------------------------------------------ induction principles *)

Section TyInd.
Variable P : ty -> Prop.
Hypothesis HS : forall s, P (TS s).
Hypothesis HAny : P TAny.
Hypothesis HAnyT : P TAnyTuple.
Hypothesis HAnyO : P TAnyObject.
Hypothesis HArr : forall t, P t -> P (TArr t).
Hypothesis HTup : forall n els, Forall (fun p => P (snd p)) els -> P (TTup n els).
Hypothesis HRng : forall t, P t -> P (TRng t).
Hypothesis HMRng : forall t, P t -> P (TMRng t).
Hypothesis HObj : forall o, P (TObj o).
Hypothesis HUnion : forall os, P (TUnion os).

Fixpoint ty_ind' (t : ty) : P t :=
  match t with
  | TS s => HS s
  | TAny => HAny
  | TAnyTuple => HAnyT
  | TAnyObject => HAnyO
  | TArr e => HArr e (ty_ind' e)
  | TTup n els =>
      HTup n els ((fix go (l : list (N * ty)) : Forall (fun p => P (snd p)) l :=
                     match l with
                     | [] => Forall_nil _
                     | p :: l' => Forall_cons p (ty_ind' (snd p)) (go l')
                     end) els)
  | TRng e => HRng e (ty_ind' e)
  | TMRng e => HMRng e (ty_ind' e)
  | TObj o => HObj o
  | TUnion os => HUnion os
  end.
End TyInd.

Section ValueInd.
Variable P : value -> Prop.
Hypothesis HS : forall s p, P (VS s p).
Hypothesis HTup : forall n els, Forall (fun p => P (snd p)) els -> P (VTup n els).
Hypothesis HArr : forall vs, Forall P vs -> P (VArr vs).
Hypothesis HRng : forall vs, Forall P vs -> P (VRng vs).
Hypothesis HMRng : forall vs, Forall P vs -> P (VMRng vs).
Hypothesis HObj : forall o i, P (VObj o i).

Fixpoint value_ind' (v : value) : P v :=
  match v with
  | VS s p => HS s p
  | VTup n els =>
      HTup n els ((fix go (l : list (N * value)) : Forall (fun p => P (snd p)) l :=
                     match l with
                     | [] => Forall_nil _
                     | p :: l' => Forall_cons p (value_ind' (snd p)) (go l')
                     end) els)
  | VArr vs => HArr vs ((fix go (l : list value) : Forall P l :=
                           match l with
                           | [] => Forall_nil _
                           | x :: l' => Forall_cons x (value_ind' x) (go l')
                           end) vs)
  | VRng vs => HRng vs ((fix go (l : list value) : Forall P l :=
                           match l with
                           | [] => Forall_nil _
                           | x :: l' => Forall_cons x (value_ind' x) (go l')
                           end) vs)
  | VMRng vs => HMRng vs ((fix go (l : list value) : Forall P l :=
                             match l with
                             | [] => Forall_nil _
                             | x :: l' => Forall_cons x (value_ind' x) (go l')
                             end) vs)
  | VObj o i => HObj o i
  end.
End ValueInd.

Section ExprInd.
Variable P : expr -> Prop.
Hypothesis HLit : forall s, P (ELit s).
Hypothesis HEmpty : P EEmpty.
Hypothesis HCast : forall t e, P e -> P (ECast t e).
Hypothesis HTuple : forall n els, Forall (fun p => P (snd p)) els -> P (ETuple n els).
Hypothesis HArray : forall es, Forall P es -> P (EArray es).
Hypothesis HSet : forall es, Forall P es -> P (ESet es).
Hypothesis HOp : forall o es, Forall P es -> P (EOp o es).
Hypothesis HCall : forall f es kw, Forall P es -> Forall (fun p => P (snd p)) kw -> P (ECall f es kw).
Hypothesis HTupIdx : forall e n, P e -> P (ETupIdx e n).
Hypothesis HIndex : forall e i, P e -> P i -> P (EIndex e i).
Hypothesis HObj : forall o, P (EObj o).

Fixpoint expr_ind' (e : expr) : P e :=
  let fix go (l : list expr) : Forall P l :=
      match l with
      | [] => Forall_nil _
      | x :: l' => Forall_cons x (expr_ind' x) (go l')
      end in
  let fix gop (l : list (N * expr)) : Forall (fun p => P (snd p)) l :=
      match l with
      | [] => Forall_nil _
      | p :: l' => Forall_cons p (expr_ind' (snd p)) (gop l')
      end in
  match e with
  | ELit s => HLit s
  | EEmpty => HEmpty
  | ECast t e1 => HCast t e1 (expr_ind' e1)
  | ETuple n els => HTuple n els (gop els)
  | EArray es => HArray es (go es)
  | ESet es => HSet es (go es)
  | EOp o es => HOp o es (go es)
  | ECall f es kw => HCall f es kw (go es) (gop kw)
  | ETupIdx e1 n => HTupIdx e1 n (expr_ind' e1)
  | EIndex e1 i => HIndex e1 i (expr_ind' e1) (expr_ind' i)
  | EObj o => HObj o
  end.
End ExprInd.

(* ------------------------------------------------------------------ basic facts *)

Lemma list_eqb_N_eq : forall l m, list_eqb N.eqb l m = true -> l = m.
Proof.
  induction l; destruct m; simpl; intros; try discriminate; auto.
  apply andb_true_iff in H as [H1 H2]. apply N.eqb_eq in H1. subst. f_equal; auto.
Qed.

Lemma ty_eqb_eq : forall a b, ty_eqb a b = true -> a = b.
Proof.
  induction a using ty_ind'; destruct b; simpl; intros E; try discriminate; auto.
  - apply N.eqb_eq in E; subst; auto.
  - f_equal; auto.
  - apply andb_true_iff in E as [E1 E2]. apply Bool.eqb_prop in E1. subst. f_equal.
    revert els0 E2. induction H; destruct els0; intros; try discriminate; auto.
    + destruct x; discriminate.
    + destruct x as [i x], p as [j y].
      apply andb_true_iff in E2 as [E2 E3]. apply andb_true_iff in E2 as [E1 E2].
      apply N.eqb_eq in E1. simpl in H. apply H in E2. subst. f_equal. apply IHForall; auto.
  - f_equal; auto.
  - f_equal; auto.
  - apply N.eqb_eq in E; subst; auto.
  - apply list_eqb_N_eq in E; subst; auto.
Qed.

Lemma memN_In : forall x l, memN x l = true <-> In x l.
Proof.
  unfold memN. intros. rewrite existsb_exists. split.
  - intros [y [Hy E]]. apply N.eqb_eq in E. subst; auto.
  - intros. exists x. split; auto. apply N.eqb_refl.
Qed.

(* ------------------------------------------------------------------ well-formed signatures *)

(* the ancestor table is transitively closed (true of every schema: get_ancestors is the
   full linearised lineage) and irreflexive *)
Definition anc_closed (anc : N -> list N) (ids : list N) : bool :=
  forallb (fun s => forallb (fun a => forallb (fun b => memN b (anc s)) (anc a)) (anc s)) ids.

Definition anc_irrefl (anc : N -> list N) (ids : list N) : bool :=
  forallb (fun s => negb (memN s (anc s))) ids.

Definition sig_wf (sg : sig) : bool :=
  anc_closed (sc_ancestors sg) (map sc_id (sg_scalars sg))
  && anc_closed (ob_ancestors sg) (map ob_id (sg_objtypes sg))
  && anc_irrefl (ob_ancestors sg) (map ob_id (sg_objtypes sg)).

Section WF.
Variable sg : sig.
Hypothesis WF : sig_wf sg = true.

Lemma find_scalar_in_id : forall l s d, find_scalar_in l s = Some d -> In s (map sc_id l).
Proof.
  induction l; simpl; intros; try discriminate.
  destruct (N.eqb (sc_id a) s) eqn:E.
  - apply N.eqb_eq in E. auto.
  - right. eauto.
Qed.

Lemma find_obj_in_id : forall l o d, find_obj_in l o = Some d -> In o (map ob_id l).
Proof.
  induction l; simpl; intros; try discriminate.
  destruct (N.eqb (ob_id a) o) eqn:E.
  - apply N.eqb_eq in E. auto.
  - right. eauto.
Qed.

Lemma sc_anc_closed : forall s a b, In a (sc_ancestors sg s) -> In b (sc_ancestors sg a) ->
  In b (sc_ancestors sg s).
Proof.
  intros s a b Ha Hb.
  unfold sig_wf in WF. apply andb_true_iff in WF as [W _]. apply andb_true_iff in W as [W _].
  unfold anc_closed in W. rewrite forallb_forall in W.
  assert (Hs : In s (map sc_id (sg_scalars sg))).
  { unfold sc_ancestors, find_scalar in Ha.
    destruct (find_scalar_in (sg_scalars sg) s) eqn:E; [|inversion Ha].
    eapply find_scalar_in_id; eauto. }
  specialize (W s Hs). rewrite forallb_forall in W. specialize (W a Ha).
  rewrite forallb_forall in W. apply memN_In. auto.
Qed.

Lemma ob_anc_closed : forall s a b, In a (ob_ancestors sg s) -> In b (ob_ancestors sg a) ->
  In b (ob_ancestors sg s).
Proof.
  intros s a b Ha Hb.
  unfold sig_wf in WF. apply andb_true_iff in WF as [W _]. apply andb_true_iff in W as [_ W].
  unfold anc_closed in W. rewrite forallb_forall in W.
  assert (Hs : In s (map ob_id (sg_objtypes sg))).
  { unfold ob_ancestors in Ha.
    destruct (find_obj_in (sg_objtypes sg) s) eqn:E; [|inversion Ha].
    eapply find_obj_in_id; eauto. }
  specialize (W s Hs). rewrite forallb_forall in W. specialize (W a Ha).
  rewrite forallb_forall in W. apply memN_In. auto.
Qed.

Lemma sc_sub_refl : forall s, sc_sub sg s s = true.
Proof. intros. unfold sc_sub. rewrite N.eqb_refl. auto. Qed.

Lemma ob_sub_refl : forall s, ob_sub sg s s = true.
Proof. intros. unfold ob_sub. rewrite N.eqb_refl. auto. Qed.

Lemma sc_sub_trans : forall a b c, sc_sub sg a b = true -> sc_sub sg b c = true -> sc_sub sg a c = true.
Proof.
  unfold sc_sub. intros a b c H1 H2.
  apply orb_true_iff in H1 as [H1|H1]; [apply N.eqb_eq in H1; subst; auto|].
  apply orb_true_iff in H2 as [H2|H2]; [apply N.eqb_eq in H2; subst; rewrite H1; apply orb_true_r|].
  apply orb_true_iff. right. apply memN_In. apply memN_In in H1, H2. eapply sc_anc_closed; eauto.
Qed.

Lemma ob_sub_trans : forall a b c, ob_sub sg a b = true -> ob_sub sg b c = true -> ob_sub sg a c = true.
Proof.
  unfold ob_sub. intros a b c H1 H2.
  apply orb_true_iff in H1 as [H1|H1]; [apply N.eqb_eq in H1; subst; auto|].
  apply orb_true_iff in H2 as [H2|H2]; [apply N.eqb_eq in H2; subst; rewrite H1; apply orb_true_r|].
  apply orb_true_iff. right. apply memN_In. apply memN_In in H1, H2. eapply ob_anc_closed; eauto.
Qed.

(* ------------------------------------------------------------------ subsumption *)

Lemma has_type_any : forall v, has_type sg v TAny = true.
Proof. destruct v; reflexivity. Qed.

(* a value of type vt belongs to every type pt that vt is a subclass of, provided the tuple
   shapes agree (which issubclass / is_type_compatible do NOT check) *)
Lemma has_type_sub : forall v vt pt,
  issub sg vt pt = true -> shape_ok pt vt = true ->
  has_type sg v vt = true -> has_type sg v pt = true.
Proof.
  induction v using value_ind'; intros vt pt Hs Hsh Hv.
  - (* VS *)
    destruct pt; try (destruct vt; simpl in *; discriminate); try reflexivity;
    destruct vt; simpl in *; try discriminate.
    eapply sc_sub_trans; eauto.
  - (* VTup *)
    destruct pt; try reflexivity;
      try (destruct vt; simpl in *; try discriminate; fail).
    (* pt = TTup *)
    + destruct vt; simpl in Hv, Hs; try discriminate.
      * simpl in Hsh.
        apply andb_true_iff in Hv as [Hn Hv]. apply andb_true_iff in Hsh as [Hm Hsh].
        apply Bool.eqb_prop in Hn. apply Bool.eqb_prop in Hm. subst.
        simpl. rewrite Bool.eqb_reflx. simpl.
        revert els0 els1 Hs Hsh Hv.
        induction H; intros ts us Hs Hsh Hv.
        -- destruct us as [|[j y] us]; simpl in Hv; [|discriminate].
           destruct ts as [|[k z] ts]; simpl in Hsh; [reflexivity|discriminate].
        -- destruct x as [i x]. destruct us as [|[j y] us]; simpl in Hv; [discriminate|].
           destruct ts as [|[k z] ts]; simpl in Hsh; [discriminate|]. simpl in Hs.
           apply andb_true_iff in Hv as [Hv Hv2]. apply andb_true_iff in Hv as [Hi Hv].
           apply andb_true_iff in Hsh as [Hsh Hsh2]. apply andb_true_iff in Hsh as [Hk Hsh].
           apply andb_true_iff in Hs as [Hs Hs2].
           apply N.eqb_eq in Hi, Hk. subst.
           rewrite N.eqb_refl. simpl.
           rewrite (IHForall ts us); auto. rewrite andb_true_r.
           simpl in H.
           apply orb_true_iff in Hs as [Hs|Hs].
           ++ destruct z; try discriminate. apply has_type_any.
           ++ eapply H; eauto.
  - (* VArr *)
    destruct pt; try reflexivity; try (destruct vt; simpl in *; try discriminate; fail).
    destruct vt; simpl in Hv; try discriminate. simpl in Hs, Hsh. simpl.
    induction H; auto.
    apply andb_true_iff in Hv as [Hv1 Hv2]. rewrite IHForall; auto. rewrite andb_true_r.
    apply orb_true_iff in Hs as [Hs|Hs].
    + destruct pt; try discriminate. apply has_type_any.
    + eapply H; eauto.
  - (* VRng *)
    destruct pt; try reflexivity; try (destruct vt; simpl in *; try discriminate; fail).
    destruct vt; simpl in Hv; try discriminate. simpl in Hs, Hsh. simpl.
    induction H; auto.
    apply andb_true_iff in Hv as [Hv1 Hv2]. rewrite IHForall; auto. rewrite andb_true_r.
    apply orb_true_iff in Hs as [Hs|Hs].
    + destruct pt; try discriminate. apply has_type_any.
    + eapply H; eauto.
  - (* VMRng *)
    destruct pt; try reflexivity; try (destruct vt; simpl in *; try discriminate; fail).
    destruct vt; simpl in Hv; try discriminate. simpl in Hs, Hsh. simpl.
    induction H; auto.
    apply andb_true_iff in Hv as [Hv1 Hv2]. rewrite IHForall; auto. rewrite andb_true_r.
    eapply (H (TRng vt) (TRng pt)); eauto.
  - (* VObj *)
    destruct pt; try reflexivity; try (destruct vt; simpl in *; try discriminate; fail).
    + (* TObj *)
      destruct vt; simpl in *; try discriminate.
      * eapply ob_sub_trans; eauto.
      * apply existsb_exists in Hv as [q [Hq Hoq]]. rewrite forallb_forall in Hs.
        eapply ob_sub_trans; eauto.
    + (* TUnion *)
      destruct vt; simpl in *; try discriminate.
      * apply existsb_exists in Hs as [q [Hq Hoq]]. apply existsb_exists. exists q. split; auto.
        eapply ob_sub_trans; eauto.
      * apply existsb_exists in Hv as [q [Hq Hoq]].
        apply orb_true_iff in Hs as [Hs|Hs].
        -- apply list_eqb_N_eq in Hs. subst. apply existsb_exists. eauto.
        -- rewrite forallb_forall in Hs. specialize (Hs q Hq).
           apply existsb_exists in Hs as [r [Hr Hqr]]. apply existsb_exists. exists r. split; auto.
           eapply ob_sub_trans; eauto.
Qed.

End WF.

(* ------------------------------------------------------------------ generic list lemmas *)

Lemma mapM_ok : forall {A B} (f : A -> res B) l rs,
  mapM f l = Ok rs -> Forall2 (fun x r => f x = Ok r) l rs.
Proof.
  induction l; simpl; intros rs H.
  - inversion H. constructor.
  - unfold bind in H. destruct (f a) eqn:E; try discriminate.
    destruct (mapM f l) eqn:E2; try discriminate. inversion H; subst. constructor; auto.
Qed.

Lemma cartesian_In : forall {A} (ls : list (list A)) l,
  In l (cartesian ls) -> Forall2 (fun x xs => In x xs) l ls.
Proof.
  induction ls; simpl; intros l H.
  - destruct H as [H|[]]. subst. constructor.
  - apply in_flat_map in H as [x [Hx H]]. apply in_map_iff in H as [r [E Hr]]. subst.
    constructor; auto.
Qed.

Lemma filter_length_lt : forall {A} (p q : A -> bool) l x,
  (forall y, p y = true -> q y = true) -> In x l -> q x = true -> p x = false ->
  length (filter p l) < length (filter q l).
Proof.
  intros A p q l x Hpq. induction l; simpl; intros Hin Hq Hp; [contradiction|].
  assert (Hle : forall l', length (filter p l') <= length (filter q l')).
  { induction l'; simpl; auto. destruct (p a0) eqn:E.
    - rewrite (Hpq _ E). simpl. lia.
    - destruct (q a0); simpl; lia. }
  destruct Hin as [->|Hin].
  - rewrite Hq, Hp. simpl. specialize (Hle l). lia.
  - specialize (IHl Hin Hq Hp). destruct (p a) eqn:E.
    + rewrite (Hpq _ E). simpl. lia.
    + destruct (q a); simpl; lia.
Qed.

Lemma insert_sorted_In : forall x y l, In y (insert_sorted x l) <-> y = x \/ In y l.
Proof.
  induction l; simpl.
  - intuition.
  - destruct (N.eqb x a) eqn:E.
    + apply N.eqb_eq in E. subst. simpl. intuition.
    + destruct (N.ltb x a); simpl; [intuition|]. rewrite IHl. intuition.
Qed.

Lemma fold_insert_In : forall y l, In y (fold_right insert_sorted [] l) <-> In y l.
Proof.
  induction l; simpl; [tauto|]. rewrite insert_sorted_In, IHl. intuition.
Qed.

Lemma filter_length_le_aux : forall {A} (p : A -> bool) l, length (filter p l) <= length l.
Proof. induction l; simpl; auto. destruct (p a); simpl; lia. Qed.

(* ------------------------------------------------------------------ union types *)
Section UnionType.
Variable sg : sig.
Hypothesis WF : sig_wf sg = true.

Lemma ob_anc_irrefl : forall a, ~ In a (ob_ancestors sg a).
Proof.
  intros a Ha.
  unfold sig_wf in WF. apply andb_true_iff in WF as [_ W].
  unfold anc_irrefl in W. rewrite forallb_forall in W.
  assert (Hs : In a (map ob_id (sg_objtypes sg))).
  { unfold ob_ancestors in Ha.
    destruct (find_obj_in (sg_objtypes sg) a) eqn:E; [|inversion Ha].
    eapply find_obj_in_id; eauto. }
  specialize (W a Hs). apply negb_true_iff in W.
  apply memN_In in Ha. congruence.
Qed.

Definition above (comps : list N) (o : N) : N -> bool :=
  fun q => negb (N.eqb q o) && memN q (ob_ancestors sg o).

(* every component lies below a component that survives minimize_class_set_by_most_generic *)
Lemma maximal_above : forall comps n a,
  length (filter (above comps a) comps) <= n -> In a comps ->
  exists m, In m comps /\ ob_sub sg a m = true /\ existsb (above comps m) comps = false.
Proof.
  induction n; intros a Hlen Ha.
  - exists a. split; auto. split; [apply ob_sub_refl|].
    destruct (existsb (above comps a) comps) eqn:E; auto.
    apply existsb_exists in E as [q [Hq Hab]].
    assert (In q (filter (above comps a) comps)) by (apply filter_In; auto).
    destruct (filter (above comps a) comps); [contradiction|simpl in Hlen; lia].
  - destruct (existsb (above comps a) comps) eqn:E.
    + apply existsb_exists in E as [q [Hq Hab]].
      unfold above in Hab. apply andb_true_iff in Hab as [Hne Hqa].
      apply negb_true_iff in Hne. apply memN_In in Hqa.
      assert (Hlt : length (filter (above comps q) comps) < length (filter (above comps a) comps)).
      { apply (filter_length_lt _ _ comps q); auto.
        - intros y Hy. unfold above in *. apply andb_true_iff in Hy as [Hy1 Hy2].
          apply memN_In in Hy2.
          assert (Hya : In y (ob_ancestors sg a)) by (eapply ob_anc_closed; eauto).
          apply andb_true_iff. split; [|apply memN_In; auto].
          apply negb_true_iff. apply N.eqb_neq. intros ->.
          apply (ob_anc_irrefl a). auto.
        - unfold above. rewrite Hne. simpl. apply memN_In; auto.
        - unfold above. rewrite N.eqb_refl. reflexivity. }
      destruct (IHn q) as [m [Hm [Hqm Hmax]]]; auto; [lia|].
      exists m. split; auto. split; auto.
      eapply ob_sub_trans; eauto. unfold ob_sub. apply orb_true_iff. right. apply memN_In; auto.
    + exists a. split; auto. split; auto. apply ob_sub_refl.
Qed.

Lemma union_type_sound_comp : forall l r o i a,
  In a (obj_components l ++ obj_components r) -> ob_sub sg o a = true ->
  has_type sg (VObj o i) (union_type sg l r) = true.
Proof.
  intros l r o i a Ha Hoa. unfold union_type.
  set (comps := obj_components l ++ obj_components r) in *.
  destruct (maximal_above comps (length comps) a) as [m [Hm [Ham Hmax]]]; auto.
  { apply filter_length_le_aux. }
  set (keep := filter _ comps).
  assert (Hk : In m keep).
  { apply filter_In. split; auto. apply negb_true_iff. exact Hmax. }
  assert (Hs : In m (fold_right insert_sorted [] keep)) by (apply fold_insert_In; auto).
  assert (Hom : ob_sub sg o m = true) by (eapply ob_sub_trans; eauto).
  destruct (fold_right insert_sorted [] keep) as [|x [|y rest]] eqn:E.
  - contradiction.
  - destruct Hs as [->|[]]. simpl. auto.
  - simpl. apply existsb_exists in Hs || idtac.
    change (existsb (ob_sub sg o) (x :: y :: rest) = true).
    apply existsb_exists. exists m. split; auto.
Qed.

End UnionType.

(* ------------------------------------------------------------------ soundness of run *)
Arguments cast_ok : simpl never.
Arguments compat : simpl never.
Arguments shape_ok : simpl never.
Arguments find_callable : simpl never.
Arguments validate_rec : simpl never.
Arguments callables_named : simpl never.
Arguments infer_common_type : simpl never.
Arguments infer_index : simpl never.
Arguments union_type : simpl never.
Arguments balance : simpl never.
Arguments cartesian : simpl never.
Arguments coerce : simpl never.

Section Sound.
Variable sg : sig.
Hypothesis WF : sig_wf sg = true.
Variable s_int64 : N.
Variable prim : bcall -> list (list value) -> list value.
Variable castv : ty -> ty -> value -> list value.
Variable idxp : ty -> value -> value -> list value.
Variable db : N -> list value.

Definition typed (t : ty) (vs : list value) : Prop := Forall (fun v => has_type sg v t = true) vs.

(* each primitive returns values of its (instantiated) declared return type when it is given
   arguments of its (instantiated) parameter types *)
Hypothesis Hprim : forall bc vals,
  Forall2 (fun vs b => typed (barg_target b) vs) vals (bc_args bc) -> typed (bc_ret bc) (prim bc vals).
(* a cast produces values of its target type *)
Hypothesis Hcast : forall a b v, typed b (castv a b v).
Hypothesis Hidx : forall t v i, typed t (idxp t v i).
(* the database instance conforms to the schema: the extent of an object type contains
   objects of that type (or of a descendant) *)
Hypothesis Hdb : forall o, typed (TObj o) (db o).

Notation run' := (run sg s_int64 prim castv idxp db).
Notation finalize' := (finalize sg castv).
Notation apply_bcall' := (apply_bcall sg prim castv).
Notation compile_operator' := (compile_operator sg prim castv).
Notation compile_call' := (compile_call sg prim castv).
Notation balance' := (balance sg prim castv).

Definition av_typed (a : argv) : Prop := typed (av_ty a) (av_vs a).

Lemma typed_app : forall t l r, typed t l -> typed t r -> typed t (l ++ r).
Proof. unfold typed. intros. apply Forall_app; auto. Qed.

Lemma typed_flat_map : forall {A} t (f : A -> list value) l,
  (forall x, In x l -> typed t (f x)) -> typed t (flat_map f l).
Proof.
  induction l; simpl; intros; [constructor|]. apply typed_app; auto.
Qed.

Lemma typed_nil : forall t, typed t []. Proof. constructor. Qed.

Lemma lookup_arg_typed : forall args kws b,
  Forall av_typed args -> Forall (fun k => av_typed (snd k)) kws -> av_typed (lookup_arg args kws b).
Proof.
  intros args kws b Ha Hk. unfold lookup_arg.
  destruct (ba_arg b) as [i|].
  - destruct (nth_in_or_default i args
                (mk_argv (mk_argd (ba_vty b) false false) [])) as [Hin| ->].
    + rewrite Forall_forall in Ha. auto.
    + apply typed_nil.
  - destruct (ba_kw b) as [k|]; [|apply typed_nil].
    destruct (assoc k kws) eqn:E; [|apply typed_nil].
    clear -E Hk. induction kws as [|[k' a'] kws]; simpl in E; [discriminate|].
    inversion Hk; subst. destruct (N.eqb k k'); [inversion E; subst; auto|auto].
Qed.

Lemma finalize_sound : forall args kws,
  Forall av_typed args -> Forall (fun k => av_typed (snd k)) kws ->
  forall bargs vals, finalize' args kws bargs = Ok (true, vals) ->
  Forall2 (fun vs b => typed (barg_target b) vs) vals bargs.
Proof.
  intros args kws Ha Hk. induction bargs as [|b bargs]; intros vals H.
  - simpl in H. inversion H. constructor.
  - simpl in H. unfold bind in H.
    pose proof (lookup_arg_typed args kws b Ha Hk) as Hl.
    destruct (compat sg (barg_target b) (ba_vty b)) eqn:Ec.
    + destruct (finalize' args kws bargs) as [[c2 v2]|] eqn:E2; [|discriminate].
      simpl in H. inversion H; subst. clear H.
      apply andb_true_iff in H1 as [H1 H2]. subst.
      apply andb_true_iff in H1 as [Heq Hsh].
      apply ty_eqb_eq in Heq.
      constructor; auto.
      unfold compat in Ec. apply andb_true_iff in Ec as [Ei _].
      unfold av_typed, typed in Hl. unfold typed.
      eapply Forall_impl; [|exact Hl]. intros v Hv. simpl in Hv.
      eapply has_type_sub; eauto. rewrite Heq. exact Hv.
    + destruct (cast_ok sg cast_fuel2 false (av_d (lookup_arg args kws b)) (barg_target b));
        simpl in H; [|discriminate].
      destruct (finalize' args kws bargs) as [[c2 v2]|] eqn:E2; [|discriminate].
      simpl in H. inversion H; subst. clear H.
      constructor; auto.
      apply typed_flat_map. intros. apply Hcast.
Qed.

Lemma sem_setlike_sound : forall nm vals bargs ret vs,
  Forall2 (fun vs b => typed (barg_target b) vs) vals bargs ->
  forallb (fun b => ty_eqb (barg_target b) ret) (setlike_flow sg nm bargs) = true ->
  sem_setlike sg nm vals = Some vs -> typed ret vs.
Proof.
  intros nm vals bargs ret vs HF Hall Hs. unfold sem_setlike in Hs.
  destruct (N.eqb nm (sg_union sg)) eqn:Eu.
  - destruct vals as [|l [|r [|]]]; try discriminate. inversion Hs; subst.
    inversion HF as [|? b1 ? bs Hl HF2]; subst. inversion HF2 as [|? b2 ? bs2 Hr HF3]; subst.
    inversion HF3; subst.
    assert (Hfl : forallb (fun b => ty_eqb (barg_target b) ret) [b1; b2] = true).
    { unfold setlike_flow in Hall. destruct (N.eqb nm (sg_if sg)); exact Hall. }
    simpl in Hfl. apply andb_true_iff in Hfl as [E1 E2]. apply andb_true_iff in E2 as [E2 _].
    apply ty_eqb_eq in E1, E2. rewrite E1 in Hl. rewrite E2 in Hr. apply typed_app; auto.
  - destruct (N.eqb nm (sg_coalesce sg)) eqn:Ec.
    + destruct vals as [|l [|r [|]]]; try discriminate. inversion Hs; subst.
      inversion HF as [|? b1 ? bs Hl HF2]; subst. inversion HF2 as [|? b2 ? bs2 Hr HF3]; subst.
      inversion HF3; subst.
      assert (Hfl : forallb (fun b => ty_eqb (barg_target b) ret) [b1; b2] = true).
      { unfold setlike_flow in Hall. destruct (N.eqb nm (sg_if sg)); exact Hall. }
      simpl in Hfl. apply andb_true_iff in Hfl as [E1 E2]. apply andb_true_iff in E2 as [E2 _].
      apply ty_eqb_eq in E1, E2. rewrite E1 in Hl. rewrite E2 in Hr. destruct l; auto.
    + destruct (N.eqb nm (sg_if sg)) eqn:Ei; [|discriminate].
      destruct vals as [|t [|c [|f [|]]]]; try discriminate. inversion Hs; subst.
      inversion HF as [|? b1 ? bs Ht HF2]; subst. inversion HF2 as [|? b2 ? bs2 Hc HF3]; subst.
      inversion HF3 as [|? b3 ? bs3 Hf HF4]; subst. inversion HF4; subst.
      unfold setlike_flow in Hall. rewrite Ei in Hall. simpl in Hall.
      apply andb_true_iff in Hall as [E1 E2]. apply andb_true_iff in E2 as [E2 _].
      apply ty_eqb_eq in E1, E2.
      rewrite E1 in Ht. rewrite E2 in Hf.
      apply typed_flat_map. intros b _. destruct (truthy b); auto.
Qed.

Lemma apply_bcall_sound : forall bc args kws t vs,
  Forall av_typed args -> Forall (fun k => av_typed (snd k)) kws ->
  apply_bcall' bc args kws = Ok (t, true, vs) -> typed t vs.
Proof.
  intros bc args kws t vs Ha Hk H. unfold apply_bcall, bind in H.
  destruct (finalize' args kws (bc_args bc)) as [[clean vals]|] eqn:Ef; [|discriminate].
  inversion H; subst. clear H.
  pose proof (finalize_sound args kws Ha Hk _ _ Ef) as HF.
  destruct (cl_isop (bc_f bc) && is_set_like_op sg (cl_name (bc_f bc)) &&
            forallb (fun b => ty_eqb (barg_target b) (bc_ret bc))
                    (setlike_flow sg (cl_name (bc_f bc)) (bc_args bc))) eqn:Ec.
  - destruct (sem_setlike sg (cl_name (bc_f bc)) vals) eqn:Es.
    + apply andb_true_iff in Ec as [_ Ec]. eapply sem_setlike_sound; eauto.
    + apply Hprim; auto.
  - apply Hprim; auto.
Qed.

Ltac dres H :=
  match type of H with
  | match ?X with Ok _ => _ | Err _ => _ end = _ =>
      let E := fresh "E" in destruct X eqn:E; [|discriminate H]
  end.

Lemma typed_objvals : forall l r (a : argv) v,
  av_typed a -> In v (if is_object (av_ty a) then av_vs a else []) ->
  In (av_ty a) [l; r] -> has_type sg v (union_type sg l r) = true.
Proof.
  intros l r a v Ha Hv Hin.
  destruct (is_object (av_ty a)) eqn:Eo; [|contradiction].
  unfold av_typed, typed in Ha. rewrite Forall_forall in Ha. specialize (Ha v Hv).
  assert (Hc : forall o, In o (obj_components (av_ty a)) ->
                         In o (obj_components l ++ obj_components r)).
  { intros o Ho. apply in_or_app. destruct Hin as [-> | [-> | []]]; auto. }
  remember (av_ty a) as ta eqn:Et. destruct ta; try discriminate.
  - (* TObj *)
    destruct v; simpl in Ha; try discriminate.
    eapply union_type_sound_comp; eauto. apply Hc. simpl. auto.
  - (* TUnion *)
    destruct v; simpl in Ha; try discriminate.
    apply existsb_exists in Ha as [q [Hq Hoq]].
    eapply union_type_sound_comp; eauto.
Qed.

Lemma compile_operator_sound : forall nm argvs t vs,
  Forall av_typed argvs -> compile_operator' nm argvs = Ok (t, true, vs) -> typed t vs.
Proof.
  intros nm argvs t vs Ha H. unfold compile_operator in H.
  destruct (existsb is_union (map av_ty argvs)); [discriminate|].
  destruct (callables_named sg nm true) as [|first rest]; [discriminate|].
  unfold bind in H at 1. dres H.
  unfold bind in H at 1. dres H.
  match type of H with
  | match ?M with _ => _ end = _ => destruct M as [|c [|c2 m2]]; try discriminate
  end.
  unfold bind in H. destruct (apply_bcall' c argvs []) as [[[rtype clean] vs0]|] eqn:Eap; [|discriminate].
  destruct (is_set_like_op sg (cl_name (bc_f c)) && is_object rtype) eqn:Eobj.
  - (* union type of the operands *)
    destruct (N.eqb nm (sg_if sg)) eqn:Eif.
    + destruct argvs as [|l [|c0 [|r [|]]]]; try discriminate.
      inversion H; subst. clear H.
      inversion Ha as [|? ? Hl Ha2]; subst. inversion Ha2 as [|? ? Hc Ha3]; subst.
      inversion Ha3 as [|? ? Hr _]; subst.
      unfold sem_setlike.
      destruct (N.eqb nm (sg_union sg)); [apply typed_nil|].
      destruct (N.eqb nm (sg_coalesce sg)); [apply typed_nil|].
      rewrite Eif. apply typed_flat_map. intros b _.
      destruct (truthy b); apply Forall_forall; intros v Hv.
      * eapply (typed_objvals _ _ l); eauto. simpl; auto.
      * eapply (typed_objvals _ _ r); eauto. simpl; auto.
    + destruct argvs as [|l [|r [|]]]; try discriminate.
      inversion H; subst. clear H.
      inversion Ha as [|? ? Hl Ha2]; subst. inversion Ha2 as [|? ? Hr _]; subst.
      unfold sem_setlike.
      destruct (N.eqb nm (sg_union sg)).
      * apply Forall_forall. intros v Hv. apply in_app_or in Hv as [Hv|Hv].
        -- eapply (typed_objvals _ _ l); eauto. simpl; auto.
        -- eapply (typed_objvals _ _ r); eauto. simpl; auto.
      * destruct (N.eqb nm (sg_coalesce sg)).
        -- destruct (if is_object (av_ty l) then av_vs l else []) as [|w ws] eqn:El.
           ++ apply Forall_forall. intros v Hv. eapply (typed_objvals _ _ r); eauto. simpl; auto.
           ++ apply Forall_forall. intros v Hv. eapply (typed_objvals _ _ l); eauto.
              rewrite El. exact Hv. simpl; auto.
        -- rewrite Eif. apply typed_nil.
  - inversion H; subst. eapply apply_bcall_sound; eauto.
Qed.

Lemma compile_call_sound : forall nm argvs kwvs t vs,
  Forall av_typed argvs -> Forall (fun k => av_typed (snd k)) kwvs ->
  compile_call' nm argvs kwvs = Ok (t, true, vs) -> typed t vs.
Proof.
  intros nm argvs kwvs t vs Ha Hk H. unfold compile_call in H.
  destruct (existsb is_union (map av_ty argvs) || existsb (fun kv => is_union (av_ty (snd kv))) kwvs);
    [discriminate|].
  destruct (callables_named sg nm false) as [|f fs]; [discriminate|].
  unfold bind in H. dres H.
  destruct a as [|c [|c2 m2]]; try discriminate.
  eapply apply_bcall_sound; eauto.
Qed.

Definition res_typed (d : res (argv * bool)) : Prop := forall a, d = Ok (a, true) -> av_typed a.

Lemma balance_unfold : forall fuel l,
  balance' fuel l =
  match fuel with
  | O => Err EInternal
  | S fuel' =>
      match l with
      | [] => Err EInternal
      | [d] => d
      | _ =>
          let mid := Nat.div2 (length l) in
          lt <- balance' fuel' (firstn mid l) ;;
          rt <- balance' fuel' (skipn mid l) ;;
          r <- compile_operator' (sg_union sg) [fst lt; fst rt] ;;
          let '(t, clean, vs) := r in
          Ok (mk_argv (mk_argd t false false) vs, clean && snd lt && snd rt)
      end
  end.
Proof. destruct fuel; reflexivity. Qed.

Lemma balance_sound : forall fuel l a,
  Forall res_typed l -> balance' fuel l = Ok (a, true) -> av_typed a.
Proof.
  induction fuel; intros l a HF H; rewrite balance_unfold in H; [discriminate|].
  destruct l as [|d [|d2 l']]; [discriminate| |].
  - inversion HF; subst. auto.
  - remember (d :: d2 :: l') as L.
    cbv zeta in H. unfold bind in H.
    rewrite <- (firstn_skipn (Nat.div2 (length L)) L) in HF. apply Forall_app in HF as [HF1 HF2].
    destruct (balance' fuel (firstn (Nat.div2 (length L)) L)) as [[la lc]|] eqn:E1; [|discriminate].
    destruct (balance' fuel (skipn (Nat.div2 (length L)) L)) as [[ra rc]|] eqn:E2; [|discriminate].
    simpl in H.
    destruct (compile_operator' (sg_union sg) [la; ra]) as [[[t clean] vs]|] eqn:E3; [|discriminate].
    inversion H; subst. clear H.
    apply andb_true_iff in H2 as [H2 Hrc]. apply andb_true_iff in H2 as [Hcl Hlc]. subst.
    unfold av_typed. simpl.
    eapply compile_operator_sound; [|exact E3].
    constructor; [exact (IHfuel _ la HF1 E1)|]. constructor; [exact (IHfuel _ ra HF2 E2)|constructor].
Qed.

Lemma varr_typed : forall t l, typed t l -> has_type sg (VArr l) (TArr t) = true.
Proof.
  intros t l H. simpl. induction H; auto. rewrite H. simpl. exact IHForall.
Qed.

Lemma has_type_varr_inv : forall l t, has_type sg (VArr l) (TArr t) = true -> typed t l.
Proof.
  intros l t H. simpl in H. induction l; [constructor|].
  apply andb_true_iff in H as [H1 H2]. constructor; auto. apply IHl. exact H2.
Qed.

Lemma coerce_typed : forall from to vs, typed from vs -> typed to (coerce sg castv from to vs).
Proof.
  intros from to vs H. unfold coerce.
  destruct (compat sg to from && shape_ok to from) eqn:E.
  - apply andb_true_iff in E as [Ec Es]. unfold compat in Ec. apply andb_true_iff in Ec as [Ei _].
    eapply Forall_impl; [|exact H]. intros v Hv. eapply has_type_sub; eauto.
  - apply typed_flat_map. intros. apply Hcast.
Qed.

Lemma tuple_value_typed : forall named (rs : list (N * (ty * bool * list value))) l,
  Forall (fun r => typed (fst (fst (snd r))) (snd (snd r))) rs ->
  Forall2 (fun x xs => In x xs) l (map (fun r => snd (snd r)) rs) ->
  has_type sg (tuple_value named (map fst rs) l)
           (TTup named (map (fun r => (fst r, fst (fst (snd r)))) rs)) = true.
Proof.
  intros named rs l HF H2. unfold tuple_value. simpl. rewrite Bool.eqb_reflx. simpl.
  revert l H2. induction HF; intros l0 H2; simpl in H2.
  - inversion H2. reflexivity.
  - inversion H2 as [|v xs l' ? Hin H3]; subst. simpl.
    destruct x as [n [[t c] vs]]. simpl in *.
    rewrite N.eqb_refl. simpl.
    unfold typed in H. rewrite Forall_forall in H. rewrite (H v Hin). simpl. apply IHHF. exact H3.
Qed.

Lemma tuple_align : forall vs' els,
  (fix go (l : list (N * value)) (r : list (N * ty)) {struct l} : bool :=
     match l, r with
     | [], [] => true
     | (i, x) :: l', (j, y) :: r' => N.eqb i j && has_type sg x y && go l' r'
     | _, _ => false
     end) vs' els = true ->
  Forall2 (fun a b => fst a = fst b /\ has_type sg (snd a) (snd b) = true) vs' els.
Proof.
  induction vs' as [|[i x] vs']; intros [|[j y] els] H; try discriminate; constructor.
  - apply andb_true_iff in H as [H H2]. apply andb_true_iff in H as [H0 H1].
    apply N.eqb_eq in H0. simpl. auto.
  - apply andb_true_iff in H as [H H2]. auto.
Qed.

Lemma has_type_tup_inv : forall v named els,
  has_type sg v (TTup named els) = true ->
  exists n vs', v = VTup n vs' /\
    Forall2 (fun a b => fst a = fst b /\ has_type sg (snd a) (snd b) = true) vs' els.
Proof.
  intros v named els H. destruct v; simpl in H; try discriminate.
  apply andb_true_iff in H as [_ H]. eexists; eexists; split; [reflexivity|].
  apply tuple_align. exact H.
Qed.

Lemma proj_pos_typed : forall named els k i x vs,
  typed (TTup named els) vs -> nth_error els k = Some (i, x) ->
  typed x (flat_map (proj_pos k) vs).
Proof.
  intros named els k i x vs H Hn. apply typed_flat_map. intros v Hv.
  unfold typed in H. rewrite Forall_forall in H. specialize (H v Hv).
  apply has_type_tup_inv in H as [n [vs' [-> HF]]]. simpl.
  destruct (nth_error vs' k) as [[j w]|] eqn:E; [|constructor].
  constructor; [|constructor].
  clear -HF Hn E. revert k Hn E. induction HF; intros k Hn E; destruct k; simpl in *; try discriminate.
  - inversion Hn; inversion E; subst. destruct H as [_ H]. exact H.
  - eauto.
Qed.

Lemma proj_name_typed : forall named els n x vs,
  typed (TTup named els) vs -> assoc n els = Some x ->
  typed x (flat_map (proj_name n) vs).
Proof.
  intros named els n x vs H Hn. apply typed_flat_map. intros v Hv.
  unfold typed in H. rewrite Forall_forall in H. specialize (H v Hv).
  apply has_type_tup_inv in H as [m [vs' [-> HF]]]. simpl.
  destruct (assoc n vs') as [w|] eqn:E; [|constructor].
  constructor; [|constructor].
  clear -HF Hn E. induction HF; simpl in *; try discriminate.
  destruct x0 as [i a], y as [j b]. destruct H as [H1 H2]. simpl in *. subst.
  destruct (N.eqb n j).
  - inversion Hn; inversion E; subst. exact H2.
  - auto.
Qed.

Lemma index_value_typed : forall t ti rt vs vis,
  infer_index sg s_int64 t ti = Ok rt -> typed t vs ->
  typed rt (flat_map (fun v => flat_map (index_value idxp rt v) vis) vs).
Proof.
  intros t ti rt vs vis Hi Hv. apply typed_flat_map. intros v Hin.
  apply typed_flat_map. intros iv _.
  unfold typed in Hv. rewrite Forall_forall in Hv. specialize (Hv v Hin).
  destruct v; simpl; try apply Hidx.
  destruct iv; try apply typed_nil.
  destruct (payload <? 0)%Z; [apply typed_nil|].
  destruct (nth_error vs0 (Z.to_nat payload)) as [w|] eqn:E; [|apply typed_nil].
  constructor; [|constructor].
  apply nth_error_In in E.
  destruct t; simpl in Hv; try discriminate.
  - (* TAny *) unfold infer_index in Hi. simpl in Hi. inversion Hi. apply has_type_any.
  - (* TArr *)
    unfold infer_index in Hi. simpl in Hi.
    destruct (impl_castable sg ti (TS s_int64)); inversion Hi; subst.
    apply has_type_varr_inv in Hv. unfold typed in Hv. rewrite Forall_forall in Hv. auto.
Qed.

Lemma cart_coerce_typed : forall (rs : list (ty * bool * list value)) tc,
  Forall (fun r => typed (fst (fst r)) (snd r)) rs ->
  forall cl, Forall2 (fun x xs => In x xs) cl
                     (map (fun r => coerce sg castv (fst (fst r)) tc (snd r)) rs) ->
  typed tc cl.
Proof.
  induction 1; intros cl Hl; simpl in Hl; inversion Hl; subst; constructor.
  - pose proof (coerce_typed _ tc _ H) as Hc. unfold typed in Hc. rewrite Forall_forall in Hc.
    apply Hc. assumption.
  - apply IHForall. assumption.
Qed.

Notation farg := (fun x => r <- run' x ;; Ok (as_arg x r)).

Definition sound_e (e : expr) : Prop := forall t vs, run' e = Ok (t, true, vs) -> typed t vs.

Lemma farg_typed : forall e, sound_e e -> res_typed (farg e).
Proof.
  intros e He a H. unfold bind in H.
  destruct (run' e) as [[[t c] vs]|] eqn:E; [|discriminate].
  simpl in H. inversion H; subst. unfold av_typed. simpl. apply He. exact E.
Qed.

Lemma mapM_farg_typed : forall es rs,
  Forall sound_e es -> mapM farg es = Ok rs -> forallb snd rs = true ->
  Forall av_typed (map fst rs).
Proof.
  intros es rs HF HM Hc. apply mapM_ok in HM.
  induction HM; simpl; [constructor|].
  inversion HF; subst. simpl in Hc. apply andb_true_iff in Hc as [Hc1 Hc2].
  constructor; auto. destruct y as [a c]. simpl in *. subst.
  eapply farg_typed; eauto.
Qed.

Lemma set_elem_nonset : forall (f : expr -> res (argv * bool)) e,
  (forall es, e <> ESet es) -> e <> EEmpty -> set_elem f e = [f e].
Proof. intros f e H1 H2. destruct e; try reflexivity; [congruence|exfalso; eapply H1; eauto]. Qed.

Definition Q (e : expr) : Prop := sound_e e /\ Forall res_typed (set_elem farg e).

Lemma Q_of_sound : forall e, (forall es, e <> ESet es) -> e <> EEmpty -> sound_e e -> Q e.
Proof.
  intros e H1 H2 Hs. split; auto. rewrite set_elem_nonset; auto.
  constructor; [apply farg_typed; auto|constructor].
Qed.

Lemma flat_map_set_elem : forall es, Forall Q es ->
  Forall res_typed (flat_map (set_elem farg) es).
Proof.
  induction 1; simpl; [constructor|]. apply Forall_app. split; auto. apply H.
Qed.

Theorem run_sound_Q : forall e, Q e.
Proof.
  induction e using expr_ind'.
  - (* ELit *)
    apply Q_of_sound; try congruence. intros t vs H. simpl in H.
    destruct (sc_is_abstract sg s); inversion H; subst.
    constructor; [|constructor]. simpl. apply sc_sub_refl.
  - (* EEmpty *)
    split; [|simpl; constructor]. intros t vs H. simpl in H. inversion H. apply typed_nil.
  - (* ECast *)
    apply Q_of_sound; try congruence. destruct IHe as [IHe _].
    intros t0 vs H. simpl in H. unfold bind in H.
    destruct (run' e) as [[[a c] vs1]|] eqn:E; [|discriminate].
    destruct (cast_ok sg cast_fuel2 true _ t); [|discriminate].
    inversion H; subst. clear H.
    destruct (ty_eqb a t0) eqn:Eq.
    + apply ty_eqb_eq in Eq. subst. apply IHe. exact E.
    + apply typed_flat_map. intros. apply Hcast.
  - (* ETuple *)
    apply Q_of_sound; try congruence.
    intros t vs H0. simpl in H0.
    destruct (n && has_dup (map fst els)); [discriminate|]. unfold bind in H0.
    destruct (mapM _ els) as [rs|] eqn:EM; [|discriminate].
    inversion H0; subst. clear H0.
    apply mapM_ok in EM.
    assert (HT : Forall (fun r => typed (fst (fst (snd r))) (snd (snd r))) rs).
    { clear -EM H H3. induction EM; [constructor|].
      inversion H; subst. simpl in H3. apply andb_true_iff in H3 as [Hc1 Hc2].
      constructor; auto.
      unfold bind in H0. destruct (run' (snd x)) as [[[t c] vs]|] eqn:E; [|discriminate].
      inversion H0; subst. simpl in *. subst. destruct H4 as [H4 _]. apply H4. exact E. }
    apply Forall_forall. intros v Hv. apply in_map_iff in Hv as [l [<- Hl]].
    apply cartesian_In in Hl. apply tuple_value_typed; auto.
  - (* EArray *)
    apply Q_of_sound; try congruence.
    intros t vs H0. simpl in H0. unfold bind in H0.
    destruct (mapM run' es) as [rs|] eqn:EM; [|discriminate].
    destruct (existsb is_array (map (fun r => fst (fst r)) rs)); [discriminate|].
    apply mapM_ok in EM.
    destruct rs as [|r0 rs'].
    + simpl in H0. inversion H0; subst. constructor; [reflexivity|constructor].
    + remember (r0 :: rs') as rs.
      assert (Hne : map (fun r => fst (fst r)) rs <> []) by (subst; simpl; congruence).
      destruct (map (fun r => fst (fst r)) rs) eqn:Em; [congruence|]. rewrite <- Em in H0.
      destruct (infer_common_type sg (map (fun r => fst (fst r)) rs)) as [tc|] eqn:Ei; [|discriminate].
      inversion H0; subst t vs. clear H0.
      assert (HT : Forall (fun r => typed (fst (fst r)) (snd r)) rs).
      { clear -EM H H3. induction EM; [constructor|].
        inversion H; subst. simpl in H3. apply andb_true_iff in H3 as [Hc1 Hc2].
        constructor; auto. destruct y as [[t c] vs]. simpl in *. subst.
        destruct H4 as [H4 _]. apply H4. exact H0. }
      apply Forall_forall. intros v Hv. apply in_map_iff in Hv as [cl [<- Hl]].
      apply cartesian_In in Hl. apply varr_typed.
      eapply cart_coerce_typed; eauto.
  - (* ESet *)
    assert (HF : Forall res_typed (flat_map (set_elem farg) es)) by (apply flat_map_set_elem; auto).
    split.
    + intros t vs H0. simpl in H0.
      destruct (flat_map (set_elem farg) es) as [|d [|d2 ds]] eqn:Ed.
      * inversion H0. apply typed_nil.
      * unfold bind in H0. destruct d as [[a c]|]; [|discriminate].
        simpl in H0. inversion H0; subst. inversion HF; subst. apply (H3 a). reflexivity.
      * unfold bind in H0.
        destruct (balance' (S (length (d :: d2 :: ds))) (d :: d2 :: ds)) as [[a c]|] eqn:Eb;
          [|discriminate].
        simpl in H0. inversion H0; subst.
        eapply balance_sound; eauto.
    + simpl. clear -H. induction H; simpl; [constructor|]. apply Forall_app. split; auto. apply H.
  - (* EOp *)
    apply Q_of_sound; try congruence.
    intros t vs H0. simpl in H0. unfold bind in H0.
    destruct (mapM _ es) as [rs|] eqn:EM; [|discriminate].
    change (mapM farg es = Ok rs) in EM.
    destruct (compile_operator' o (map fst rs)) as [[[t0 c0] vs0]|] eqn:Ec; [|discriminate].
    inversion H0; subst. clear H0.
    apply andb_true_iff in H3 as [Hc0 Hrs]. subst.
    eapply compile_operator_sound; [|exact Ec].
    apply (mapM_farg_typed es rs); auto.
    eapply Forall_impl; [|exact H]. intros a [Ha _]. exact Ha.
  - (* ECall *)
    apply Q_of_sound; try congruence.
    intros t vs H1. simpl in H1. unfold bind in H1.
    destruct (mapM _ es) as [rs|] eqn:EM; [|discriminate].
    change (mapM farg es = Ok rs) in EM.
    destruct (mapM _ kw) as [ks|] eqn:EK; [|discriminate].
    destruct (compile_call' f (map fst rs) _) as [[[t0 c0] vs0]|] eqn:Ec; [|discriminate].
    inversion H1; subst. clear H1.
    apply andb_true_iff in H4 as [H4 Hks]. apply andb_true_iff in H4 as [Hc0 Hrs]. subst.
    eapply compile_call_sound; [| |exact Ec].
    + apply (mapM_farg_typed es rs); auto.
      eapply Forall_impl; [|exact H]. intros a [Ha _]. exact Ha.
    + apply mapM_ok in EK. clear -EK H0 Hks. rewrite Forall_map.
      induction EK; [constructor|]. inversion H0; subst.
      simpl in Hks. apply andb_true_iff in Hks as [Hk1 Hk2].
      constructor; auto. simpl.
      unfold bind in H. destruct (run' (snd x)) as [[[t c] vs]|] eqn:E; [|discriminate].
      inversion H; subst. simpl in *. subst. unfold av_typed. simpl.
      destruct H3 as [H3 _]. apply H3. exact E.
  - (* ETupIdx *)
    apply Q_of_sound; try congruence. destruct IHe as [IHe _].
    intros t vs H. simpl in H. unfold bind in H.
    destruct (run' e) as [[[t0 c] vs0]|] eqn:E; [|discriminate].
    destruct t0; try discriminate.
    destruct (n <? 32)%N.
    + destruct (nth_error els (N.to_nat n)) as [[i x]|] eqn:En; [|discriminate].
      inversion H; subst. eapply proj_pos_typed; eauto.
    + destruct named; [|discriminate].
      destruct (assoc n els) as [x|] eqn:En; [|discriminate].
      inversion H; subst. eapply proj_name_typed; eauto.
  - (* EIndex *)
    apply Q_of_sound; try congruence. destruct IHe1 as [IH1 _].
    intros t vs H. simpl in H. unfold bind in H.
    destruct (run' e1) as [[[t1 c1] vs1]|] eqn:E1; [|discriminate].
    destruct (run' e2) as [[[t2 c2] vs2]|] eqn:E2; [|discriminate].
    destruct (infer_index sg s_int64 t1 t2) as [rt|] eqn:Ei; [|discriminate].
    inversion H; subst. apply andb_true_iff in H2 as [Hc1 Hc2]. subst.
    eapply index_value_typed; eauto.
  - (* EObj *)
    apply Q_of_sound; try congruence. intros t vs H. simpl in H. inversion H; subst. apply Hdb.
Qed.

Theorem run_sound : forall e t vs, run' e = Ok (t, true, vs) -> typed t vs.
Proof. intros e. apply (run_sound_Q e). Qed.

End Sound.

(* ------------------------------------------------------------------ the generated table *)
From Verif.C12 Require Import Gen_StdSig.

Lemma std_sig_wf : sig_wf std_sig = true.
Proof. vm_compute. reflexivity. Qed.

(* the non-abstract scalar types of the std library (abstract scalars such as anyreal never type
   an expression of a query; they only occur in signatures) *)
Definition std_scalar_ids : list N :=
  map sc_id (filter (fun d => negb (sc_abstract d)) (sg_scalars std_sig)).

Definition ub (s : N) (c : ty) : bool := issub std_sig (TS s) c || impl_castable std_sig (TS s) c.

Definition opt_ty_eqb (a b : option ty) : bool :=
  match a, b with
  | Some x, Some y => ty_eqb x y
  | None, None => true
  | _, _ => false
  end.

Lemma opt_ty_eqb_eq : forall a b, opt_ty_eqb a b = true -> a = b.
Proof.
  destruct a, b; simpl; intros; try discriminate; auto. apply ty_eqb_eq in H. subst. auto.
Qed.

Definition all_pairs (p : N -> N -> bool) : bool :=
  forallb (fun s => forallb (fun q => p s q) std_scalar_ids) std_scalar_ids.

Lemma all_pairs_spec : forall p, all_pairs p = true ->
  forall s q, In s std_scalar_ids -> In q std_scalar_ids -> p s q = true.
Proof.
  unfold all_pairs. intros p H s q Hs Hq. rewrite forallb_forall in H. specialize (H s Hs).
  rewrite forallb_forall in H. auto.
Qed.

Lemma std_common_upper_bound_b :
  all_pairs (fun s q => match find_common std_sig (TS s) (TS q) with
                        | Some c => ub s c && ub q c
                        | None => true end) = true.
Proof. vm_compute. reflexivity. Qed.

Lemma std_common_upper_bound :
  forall s q c, In s std_scalar_ids -> In q std_scalar_ids ->
  find_common std_sig (TS s) (TS q) = Some c ->
  (issub std_sig (TS s) c || impl_castable std_sig (TS s) c) = true /\
  (issub std_sig (TS q) c || impl_castable std_sig (TS q) c) = true.
Proof.
  intros s q c Hs Hq H.
  pose proof (all_pairs_spec _ std_common_upper_bound_b s q Hs Hq) as P. cbv beta in P.
  rewrite H in P. apply andb_true_iff in P. exact P.
Qed.

Lemma std_common_symmetric_b :
  all_pairs (fun s q => opt_ty_eqb (find_common std_sig (TS s) (TS q))
                                   (find_common std_sig (TS q) (TS s))) = true.
Proof. vm_compute. reflexivity. Qed.

Lemma std_common_symmetric :
  forall s q, In s std_scalar_ids -> In q std_scalar_ids ->
  find_common std_sig (TS s) (TS q) = find_common std_sig (TS q) (TS s).
Proof.
  intros s q Hs Hq. apply opt_ty_eqb_eq.
  exact (all_pairs_spec _ std_common_symmetric_b s q Hs Hq).
Qed.

Definition rot1 (l : list ty) : list ty := match l with [] => [] | x :: l' => l' ++ [x] end.

Lemma std_common_order_independent_b :
  all_pairs (fun s q =>
    opt_ty_eqb (common_castable_g std_sig (@rev ty) cast_fuel (TS s) (TS q))
               (common_castable std_sig cast_fuel (TS s) (TS q))
    && opt_ty_eqb (common_castable_g std_sig rot1 cast_fuel (TS s) (TS q))
                  (common_castable std_sig cast_fuel (TS s) (TS q))) = true.
Proof. vm_compute. reflexivity. Qed.

Lemma std_common_order_independent :
  forall s q, In s std_scalar_ids -> In q std_scalar_ids ->
  common_castable_g std_sig (@rev ty) cast_fuel (TS s) (TS q) = common_castable std_sig cast_fuel (TS s) (TS q) /\
  common_castable_g std_sig rot1 cast_fuel (TS s) (TS q) = common_castable std_sig cast_fuel (TS s) (TS q).
Proof.
  intros s q Hs Hq.
  pose proof (all_pairs_spec _ std_common_order_independent_b s q Hs Hq) as P. cbv beta in P.
  apply andb_true_iff in P as [P1 P2]. split; apply opt_ty_eqb_eq; assumption.
Qed.

(* ------------------------------------------------------------------ an example semantics *)

(* a primitive that returns its first argument set when the first parameter's (instantiated)
   type is the (instantiated) return type, nothing otherwise *)
Definition prim_ex (bc : bcall) (vals : list (list value)) : list value :=
  match bc_args bc, vals with
  | b :: _, vs :: _ => if ty_eqb (barg_target b) (bc_ret bc) then vs else []
  | _, _ => []
  end.
(* scalar casts re-tag the payload *)
Definition castv_ex (a b : ty) (v : value) : list value :=
  match b, v with TS q, VS _ p => [VS q p] | _, _ => [] end.
Definition idxp_ex (t : ty) (v i : value) : list value := [].
Definition db_ex (o : N) : list value := [VObj o 1%N; VObj o 2%N].

Lemma example_semantics_ok_gen : forall sg,
  (forall bc vals,
      Forall2 (fun vs b => typed sg (barg_target b) vs) vals (bc_args bc) ->
      typed sg (bc_ret bc) (prim_ex bc vals)) /\
  (forall a b v, typed sg b (castv_ex a b v)) /\
  (forall t v i, typed sg t (idxp_ex t v i)) /\
  (forall o, typed sg (TObj o) (db_ex o)).
Proof.
  intros sg. repeat split.
  - intros bc vals H. unfold prim_ex. inversion H; subst; [constructor|].
    destruct (ty_eqb (barg_target y) (bc_ret bc)) eqn:E; [|constructor].
    apply ty_eqb_eq in E. rewrite <- E. assumption.
  - intros a b v. unfold castv_ex. destruct b; try constructor. destruct v; try constructor.
    + simpl. apply sc_sub_refl.
    + constructor.
  - constructor.
  - intros o. unfold db_ex. repeat constructor; simpl; apply ob_sub_refl.
Qed.

Lemma example_semantics_ok :
  (forall bc vals,
      Forall2 (fun vs b => typed std_sig (barg_target b) vs) vals (bc_args bc) ->
      typed std_sig (bc_ret bc) (prim_ex bc vals)) /\
  (forall a b v, typed std_sig b (castv_ex a b v)) /\
  (forall t v i, typed std_sig t (idxp_ex t v i)) /\
  (forall o, typed std_sig (TObj o) (db_ex o)).
Proof. exact (example_semantics_ok_gen std_sig). Qed.
