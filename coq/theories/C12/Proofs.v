(* C12 — lemmas.  Statements of the property are in Props.v. *)
From Coq Require Import List NArith ZArith Bool Lia Permutation.
From Verif.C12 Require Import Model.
Import ListNotations.

(* ------------------------------------------------------------------ induction principles *)

Section TyInd.
Variable P : ty -> Prop.
Hypothesis HS : forall s, P (TS s).
Hypothesis HAny : P TAny.
Hypothesis HAnyT : P TAnyTuple.
Hypothesis HAnyO : P TAnyObject.
Hypothesis HArr : forall t, P t -> P (TArr t).
Hypothesis HTup : forall n els, Forall (fun p => P (snd p)) els -> P (TTup n els).
Hypothesis HRng : forall t, P t -> P (TRng t).
Hypothesis HMRng : forall t, P t -> P (TMRng t).
Hypothesis HObj : forall o, P (TObj o).
Hypothesis HUnion : forall os, P (TUnion os).

Fixpoint ty_ind' (t : ty) : P t :=
  match t with
  | TS s => HS s
  | TAny => HAny
  | TAnyTuple => HAnyT
  | TAnyObject => HAnyO
  | TArr e => HArr e (ty_ind' e)
  | TTup n els =>
      HTup n els ((fix go (l : list (N * ty)) : Forall (fun p => P (snd p)) l :=
                     match l with
                     | [] => Forall_nil _
                     | p :: l' => Forall_cons p (ty_ind' (snd p)) (go l')
                     end) els)
  | TRng e => HRng e (ty_ind' e)
  | TMRng e => HMRng e (ty_ind' e)
  | TObj o => HObj o
  | TUnion os => HUnion os
  end.
End TyInd.

Section ValueInd.
Variable P : value -> Prop.
Hypothesis HS : forall s p, P (VS s p).
Hypothesis HTup : forall n els, Forall (fun p => P (snd p)) els -> P (VTup n els).
Hypothesis HArr : forall vs, Forall P vs -> P (VArr vs).
Hypothesis HRng : forall vs, Forall P vs -> P (VRng vs).
Hypothesis HMRng : forall vs, Forall P vs -> P (VMRng vs).
Hypothesis HObj : forall o i, P (VObj o i).

Fixpoint value_ind' (v : value) : P v :=
  match v with
  | VS s p => HS s p
  | VTup n els =>
      HTup n els ((fix go (l : list (N * value)) : Forall (fun p => P (snd p)) l :=
                     match l with
                     | [] => Forall_nil _
                     | p :: l' => Forall_cons p (value_ind' (snd p)) (go l')
                     end) els)
  | VArr vs => HArr vs ((fix go (l : list value) : Forall P l :=
                           match l with
                           | [] => Forall_nil _
                           | x :: l' => Forall_cons x (value_ind' x) (go l')
                           end) vs)
  | VRng vs => HRng vs ((fix go (l : list value) : Forall P l :=
                           match l with
                           | [] => Forall_nil _
                           | x :: l' => Forall_cons x (value_ind' x) (go l')
                           end) vs)
  | VMRng vs => HMRng vs ((fix go (l : list value) : Forall P l :=
                             match l with
                             | [] => Forall_nil _
                             | x :: l' => Forall_cons x (value_ind' x) (go l')
                             end) vs)
  | VObj o i => HObj o i
  end.
End ValueInd.

Section ExprInd.
Variable P : expr -> Prop.
Hypothesis HLit : forall s, P (ELit s).
Hypothesis HEmpty : P EEmpty.
Hypothesis HCast : forall t e, P e -> P (ECast t e).
Hypothesis HTuple : forall n els, Forall (fun p => P (snd p)) els -> P (ETuple n els).
Hypothesis HArray : forall es, Forall P es -> P (EArray es).
Hypothesis HSet : forall es, Forall P es -> P (ESet es).
Hypothesis HOp : forall o es, Forall P es -> P (EOp o es).
Hypothesis HCall : forall f es kw, Forall P es -> Forall (fun p => P (snd p)) kw -> P (ECall f es kw).
Hypothesis HTupIdx : forall e n, P e -> P (ETupIdx e n).
Hypothesis HIndex : forall e i, P e -> P i -> P (EIndex e i).
Hypothesis HObj : forall o, P (EObj o).
Hypothesis HPtr : forall e p, P e -> P (EPtr e p).

Fixpoint expr_ind' (e : expr) : P e :=
  let fix go (l : list expr) : Forall P l :=
      match l with
      | [] => Forall_nil _
      | x :: l' => Forall_cons x (expr_ind' x) (go l')
      end in
  let fix gop (l : list (N * expr)) : Forall (fun p => P (snd p)) l :=
      match l with
      | [] => Forall_nil _
      | p :: l' => Forall_cons p (expr_ind' (snd p)) (gop l')
      end in
  match e with
  | ELit s => HLit s
  | EEmpty => HEmpty
  | ECast t e1 => HCast t e1 (expr_ind' e1)
  | ETuple n els => HTuple n els (gop els)
  | EArray es => HArray es (go es)
  | ESet es => HSet es (go es)
  | EOp o es => HOp o es (go es)
  | ECall f es kw => HCall f es kw (go es) (gop kw)
  | ETupIdx e1 n => HTupIdx e1 n (expr_ind' e1)
  | EIndex e1 i => HIndex e1 i (expr_ind' e1) (expr_ind' i)
  | EObj o => HObj o
  | EPtr e1 p => HPtr e1 p (expr_ind' e1)
  end.
End ExprInd.

(* ------------------------------------------------------------------ basic facts *)

Lemma list_eqb_N_eq : forall l m, list_eqb N.eqb l m = true -> l = m.
Proof.
  induction l; destruct m; simpl; intros; try discriminate; auto.
  apply andb_true_iff in H as [H1 H2]. apply N.eqb_eq in H1. subst. f_equal; auto.
Qed.

Lemma ty_eqb_eq : forall a b, ty_eqb a b = true -> a = b.
Proof.
  induction a using ty_ind'; destruct b; simpl; intros E; try discriminate; auto.
  - apply N.eqb_eq in E; subst; auto.
  - f_equal; auto.
  - apply andb_true_iff in E as [E1 E2]. apply Bool.eqb_prop in E1. subst. f_equal.
    revert els0 E2. induction H; destruct els0; intros; try discriminate; auto.
    + destruct x; discriminate.
    + destruct x as [i x], p as [j y].
      apply andb_true_iff in E2 as [E2 E3]. apply andb_true_iff in E2 as [E1 E2].
      apply N.eqb_eq in E1. simpl in H. apply H in E2. subst. f_equal. apply IHForall; auto.
  - f_equal; auto.
  - f_equal; auto.
  - apply N.eqb_eq in E; subst; auto.
  - apply list_eqb_N_eq in E; subst; auto.
Qed.

Lemma memN_In : forall x l, memN x l = true <-> In x l.
Proof.
  unfold memN. intros. rewrite existsb_exists. split.
  - intros [y [Hy E]]. apply N.eqb_eq in E. subst; auto.
  - intros. exists x. split; auto. apply N.eqb_refl.
Qed.

(* ------------------------------------------------------------------ well-formed signatures *)

(* the ancestor table is transitively closed (true of every schema: get_ancestors is the
   full linearised lineage) and irreflexive *)
Definition anc_closed (anc : N -> list N) (ids : list N) : bool :=
  forallb (fun s => forallb (fun a => forallb (fun b => memN b (anc s)) (anc a)) (anc s)) ids.

Definition anc_irrefl (anc : N -> list N) (ids : list N) : bool :=
  forallb (fun s => negb (memN s (anc s))) ids.

Definition sig_wf (sg : sig) : bool :=
  anc_closed (sc_ancestors sg) (map sc_id (sg_scalars sg))
  && anc_closed (ob_ancestors sg) (map ob_id (sg_objtypes sg))
  && anc_irrefl (ob_ancestors sg) (map ob_id (sg_objtypes sg)).

Section WF.
Variable sg : sig.
Hypothesis WF : sig_wf sg = true.

Lemma find_scalar_in_id : forall l s d, find_scalar_in l s = Some d -> In s (map sc_id l).
Proof.
  induction l; simpl; intros; try discriminate.
  destruct (N.eqb (sc_id a) s) eqn:E.
  - apply N.eqb_eq in E. auto.
  - right. eauto.
Qed.

Lemma find_obj_in_id : forall l o d, find_obj_in l o = Some d -> In o (map ob_id l).
Proof.
  induction l; simpl; intros; try discriminate.
  destruct (N.eqb (ob_id a) o) eqn:E.
  - apply N.eqb_eq in E. auto.
  - right. eauto.
Qed.

Lemma sc_anc_closed : forall s a b, In a (sc_ancestors sg s) -> In b (sc_ancestors sg a) ->
  In b (sc_ancestors sg s).
Proof.
  intros s a b Ha Hb.
  unfold sig_wf in WF. apply andb_true_iff in WF as [W _]. apply andb_true_iff in W as [W _].
  unfold anc_closed in W. rewrite forallb_forall in W.
  assert (Hs : In s (map sc_id (sg_scalars sg))).
  { unfold sc_ancestors, find_scalar in Ha.
    destruct (find_scalar_in (sg_scalars sg) s) eqn:E; [|inversion Ha].
    eapply find_scalar_in_id; eauto. }
  specialize (W s Hs). rewrite forallb_forall in W. specialize (W a Ha).
  rewrite forallb_forall in W. apply memN_In. auto.
Qed.

Lemma ob_anc_closed : forall s a b, In a (ob_ancestors sg s) -> In b (ob_ancestors sg a) ->
  In b (ob_ancestors sg s).
Proof.
  intros s a b Ha Hb.
  unfold sig_wf in WF. apply andb_true_iff in WF as [W _]. apply andb_true_iff in W as [_ W].
  unfold anc_closed in W. rewrite forallb_forall in W.
  assert (Hs : In s (map ob_id (sg_objtypes sg))).
  { unfold ob_ancestors in Ha.
    destruct (find_obj_in (sg_objtypes sg) s) eqn:E; [|inversion Ha].
    eapply find_obj_in_id; eauto. }
  specialize (W s Hs). rewrite forallb_forall in W. specialize (W a Ha).
  rewrite forallb_forall in W. apply memN_In. auto.
Qed.

Lemma sc_sub_refl : forall s, sc_sub sg s s = true.
Proof. intros. unfold sc_sub. rewrite N.eqb_refl. auto. Qed.

Lemma ob_sub_refl : forall s, ob_sub sg s s = true.
Proof. intros. unfold ob_sub. rewrite N.eqb_refl. auto. Qed.

Lemma sc_sub_trans : forall a b c, sc_sub sg a b = true -> sc_sub sg b c = true -> sc_sub sg a c = true.
Proof.
  unfold sc_sub. intros a b c H1 H2.
  apply orb_true_iff in H1 as [H1|H1]; [apply N.eqb_eq in H1; subst; auto|].
  apply orb_true_iff in H2 as [H2|H2]; [apply N.eqb_eq in H2; subst; rewrite H1; apply orb_true_r|].
  apply orb_true_iff. right. apply memN_In. apply memN_In in H1, H2. eapply sc_anc_closed; eauto.
Qed.

Lemma ob_sub_trans : forall a b c, ob_sub sg a b = true -> ob_sub sg b c = true -> ob_sub sg a c = true.
Proof.
  unfold ob_sub. intros a b c H1 H2.
  apply orb_true_iff in H1 as [H1|H1]; [apply N.eqb_eq in H1; subst; auto|].
  apply orb_true_iff in H2 as [H2|H2]; [apply N.eqb_eq in H2; subst; rewrite H1; apply orb_true_r|].
  apply orb_true_iff. right. apply memN_In. apply memN_In in H1, H2. eapply ob_anc_closed; eauto.
Qed.

(* ------------------------------------------------------------------ subsumption *)

Lemma has_type_any : forall v, has_type sg v TAny = true.
Proof. destruct v; reflexivity. Qed.

(* a value of type vt belongs to every type pt that vt is a subclass of, provided the tuple
   shapes agree (which issubclass / is_type_compatible do NOT check) *)
Lemma has_type_sub : forall v vt pt,
  issub sg vt pt = true -> shape_ok pt vt = true ->
  has_type sg v vt = true -> has_type sg v pt = true.
Proof.
  induction v using value_ind'; intros vt pt Hs Hsh Hv.
  - (* VS *)
    destruct pt; try (destruct vt; simpl in *; discriminate); try reflexivity;
    destruct vt; simpl in *; try discriminate.
    eapply sc_sub_trans; eauto.
  - (* VTup *)
    destruct pt; try reflexivity;
      try (destruct vt; simpl in *; try discriminate; fail).
    (* pt = TTup *)
    + destruct vt; simpl in Hv, Hs; try discriminate.
      * simpl in Hsh.
        apply andb_true_iff in Hv as [Hn Hv]. apply andb_true_iff in Hsh as [Hm Hsh].
        apply Bool.eqb_prop in Hn. apply Bool.eqb_prop in Hm. subst.
        simpl. rewrite Bool.eqb_reflx. simpl.
        revert els0 els1 Hs Hsh Hv.
        induction H; intros ts us Hs Hsh Hv.
        -- destruct us as [|[j y] us]; simpl in Hv; [|discriminate].
           destruct ts as [|[k z] ts]; simpl in Hsh; [reflexivity|discriminate].
        -- destruct x as [i x]. destruct us as [|[j y] us]; simpl in Hv; [discriminate|].
           destruct ts as [|[k z] ts]; simpl in Hsh; [discriminate|]. simpl in Hs.
           apply andb_true_iff in Hv as [Hv Hv2]. apply andb_true_iff in Hv as [Hi Hv].
           apply andb_true_iff in Hsh as [Hsh Hsh2]. apply andb_true_iff in Hsh as [Hk Hsh].
           apply andb_true_iff in Hs as [Hs Hs2].
           apply N.eqb_eq in Hi, Hk. subst.
           rewrite N.eqb_refl. simpl.
           rewrite (IHForall ts us); auto. rewrite andb_true_r.
           simpl in H.
           apply orb_true_iff in Hs as [Hs|Hs].
           ++ destruct z; try discriminate. apply has_type_any.
           ++ eapply H; eauto.
  - (* VArr *)
    destruct pt; try reflexivity; try (destruct vt; simpl in *; try discriminate; fail).
    destruct vt; simpl in Hv; try discriminate. simpl in Hs, Hsh. simpl.
    induction H; auto.
    apply andb_true_iff in Hv as [Hv1 Hv2]. rewrite IHForall; auto. rewrite andb_true_r.
    apply orb_true_iff in Hs as [Hs|Hs].
    + destruct pt; try discriminate. apply has_type_any.
    + eapply H; eauto.
  - (* VRng *)
    destruct pt; try reflexivity; try (destruct vt; simpl in *; try discriminate; fail).
    destruct vt; simpl in Hv; try discriminate. simpl in Hs, Hsh. simpl.
    induction H; auto.
    apply andb_true_iff in Hv as [Hv1 Hv2]. rewrite IHForall; auto. rewrite andb_true_r.
    apply orb_true_iff in Hs as [Hs|Hs].
    + destruct pt; try discriminate. apply has_type_any.
    + eapply H; eauto.
  - (* VMRng *)
    destruct pt; try reflexivity; try (destruct vt; simpl in *; try discriminate; fail).
    destruct vt; simpl in Hv; try discriminate. simpl in Hs, Hsh. simpl.
    induction H; auto.
    apply andb_true_iff in Hv as [Hv1 Hv2]. rewrite IHForall; auto. rewrite andb_true_r.
    eapply (H (TRng vt) (TRng pt)); eauto.
  - (* VObj *)
    destruct pt; try reflexivity; try (destruct vt; simpl in *; try discriminate; fail).
    + (* TObj *)
      destruct vt; simpl in *; try discriminate.
      * eapply ob_sub_trans; eauto.
      * apply existsb_exists in Hv as [q [Hq Hoq]]. rewrite forallb_forall in Hs.
        eapply ob_sub_trans; eauto.
    + (* TUnion *)
      destruct vt; simpl in *; try discriminate.
      * apply existsb_exists in Hs as [q [Hq Hoq]]. apply existsb_exists. exists q. split; auto.
        eapply ob_sub_trans; eauto.
      * apply existsb_exists in Hv as [q [Hq Hoq]].
        apply orb_true_iff in Hs as [Hs|Hs].
        -- apply list_eqb_N_eq in Hs. subst. apply existsb_exists. eauto.
        -- rewrite forallb_forall in Hs. specialize (Hs q Hq).
           apply existsb_exists in Hs as [r [Hr Hqr]]. apply existsb_exists. exists r. split; auto.
           eapply ob_sub_trans; eauto.
Qed.

End WF.

(* ------------------------------------------------------------------ generic list lemmas *)

Lemma mapM_ok : forall {A B} (f : A -> res B) l rs,
  mapM f l = Ok rs -> Forall2 (fun x r => f x = Ok r) l rs.
Proof.
  induction l; simpl; intros rs H.
  - inversion H. constructor.
  - unfold bind in H. destruct (f a) eqn:E; try discriminate.
    destruct (mapM f l) eqn:E2; try discriminate. inversion H; subst. constructor; auto.
Qed.

Lemma cartesian_In : forall {A} (ls : list (list A)) l,
  In l (cartesian ls) -> Forall2 (fun x xs => In x xs) l ls.
Proof.
  induction ls; simpl; intros l H.
  - destruct H as [H|[]]. subst. constructor.
  - apply in_flat_map in H as [x [Hx H]]. apply in_map_iff in H as [r [E Hr]]. subst.
    constructor; auto.
Qed.

Lemma filter_length_lt : forall {A} (p q : A -> bool) l x,
  (forall y, p y = true -> q y = true) -> In x l -> q x = true -> p x = false ->
  length (filter p l) < length (filter q l).
Proof.
  intros A p q l x Hpq. induction l; simpl; intros Hin Hq Hp; [contradiction|].
  assert (Hle : forall l', length (filter p l') <= length (filter q l')).
  { induction l'; simpl; auto. destruct (p a0) eqn:E.
    - rewrite (Hpq _ E). simpl. lia.
    - destruct (q a0); simpl; lia. }
  destruct Hin as [->|Hin].
  - rewrite Hq, Hp. simpl. specialize (Hle l). lia.
  - specialize (IHl Hin Hq Hp). destruct (p a) eqn:E.
    + rewrite (Hpq _ E). simpl. lia.
    + destruct (q a); simpl; lia.
Qed.

Lemma insert_sorted_In : forall x y l, In y (insert_sorted x l) <-> y = x \/ In y l.
Proof.
  induction l; simpl.
  - intuition.
  - destruct (N.eqb x a) eqn:E.
    + apply N.eqb_eq in E. subst. simpl. intuition.
    + destruct (N.ltb x a); simpl; [intuition|]. rewrite IHl. intuition.
Qed.

Lemma fold_insert_In : forall y l, In y (fold_right insert_sorted [] l) <-> In y l.
Proof.
  induction l; simpl; [tauto|]. rewrite insert_sorted_In, IHl. intuition.
Qed.

Lemma filter_length_le_aux : forall {A} (p : A -> bool) l, length (filter p l) <= length l.
Proof. induction l; simpl; auto. destruct (p a); simpl; lia. Qed.

(* ------------------------------------------------------------------ union types *)
Section UnionType.
Variable sg : sig.
Hypothesis WF : sig_wf sg = true.

Lemma ob_anc_irrefl : forall a, ~ In a (ob_ancestors sg a).
Proof.
  intros a Ha.
  unfold sig_wf in WF. apply andb_true_iff in WF as [_ W].
  unfold anc_irrefl in W. rewrite forallb_forall in W.
  assert (Hs : In a (map ob_id (sg_objtypes sg))).
  { unfold ob_ancestors in Ha.
    destruct (find_obj_in (sg_objtypes sg) a) eqn:E; [|inversion Ha].
    eapply find_obj_in_id; eauto. }
  specialize (W a Hs). apply negb_true_iff in W.
  apply memN_In in Ha. congruence.
Qed.

Definition above (comps : list N) (o : N) : N -> bool :=
  fun q => negb (N.eqb q o) && memN q (ob_ancestors sg o).

(* every component lies below a component that survives minimize_class_set_by_most_generic *)
Lemma maximal_above : forall comps n a,
  length (filter (above comps a) comps) <= n -> In a comps ->
  exists m, In m comps /\ ob_sub sg a m = true /\ existsb (above comps m) comps = false.
Proof.
  induction n; intros a Hlen Ha.
  - exists a. split; auto. split; [apply ob_sub_refl|].
    destruct (existsb (above comps a) comps) eqn:E; auto.
    apply existsb_exists in E as [q [Hq Hab]].
    assert (In q (filter (above comps a) comps)) by (apply filter_In; auto).
    destruct (filter (above comps a) comps); [contradiction|simpl in Hlen; lia].
  - destruct (existsb (above comps a) comps) eqn:E.
    + apply existsb_exists in E as [q [Hq Hab]].
      unfold above in Hab. apply andb_true_iff in Hab as [Hne Hqa].
      apply negb_true_iff in Hne. apply memN_In in Hqa.
      assert (Hlt : length (filter (above comps q) comps) < length (filter (above comps a) comps)).
      { apply (filter_length_lt _ _ comps q); auto.
        - intros y Hy. unfold above in *. apply andb_true_iff in Hy as [Hy1 Hy2].
          apply memN_In in Hy2.
          assert (Hya : In y (ob_ancestors sg a)) by (eapply ob_anc_closed; eauto).
          apply andb_true_iff. split; [|apply memN_In; auto].
          apply negb_true_iff. apply N.eqb_neq. intros ->.
          apply (ob_anc_irrefl a). auto.
        - unfold above. rewrite Hne. simpl. apply memN_In; auto.
        - unfold above. rewrite N.eqb_refl. reflexivity. }
      destruct (IHn q) as [m [Hm [Hqm Hmax]]]; auto; [lia|].
      exists m. split; auto. split; auto.
      eapply ob_sub_trans; eauto. unfold ob_sub. apply orb_true_iff. right. apply memN_In; auto.
    + exists a. split; auto. split; auto. apply ob_sub_refl.
Qed.

Lemma union_type_sound_comp : forall l r o i a,
  In a (obj_components l ++ obj_components r) -> ob_sub sg o a = true ->
  has_type sg (VObj o i) (union_type sg l r) = true.
Proof.
  intros l r o i a Ha Hoa. unfold union_type.
  set (comps := obj_components l ++ obj_components r) in *.
  destruct (maximal_above comps (length comps) a) as [m [Hm [Ham Hmax]]]; auto.
  { apply filter_length_le_aux. }
  set (keep := filter _ comps).
  assert (Hk : In m keep).
  { apply filter_In. split; auto. apply negb_true_iff. exact Hmax. }
  assert (Hs : In m (fold_right insert_sorted [] keep)) by (apply fold_insert_In; auto).
  assert (Hom : ob_sub sg o m = true) by (eapply ob_sub_trans; eauto).
  destruct (fold_right insert_sorted [] keep) as [|x [|y rest]] eqn:E.
  - contradiction.
  - destruct Hs as [->|[]]. simpl. auto.
  - simpl. apply existsb_exists in Hs || idtac.
    change (existsb (ob_sub sg o) (x :: y :: rest) = true).
    apply existsb_exists. exists m. split; auto.
Qed.

End UnionType.

(* ------------------------------------------------------------------ soundness of run *)
Arguments cast_ok : simpl never.
Arguments compat : simpl never.
Arguments shape_ok : simpl never.
Arguments find_callable : simpl never.
Arguments validate_rec : simpl never.
Arguments callables_named : simpl never.
Arguments infer_common_type : simpl never.
Arguments infer_index : simpl never.
Arguments union_type : simpl never.
Arguments balance : simpl never.
Arguments cartesian : simpl never.
Arguments coerce : simpl never.

Section Sound.
Variable sg : sig.
Hypothesis WF : sig_wf sg = true.
Variable s_int64 : N.
Variable prim : bcall -> list (list value) -> list value.
Variable castv : ty -> ty -> value -> list value.
Variable idxp : ty -> value -> value -> list value.
Variable db : N -> list value.
Variable ptrs : list (N * N * ty).
Variable dbp : N -> N -> list value.

Definition typed (t : ty) (vs : list value) : Prop := Forall (fun v => has_type sg v t = true) vs.

(* each primitive returns values of its (instantiated) declared return type when it is given
   arguments of its (instantiated) parameter types *)
Hypothesis Hprim : forall bc vals,
  Forall2 (fun vs b => typed (barg_target b) vs) vals (bc_args bc) -> typed (bc_ret bc) (prim bc vals).
(* a cast produces values of its target type *)
Hypothesis Hcast : forall a b v, typed b (castv a b v).
Hypothesis Hidx : forall t v i, typed t (idxp t v i).
(* the database instance conforms to the schema: the extent of an object type contains
   objects of that type (or of a descendant) *)
Hypothesis Hdb : forall o, typed (TObj o) (db o).
(* ... and every object stores, in each pointer declared for (an ancestor of) its type, values of
   the declared target type *)
Hypothesis Hdbp : forall a p t o id, find_ptr ptrs a p = Some t -> ob_sub sg o a = true ->
  typed t (dbp id p).

Notation run' := (run sg s_int64 prim castv idxp db ptrs dbp).
Notation finalize' := (finalize sg castv).
Notation apply_bcall' := (apply_bcall sg prim castv).
Notation compile_operator' := (compile_operator sg prim castv).
Notation compile_call' := (compile_call sg prim castv).
Notation balance' := (balance sg prim castv).

Definition av_typed (a : argv) : Prop := typed (av_ty a) (av_vs a).

Lemma typed_app : forall t l r, typed t l -> typed t r -> typed t (l ++ r).
Proof. unfold typed. intros. apply Forall_app; auto. Qed.

Lemma typed_flat_map : forall {A} t (f : A -> list value) l,
  (forall x, In x l -> typed t (f x)) -> typed t (flat_map f l).
Proof.
  induction l; simpl; intros; [constructor|]. apply typed_app; auto.
Qed.

Lemma typed_nil : forall t, typed t []. Proof. constructor. Qed.

Lemma lookup_arg_typed : forall args kws b,
  Forall av_typed args -> Forall (fun k => av_typed (snd k)) kws -> av_typed (lookup_arg args kws b).
Proof.
  intros args kws b Ha Hk. unfold lookup_arg.
  destruct (ba_arg b) as [i|].
  - destruct (nth_in_or_default i args
                (mk_argv (mk_argd (ba_vty b) false false) [])) as [Hin| ->].
    + rewrite Forall_forall in Ha. auto.
    + apply typed_nil.
  - destruct (ba_kw b) as [k|]; [|apply typed_nil].
    destruct (assoc k kws) eqn:E; [|apply typed_nil].
    clear -E Hk. induction kws as [|[k' a'] kws]; simpl in E; [discriminate|].
    inversion Hk; subst. destruct (N.eqb k k'); [inversion E; subst; auto|auto].
Qed.

Lemma finalize_sound : forall args kws,
  Forall av_typed args -> Forall (fun k => av_typed (snd k)) kws ->
  forall bargs vals, finalize' args kws bargs = Ok (true, vals) ->
  Forall2 (fun vs b => typed (barg_target b) vs) vals bargs.
Proof.
  intros args kws Ha Hk. induction bargs as [|b bargs]; intros vals H.
  - simpl in H. inversion H. constructor.
  - simpl in H. unfold bind in H.
    pose proof (lookup_arg_typed args kws b Ha Hk) as Hl.
    destruct (compat sg (barg_target b) (ba_vty b)) eqn:Ec.
    + destruct (finalize' args kws bargs) as [[c2 v2]|] eqn:E2; [|discriminate].
      simpl in H. inversion H; subst. clear H.
      apply andb_true_iff in H1 as [H1 H2]. subst.
      apply andb_true_iff in H1 as [Heq Hsh].
      apply ty_eqb_eq in Heq.
      constructor; auto.
      unfold compat in Ec. apply andb_true_iff in Ec as [Ei _].
      unfold av_typed, typed in Hl. unfold typed.
      eapply Forall_impl; [|exact Hl]. intros v Hv. simpl in Hv.
      eapply has_type_sub; eauto. rewrite Heq. exact Hv.
    + destruct (cast_ok sg cast_fuel2 false (av_d (lookup_arg args kws b)) (barg_target b));
        simpl in H; [|discriminate].
      destruct (finalize' args kws bargs) as [[c2 v2]|] eqn:E2; [|discriminate].
      simpl in H. inversion H; subst. clear H.
      constructor; auto.
      apply typed_flat_map. intros. apply Hcast.
Qed.

Lemma sem_setlike_sound : forall nm vals bargs ret vs,
  Forall2 (fun vs b => typed (barg_target b) vs) vals bargs ->
  forallb (fun b => ty_eqb (barg_target b) ret) (setlike_flow sg nm bargs) = true ->
  sem_setlike sg nm vals = Some vs -> typed ret vs.
Proof.
  intros nm vals bargs ret vs HF Hall Hs. unfold sem_setlike in Hs.
  destruct (N.eqb nm (sg_union sg)) eqn:Eu.
  - destruct vals as [|l [|r [|]]]; try discriminate. inversion Hs; subst.
    inversion HF as [|? b1 ? bs Hl HF2]; subst. inversion HF2 as [|? b2 ? bs2 Hr HF3]; subst.
    inversion HF3; subst.
    assert (Hfl : forallb (fun b => ty_eqb (barg_target b) ret) [b1; b2] = true).
    { unfold setlike_flow in Hall. destruct (N.eqb nm (sg_if sg)); exact Hall. }
    simpl in Hfl. apply andb_true_iff in Hfl as [E1 E2]. apply andb_true_iff in E2 as [E2 _].
    apply ty_eqb_eq in E1, E2. rewrite E1 in Hl. rewrite E2 in Hr. apply typed_app; auto.
  - destruct (N.eqb nm (sg_coalesce sg)) eqn:Ec.
    + destruct vals as [|l [|r [|]]]; try discriminate. inversion Hs; subst.
      inversion HF as [|? b1 ? bs Hl HF2]; subst. inversion HF2 as [|? b2 ? bs2 Hr HF3]; subst.
      inversion HF3; subst.
      assert (Hfl : forallb (fun b => ty_eqb (barg_target b) ret) [b1; b2] = true).
      { unfold setlike_flow in Hall. destruct (N.eqb nm (sg_if sg)); exact Hall. }
      simpl in Hfl. apply andb_true_iff in Hfl as [E1 E2]. apply andb_true_iff in E2 as [E2 _].
      apply ty_eqb_eq in E1, E2. rewrite E1 in Hl. rewrite E2 in Hr. destruct l; auto.
    + destruct (N.eqb nm (sg_if sg)) eqn:Ei; [|discriminate].
      destruct vals as [|t [|c [|f [|]]]]; try discriminate. inversion Hs; subst.
      inversion HF as [|? b1 ? bs Ht HF2]; subst. inversion HF2 as [|? b2 ? bs2 Hc HF3]; subst.
      inversion HF3 as [|? b3 ? bs3 Hf HF4]; subst. inversion HF4; subst.
      unfold setlike_flow in Hall. rewrite Ei in Hall. simpl in Hall.
      apply andb_true_iff in Hall as [E1 E2]. apply andb_true_iff in E2 as [E2 _].
      apply ty_eqb_eq in E1, E2.
      rewrite E1 in Ht. rewrite E2 in Hf.
      apply typed_flat_map. intros b _. destruct (truthy b); auto.
Qed.

Lemma apply_bcall_sound : forall bc args kws t vs,
  Forall av_typed args -> Forall (fun k => av_typed (snd k)) kws ->
  apply_bcall' bc args kws = Ok (t, true, vs) -> typed t vs.
Proof.
  intros bc args kws t vs Ha Hk H. unfold apply_bcall, bind in H.
  destruct (finalize' args kws (bc_args bc)) as [[clean vals]|] eqn:Ef; [|discriminate].
  inversion H; subst. clear H.
  pose proof (finalize_sound args kws Ha Hk _ _ Ef) as HF.
  destruct (cl_isop (bc_f bc) && is_set_like_op sg (cl_name (bc_f bc)) &&
            forallb (fun b => ty_eqb (barg_target b) (bc_ret bc))
                    (setlike_flow sg (cl_name (bc_f bc)) (bc_args bc))) eqn:Ec.
  - destruct (sem_setlike sg (cl_name (bc_f bc)) vals) eqn:Es.
    + apply andb_true_iff in Ec as [_ Ec]. eapply sem_setlike_sound; eauto.
    + apply Hprim; auto.
  - apply Hprim; auto.
Qed.

Ltac dres H :=
  match type of H with
  | match ?X with Ok _ => _ | Err _ => _ end = _ =>
      let E := fresh "E" in destruct X eqn:E; [|discriminate H]
  end.

Lemma typed_objvals : forall l r (a : argv) v,
  av_typed a -> In v (if is_object (av_ty a) then av_vs a else []) ->
  In (av_ty a) [l; r] -> has_type sg v (union_type sg l r) = true.
Proof.
  intros l r a v Ha Hv Hin.
  destruct (is_object (av_ty a)) eqn:Eo; [|contradiction].
  unfold av_typed, typed in Ha. rewrite Forall_forall in Ha. specialize (Ha v Hv).
  assert (Hc : forall o, In o (obj_components (av_ty a)) ->
                         In o (obj_components l ++ obj_components r)).
  { intros o Ho. apply in_or_app. destruct Hin as [-> | [-> | []]]; auto. }
  remember (av_ty a) as ta eqn:Et. destruct ta; try discriminate.
  - (* TObj *)
    destruct v; simpl in Ha; try discriminate.
    eapply union_type_sound_comp; eauto. apply Hc. simpl. auto.
  - (* TUnion *)
    destruct v; simpl in Ha; try discriminate.
    apply existsb_exists in Ha as [q [Hq Hoq]].
    eapply union_type_sound_comp; eauto.
Qed.

Lemma compile_operator_sound : forall nm argvs t vs,
  Forall av_typed argvs -> compile_operator' nm argvs = Ok (t, true, vs) -> typed t vs.
Proof.
  intros nm argvs t vs Ha H. unfold compile_operator in H.
  unfold bind in H at 1. destruct (resolve_operator sg nm (map av_ty argvs)) as [c|]; [|discriminate].
  unfold bind in H. destruct (apply_bcall' c argvs []) as [[[rtype clean] vs0]|] eqn:Eap; [|discriminate].
  destruct (is_set_like_op sg (cl_name (bc_f c)) && is_object rtype) eqn:Eobj.
  - (* union type of the operands *)
    destruct (N.eqb nm (sg_if sg)) eqn:Eif.
    + destruct argvs as [|l [|c0 [|r [|]]]]; try discriminate.
      inversion H; subst. clear H.
      inversion Ha as [|? ? Hl Ha2]; subst. inversion Ha2 as [|? ? Hc Ha3]; subst.
      inversion Ha3 as [|? ? Hr _]; subst.
      unfold sem_setlike.
      destruct (N.eqb nm (sg_union sg)); [apply typed_nil|].
      destruct (N.eqb nm (sg_coalesce sg)); [apply typed_nil|].
      rewrite Eif. apply typed_flat_map. intros b _.
      destruct (truthy b); apply Forall_forall; intros v Hv.
      * eapply (typed_objvals _ _ l); eauto. simpl; auto.
      * eapply (typed_objvals _ _ r); eauto. simpl; auto.
    + destruct argvs as [|l [|r [|]]]; try discriminate.
      inversion H; subst. clear H.
      inversion Ha as [|? ? Hl Ha2]; subst. inversion Ha2 as [|? ? Hr _]; subst.
      unfold sem_setlike.
      destruct (N.eqb nm (sg_union sg)).
      * apply Forall_forall. intros v Hv. apply in_app_or in Hv as [Hv|Hv].
        -- eapply (typed_objvals _ _ l); eauto. simpl; auto.
        -- eapply (typed_objvals _ _ r); eauto. simpl; auto.
      * destruct (N.eqb nm (sg_coalesce sg)).
        -- destruct (if is_object (av_ty l) then av_vs l else []) as [|w ws] eqn:El.
           ++ apply Forall_forall. intros v Hv. eapply (typed_objvals _ _ r); eauto. simpl; auto.
           ++ apply Forall_forall. intros v Hv. eapply (typed_objvals _ _ l); eauto.
              rewrite El. exact Hv. simpl; auto.
        -- rewrite Eif. apply typed_nil.
  - inversion H; subst. eapply apply_bcall_sound; eauto.
Qed.

Lemma compile_call_sound : forall nm argvs kwvs t vs,
  Forall av_typed argvs -> Forall (fun k => av_typed (snd k)) kwvs ->
  compile_call' nm argvs kwvs = Ok (t, true, vs) -> typed t vs.
Proof.
  intros nm argvs kwvs t vs Ha Hk H. unfold compile_call in H.
  unfold bind in H. destruct (resolve_call sg nm _ _) as [c|]; [|discriminate].
  eapply apply_bcall_sound; eauto.
Qed.

Definition res_typed (d : res (argv * bool)) : Prop := forall a, d = Ok (a, true) -> av_typed a.

Lemma balance_unfold : forall fuel l,
  balance' fuel l =
  match fuel with
  | O => Err EInternal
  | S fuel' =>
      match l with
      | [] => Err EInternal
      | [d] => d
      | _ =>
          let mid := Nat.div2 (length l) in
          lt <- balance' fuel' (firstn mid l) ;;
          rt <- balance' fuel' (skipn mid l) ;;
          r <- compile_operator' (sg_union sg) [fst lt; fst rt] ;;
          let '(t, clean, vs) := r in
          Ok (mk_argv (mk_argd t false false) vs, clean && snd lt && snd rt)
      end
  end.
Proof. destruct fuel; reflexivity. Qed.

Lemma balance_sound : forall fuel l a,
  Forall res_typed l -> balance' fuel l = Ok (a, true) -> av_typed a.
Proof.
  induction fuel; intros l a HF H; rewrite balance_unfold in H; [discriminate|].
  destruct l as [|d [|d2 l']]; [discriminate| |].
  - inversion HF; subst. auto.
  - remember (d :: d2 :: l') as L.
    cbv zeta in H. unfold bind in H.
    rewrite <- (firstn_skipn (Nat.div2 (length L)) L) in HF. apply Forall_app in HF as [HF1 HF2].
    destruct (balance' fuel (firstn (Nat.div2 (length L)) L)) as [[la lc]|] eqn:E1; [|discriminate].
    destruct (balance' fuel (skipn (Nat.div2 (length L)) L)) as [[ra rc]|] eqn:E2; [|discriminate].
    simpl in H.
    destruct (compile_operator' (sg_union sg) [la; ra]) as [[[t clean] vs]|] eqn:E3; [|discriminate].
    inversion H; subst. clear H.
    apply andb_true_iff in H2 as [H2 Hrc]. apply andb_true_iff in H2 as [Hcl Hlc]. subst.
    unfold av_typed. simpl.
    eapply compile_operator_sound; [|exact E3].
    constructor; [exact (IHfuel _ la HF1 E1)|]. constructor; [exact (IHfuel _ ra HF2 E2)|constructor].
Qed.

Lemma varr_typed : forall t l, typed t l -> has_type sg (VArr l) (TArr t) = true.
Proof.
  intros t l H. simpl. induction H; auto. rewrite H. simpl. exact IHForall.
Qed.

Lemma has_type_varr_inv : forall l t, has_type sg (VArr l) (TArr t) = true -> typed t l.
Proof.
  intros l t H. simpl in H. induction l; [constructor|].
  apply andb_true_iff in H as [H1 H2]. constructor; auto. apply IHl. exact H2.
Qed.

Lemma coerce_typed : forall from to vs, typed from vs -> typed to (coerce sg castv from to vs).
Proof.
  intros from to vs H. unfold coerce.
  destruct (compat sg to from && shape_ok to from) eqn:E.
  - apply andb_true_iff in E as [Ec Es]. unfold compat in Ec. apply andb_true_iff in Ec as [Ei _].
    eapply Forall_impl; [|exact H]. intros v Hv. eapply has_type_sub; eauto.
  - apply typed_flat_map. intros. apply Hcast.
Qed.

Lemma tuple_value_typed : forall named (rs : list (N * (ty * bool * list value))) l,
  Forall (fun r => typed (fst (fst (snd r))) (snd (snd r))) rs ->
  Forall2 (fun x xs => In x xs) l (map (fun r => snd (snd r)) rs) ->
  has_type sg (tuple_value named (map fst rs) l)
           (TTup named (map (fun r => (fst r, fst (fst (snd r)))) rs)) = true.
Proof.
  intros named rs l HF H2. unfold tuple_value. simpl. rewrite Bool.eqb_reflx. simpl.
  revert l H2. induction HF; intros l0 H2; simpl in H2.
  - inversion H2. reflexivity.
  - inversion H2 as [|v xs l' ? Hin H3]; subst. simpl.
    destruct x as [n [[t c] vs]]. simpl in *.
    rewrite N.eqb_refl. simpl.
    unfold typed in H. rewrite Forall_forall in H. rewrite (H v Hin). simpl. apply IHHF. exact H3.
Qed.

Lemma tuple_align : forall vs' els,
  (fix go (l : list (N * value)) (r : list (N * ty)) {struct l} : bool :=
     match l, r with
     | [], [] => true
     | (i, x) :: l', (j, y) :: r' => N.eqb i j && has_type sg x y && go l' r'
     | _, _ => false
     end) vs' els = true ->
  Forall2 (fun a b => fst a = fst b /\ has_type sg (snd a) (snd b) = true) vs' els.
Proof.
  induction vs' as [|[i x] vs']; intros [|[j y] els] H; try discriminate; constructor.
  - apply andb_true_iff in H as [H H2]. apply andb_true_iff in H as [H0 H1].
    apply N.eqb_eq in H0. simpl. auto.
  - apply andb_true_iff in H as [H H2]. auto.
Qed.

Lemma has_type_tup_inv : forall v named els,
  has_type sg v (TTup named els) = true ->
  exists n vs', v = VTup n vs' /\
    Forall2 (fun a b => fst a = fst b /\ has_type sg (snd a) (snd b) = true) vs' els.
Proof.
  intros v named els H. destruct v; simpl in H; try discriminate.
  apply andb_true_iff in H as [_ H]. eexists; eexists; split; [reflexivity|].
  apply tuple_align. exact H.
Qed.

Lemma proj_pos_typed : forall named els k i x vs,
  typed (TTup named els) vs -> nth_error els k = Some (i, x) ->
  typed x (flat_map (proj_pos k) vs).
Proof.
  intros named els k i x vs H Hn. apply typed_flat_map. intros v Hv.
  unfold typed in H. rewrite Forall_forall in H. specialize (H v Hv).
  apply has_type_tup_inv in H as [n [vs' [-> HF]]]. simpl.
  destruct (nth_error vs' k) as [[j w]|] eqn:E; [|constructor].
  constructor; [|constructor].
  clear -HF Hn E. revert k Hn E. induction HF; intros k Hn E; destruct k; simpl in *; try discriminate.
  - inversion Hn; inversion E; subst. destruct H as [_ H]. exact H.
  - eauto.
Qed.

Lemma proj_name_typed : forall named els n x vs,
  typed (TTup named els) vs -> assoc n els = Some x ->
  typed x (flat_map (proj_name n) vs).
Proof.
  intros named els n x vs H Hn. apply typed_flat_map. intros v Hv.
  unfold typed in H. rewrite Forall_forall in H. specialize (H v Hv).
  apply has_type_tup_inv in H as [m [vs' [-> HF]]]. simpl.
  destruct (assoc n vs') as [w|] eqn:E; [|constructor].
  constructor; [|constructor].
  clear -HF Hn E. induction HF; simpl in *; try discriminate.
  destruct x0 as [i a], y as [j b]. destruct H as [H1 H2]. simpl in *. subst.
  destruct (N.eqb n j).
  - inversion Hn; inversion E; subst. exact H2.
  - auto.
Qed.

Lemma index_value_typed : forall t ti rt vs vis,
  infer_index sg s_int64 t ti = Ok rt -> typed t vs ->
  typed rt (flat_map (fun v => flat_map (index_value idxp rt v) vis) vs).
Proof.
  intros t ti rt vs vis Hi Hv. apply typed_flat_map. intros v Hin.
  apply typed_flat_map. intros iv _.
  unfold typed in Hv. rewrite Forall_forall in Hv. specialize (Hv v Hin).
  destruct v; simpl; try apply Hidx.
  destruct iv; try apply typed_nil.
  destruct (payload <? 0)%Z; [apply typed_nil|].
  destruct (nth_error vs0 (Z.to_nat payload)) as [w|] eqn:E; [|apply typed_nil].
  constructor; [|constructor].
  apply nth_error_In in E.
  destruct t; simpl in Hv; try discriminate.
  - (* TAny *) unfold infer_index in Hi. simpl in Hi. inversion Hi. apply has_type_any.
  - (* TArr *)
    unfold infer_index in Hi. simpl in Hi.
    destruct (impl_castable sg ti (TS s_int64)); inversion Hi; subst.
    apply has_type_varr_inv in Hv. unfold typed in Hv. rewrite Forall_forall in Hv. auto.
Qed.

Lemma cart_coerce_typed : forall (rs : list (ty * bool * list value)) tc,
  Forall (fun r => typed (fst (fst r)) (snd r)) rs ->
  forall cl, Forall2 (fun x xs => In x xs) cl
                     (map (fun r => coerce sg castv (fst (fst r)) tc (snd r)) rs) ->
  typed tc cl.
Proof.
  induction 1; intros cl Hl; simpl in Hl; inversion Hl; subst; constructor.
  - pose proof (coerce_typed _ tc _ H) as Hc. unfold typed in Hc. rewrite Forall_forall in Hc.
    apply Hc. assumption.
  - apply IHForall. assumption.
Qed.

Notation farg := (fun x => r <- run' x ;; Ok (as_arg x r)).

Definition sound_e (e : expr) : Prop := forall t vs, run' e = Ok (t, true, vs) -> typed t vs.

Lemma farg_typed : forall e, sound_e e -> res_typed (farg e).
Proof.
  intros e He a H. unfold bind in H.
  destruct (run' e) as [[[t c] vs]|] eqn:E; [|discriminate].
  simpl in H. inversion H; subst. unfold av_typed. simpl. apply He. exact E.
Qed.

Lemma mapM_farg_typed : forall es rs,
  Forall sound_e es -> mapM farg es = Ok rs -> forallb snd rs = true ->
  Forall av_typed (map fst rs).
Proof.
  intros es rs HF HM Hc. apply mapM_ok in HM.
  induction HM; simpl; [constructor|].
  inversion HF; subst. simpl in Hc. apply andb_true_iff in Hc as [Hc1 Hc2].
  constructor; auto. destruct y as [a c]. simpl in *. subst.
  eapply farg_typed; eauto.
Qed.

Lemma set_elem_nonset : forall (f : expr -> res (argv * bool)) e,
  (forall es, e <> ESet es) -> e <> EEmpty -> set_elem f e = [f e].
Proof. intros f e H1 H2. destruct e; try reflexivity; [congruence|exfalso; eapply H1; eauto]. Qed.

Definition Q (e : expr) : Prop := sound_e e /\ Forall res_typed (set_elem farg e).

Lemma Q_of_sound : forall e, (forall es, e <> ESet es) -> e <> EEmpty -> sound_e e -> Q e.
Proof.
  intros e H1 H2 Hs. split; auto. rewrite set_elem_nonset; auto.
  constructor; [apply farg_typed; auto|constructor].
Qed.

Lemma flat_map_set_elem : forall es, Forall Q es ->
  Forall res_typed (flat_map (set_elem farg) es).
Proof.
  induction 1; simpl; [constructor|]. apply Forall_app. split; auto. apply H.
Qed.

Theorem run_sound_Q : forall e, Q e.
Proof.
  induction e using expr_ind'.
  - (* ELit *)
    apply Q_of_sound; try congruence. intros t vs H. simpl in H.
    destruct (sc_is_abstract sg s); inversion H; subst.
    constructor; [|constructor]. simpl. apply sc_sub_refl.
  - (* EEmpty *)
    split; [|simpl; constructor]. intros t vs H. simpl in H. inversion H. apply typed_nil.
  - (* ECast *)
    apply Q_of_sound; try congruence. destruct IHe as [IHe _].
    intros t0 vs H. simpl in H. unfold bind in H.
    destruct (run' e) as [[[a c] vs1]|] eqn:E; [|discriminate].
    destruct (cast_ok sg cast_fuel2 true _ t); [|discriminate].
    inversion H; subst. clear H.
    destruct (ty_eqb a t0) eqn:Eq.
    + apply ty_eqb_eq in Eq. subst. apply IHe. exact E.
    + apply typed_flat_map. intros. apply Hcast.
  - (* ETuple *)
    apply Q_of_sound; try congruence.
    intros t vs H0. simpl in H0.
    destruct (n && has_dup (map fst els)); [discriminate|]. unfold bind in H0.
    destruct (mapM _ els) as [rs|] eqn:EM; [|discriminate].
    inversion H0; subst. clear H0.
    apply mapM_ok in EM.
    assert (HT : Forall (fun r => typed (fst (fst (snd r))) (snd (snd r))) rs).
    { clear -EM H H3. induction EM; [constructor|].
      inversion H; subst. simpl in H3. apply andb_true_iff in H3 as [Hc1 Hc2].
      constructor; auto.
      unfold bind in H0. destruct (run' (snd x)) as [[[t c] vs]|] eqn:E; [|discriminate].
      inversion H0; subst. simpl in *. subst. destruct H4 as [H4 _]. apply H4. exact E. }
    apply Forall_forall. intros v Hv. apply in_map_iff in Hv as [l [<- Hl]].
    apply cartesian_In in Hl. apply tuple_value_typed; auto.
  - (* EArray *)
    apply Q_of_sound; try congruence.
    intros t vs H0. simpl in H0. unfold bind in H0.
    destruct (mapM run' es) as [rs|] eqn:EM; [|discriminate].
    destruct (existsb is_array (map (fun r => fst (fst r)) rs)); [discriminate|].
    apply mapM_ok in EM.
    destruct rs as [|r0 rs'].
    + simpl in H0. inversion H0; subst. constructor; [reflexivity|constructor].
    + remember (r0 :: rs') as rs.
      assert (Hne : map (fun r => fst (fst r)) rs <> []) by (subst; simpl; congruence).
      destruct (map (fun r => fst (fst r)) rs) eqn:Em; [congruence|]. rewrite <- Em in H0.
      destruct (infer_common_type sg (map (fun r => fst (fst r)) rs)) as [tc|] eqn:Ei; [|discriminate].
      inversion H0; subst t vs. clear H0.
      assert (HT : Forall (fun r => typed (fst (fst r)) (snd r)) rs).
      { clear -EM H H3. induction EM; [constructor|].
        inversion H; subst. simpl in H3. apply andb_true_iff in H3 as [Hc1 Hc2].
        constructor; auto. destruct y as [[t c] vs]. simpl in *. subst.
        destruct H4 as [H4 _]. apply H4. exact H0. }
      apply Forall_forall. intros v Hv. apply in_map_iff in Hv as [cl [<- Hl]].
      apply cartesian_In in Hl. apply varr_typed.
      eapply cart_coerce_typed; eauto.
  - (* ESet *)
    assert (HF : Forall res_typed (flat_map (set_elem farg) es)) by (apply flat_map_set_elem; auto).
    split.
    + intros t vs H0. simpl in H0.
      destruct (flat_map (set_elem farg) es) as [|d [|d2 ds]] eqn:Ed.
      * inversion H0. apply typed_nil.
      * unfold bind in H0. destruct d as [[a c]|]; [|discriminate].
        simpl in H0. inversion H0; subst. inversion HF; subst. apply (H3 a). reflexivity.
      * unfold bind in H0.
        destruct (balance' (S (length (d :: d2 :: ds))) (d :: d2 :: ds)) as [[a c]|] eqn:Eb;
          [|discriminate].
        simpl in H0. inversion H0; subst.
        eapply balance_sound; eauto.
    + simpl. clear -H. induction H; simpl; [constructor|]. apply Forall_app. split; auto. apply H.
  - (* EOp *)
    apply Q_of_sound; try congruence.
    intros t vs H0. simpl in H0. unfold bind in H0.
    destruct (mapM _ es) as [rs|] eqn:EM; [|discriminate].
    change (mapM farg es = Ok rs) in EM.
    destruct (compile_operator' o (map fst rs)) as [[[t0 c0] vs0]|] eqn:Ec; [|discriminate].
    inversion H0; subst. clear H0.
    apply andb_true_iff in H3 as [Hc0 Hrs]. subst.
    eapply compile_operator_sound; [|exact Ec].
    apply (mapM_farg_typed es rs); auto.
    eapply Forall_impl; [|exact H]. intros a [Ha _]. exact Ha.
  - (* ECall *)
    apply Q_of_sound; try congruence.
    intros t vs H1. simpl in H1. unfold bind in H1.
    destruct (mapM _ es) as [rs|] eqn:EM; [|discriminate].
    change (mapM farg es = Ok rs) in EM.
    destruct (mapM _ kw) as [ks|] eqn:EK; [|discriminate].
    destruct (compile_call' f (map fst rs) _) as [[[t0 c0] vs0]|] eqn:Ec; [|discriminate].
    inversion H1; subst. clear H1.
    apply andb_true_iff in H4 as [H4 Hks]. apply andb_true_iff in H4 as [Hc0 Hrs]. subst.
    eapply compile_call_sound; [| |exact Ec].
    + apply (mapM_farg_typed es rs); auto.
      eapply Forall_impl; [|exact H]. intros a [Ha _]. exact Ha.
    + apply mapM_ok in EK. clear -EK H0 Hks. rewrite Forall_map.
      induction EK; [constructor|]. inversion H0; subst.
      simpl in Hks. apply andb_true_iff in Hks as [Hk1 Hk2].
      constructor; auto. simpl.
      unfold bind in H. destruct (run' (snd x)) as [[[t c] vs]|] eqn:E; [|discriminate].
      inversion H; subst. simpl in *. subst. unfold av_typed. simpl.
      destruct H3 as [H3 _]. apply H3. exact E.
  - (* ETupIdx *)
    apply Q_of_sound; try congruence. destruct IHe as [IHe _].
    intros t vs H. simpl in H. unfold bind in H.
    destruct (run' e) as [[[t0 c] vs0]|] eqn:E; [|discriminate].
    destruct t0; try discriminate.
    destruct (n <? 32)%N.
    + destruct (nth_error els (N.to_nat n)) as [[i x]|] eqn:En; [|discriminate].
      inversion H; subst. eapply proj_pos_typed; eauto.
    + destruct named; [|discriminate].
      destruct (assoc n els) as [x|] eqn:En; [|discriminate].
      inversion H; subst. eapply proj_name_typed; eauto.
  - (* EIndex *)
    apply Q_of_sound; try congruence. destruct IHe1 as [IH1 _].
    intros t vs H. simpl in H. unfold bind in H.
    destruct (run' e1) as [[[t1 c1] vs1]|] eqn:E1; [|discriminate].
    destruct (run' e2) as [[[t2 c2] vs2]|] eqn:E2; [|discriminate].
    destruct (infer_index sg s_int64 t1 t2) as [rt|] eqn:Ei; [|discriminate].
    inversion H; subst. apply andb_true_iff in H2 as [Hc1 Hc2]. subst.
    eapply index_value_typed; eauto.
  - (* EObj *)
    apply Q_of_sound; try congruence. intros t vs H. simpl in H. inversion H; subst. apply Hdb.
  - (* EPtr *)
    apply Q_of_sound; try congruence. destruct IHe as [IHe _].
    intros t vs H. simpl in H. unfold bind in H.
    destruct (run' e) as [[[t0 c] vs0]|] eqn:E; [|discriminate].
    destruct t0; try discriminate.
    destruct (find_ptr ptrs o p) as [tgt|] eqn:Ep; [|discriminate].
    inversion H; subst. apply typed_flat_map. intros v Hv.
    pose proof (IHe _ _ E) as Ht. unfold typed in Ht. rewrite Forall_forall in Ht. specialize (Ht v Hv).
    destruct v; simpl; try apply typed_nil.
    simpl in Ht. eapply Hdbp; eauto.
Qed.

Theorem run_sound : forall e t vs, run' e = Ok (t, true, vs) -> typed t vs.
Proof. intros e. apply (run_sound_Q e). Qed.

End Sound.

(* ------------------------------------------------------------------ types do not depend on values *)
Section Indep.
Variable sg : sig.
Variable s_int64 : N.
Variables prim1 prim2 : bcall -> list (list value) -> list value.
Variables castv1 castv2 : ty -> ty -> value -> list value.
Variables idxp1 idxp2 : ty -> value -> value -> list value.
Variables db1 db2 : N -> list value.
Variable ptrs : list (N * N * ty).
Variables dbp1 dbp2 : N -> N -> list value.

Notation run1 := (run sg s_int64 prim1 castv1 idxp1 db1 ptrs dbp1).
Notation run2 := (run sg s_int64 prim2 castv2 idxp2 db2 ptrs dbp2).

Definition same_td (a1 a2 : argv) : Prop := av_d a1 = av_d a2.

Definition rel3 (r1 r2 : res (ty * bool * list value)) : Prop :=
  match r1, r2 with
  | Ok (t1, c1, _), Ok (t2, c2, _) => t1 = t2 /\ c1 = c2
  | Err e1, Err e2 => e1 = e2
  | _, _ => False
  end.

Definition relr (d1 d2 : res (argv * bool)) : Prop :=
  match d1, d2 with
  | Ok (a1, c1), Ok (a2, c2) => same_td a1 a2 /\ c1 = c2
  | Err e1, Err e2 => e1 = e2
  | _, _ => False
  end.

Definition same_kw (k1 k2 : N * argv) : Prop := fst k1 = fst k2 /\ same_td (snd k1) (snd k2).

Lemma same_td_ty : forall a1 a2, same_td a1 a2 -> av_ty a1 = av_ty a2.
Proof. unfold same_td, av_ty. intros. congruence. Qed.

Lemma map_av_ty : forall l1 l2, Forall2 same_td l1 l2 -> map av_ty l1 = map av_ty l2.
Proof. induction 1; simpl; auto. f_equal; auto. apply same_td_ty; auto. Qed.

Lemma lookup_arg_rel : forall args1 args2 kws1 kws2 b,
  Forall2 same_td args1 args2 -> Forall2 same_kw kws1 kws2 ->
  same_td (lookup_arg args1 kws1 b) (lookup_arg args2 kws2 b).
Proof.
  intros args1 args2 kws1 kws2 b Ha Hk. unfold lookup_arg.
  destruct (ba_arg b) as [i|].
  - revert i. induction Ha; intros [|i]; simpl; try reflexivity; auto.
  - destruct (ba_kw b) as [k|]; [|reflexivity].
    induction Hk; simpl; [reflexivity|].
    destruct x as [k1 a1], y as [k2 a2]. destruct H as [H1 H2]. simpl in *. subst.
    destruct (N.eqb k k2); auto.
Qed.

Lemma finalize_rel : forall args1 args2 kws1 kws2,
  Forall2 same_td args1 args2 -> Forall2 same_kw kws1 kws2 ->
  forall bargs,
  match finalize sg castv1 args1 kws1 bargs, finalize sg castv2 args2 kws2 bargs with
  | Ok (c1, _), Ok (c2, _) => c1 = c2
  | Err e1, Err e2 => e1 = e2
  | _, _ => False
  end.
Proof.
  intros args1 args2 kws1 kws2 Ha Hk. induction bargs as [|b bargs]; simpl; auto.
  pose proof (lookup_arg_rel args1 args2 kws1 kws2 b Ha Hk) as Hl.
  unfold same_td in Hl. unfold bind.
  destruct (compat sg (barg_target b) (ba_vty b)).
  - unfold av_ty. rewrite Hl.
    destruct (finalize sg castv1 args1 kws1 bargs) as [[c1 v1]|];
      destruct (finalize sg castv2 args2 kws2 bargs) as [[c2 v2]|]; simpl; try contradiction; auto.
    subst. reflexivity.
  - rewrite Hl.
    destruct (cast_ok sg cast_fuel2 false (av_d (lookup_arg args2 kws2 b)) (barg_target b)); simpl; auto.
    destruct (finalize sg castv1 args1 kws1 bargs) as [[c1 v1]|];
      destruct (finalize sg castv2 args2 kws2 bargs) as [[c2 v2]|]; simpl; try contradiction; auto.
Qed.

Lemma apply_bcall_rel : forall bc args1 args2 kws1 kws2,
  Forall2 same_td args1 args2 -> Forall2 same_kw kws1 kws2 ->
  rel3 (apply_bcall sg prim1 castv1 bc args1 kws1) (apply_bcall sg prim2 castv2 bc args2 kws2).
Proof.
  intros bc args1 args2 kws1 kws2 Ha Hk. unfold apply_bcall, bind.
  pose proof (finalize_rel args1 args2 kws1 kws2 Ha Hk (bc_args bc)) as H.
  destruct (finalize sg castv1 args1 kws1 (bc_args bc)) as [[c1 v1]|];
    destruct (finalize sg castv2 args2 kws2 (bc_args bc)) as [[c2 v2]|]; simpl; try contradiction; auto.
Qed.

Lemma rel3_refl_err : forall e, rel3 (Err e) (Err e). Proof. simpl. auto. Qed.

Lemma rel3_ok : forall t c v1 v2, rel3 (Ok (t, c, v1)) (Ok (t, c, v2)).
Proof. intros. simpl. auto. Qed.

Lemma compile_operator_rel : forall nm a1 a2,
  Forall2 same_td a1 a2 ->
  rel3 (compile_operator sg prim1 castv1 nm a1) (compile_operator sg prim2 castv2 nm a2).
Proof.
  intros nm a1 a2 Ha. unfold compile_operator.
  rewrite (map_av_ty a1 a2 Ha).
  destruct (resolve_operator sg nm (map av_ty a2)) as [c|e]; [|apply rel3_refl_err].
  unfold bind.
  pose proof (apply_bcall_rel c a1 a2 [] [] Ha (Forall2_nil _)) as Hap.
  destruct (apply_bcall sg prim1 castv1 c a1 []) as [[[t1 c1] v1]|];
    destruct (apply_bcall sg prim2 castv2 c a2 []) as [[[t2 c2'] v2]|]; simpl in Hap; try contradiction;
    [|subst; apply rel3_refl_err].
  destruct Hap as [-> ->].
  destruct (is_set_like_op sg (cl_name (bc_f c)) && is_object t2); [|apply rel3_ok].
  destruct (N.eqb nm (sg_if sg)).
  - inversion Ha as [|x1 x2 l1 l2 H1 Ha2]; subst; [apply rel3_refl_err|].
    inversion Ha2 as [|y1 y2 l1' l2' H2 Ha3]; subst; [apply rel3_refl_err|].
    inversion Ha3 as [|z1 z2 l1'' l2'' H3 Ha4]; subst; [apply rel3_refl_err|].
    inversion Ha4; subst; [|apply rel3_refl_err].
    rewrite (same_td_ty _ _ H1), (same_td_ty _ _ H3). apply rel3_ok.
  - inversion Ha as [|x1 x2 l1 l2 H1 Ha2]; subst; [apply rel3_refl_err|].
    inversion Ha2 as [|y1 y2 l1' l2' H2 Ha3]; subst; [apply rel3_refl_err|].
    inversion Ha3; subst; [|apply rel3_refl_err].
    rewrite (same_td_ty _ _ H1), (same_td_ty _ _ H2). apply rel3_ok.
Qed.

Lemma map_kw_ty : forall k1 k2, Forall2 same_kw k1 k2 ->
  map (fun kv : N * argv => (fst kv, av_ty (snd kv))) k1 = map (fun kv => (fst kv, av_ty (snd kv))) k2.
Proof.
  induction 1; simpl; auto. destruct H as [H1 H2]. f_equal; auto.
  rewrite H1, (same_td_ty _ _ H2). reflexivity.
Qed.

Lemma compile_call_rel : forall nm a1 a2 k1 k2,
  Forall2 same_td a1 a2 -> Forall2 same_kw k1 k2 ->
  rel3 (compile_call sg prim1 castv1 nm a1 k1) (compile_call sg prim2 castv2 nm a2 k2).
Proof.
  intros nm a1 a2 k1 k2 Ha Hk. unfold compile_call.
  rewrite (map_av_ty a1 a2 Ha), (map_kw_ty k1 k2 Hk).
  destruct (resolve_call sg nm _ _) as [c|e]; [|apply rel3_refl_err].
  simpl. apply apply_bcall_rel; auto.
Qed.

Lemma Forall2_len : forall {A B} (R : A -> B -> Prop) l1 l2, Forall2 R l1 l2 -> length l1 = length l2.
Proof. induction 1; simpl; auto. Qed.

Lemma Forall2_firstn : forall {A B} (R : A -> B -> Prop) n l1 l2,
  Forall2 R l1 l2 -> Forall2 R (firstn n l1) (firstn n l2).
Proof. induction n; intros l1 l2 H; simpl; [constructor|]. destruct H; constructor; auto. Qed.

Lemma Forall2_skipn : forall {A B} (R : A -> B -> Prop) n l1 l2,
  Forall2 R l1 l2 -> Forall2 R (skipn n l1) (skipn n l2).
Proof. induction n; intros l1 l2 H; simpl; auto. destruct H; auto. Qed.

Lemma balance_rel : forall fuel l1 l2, Forall2 relr l1 l2 ->
  relr (balance sg prim1 castv1 fuel l1) (balance sg prim2 castv2 fuel l2).
Proof.
  induction fuel; intros l1 l2 HF.
  - simpl. reflexivity.
  - destruct HF as [|d1 d2 l1 l2 Hd HF]; [simpl; reflexivity|].
    destruct HF as [|e1 e2 l1 l2 He HF]; [exact Hd|].
    assert (HL : Forall2 relr (d1 :: e1 :: l1) (d2 :: e2 :: l2)) by (repeat constructor; auto).
    remember (d1 :: e1 :: l1) as L1. remember (d2 :: e2 :: l2) as L2.
    assert (Hlen : length L1 = length L2) by (eapply Forall2_len; eauto).
    assert (E1 : balance sg prim1 castv1 (S fuel) L1 =
                 (lt <- balance sg prim1 castv1 fuel (firstn (Nat.div2 (length L1)) L1) ;;
                  rt <- balance sg prim1 castv1 fuel (skipn (Nat.div2 (length L1)) L1) ;;
                  r <- compile_operator sg prim1 castv1 (sg_union sg) [fst lt; fst rt] ;;
                  let '(t, clean, vs) := r in
                  Ok (mk_argv (mk_argd t false false) vs, clean && snd lt && snd rt)))
      by (subst L1; reflexivity).
    assert (E2 : balance sg prim2 castv2 (S fuel) L2 =
                 (lt <- balance sg prim2 castv2 fuel (firstn (Nat.div2 (length L2)) L2) ;;
                  rt <- balance sg prim2 castv2 fuel (skipn (Nat.div2 (length L2)) L2) ;;
                  r <- compile_operator sg prim2 castv2 (sg_union sg) [fst lt; fst rt] ;;
                  let '(t, clean, vs) := r in
                  Ok (mk_argv (mk_argd t false false) vs, clean && snd lt && snd rt)))
      by (subst L2; reflexivity).
    rewrite E1, E2. rewrite <- Hlen. clear E1 E2.
    set (mid := Nat.div2 (length L1)).
    assert (HF1 : Forall2 relr (firstn mid L1) (firstn mid L2)).
    { apply Forall2_firstn; auto. }
    assert (HF2 : Forall2 relr (skipn mid L1) (skipn mid L2)).
    { apply Forall2_skipn; auto. }
    pose proof (IHfuel _ _ HF1) as R1. pose proof (IHfuel _ _ HF2) as R2.
    unfold bind.
    destruct (balance sg prim1 castv1 fuel (firstn mid L1)) as [[la1 lc1]|];
      destruct (balance sg prim2 castv2 fuel (firstn mid L2)) as [[la2 lc2]|]; simpl in R1; try contradiction;
      [|exact R1].
    destruct R1 as [Rl ->].
    destruct (balance sg prim1 castv1 fuel (skipn mid L1)) as [[ra1 rc1]|];
      destruct (balance sg prim2 castv2 fuel (skipn mid L2)) as [[ra2 rc2]|]; simpl in R2; try contradiction;
      [|exact R2].
    destruct R2 as [Rr ->]. simpl.
    pose proof (compile_operator_rel (sg_union sg) [la1; ra1] [la2; ra2]) as Hc.
    assert (Hargs : Forall2 same_td [la1; ra1] [la2; ra2]) by (repeat constructor; auto).
    specialize (Hc Hargs).
    destruct (compile_operator sg prim1 castv1 (sg_union sg) [la1; ra1]) as [[[t1 c1] v1]|];
      destruct (compile_operator sg prim2 castv2 (sg_union sg) [la2; ra2]) as [[[t2 c2] v2]|];
      simpl in Hc; try contradiction; [|exact Hc].
    destruct Hc as [-> ->]. simpl. split; reflexivity.
Qed.

Notation farg1 := (fun x => r <- run1 x ;; Ok (as_arg x r)).
Notation farg2 := (fun x => r <- run2 x ;; Ok (as_arg x r)).

Definition rel_e (e : expr) : Prop := rel3 (run1 e) (run2 e).

Lemma farg_rel : forall e, rel_e e -> relr (farg1 e) (farg2 e).
Proof.
  intros e H. unfold rel_e in H. unfold bind.
  destruct (run1 e) as [[[t1 c1] v1]|]; destruct (run2 e) as [[[t2 c2] v2]|]; simpl in *; try contradiction; auto.
  destruct H as [-> ->]. split; reflexivity.
Qed.

Lemma mapM_rel : forall {A B1 B2} (f1 : A -> res B1) (f2 : A -> res B2) (R : B1 -> B2 -> Prop) l,
  Forall (fun x => match f1 x, f2 x with
                   | Ok y1, Ok y2 => R y1 y2
                   | Err e1, Err e2 => e1 = e2
                   | _, _ => False end) l ->
  match mapM f1 l, mapM f2 l with
  | Ok r1, Ok r2 => Forall2 R r1 r2
  | Err e1, Err e2 => e1 = e2
  | _, _ => False
  end.
Proof.
  induction 1; simpl; [constructor|]. unfold bind.
  destruct (f1 x); destruct (f2 x); try contradiction; auto.
  destruct (mapM f1 l); destruct (mapM f2 l); try contradiction; auto.
Qed.

Definition QI (e : expr) : Prop :=
  rel_e e /\ Forall2 relr (set_elem farg1 e) (set_elem farg2 e).

Lemma QI_of_rel : forall e, (forall es, e <> ESet es) -> e <> EEmpty -> rel_e e -> QI e.
Proof.
  intros e H1 H2 Hr. split; auto. rewrite !set_elem_nonset; auto.
  constructor; [apply farg_rel; auto|constructor].
Qed.

Lemma Forall2_app' : forall {A B} (R : A -> B -> Prop) l1 l2 m1 m2,
  Forall2 R l1 l2 -> Forall2 R m1 m2 -> Forall2 R (l1 ++ m1) (l2 ++ m2).
Proof. induction 1; simpl; auto. Qed.

Lemma flat_map_set_elem_rel : forall es, Forall QI es ->
  Forall2 relr (flat_map (set_elem farg1) es) (flat_map (set_elem farg2) es).
Proof.
  induction 1; simpl; [constructor|]. apply Forall2_app'; auto. apply H.
Qed.

Lemma forallb_snd_rel : forall (r1 r2 : list (argv * bool)),
  Forall2 (fun x y => same_td (fst x) (fst y) /\ snd x = snd y) r1 r2 ->
  forallb snd r1 = forallb snd r2 /\ Forall2 same_td (map fst r1) (map fst r2).
Proof.
  induction 1; simpl; [split; [reflexivity|constructor]|].
  destruct H as [H1 H2]. destruct IHForall2 as [I1 I2]. rewrite H2, I1. split; auto.
Qed.

Theorem run_rel_Q : forall e, QI e.
Proof.
  induction e using expr_ind'.
  - (* ELit *) apply QI_of_rel; try congruence. unfold rel_e. simpl.
    destruct (sc_is_abstract sg s); simpl; auto.
  - (* EEmpty *) split; [unfold rel_e; simpl; auto|simpl; constructor].
  - (* ECast *)
    apply QI_of_rel; try congruence. destruct IHe as [IH _]. unfold rel_e in *. simpl. unfold bind.
    destruct (run1 e) as [[[t1 c1] v1]|]; destruct (run2 e) as [[[t2 c2] v2]|]; simpl in IH; try contradiction; auto.
    destruct IH as [-> ->].
    destruct (cast_ok sg cast_fuel2 true _ t); simpl; auto.
  - (* ETuple *)
    apply QI_of_rel; try congruence. unfold rel_e. simpl.
    destruct (n && has_dup (map fst els)); [simpl; auto|]. unfold bind at 1 3.
    pose proof (mapM_rel (fun nx => r <- run1 (snd nx) ;; Ok (fst nx, r))
                         (fun nx => r <- run2 (snd nx) ;; Ok (fst nx, r))
                         (fun y1 y2 => fst y1 = fst y2 /\ fst (snd y1) = fst (snd y2)) els) as HM.
    assert (HF : Forall (fun x => match (r <- run1 (snd x) ;; Ok (fst x, r)),
                                        (r <- run2 (snd x) ;; Ok (fst x, r)) with
                                  | Ok y1, Ok y2 => fst y1 = fst y2 /\ fst (snd y1) = fst (snd y2)
                                  | Err e1, Err e2 => e1 = e2
                                  | _, _ => False end) els).
    { eapply Forall_impl; [|exact H]. intros [nm x] [Hx _]. unfold rel_e in Hx. simpl in *. unfold bind.
      destruct (run1 x) as [[[t1 c1] v1]|]; destruct (run2 x) as [[[t2 c2] v2]|]; simpl in *; try contradiction; auto.
      destruct Hx as [-> ->]. auto. }
    specialize (HM HF).
    destruct (mapM _ els) as [rs1|]; destruct (mapM _ els) as [rs2|]; try contradiction; [|simpl; auto].
    simpl.
    assert (E : map (fun r : N * (ty * bool * list value) => (fst r, fst (fst (snd r)))) rs1 =
                map (fun r => (fst r, fst (fst (snd r)))) rs2 /\ forallb (fun r : N * (ty * bool * list value) => snd (fst (snd r))) rs1 =
                forallb (fun r => snd (fst (snd r))) rs2).
    { clear -HM. induction HM; simpl; auto. destruct H as [H1 H2]. destruct IHHM as [I1 I2].
      destruct x as [n1 [[t1 c1] v1]], y as [n2 [[t2 c2] v2]]. simpl in *.
      inversion H2; subst. rewrite I1, I2. auto. }
    destruct E as [E1 E2]. rewrite E1, E2. auto.
  - (* EArray *)
    apply QI_of_rel; try congruence. unfold rel_e. simpl. unfold bind at 1 3.
    pose proof (mapM_rel run1 run2 (fun y1 y2 => fst y1 = fst y2) es) as HM.
    assert (HF : Forall (fun x => match run1 x, run2 x with
                                  | Ok y1, Ok y2 => fst y1 = fst y2
                                  | Err e1, Err e2 => e1 = e2
                                  | _, _ => False end) es).
    { eapply Forall_impl; [|exact H]. intros x [Hx _]. unfold rel_e in Hx.
      destruct (run1 x) as [[[t1 c1] v1]|]; destruct (run2 x) as [[[t2 c2] v2]|]; simpl in *; try contradiction; auto.
      destruct Hx as [-> ->]. auto. }
    specialize (HM HF).
    destruct (mapM run1 es) as [rs1|]; destruct (mapM run2 es) as [rs2|]; try contradiction; [|simpl; auto].
    assert (E : map (fun r : ty * bool * list value => fst (fst r)) rs1 = map (fun r => fst (fst r)) rs2 /\ forallb (fun r : ty * bool * list value => snd (fst r)) rs1 = forallb (fun r => snd (fst r)) rs2).
    { clear -HM. induction HM; simpl; auto. destruct IHHM as [I1 I2].
      destruct x as [[t1 c1] v1], y as [[t2 c2] v2]. simpl in *. inversion H; subst. rewrite I1, I2. auto. }
    destruct E as [E1 E2]. rewrite E1, E2.
    destruct (existsb is_array (map (fun r => fst (fst r)) rs2)); [simpl; auto|].
    destruct (map (fun r => fst (fst r)) rs2) eqn:Em; [simpl; auto|].
    unfold bind. destruct (infer_common_type sg (t :: l)); simpl; auto.
  - (* ESet *)
    assert (HF : Forall2 relr (flat_map (set_elem farg1) es) (flat_map (set_elem farg2) es))
      by (apply flat_map_set_elem_rel; auto).
    split.
    + unfold rel_e. simpl.
      destruct HF as [|d1 d2 l1 l2 Hd HF]; [simpl; auto|].
      destruct HF as [|e1 e2 l1 l2 He HF].
      * unfold bind. destruct d1 as [[a1 c1]|]; destruct d2 as [[a2 c2]|]; simpl in Hd; try contradiction; auto.
        destruct Hd as [Hd ->]. simpl. split; auto. apply same_td_ty; auto.
      * assert (HL : Forall2 relr (d1 :: e1 :: l1) (d2 :: e2 :: l2)) by (repeat constructor; auto).
        assert (Hlen : length (d1 :: e1 :: l1) = length (d2 :: e2 :: l2)) by (eapply Forall2_len; eauto).
        rewrite Hlen.
        pose proof (balance_rel (S (length (d2 :: e2 :: l2))) _ _ HL) as Hb.
        unfold bind.
        destruct (balance sg prim1 castv1 _ (d1 :: e1 :: l1)) as [[a1 c1]|];
          destruct (balance sg prim2 castv2 _ (d2 :: e2 :: l2)) as [[a2 c2]|]; simpl in Hb; try contradiction; auto.
        destruct Hb as [Hb ->]. simpl. split; auto. apply same_td_ty; auto.
    + simpl. clear -H. induction H; simpl; [constructor|]. apply Forall2_app'; auto. apply H.
  - (* EOp *)
    apply QI_of_rel; try congruence. unfold rel_e. simpl. unfold bind at 1 3.
    pose proof (mapM_rel farg1 farg2 (fun x y => same_td (fst x) (fst y) /\ snd x = snd y) es) as HM.
    assert (HF : Forall (fun x => match farg1 x, farg2 x with
                                  | Ok y1, Ok y2 => same_td (fst y1) (fst y2) /\ snd y1 = snd y2
                                  | Err e1, Err e2 => e1 = e2
                                  | _, _ => False end) es).
    { eapply Forall_impl; [|exact H]. intros x [Hx _]. pose proof (farg_rel x Hx) as Hr. unfold relr in Hr.
      destruct (farg1 x) as [[a1 c1]|]; destruct (farg2 x) as [[a2 c2]|]; simpl in *; auto. }
    specialize (HM HF).
    destruct (mapM farg1 es) as [rs1|]; destruct (mapM farg2 es) as [rs2|]; try contradiction; [|simpl; auto].
    destruct (forallb_snd_rel _ _ HM) as [Es Ea]. rewrite Es.
    pose proof (compile_operator_rel o _ _ Ea) as Hc. unfold bind.
    destruct (compile_operator sg prim1 castv1 o (map fst rs1)) as [[[t1 c1] v1]|];
      destruct (compile_operator sg prim2 castv2 o (map fst rs2)) as [[[t2 c2] v2]|]; simpl in Hc; try contradiction; auto.
    destruct Hc as [-> ->]. simpl. auto.
  - (* ECall *)
    apply QI_of_rel; try congruence. unfold rel_e. simpl. unfold bind at 1 4.
    pose proof (mapM_rel farg1 farg2 (fun x y => same_td (fst x) (fst y) /\ snd x = snd y) es) as HM.
    assert (HF : Forall (fun x => match farg1 x, farg2 x with
                                  | Ok y1, Ok y2 => same_td (fst y1) (fst y2) /\ snd y1 = snd y2
                                  | Err e1, Err e2 => e1 = e2
                                  | _, _ => False end) es).
    { eapply Forall_impl; [|exact H]. intros x [Hx _]. pose proof (farg_rel x Hx) as Hr. unfold relr in Hr.
      destruct (farg1 x) as [[a1 c1]|]; destruct (farg2 x) as [[a2 c2]|]; simpl in *; auto. }
    specialize (HM HF).
    destruct (mapM farg1 es) as [rs1|]; destruct (mapM farg2 es) as [rs2|]; try contradiction; [|simpl; auto].
    destruct (forallb_snd_rel _ _ HM) as [Es Ea].
    unfold bind at 1 3.
    pose proof (mapM_rel (fun nx => r <- run1 (snd nx) ;; Ok (fst nx, as_arg (snd nx) r))
                         (fun nx => r <- run2 (snd nx) ;; Ok (fst nx, as_arg (snd nx) r))
                         (fun y1 y2 => fst y1 = fst y2 /\ same_td (fst (snd y1)) (fst (snd y2))
                                       /\ snd (snd y1) = snd (snd y2)) kw) as HK.
    assert (HFK : Forall (fun x => match (r <- run1 (snd x) ;; Ok (fst x, as_arg (snd x) r)),
                                         (r <- run2 (snd x) ;; Ok (fst x, as_arg (snd x) r)) with
                                   | Ok y1, Ok y2 => fst y1 = fst y2 /\ same_td (fst (snd y1)) (fst (snd y2))
                                                     /\ snd (snd y1) = snd (snd y2)
                                   | Err e1, Err e2 => e1 = e2
                                   | _, _ => False end) kw).
    { eapply Forall_impl; [|exact H0]. intros [nm x] [Hx _]. unfold rel_e in Hx. simpl in *. unfold bind.
      destruct (run1 x) as [[[t1 c1] v1]|]; destruct (run2 x) as [[[t2 c2] v2]|]; simpl in *; try contradiction; auto.
      destruct Hx as [-> ->]. repeat split; reflexivity. }
    specialize (HK HFK).
    destruct (mapM _ kw) as [ks1|]; destruct (mapM _ kw) as [ks2|]; try contradiction; [|simpl; auto].
    assert (EK : Forall2 same_kw (map (fun k : N * (argv * bool) => (fst k, fst (snd k))) ks1)
                                 (map (fun k => (fst k, fst (snd k))) ks2) /\ forallb (fun k : N * (argv * bool) => snd (snd k)) ks1 = forallb (fun k => snd (snd k)) ks2).
    { clear -HK. induction HK; simpl; [split; [constructor|reflexivity]|].
      destruct H as [H1 [H2 H3]]. destruct IHHK as [I1 I2]. rewrite H3, I2. split; auto.
      constructor; auto. split; auto. }
    destruct EK as [EK1 EK2]. rewrite Es, EK2.
    pose proof (compile_call_rel f _ _ _ _ Ea EK1) as Hc. unfold bind.
    destruct (compile_call sg prim1 castv1 f _ _) as [[[t1 c1] v1]|];
      destruct (compile_call sg prim2 castv2 f _ _) as [[[t2 c2] v2]|]; simpl in Hc; try contradiction; auto.
    destruct Hc as [-> ->]. simpl. auto.
  - (* ETupIdx *)
    apply QI_of_rel; try congruence. destruct IHe as [IH _]. unfold rel_e in *. simpl. unfold bind.
    destruct (run1 e) as [[[t1 c1] v1]|]; destruct (run2 e) as [[[t2 c2] v2]|]; simpl in IH; try contradiction; auto.
    destruct IH as [-> ->].
    destruct t2; simpl; auto.
    destruct (n <? 32)%N.
    + destruct (nth_error els (N.to_nat n)) as [[i x]|]; simpl; auto.
    + destruct named; simpl; auto. destruct (assoc n els); simpl; auto.
  - (* EIndex *)
    apply QI_of_rel; try congruence. destruct IHe1 as [IH1 _]. destruct IHe2 as [IH2 _].
    unfold rel_e in *. simpl. unfold bind.
    destruct (run1 e1) as [[[t1 c1] v1]|]; destruct (run2 e1) as [[[t2 c2] v2]|]; simpl in IH1; try contradiction; auto.
    destruct IH1 as [-> ->].
    destruct (run1 e2) as [[[u1 d1] w1]|]; destruct (run2 e2) as [[[u2 d2] w2]|]; simpl in IH2; try contradiction; auto.
    destruct IH2 as [-> ->].
    destruct (infer_index sg s_int64 t2 u2); simpl; auto.
  - (* EObj *)
    apply QI_of_rel; try congruence. unfold rel_e. simpl. auto.
  - (* EPtr *)
    apply QI_of_rel; try congruence. destruct IHe as [IH _]. unfold rel_e in *. simpl. unfold bind.
    destruct (run1 e) as [[[t1 c1] v1]|]; destruct (run2 e) as [[[t2 c2] v2]|]; simpl in IH; try contradiction; auto.
    destruct IH as [-> ->].
    destruct t2; simpl; auto.
    destruct (find_ptr ptrs o p); simpl; auto.
Qed.

Theorem run_rel : forall e, rel3 (run1 e) (run2 e).
Proof. intros e. apply (run_rel_Q e). Qed.

End Indep.

(* ------------------------------------------------------------------ resolution vs candidate order *)
Section MinBy.
Variable key : bcall -> Z.

Definition lmin (b : Z) (l : list bcall) : Z := fold_left (fun m c => Z.min m (key c)) l b.

Lemma lmin_le : forall l b, (lmin b l <= b)%Z.
Proof.
  induction l; simpl; intros; [lia|]. specialize (IHl (Z.min b (key a))). unfold lmin in *. lia.
Qed.

Lemma lmin_lower : forall l b c, In c l -> (lmin b l <= key c)%Z.
Proof.
  induction l; simpl; intros b c H; [contradiction|]. destruct H as [->|H].
  - pose proof (lmin_le l (Z.min b (key c))). unfold lmin in *. lia.
  - apply IHl; auto.
Qed.

Lemma lmin_attained : forall l b, lmin b l = b \/ exists c, In c l /\ key c = lmin b l.
Proof.
  induction l; simpl; intros b; [left; reflexivity|].
  destruct (IHl (Z.min b (key a))) as [H|[c [Hc Hk]]].
  - unfold lmin in *. simpl. destruct (Z.min_spec b (key a)) as [[_ E]|[_ E]].
    + left. rewrite H. exact E.
    + right. exists a. split; auto. rewrite H. symmetry. exact E.
  - right. exists c. split; auto.
Qed.

Lemma min_by_some : forall l b acc,
  min_by key l (Some b) acc =
  (if (lmin b l =? b)%Z then acc else []) ++ filter (fun c => (key c =? lmin b l)%Z) l.
Proof.
  induction l as [|c l IH]; intros b acc; simpl.
  - unfold lmin. simpl. rewrite Z.eqb_refl. rewrite app_nil_r. reflexivity.
  - change (fold_left (fun m c0 => Z.min m (key c0)) l (Z.min b (key c))) with (lmin (Z.min b (key c)) l).
    destruct (b =? key c)%Z eqn:E1.
    + apply Z.eqb_eq in E1. rewrite IH. rewrite <- E1. rewrite Z.min_id.
      destruct (lmin b l =? b)%Z eqn:E2.
      * apply Z.eqb_eq in E2. rewrite E2. rewrite Z.eqb_refl. rewrite <- app_assoc. reflexivity.
      * rewrite Z.eqb_sym. rewrite E2. reflexivity.
    + destruct (key c <? b)%Z eqn:E2.
      * apply Z.ltb_lt in E2. rewrite IH. rewrite Z.min_r by lia.
        pose proof (lmin_le l (key c)) as Hle.
        replace (lmin (key c) l =? b)%Z with false by (symmetry; apply Z.eqb_neq; lia).
        simpl. rewrite (Z.eqb_sym (key c)). destruct (lmin (key c) l =? key c)%Z; reflexivity.
      * apply Z.ltb_ge in E2. apply Z.eqb_neq in E1. rewrite IH. rewrite Z.min_l by lia.
        pose proof (lmin_le l b) as Hle.
        replace (key c =? lmin b l)%Z with false by (symmetry; apply Z.eqb_neq; lia).
        reflexivity.
Qed.

Definition gmin (l : list bcall) : Z := match l with [] => 0%Z | c :: l' => lmin (key c) l' end.

Lemma min_by_none : forall l, min_by key l None [] = filter (fun c => (key c =? gmin l)%Z) l.
Proof.
  destruct l as [|c l]; simpl; [reflexivity|]. rewrite min_by_some.
  rewrite (Z.eqb_sym (key c)). destruct (lmin (key c) l =? key c)%Z; reflexivity.
Qed.

Lemma gmin_lower : forall l c, In c l -> (gmin l <= key c)%Z.
Proof.
  destruct l as [|a l]; simpl; intros c H; [contradiction|]. destruct H as [->|H].
  - apply lmin_le.
  - apply lmin_lower; auto.
Qed.

Lemma gmin_attained : forall l, l <> [] -> exists c, In c l /\ key c = gmin l.
Proof.
  destruct l as [|a l]; intros H; [congruence|]. simpl.
  destruct (lmin_attained l (key a)) as [E|[c [Hc Hk]]].
  - exists a. split; auto.
  - exists c. split; auto.
Qed.

Lemma gmin_perm : forall l1 l2, Permutation l1 l2 -> gmin l1 = gmin l2.
Proof.
  intros l1 l2 P. destruct l1 as [|a l1].
  - apply Permutation_nil in P. subst. reflexivity.
  - assert (N2 : l2 <> []) by (intro; subst; apply Permutation_sym in P; apply Permutation_nil in P; discriminate).
    destruct (gmin_attained (a :: l1)) as [c1 [H1 K1]]; [congruence|].
    destruct (gmin_attained l2 N2) as [c2 [H2 K2]].
    pose proof (gmin_lower l2 c1 (Permutation_in _ P H1)).
    pose proof (gmin_lower (a :: l1) c2 (Permutation_in _ (Permutation_sym P) H2)). lia.
Qed.

Lemma filter_perm : forall {A} (p : A -> bool) l1 l2, Permutation l1 l2 -> Permutation (filter p l1) (filter p l2).
Proof.
  induction 1; simpl; auto.
  - destruct (p x); auto.
  - destruct (p x); destruct (p y); auto. apply perm_swap.
  - eapply Permutation_trans; eauto.
Qed.

Lemma min_by_perm : forall l1 l2, Permutation l1 l2 ->
  Permutation (min_by key l1 None []) (min_by key l2 None []).
Proof.
  intros l1 l2 P. rewrite !min_by_none. rewrite (gmin_perm _ _ P). apply filter_perm. exact P.
Qed.
End MinBy.

Arguments min_by : simpl never.

Section ResolvePerm.
Variable sg : sig.

Lemma bind_all_perm : forall args kw c1 c2, Permutation c1 c2 ->
  forall l1, bind_all sg false args kw c1 = Ok l1 ->
  exists l2, bind_all sg false args kw c2 = Ok l2 /\ Permutation l1 l2.
Proof.
  intros args kw c1 c2 P. induction P; intros l1 H.
  - exists l1. split; auto.
  - simpl in *. destruct (try_bind sg false args kw x).
    + apply IHP; auto.
    + discriminate.
    + unfold bind in *. destruct (bind_all sg false args kw l) as [r|] eqn:E; [|discriminate].
      inversion H; subst. destruct (IHP r eq_refl) as [r2 [E2 P2]]. rewrite E2.
      exists (b :: r2). split; auto.
  - simpl in *. unfold bind in *.
    destruct (try_bind sg false args kw y); destruct (try_bind sg false args kw x); try discriminate;
      destruct (bind_all sg false args kw l) as [r|]; try discriminate; inversion H; subst;
      eexists; split; try reflexivity; auto. apply perm_swap.
  - destruct (IHP1 l1 H) as [m [Em Pm]]. destruct (IHP2 m Em) as [n [En Pn]].
    exists n. split; auto. eapply Permutation_trans; eauto.
Qed.

(* overload resolution does not depend on the order in which the schema yields the candidates
   (schema.get_operators / get_functions iterate over sets) *)
Theorem find_callable_perm : forall args kw c1 c2 m1,
  Permutation c1 c2 -> find_callable sg c1 args kw = Ok m1 ->
  exists m2, find_callable sg c2 args kw = Ok m2 /\ Permutation m1 m2.
Proof.
  intros args kw c1 c2 m1 P H. unfold find_callable, bind in *.
  destruct (bind_all sg false args kw c1) as [l1|] eqn:E1; [|discriminate].
  destruct (bind_all_perm args kw c1 c2 P l1 E1) as [l2 [E2 P2]]. rewrite E2.
  set (k1 := fun c : bcall => sumZ (map ba_cd (bc_args c))) in *.
  pose proof (min_by_perm k1 l1 l2 P2) as PM.
  set (M1 := min_by k1 l1 None []) in *. set (M2 := min_by k1 l2 None []) in *.
  pose proof (Permutation_length PM) as Hlen.
  destruct M1 as [|a [|b r]].
  - apply Permutation_nil in PM. rewrite PM. inversion H; subst. exists []. split; auto.
  - destruct M2 as [|a2 [|b2 r2]]; simpl in Hlen; try discriminate.
    inversion H; subst. exists [a2]. split; auto.
  - destruct M2 as [|a2 [|b2 r2]]; simpl in Hlen; try discriminate.
    injection H as Hm. rewrite <- Hm. eexists. split; [reflexivity|]. apply min_by_perm. exact PM.
Qed.
End ResolvePerm.

Lemma stmt_type_sound :
  forall (sg : sig), sig_wf sg = true ->
  forall (s_int64 : N)
         (prim : bcall -> list (list value) -> list value)
         (castv : ty -> ty -> value -> list value)
         (idxp : ty -> value -> value -> list value)
         (db : N -> list value) (ptrs : list (N * N * ty)) (dbp : N -> N -> list value),
  (forall bc vals,
      Forall2 (fun vs b => typed sg (barg_target b) vs) vals (bc_args bc) ->
      typed sg (bc_ret bc) (prim bc vals)) ->
  (forall a b v, typed sg b (castv a b v)) ->
  (forall t v i, typed sg t (idxp t v i)) ->
  (forall o, typed sg (TObj o) (db o)) ->
  (forall a p t o id, find_ptr ptrs a p = Some t -> ob_sub sg o a = true -> typed sg t (dbp id p)) ->
  forall e t,
    stmt_type_clean sg s_int64 ptrs e = Ok (t, true) ->
    exists vs, run sg s_int64 prim castv idxp db ptrs dbp e = Ok (t, true, vs) /\
               Forall (fun v => has_type sg v t = true) vs.
Proof.
  intros sg WF i prim castv idxp db ptrs dbp Hp Hc Hi Hd Hdp e t H.
  unfold stmt_type_clean, type_of_clean, bind in H.
  pose proof (run_rel sg i (fun _ _ => []) prim (fun _ _ _ => []) castv (fun _ _ _ => []) idxp
                      (fun _ => []) db ptrs (fun _ _ => []) dbp e) as R.
  destruct (run sg i (fun _ _ => []) (fun _ _ _ => []) (fun _ _ _ => []) (fun _ => []) ptrs (fun _ _ => []) e)
    as [[[t0 c0] v0]|] eqn:E0; [|discriminate].
  simpl in H. destruct (has_generic t0); [discriminate|]. inversion H; subst.
  unfold rel3 in R.
  destruct (run sg i prim castv idxp db ptrs dbp e) as [[[t1 c1] v1]|] eqn:E1; [|contradiction].
  destruct R as [<- <-]. exists v1. split; auto.
  eapply run_sound; eauto.
Qed.

(* ------------------------------------------------------------------ common type: upper bound *)
Section CommonUB.
Variable sg : sig.
Variable ids : list N.          (* the scalar types that may occur *)

(* facts about the scalar level (checked by computation for the generated table) *)
Hypothesis Hconcrete : forall s, In s ids -> sc_is_abstract sg s = false.
Hypothesis Hsc : forall s q c, In s ids -> In q ids -> find_common sg (TS s) (TS q) = Some c ->
  impl_castable sg (TS s) c = true /\ impl_castable sg (TS q) c = true.
Hypothesis Hsc_sub : forall s q c, In s ids -> In q ids -> find_common sg (TS s) (TS q) = Some c ->
  issub sg (TS s) (TS q) = true -> issub sg (TS s) c = true.

(* types over those scalars (object types, pseudo types and all collections allowed; range
   subtypes are scalars; union types are never operands of a common-type computation) *)
Fixpoint ty_over (t : ty) : Prop :=
  match t with
  | TS s => In s ids
  | TAny | TAnyTuple | TAnyObject | TObj _ => True
  | TUnion _ => False
  | TArr e => ty_over e
  | TRng e | TMRng e => match e with TS s => In s ids | _ => False end
  | TTup _ els => (fix go (l : list (N * ty)) : Prop :=
                     match l with [] => True | (_, x) :: l' => ty_over x /\ go l' end) els
  end.

Lemma list_eqb_refl : forall l, list_eqb N.eqb l l = true.
Proof. induction l; simpl; auto. rewrite N.eqb_refl. auto. Qed.

Lemma ty_eqb_refl : forall t, ty_eqb t t = true.
Proof.
  induction t using ty_ind'; simpl; auto; try apply N.eqb_refl.
  - rewrite Bool.eqb_reflx. simpl. induction H; auto. destruct x as [i x]. simpl in *.
    rewrite N.eqb_refl, H. simpl. auto.
  - apply list_eqb_refl.
Qed.

Lemma topmost_concrete_some : forall s, sc_is_abstract sg s = false -> exists l, topmost_concrete sg s = Some l.
Proof.
  intros s H. unfold topmost_concrete.
  destruct (filter _ (rev (sc_ancestors sg s))); eauto. rewrite H. eauto.
Qed.

Lemma sc_cast_dist_refl : forall t, sc_cast_dist sg t t = 0%Z.
Proof. intros. unfold sc_cast_dist, cast_fuel. simpl. rewrite ty_eqb_refl. reflexivity. Qed.

Lemma impl_refl_scalar : forall s, In s ids -> impl_castable sg (TS s) (TS s) = true.
Proof.
  intros s Ho. simpl. rewrite (Hconcrete s Ho). simpl.
  destruct (topmost_concrete_some s (Hconcrete s Ho)) as [l ->]. rewrite sc_cast_dist_refl. reflexivity.
Qed.

Lemma impl_refl : forall t, ty_over t -> impl_castable sg t t = true.
Proof.
  induction t using ty_ind'; simpl; intros Ho.
  - apply (impl_refl_scalar s Ho).
  - reflexivity.
  - reflexivity.
  - reflexivity.
  - auto.
  - (* TTup *)
    rewrite Nat.eqb_refl. rewrite list_eqb_refl. simpl. rewrite andb_false_r. simpl.
    induction H; auto. destruct x as [i x]. simpl in *. destruct Ho as [Hx Ho].
    rewrite (H Hx). simpl. auto.
  - destruct t; try contradiction. apply (impl_refl_scalar s Ho).
  - destruct t; try contradiction. apply (impl_refl_scalar s Ho).
  - unfold ob_sub. rewrite N.eqb_refl. reflexivity.
  - contradiction.
Qed.

Lemma nearest_common_sub : forall anc a b x, In x (nearest_common anc a b) ->
  (x = a \/ In x (anc a)) /\ (x = b \/ In x (anc b)).
Proof.
  intros anc a b x. unfold nearest_common.
  set (common := filter (fun y => memN y (b :: anc b)) (a :: anc a)).
  assert (G : forall l acc, (forall y, In y acc -> In y common) -> (forall y, In y l -> In y common) ->
              forall y, In y (fold_left (fun nearests x0 =>
                 if existsb (fun y0 => N.eqb y0 x0 || memN x0 (anc y0)) nearests then nearests
                 else nearests ++ [x0]) l acc) -> In y common).
  { induction l; simpl; intros acc Ha Hl y Hy; auto.
    apply (IHl _) in Hy; auto.
    intros z Hz. destruct (existsb _ acc); auto. apply in_app_or in Hz as [Hz|[->|[]]]; auto. }
  intros H. apply (G common []) in H; auto; [|intros y []].
  unfold common in H. apply filter_In in H as [H1 H2]. apply memN_In in H2.
  simpl in H1, H2. split; [destruct H1; auto|destruct H2; auto].
Qed.

Definition fc_zip :=
  fix go (l : list (N * ty)) (r : list (N * ty)) {struct l} : option (list ty) :=
    match l, r with
    | (_, x) :: l', (_, y) :: r' =>
        match find_common sg x y with
        | Some c => match go l' r' with Some cs => Some (c :: cs) | None => None end
        | None => None
        end
    | _, _ => Some []
    end.

Definition impl_zip :=
  fix go (l : list (N * ty)) (r : list (N * ty)) {struct l} : bool :=
    match l, r with
    | (_, x) :: l', (_, y) :: r' => impl_castable sg x y && go l' r'
    | _, _ => true
    end.

Lemma find_common_tup_unfold : forall n xs m ys,
  find_common sg (TTup n xs) (TTup m ys) =
  if ty_eqb (TTup n xs) (TTup m ys) then Some (TTup n xs)
  else if negb (Nat.eqb (length xs) (length ys)) then None
  else match fc_zip xs ys with
       | None => None
       | Some cs =>
           if n && m && list_eqb N.eqb (map fst xs) (map fst ys)
           then Some (TTup true (combine (map fst xs) cs))
           else Some (TTup false (combine (map N.of_nat (seq 0 (length cs))) cs))
       end.
Proof. reflexivity. Qed.

Lemma impl_tup_unfold : forall n xs m ys,
  impl_castable sg (TTup n xs) (TTup m ys) =
  Nat.eqb (length xs) (length ys)
  && negb (n && m && negb (list_eqb N.eqb (map fst xs) (map fst ys)))
  && impl_zip xs ys.
Proof. reflexivity. Qed.

Lemma impl_tup_intro : forall n xs m zs,
  length xs = length zs ->
  (n && m && negb (list_eqb N.eqb (map fst xs) (map fst zs))) = false ->
  impl_zip xs zs = true -> impl_castable sg (TTup n xs) (TTup m zs) = true.
Proof. intros n xs m zs H H0 H1. rewrite impl_tup_unfold, H, Nat.eqb_refl, H0, H1. reflexivity. Qed.

Lemma fc_zip_cons : forall i x xs j y ys,
  fc_zip ((i, x) :: xs) ((j, y) :: ys) =
  match find_common sg x y with
  | Some c => match fc_zip xs ys with Some cs => Some (c :: cs) | None => None end
  | None => None
  end.
Proof. reflexivity. Qed.

Lemma impl_zip_cons : forall i x xs j y ys,
  impl_zip ((i, x) :: xs) ((j, y) :: ys) = impl_castable sg x y && impl_zip xs ys.
Proof. reflexivity. Qed.

Lemma fc_zip_spec : forall xs,
  Forall (fun p => forall b c, ty_over (snd p) -> ty_over b -> find_common sg (snd p) b = Some c ->
                   impl_castable sg (snd p) c = true /\ impl_castable sg b c = true) xs ->
  ty_over (TTup false xs) ->
  forall ys cs, ty_over (TTup false ys) -> length xs = length ys -> fc_zip xs ys = Some cs ->
  length cs = length xs /\
  forall names, length names = length cs ->
    impl_zip xs (combine names cs) = true /\ impl_zip ys (combine names cs) = true.
Proof.
  induction 1 as [|[i x] xs Hx HF IH]; intros Ho ys cs Hoy Hlen Hz.
  - destruct ys; [|discriminate]. simpl in Hz. inversion Hz; subst. split; [reflexivity|].
    intros names _. destruct names; simpl; auto.
  - destruct ys as [|[j y] ys]; [discriminate|]. rewrite fc_zip_cons in Hz.
    destruct (find_common sg x y) as [c|] eqn:Exy; [|discriminate].
    destruct (fc_zip xs ys) as [cs'|] eqn:Ez; [|discriminate]. inversion Hz; subst.
    simpl in Ho, Hoy. destruct Ho as [Hox Ho]. destruct Hoy as [Hoy1 Hoy].
    simpl in Hlen. injection Hlen as Hlen.
    destruct (IH Ho ys cs' Hoy Hlen Ez) as [L I]. split; [simpl; congruence|].
    intros names Hn. destruct names as [|nm names]; [discriminate|]. simpl in Hn. injection Hn as Hn.
    simpl in Hx. destruct (Hx y c Hox Hoy1 Exy) as [A B]. destruct (I names Hn) as [C D].
    simpl combine. rewrite !impl_zip_cons. rewrite A, B, C, D. auto.
Qed.

Lemma map_fst_combine : forall {A B} (l : list A) (m : list B), length l = length m -> map fst (combine l m) = l.
Proof. induction l; destruct m; simpl; intros; try discriminate; auto. f_equal. auto. Qed.

Lemma fc_rng_rng : forall x y, find_common sg (TRng x) (TRng y) =
  if ty_eqb (TRng x) (TRng y) then Some (TRng x)
  else match find_common sg x y with Some c => Some (TRng c) | None => None end.
Proof. reflexivity. Qed.
Lemma fc_rng_mrng : forall x y, find_common sg (TRng x) (TMRng y) =
  if negb (issub sg x y) then None
  else match find_common sg x y with Some c => Some (TMRng c) | None => None end.
Proof. reflexivity. Qed.
Lemma fc_mrng_mrng : forall x y, find_common sg (TMRng x) (TMRng y) =
  if ty_eqb (TMRng x) (TMRng y) then Some (TMRng x)
  else match find_common sg x y with Some c => Some (TMRng c) | None => None end.
Proof. reflexivity. Qed.

Theorem find_common_upper_bound :
  forall a b c, ty_over a -> ty_over b -> find_common sg a b = Some c ->
  impl_castable sg a c = true /\ impl_castable sg b c = true.
Proof.
  induction a using ty_ind'; intros b c Ha Hb Hfc.
  - (* TS *)
    destruct b; simpl in Hfc; try discriminate.
    apply Hsc; auto.
  - destruct b; simpl in Hfc; try discriminate. inversion Hfc; subst. simpl. auto.
  - destruct b; simpl in Hfc; try discriminate. inversion Hfc; subst. simpl. auto.
  - destruct b; simpl in Hfc; try discriminate. inversion Hfc; subst. simpl. auto.
  - (* TArr *)
    destruct b; simpl in Hfc; try discriminate.
    destruct (ty_eqb a b) eqn:E.
    + apply ty_eqb_eq in E. subst. inversion Hfc; subst.
      split; apply (impl_refl (TArr b)); auto.
    + destruct (find_common sg a b) as [c'|] eqn:Ec; [|discriminate]. inversion Hfc; subst.
      simpl. apply IHa; auto.
  - (* TTup *)
    destruct b as [| | | | |m ys| | | |]; try (simpl in Hfc; discriminate).
    rewrite find_common_tup_unfold in Hfc.
    destruct (ty_eqb (TTup n els) (TTup m ys)) eqn:E.
    + apply ty_eqb_eq in E. inversion Hfc; subst. rewrite <- E.
      split; apply (impl_refl (TTup n els)); auto.
    + destruct (Nat.eqb (length els) (length ys)) eqn:El; [|discriminate]. simpl in Hfc.
      apply Nat.eqb_eq in El.
      destruct (fc_zip els ys) as [cs|] eqn:Ez; [|discriminate].
      destruct (fc_zip_spec els H Ha ys cs Hb El Ez) as [L I].
      destruct (n && m && list_eqb N.eqb (map fst els) (map fst ys)) eqn:En; inversion Hfc; subst; clear Hfc.
      * apply andb_true_iff in En as [En Enames]. apply list_eqb_N_eq in Enames.
        assert (Hl : length (map fst els) = length cs) by (rewrite map_length; congruence).
        destruct (I (map fst els) Hl) as [A B].
        assert (Hlz : length (combine (map fst els) cs) = length els)
          by (rewrite combine_length, map_length, L, Nat.min_id; reflexivity).
        split; apply impl_tup_intro; auto; try congruence.
        -- rewrite (map_fst_combine _ _ Hl). rewrite list_eqb_refl. simpl. apply andb_false_r.
        -- rewrite (map_fst_combine _ _ Hl). rewrite <- Enames. rewrite list_eqb_refl. simpl. apply andb_false_r.
      * assert (Hl : length (map N.of_nat (seq 0 (length cs))) = length cs)
          by (rewrite map_length, seq_length; reflexivity).
        destruct (I _ Hl) as [A B].
        assert (Hlz : length (combine (map N.of_nat (seq 0 (length cs))) cs) = length els)
          by (rewrite combine_length, Hl, Nat.min_id; exact L).
        split; apply impl_tup_intro; auto; try congruence; rewrite andb_false_r; reflexivity.
  - (* TRng *)
    destruct a; try contradiction. simpl in Ha.
    destruct b; try (simpl in Hfc; discriminate).
    + destruct b; try contradiction. simpl in Hb. rewrite fc_rng_rng in Hfc.
      destruct (ty_eqb (TRng (TS s)) (TRng (TS s0))) eqn:E.
      * apply ty_eqb_eq in E. inversion E; subst. inversion Hfc; subst.
        split; apply (impl_refl_scalar s0 Ha).
      * destruct (find_common sg (TS s) (TS s0)) as [c'|] eqn:Ec; [|discriminate]. inversion Hfc; subst.
        change (impl_castable sg (TS s) c' = true /\ impl_castable sg (TS s0) c' = true).
        apply Hsc; auto.
    + (* range vs multirange: the range's element type must be a subclass of the multirange's *)
      destruct b; try contradiction. simpl in Hb. rewrite fc_rng_mrng in Hfc.
      destruct (issub sg (TS s) (TS s0)) eqn:Es; [|discriminate]. simpl negb in Hfc. cbv iota in Hfc.
      destruct (find_common sg (TS s) (TS s0)) as [c'|] eqn:Ec; [|discriminate]. inversion Hfc; subst.
      change (issub sg (TS s) c' = true /\ impl_castable sg (TS s0) c' = true).
      split; [eapply Hsc_sub; eauto|apply (Hsc s s0 c' Ha Hb Ec)].
  - (* TMRng *)
    destruct a; try contradiction. simpl in Ha.
    destruct b; try (simpl in Hfc; discriminate).
    destruct b; try contradiction. simpl in Hb. rewrite fc_mrng_mrng in Hfc.
    destruct (ty_eqb (TMRng (TS s)) (TMRng (TS s0))) eqn:E.
    + apply ty_eqb_eq in E. inversion E; subst. inversion Hfc; subst.
      split; apply (impl_refl_scalar s0 Ha).
    + destruct (find_common sg (TS s) (TS s0)) as [c'|] eqn:Ec; [|discriminate]. inversion Hfc; subst.
      change (impl_castable sg (TS s) c' = true /\ impl_castable sg (TS s0) c' = true).
      apply Hsc; auto.
  - (* TObj *)
    destruct b; simpl in Hfc; try discriminate.
    destruct (nearest_common (ob_ancestors sg) o o0) as [|x rest] eqn:En; [discriminate|].
    inversion Hfc; subst. simpl.
    destruct (nearest_common_sub (ob_ancestors sg) o o0 x) as [A B]; [rewrite En; simpl; auto|].
    unfold ob_sub. split; apply orb_true_iff.
    + destruct A as [->|A]; [left; apply N.eqb_refl|right; apply memN_In; auto].
    + destruct B as [->|B]; [left; apply N.eqb_refl|right; apply memN_In; auto].
  - contradiction.
Qed.
End CommonUB.

(* ------------------------------------------------------------------ the generated table *)
From Verif.C12 Require Import Gen_StdSig.

Lemma std_sig_wf : sig_wf std_sig = true.
Proof. vm_compute. reflexivity. Qed.

(* the non-abstract scalar types of the std library (abstract scalars such as anyreal never type
   an expression of a query; they only occur in signatures) *)
Definition std_scalar_ids : list N :=
  map sc_id (filter (fun d => negb (sc_abstract d)) (sg_scalars std_sig)).

Definition ub (s : N) (c : ty) : bool := issub std_sig (TS s) c || impl_castable std_sig (TS s) c.

Definition opt_ty_eqb (a b : option ty) : bool :=
  match a, b with
  | Some x, Some y => ty_eqb x y
  | None, None => true
  | _, _ => false
  end.

Lemma opt_ty_eqb_eq : forall a b, opt_ty_eqb a b = true -> a = b.
Proof.
  destruct a, b; simpl; intros; try discriminate; auto. apply ty_eqb_eq in H. subst. auto.
Qed.

Definition all_pairs (p : N -> N -> bool) : bool :=
  forallb (fun s => forallb (fun q => p s q) std_scalar_ids) std_scalar_ids.

Lemma all_pairs_spec : forall p, all_pairs p = true ->
  forall s q, In s std_scalar_ids -> In q std_scalar_ids -> p s q = true.
Proof.
  unfold all_pairs. intros p H s q Hs Hq. rewrite forallb_forall in H. specialize (H s Hs).
  rewrite forallb_forall in H. auto.
Qed.

Lemma std_common_upper_bound_b :
  all_pairs (fun s q => match find_common std_sig (TS s) (TS q) with
                        | Some c => ub s c && ub q c
                        | None => true end) = true.
Proof. vm_compute. reflexivity. Qed.

Lemma std_common_upper_bound :
  forall s q c, In s std_scalar_ids -> In q std_scalar_ids ->
  find_common std_sig (TS s) (TS q) = Some c ->
  (issub std_sig (TS s) c || impl_castable std_sig (TS s) c) = true /\
  (issub std_sig (TS q) c || impl_castable std_sig (TS q) c) = true.
Proof.
  intros s q c Hs Hq H.
  pose proof (all_pairs_spec _ std_common_upper_bound_b s q Hs Hq) as P. cbv beta in P.
  rewrite H in P. apply andb_true_iff in P. exact P.
Qed.

Lemma std_common_symmetric_b :
  all_pairs (fun s q => opt_ty_eqb (find_common std_sig (TS s) (TS q))
                                   (find_common std_sig (TS q) (TS s))) = true.
Proof. vm_compute. reflexivity. Qed.

Lemma std_common_symmetric :
  forall s q, In s std_scalar_ids -> In q std_scalar_ids ->
  find_common std_sig (TS s) (TS q) = find_common std_sig (TS q) (TS s).
Proof.
  intros s q Hs Hq. apply opt_ty_eqb_eq.
  exact (all_pairs_spec _ std_common_symmetric_b s q Hs Hq).
Qed.

Definition rot1 (l : list ty) : list ty := match l with [] => [] | x :: l' => l' ++ [x] end.

Lemma std_common_order_independent_b :
  all_pairs (fun s q =>
    opt_ty_eqb (common_castable_g std_sig (@rev ty) cast_fuel (TS s) (TS q))
               (common_castable std_sig cast_fuel (TS s) (TS q))
    && opt_ty_eqb (common_castable_g std_sig rot1 cast_fuel (TS s) (TS q))
                  (common_castable std_sig cast_fuel (TS s) (TS q))) = true.
Proof. vm_compute. reflexivity. Qed.

Lemma std_common_order_independent :
  forall s q, In s std_scalar_ids -> In q std_scalar_ids ->
  common_castable_g std_sig (@rev ty) cast_fuel (TS s) (TS q) = common_castable std_sig cast_fuel (TS s) (TS q) /\
  common_castable_g std_sig rot1 cast_fuel (TS s) (TS q) = common_castable std_sig cast_fuel (TS s) (TS q).
Proof.
  intros s q Hs Hq.
  pose proof (all_pairs_spec _ std_common_order_independent_b s q Hs Hq) as P. cbv beta in P.
  apply andb_true_iff in P as [P1 P2]. split; apply opt_ty_eqb_eq; assumption.
Qed.

Lemma std_concrete_b : forallb (fun s => negb (sc_is_abstract std_sig s)) std_scalar_ids = true.
Proof. vm_compute. reflexivity. Qed.

Lemma std_common_impl_b :
  all_pairs (fun s q => match find_common std_sig (TS s) (TS q) with
                        | Some c => impl_castable std_sig (TS s) c && impl_castable std_sig (TS q) c
                                    && (negb (issub std_sig (TS s) (TS q)) || issub std_sig (TS s) c)
                        | None => true end) = true.
Proof. vm_compute. reflexivity. Qed.

(* the common type of ANY two types built over the concrete std scalars (arrays, tuples, named
   tuples, ranges, multiranges, object types, at any nesting depth) is an upper bound: each
   operand is implicitly castable to it *)
Lemma std_common_type_upper_bound :
  forall a b c, ty_over std_scalar_ids a -> ty_over std_scalar_ids b ->
  find_common std_sig a b = Some c ->
  impl_castable std_sig a c = true /\ impl_castable std_sig b c = true.
Proof.
  apply find_common_upper_bound.
  - intros s Hs. pose proof std_concrete_b as H. rewrite forallb_forall in H.
    apply negb_true_iff. apply H. exact Hs.
  - intros s q c Hs Hq Hc. pose proof (all_pairs_spec _ std_common_impl_b s q Hs Hq) as P. cbv beta in P.
    rewrite Hc in P. apply andb_true_iff in P as [P _]. apply andb_true_iff in P. exact P.
  - intros s q c Hs Hq Hc Hsub. pose proof (all_pairs_spec _ std_common_impl_b s q Hs Hq) as P. cbv beta in P.
    rewrite Hc in P. apply andb_true_iff in P as [_ P]. rewrite Hsub in P. simpl in P. exact P.
Qed.

(* ------------------------------------------------------------------ an example semantics *)

(* a primitive that returns its first argument set when the first parameter's (instantiated)
   type is the (instantiated) return type, nothing otherwise *)
Definition prim_ex (bc : bcall) (vals : list (list value)) : list value :=
  match bc_args bc, vals with
  | b :: _, vs :: _ => if ty_eqb (barg_target b) (bc_ret bc) then vs else []
  | _, _ => []
  end.
(* scalar casts re-tag the payload *)
Definition castv_ex (a b : ty) (v : value) : list value :=
  match b, v with TS q, VS _ p => [VS q p] | _, _ => [] end.
Definition idxp_ex (t : ty) (v i : value) : list value := [].
Definition db_ex (o : N) : list value := [VObj o 1%N; VObj o 2%N].
Definition dbp_ex (id p : N) : list value := [].

Lemma example_semantics_ok_gen : forall sg,
  (forall bc vals,
      Forall2 (fun vs b => typed sg (barg_target b) vs) vals (bc_args bc) ->
      typed sg (bc_ret bc) (prim_ex bc vals)) /\
  (forall a b v, typed sg b (castv_ex a b v)) /\
  (forall t v i, typed sg t (idxp_ex t v i)) /\
  (forall o, typed sg (TObj o) (db_ex o)).
Proof.
  intros sg. repeat split.
  - intros bc vals H. unfold prim_ex. inversion H; subst; [constructor|].
    destruct (ty_eqb (barg_target y) (bc_ret bc)) eqn:E; [|constructor].
    apply ty_eqb_eq in E. rewrite <- E. assumption.
  - intros a b v. unfold castv_ex. destruct b; try constructor. destruct v; try constructor.
    + simpl. apply sc_sub_refl.
    + constructor.
  - constructor.
  - intros o. unfold db_ex. repeat constructor; simpl; apply ob_sub_refl.
Qed.

Lemma example_semantics_ok :
  (forall bc vals,
      Forall2 (fun vs b => typed std_sig (barg_target b) vs) vals (bc_args bc) ->
      typed std_sig (bc_ret bc) (prim_ex bc vals)) /\
  (forall a b v, typed std_sig b (castv_ex a b v)) /\
  (forall t v i, typed std_sig t (idxp_ex t v i)) /\
  (forall o, typed std_sig (TObj o) (db_ex o)).
Proof. exact (example_semantics_ok_gen std_sig). Qed.
